package main

import (
	"encoding/json"
	"fmt"
	"math/rand"
)

// C05 / C09 / C12 share the receive-loop runner (recv.go) and model (Model/Recv.v).
type recvProp struct {
	id   string
	gen  func(r *rand.Rand, tier string) []interface{}
	rule string
	w    int
}

func (p recvProp) ID() string    { return p.id }
func (p recvProp) RunFn() string { return "run_recv" }
func (p recvProp) Workers() int  { return p.w }
func (p recvProp) Rule() string  { return p.rule }
func (p recvProp) Journal() bool { return true }
func (p recvProp) Gen(r *rand.Rand, tier string) []interface{} {
	return p.gen(r, tier)
}
func (p recvProp) Decode(raw json.RawMessage) (interface{}, error) {
	var in recvIn
	err := json.Unmarshal(raw, &in)
	for i := range in.Items {
		if in.Items[i].XML == "" {
			if in.Items[i].T == "stanza" && in.Items[i].Size > 0 {
				in.Items[i].renderSized(in.WS) // exactly Size bytes on the wire, on either transport
				continue
			}
			in.Items[i].render()
			if in.WS && in.Items[i].T == "stanza" {
				in.Items[i].XML = wsNS(in.Items[i].XML)
			}
		}
	}
	return in, err
}
func (p recvProp) Run(in interface{}) Sx   { return runRecv(in.(recvIn)) }
func (p recvProp) Input(in interface{}) Sx { return recvInputSx(in.(recvIn)) }

func (p recvProp) Key(inp interface{}) (string, bool) {
	in := inp.(recvIn)
	k := fmt.Sprintf("c%v sm%v w%d cut%d ws%v%v%v lg%v%v:", in.Component, in.SM, in.WFail, in.Cut, in.WS, in.Frag, in.PeerClose || in.PeerCloseNow, in.Logged, in.ErrWithData)
	if in.LateRecv != "" || in.LogFailAt > 0 || in.NoErrH {
		k += fmt.Sprintf("late%s lf%d ne%v:", in.LateRecv, in.LogFailAt, in.NoErrH)
		if in.LateRecv != "" {
			hist("ws:receiver-starts-after-the-connection-ended:" + in.LateRecv)
		}
		if in.LogFailAt > 0 {
			hist("logger:log-refuses-writes")
		}
		if in.NoErrH {
			hist("client:no-error-callback")
		}
	}
	if len(in.WFails) > 0 || in.WFrom > 0 {
		k += fmt.Sprintf("w%v+%d:", in.WFails, in.WFrom)
		hist("fault:several-or-from")
	}
	if in.WS {
		hist("transport:websocket")
	} else if in.Logged {
		hist("transport:xmpp-read-path-with-logger")
	} else {
		hist("transport:stub")
	}
	st, nr := 0, 0
	for _, it := range in.completeItems() {
		k += it.T[:1]
		if it.T == "serr" && it.Repl {
			k += "R"
			hist("item:serr-handler-reconnects")
		}
		if it.T == "stanza" {
			k += fmt.Sprint(it.Kind)
			st++
			if it.Size > 0 {
				k += fmt.Sprintf("[%d/%d]", it.Size, it.Shape)
				hist("item:sized:" + sizeClass(it.Size) + []string{":long-text", ":many-children"}[it.Shape%2])
				switch {
				case in.WS && in.Frag:
					hist("sized-over:websocket-fragmented")
				case in.WS:
					hist("sized-over:websocket-one-message")
				case in.Logged:
					hist("sized-over:xmpp-transport-read-path")
				default:
					hist("sized-over:stub")
				}
			}
		}
		if it.T == "r" {
			nr++
		}
		hist("item:" + it.T)
	}
	if in.Component {
		hist("role:component")
	} else {
		hist("role:client")
	}
	return k, st >= 2 && (in.Component || nr >= 1 || p.id == "C12")
}

// Model-free oracle: evaluates the property's predicate on the observed logs.
func (p recvProp) Oracle(inp interface{}, obs Sx) (string, string) {
	in := inp.(recvIn)
	if len(obs.L) != 3 || obs.L[0].K != "l" {
		return "receive loop did not finish: " + obs.String(), "hang"
	}
	syncLog, async, leaked := obs.L[0].L, obs.L[1].L, obs.L[2].Z
	// what was completely received and processed before the loop had to stop
	processed, endedBy := in.processedItems()
	nw, failedAnswers := 0, 0
	for _, it := range processed {
		if it.T == "r" && !in.Component {
			nw++
			if in.writeFails(nw) {
				failedAnswers++ // the answer cannot be written; the loop goes on with what it has received
			}
		}
	}
	// 1. every stanza routed exactly once (client: as a multiset; component: in order, synchronously)
	var wantSt []string
	nst, nserr := 0, 0
	for _, it := range processed {
		if it.T == "stanza" {
			wantSt = append(wantSt, it.sx().String())
			nst++
		}
		if it.T == "serr" {
			nserr++
		}
	}
	var gotSt []string
	src := async
	if in.Component {
		src = nil
		for _, e := range syncLog {
			if e.L[0].Z == 0 {
				src = append(src, e.L[1])
			}
		}
		if len(async) != 0 {
			return "component: a handler call was not recorded in the ordered log", "component-async"
		}
	}
	for _, x := range src {
		if len(x.L) > 0 && x.L[0].Z == 0 {
			gotSt = append(gotSt, x.String())
		}
	}
	if len(gotSt) != len(wantSt) {
		return fmt.Sprintf("%d stanzas completely received before the loop ended (%s), %d handler invocations for stanzas", len(wantSt), endedBy, len(gotSt)), "routed-count"
	}
	for i := range wantSt {
		if gotSt[i] != wantSt[i] {
			return fmt.Sprintf("stanza routing differs at %d: want %s got %s", i, wantSt[i], gotSt[i]), "routed-which"
		}
	}
	// 2. every <r/> answered with the number of stanzas received so far
	if !in.Component {
		want := []int64{}
		cnt := int64(in.Inb)
		for _, it := range processed {
			if it.T == "stanza" {
				cnt++
			}
			if it.T == "r" {
				want = append(want, cnt)
			}
		}
		var got []int64
		nfailed := 0
		for _, e := range syncLog {
			if e.L[0].Z == 2 || e.L[0].Z == 3 {
				// written, or attempted and refused by the transport (injected fault): one per request either way
				got = append(got, e.L[1].Z)
				if e.L[0].Z == 3 {
					nfailed++
				}
			}
			if e.L[0].Z == 99 {
				return "unexpected bytes written by the receive loop: " + e.String(), "stray-write"
			}
		}
		if len(got) != len(want) {
			return fmt.Sprintf("%d acknowledgement requests processed, %d answers written", len(want), len(got)), "answers-count"
		}
		for i := range want {
			if got[i] != want[i] {
				return fmt.Sprintf("answer %d reports h=%d but %d stanzas had been received", i, got[i], want[i]), "answer-h"
			}
		}
		if nfailed != failedAnswers {
			return fmt.Sprintf("%d answers refused by the transport, %d faults injected", nfailed, failedAnswers), "answers-failed-count"
		}
	}
	// 3. loss reported exactly once
	nerr, ndisc, nquit := 0, 0, 0
	var discInb int64 = -1
	for _, e := range syncLog {
		if in.Component && e.L[0].Z >= 2 && e.L[0].Z <= 9 {
			// component: the loop's other actions are reported as (kind count)
			n := int(e.L[1].Z)
			switch e.L[0].Z {
			case 4:
				nerr += n
			case 5:
				ndisc += n
				discInb = 0
			case 9:
				nquit += n
			}
			continue
		}
		switch e.L[0].Z {
		case 4:
			nerr++
		case 5:
			ndisc++
			discInb = e.L[1].Z
		case 9:
			nquit++
		case 90:
			return "receive loop returned without closing the keepalive quit channel", "quit-not-closed"
		}
	}
	if nquit != 1 {
		return "receive loop end not observed exactly once", "quit"
	}
	if !in.Component {
		// the keepalive of the lost connection must have been told to stop when the loss is reported: the
		// Disconnected handler of a StreamManager only returns once a new session is up
		quitAt, discAt := -1, -1
		for i, e := range syncLog {
			switch e.L[0].Z {
			case 9:
				quitAt = i
			case 5:
				if discAt < 0 {
					discAt = i
				}
			}
		}
		if discAt >= 0 && quitAt > discAt {
			return "the keepalive quit channel was still open when the Disconnected handler started: the keepalive of the lost connection goes on during the outage", "quit-after-disconnected"
		}
		// ... and when ANY application callback is entered on the receive goroutine (a handler called synchronously,
		// the error callback, an event handler): under a StreamManager such a callback returns only when a new
		// session is up
		for i, e := range syncLog {
			if t := e.L[0].Z; i < quitAt && (t == 0 || t == 4 || t == 5 || t == 6) {
				return fmt.Sprintf("the keepalive quit channel was still open when the receive goroutine entered an application callback (%s)", e.String()), "quit-after-callback"
			}
		}
		// without a stream error nothing is written, closed or routed by the loop once quit is closed
		if nserr == 0 {
			for i, e := range syncLog {
				if t := e.L[0].Z; i > quitAt && quitAt >= 0 && t != 4 && t != 5 {
					return fmt.Sprintf("the receive loop went on (%s) after closing the keepalive quit channel", e.String()), "active-after-quit"
				}
			}
		}
		for _, e := range syncLog {
			if e.L[0].Z == 5 && len(e.L) >= 3 && e.L[2].K == "z" && e.L[2].Z != 1 {
				return "the Disconnected event does not carry the session's stream-management state (Id / queue differ)", "disconnected-state"
			}
		}
	}
	if endedBy == "handover" {
		// the handler of the stream error has replaced the connection: the loop leaves it to the new session
		if ndisc != 0 {
			return fmt.Sprintf("stream error whose handler reconnected: %d Disconnected events from the old loop", ndisc), "disconnected-events-handover"
		}
		if nerr != nserr {
			return fmt.Sprintf("stream error whose handler reconnected: %d error callbacks (stream errors seen: %d)", nerr, nserr), "error-callbacks-handover"
		}
		if n := len(syncLog); n > 0 && syncLog[n-1].L[0].Z == 7 {
			return "stream error whose handler reconnected: the old loop closed the transport, which belongs to the new session", "handover-closes-transport"
		}
		if leaked != 0 {
			return fmt.Sprintf("%d goroutines of the library still alive after the loop ended", leaked), "goroutine-leak"
		}
		return "", ""
	}
	if in.NoErrH {
		// no error callback was given: there is nothing to call (and nothing may crash); the rest is as ever
		if nerr != 0 {
			return fmt.Sprintf("%d error callbacks although none was registered", nerr), "error-callbacks-none-registered"
		}
		nerr = nserr
		if endedBy != "close" && endedBy != "handover" {
			nerr++
		}
	}
	if endedBy == "close" && in.Component {
		// a component too reports a stream closed by the server as a disconnection (no error)
		if ndisc != 1 {
			return fmt.Sprintf("component, stream closed by the server: %d Disconnected events", ndisc), "disconnected-events-close-component"
		}
		if nerr != nserr {
			return fmt.Sprintf("component, stream closed by the server: %d error callbacks (stream errors seen: %d)", nerr, nserr), "error-callbacks-close-component"
		}
	}
	if endedBy == "close" && !in.Component {
		// the server closed the stream: still a disconnection, but no error
		if ndisc != 1 {
			return fmt.Sprintf("stream closed by the server: %d Disconnected events", ndisc), "disconnected-events-close"
		}
		if nerr != nserr {
			return fmt.Sprintf("stream closed by the server: %d error callbacks (stream errors seen: %d)", nerr, nserr), "error-callbacks-close"
		}
	}
	if endedBy != "close" {
		if ndisc != 1 {
			return fmt.Sprintf("connection lost (%s): %d Disconnected events", endedBy, ndisc), "disconnected-events-" + endedBy
		}
		if nerr != 1+nserr {
			return fmt.Sprintf("connection lost (%s): %d error callbacks (stream errors seen: %d)", endedBy, nerr, nserr), "error-callbacks-" + endedBy
		}
		if !in.Component && discInb != int64(in.Inb+nst) {
			return fmt.Sprintf("Disconnected event carries Inbound=%d, stanzas received=%d", discInb, in.Inb+nst), "disconnected-inbound"
		}
	}
	if leaked != 0 {
		return fmt.Sprintf("%d goroutines of the library still alive after the loop ended", leaked), "goroutine-leak"
	}
	return "", ""
}

// sizeClass names the size of an element for the input distribution.
func sizeClass(n int) string {
	switch {
	case n < 64<<10:
		return "<64KiB"
	case n < 1<<20:
		return "64KiB..1MiB-1"
	case n == 1<<20:
		return "=1MiB"
	case n <= 2<<20:
		return "1MiB+1..2MiB"
	case n <= 4<<20:
		return "2MiB..4MiB"
	default:
		return ">4MiB"
	}
}

// sizedItem: a stanza whose serialization is exactly size bytes on the transport it is sent over.
func sizedItem(kind, id, size, shape int, ws bool) rItem {
	it := rItem{T: "stanza", Kind: kind, ID: id, Size: size, Shape: shape}
	it.renderSized(ws)
	return it
}

// genSized: the size dimension. One element of a size around the powers of two a transport may treat specially
// (64 KiB, 1 MiB) and well beyond, as one long text and as many small children, alone and with further elements
// behind it (they must be routed and answered too), over each transport: the stub, the real XMPPTransport read path,
// the WebSocket transport with the element as one message and as a fragmented message; client and component.
func genSized(r *rand.Rand, tier string) []interface{} {
	sizes := []int{64<<10 - 1, 64 << 10, 1<<20 - 1, 1 << 20, 1<<20 + 1, 3 << 19, 4 << 20}
	if tier == "thorough" {
		sizes = append(sizes, 2<<20+1, 16<<20)
	}
	var out []interface{}
	small := func(id int) rItem {
		it := rItem{T: "stanza", Kind: id % 3, ID: id, Var: 0}
		it.render()
		return it
	}
	req := rItem{T: "r"}
	req.render()
	for _, size := range sizes {
		for shape := 0; shape < 2; shape++ {
			for tr := 0; tr < 5; tr++ { // 0 stub, 1 read path of XMPPTransport, 2 websocket, 3 websocket fragmented, 4 component (stub)
				for _, followed := range []bool{false, true} {
					ws := tr == 2 || tr == 3
					in := recvIn{Cut: -1, SM: r.Intn(2) == 0, Logged: tr == 1, ErrWithData: tr == 1 && r.Intn(2) == 0, WS: ws, Frag: tr == 3, Component: tr == 4}
					if tr == 0 || tr == 4 {
						in.Chunk = []int{0, 4096, 65536}[r.Intn(3)]
					}
					if tr == 4 {
						in.SM = false
					}
					kind := r.Intn(3)
					if shape == 1 && kind == 2 && r.Intn(2) == 0 {
						kind = 0
					}
					items := []rItem{small(1), sizedItem(kind, 2, size, shape, ws)}
					if !followed && r.Intn(2) == 0 {
						items = items[1:] // the very first element of the session
					}
					if followed {
						items = append(items, small(3))
						if tr != 4 {
							items = append(items, req)
						}
						if r.Intn(2) == 0 {
							// a second one of another size right behind
							items = append(items, sizedItem(r.Intn(3), 5, sizes[r.Intn(len(sizes))]/(1+r.Intn(3)), r.Intn(2), ws))
						}
						items = append(items, small(6))
					}
					if ws {
						items = wsify(items)
					}
					in.Items = items
					out = append(out, in)
				}
			}
		}
	}
	// random sizes in random histories, over each transport
	n := 40
	if tier == "thorough" {
		n = 400
	}
	for i := 0; i < n; i++ {
		ws := i%2 == 0
		in := recvIn{Cut: -1, SM: r.Intn(2) == 0, WS: ws, Frag: ws && i%4 == 0, PeerClose: ws && i%8 == 2, Logged: !ws && i%4 == 1, Component: !ws && i%8 == 3}
		if in.Component {
			in.SM = false
		}
		if !ws {
			in.Chunk = []int{0, 4096, 65536}[r.Intn(3)]
		}
		items := genItems(r, 1+r.Intn(12), false, in.Component)
		for k := 0; k < 1+r.Intn(2); k++ {
			var size int
			switch r.Intn(3) {
			case 0:
				size = 30000 + r.Intn(1<<20)
			case 1:
				size = 1<<20 - 2 + r.Intn(5)
			default:
				size = 1<<20 + r.Intn(2<<20)
			}
			at := r.Intn(len(items) + 1)
			items = append(items[:at:at], append([]rItem{sizedItem(r.Intn(3), 7000+10*i+k, size, r.Intn(2), ws)}, items[at:]...)...)
		}
		if ws {
			items = wsify(items)
		}
		in.Items = items
		out = append(out, in)
	}
	return out
}

func init() {
	register(recvProp{id: "C05", w: 8, gen: genC05,
		rule: "random inbound histories (0-60 items over message/presence/iq of each type with varied content, <r/>, <a/>, features and other non-stanza elements, stream errors, stream close, rejected elements), client with SM on/off and component, read chunk sizes 1/7/unlimited, write faults on the answers (one write, several, or every write from some point on); histories around a stream error whose event handler leaves the connection alone or replaces it as a StreamManager does; the keepalive quit channel sampled whenever the receive goroutine enters a callback or a transport call; one history in seven read through the real XMPPTransport read path (traffic logger, buffered decoder) over a scripted net.Conn whose last bytes arrive together with the read error; one case in nine over the real WebSocket transport (loopback websocket server, one frame per element, frames up to 28 kB, single messages up to 210 kB); the size dimension: one element of exactly 64 KiB - 1, 64 KiB, 1 MiB - 1, 1 MiB, 1 MiB + 1, 1.5 MiB, 4 MiB (thorough: 2 MiB + 1, 16 MiB) bytes and of random sizes up to 3 MiB, as one long text and as many small children, alone, first, and followed by further stanzas, an <r/> and a second sized element, over the stub, the XMPPTransport read path, the WebSocket transport as one message and as a message fragmented into 60 kB frames, client and component (sized elements are generated from (kind, id, size, shape) on both sides, not stored in case files); a receiver that starts only after a burst of 300-450 elements was sent and the connection ended, its answers written on the dead connection; a traffic log that refuses writes from some point on; a client without error callback; distinct = role/sm/fault + item-kind sequence; non-trivial = >= 2 stanzas and (component or >= 1 <r/>)"})
}

func genC05(r *rand.Rand, tier string) []interface{} {
	n := 500
	if tier == "thorough" {
		n = 12000
	}
	var out []interface{}
	// corner: unsolicited <a/> with stream management never enabled (D14)
	a := rItem{T: "a", H: 1}
	a.render()
	m := rItem{T: "stanza", Kind: 0, ID: 2, Var: 0}
	m.render()
	out = append(out, recvIn{SM: false, Items: []rItem{a, m}, Cut: -1})
	// corners: where the keepalive quit channel is closed around a stream error (before it is routed; the elements
	// behind it are still routed and answered); a stream error whose handler reconnects (the loop leaves the transport
	// alone and reports nothing more); a connection that takes no write any more from the second answer on
	{
		mk := func(t string, id int, repl bool) rItem {
			it := rItem{T: t, Kind: id % 3, ID: id, Repl: repl}
			it.render()
			return it
		}
		out = append(out, recvIn{SM: true, Cut: -1, Items: []rItem{mk("stanza", 1, false), mk("serr", 2, false), mk("r", 3, false), mk("stanza", 4, false)}})
		out = append(out, recvIn{SM: true, Cut: -1, Items: []rItem{mk("stanza", 1, false), mk("r", 2, false), mk("serr", 3, true), mk("stanza", 4, false), mk("r", 5, false)}})
		out = append(out, recvIn{SM: true, Cut: -1, Items: []rItem{mk("serr", 1, false), mk("serr", 2, true), mk("stanza", 3, false)}})
		out = append(out, recvIn{SM: true, Cut: -1, WFrom: 2, Items: []rItem{mk("r", 1, false), mk("stanza", 2, false), mk("r", 3, false), mk("stanza", 4, false), mk("r", 5, false)}})
	}
	// corner: a payload nested as deep as the peer likes (generic content is decoded into a tree): the stack of the
	// receiving goroutine must not grow with it
	for _, kind := range []int{2, 0} {
		for _, comp := range []bool{false, true} {
			d := rItem{T: "stanza", Kind: kind, ID: 1, Deep: 400000}
			d.render()
			after := rItem{T: "stanza", Kind: 1, ID: 2, Var: 0}
			after.render()
			out = append(out, recvIn{Component: comp, Items: []rItem{d, after}, Cut: -1})
		}
	}
	out = append(out, genSized(r, tier)...)
	for i := 0; i < n; i++ {
		in := recvIn{Cut: -1}
		in.Component = r.Intn(4) == 0
		in.SM = r.Intn(2) == 0
		in.Inb = []int{0, 0, 3, 1000}[r.Intn(4)]
		if in.Component {
			in.SM, in.Inb = false, 0
		}
		in.Chunk = []int{0, 0, 1, 7, 4096}[r.Intn(5)]
		in.Items = genItems(r, r.Intn(61), r.Intn(3) == 0, in.Component)
		if !in.Component && r.Intn(6) == 0 {
			in.WFail = 1 + r.Intn(3)
		}
		if !in.Component {
			switch r.Intn(12) {
			case 0: // the connection is going away: every write from some point on fails
				in.WFail, in.WFrom = 0, 1+r.Intn(3)
			case 1: // several separate faults
				in.WFails = []int{1 + r.Intn(2), 3 + r.Intn(2)}
			}
			for k := range in.Items {
				// the handler of the stream error reconnects, as a StreamManager does
				if in.Items[k].T == "serr" && r.Intn(3) == 0 {
					in.Items[k].Repl = true
				}
			}
		}
		out = append(out, in)
	}
	// histories around a stream error: elements before it, the stream error (its handler leaves the connection alone or
	// replaces it), elements behind it (still routed and answered in the first case, nobody's in the second), then the
	// cut, a rejected element or the closing tag
	for i := 0; i < n/8+4; i++ {
		in := recvIn{Cut: -1, SM: r.Intn(2) == 0, Inb: []int{0, 2}[r.Intn(2)], Chunk: []int{0, 1, 7}[r.Intn(3)]}
		in.Items = genItems(r, r.Intn(8), false, false)
		se := rItem{T: "serr", Tag: r.Intn(len(serrConds)), Repl: r.Intn(2) == 0}
		se.render()
		in.Items = append(in.Items, se)
		in.Items = append(in.Items, genItems(r, r.Intn(7), i%3 == 0, false)...)
		for k := range in.Items {
			in.Items[k].ID = k + 1
			in.Items[k].render()
		}
		if r.Intn(4) == 0 {
			in.WFrom = 1 + r.Intn(2)
		}
		out = append(out, in)
	}
	// histories read through the real XMPPTransport read path (traffic logger + buffered decoder) over a scripted
	// net.Conn: in two of three the last bytes arrive TOGETHER with the read error (as crypto/tls hands out the last
	// record and the close_notify behind it in one Read): they were completely received and must still be routed and
	// answered; the stream ends after the last element or is cut at a random offset
	for i := 0; i < n/6+6; i++ {
		in := recvIn{Cut: -1, Logged: true, ErrWithData: i%3 != 0, SM: r.Intn(2) == 0, Inb: []int{0, 4}[r.Intn(2)]}
		in.Chunk = []int{0, 0, 7, 64, 4096}[r.Intn(5)]
		in.Items = genItems(r, 1+r.Intn(12), false, false)
		if i%4 == 3 {
			in.Cut = r.Intn(len(in.body()) + 1)
		}
		if r.Intn(8) == 0 {
			in.WFail = 1 + r.Intn(2)
		}
		out = append(out, in)
	}
	// the component's loop: a stream error whose handler replaces the component's transport (Disconnect and Resume from
	// inside the handler) - the old receiver leaves the new connection alone; a stream closed by the server is reported
	for i := 0; i < n/40+3; i++ {
		in := recvIn{Cut: -1, Component: true, Chunk: []int{0, 7}[r.Intn(2)]}
		in.Items = genItems(r, r.Intn(6), false, true)
		last := rItem{T: "serr", Tag: r.Intn(len(serrConds)), Repl: i%3 != 2}
		if i%3 == 2 {
			last = rItem{T: "close"}
		}
		last.render()
		in.Items = append(in.Items, last)
		in.Items = append(in.Items, genItems(r, r.Intn(4), false, true)...)
		out = append(out, in)
	}
	// a traffic log that stops accepting writes (disk full, file gone) in the middle of the session: what is read from the
	// healthy connection is still delivered (histories without <r/>: what a failing log does to Send is C08's subject)
	for i := 0; i < n/25+3; i++ {
		in := recvIn{Cut: -1, Logged: true, LogFailAt: 1 + r.Intn(6), SM: r.Intn(2) == 0, Chunk: []int{0, 7, 64}[r.Intn(3)]}
		for _, it := range genItems(r, 2+r.Intn(10), false, false) {
			if it.T != "r" {
				in.Items = append(in.Items, it)
			}
		}
		out = append(out, in)
	}
	// a client created without an error callback: a connection loss or a stream error must not bring the process down
	for i := 0; i < n/50+3; i++ {
		in := recvIn{Cut: -1, NoErrH: true, SM: r.Intn(2) == 0}
		in.Items = genItems(r, r.Intn(8), i%2 == 0, false)
		out = append(out, in)
	}
	// the same loop over the real WebSocket transport (frames up to 28 kB)
	nws := n / 8
	for i := 0; i < nws; i++ {
		in := recvIn{Cut: -1, WS: true, SM: r.Intn(2) == 0, Inb: []int{0, 5}[r.Intn(2)]}
		// one in three: every element arrives as a fragmented websocket message; one in three: the server closes the
		// websocket itself at the end (the read path, not a keepalive, has to report it)
		in.Frag = i%3 == 1
		in.PeerClose = i%3 == 2
		in.Items = wsify(genItems(r, 1+r.Intn(25), r.Intn(4) == 0, false))
		if i%4 == 0 {
			// one message larger than any buffer the decoder reads with (7 to 28 kB, under the 32 kB frame limit)
			big := rItem{T: "stanza", Kind: []int{0, 2}[r.Intn(2)], ID: 9000 + i, Deep: 1000 + r.Intn(3000)}
			big.render()
			at := r.Intn(len(in.Items) + 1)
			in.Items = append(in.Items[:at:at], append(wsify([]rItem{big}), in.Items[at:]...)...)
		}
		if i%8 == 4 {
			// ... and one larger than that (35 to 210 kB): there is no bound on the size of an element on either transport
			huge := rItem{T: "stanza", Kind: []int{0, 2}[r.Intn(2)], ID: 9500 + i, Deep: 5000 + r.Intn(25000)}
			huge.render()
			at := r.Intn(len(in.Items) + 1)
			in.Items = append(in.Items[:at:at], append(wsify([]rItem{huge}), in.Items[at:]...)...)
		}
		if i%6 == 5 {
			// a burst, and the websocket closed right behind it: the client is still reading when the close arrives;
			// what was sent before the close was completely received and must still be routed
			in.PeerClose, in.PeerCloseNow = false, true
			var burst []rItem
			for _, it := range wsify(genItems(r, 120+r.Intn(120), false, false)) {
				if it.T != "r" { // (an answer could not reach a server that has closed; what matters here is the routing)
					burst = append(burst, it)
				}
			}
			in.Items = burst
		}
		out = append(out, in)
	}
	// a receiver that is far behind: a burst of 300-450 small elements with <r/> among them, the connection ends behind
	// the last one, and only then does the receiver start. Its answers are written on a dead connection (each is
	// attempted, none arrives); everything the server sent had been received and is still routed
	nlate := 2
	if tier == "thorough" {
		nlate = 8
	}
	for i := 0; i < nlate; i++ {
		in := recvIn{Cut: -1, WS: true, LateRecv: "write", SM: true, Inb: []int{0, 5}[r.Intn(2)]}
		items := genItems(r, 300+r.Intn(150), false, false)
		for k := range items {
			if items[k].T == "stanza" && items[k].Var%len(textPool) >= 6 {
				items[k].Var -= items[k].Var % len(textPool)
				items[k].render()
			}
		}
		in.Items = wsify(items)
		out = append(out, in)
	}
	return out
}
