package main

import "math/rand"

func init() {
	register(c12Prop{r: recvProp{id: "C12", w: 1, gen: genC12,
		rule: "for each generated inbound stream (mixed stanzas with text, entities, nested unknown elements; <r/>, <a/>), the connection is cut at EVERY byte offset of the stream (exhaustive per stream), SM on/off, plus write faults at each answer (that write alone, or it and every later one); streams with a stream error in the middle (its handler leaving the connection alone, or replacing it as a StreamManager does) cut at every offset: the keepalive quit channel is sampled whenever the receive goroutine enters a callback or a transport call, so that the place where it is closed is compared with the model; one stream in three is read through the real XMPPTransport path (traffic logger + buffered decoder) over a scripted net.Conn whose last bytes arrive together with the read error; plus sessions over the real WebSocket transport whose TCP connection the peer resets (detected through the keepalive); a keepalive whose ping fails on a connection that ended behind a burst of 100-250 elements and which closes the transport before the receiver has read any of them; a client without error callback cut at many offsets; goroutines of the library are counted after quiescence; distinct = (stream, offset); non-trivial = at least 2 complete stanzas before the cut"}}) // composite, see c12hist.go
}

func genC12(r *rand.Rand, tier string) []interface{} {
	streams := 3
	if tier == "thorough" {
		streams = 30
	}
	var out []interface{}
	for s := 0; s < streams; s++ {
		items := genItems(r, 4+r.Intn(6), false, false)
		for i := range items { // every byte offset is cut: keep the texts short
			if items[i].T == "stanza" && items[i].Var%len(textPool) >= 6 {
				items[i].Var -= items[i].Var % len(textPool)
				items[i].render()
			}
		}
		base := recvIn{SM: s%2 == 0, Items: items, Cut: -1, LeakCheck: true}
		// one stream in three runs over the real XMPPTransport read path with the traffic logger;
		// there, for odd offsets, the last bytes arrive together with the read error
		logged := s%3 == 2
		total := len(base.body())
		for cut := 0; cut <= total; cut++ {
			in := base
			in.Cut = cut
			if logged {
				in.Logged, in.ErrWithData = true, cut%2 == 1
			}
			out = append(out, in)
		}
		// write fault at each answer
		nr := 0
		for _, it := range items {
			if it.T == "r" {
				nr++
			}
		}
		for k := 1; k <= nr; k++ {
			in := base
			in.WFail = k
			out = append(out, in)
			in = base
			in.WFrom = k // ... and every later one
			out = append(out, in)
		}
	}
	// streams with a stream error in the middle, cut at every offset: the keepalive quit channel is closed when the
	// stream error arrives (before it is routed), what is complete behind it is still routed and answered, and the
	// loss is reported once more by the cut; in every other stream the handler of the stream error replaces the
	// connection (as a StreamManager does): the loop leaves it alone, no Disconnected event comes from it
	nse := 2
	if tier == "thorough" {
		nse = 12
	}
	for s := 0; s < nse; s++ {
		items := genItems(r, 1+r.Intn(3), false, false)
		se := rItem{T: "serr", Tag: r.Intn(len(serrConds)), Repl: s%2 == 1}
		items = append(items, se)
		items = append(items, genItems(r, 2+r.Intn(3), false, false)...)
		if s%4 >= 2 {
			items = append(items, rItem{T: "r"})
		}
		for i := range items {
			items[i].ID = i + 1
			if items[i].T == "stanza" && items[i].Var%len(textPool) >= 6 {
				items[i].Var -= items[i].Var % len(textPool)
			}
			items[i].render()
		}
		base := recvIn{SM: s%3 != 0, Items: items, Cut: -1, LeakCheck: true}
		total := len(base.body())
		for cut := 0; cut <= total; cut++ {
			in := base
			in.Cut = cut
			out = append(out, in)
		}
		// the connection takes no write any more from the first / second answer on
		for k := 1; k <= 2; k++ {
			in := base
			in.WFrom = k
			out = append(out, in)
		}
	}
	// the WebSocket transport: the peer resets the TCP connection under the websocket after
	// everything was delivered; the loss has to be noticed (keepalive) and reported once
	nws := 2
	if tier == "thorough" {
		nws = 20
	}
	for i := 0; i < nws; i++ {
		in := recvIn{Cut: -1, WS: true, PeerCut: true, SM: i%2 == 0}
		items := genItems(r, 1+r.Intn(8), false, false)
		for k := range items {
			if items[k].T == "stanza" && items[k].Var%len(textPool) >= 6 {
				items[k].Var -= items[k].Var % len(textPool)
				items[k].render()
			}
		}
		in.Items = wsify(items)
		out = append(out, in)
	}
	// a keepalive that notices first: a burst of 100-250 elements, the connection ends behind the last one while the
	// receiver has not read any of them; the keepalive's ping fails and it closes the transport. Every element had been
	// received: all are still routed, the loss is reported once
	for i := 0; i < nws; i++ {
		in := recvIn{Cut: -1, WS: true, LateRecv: "keepalive", SM: i%2 == 0}
		for _, it := range wsify(genItems(r, 100+r.Intn(150), false, false)) {
			if it.T == "r" {
				continue // (the transport is closed: an answer cannot even be attempted)
			}
			if it.T == "stanza" && it.Var%len(textPool) >= 6 {
				it.Var -= it.Var % len(textPool)
				it.render()
				it.XML = wsNS(it.XML)
			}
			in.Items = append(in.Items, it)
		}
		out = append(out, in)
	}
	// a client created without an error callback: the loss must not bring the process down, at any cut
	{
		items := genItems(r, 3, false, false)
		for i := range items {
			if items[i].T == "stanza" && items[i].Var%len(textPool) >= 6 {
				items[i].Var -= items[i].Var % len(textPool)
				items[i].render()
			}
		}
		base := recvIn{SM: true, Items: items, Cut: -1, NoErrH: true, LeakCheck: true}
		total := len(base.body())
		for cut := 0; cut <= total; cut += 1 + total/40 {
			in := base
			in.Cut = cut
			out = append(out, in)
		}
		se := rItem{T: "serr", Tag: 1}
		se.render()
		in := base
		in.Items = append(append([]rItem{}, items...), se)
		out = append(out, in)
	}
	// the server closes the websocket right behind a burst: the client is still reading when the close arrives;
	// every element sent before it was completely received and is still routed, the loss reported once
	for i := 0; i < nws; i++ {
		in := recvIn{Cut: -1, WS: true, PeerCloseNow: true, SM: i%2 == 0}
		for _, it := range wsify(genItems(r, 120+r.Intn(120), false, false)) {
			if it.T != "r" {
				in.Items = append(in.Items, it)
			}
		}
		out = append(out, in)
	}
	return out
}
