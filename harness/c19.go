package main

import (
	"encoding/json"
	"fmt"
	"math"
	"math/big"
	"math/bits"
	"math/rand"

	xmpp "gosrc.io/xmpp"
)

// C19: backoff (backoff.go) vs Model/Backoff.v
//
// mode 0: durationForAttempt(N) on a fresh value     (VerifBackoffForAttempt)
// mode 1: N calls of duration() on a fresh value     (VerifBackoffSeq)
// mode 2: K calls, reset(), N calls                  (VerifBackoffSeqReset)
type c19In struct {
	Mode     int  `json:"mode"`
	NoJitter bool `json:"nojitter"`
	Base     int  `json:"base"`
	Factor   int  `json:"factor"`
	Cap      int  `json:"cap"`
	K        int  `json:"k,omitempty"`
	N        int  `json:"n"`

	// filled by Run: what the implementation returned (ns), or panicked. With jitter
	// the observed values are handed to the model as its rand oracle (see RunC19.v).
	ran      bool
	panicked bool
	ns       []int64
}

const (
	c19Bound = 1 << 40 // the theorems' hypothesis: 0 < base, factor, cap <= 2^40 (ms)
	c19Ms    = 1000000 // ns per ms
)

type c19 struct{}

func init() { register(c19{}) }

func (c19) ID() string    { return "C19" }
func (c19) RunFn() string { return "run_C19" }
func (c19) Workers() int  { return 8 }
func (c19) Rule() string {
	return "random (base, factor, cap) in [1, 2^40] (small values, powers of two, values at and just below 2^40, zero = default), with and without jitter, through durationForAttempt(n) (n = 0..70, around the attempt where base*factor^n passes the cap, around the attempts where factor^n and base*factor^n overflow float64, 2^31-1 / 2^31 / 2^31+1, random up to 2^31, 2^53, 2^62, MaxInt64), duration() sequences (up to 70 calls, a few past the float64 overflow point) and duration() sequences after k calls and reset(); a malformed stream with negative caps (rand.Intn panic) and a few fixed caps above the stated bound (D22); distinct = distinct (mode, jitter, bit lengths of base/factor/cap, class of n relative to the cap crossing / float overflow); non-trivial = positive parameters within the bound, factor >= 2, base < cap and at least one observed attempt number >= 1"
}

// ---- exact arithmetic shared by generator and oracle (math/big; no model) ----

// eff applies the documented defaults (zero fields): 20 ms, factor 2, cap three minutes.
func c19Eff(in *c19In) (base, factor, cp int) {
	base, factor, cp = in.Base, in.Factor, in.Cap
	if base == 0 {
		base = 20
	}
	if factor == 0 {
		factor = 2
	}
	if cp == 0 {
		cp = 180000
	}
	return
}

// c19Expect = min(cap, base*factor^n) for positive base/factor/cap, n >= 0.
func c19Expect(base, factor, cp, n int) *big.Int {
	c := big.NewInt(int64(cp))
	acc := big.NewInt(int64(base))
	if factor == 1 {
		if acc.Cmp(c) > 0 {
			return c
		}
		return acc
	}
	f := big.NewInt(int64(factor))
	for i := 0; i < n; i++ {
		if acc.Cmp(c) >= 0 {
			return c
		}
		acc.Mul(acc, f)
	}
	if acc.Cmp(c) >= 0 {
		return c
	}
	return acc
}

// c19Cross: the smallest n with base*factor^n >= cap (-1 when never: factor 1, base < cap).
func c19Cross(base, factor, cp int) int {
	if base >= cp {
		return 0
	}
	if factor == 1 {
		return -1
	}
	c := big.NewInt(int64(cp))
	acc := big.NewInt(int64(base))
	f := big.NewInt(int64(factor))
	n := 0
	for acc.Cmp(c) < 0 {
		acc.Mul(acc, f)
		n++
	}
	return n
}

// c19FloatOvf: the smallest n with mult*factor^n >= 2^1024 (beyond float64), -1 for factor 1.
func c19FloatOvf(mult, factor int) int {
	if factor <= 1 {
		return -1
	}
	lim := new(big.Int).Lsh(big.NewInt(1), 1024)
	acc := big.NewInt(int64(mult))
	f := big.NewInt(int64(factor))
	n := 0
	for acc.Cmp(lim) < 0 {
		acc.Mul(acc, f)
		n++
	}
	return n
}

// ---- generator ----

func c19Val(r *rand.Rand) int {
	switch r.Intn(12) {
	case 0:
		return 1
	case 1, 2:
		return 1 + r.Intn(10)
	case 3, 4:
		return 1 + r.Intn(1000)
	case 5:
		return 1 << uint(r.Intn(41))
	case 6:
		return 1 + r.Intn(1<<20)
	case 7:
		return c19Bound - r.Intn(1000)
	case 8:
		return c19Bound
	case 9:
		v := (1 << uint(1+r.Intn(40))) - 1 + r.Intn(3) // around a power of two
		if v > c19Bound {
			v = c19Bound
		}
		return v
	default:
		return 1 + int(r.Int63n(c19Bound))
	}
}

func c19Factor(r *rand.Rand) int {
	switch r.Intn(10) {
	case 0:
		return 1
	case 1, 2, 3:
		return 2 + r.Intn(9)
	case 4:
		return 2
	default:
		return c19Val(r)
	}
}

func c19N(r *rand.Rand, base, factor, cp int) int {
	jig := r.Intn(5) - 2
	nonneg := func(x int) int {
		if x < 0 {
			return 0
		}
		return x
	}
	switch r.Intn(14) {
	case 0, 1, 2:
		return r.Intn(71)
	case 3, 4, 5:
		if c := c19Cross(base, factor, cp); c >= 0 {
			return nonneg(c + jig)
		}
		return r.Intn(71)
	case 6:
		if o := c19FloatOvf(1, factor); o >= 0 {
			return nonneg(o + jig)
		}
		return 1024 + jig
	case 7:
		if o := c19FloatOvf(base, factor); o >= 0 {
			return nonneg(o + jig)
		}
		return 1023 + jig
	case 8:
		return (1 << 31) + jig
	case 9:
		return int(r.Int63n(1 << 31))
	case 10:
		return 1 + r.Intn(5000)
	case 11:
		return []int{1 << 53, 1<<53 + 1, 1 << 62, math.MaxInt64, math.MaxInt64 - 1, 1 << 32, 1<<63 - 1025}[r.Intn(7)]
	default:
		return int(r.Int63())
	}
}

func (c19) Gen(r *rand.Rand, tier string) []interface{} {
	n := 2000
	if tier == "thorough" {
		n = 40000
	}
	var out []interface{}
	add := func(in c19In) { c := in; out = append(out, &c) }
	// fixed corners: defaults, the cap by default, reset regressions, D5 shape
	for _, nj := range []bool{true, false} {
		add(c19In{Mode: 0, NoJitter: nj, N: 0})
		add(c19In{Mode: 0, NoJitter: nj, N: 5})
		add(c19In{Mode: 0, NoJitter: nj, N: 14}) // 20*2^14 = 327680 > 180000
		add(c19In{Mode: 0, NoJitter: nj, N: 1 << 31})
		add(c19In{Mode: 1, NoJitter: nj, N: 20})
		add(c19In{Mode: 2, NoJitter: nj, K: 17, N: 20})
		add(c19In{Mode: 2, NoJitter: nj, Base: 5, Factor: 3, Cap: 100000, K: 4, N: 12})
		add(c19In{Mode: 2, NoJitter: nj, Base: 5, Factor: 3, Cap: 100000, K: 0, N: 12})
		add(c19In{Mode: 1, NoJitter: nj, Base: 1, Factor: 2, Cap: c19Bound, N: 45})
		add(c19In{Mode: 1, NoJitter: nj, Base: c19Bound, Factor: c19Bound, Cap: c19Bound, N: 5})
		add(c19In{Mode: 1, NoJitter: nj, Base: 7, Factor: 1, Cap: 50, N: 6})
		add(c19In{Mode: 1, NoJitter: nj, Base: 70, Factor: 1, Cap: 50, N: 6})
		add(c19In{Mode: 1, NoJitter: nj, Base: 1, Factor: 2, Cap: 1000, N: 1100}) // past 2^1024
		add(c19In{Mode: 0, NoJitter: nj, Base: 1, Factor: 1, Cap: 1, N: math.MaxInt64})
	}
	// D22 (known finding): caps above the stated bound; values chosen so that float64
	// is still exact (below 2^53, or saturating at a cap that is a power of two)
	add(c19In{Mode: 1, NoJitter: true, Base: 3, Factor: 7, Cap: 1 << 62, N: 19})
	add(c19In{Mode: 0, NoJitter: true, Base: 3, Factor: 7, Cap: 1 << 62, N: 15})
	add(c19In{Mode: 0, NoJitter: true, Base: 3, Factor: 7, Cap: 1 << 62, N: 1000000})
	add(c19In{Mode: 0, NoJitter: true, Base: 10000000000000, Factor: 1, Cap: 1 << 62, N: 3})
	add(c19In{Mode: 2, NoJitter: true, Base: 9300000000000, Factor: 1, Cap: 1 << 60, K: 2, N: 2})
	add(c19In{Mode: 0, NoJitter: true, Base: 1, Factor: 2, Cap: 1 << 44, N: 44})
	// above the bound but below 2^63/10^6: still fine
	add(c19In{Mode: 1, NoJitter: true, Base: 1, Factor: 2, Cap: 1 << 43, N: 50})
	add(c19In{Mode: 0, NoJitter: false, Base: 1, Factor: 2, Cap: 1 << 43, N: 50})

	for i := 0; i < n; i++ {
		in := c19In{NoJitter: r.Intn(10) < 7}
		in.Base, in.Factor, in.Cap = c19Val(r), c19Factor(r), c19Val(r)
		switch r.Intn(40) {
		case 0:
			in.Base = 0
		case 1:
			in.Factor = 0
		case 2:
			in.Cap = 0
		case 3:
			in.Base, in.Factor, in.Cap = 0, 0, 0
		case 4: // malformed: negative cap
			in.Cap = -1 - r.Intn(1000)
		case 5:
			in.Cap = -c19Val(r)
		}
		if r.Intn(3) == 0 { // make base well below cap so that the growth phase is long
			in.Base = 1 + r.Intn(50)
			if in.Cap > 0 && in.Cap < 1000 {
				in.Cap = c19Val(r)
			}
		}
		eb, ef, ec := c19Eff(&in)
		switch m := r.Intn(10); {
		case m < 5:
			in.Mode = 0
			in.N = c19N(r, eb, ef, ec)
		case m < 8:
			in.Mode = 1
			in.N = c19SeqLen(r, eb, ef, ec)
		default:
			in.Mode = 2
			in.K = r.Intn(60)
			if r.Intn(8) == 0 {
				in.K = 0
			}
			in.N = c19SeqLen(r, eb, ef, ec)
		}
		out = append(out, &in)
	}
	return out
}

func c19SeqLen(r *rand.Rand, base, factor, cp int) int {
	if r.Intn(150) == 0 {
		if o := c19FloatOvf(base, factor); o > 0 && o < 1100 {
			return o + 3
		}
	}
	if cp > 0 {
		if c := c19Cross(base, factor, cp); c >= 0 && r.Intn(2) == 0 {
			return c + 1 + r.Intn(4)
		}
	}
	return r.Intn(71)
}

func (c19) Decode(raw json.RawMessage) (interface{}, error) {
	in := new(c19In)
	err := json.Unmarshal(raw, in)
	return in, err
}

// ---- implementation side ----

func (c19) Run(inp interface{}) (obs Sx) {
	in := inp.(*c19In)
	in.ran, in.panicked, in.ns = true, false, nil
	defer func() {
		if e := recover(); e != nil {
			in.panicked, in.ns = true, nil
			if fmt.Sprint(e) != "invalid argument to Intn" {
				panic(e) // not the panic the model describes: let the harness report it
			}
			if in.Mode == 0 {
				obs = L(Z(1))
			} else {
				obs = L(L(Z(1)))
			}
		}
	}()
	one := func(ns int64) Sx { return L(Z(0), Z(ns)) }
	switch in.Mode {
	case 0:
		d := xmpp.VerifBackoffForAttempt(in.NoJitter, in.Base, in.Factor, in.Cap, in.N)
		in.ns = []int64{int64(d)}
		return one(int64(d))
	case 1, 2:
		var ds []int64
		if in.Mode == 1 {
			for _, d := range xmpp.VerifBackoffSeq(in.NoJitter, in.Base, in.Factor, in.Cap, in.N) {
				ds = append(ds, int64(d))
			}
		} else {
			for _, d := range xmpp.VerifBackoffSeqReset(in.NoJitter, in.Base, in.Factor, in.Cap, in.K, in.N) {
				ds = append(ds, int64(d))
			}
		}
		in.ns = ds
		items := make([]Sx, len(ds))
		for i, d := range ds {
			items[i] = one(d)
		}
		return LS(items)
	}
	return L(Z(-2))
}

// Input: (mode, nojitter, base, factor, cap, k, n, rs). rs = the rand oracle handed to
// the model, one per observed call: with jitter, the observed delay in ms (so the model
// reproduces the observation iff it is a whole number of ms inside [0, d)); else zeros.
func (c19) Input(inp interface{}) Sx {
	in := inp.(*c19In)
	if !in.ran {
		panic("c19: Input called before Run (the jitter oracle values come from the observation)")
	}
	calls := in.N
	if in.Mode == 0 {
		calls = 1
	}
	rs := make([]Sx, calls)
	for i := range rs {
		rs[i] = Z(0)
		if !in.NoJitter && !in.panicked && i < len(in.ns) {
			q := in.ns[i] / c19Ms
			if in.ns[i] < 0 && in.ns[i]%c19Ms != 0 {
				q-- // floor
			}
			rs[i] = Z(q)
		}
	}
	return L(Zi(in.Mode), B(in.NoJitter), Zi(in.Base), Zi(in.Factor), Zi(in.Cap), Zi(in.K), Zi(in.N), LS(rs))
}

// ---- direct oracle: the property's predicate with math/big, no model ----

func (c19) Oracle(inp interface{}, obs Sx) (string, string) {
	in := inp.(*c19In)
	base, factor, cp := c19Eff(in)
	if base <= 0 || factor <= 0 || cp <= 0 {
		return "", "" // the property speaks about positive parameters only
	}
	huge := base > c19Bound || factor > c19Bound || cp > c19Bound
	mode := []string{"query", "seq", "reset"}[in.Mode]
	sig := func(s string) string {
		if huge {
			return "huge-cap-overflow"
		}
		return s + "-" + mode
	}
	where := fmt.Sprintf("%s nojitter=%v base=%d factor=%d cap=%d", mode, in.NoJitter, base, factor, cp)
	if in.Mode == 2 {
		where += fmt.Sprintf(" k=%d", in.K)
	}
	// decode the observation
	var calls []Sx
	if in.Mode == 0 {
		calls = []Sx{obs}
	} else {
		if obs.K != "l" {
			return "malformed observation", "shape"
		}
		calls = obs.L
		if len(calls) == 1 && len(calls[0].L) == 1 && calls[0].L[0].Z == 1 {
			return where + ": rand.Intn panicked (positive parameters)", sig("panic")
		}
		if len(calls) != in.N {
			return fmt.Sprintf("%s: %d delays returned for %d calls", where, len(calls), in.N), "shape"
		}
	}
	ms := big.NewInt(c19Ms)
	capNs := new(big.Int).Mul(big.NewInt(int64(cp)), ms)
	var prev *big.Int
	for i, c := range calls {
		attempt := i
		if in.Mode == 0 {
			attempt = in.N
		}
		if c.K != "l" || len(c.L) == 0 {
			return "malformed observation", "shape"
		}
		if c.L[0].Z == 1 {
			return fmt.Sprintf("%s attempt %d: rand.Intn panicked (positive parameters)", where, attempt), sig("panic")
		}
		if len(c.L) != 2 {
			return "malformed observation", "shape"
		}
		d := big.NewInt(c.L[1].Z)
		want := new(big.Int).Mul(c19Expect(base, factor, cp, attempt), ms)
		// never negative, never above the cap
		if d.Sign() < 0 {
			return fmt.Sprintf("%s attempt %d: negative delay %d ns", where, attempt, d), sig("negative")
		}
		if d.Cmp(capNs) > 0 {
			return fmt.Sprintf("%s attempt %d: delay %d ns exceeds the cap %d ns", where, attempt, d, capNs), sig("above-cap")
		}
		if in.NoJitter {
			// equals min(cap, base*factor^n) ...
			if d.Cmp(want) != 0 {
				return fmt.Sprintf("%s attempt %d: delay %d ns, expected min(cap, base*factor^n) = %d ns", where, attempt, d, want), sig("formula")
			}
			// ... and is therefore non-decreasing
			if prev != nil && d.Cmp(prev) < 0 {
				return fmt.Sprintf("%s attempt %d: delay %d ns is smaller than the previous one (%d ns)", where, attempt, d, prev), sig("monotone")
			}
			prev = d
		} else {
			// between zero and that value (rand.Intn: strictly below), a whole number of ms
			if d.Cmp(want) >= 0 {
				return fmt.Sprintf("%s attempt %d: jittered delay %d ns not below min(cap, base*factor^n) = %d ns", where, attempt, d, want), sig("jitter-range")
			}
			if new(big.Int).Mod(d, ms).Sign() != 0 {
				return fmt.Sprintf("%s attempt %d: jittered delay %d ns is not a whole number of ms", where, attempt, d), sig("jitter-unit")
			}
		}
	}
	return "", ""
}

func (c19) Key(inp interface{}) (string, bool) {
	in := inp.(*c19In)
	base, factor, cp := c19Eff(in)
	stream := "valid"
	switch {
	case cp < 0:
		stream = "malformed-negative-cap"
	case base > c19Bound || factor > c19Bound || cp > c19Bound:
		stream = "above-bound"
	case in.Base == 0 || in.Factor == 0 || in.Cap == 0:
		stream = "defaults"
	}
	hist("stream:" + stream)
	hist(fmt.Sprintf("mode:%d", in.Mode))
	hist(fmt.Sprintf("nojitter:%v", in.NoJitter))
	ncls := "n/a"
	top := in.N // largest attempt number observed (+1 for sequences)
	if in.Mode != 0 {
		top = in.N - 1
	}
	if cp > 0 {
		cross := c19Cross(base, factor, cp)
		ovf := c19FloatOvf(base, factor)
		switch {
		case top < 0:
			ncls = "none"
		case top == 0:
			ncls = "0"
		case cross < 0:
			ncls = "never-crosses"
		case top < cross:
			ncls = "below-cross"
		case top == cross:
			ncls = "at-cross"
		case ovf >= 0 && top >= ovf-2 && top <= ovf+2:
			ncls = "at-float-overflow"
		case ovf >= 0 && top > ovf && top >= 1<<31-2:
			ncls = "ge-2^31"
		case ovf >= 0 && top > ovf:
			ncls = "past-float-overflow"
		default:
			ncls = "past-cross"
		}
	}
	hist("n:" + ncls)
	if factor == 1 {
		hist("factor:1")
	} else {
		hist("factor:>=2")
	}
	bl := func(x int) int {
		if x < 0 {
			return -bits.Len64(uint64(-x))
		}
		return bits.Len64(uint64(x))
	}
	key := fmt.Sprintf("%d/%v/%d/%d/%d/%s/%d", in.Mode, in.NoJitter, bl(in.Base), bl(in.Factor), bl(in.Cap), ncls, bl(in.K))
	nontrivial := stream != "malformed-negative-cap" && stream != "above-bound" && factor >= 2 && base < cp && top >= 1
	return key, nontrivial
}
