package main

import (
	"encoding/json"
	"fmt"
	"math"
	"math/big"
	"math/bits"
	"math/rand"
	"strings"
	"sync"
	"time"

	xmpp "gosrc.io/xmpp"
	"gosrc.io/xmpp/stanza"
)

// C19: backoff (backoff.go) vs Model/Backoff.v
//
// mode 0: durationForAttempt(N) on a fresh value     (VerifBackoffForAttempt)
// mode 1: N calls of duration() on a fresh value     (VerifBackoffSeq)
// mode 2: K calls, reset(), N calls                  (VerifBackoffSeqReset)
// mode 4: durationForAttempt(n) / duration() / reset() in any order on ONE value (VerifBackoffOps)
// mode 3: a real Client + StreamManager against the scripted server: session up, then
//
//	for every entry m of Outages: drop, m transient negotiation failures, success;
//	finally Stop. Observed: the wait between the end of failed attempt n of an
//	outage and the next connection attempt (c19RunSM).
type c19In struct {
	Mode     int   `json:"mode"`
	NoJitter bool  `json:"nojitter"`
	Base     int   `json:"base"`
	Factor   int   `json:"factor"`
	Cap      int   `json:"cap"`
	K        int   `json:"k,omitempty"`
	N        int   `json:"n"`
	Outages  []int `json:"outages,omitempty"`
	// mode 3: how each outage starts: "" / "drop" = the connection is cut (Disconnected event), "serr" = the server
	// sends <stream:error><system-shutdown/></stream:error></stream:stream> (StreamError event, the manager's second
	// entry into its retry loop)
	Starts []string `json:"starts,omitempty"`

	// mode 4: ONE backoff value driven through operations in any order: [0, n] durationForAttempt(n), [1, 0]
	// duration(), [2, 0] reset()
	Ops [][2]int `json:"ops,omitempty"`

	// filled by Run: what the implementation returned (ns), or panicked. With jitter
	// the observed values are handed to the model as its rand oracle (see RunC19.v).
	ran      bool
	panicked bool
	ns       []int64
	// mode 3: observed failed attempts per outage, the waits (ns) after each of them, and
	// why the scenario did not complete ("" = it did)
	smFails []int
	smGaps  [][]int64
	smErr   string
}

const (
	c19Bound = 1 << 40 // the bulk of the random parameters lies in [1, 2^40] ms (34 years)
	// the largest whole number of ms a time.Duration holds (MaxInt64 / 10^6): beyond it
	// min(cap, base*factor^n) ms is not a Duration; the code saturates there (D22, repaired)
	c19MaxMs = math.MaxInt64 / c19Ms
	c19Ms    = 1000000 // ns per ms
	// mode 3: a wait is measured from the server seeing the failed attempt end to the server
	// accepting the next connection; it may exceed the back-off delay by connection set-up and
	// scheduling. Upper bounds only, with this much slack, so that load cannot raise a false alarm.
	c19SlackMs = 500
)

type c19 struct{}

func init() { register(c19{}) }

func (c19) ID() string    { return "C19" }
func (c19) RunFn() string { return "run_C19" }
func (c19) Workers() int  { return 8 }
func (c19) Rule() string {
	return "random positive (base, factor, cap): mostly in [1, 2^40] ms, one case in twelve anywhere up to MaxInt64 (around MaxInt64/10^6 ms = the longest Duration, around 2^53, powers of two, MaxInt64 = 'uncapped': the delay must then saturate at the longest Duration instead of wrapping - D22, repaired) (small values, powers of two, values at and just below 2^40, zero = default; the defaults are read from the live code through VerifBackoffDefaults, only 'at most three minutes when the cap is left unset' is a literal of the property), with and without jitter (a jittered delay is compared through its range only: 0 <= delay <= the no-jitter delay of that attempt, any resolution), through durationForAttempt(n) (n = 0..70, around the attempt where base*factor^n passes the cap, around the attempts where factor^n and base*factor^n overflow float64, 2^31-1 / 2^31 / 2^31+1, random up to 2^31, 2^53, 2^62, MaxInt64), duration() sequences (up to 70 calls, a few past the float64 overflow point) and duration() sequences after k calls and reset(); cap below / equal to the base and cap = base*factor^k-1, +0, +1 (with attempt 0, factor 1 and the attempts around k) through both APIs; ONE value driven through durationForAttempt(n) / duration() / reset() in any order (2-30 operations: queries at, below and far beyond the attempt where the cap is reached, in non-monotone order, after capped answers and after waits, across resets; by construction in half of them a capped answer followed later by a query below the cap): every query must answer for ITS attempt number, every wait for the number of waits since the last reset (Coq C19_query_history_independent / C19_ops_are_queries); a systematic float64-boundary block (factors 1 2 3 10 65537, more in the thorough tier: base*factor^n placed at -1/+0/+1 of MaxInt64/10^6 ms, 2^52, 2^53 and MaxInt64, cap at the product -1/+0/+1, at the boundary and at MaxInt64, attempts n-1 n n+1 without jitter, n with jitter, and the duration() sequence through the boundary; Coq C19_float_robust states what is assumed of float64 there); StreamManager scenarios (real Client + StreamManager on the scripted TCP server: session, end of session, 5-8 transient negotiation failures, success, second end of session, 2-3 failures, success, Stop; a session ends by a cut connection or by a <stream:error><system-shutdown/> from the server - the manager's two entries into its retry loop - in every order): the wait after the n-th failed attempt of EVERY outage, measured on the server between the end of that attempt and the next accept, is at most default_base*default_factor^n ms + 500 ms slack (defaults read from the live code), i.e. the sequence restarts after a successful reconnection (Coq: C19_stream_manager_waits is the statement for the value the StreamManager declares - jitter on, everything unset; C19_outages_bounded the general one; C19_outages_restart gives the no-jitter values the model returns as bounds for the observed attempt counts); a malformed stream outside the property's quantification (negative base / factor / cap, negative attempt numbers: both sides answer a constant, the call only has to leave the harness alive); distinct = distinct (mode, jitter, bit lengths of base/factor/cap, class of n relative to the cap crossing / float overflow); non-trivial = positive parameters within the bound, factor >= 2, base < cap and at least one observed attempt number >= 1"
}

// ---- exact arithmetic shared by generator and oracle (math/big; no model) ----

// c19Eff applies the defaults to zero fields. The defaults are the live code's constants
// (VerifBackoffDefaults, the same hook gen.go uses to write Generated.v): the property does
// not fix them, it only requires every delay to stay within three minutes when the cap is
// left unset (c19ThreeMinNs) -- and, like any parameter, they must be positive.
func c19Eff(in *c19In) (base, factor, cp int) {
	db, df, dc := xmpp.VerifBackoffDefaults()
	base, factor, cp = in.Base, in.Factor, in.Cap
	if base == 0 {
		base = db
	}
	if factor == 0 {
		factor = df
	}
	if cp == 0 {
		cp = dc
	}
	return
}

const c19ThreeMinNs = 3 * 60 * 1000000000

// c19GenParams: c19Eff made positive, for the generator's and the key's arithmetic only
// (the loops below need positive numbers; a non-positive default is the oracle's business).
func c19GenParams(in *c19In) (base, factor, cp int) {
	base, factor, cp = c19Eff(in)
	if base <= 0 {
		base = 1
	}
	if factor <= 0 {
		factor = 2
	}
	return
}

// c19Expect = min(cap, base*factor^n) for positive base/factor/cap, n >= 0.
func c19Expect(base, factor, cp, n int) *big.Int {
	c := big.NewInt(int64(cp))
	acc := big.NewInt(int64(base))
	if factor == 1 {
		if acc.Cmp(c) > 0 {
			return c
		}
		return acc
	}
	f := big.NewInt(int64(factor))
	for i := 0; i < n; i++ {
		if acc.Cmp(c) >= 0 {
			return c
		}
		acc.Mul(acc, f)
	}
	if acc.Cmp(c) >= 0 {
		return c
	}
	return acc
}

// c19Cross: the smallest n with base*factor^n >= cap (-1 when never: factor 1, base < cap).
func c19Cross(base, factor, cp int) int {
	if base >= cp {
		return 0
	}
	if factor == 1 {
		return -1
	}
	c := big.NewInt(int64(cp))
	acc := big.NewInt(int64(base))
	f := big.NewInt(int64(factor))
	n := 0
	for acc.Cmp(c) < 0 {
		acc.Mul(acc, f)
		n++
	}
	return n
}

// c19FloatOvf: the smallest n with mult*factor^n >= 2^1024 (beyond float64), -1 for factor 1.
func c19FloatOvf(mult, factor int) int {
	if factor <= 1 {
		return -1
	}
	lim := new(big.Int).Lsh(big.NewInt(1), 1024)
	acc := big.NewInt(int64(mult))
	f := big.NewInt(int64(factor))
	n := 0
	for acc.Cmp(lim) < 0 {
		acc.Mul(acc, f)
		n++
	}
	return n
}

// ---- generator ----

func c19Val(r *rand.Rand) int {
	switch r.Intn(12) {
	case 0:
		return 1
	case 1, 2:
		return 1 + r.Intn(10)
	case 3, 4:
		return 1 + r.Intn(1000)
	case 5:
		return 1 << uint(r.Intn(41))
	case 6:
		return 1 + r.Intn(1<<20)
	case 7:
		return c19Bound - r.Intn(1000)
	case 8:
		return c19Bound
	case 9:
		v := (1 << uint(1+r.Intn(40))) - 1 + r.Intn(3) // around a power of two
		if v > c19Bound {
			v = c19Bound
		}
		return v
	default:
		return 1 + int(r.Int63n(c19Bound))
	}
}

func c19Factor(r *rand.Rand) int {
	switch r.Intn(10) {
	case 0:
		return 1
	case 1, 2, 3:
		return 2 + r.Intn(9)
	case 4:
		return 2
	default:
		return c19Val(r)
	}
}

func c19N(r *rand.Rand, base, factor, cp int) int {
	jig := r.Intn(5) - 2
	nonneg := func(x int) int {
		if x < 0 {
			return 0
		}
		return x
	}
	switch r.Intn(14) {
	case 0, 1, 2:
		return r.Intn(71)
	case 3, 4, 5:
		if c := c19Cross(base, factor, cp); c >= 0 {
			return nonneg(c + jig)
		}
		return r.Intn(71)
	case 6:
		if o := c19FloatOvf(1, factor); o >= 0 {
			return nonneg(o + jig)
		}
		return 1024 + jig
	case 7:
		if o := c19FloatOvf(base, factor); o >= 0 {
			return nonneg(o + jig)
		}
		return 1023 + jig
	case 8:
		return (1 << 31) + jig
	case 9:
		return int(r.Int63n(1 << 31))
	case 10:
		return 1 + r.Intn(5000)
	case 11:
		return []int{1 << 53, 1<<53 + 1, 1 << 62, math.MaxInt64, math.MaxInt64 - 1, 1 << 32, 1<<63 - 1025}[r.Intn(7)]
	default:
		return int(r.Int63())
	}
}

func (c19) Gen(r *rand.Rand, tier string) []interface{} {
	n := 2000
	if tier == "thorough" {
		n = 40000
	}
	var out []interface{}
	add := func(in c19In) { c := in; out = append(out, &c) }
	// StreamManager scenarios first (they take seconds: start them early)
	// every outage restarts at attempt 0 however it starts: with a lost connection or with a stream error from the server
	add(c19In{Mode: 3, Outages: []int{6, 3}})
	add(c19In{Mode: 3, Outages: []int{7, 3}, Starts: []string{"drop", "serr"}})
	add(c19In{Mode: 3, Outages: []int{6, 3, 2}, Starts: []string{"serr", "drop", "serr"}})
	add(c19In{Mode: 3, Outages: []int{7, 3}, Starts: []string{"serr", "serr"}})
	if tier == "thorough" {
		for i := 0; i < 6; i++ {
			add(c19In{Mode: 3, Outages: []int{5 + r.Intn(4), 2 + r.Intn(2)}, Starts: []string{[]string{"drop", "serr"}[r.Intn(2)], []string{"drop", "serr"}[r.Intn(2)]}})
		}
		add(c19In{Mode: 3, Outages: []int{0, 6, 0, 3}, Starts: []string{"drop", "drop", "serr", "serr"}})
	}
	// fixed corners: defaults, the cap by default, reset regressions, D5 shape
	for _, nj := range []bool{true, false} {
		add(c19In{Mode: 0, NoJitter: nj, N: 0})
		add(c19In{Mode: 0, NoJitter: nj, N: 5})
		add(c19In{Mode: 0, NoJitter: nj, N: 14}) // past the default cap with the usual defaults (20*2^14 ms > 3 min)
		add(c19In{Mode: 0, NoJitter: nj, N: 1 << 31})
		add(c19In{Mode: 1, NoJitter: nj, N: 20})
		add(c19In{Mode: 2, NoJitter: nj, K: 17, N: 20})
		add(c19In{Mode: 2, NoJitter: nj, Base: 5, Factor: 3, Cap: 100000, K: 4, N: 12})
		add(c19In{Mode: 2, NoJitter: nj, Base: 5, Factor: 3, Cap: 100000, K: 0, N: 12})
		add(c19In{Mode: 1, NoJitter: nj, Base: 1, Factor: 2, Cap: c19Bound, N: 45})
		add(c19In{Mode: 1, NoJitter: nj, Base: c19Bound, Factor: c19Bound, Cap: c19Bound, N: 5})
		add(c19In{Mode: 1, NoJitter: nj, Base: 7, Factor: 1, Cap: 50, N: 6})
		add(c19In{Mode: 1, NoJitter: nj, Base: 70, Factor: 1, Cap: 50, N: 6})
		add(c19In{Mode: 1, NoJitter: nj, Base: 1, Factor: 2, Cap: 1000, N: 1100}) // past 2^1024
		add(c19In{Mode: 0, NoJitter: nj, Base: 1, Factor: 1, Cap: 1, N: math.MaxInt64})
		// cap below / equal to the base: clamped from attempt 0 on, with factor 1 too
		for _, f := range []int{1, 2, 10} {
			add(c19In{Mode: 0, NoJitter: nj, Base: 1000, Factor: f, Cap: 50, N: 0})
			add(c19In{Mode: 0, NoJitter: nj, Base: 1000, Factor: f, Cap: 50, N: 1})
			add(c19In{Mode: 0, NoJitter: nj, Base: 1000, Factor: f, Cap: 1000, N: 0})
			add(c19In{Mode: 0, NoJitter: nj, Base: 0, Factor: f, Cap: 10, N: 0}) // default base 20 > cap
			add(c19In{Mode: 1, NoJitter: nj, Base: 1000, Factor: f, Cap: 50, N: 4})
			add(c19In{Mode: 1, NoJitter: nj, Base: 1000, Factor: f, Cap: 999, N: 4})
			add(c19In{Mode: 1, NoJitter: nj, Base: 1000, Factor: f, Cap: 1000, N: 4})
			add(c19In{Mode: 1, NoJitter: nj, Base: 1000, Factor: f, Cap: 1001, N: 4})
			add(c19In{Mode: 2, NoJitter: nj, Base: 1000, Factor: f, Cap: 50, K: 3, N: 4})
			add(c19In{Mode: 2, NoJitter: nj, Base: 0, Factor: f, Cap: 7, K: 3, N: 4})
		}
	}
	// ONE value, operations in any order: the per-attempt query is a function of the attempt alone (backoff.go:
	// "Keep the attempt counter on your end and use durationForAttempt(int)"), so a capped answer, earlier waits
	// or a reset must not change what a later query for a smaller attempt returns
	waits := func(k int) [][2]int {
		var o [][2]int
		for i := 0; i < k; i++ {
			o = append(o, [2]int{1, 0})
		}
		return o
	}
	for _, nj := range []bool{true, false} {
		add(c19In{Mode: 4, NoJitter: nj, Ops: [][2]int{{0, 30}, {0, 0}}})
		add(c19In{Mode: 4, NoJitter: nj, Ops: [][2]int{{0, 14}, {0, 13}, {0, 1}, {0, 14}, {0, 0}}})
		add(c19In{Mode: 4, NoJitter: nj, Ops: append(waits(30), [2]int{0, 0}, [2]int{0, 5}, [2]int{1, 0}, [2]int{2, 0}, [2]int{0, 3}, [2]int{1, 0})})
		add(c19In{Mode: 4, NoJitter: nj, Ops: [][2]int{{0, math.MaxInt64}, {0, 0}, {1, 0}, {0, 1 << 31}, {1, 0}, {0, 2}}})
		add(c19In{Mode: 4, NoJitter: nj, Base: 5, Factor: 3, Cap: 100, Ops: [][2]int{{0, 3}, {0, 2}, {0, 0}, {1, 0}, {1, 0}, {1, 0}, {1, 0}, {0, 1}, {1, 0}}})
		add(c19In{Mode: 4, NoJitter: nj, Base: 1000, Factor: 2, Cap: 50, Ops: [][2]int{{0, 0}, {0, 5}, {0, 0}}}) // capped from attempt 0 on: nothing to forget
		add(c19In{Mode: 4, NoJitter: nj, Base: 7, Factor: 1, Cap: 50, Ops: [][2]int{{0, 9}, {0, 0}, {1, 0}}})
		add(c19In{Mode: 4, NoJitter: nj, Base: 1, Factor: 2, Cap: math.MaxInt64, Ops: [][2]int{{0, 70}, {0, 3}, {1, 0}}})
	}

	// D22 (repaired): caps beyond what a time.Duration can hold (MaxInt64/10^6 ms) used to
	// give negative / wrapped / decreasing delays and, with jitter, a panic in rand.Intn
	for _, nj := range []bool{true, false} {
		add(c19In{Mode: 1, NoJitter: nj, Base: 1, Factor: 2, Cap: math.MaxInt64, N: 70}) // "uncapped"
		add(c19In{Mode: 0, NoJitter: nj, Base: 1, Factor: 2, Cap: math.MaxInt64, N: 59})
		add(c19In{Mode: 0, NoJitter: nj, Base: 20, Factor: 2, Cap: c19MaxMs + 1, N: 64})
		add(c19In{Mode: 0, NoJitter: nj, Base: 20, Factor: 2, Cap: c19MaxMs, N: 64})
		add(c19In{Mode: 2, NoJitter: nj, Base: 3, Factor: 7, Cap: 1 << 62, K: 5, N: 19})
		add(c19In{Mode: 0, NoJitter: nj, Base: math.MaxInt64, Factor: math.MaxInt64, Cap: math.MaxInt64, N: math.MaxInt64})
	}
	add(c19In{Mode: 1, NoJitter: true, Base: 3, Factor: 7, Cap: 1 << 62, N: 19})
	add(c19In{Mode: 0, NoJitter: true, Base: 3, Factor: 7, Cap: 1 << 62, N: 15})
	add(c19In{Mode: 0, NoJitter: true, Base: 3, Factor: 7, Cap: 1 << 62, N: 1000000})
	add(c19In{Mode: 0, NoJitter: true, Base: 10000000000000, Factor: 1, Cap: 1 << 62, N: 3})
	add(c19In{Mode: 2, NoJitter: true, Base: 9300000000000, Factor: 1, Cap: 1 << 60, K: 2, N: 2})
	add(c19In{Mode: 0, NoJitter: true, Base: 1, Factor: 2, Cap: 1 << 44, N: 44})
	// above the bound but below 2^63/10^6: still fine
	add(c19In{Mode: 1, NoJitter: true, Base: 1, Factor: 2, Cap: 1 << 43, N: 50})
	add(c19In{Mode: 0, NoJitter: false, Base: 1, Factor: 2, Cap: 1 << 43, N: 50})

	// float64 boundaries (the code computes in float64, the model in Z; Props/C19.v C19_float_robust says
	// what is assumed of the float path): products base*factor^n placed at and next to max_ms (the longest
	// Duration: at or below it the delay must EQUAL the product, above it saturate), 2^52 and 2^53 (where
	// float64 stops holding every integer) and MaxInt64 (float64(Cap) = 2^63), with the cap at the product
	// -1 / +0 / +1, at the boundary itself and out of reach; attempts n-1, n, n+1; and the sequence through it
	{
		maxI := big.NewInt(math.MaxInt64)
		clamp := func(x *big.Int) int {
			if x.Sign() <= 0 {
				return 1
			}
			if x.Cmp(maxI) > 0 {
				return math.MaxInt64
			}
			return int(x.Int64())
		}
		targets := []*big.Int{big.NewInt(c19MaxMs), new(big.Int).Lsh(big.NewInt(1), 52), new(big.Int).Lsh(big.NewInt(1), 53), maxI}
		factors := []int{1, 2, 3, 10, 65537}
		if tier == "thorough" {
			factors = []int{1, 2, 3, 5, 7, 10, 16, 1000, 65537, 1 << 31, 3037000499}
		}
		for _, f := range factors {
			for ti, T := range targets {
				top := 0 // the largest k with f^k <= T (factor 1: any attempt number)
				if f == 1 {
					top = 3 + ti
				} else {
					for pw := big.NewInt(1); ; top++ {
						pw = new(big.Int).Mul(pw, big.NewInt(int64(f)))
						if pw.Cmp(T) > 0 {
							break
						}
					}
				}
				for _, nn := range []int{top, top / 2} {
					pw := new(big.Int).Exp(big.NewInt(int64(f)), big.NewInt(int64(nn)), nil)
					b0 := new(big.Int).Div(T, pw)
					for db := -1; db <= 1; db++ {
						base := clamp(new(big.Int).Add(b0, big.NewInt(int64(db))))
						P := new(big.Int).Mul(big.NewInt(int64(base)), pw)
						for _, cp := range []int{clamp(new(big.Int).Sub(P, big.NewInt(1))), clamp(P), clamp(new(big.Int).Add(P, big.NewInt(1))), clamp(T), math.MaxInt64} {
							for dn := -1; dn <= 1; dn++ {
								if nn+dn >= 0 {
									add(c19In{Mode: 0, NoJitter: true, Base: base, Factor: f, Cap: cp, N: nn + dn})
									hist("block:float-boundary")
								}
							}
							add(c19In{Mode: 0, NoJitter: false, Base: base, Factor: f, Cap: cp, N: nn})
							add(c19In{Mode: 1, NoJitter: true, Base: base, Factor: f, Cap: cp, N: nn + 2})
							hist("block:float-boundary")
							hist("block:float-boundary")
						}
					}
				}
			}
		}
	}

	for i := 0; i < n; i++ {
		in := c19In{NoJitter: r.Intn(10) < 7}
		in.Base, in.Factor, in.Cap = c19Val(r), c19Factor(r), c19Val(r)
		switch r.Intn(40) {
		case 0:
			in.Base = 0
		case 1:
			in.Factor = 0
		case 2:
			in.Cap = 0
		case 3:
			in.Base, in.Factor, in.Cap = 0, 0, 0
		case 4: // malformed: negative cap
			in.Cap = -1 - r.Intn(1000)
		case 5:
			in.Cap = -c19Val(r)
		case 6:
			in.Base = -c19Val(r)
		case 7:
			in.Factor = -1 - r.Intn(5)
		}
		if r.Intn(12) == 0 { // any positive int: beyond 2^40, around MaxInt64/10^6 ms, up to MaxInt64
			wide := func() int {
				switch r.Intn(6) {
				case 0:
					return c19MaxMs - 2 + r.Intn(5)
				case 1:
					return math.MaxInt64 - r.Intn(3)
				case 2:
					return 1 << uint(41+r.Intn(22))
				case 3:
					return (1 << 53) - 2 + r.Intn(5)
				default:
					return 1 + int(r.Int63())
				}
			}
			in.Cap = wide()
			if r.Intn(3) == 0 {
				in.Base = wide()
			}
			if r.Intn(3) == 0 {
				in.Factor = wide()
			}
		}
		if r.Intn(3) == 0 { // make base well below cap so that the growth phase is long
			in.Base = 1 + r.Intn(50)
			if in.Cap > 0 && in.Cap < 1000 {
				in.Cap = c19Val(r)
			}
		}
		edgeK := -1
		if in.Cap > 0 && r.Intn(5) == 0 { // cap placed relative to the base
			eb0, ef0, _ := c19GenParams(&in)
			switch r.Intn(4) {
			case 0: // below the base
				in.Cap = 1 + r.Intn(eb0)
			case 1: // equal to the base
				in.Cap = eb0
			default: // base*factor^k - 1, + 0, + 1
				p := big.NewInt(int64(eb0))
				k, kmax := 0, r.Intn(8)
				for ; k < kmax; k++ {
					q := new(big.Int).Mul(p, big.NewInt(int64(ef0)))
					if q.Cmp(big.NewInt(c19Bound-1)) > 0 {
						break
					}
					p = q
				}
				edgeK = k
				in.Cap = int(p.Int64()) + r.Intn(3) - 1
				if in.Cap < 1 {
					in.Cap = 1
				}
			}
			if r.Intn(3) == 0 {
				in.Factor = 1
			}
		}
		eb, ef, ec := c19GenParams(&in)
		switch m := r.Intn(12); {
		case m >= 10: // one value, mixed operations
			in.Mode = 4
			small := c19OutOfDomain(&in)
			cross := -1
			if !small {
				cross = c19Cross(eb, ef, ec)
			}
			pickN := func() int {
				if small {
					return r.Intn(71)
				}
				switch r.Intn(6) {
				case 0:
					return c19N(r, eb, ef, ec)
				case 1, 2:
					if cross >= 0 {
						return r.Intn(cross + 3)
					}
				case 3:
					if cross >= 0 {
						return cross + r.Intn(40)
					}
				}
				return r.Intn(71)
			}
			nops := 2 + r.Intn(23)
			for j := 0; j < nops; j++ {
				switch k := r.Intn(20); {
				case k < 10:
					in.Ops = append(in.Ops, [2]int{0, pickN()})
				case k < 17:
					in.Ops = append(in.Ops, [2]int{1, 0})
				default:
					in.Ops = append(in.Ops, [2]int{2, 0})
				}
			}
			if !small && cross >= 0 && r.Intn(2) == 0 {
				// the shape by construction: something that answers the cap (a query beyond the crossing, or enough
				// waits), then a query below it, somewhere later on the same value
				if r.Intn(2) == 0 {
					in.Ops = append(in.Ops, [2]int{0, cross + r.Intn(5)})
				} else {
					for j := 0; j <= cross && j < 80; j++ {
						in.Ops = append(in.Ops, [2]int{1, 0})
					}
				}
				for j := r.Intn(3); j > 0; j-- {
					in.Ops = append(in.Ops, [2]int{1, 0})
				}
				in.Ops = append(in.Ops, [2]int{0, r.Intn(cross + 1)})
			}
		case m < 5:
			in.Mode = 0
			in.N = c19N(r, eb, ef, ec)
			if edgeK >= 0 && r.Intn(2) == 0 {
				in.N = edgeK + r.Intn(3) - 1
				if in.N < 0 {
					in.N = 0
				}
			} else if ec > 0 && ec <= eb && r.Intn(2) == 0 {
				in.N = r.Intn(2)
			}
			if r.Intn(60) == 0 { // malformed: a negative attempt number
				in.N = -1 - r.Intn(70)
			}
			if c19OutOfDomain(&in) && in.N > 70 {
				// outside the property nothing is required of the code, not even that a huge
				// attempt number is handled without iterating: keep such calls small
				in.N = r.Intn(71)
			}
		case m < 8:
			in.Mode = 1
			in.N = c19SeqLen(r, eb, ef, ec)
		default:
			in.Mode = 2
			in.K = r.Intn(60)
			if r.Intn(8) == 0 {
				in.K = 0
			}
			in.N = c19SeqLen(r, eb, ef, ec)
		}
		out = append(out, &in)
	}
	return out
}

func c19SeqLen(r *rand.Rand, base, factor, cp int) int {
	if r.Intn(150) == 0 {
		if o := c19FloatOvf(base, factor); o > 0 && o < 1100 {
			return o + 3
		}
	}
	if cp > 0 {
		if c := c19Cross(base, factor, cp); c >= 0 && r.Intn(2) == 0 {
			return c + 1 + r.Intn(4)
		}
	}
	return r.Intn(71)
}

func (c19) Decode(raw json.RawMessage) (interface{}, error) {
	in := new(c19In)
	err := json.Unmarshal(raw, in)
	return in, err
}

// ---- implementation side ----

func (c19) Run(inp interface{}) (obs Sx) {
	in := inp.(*c19In)
	in.ran, in.panicked, in.ns = true, false, nil
	if in.Mode == 3 {
		return c19RunSM(in)
	}
	noDelay := L(Z(1)) // the random draw had an empty range
	if in.Mode != 0 {
		noDelay = L(L(Z(1)))
	}
	if c19OutOfDomain(in) {
		// not an input the property speaks about: the call only has to leave the harness alive
		func() {
			defer func() {
				if e := recover(); e != nil {
					in.panicked = true
				}
			}()
			in.ns, in.panicked = c19Call(in)
		}()
		return L(Z(9))
	}
	ds, panicked := c19Call(in)
	in.ns, in.panicked = ds, panicked
	if panicked {
		return noDelay
	}
	one := func(ns int64) Sx { return L(Z(0), Z(ns)) }
	if in.Mode == 0 {
		return one(ds[0])
	}
	items := make([]Sx, len(ds))
	for i, d := range ds {
		items[i] = one(d)
	}
	return LS(items)
}

// c19OutOfDomain: a non-positive base, factor or cap (after the defaults: a 0 field is unset
// and inside the domain as long as its default is positive) or a negative attempt number.
func c19OutOfDomain(in *c19In) bool {
	base, factor, cp := c19Eff(in)
	if in.Mode == 4 {
		for _, op := range in.Ops {
			if op[0] == 0 && op[1] < 0 {
				return true
			}
		}
	}
	return base <= 0 || factor <= 0 || cp <= 0 || (in.Mode == 0 && in.N < 0)
}

// c19OpAttempts: the attempt number each value-returning operation of a mode-4 case is about (a query: its
// argument; a wait: the number of waits since the last reset) and whether it is a query
func c19OpAttempts(ops [][2]int) (attempts []int, isQuery []bool) {
	a := 0
	for _, op := range ops {
		switch op[0] {
		case 0:
			attempts, isQuery = append(attempts, op[1]), append(isQuery, true)
		case 1:
			attempts, isQuery = append(attempts, a), append(isQuery, false)
			a++
		default:
			a = 0
		}
	}
	return
}

// c19Call drives the real code; panicked = the random draw refused its argument
// (rand.Intn / Int63n ...: "invalid argument to ..."). Any other panic is passed on.
func c19Call(in *c19In) (ds []int64, panicked bool) {
	defer func() {
		if e := recover(); e != nil {
			if !strings.HasPrefix(fmt.Sprint(e), "invalid argument to ") {
				panic(e)
			}
			ds, panicked = nil, true
		}
	}()
	switch in.Mode {
	case 0:
		ds = []int64{int64(xmpp.VerifBackoffForAttempt(in.NoJitter, in.Base, in.Factor, in.Cap, in.N))}
	case 1:
		for _, d := range xmpp.VerifBackoffSeq(in.NoJitter, in.Base, in.Factor, in.Cap, in.N) {
			ds = append(ds, int64(d))
		}
	case 2:
		for _, d := range xmpp.VerifBackoffSeqReset(in.NoJitter, in.Base, in.Factor, in.Cap, in.K, in.N) {
			ds = append(ds, int64(d))
		}
	case 4:
		for _, d := range xmpp.VerifBackoffOps(in.NoJitter, in.Base, in.Factor, in.Cap, in.Ops) {
			ds = append(ds, int64(d))
		}
	}
	return
}

// Input: (mode, nojitter, base, factor, cap, k, n, rs). rs: one value per observed call;
// with jitter the delay the code returned (ns), which the model echoes iff it lies in
// [0, no-jitter delay of that attempt] (see RunC19.v); without jitter zeros.
func (c19) Input(inp interface{}) Sx {
	in := inp.(*c19In)
	if !in.ran {
		panic("c19: Input called before Run (the jitter oracle values come from the observation)")
	}
	if in.Mode == 3 && in.smErr == "skipped" {
		return L(Z(3), B(true), Z(0), Z(0), Z(0), Z(0), Z(0), L())
	}
	if in.Mode == 3 {
		ms := make([]Sx, len(in.smFails))
		for i, m := range in.smFails {
			ms[i] = Zi(m)
		}
		return L(Z(3), B(true), Z(0), Z(0), Z(0), Z(0), Zi(len(ms)), LS(ms))
	}
	if in.Mode == 4 {
		var flat []Sx
		j := 0
		for _, op := range in.Ops {
			r := int64(0)
			if op[0] != 2 {
				if !in.NoJitter && !in.panicked && j < len(in.ns) {
					r = in.ns[j]
				}
				j++
			}
			flat = append(flat, Zi(op[0]), Zi(op[1]), Z(r))
		}
		return L(Z(4), B(in.NoJitter), Zi(in.Base), Zi(in.Factor), Zi(in.Cap), Z(0), Zi(len(flat)), LS(flat))
	}
	calls := in.N
	if in.Mode == 0 {
		calls = 1
	}
	rs := make([]Sx, calls)
	for i := range rs {
		rs[i] = Z(0)
		if !in.NoJitter && !in.panicked && i < len(in.ns) {
			rs[i] = Z(in.ns[i])
		}
	}
	return L(Zi(in.Mode), B(in.NoJitter), Zi(in.Base), Zi(in.Factor), Zi(in.Cap), Zi(in.K), Zi(in.N), LS(rs))
}

// ---- direct oracle: the property's predicate with math/big, no model ----

func (c19) Oracle(inp interface{}, obs Sx) (string, string) {
	in := inp.(*c19In)
	if in.Mode == 3 {
		return c19OracleSM(in)
	}
	base, factor, cp := c19Eff(in)
	if in.Base < 0 || in.Factor < 0 || in.Cap < 0 || (in.Mode == 0 && in.N < 0) {
		return "", "" // the property speaks about positive parameters and attempts >= 0 only
	}
	if base <= 0 || factor <= 0 || cp <= 0 {
		// only possible through a default: an unset field took a non-positive constant.
		// Report what that does: a panic in rand.Intn, or delays that are not positive.
		return c19OracleBadDefault(in, obs, base, factor, cp)
	}
	mode := []string{"query", "seq", "reset", "", "ops"}[in.Mode]
	sig := func(s string) string { return s + "-" + mode }
	where := fmt.Sprintf("%s nojitter=%v base=%d factor=%d cap=%d", mode, in.NoJitter, base, factor, cp)
	if in.Mode == 2 {
		where += fmt.Sprintf(" k=%d", in.K)
	}
	// decode the observation
	var calls []Sx
	if in.Mode == 0 {
		calls = []Sx{obs}
	} else {
		if obs.K != "l" {
			return "malformed observation", "shape"
		}
		calls = obs.L
		if len(calls) == 1 && len(calls[0].L) == 1 && calls[0].L[0].Z == 1 {
			return where + ": rand.Intn panicked (positive parameters)", sig("panic")
		}
		if in.Mode != 4 && len(calls) != in.N {
			return fmt.Sprintf("%s: %d delays returned for %d calls", where, len(calls), in.N), "shape"
		}
	}
	var opAttempt []int
	var opQuery []bool
	if in.Mode == 4 {
		opAttempt, opQuery = c19OpAttempts(in.Ops)
		where += fmt.Sprintf(" ops=%v", in.Ops)
		if len(calls) != len(opAttempt) {
			return fmt.Sprintf("%s: %d delays returned for %d calls", where, len(calls), len(opAttempt)), "shape"
		}
	}
	ms := big.NewInt(c19Ms)
	capNs := new(big.Int).Mul(big.NewInt(int64(cp)), ms)
	var prev *big.Int
	where0 := where
	for i, c := range calls {
		attempt := i
		if in.Mode == 0 {
			attempt = in.N
		}
		if in.Mode == 4 {
			attempt = opAttempt[i]
			where = where0 + fmt.Sprintf(", call %d on this value = duration(),", i)
			if opQuery[i] {
				where = where0 + fmt.Sprintf(", call %d on this value = durationForAttempt(%d),", i, attempt)
			}
		}
		if c.K != "l" || len(c.L) == 0 {
			return "malformed observation", "shape"
		}
		if c.L[0].Z == 1 {
			return fmt.Sprintf("%s attempt %d: rand.Intn panicked (positive parameters)", where, attempt), sig("panic")
		}
		if len(c.L) != 2 {
			return "malformed observation", "shape"
		}
		d := big.NewInt(c.L[1].Z)
		wantMs := c19Expect(base, factor, cp, attempt)
		want := new(big.Int).Mul(wantMs, ms)
		// a number of ms no time.Duration can hold (cap and base*factor^n both above
		// MaxInt64/10^6 ms = 292 years): the delay cannot equal it; it must then be as long
		// as a Duration can be (whole ms: at least c19MaxMs ms)
		unrepresentable := wantMs.Cmp(big.NewInt(c19MaxMs)) > 0
		// never negative, never above the cap
		if d.Sign() < 0 {
			return fmt.Sprintf("%s attempt %d: negative delay %d ns", where, attempt, d), sig("negative")
		}
		if d.Cmp(capNs) > 0 {
			return fmt.Sprintf("%s attempt %d: delay %d ns exceeds the cap %d ns", where, attempt, d, capNs), sig("above-cap")
		}
		if in.Cap == 0 && d.Cmp(big.NewInt(c19ThreeMinNs)) > 0 {
			return fmt.Sprintf("%s attempt %d (cap left unset): delay %d ns exceeds three minutes", where, attempt, d), sig("above-three-minutes")
		}
		if in.NoJitter {
			// equals min(cap, base*factor^n) ...
			if !unrepresentable && d.Cmp(want) != 0 {
				return fmt.Sprintf("%s attempt %d: delay %d ns, expected min(cap, base*factor^n) = %d ns", where, attempt, d, want), sig("formula")
			}
			if unrepresentable && d.Cmp(new(big.Int).Mul(big.NewInt(c19MaxMs), ms)) < 0 {
				return fmt.Sprintf("%s attempt %d: delay %d ns, but min(cap, base*factor^n) = %d ms is more than a time.Duration can hold: expected the longest Duration (%d ms)", where, attempt, d, wantMs, int64(c19MaxMs)), sig("formula-saturated")
			}
			// ... and is therefore non-decreasing
			if in.Mode != 4 && prev != nil && d.Cmp(prev) < 0 {
				return fmt.Sprintf("%s attempt %d: delay %d ns is smaller than the previous one (%d ns)", where, attempt, d, prev), sig("monotone")
			}
			prev = d
		} else {
			// between zero and that value (how the draw is made, and at which resolution,
			// is not the property's business)
			if d.Cmp(want) > 0 {
				return fmt.Sprintf("%s attempt %d: jittered delay %d ns above min(cap, base*factor^n) = %d ns", where, attempt, d, want), sig("jitter-range")
			}
		}
	}
	return "", ""
}

func (c19) Key(inp interface{}) (string, bool) {
	in := inp.(*c19In)
	if in.Mode == 3 {
		hist("mode:3")
		hist("stream:stream-manager")
		for _, st := range in.Starts {
			hist("sm-outage-start:" + st)
		}
		return fmt.Sprintf("3/%v/%v", in.Outages, in.Starts), len(in.Outages) >= 2
	}
	base, factor, cp := c19Eff(in)
	stream := "valid"
	switch {
	case c19OutOfDomain(in):
		stream = "malformed-negative-cap"
	case cp > c19MaxMs:
		stream = "cap-beyond-duration"
	case base > c19Bound || factor > c19Bound || cp > c19Bound:
		stream = "above-2^40"
	case in.Base == 0 || in.Factor == 0 || in.Cap == 0:
		stream = "defaults"
	}
	hist("stream:" + stream)
	hist(fmt.Sprintf("mode:%d", in.Mode))
	hist(fmt.Sprintf("nojitter:%v", in.NoJitter))
	ncls := "n/a"
	top := in.N // largest attempt number observed (+1 for sequences)
	if in.Mode != 0 {
		top = in.N - 1
	}
	if in.Mode == 4 {
		top = -1
		as, qs := c19OpAttempts(in.Ops)
		capped, back := false, false
		gb, gf, gcp := c19GenParams(in)
		for i, a := range as {
			if a > top {
				top = a
			}
			if a >= 0 && c19Expect(gb, gf, gcp, a).Cmp(big.NewInt(int64(gcp))) == 0 {
				capped = true
			} else if capped && qs[i] {
				back = true
			}
		}
		if back {
			hist("ops:query-below-cap-after-capped-answer")
		}
		hist(fmt.Sprintf("ops:len-%d", len(in.Ops)/8*8))
	}
	if cp > 0 && base > 0 && factor > 0 {
		cross := c19Cross(base, factor, cp)
		ovf := c19FloatOvf(base, factor)
		switch {
		case top < 0:
			ncls = "none"
		case top == 0:
			ncls = "0"
		case cross < 0:
			ncls = "never-crosses"
		case top < cross:
			ncls = "below-cross"
		case top == cross:
			ncls = "at-cross"
		case ovf >= 0 && top >= ovf-2 && top <= ovf+2:
			ncls = "at-float-overflow"
		case ovf >= 0 && top > ovf && top >= 1<<31-2:
			ncls = "ge-2^31"
		case ovf >= 0 && top > ovf:
			ncls = "past-float-overflow"
		default:
			ncls = "past-cross"
		}
	}
	hist("n:" + ncls)
	switch {
	case cp > 0 && cp < base:
		hist("cap:below-base")
		if top == 0 || in.Mode != 0 {
			hist("cap:below-base,attempt-0")
		}
		if factor == 1 {
			hist("cap:below-base,factor-1")
		}
	case cp == base:
		hist("cap:equal-base")
	case cp > 0:
		hist("cap:above-base")
	}
	if factor == 1 {
		hist("factor:1")
	} else {
		hist("factor:>=2")
	}
	bl := func(x int) int {
		if x < 0 {
			return -bits.Len64(uint64(-x))
		}
		return bits.Len64(uint64(x))
	}
	key := fmt.Sprintf("%d/%v/%d/%d/%d/%s/%d", in.Mode, in.NoJitter, bl(in.Base), bl(in.Factor), bl(in.Cap), ncls, bl(in.K))
	nontrivial := stream != "malformed-negative-cap" && stream != "cap-beyond-duration" && factor >= 2 && base < cp && top >= 1
	return key, nontrivial
}

// ---- mode 3: the waits of a real StreamManager's retry loop ----

func c19RunSM(in *c19In) Sx {
	in.smFails, in.smGaps, in.smErr = nil, nil, ""
	db, df, dc := xmpp.VerifBackoffDefaults()
	if db <= 0 || df <= 0 || dc <= 0 {
		// the retry loop's rand.Intn would panic in the library's own goroutine and take the
		// whole harness down; the all-unset jitter cases of modes 0-2 observe that panic
		in.smErr = "skipped"
		return L(Z(9))
	}
	fail := func(why string) Sx {
		in.smErr = why
		return L(SBytes("incomplete"), SBytes(why))
	}
	cin := c13In{}
	startOf := func(o int) string {
		if o < len(in.Starts) && in.Starts[o] == "serr" {
			return "serr"
		}
		return "drop"
	}
	for o, m := range in.Outages {
		rd := c13Round{Term: startOf(o)}
		for i := 0; i < m; i++ {
			rd.Fails = append(rd.Fails, "transient")
		}
		cin.Rounds = append(cin.Rounds, rd)
	}
	scripts, good, _ := c13Scripts(cin)
	srv, err := startScriptedServer(scripts)
	if err != nil {
		return fail("listen failed")
	}
	defer srv.stop()

	// server-side clock: when each connection was accepted and when it ended, sampled from
	// the scripted server's own records (resolution well below the slack)
	var tmu sync.Mutex
	acceptAt, endedAt := map[int]time.Time{}, map[int]time.Time{}
	quit := make(chan struct{})
	var pwg sync.WaitGroup
	pwg.Add(1)
	go func() {
		defer pwg.Done()
		for {
			now := time.Now()
			srv.mu.Lock()
			tmu.Lock()
			for i := 0; i < srv.accepted && i < len(srv.logs); i++ {
				if _, ok := acceptAt[i]; !ok {
					acceptAt[i] = now
				}
				if _, ok := endedAt[i]; !ok && srv.logs[i].Ended != "" {
					endedAt[i] = now
				}
			}
			tmu.Unlock()
			srv.mu.Unlock()
			select {
			case <-quit:
				return
			case <-time.After(150 * time.Microsecond):
			}
		}
	}()
	stopPoll := func() { close(quit); pwg.Wait() }

	cfg := &xmpp.Config{
		TransportConfiguration: xmpp.TransportConfiguration{Address: srv.addr(), Domain: srvDomain, ConnectTimeout: 1},
		Jid:                    "user@" + srvDomain, Credential: xmpp.Password("secret"), Insecure: true,
		ConnectTimeout: 1,
	}
	var mu sync.Mutex
	post := 0
	router := xmpp.NewRouter()
	router.NewRoute().HandlerFunc(func(s xmpp.Sender, p stanza.Packet) {})
	client, err := xmpp.NewClient(cfg, router, func(error) {})
	if err != nil {
		stopPoll()
		return fail("NewClient failed")
	}
	sm := xmpp.NewStreamManager(client, func(s xmpp.Sender) {
		mu.Lock()
		post++
		mu.Unlock()
	})
	runDone := make(chan error, 1)
	go func() { runDone <- sm.Run() }()
	returned := false
	waitPost := func(n int, d time.Duration) bool {
		deadline := time.Now().Add(d)
		for time.Now().Before(deadline) {
			mu.Lock()
			p := post
			mu.Unlock()
			if p >= n {
				return true
			}
			select {
			case <-runDone:
				returned = true
				return false
			default:
			}
			time.Sleep(500 * time.Microsecond)
		}
		return false
	}
	why := ""
	connIdx, sessions := 0, 0
	if waitPost(1, 5*time.Second) {
		sessions = 1
		for o, m := range in.Outages {
			time.Sleep(3 * time.Millisecond)
			if startOf(o) == "serr" {
				// RFC 6120 4.9.1.1: the error, then the closing tag; the scripted server ends the TCP connection when
				// the client answers with its own closing tag
				srv.push(connIdx, c13StreamError+"</stream:stream>")
			} else {
				srv.drop(connIdx)
			}
			connIdx += m + 1
			if !waitPost(sessions+1, 40*time.Second) {
				why = fmt.Sprintf("no session after outage %d", o+1)
				break
			}
			sessions++
		}
	} else {
		why = "no first session"
	}
	if !returned {
		stopped := make(chan struct{})
		go func() { sm.Stop(); close(stopped) }()
		select {
		case <-runDone:
		case <-time.After(5 * time.Second):
		}
		select {
		case <-stopped:
		case <-time.After(3 * time.Second):
		}
	}
	time.Sleep(5 * time.Millisecond)
	stopPoll()
	if why != "" {
		return fail(why)
	}
	// which connections carried a session: a good script whose every group was consumed
	logs := srv.snapshot()
	established := make([]bool, len(logs))
	for i, lg := range logs {
		if i < len(scripts) && good[i] {
			n := 0
			for _, e := range lg.Elems {
				if e.Kind == "open" || e.Kind == "auth" || e.Kind == "bind" {
					n++
				}
			}
			established[i] = n >= len(scripts[i].Groups)
		}
	}
	if len(logs) == 0 || !established[0] {
		return fail("first connection carried no session")
	}
	// outages as observed: the failed attempts between two sessions, and the wait after each
	tmu.Lock()
	defer tmu.Unlock()
	var fails []int
	var gaps [][]int64
	cur, curGaps := 0, []int64{}
	for i := 1; i < len(logs); i++ {
		if established[i] {
			fails = append(fails, cur)
			gaps = append(gaps, curGaps)
			cur, curGaps = 0, []int64{}
			continue
		}
		cur++
		e, okE := endedAt[i]
		a, okA := acceptAt[i+1]
		if !okE || !okA {
			curGaps = append(curGaps, -1) // no further attempt seen after this failure
		} else {
			g := a.Sub(e).Nanoseconds()
			if g < 0 {
				g = 0
			}
			curGaps = append(curGaps, g)
		}
	}
	if cur > 0 {
		fails = append(fails, cur)
		gaps = append(gaps, curGaps)
	}
	in.smFails, in.smGaps = fails, gaps
	// observation compared with the model: per outage, per failed attempt n, the bound that
	// applies (defaults: 20 ms * 2^n up to three minutes) -- or, when the wait was longer than
	// bound + slack, the wait itself
	outs := make([]Sx, len(gaps))
	for o, gs := range gaps {
		items := make([]Sx, len(gs))
		for n, g := range gs {
			bound := new(big.Int).Mul(c19Expect(db, df, dc, n), big.NewInt(c19Ms)).Int64()
			if g >= 0 && g <= bound+c19SlackMs*c19Ms {
				items[n] = L(Z(0), Z(bound))
			} else {
				items[n] = L(Z(2), Z(bound), Z(g))
			}
		}
		outs[o] = LS(items)
	}
	return LS(outs)
}

func c19OracleSM(in *c19In) (string, string) {
	if in.smErr == "skipped" {
		return "", ""
	}
	db, df, dc := xmpp.VerifBackoffDefaults()
	if in.smErr != "" {
		return "stream-manager scenario did not complete: " + in.smErr, "sm-scenario-incomplete"
	}
	if fmt.Sprint(in.smFails) != fmt.Sprint(in.Outages) {
		return fmt.Sprintf("failed attempts per outage seen by the server %v, scenario scripted %v", in.smFails, in.Outages), "sm-attempts"
	}
	slack := int64(c19SlackMs) * c19Ms
	for o, gs := range in.smGaps {
		for n, g := range gs {
			bound := new(big.Int).Mul(c19Expect(db, df, dc, n), big.NewInt(c19Ms)).Int64()
			if bound > c19ThreeMinNs {
				bound = c19ThreeMinNs // cap left unset: three minutes at most
			}
			if g < 0 {
				return fmt.Sprintf("outage %d: no connection attempt followed failed attempt %d", o+1, n), "sm-no-retry"
			}
			if g > bound+slack {
				what := "the delay before a reconnection attempt exceeds min(cap, base*factor^n)"
				if o > 0 {
					what = "the back-off did not restart at attempt 0 after the successful reconnection"
				}
				if o < len(in.Starts) && in.Starts[o] == "serr" {
					what += " (this outage started with a stream error from the server)"
				}
				return fmt.Sprintf("stream manager, outages %v: in outage %d the wait after failed attempt %d (counted from 0) was %d ms; bound min(3 min, %d*%d^%d) = %d ms (+%d ms slack): %s",
					in.Outages, o+1, n, g/c19Ms, db, df, n, bound/c19Ms, c19SlackMs, what), "sm-wait-above-bound"
			}
		}
	}
	return "", ""
}

// c19OracleBadDefault: an unset field took a default that is not positive (the observation
// is the out-of-domain constant; what the code did is in the stash filled by Run).
func c19OracleBadDefault(in *c19In, obs Sx, base, factor, cp int) (string, string) {
	mode := []string{"query", "seq", "reset", "", "ops"}[in.Mode]
	where := fmt.Sprintf("%s nojitter=%v base=%d factor=%d cap=%d (unset fields took the defaults %d/%d/%d)", mode, in.NoJitter, in.Base, in.Factor, in.Cap, base, factor, cp)
	if in.panicked {
		return where + ": the call panicked", "default-not-positive"
	}
	for i, d := range in.ns {
		attempt := i
		if in.Mode == 0 {
			attempt = in.N
		}
		if in.NoJitter && d <= 0 {
			return fmt.Sprintf("%s attempt %d: delay %d ns, not positive (min(cap, base*factor^n) is at least 1 ms for positive parameters)", where, attempt, d), "default-not-positive"
		}
	}
	return "", ""
}
