package main

// C18, sessions on ONE Client object: the Transport (and with it t.conn) is re-used by
// Client.Resume, so a keep-alive loop that outlives its session, or a Close that acts late,
// touches the NEXT session. Every Ping / Close call is logged with the goroutine that made it
// (one keep-alive loop = one goroutine); the scripted server counts keep-alive bytes per connection.

import (
	"bytes"
	"errors"
	"fmt"
	"strings"
	"sync"
	"sync/atomic"
	"time"

	xmpp "gosrc.io/xmpp"
)

type c18ReLoop struct {
	Session int  `json:"session"`        // index of the established session it belongs to
	Seen    bool `json:"seen"`           // a loop made calls in that session (false: none was seen, an empty log stands for it)
	NSucc   int  `json:"nsucc"`          // successful pings while its session was up
	Failed  bool `json:"failed"`         // a ping of this loop failed
	Closed  bool `json:"closed"`         // ... and the loop answered it with Close
	Late    int  `json:"late,omitempty"` // pings after its session was over (+ grace)
	LateOk  int  `json:"late_ok,omitempty"`
	SrvN    int  `json:"srvn"`  // keep-alives the server read on this session's connection
	Err     int  `json:"errs"`  // ErrorHandler calls while this session was the current one
	Disc    int  `json:"discs"` // Disconnected events while this session was the current one
}

type c18ReObs struct {
	Attempts     []int         `json:"attempts"`                // 0 established, 1 connect failed, 2 hook failed (Resume returned its error)
	Loops        []c18ReLoop   `json:"loops"`                   // keep-alive loops seen, in order of their first call
	Sessions     int           `json:"sessions"`                // sessions established (Connect / Resume returned nil)
	LostLast     bool          `json:"lost_last,omitempty"`     // the last session was reported lost before the harness ended it
	LastSrvN     int           `json:"last_srvn"`               // keep-alive bytes on the last session's connection
	LastUpUs     int64         `json:"last_up_us"`              // how long the last session was up
	OpenFailed   []int         `json:"open_failed,omitempty"`   // server connections of failed attempts the client never closed
	GateMissed   bool          `json:"gate_missed,omitempty"`   // late variants: the loop could not be stopped where intended
	FailedStates []int         `json:"failed_states,omitempty"` // client state right after each attempt whose hook failed
	LateClose    bool          `json:"late_close,omitempty"`    // latefail: the loop answered its failed late ping with Close
	Ends         []int         `json:"ends,omitempty"`          // hist: how each established session ended (k_end of the model)
	Hist         []c18HistSess `json:"hist,omitempty"`          // hist: per session of the history
}

func kaSessionTail(clear []byte) []byte {
	// what follows the negotiation: after the initial presence (Connect) or the bind request (Resume)
	i := bytes.LastIndex(clear, []byte("<presence/>"))
	if i >= 0 {
		i += len("<presence/>")
	}
	if j := bytes.LastIndex(clear, []byte("</iq>")); j >= 0 && j+5 > i {
		i = j + 5
	}
	if i < 0 {
		return nil
	}
	return bytes.ReplaceAll(clear[i:], []byte("</stream:stream>"), nil)
}

func runKeepaliveRe(in *c18In, attempt int) (Sx, *c18Obs) {
	if in.Variant == "hist" {
		return runKeepaliveHist(in, attempt)
	}
	iv := time.Duration(in.IvUs) * time.Microsecond
	setupErr := func(msg string) (Sx, *c18Obs) {
		return L(L(L(Z(-2), SBytes(msg))), L(), L()), &c18Obs{Attempts: attempt, SetupErr: msg, CloseUs: -1, ReturnUs: -1, Re: &c18ReObs{}}
	}
	groups := [][]sItem{
		{hdrItem(), {T: "features", Mechs: []string{"PLAIN"}}},
		{{T: "success"}},
		{hdrItem(), {T: "features", Bind: true}},
		{{T: "iq", Typ: "result", ID: "b", Pl: "bind", Jid: "user@" + srvDomain + "/r"}},
	}
	srv, err := startScriptedServer([]connScript{{Groups: groups}, {Groups: groups}, {Groups: groups}, {Groups: groups}})
	if err != nil {
		return setupErr("listen: " + err.Error())
	}
	defer srv.stop()
	addr := srv.addr()
	var relay *kaRelay
	if in.Variant == "closewait" {
		// a TCP path that can go silent and be reset from the middle
		if relay, err = newKaRelay(addr); err != nil {
			return setupErr("relay: " + err.Error())
		}
		defer relay.close()
		addr = relay.ln.Addr().String()
	}
	cfg := &xmpp.Config{
		TransportConfiguration: xmpp.TransportConfiguration{Address: addr, Domain: srvDomain, ConnectTimeout: 1},
		Jid:                    "user@" + srvDomain, Credential: xmpp.Password("secret"), Insecure: true,
		ConnectTimeout: 1, KeepaliveInterval: iv,
	}
	type stamp struct {
		at   time.Time
		disc bool
	}
	var mu sync.Mutex
	var reports []stamp
	discCh := make(chan struct{}, 16)
	var serrAt time.Time
	client, err := xmpp.NewClient(cfg, xmpp.NewRouter(), func(e error) {
		mu.Lock()
		at := time.Now()
		if e != nil && strings.HasPrefix(e.Error(), "stream error") && !serrAt.IsZero() {
			at = serrAt // reported after the event handler returned, but it is about the session the stream error ended
		}
		reports = append(reports, stamp{at, false})
		mu.Unlock()
	})
	if err != nil {
		return setupErr("newclient: " + err.Error())
	}
	ro := &c18ReObs{}
	est := []time.Time{} // when each session was established
	srvConn := []int{0}  // server connection of each established session
	nconn := 1
	resumed := make(chan struct{}, 1)
	client.SetHandler(func(e xmpp.Event) error {
		if xmpp.VerifEventState(e) == xmpp.StateStreamError && in.Variant == "serrmgr" {
			mu.Lock()
			first := serrAt.IsZero()
			if first {
				serrAt = time.Now()
			}
			mu.Unlock()
			if first {
				// what a StreamManager does from inside the handler: disconnect, back off, resume; it
				// returns only when the new session is up
				client.Disconnect()
				time.Sleep(4 * iv)
				err := client.Resume()
				mu.Lock()
				idx := nconn
				nconn++
				if err == nil {
					ro.Attempts = append(ro.Attempts, 0)
					est = append(est, time.Now())
					srvConn = append(srvConn, idx)
				} else {
					ro.Attempts = append(ro.Attempts, 1)
				}
				mu.Unlock()
				resumed <- struct{}{}
			}
		}
		if xmpp.VerifEventState(e) == xmpp.StateDisconnected {
			mu.Lock()
			reports = append(reports, stamp{time.Now(), true})
			mu.Unlock()
			select {
			case discCh <- struct{}{}:
			default:
			}
		}
		return nil
	})
	connectHookCalls := 0
	client.PostConnectHook = func() error {
		connectHookCalls++
		if in.Variant == "connecthook" && connectHookCalls == 1 {
			return errors.New("application: fetching the roster failed")
		}
		return nil
	}
	hookCalls := 0
	client.PostResumeHook = func() error {
		hookCalls++
		if in.Variant == "hookfail" && hookCalls == 1 {
			return errors.New("application: refreshing the roster failed")
		}
		return nil
	}
	rec := &kaRec{}
	gate := newKaGate()
	tr := &kaReal{Transport: xmpp.VerifTransport(client), rec: rec, slow: true, attr: true, gate: gate}
	xmpp.VerifSetTransport(client, tr)
	late := in.Variant == "lateping" || in.Variant == "latefail"
	var failedConns []int
	start := time.Now()
	if in.Variant == "connecthook" {
		// the first Connect establishes a session, then PostConnectHook fails and Connect returns its error
		if err := client.Connect(); err == nil {
			return setupErr("Connect did not return the hook's error")
		}
		ro.Attempts = append(ro.Attempts, 2)
		ro.FailedStates = append(ro.FailedStates, int(xmpp.VerifConnState(&client.EventManager)))
		failedConns = append(failedConns, 0)
		srvConn = []int{1}
		nconn = 2
	}
	if err := client.Connect(); err != nil {
		o := &c18Obs{Attempts: attempt, SetupErr: "connect: " + err.Error(), CloseUs: -1, ReturnUs: -1, ConnectErr: true, Re: ro}
		return L(L(L(Z(-2), SBytes("connect"))), L(), L()), o
	}
	mu.Lock()
	ro.Attempts = append(ro.Attempts, 0)
	est = append(est, time.Now())
	mu.Unlock()
	var ends []time.Time // when each session was seen to be over
	endsExact := false
	time.Sleep(time.Duration(in.Ticks) * iv)

	// session 1 ends
	if in.Variant == "staleclose" {
		// right after a keep-alive, so that the next one (which will fail) is a whole interval away
		n0 := len(rec.snapshot())
		for dl := time.Now().Add(3 * iv); len(rec.snapshot()) == n0 && time.Now().Before(dl); {
			time.Sleep(iv / 20)
		}
		srv.push(srvConn[0], sItem{T: "serr", Cond: "system-shutdown"}.xml())
		time.Sleep(5 * time.Millisecond) // the client reads the stream error, its receiver enters Close (1 s)
	}
	releaseLate := func() {}
	var closeEntered time.Time
	if in.Variant == "serrmgr" {
		// the session ends by a stream error; the handler above reconnects before it returns
		srv.push(srvConn[0], sItem{T: "serr", Cond: "system-shutdown"}.xml())
		select {
		case <-resumed:
		case <-time.After(6 * time.Second):
		}
		mu.Lock()
		at := serrAt
		mu.Unlock()
		if at.IsZero() {
			at = time.Now()
		}
		// over when the stream error was received (+ half an interval for a ping already under way)
		ends = append(ends, at.Add(iv/2))
		endsExact = true
	} else {
		var holdPing, holdClose chan struct{}
		if late {
			// the keep-alive loop has polled quit (open) and is stopped right before its ping
			holdPing = gate.arm(true)
			select {
			case <-gate.pingIn:
			case <-time.After(3*iv + time.Second):
				ro.GateMissed = true
			}
		}
		if in.Variant == "closewait" {
			// the peer goes silent; the next keep-alive cannot be written; the loop answers with Close, which
			// writes the closing tag and waits (ConnectTimeout, 1 s) for an answer that cannot come
			relay.freeze()
			n0 := len(rec.snapshot())
			atomic.StoreInt32(&tr.failPing, 1)
			for dl := time.Now().Add(3*iv + time.Second); time.Now().Before(dl); time.Sleep(iv / 10) {
				evs := rec.snapshot()
				if len(evs) > n0 && evs[len(evs)-1].code == kaClose {
					break
				}
			}
			closeEntered = time.Now()
			time.Sleep(30 * time.Millisecond)
			// ... meanwhile the connection is reset: the receiver reports the loss, the client is resumed
			relay.cutClients()
			relay.unfreeze()
		} else {
			srv.drop(srvConn[0])
		}
		select {
		case <-discCh:
		case <-time.After(4 * time.Second):
		}
		ends = append(ends, time.Now())
		if in.Variant == "latefail" {
			// the first re-dial is refused: the transport holds no connection when the held ping finally runs
			srv.ln.Close()
			if err := client.Resume(); err != nil {
				ro.Attempts = append(ro.Attempts, 1)
			} else {
				ro.GateMissed = true
			}
			holdClose = gate.arm(false)
			close(holdPing) // the ping fails ("no connection"); the loop goes on to Close and is stopped at its entry
			holdPing = nil
			select {
			case <-gate.closeIn:
				ro.LateClose = true
			case <-time.After(300 * time.Millisecond):
			}
			if err := srv.relisten(); err != nil {
				return setupErr("relisten: " + err.Error())
			}
		}
		defer func() {
			if holdPing != nil {
				close(holdPing)
			}
		}()
		releaseLate = func() {
			if holdPing != nil {
				close(holdPing) // written on whatever connection the transport holds NOW
				holdPing = nil
			}
			if holdClose != nil {
				close(holdClose) // the Close that answers the failed late ping acts NOW
				holdClose = nil
			}
		}
	}

	// the application reconnects on the same object until Resume reports success
	for try := 0; try < 6 && in.Variant != "serrmgr"; try++ {
		err := client.Resume()
		idx := nconn
		nconn++
		if err == nil {
			ro.Attempts = append(ro.Attempts, 0)
			est = append(est, time.Now())
			srvConn = append(srvConn, idx)
			break
		}
		ro.Attempts = append(ro.Attempts, 2)
		ro.FailedStates = append(ro.FailedStates, int(xmpp.VerifConnState(&client.EventManager)))
		failedConns = append(failedConns, idx)
		time.Sleep(5 * time.Millisecond)
	}
	ro.Sessions = len(est)
	last := len(est) - 1
	releaseLate() // the new session is up
	// the last session stays up: long enough for a Close that was entered ConnectTimeout ago to act
	up := 12 * iv
	if in.Variant == "staleclose" {
		up = 4 * iv
	}
	if in.Variant == "closewait" && !closeEntered.IsZero() {
		// until the first session's Close has sat out its wait and acted, and then some keep-alives more
		if d := time.Until(closeEntered.Add(1100 * time.Millisecond)); d > 0 {
			time.Sleep(d)
		}
	}
	time.Sleep(up)
	mu.Lock()
	for _, r := range reports {
		if r.disc && last > 0 && r.at.After(est[last]) {
			ro.LostLast = true
		}
	}
	mu.Unlock()
	ro.LastUpUs = time.Since(est[last]).Microseconds()
	if logs := srv.snapshot(); srvConn[last] < len(logs) {
		ro.LastSrvN = len(kaSessionTail(logs[srvConn[last]].ClearBy))
	}
	// the harness ends the last session
	for len(discCh) > 0 {
		<-discCh
	}
	go client.Disconnect()
	select {
	case <-discCh:
	case <-time.After(3 * time.Second):
	}
	grace := 8 * iv
	if grace < 40*time.Millisecond {
		grace = 40 * time.Millisecond
	}
	time.Sleep(grace)
	ends = append(ends, time.Now())
	window := 10 * iv
	if window < 30*time.Millisecond {
		window = 30 * time.Millisecond
	}
	if window > 300*time.Millisecond {
		window = 300 * time.Millisecond
	}
	time.Sleep(window)

	// ---- loops, by goroutine ----
	evs := rec.snapshot()
	logs := srv.snapshot()
	var order []string
	byG := map[string][]kaEv{}
	for _, e := range evs {
		if e.code == kaCloseOther {
			continue
		}
		if _, ok := byG[e.g]; !ok {
			order = append(order, e.g)
		}
		byG[e.g] = append(byG[e.g], e)
	}
	mu.Lock()
	reps := append([]stamp{}, reports...)
	mu.Unlock()
	// which session a loop belongs to: the one that was the current one when the loop made its first call.
	// A loop that never got to ping (a short session on a loaded machine) is invisible: its session simply
	// has no loop here. Only MORE than one loop in a session is a statement about the code.
	sessLoops := make([][]string, len(est))
	for _, g := range order {
		first := byG[g][0].at
		k := 0
		for k+1 < len(est) && !first.Before(est[k+1]) {
			k++
		}
		if len(est) > 0 {
			sessLoops[k] = append(sessLoops[k], g)
		}
	}
	// the one ping a loop may still make after its session ended (it was past its poll of quit) can be the
	// only call a starved loop ever makes: then it shows up in the NEXT session's time; give it back
	for k := 1; k < len(sessLoops); k++ {
		if len(sessLoops[k]) > 1 && len(sessLoops[k-1]) == 0 {
			for i, g := range sessLoops[k] {
				if len(byG[g]) == 1 && (byG[g][0].code == kaPingOk || byG[g][0].code == kaPingFail) {
					sessLoops[k-1] = append(sessLoops[k-1], g)
					sessLoops[k] = append(append([]string{}, sessLoops[k][:i]...), sessLoops[k][i+1:]...)
					break
				}
			}
		}
	}
	var loopsSx []Sx
	for k := range est {
		gs := sessLoops[k]
		if len(gs) == 0 {
			gs = []string{""} // no visible loop: an empty log
		}
		for li, g := range gs {
			// over = when session k was seen to be over
			over := ends[len(ends)-1]
			if k < len(ends) {
				over = ends[k]
				if k < len(ends)-1 && !endsExact && !late {
					over = over.Add(40 * time.Millisecond)
				}
			}
			lp := c18ReLoop{Session: k, Seen: g != ""}
			var before, after []kaEv
			for _, e := range byG[g] {
				if e.at.After(over) {
					after = append(after, e)
					if e.code == kaPingOk || e.code == kaPingFail {
						lp.Late++
					}
					if e.code == kaPingOk {
						lp.LateOk++
					}
				} else {
					before = append(before, e)
					if e.code == kaPingOk && !lp.Failed {
						lp.NSucc++
					}
				}
				if e.code == kaPingFail {
					lp.Failed = true
				}
				if e.code == kaClose && lp.Failed {
					lp.Closed = true
				}
			}
			seq := append(append(before, kaEv{code: kaReturn}), after...)
			var wire []byte
			if k < len(srvConn) && srvConn[k] < len(logs) {
				wire = kaSessionTail(logs[srvConn[k]].ClearBy)
			}
			npings := 0
			for _, e := range byG[g] {
				if e.code == kaPingOk || e.code == kaPingFail {
					npings++
				}
			}
			wsx, units := kaWireSx(wire, npings, false)
			if npings == 0 {
				// an invisible loop: what the server read on this connection is not its doing (compared as none)
				wsx, units = L(Z(0), B(kaAllWS(wire))), 0
			}
			lp.SrvN = units
			if li == 0 {
				lo := est[k]
				hi := time.Now().Add(time.Hour)
				if k+1 < len(est) {
					hi = est[k+1]
				}
				for _, r := range reps {
					if r.at.After(lo) && !r.at.After(hi) {
						if r.disc {
							lp.Disc++
						} else {
							lp.Err++
						}
					}
				}
			}
			ro.Loops = append(ro.Loops, lp)
			loopsSx = append(loopsSx, L(kaEvsSx(seq), wsx, L(), L(Zi(lp.Err), Zi(lp.Disc))))
		}
	}
	for _, idx := range failedConns {
		if idx < len(logs) && logs[idx].Ended == "" {
			ro.OpenFailed = append(ro.OpenFailed, idx)
		}
	}
	o := c18Summarise(nil, start, start, false, attempt)
	o.Re = ro
	if len(ro.Loops) > 0 {
		o.NSucc = ro.Loops[0].NSucc
	}
	// per attempt: is a session left up behind it (for a failed attempt: did the client leave its connection open)
	var left []Sx
	fi := 0
	for _, a := range ro.Attempts {
		switch a {
		case 0:
			left = append(left, B(true))
		case 1:
			left = append(left, B(false))
		default:
			open := false
			if fi < len(failedConns) {
				for _, x := range ro.OpenFailed {
					open = open || x == failedConns[fi]
				}
				fi++
			}
			left = append(left, B(open))
		}
	}
	// per attempt: the client's state afterwards (compared for the attempts whose hook failed)
	var states []Sx
	si := 0
	for _, a := range ro.Attempts {
		switch a {
		case 0:
			states = append(states, Z(1))
		case 1:
			states = append(states, Z(2))
		default:
			st := 1
			if si < len(ro.FailedStates) && ro.FailedStates[si] == int(xmpp.StateDisconnected) {
				st = 0
			}
			si++
			states = append(states, Zi(st))
		}
	}
	return L(LS(loopsSx), LS(left), LS(states)), o
}

// reInputSx: the history of attempts, each with the loop it would run (observed pings, how it ended).
func reInputSx(in *c18In, o *c18Obs) Sx {
	ro := o.Re
	if ro == nil {
		ro = &c18ReObs{}
	}
	suf := make([]Sx, len(in.Suffix))
	for i, s := range in.Suffix {
		suf[i] = Zi(s & 1)
	}
	var atts []Sx
	k := 0 // index among established sessions = index of the loop on a correct implementation
	nsess := 0
	for _, a := range ro.Attempts {
		if a == 0 {
			nsess++
		}
	}
	for _, a := range ro.Attempts {
		lp := c18ReLoop{}
		end := 1
		if a == 0 {
			for _, x := range ro.Loops {
				if x.Session == k {
					lp = x
					break
				}
			}
			switch {
			case k == nsess-1:
				end = 2 // ended by the harness: Disconnect, the server answers with its closing tag
			case in.Variant == "staleclose":
				end = 3 // stream error, then the read fails
			case in.Variant == "serrmgr":
				end = 4 // stream error; the handler reconnected, the loop returns without a Disconnected event
			}
			if in.Variant == "hist" {
				end = 1
				if k < len(ro.Ends) {
					end = ro.Ends[k] // every session of a history ends in its own way
				}
			}
			k++
		}
		term, failAt, lateFlag := 0, 0, 0
		if lp.Failed {
			term, failAt = 1, lp.NSucc+1
			if !lp.Closed {
				lateFlag = 1 // racing with the end of the session: observed
			}
		}
		if a == 0 && k == 1 && (in.Variant == "lateping" || in.Variant == "latefail") {
			// the harness held the last ping of loop 1 past its poll until the session was over and re-dialled:
			// the model is TOLD so, and decides by itself that no Close follows
			lateFlag = 2
		}
		if a == 0 && in.Variant == "hist" && lp.Late == 1 && ((!lp.Failed && lp.LateOk == 1) || (lp.Failed && lp.LateOk == 0 && !lp.Closed)) {
			lateFlag = 2 // the one ping that was past its poll of quit when the session ended: observed (after the marker, no Close)
		}
		inp := L(Zi(in.IvUs), Zi(term), Zi(failAt), Zi(lp.NSucc), LS(suf), Z(1), B(true), Zi(lp.SrvN), L(), Zi(end), B(true), Zi(lateFlag))
		atts = append(atts, L(Zi(a), inp))
	}
	return L(Z(99), LS(atts))
}

func reOracle(in *c18In, obs Sx) (string, string) {
	if in.Variant == "hist" {
		return histOracle(in, obs)
	}
	o := in.Obs
	if o == nil || o.Re == nil {
		return "no observation: " + obs.String(), "shape"
	}
	if o.SetupErr != "" {
		return "test set-up failed (not a statement about the code): " + o.SetupErr, "setup"
	}
	ro := o.Re
	iv := int64(in.IvUs)
	if ro.Sessions < 2 {
		return "the client could not be reconnected on the same object", "setup"
	}
	// a Close entered for session 1 must not act on the session established meanwhile
	if ro.LostLast {
		how := "the connection of the new session was closed by the client itself"
		if in.Variant == "closewait" {
			how = "the Close that answered the failed keep-alive of session 1 was still waiting for the peer's closing tag when the client was resumed; when its wait was over it did something to the transport of session 2 (whose next keep-alive then found no connection or was not written on its connection)"
		}
		if in.Variant == "latefail" {
			how = "the keep-alive of session 1 was past its poll of quit when the session ended; it ran after a refused re-dial, failed for want of a connection, and the loop answered that with transport.Close(), which acted on the connection of the session established meanwhile"
		}
		if in.Variant == "staleclose" {
			how = "the keep-alive of session 1 failed while its receiver sat in Close; its own Close (entered then, acting ConnectTimeout later) closed the connection of the session established meanwhile"
		}
		return fmt.Sprintf("session %d, healthy and untouched by the server, was reported lost %d ms after it came up: %s", ro.Sessions, ro.LastUpUs/1000, how), "close-hits-next-session"
	}
	// one keep-alive loop per established session
	perSession := make([]int, ro.Sessions)
	for _, lp := range ro.Loops {
		if lp.Seen && lp.Session < len(perSession) {
			perSession[lp.Session]++
		}
	}
	for k, n := range perSession {
		if n > 1 {
			return fmt.Sprintf("%d keep-alive loops were pinging during session %d of %d (attempts %v: 0 ok, 1 connect failed, 2 = the hook's error was returned): a loop that does not belong to the session - left behind by an attempt that reported failure, or by an earlier session - follows the transport to this connection", n, k+1, ro.Sessions, ro.Attempts), "keepalive-loop-count"
		}
	}
	// ... at the configured interval on the live session, not a multiple of it
	if int64(ro.LastSrvN) > ro.LastUpUs/iv+2 {
		return fmt.Sprintf("the last session was up for %d us at interval %d us and the server read %d keep-alive bytes", ro.LastUpUs, iv, ro.LastSrvN), "too-many-pings"
	}
	if ro.LateClose {
		return "the session was over (loss reported, re-dial refused) when the held keep-alive finally ran and failed for want of a connection; the loop answered it with transport.Close(), which then acts on whatever connection the client has by then", "close-after-session-end"
	}
	for k, lp := range ro.Loops {
		k = lp.Session
		if k == 0 && (in.Variant == "lateping" || in.Variant == "latefail") && lp.Late <= 1 {
			continue // the one ping that was already past the poll of quit
		}
		if lp.Late > 0 {
			when := "after its session was over"
			if in.Variant == "serrmgr" && k == 0 {
				when = "after the server's stream error had ended its session, while the StreamError handler was disconnecting, backing off and resuming (any connection of the client counted)"
			}
			return fmt.Sprintf("keep-alive loop %d pinged %d times %s", k+1, lp.Late, when), "ping-after-session-end"
		}
	}
	if len(ro.Loops) == 0 {
		return "no session was observed", "setup"
	}
	if last := ro.Loops[len(ro.Loops)-1]; last.NSucc == 0 && ro.LastUpUs/iv >= 8 && ro.LastUpUs >= 40000 {
		return fmt.Sprintf("the last session was up for %d intervals without a keep-alive", ro.LastUpUs/iv), "too-few-pings"
	}
	for _, st := range ro.FailedStates {
		if st != int(xmpp.StateDisconnected) {
			return fmt.Sprintf("Connect/Resume returned the hook's error and closed the session it had established, but the client's state stays %d (StateSessionEstablished = %d): the session is reported up for good, a StreamManager refuses to connect this client again", st, int(xmpp.StateSessionEstablished)), "failed-attempt-state-not-disconnected"
		}
	}
	if len(ro.OpenFailed) > 0 {
		which := "Resume"
		if in.Variant == "connecthook" {
			which = "Connect (PostConnectHook failed)"
		}
		return fmt.Sprintf("%s reported failure but left the session it had established up on server connection(s) %v: no keep-alive is ever written on it, nobody reads it, nothing closes it", which, ro.OpenFailed), "failed-attempt-session-left-open"
	}
	return "", ""
}

// ---- a non-positive KeepaliveInterval through NewClient and Connect ----

func runKeepaliveNegIv(in *c18In, attempt int) (Sx, *c18Obs) {
	setupErr := func(msg string) (Sx, *c18Obs) {
		return L(L(Z(-2)), SBytes(msg), L(), kaNoReport), &c18Obs{Attempts: attempt, SetupErr: msg, CloseUs: -1, ReturnUs: -1}
	}
	groups := [][]sItem{
		{hdrItem(), {T: "features", Mechs: []string{"PLAIN"}}},
		{{T: "success"}},
		{hdrItem(), {T: "features", Bind: true}},
		{{T: "iq", Typ: "result", ID: "b", Pl: "bind", Jid: "user@" + srvDomain + "/r"}},
	}
	srv, err := startScriptedServer([]connScript{{Groups: groups}})
	if err != nil {
		return setupErr("listen: " + err.Error())
	}
	defer srv.stop()
	cfg := &xmpp.Config{
		TransportConfiguration: xmpp.TransportConfiguration{Address: srv.addr(), Domain: srvDomain, ConnectTimeout: 1},
		Jid:                    "user@" + srvDomain, Credential: xmpp.Password("secret"), Insecure: true,
		ConnectTimeout: 1, KeepaliveInterval: time.Duration(in.IvUs) * time.Microsecond,
	}
	var mu sync.Mutex
	errCalls, discEvents := 0, 0
	discCh := make(chan struct{}, 4)
	client, err := xmpp.NewClient(cfg, xmpp.NewRouter(), func(error) { mu.Lock(); errCalls++; mu.Unlock() })
	if err != nil {
		return setupErr("newclient: " + err.Error())
	}
	client.SetHandler(func(e xmpp.Event) error {
		if xmpp.VerifEventState(e) == xmpp.StateDisconnected {
			mu.Lock()
			discEvents++
			mu.Unlock()
			select {
			case discCh <- struct{}{}:
			default:
			}
		}
		return nil
	})
	rec := &kaRec{}
	tr := &kaReal{Transport: xmpp.VerifTransport(client), rec: rec, slow: true, attr: true}
	xmpp.VerifSetTransport(client, tr)
	start := time.Now()
	if err := client.Connect(); err != nil {
		return setupErr("connect: " + err.Error())
	}
	// NewClient and Connect returned nil: the keep-alive goroutine is the library's own from here on
	time.Sleep(60 * time.Millisecond)
	mu.Lock()
	lost := discEvents > 0
	mu.Unlock()
	go client.Disconnect()
	select {
	case <-discCh:
	case <-time.After(3 * time.Second):
	}
	time.Sleep(20 * time.Millisecond)
	rec.add(kaReturn)
	evs := rec.snapshot()
	var wire []byte
	if logs := srv.snapshot(); len(logs) > 0 {
		wire, _ = kaKeepaliveBytes(logs[0].ClearBy)
	}
	mu.Lock()
	o := c18Summarise(evs, start, start, false, attempt)
	o.ErrCalls, o.DiscEvents, o.LostWhileUp = errCalls, discEvents, lost
	mu.Unlock()
	o.Wire = string(wire)
	wsx, units := kaWireSx(wire, len(o.PingUs), false)
	o.SrvN = units
	return L(kaEvsSx(evs), wsx, L(), L(Zi(o.ErrCalls), Zi(o.DiscEvents))), o
}
