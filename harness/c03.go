package main

// C03 (negotiation), C04 (TLS policy), C11 (SM resumption): generators and
// model-free oracles over the shared session runner (session.go).

import (
	"encoding/json"
	"fmt"
	"math/rand"
	"regexp"
	"strconv"
	"strings"
)

type sessProp struct {
	id   string
	gen  func(r *rand.Rand, tier string) []interface{}
	rule string
}

func (p sessProp) ID() string    { return p.id }
func (p sessProp) RunFn() string { return "run_session" }
func (p sessProp) Workers() int  { return 48 }
func (p sessProp) Journal() bool { return true }
func (p sessProp) Rule() string  { return p.rule }
func (p sessProp) Gen(r *rand.Rand, tier string) []interface{} {
	return p.gen(r, tier)
}
func (p sessProp) Decode(raw json.RawMessage) (interface{}, error) {
	var in sessIn
	err := json.Unmarshal(raw, &in)
	return in, err
}

// observations are kept per input for the oracle (Run is called before Oracle)
func (p sessProp) Run(in interface{}) Sx {
	if in.(sessIn).WS != "" {
		return runSessionWS(in.(sessIn))
	}
	_, sx := runSessionRaw(in.(sessIn))
	return sx
}
func (p sessProp) Input(in interface{}) Sx { return sessInputSx(in.(sessIn)) }
func (p sessProp) InputObs(in interface{}, obs Sx) Sx {
	return sessInputObsSx(in.(sessIn), obs)
}

func (p sessProp) Key(inp interface{}) (string, bool) {
	in := inp.(sessIn)
	var b strings.Builder
	fmt.Fprintf(&b, "%si%v r%v e%v m%v o%v t%d s%s|", in.WS, in.Insecure, in.Resource != "", in.SMEnable, in.SMResume, in.OAuth, in.TLSMode, in.ServerName)
	n := 0
	for _, c := range in.Conns {
		fmt.Fprintf(&b, "[%s%v", c.Cert, c.NoDial)
		if c.AppSendAt > 0 {
			fmt.Fprintf(&b, "@%d%s", c.AppSendAt, c.AppSendVia)
		}
		for _, g := range c.Groups {
			for _, it := range g {
				b.WriteString(it.T + it.Typ + it.Pl + it.Res + it.NS + it.Open + fmt.Sprint(it.TLS, it.Sess, it.SM, it.Err, it.KeepID, it.Jid == "") + ",")
				n++
			}
		}
		b.WriteString("]")
	}
	hist("tag:" + in.Tag)
	return b.String(), n >= 3
}

var reOrder = regexp.MustCompile(`^(O(T|(TO)?(A(O(R)?(B(S)?(E)?)?)?)?))?$`)

// Oracle: model-free reading of the three properties on the observation
// (per connection: requests as seen by the server with the real TLS state of the
// channel, the error returned, the client's state afterwards).
func (p sessProp) Oracle(inp interface{}, obs Sx) (string, string) {
	in := inp.(sessIn)
	if obs.K != "l" || (len(obs.L) > 0 && obs.L[0].K == "s") {
		return "scenario did not finish: " + obs.String(), "hang"
	}
	if len(obs.L) != len(in.Conns) {
		return "connection count differs", "shape"
	}
	prevID, prevInb, prevJid := "", int64(0), ""
	smEnable := in.SMEnable   // the application's wish for stream management: no connection takes it away
	resumeWish := in.SMResume // ... its wish for resumption: gone once an <enabled/> has not granted it (scenario-derived)
	expInb := int64(0)        // stanzas the SERVER pushed on the current stream-managed session (independent of the client's own counter)
	expID := ""               // id of the last <enabled/> that completed a negotiation; "" once a resumption with it was not confirmed (scenario-derived, not read from the client)
	for ci, co := range obs.L {
		reqs, res, snap := co.L[0].L, co.L[1], co.L[2]
		ok := res.L[0].Z == 0
		c := in.Conns[ci]
		// ---- C03: order of requests
		var word strings.Builder
		sawAuth, sawBind, sawResume := false, false, false
		for rj, rq := range reqs {
			k, secure := rq.L[0].L[0].Z, rq.L[1].Z == 1
			if isAppSendReq(rq) {
				// ---- C03: the client's own requests only: nothing the application sends goes on the wire while the
				// negotiation is in progress (the server held back answer number AppSendAt until Send/SendRaw had returned)
				return fmt.Sprintf("conn %d: the application's <message/> (%s called while the server held back its answer number %d) reached the server during the negotiation, after %d request(s) of the client (inside TLS: %v), before the session was established", ci, map[bool]string{true: "SendRaw", false: "Send"}[c.AppSendVia == "raw"], c.AppSendAt, rj, secure), "app-send-during-negotiation"
			}
			word.WriteByte("OTARBSE?"[min64(k, 7)])
			switch k {
			case 2:
				sawAuth = true
			case 3:
				sawResume = true
				// ---- C11: content of <resume/>
				id := string(bytesOf(rq.L[0].L[1]))
				if id == "" || id != prevID {
					return fmt.Sprintf("conn %d: <resume previd=%q/> but the id held from the last <enabled/> is %q", ci, id, prevID), "resume-id"
				}
				if id != expID {
					return fmt.Sprintf("conn %d: <resume previd=%q/> but the only id still valid (last <enabled/>, not refused or mismatched since) is %q", ci, id, expID), "resume-stale-id"
				}
				if rq.L[0].L[2].Z != prevInb {
					return fmt.Sprintf("conn %d: <resume h=%d/> but the session state says %d stanzas were received", ci, rq.L[0].L[2].Z, prevInb), "resume-h"
				}
				if rq.L[0].L[2].Z != expInb {
					return fmt.Sprintf("conn %d: <resume h=%d/> but the server had sent %d stanzas on the stream-managed session", ci, rq.L[0].L[2].Z, expInb), "resume-h-vs-sent"
				}
			case 4:
				sawBind = true
			case 6:
				// ---- <enable resume=.../>: what the application wished for, unless an earlier <enabled/> refused resumption
				if got := rq.L[0].L[1].Z == 1; got != resumeWish {
					return fmt.Sprintf("conn %d: <enable/> sent with resume=%v; the application asked for resume=%v and an earlier <enabled/> without resumption granted: %v", ci, got, in.SMResume, in.SMResume && !resumeWish), "enable-resume-flag"
				}
			}
			// ---- C04: nothing but stream headers and <starttls/> outside TLS
			if !in.Insecure && !secure && k != 0 && k != 1 {
				return fmt.Sprintf("conn %d: request kind %d written outside TLS with Insecure=false", ci, k), "cleartext-request"
			}
			if secure && !in.tlsOutcome(c.Cert) {
				return fmt.Sprintf("conn %d: request kind %d sent inside TLS although the certificate (%s, tlsmode %d, servername %q) must not verify", ci, k, c.Cert, in.TLSMode, in.ServerName), "unverified-tls"
			}
		}
		// ---- C03: each request only after the previous step was answered (patient server: model-free lower bound:
		// request j shows up only after at least one item of the answer to request j-1 has been sent; the exact
		// bound -- all the items that confirm request j-1 -- is the model's, compared through the echoed count)
		if in.Patient {
			before := 0 // items in the answers to requests 0..j-2
			for j, rq := range reqs {
				if j >= 1 && j-1 < len(c.Groups) {
					g := 0
					for _, it := range c.Groups[j-1] {
						if it.T != "wait" && it.T != "eof" {
							g++
						}
					}
					if len(rq.L) == 3 && g > 0 && rq.L[2].Z >= 0 && rq.L[2].Z < int64(before+1) {
						return fmt.Sprintf("conn %d: request %d (kind %d) showed up when the server had sent %d items, i.e. before any part of the answer to request %d (items %d..%d)", ci, j, rq.L[0].L[0].Z, rq.L[2].Z, j-1, before+1, before+g), "request-before-confirmation"
					}
					before += g
				}
			}
		}
		if !reOrder.MatchString(word.String()) {
			return fmt.Sprintf("conn %d: client requests out of RFC 6120 order: %s", ci, word.String()), "order"
		}
		// ---- C03: success iff the script completes (independent recogniser)
		want, enabledRes := scriptCompletes(in, c, prevID, smEnable)
		if rr := resumeReply(c, expID); sawResume && rr != "resumed-same" && rr != "eof" && rr != "" {
			expID = "" // refused, mismatched, unexpected, closed: that id must never be presented again
			// (a connection that goes away before any answer has refused nothing: the id stays valid)
		}
		if want && enabledRes != "" {
			expID = enabledIDOf(c)
		}
		noSM := want && !smOfferedAfterAuth(c)
		if noSM {
			// a session was bound on a stream without stream management: whatever was held from an earlier
			// session is gone (it must not be presented again, and this session's stanzas are not counted into it)
			expID, expInb = "", 0
		}
		if want && enabledRes != "" {
			if granted, err := strconv.ParseBool(enabledRes); err != nil || !granted {
				// the server did not grant resumption: only that wish is gone; stream management is on for this session,
				// and later streams are asked for <enable/> again
				resumeWish = false
			}
		}
		if ok != want {
			return fmt.Sprintf("conn %d: Connect returned ok=%v but the server script completes the mandatory steps: %v", ci, ok, want), fmt.Sprintf("success-mismatch-%v", ok)
		}
		// ---- C03: "... and the session-established state is announced - exactly when ..." (events delivered to the
		// EventHandler while Client.connect ran, and until the connection was over): once iff the script completes
		if len(co.L) >= 5 && len(co.L[4].L) == 2 {
			wantN := int64(0)
			if want {
				wantN = 1
			}
			if atRet, atEnd := co.L[4].L[0].Z, co.L[4].L[1].Z; atRet != wantN || atEnd != wantN {
				return fmt.Sprintf("conn %d: the session-established state was announced %d time(s) by the time connect returned and %d time(s) by the end of the connection; the server script completes the mandatory steps: %v (Connect returned ok=%v)", ci, atRet, atEnd, want, ok), fmt.Sprintf("established-%d-%d-want-%d", atRet, atEnd, wantN)
			}
		}
		// ---- C11: outcome of a resumption attempt
		id := string(bytesOf(snap.L[1]))
		jid := string(bytesOf(snap.L[4]))
		if noSM && ok && id != "" {
			return fmt.Sprintf("conn %d: a session was bound on a stream without stream management, yet the client still holds the id %q of an earlier session (and counts this session's stanzas into it)", ci, id), "stale-kept-no-sm"
		}
		if sawResume {
			rep := resumeReply(c, prevID)
			switch {
			case rep == "resumed-same":
				if !ok || sawBind || id != prevID || jid != prevJid || snap.L[2].Z != prevInb+int64(c.Traffic) {
					return fmt.Sprintf("conn %d: resumption confirmed but the session was not continued unchanged (ok=%v bind=%v id=%q)", ci, ok, sawBind, id), "resumed-not-continued"
				}
			case rep == "failed":
				if !sawBind {
					return fmt.Sprintf("conn %d: resumption refused but no bind request followed", ci), "refused-no-bind"
				}
			case rep == "eof" || rep == "":
				// the connection went away before any answer: nothing was refused, the state held must survive
				if ok || sawBind {
					return fmt.Sprintf("conn %d: no answer to <resume/> (connection cut) and yet ok=%v bind=%v", ci, ok, sawBind), "unanswered-continued"
				}
				if id != prevID || snap.L[2].Z != prevInb {
					return fmt.Sprintf("conn %d: the connection was cut while the answer to <resume previd=%q h=%d/> was awaited - nothing was refused - and the client holds id %q, count %d afterwards", ci, prevID, prevInb, id, snap.L[2].Z), "unanswered-state-lost"
				}
			default:
				if ok && !sawBind {
					return fmt.Sprintf("conn %d: reply %q to <resume/> and the old session was continued", ci, rep), "stale-continued"
				}
				if (ok || id == prevID) && prevID != "" && !sawBind {
					return fmt.Sprintf("conn %d: reply %q to <resume/>: stale state kept (id %q)", ci, rep, id), "stale-kept"
				}
			}
		}
		// ---- C11/C09: an attempt that fails before the client has asked anything (no <resume/>, no bind request:
		// refused dial, features that never arrive, TLS, authentication, stream restart) leaves what is held alone
		if !ok && !sawResume && !sawBind && prevID != "" && (id != prevID || snap.L[2].Z != prevInb) {
			return fmt.Sprintf("conn %d: the attempt failed before the client had sent <resume/> or a bind request, and the client no longer holds what it held (id %q count %d before, id %q count %d after)", ci, prevID, prevInb, id, snap.L[2].Z), "failed-attempt-lost-state"
		}
		_ = sawAuth
		// ---- C09: count reported during and after the traffic of this connection
		if ok {
			resumedNow := sawResume && resumeReply(c, prevID) == "resumed-same"
			base := int64(-1) // unknown: no stream-managed session (the counter is not reported to anybody)
			if resumedNow {
				base = expInb
			} else if enabledRes != "" {
				base = 0
			}
			if base >= 0 {
				want := []int64{}
				for i := 0; i < c.Traffic; i++ {
					if i%3 == 0 {
						want = append(want, base+int64(i)+1)
					}
				}
				got := co.L[3].L
				if len(got) != len(want) {
					return fmt.Sprintf("conn %d: %d acknowledgement requests sent, %d answers received", ci, len(want), len(got)), "traffic-answers-count"
				}
				for i := range want {
					if got[i].Z != want[i] {
						return fmt.Sprintf("conn %d: answer %d reports h=%d, the server had sent %d stanzas on the session", ci, i, got[i].Z, want[i]), "traffic-answer-h"
					}
				}
				expInb = base + int64(c.Traffic)
			} else if !noSM {
				// stream management offered but not enabled on this connection (the client does not ask for it):
				// no managed session exists, nothing is reported to anybody
				expInb += int64(c.Traffic)
			}
		}
		if snap.L[0].Z == 1 {
			prevID, prevInb, prevJid = id, snap.L[2].Z, jid
		} else {
			prevID, prevInb, prevJid = "", 0, ""
			expInb = 0
		}
		if prevID == "" {
			expInb = 0
		}
	}
	return "", ""
}

func min64(a int64, b int64) int64 {
	if a < b {
		return a
	}
	return b
}

// enabledIDOf: the id of the last <enabled/> in the script.
// smOfferedAfterAuth: the features element that carries <bind/> (the one after authentication) offers <sm/>.
func smOfferedAfterAuth(c sessConn) bool {
	for _, g := range c.Groups {
		for _, it := range g {
			if it.T == "features" && it.Bind {
				return it.SM
			}
		}
	}
	return false
}

func enabledIDOf(c sessConn) string {
	id := ""
	for _, g := range c.Groups {
		for _, it := range g {
			if it.T == "enabled" {
				id = it.ID
			}
		}
	}
	return id
}

// resumeReply: the first item of the group following the post-auth features.
func resumeReply(c sessConn, prevID string) string {
	seenSuccess, featAfter := false, false
	for _, g := range c.Groups {
		for _, it := range g {
			if featAfter {
				if it.T == "resumed" && it.ID == prevID {
					return "resumed-same"
				}
				return it.T
			}
			if it.T == "success" {
				seenSuccess = true
			} else if seenSuccess && it.T == "features" {
				featAfter = true
			}
		}
	}
	return ""
}

// scriptCompletes: independent (Go) reading of RFC 6120 sections 4-7 + XEP-0198:
// does this server script complete every mandatory step for this client? Also
// returns the resume attribute of the <enabled/> that completes it, if any.
func scriptCompletes(in sessIn, c sessConn, prevID string, smEnable bool) (bool, string) {
	if c.NoDial {
		return false, ""
	}
	var items []sItem
	for _, g := range c.Groups {
		for _, it := range g {
			if it.T != "wait" {
				items = append(items, it)
			}
		}
	}
	pos := 0
	next := func() *sItem {
		if pos < len(items) {
			pos++
			return &items[pos-1]
		}
		return nil
	}
	expect := func(t string) *sItem {
		it := next()
		if it == nil || it.T != t {
			return nil
		}
		if t == "header" && it.Open == "other" {
			return nil // the opening element of the other transport opens nothing here
		}
		if t == "iq" && it.KeepID {
			return nil // an iq that does not carry the id of the request does not answer it
		}
		return it
	}
	if expect("header") == nil {
		return false, ""
	}
	f := expect("features")
	if f == nil {
		return false, ""
	}
	if in.WS != "" {
		// the WebSocket transport: secure from the start (wss://) or not at all, no STARTTLS step whatever the
		// features say; a plain ws:// connection completes only for a client that allows clear text
		if in.WS != "wss" && !in.Insecure {
			return false, ""
		}
	} else if f.TLS != 0 {
		if expect("proceed") == nil || !in.tlsOutcome(c.Cert) || expect("header") == nil {
			return false, ""
		}
		if f = expect("features"); f == nil {
			return false, ""
		}
	} else if !in.Insecure {
		return false, ""
	}
	mech := in.mechs()[0]
	found := false
	for _, m := range f.Mechs {
		if m == mech {
			found = true
		}
	}
	if !found || expect("success") == nil || expect("header") == nil {
		return false, ""
	}
	f = expect("features")
	if f == nil {
		return false, ""
	}
	if f.SM && prevID != "" {
		it := next()
		if it == nil {
			return false, ""
		}
		if it.T == "resumed" {
			return it.ID == prevID, ""
		}
		if it.T != "failed" {
			return false, ""
		}
	}
	// the bind / session result is an IQ stanza of the stream: an element merely called iq in another namespace is not
	b := expect("iq")
	if b == nil || b.Typ != "result" || b.Pl != "bind" || b.NS != "" || b.Jid == "" {
		return false, ""
	}
	if f.Sess == 1 {
		s := expect("iq")
		if s == nil || s.Typ != "result" || s.NS != "" {
			return false, ""
		}
	}
	if f.SM && smEnable {
		e := expect("enabled")
		if e == nil {
			return false, ""
		}
		if e.Res == "" {
			return true, "absent"
		}
		return true, e.Res
	}
	return true, ""
}

// ---------------------------------------------------------------- generators

func hdrItem() sItem { return sItem{T: "header", ID: "sid1"} }

type shape struct {
	tlsOffer int // 0 none 1 offered 2 required
	sess     int
	smOffer  bool
}

// goodConn: the server script that completes every step for this client/shape.
// labels name each group (the step it answers).
func goodConn(in sessIn, sh shape, heldID string, resumeReply string, newID string, enabledRes string) (groups [][]sItem, labels []string) {
	mechs := []string{"SCRAM-SHA-1", in.mechs()[0], "ANONYMOUS"}
	add := func(label string, items ...sItem) {
		groups = append(groups, items)
		labels = append(labels, label)
	}
	if sh.tlsOffer > 0 {
		add("open1", hdrItem(), sItem{T: "features", TLS: sh.tlsOffer, Mechs: mechs})
		add("starttls", sItem{T: "proceed"})
		add("open2", hdrItem(), sItem{T: "features", Mechs: mechs})
	} else {
		add("open1", hdrItem(), sItem{T: "features", Mechs: mechs})
	}
	add("auth", sItem{T: "success"})
	add("open3", hdrItem(), sItem{T: "features", Bind: true, Sess: sh.sess, SM: sh.smOffer})
	if sh.smOffer && heldID != "" {
		switch resumeReply {
		case "resumed":
			add("resume", sItem{T: "resumed", ID: heldID, H: 0})
			return
		default:
			add("resume", sItem{T: "failed"})
		}
	}
	add("bind", sItem{T: "iq", Typ: "result", ID: "1", Pl: "bind", Jid: "user@" + srvDomain + "/bound"})
	if sh.sess == 1 {
		add("session", sItem{T: "iq", Typ: "result", ID: "2", Pl: "none"})
	}
	if sh.smOffer && in.SMEnable {
		add("enable", sItem{T: "enabled", ID: newID, Res: enabledRes})
	}
	return
}

// every reply kind of the alphabet
func replyAlphabet(heldID string) []sItem {
	return []sItem{
		hdrItem(),
		{T: "features", Mechs: []string{"PLAIN", "X-OAUTH2"}, Bind: true, SM: true},
		{T: "features", TLS: 1, Mechs: []string{"PLAIN"}},
		{T: "proceed"}, {T: "tlsfailure"}, {T: "success"}, {T: "saslfailure"},
		{T: "iq", Typ: "result", ID: "1", Pl: "bind", Jid: "user@" + srvDomain + "/x"},
		{T: "iq", Typ: "error", ID: "1", Pl: "bind", Err: true},
		{T: "iq", Typ: "result", ID: "1", Pl: "none"},
		{T: "iq", Typ: "result", ID: "1", Pl: "session"},
		{T: "iq", Typ: "error", ID: "1", Pl: "none", Err: true},
		{T: "iq", Typ: "get", ID: "9", Pl: "other"},
		{T: "iq", Typ: "set", ID: "9", Pl: "bind", Jid: "user@" + srvDomain + "/y"},
		// elements CALLED iq in a namespace that is not the stream's (type result, with the expected payload): unexpected elements
		{T: "iq", Typ: "result", ID: "1", Pl: "bind", Jid: "user@" + srvDomain + "/f", NS: "urn:example:foreign"},
		{T: "iq", Typ: "result", ID: "1", Pl: "none", NS: "jabber:server"},
		// <iq type='result'/> that do not answer the pending request: a foreign id; the bind result sent once more
		{T: "iq", Typ: "result", ID: "zz-foreign", KeepID: true, Pl: "bind", Jid: "user@" + srvDomain + "/k"},
		{T: "iq", Typ: "result", ID: "@bind", KeepID: true, Pl: "bind", Jid: "user@" + srvDomain + "/bound"},
		{T: "iq", Typ: "result", ID: "zz-foreign", KeepID: true, Pl: "none"},
		// the result of resource binding without the bound JID
		{T: "iq", Typ: "result", ID: "1", Pl: "bind"},
		// the opening element of the other transport
		{T: "header", ID: "sid1", Open: "other"},
		{T: "message", N: 1}, {T: "presence", N: 2},
		{T: "enabled", ID: "new1", Res: "true"}, {T: "enabled", ID: "new2", Res: "false"}, {T: "enabled", ID: "new3"}, {T: "enabled", ID: "new4", Res: "maybe"},
		{T: "resumed", ID: heldID}, {T: "resumed", ID: "someone-else"},
		{T: "failed"}, {T: "failed", Cond: "item-not-found"}, {T: "failed", Cond: "unexpected-request"},
		{T: "r"}, {T: "a", H: 1}, {T: "serr"}, {T: "close"}, {T: "unknown"}, {T: "malformed"}, {T: "eof"},
	}
}

func randShape(r *rand.Rand, in sessIn) shape {
	sh := shape{tlsOffer: r.Intn(3), sess: r.Intn(3), smOffer: r.Intn(3) > 0}
	if !in.Insecure && sh.tlsOffer == 0 && r.Intn(4) > 0 {
		sh.tlsOffer = 1 + r.Intn(2)
	}
	return sh
}

func randClient(r *rand.Rand) sessIn {
	in := sessIn{Insecure: r.Intn(2) == 0, SMEnable: r.Intn(2) == 0, SMResume: r.Intn(2) == 0, OAuth: r.Intn(5) == 0}
	if r.Intn(2) == 0 {
		in.Resource = "res"
	}
	return in
}

// mutate: replace item idx of group gi by rep; the script ends there (the server
// drops the connection on the next request or when the client stays silent).
func mutate(groups [][]sItem, gi, idx int, rep sItem) [][]sItem {
	out := make([][]sItem, 0, gi+1)
	for k := 0; k < gi; k++ {
		out = append(out, groups[k])
	}
	g := append([]sItem{}, groups[gi][:idx]...)
	g = append(g, rep)
	g = append(g, groups[gi][idx+1:]...)
	out = append(out, g)
	return out
}

// mutateKeep: replace one item but keep the later groups: the server goes on
// answering as if nothing had happened (e.g. RFC 6120 6.4.5 lets a client retry after a
// SASL <failure/>: the stream stays open).
func mutateKeep(groups [][]sItem, gi, idx int, rep sItem) [][]sItem {
	out := make([][]sItem, len(groups))
	for k := range groups {
		out[k] = append([]sItem{}, groups[k]...)
	}
	out[gi][idx] = rep
	return out
}

// firstConnWithSM: a connection that leaves the client with resumable state heldID.
func firstConnWithSM(in sessIn, r *rand.Rand, heldID string, traffic int) sessConn {
	sh := shape{tlsOffer: 0, sess: 0, smOffer: true}
	if !in.Insecure {
		sh.tlsOffer = 1
	}
	g, _ := goodConn(in, sh, "", "", heldID, "true")
	return sessConn{Groups: g, Traffic: traffic}
}

func genC03(r *rand.Rand, tier string) []interface{} {
	var out []interface{}
	rounds := 1
	if tier == "thorough" {
		rounds = 12
	}
	// 1. all good shapes for a few clients
	for k := 0; k < 12*rounds; k++ {
		in := randClient(r)
		sh := randShape(r, in)
		g, _ := goodConn(in, sh, "", "", "sm-"+fmt.Sprint(k), []string{"true", "false", "", "maybe"}[r.Intn(4)])
		in.Conns = []sessConn{{Groups: g}}
		in.Tag = "good"
		out = append(out, in)
	}
	// 2. per-step alphabet: every step x every reply kind, other steps successful
	for round := 0; round < rounds; round++ {
		for _, resumable := range []bool{false, true} {
			in0 := randClient(r)
			if resumable {
				in0.SMEnable = true
			}
			sh := randShape(r, in0)
			if resumable {
				sh.smOffer = true
			}
			held := ""
			if resumable {
				held = "held-1"
			}
			base, labels := goodConn(in0, sh, held, []string{"resumed", "failed"}[r.Intn(2)], "sm-new", "true")
			for gi := range base {
				for idx := range base[gi] {
					for _, rep := range replyAlphabet(held) {
						if round == 0 && tier != "thorough" && r.Intn(3) != 0 {
							continue // quick tier: a third of the matrix per run (seed-dependent)
						}
						in := in0
						in.Tag = "step:" + labels[gi]
						var conns []sessConn
						if resumable {
							conns = append(conns, firstConnWithSM(in, r, held, 0))
						}
						conns = append(conns, sessConn{Groups: mutate(base, gi, idx, rep)})
						in.Conns = conns
						out = append(out, in)
						if rep.T == "close" {
							// the same, against a server that keeps the connection open after closing the stream and
							// waits for the client's closing tag (RFC 6120 4.4): the closed stream has to be noticed
							in2 := in
							in2.Tag = "hold:" + labels[gi]
							cs := append([]sessConn{}, conns[:len(conns)-1]...)
							in2.Conns = append(cs, sessConn{Groups: mutate(base, gi, idx, rep), Hold: true})
							out = append(out, in2)
						}
					}
				}
			}
		}
	}
	// 3. the server keeps cooperating after the deviating reply; and the attempt AFTER a
	//    failed one, on the same Client (state left behind by the failure must not matter)
	for round := 0; round < 2*rounds; round++ {
		in0 := randClient(r)
		sh := randShape(r, in0)
		base, labels := goodConn(in0, sh, "", "", "sm-k", "true")
		for gi := range base {
			for idx := range base[gi] {
				alpha := replyAlphabet("")
				rep := alpha[r.Intn(len(alpha))]
				in := in0
				in.Tag = "keep:" + labels[gi]
				in.Conns = []sessConn{{Groups: mutateKeep(base, gi, idx, rep)}}
				out = append(out, in)
				in2 := in0
				in2.Tag = "after-failure:" + labels[gi]
				good, _ := goodConn(in0, randShape(r, in0), "", "", "sm-g", "true")
				in2.Conns = []sessConn{{Groups: mutate(base, gi, idx, rep)}, {Groups: good}}
				out = append(out, in2)
			}
		}
	}
	// 3b. always (not sampled): every reply kind at the resume step of a client that holds resumable state, with the
	//     server going on afterwards as if it had refused (bind result, session result, <enabled/>): a reply that is
	//     neither <resumed/> with the id held nor <failed/> must end the negotiation there
	for round := 0; round < rounds; round++ {
		in0 := randClient(r)
		in0.SMEnable = true
		sh := randShape(r, in0)
		sh.smOffer = true
		held := "held-k"
		base, labels := goodConn(in0, sh, held, "failed", "sm-kk", "true")
		for gi, l := range labels {
			if l != "resume" {
				continue
			}
			for _, rep := range replyAlphabet(held) {
				in := in0
				in.Tag = "keep:resume"
				in.Conns = []sessConn{firstConnWithSM(in, r, held, 0), {Groups: mutateKeep(base, gi, 0, rep)}}
				out = append(out, in)
			}
		}
	}
	// 4. the mechanism list differs between the streams of one connection and between connections
	for k := 0; k < 6*rounds; k++ {
		in := randClient(r)
		in.Tag = "mechs-change"
		sh := randShape(r, in)
		if sh.tlsOffer == 0 {
			sh.tlsOffer = 1
		}
		g, _ := goodConn(in, sh, "", "", "sm-m", "true")
		other := []string{"SCRAM-SHA-1", "DIGEST-MD5"}
		mine := []string{"SCRAM-SHA-1", in.mechs()[0]}
		variant := k % 3
		for gi := range g {
			for idx := range g[gi] {
				if g[gi][idx].T == "features" && g[gi][idx].Mechs != nil {
					switch {
					case variant == 0 && g[gi][idx].TLS != 0: // offered before TLS only
						g[gi][idx].Mechs = mine
					case variant == 0:
						g[gi][idx].Mechs = other
					case variant == 1 && g[gi][idx].TLS != 0: // offered after TLS only
						g[gi][idx].Mechs = other
					case variant == 1:
						g[gi][idx].Mechs = mine
					}
				}
			}
		}
		conns := []sessConn{{Groups: g}}
		if variant == 2 { // second connection of the same client: the server no longer offers the mechanism
			g2, _ := goodConn(in, sh, "", "", "sm-m2", "true")
			for gi := range g2 {
				for idx := range g2[gi] {
					if g2[gi][idx].T == "features" && g2[gi][idx].Mechs != nil {
						g2[gi][idx].Mechs = other
					}
				}
			}
			conns = append(conns, sessConn{Groups: g2})
		}
		in.Conns = conns
		out = append(out, in)
	}
	// 6. a patient server (answers item by item, notes how much it had sent when each request showed up):
	//    good shapes, shapes with an unrelated stanza appended to one answer (the client may go on as soon as it has
	//    read what confirms its request), and a deviation in the middle
	for k := 0; k < 18*rounds; k++ {
		in := randClient(r)
		in.Tag = "patient"
		in.Patient = true
		sh := randShape(r, in)
		g, _ := goodConn(in, sh, "", "", "sm-p"+fmt.Sprint(k), "true")
		switch k % 3 {
		case 1:
			gi := r.Intn(len(g))
			g[gi] = append(append([]sItem{}, g[gi]...), sItem{T: "message", N: 1})
		case 2:
			gi := r.Intn(len(g))
			alpha := replyAlphabet("")
			g = mutateKeep(g, gi, r.Intn(len(g[gi])), alpha[r.Intn(len(alpha))])
		}
		in.Conns = []sessConn{{Groups: g}}
		out = append(out, in)
	}
	// 8. an application send (Send / SendRaw from another goroutine) while a negotiation is in progress
	out = append(out, genC03appSend(r, tier)...)
	// 5. dial refused
	in := randClient(r)
	g, _ := goodConn(in, shape{tlsOffer: 1}, "", "", "x", "true")
	in.Conns = []sessConn{{NoDial: true}, {Groups: g}}
	in.Tag = "nodial"
	out = append(out, in)
	// 7. the other transport: WebSocket, plain and over TLS (c03ws.go)
	out = append(out, genC03ws(r, tier)...)
	return out
}

// genC03appSend: at every step of a negotiation (the server holds back its k-th answer, k = 1 being its first stream
// header, until the application's call has returned), on the first Connect of a fresh Client, on a reconnection after an
// established session was cut (with and without traffic on it, i.e. with and without a receiver that noticed the
// cut), on a resumption (confirmed / refused) and on the attempt after a failed one: another goroutine calls Send or
// SendRaw. What the server receives on that connection must be the client's own requests only. Always, not sampled.
func genC03appSend(r *rand.Rand, tier string) []interface{} {
	var out []interface{}
	rounds := 1
	if tier == "thorough" {
		rounds = 6
	}
	for round := 0; round < rounds; round++ {
		for _, hist := range []string{"first", "reconnect", "resume", "after-failure"} {
			for _, tlsOffer := range []int{0, 1} {
				in0 := randClient(r)
				in0.Insecure = tlsOffer == 0 || r.Intn(2) == 0
				sh := shape{tlsOffer: tlsOffer, sess: r.Intn(3), smOffer: r.Intn(2) == 0}
				var prefix []sessConn
				held := ""
				switch hist {
				case "reconnect":
					in0.SMEnable = false
					g, _ := goodConn(in0, sh, "", "", "", "")
					prefix = []sessConn{{Groups: g, Traffic: 2 * r.Intn(2)}}
				case "resume":
					in0.SMEnable, in0.SMResume = true, true
					sh.smOffer = true
					held = fmt.Sprintf("held-a%d", round)
					prefix = []sessConn{firstConnWithSM(in0, r, held, 2*r.Intn(2))}
				case "after-failure":
					prefix = []sessConn{failedAttempt(in0, []string{"auth", "restart", "nofeatures"}[r.Intn(3)], "")}
				}
				g, labels := goodConn(in0, sh, held, []string{"resumed", "failed"}[r.Intn(2)], fmt.Sprintf("sm-a%d", round), "true")
				for at := 1; at <= len(g); at++ {
					for _, via := range []string{"send", "raw"} {
						in := in0
						in.Tag = "app-send:" + hist + ":" + labels[at-1]
						in.Conns = append(append([]sessConn{}, prefix...), sessConn{Groups: g, AppSendAt: at, AppSendVia: via})
						out = append(out, in)
					}
				}
			}
		}
	}
	return out
}

func genC04(r *rand.Rand, tier string) []interface{} {
	var out []interface{}
	reps := 1
	if tier == "thorough" {
		reps = 6
	}
	for rep := 0; rep < reps; rep++ {
		for _, insecure := range []bool{false, true} {
			for tlsmode := 0; tlsmode < 3; tlsmode++ {
				for _, sn := range []string{"", "other.example"} {
					for offer := 0; offer < 3; offer++ {
						for _, reply := range []string{"proceed", "tlsfailure", "message", "malformed", "close", "eof", "success"} {
							for _, cert := range []string{"valid", "wronghost", "untrusted", "expired"} {
								if reply != "proceed" && cert != "valid" {
									continue
								}
								if offer == 0 && reply != "proceed" {
									continue
								}
								critical := reply == "proceed" && offer > 0 && rep == 0 // every certificate kind x TLS config x Insecure, always
								if tier != "thorough" && !critical && r.Intn(3) != 0 {
									continue
								}
								for _, hist := range []int{0, 1, 2} {
									in := sessIn{Insecure: insecure, TLSMode: tlsmode, ServerName: sn, SMEnable: r.Intn(2) == 0, Tag: fmt.Sprintf("tls:%s:%s:h%d", reply, cert, hist)}
									sh := shape{tlsOffer: offer, sess: r.Intn(3), smOffer: r.Intn(2) == 0}
									g, labels := goodConn(in, sh, "", "", "id", "true")
									for gi, l := range labels {
										if l == "starttls" && reply != "proceed" {
											g = mutate(g, gi, 0, sItem{T: reply})
											break
										}
									}
									var conns []sessConn
									switch hist {
									case 1: // reconnect after a session that ran over TLS (stale flags)
										pin := in
										pg, _ := goodConn(pin, shape{tlsOffer: 1}, "", "", "id0", "true")
										conns = append(conns, sessConn{Groups: pg, Cert: "valid"})
										// the follow-up server offers no TLS at all or the scripted one
										if r.Intn(2) == 0 {
											g2, _ := goodConn(in, shape{tlsOffer: 0, sess: sh.sess}, "", "", "id", "true")
											g = g2
										}
									case 2: // reconnect after a clear-text attempt
										pg, _ := goodConn(in, shape{tlsOffer: 0}, "", "", "id0", "true")
										conns = append(conns, sessConn{Groups: pg})
									}
									conns = append(conns, sessConn{Groups: g, Cert: cert})
									in.Conns = conns
									out = append(out, in)
								}
							}
						}
					}
				}
			}
		}
	}
	return out
}

func genC11(r *rand.Rand, tier string) []interface{} {
	var out []interface{}
	reps := 1
	if tier == "thorough" {
		reps = 8
	}
	replies := []sItem{{T: "resumed", ID: "@held"}, {T: "resumed", ID: "other-id"}, {T: "failed"}, {T: "failed"}, {T: "failed", Cond: "item-not-found"},
		{T: "message", N: 1}, {T: "iq", Typ: "result", ID: "1", Pl: "bind", Jid: "user@" + srvDomain + "/z"}, {T: "enabled", ID: "zz", Res: "true"},
		{T: "success"}, {T: "serr"}, {T: "close"}, {T: "unknown"}, {T: "malformed"}, {T: "eof"}, {T: "r"}}
	for rep := 0; rep < reps; rep++ {
		for _, r1 := range replies {
			for _, r2 := range replies {
				if tier != "thorough" && r.Intn(3) != 0 {
					continue
				}
				for _, smAdvertised := range []bool{true, false} {
					in := sessIn{Insecure: true, SMEnable: true, SMResume: true, Tag: "resume:" + r1.T + ":" + r2.T}
					if r.Intn(3) == 0 {
						in.Resource = "res"
					}
					held := fmt.Sprintf("held-%d", r.Intn(1000))
					if r.Intn(4) == 0 {
						held = []string{"a&b", "it's", "x<y>", "q\"uote", "é漢"}[r.Intn(5)] + fmt.Sprint(r.Intn(100))
					}
					conns := []sessConn{firstConnWithSM(in, r, held, r.Intn(6))}
					cur := held
					for step, rr := range []sItem{r1, r2} {
						sh := shape{tlsOffer: 0, sess: r.Intn(2), smOffer: smAdvertised || step == 1}
						newID := fmt.Sprintf("new-%d-%d", step, r.Intn(1000))
						g, labels := goodConn(in, sh, cur, "failed", newID, "true")
						it := rr
						if it.ID == "@held" {
							it.ID = cur
						}
						for gi, l := range labels {
							if l == "resume" {
								if it.T == "failed" {
									g[gi] = []sItem{it} // refusal: the rest of the script (bind, ...) stays
									if r.Intn(3) == 0 && gi+1 < len(g) {
										// ... but the fallback bind then fails (iq error / connection cut)
										g = mutate(g, gi+1, 0, []sItem{{T: "iq", Typ: "error", ID: "1", Pl: "bind", Err: true}, {T: "eof"}}[r.Intn(2)])
										newID = ""
									}
								} else {
									g = mutate(g, gi, 0, it)
								}
								break
							}
						}
						conns = append(conns, sessConn{Groups: g, Traffic: r.Intn(4)})
						// what the client should hold afterwards (generator's expectation only steers ids)
						switch {
						case !sh.smOffer:
							cur = "" // no stream management on this stream: a new session is bound, the held state is discarded
						case cur == "":
							cur = newID
						case it.T == "resumed" && it.ID == cur:
						case it.T == "failed":
							cur = newID // "" when the fallback bind failed: nothing to resume next time
						default:
							cur = ""
						}
					}
					in.Conns = conns
					out = append(out, in)
				}
			}
		}
	}
	return append(out, genC11long(r, tier)...)
}

// genC11long: histories of 4-7 connections: a stream-managed session, then a random walk over {resumption confirmed,
// refused (a new session with a new id follows), answered with another id / something unexpected / a cut connection
// (the state is gone: the next connection must bind), failed attempts of every kind in between}. The oracle derives
// from the SCRIPT which id may still be presented at each point (expID in Oracle).
func genC11long(r *rand.Rand, tier string) []interface{} {
	n := 40
	if tier == "thorough" {
		n = 600
	}
	var out []interface{}
	bad := []sItem{{T: "resumed", ID: "other-id"}, {T: "message", N: 1}, {T: "close"}, {T: "eof"}, {T: "malformed"}, {T: "unknown"}, {T: "success"}}
	for i := 0; i < n; i++ {
		in := sessIn{Insecure: true, SMEnable: true, SMResume: true, Tag: "resume-long"}
		held := fmt.Sprintf("L%d-0", i)
		conns := []sessConn{firstConnWithSM(in, r, held, r.Intn(5))}
		steps := 3 + r.Intn(4)
		for k := 1; k <= steps; k++ {
			newID := fmt.Sprintf("L%d-%d", i, k)
			switch c := r.Intn(10); {
			case c < 3: // failed attempt(s) that ask nothing
				conns = append(conns, failedAttempt(in, keepingFailures[r.Intn(len(keepingFailures))], held))
			case c < 6 && held != "": // confirmed
				g, _ := goodConn(in, shape{smOffer: true, sess: r.Intn(2)}, held, "resumed", "unused", "true")
				conns = append(conns, sessConn{Groups: g, Traffic: r.Intn(4)})
			case c < 8 && held != "": // refused: bind, new id
				g, _ := goodConn(in, shape{smOffer: true, sess: r.Intn(2)}, held, "failed", newID, "true")
				conns = append(conns, sessConn{Groups: g, Traffic: r.Intn(4)})
				held = newID
			case held != "": // anything else: the state is gone and the connection fails
				g, labels := goodConn(in, shape{smOffer: true}, held, "failed", newID, "true")
				b := bad[r.Intn(len(bad))]
				for gi, l := range labels {
					if l == "resume" {
						g = mutate(g, gi, 0, b)
						break
					}
				}
				conns = append(conns, sessConn{Groups: g})
				if b.T != "eof" { // a cut connection refuses nothing: the id stays good
					held = ""
				}
			default: // nothing held: a fresh stream-managed session
				g, _ := goodConn(in, shape{smOffer: true, sess: r.Intn(2)}, "", "", newID, "true")
				conns = append(conns, sessConn{Groups: g, Traffic: r.Intn(4)})
				held = newID
			}
		}
		in.Conns = conns
		out = append(out, in)
	}
	return out
}

func init() {
	register(sessProp{id: "C03", gen: genC03, rule: "scripted TCP/TLS server against the real Client.connect: good scripts for random client configurations and feature shapes, then the per-step alphabet: every step (each stream header, each features element, proceed, auth reply, resume reply, bind reply, session reply, enable reply) x every reply kind (32 kinds: success variants, failure/error replies with and without echoed payload, unexpected elements of every other kind, malformed XML, stream close, connection drop) with all other steps successful, with and without resumable state; quick tier runs a seed-dependent third of the matrix, thorough all of it 12 times with fresh shapes; distinct = configuration + script item kinds; non-trivial = script of >= 3 items; the same over the WebSocket transport (ws:// and wss:// scripted websocket endpoints x Insecure x feature shapes incl. features that advertise STARTTLS: good scripts, deviations at every step, a failed attempt followed by a good one, resumption over wss; no STARTTLS and no stream restart before <auth/> there); patient-server scenarios (the server answers item by item and looks, before and between the items, whether the client has already written again; it records how many items it had sent when each request showed up, which must be at least what the model says the client has consumed by then, C03_waits_for_confirmation / C03_seen_is_read): good shapes, an unrelated stanza appended to one answer, a deviation in the middle; application sends during a negotiation (always, not sampled): history {first Connect of a fresh Client, reconnection after an established session was cut, resumption confirmed / refused, attempt after a failed one} x STARTTLS {absent, offered} x every step k of the good script (the scripted server holds back its k-th answer, k = 1 its first stream header, until the call has returned) x {Send, SendRaw} of a <message/> from another goroutine: the server must receive the client's own requests only on that connection (the stanza is reported among the requests unless it arrives after the last request of a negotiation that succeeded)"})
	register(c04Prop{s: sessProp{id: "C04", gen: genC04, rule: "Insecure x TLS config {RootCAs, InsecureSkipVerify, nil} x ServerName {unset, other} x STARTTLS {absent, offered, required} x reply {proceed, failure, unexpected, malformed, close, drop} x certificate {valid, wrong host, untrusted issuer, expired} x history {first connection, reconnect after a TLS session, reconnect after a clear session} against a real TLS-capable server; the server records whether each client element arrived inside TLS; quick tier a seed-dependent third, thorough the full product 6 times"}})
	register(c11Prop{s: sessProp{id: "C11", gen: genC11, rule: "histories of 3 connections: SM enabled with id, then two reconnects whose reply to <resume/> ranges over {resumed same id, other id, failed, failed+stanza condition, every unexpected kind, malformed, close, drop} (all pairs), SM advertised or not on the second connection, random stanza traffic between connections (counted by the real receive loop); quick tier a third of the pairs, thorough all pairs 8 times; PLUS histories of 4-8 connections: a random walk over {resumption confirmed, refused (new session, new id), answered with another id / an unexpected element / malformed XML / a closed or cut stream (state gone), failed attempts that ask nothing: refused dial, failed TLS handshake, rejected password, cut at the stream restart}; the oracle derives from the SCRIPT which id may still be presented at each point"}})
}

// failedAttempt: a connection attempt that fails, of the given kind, for a client that holds the id held (or none):
// "dial" nobody listens; "tls" STARTTLS offered, the certificate is not trusted (the handshake fails); "auth" the
// password is rejected; "restart" the connection is cut where the stream header after authentication is awaited;
// "nofeatures" a stanza arrives (or the connection is cut) where the first features element is awaited (NewSession
// returns no session; the Session object of the earlier connections stays); "resume-cut" the connection is cut where
// the answer to <resume/> is awaited. All of them leave the client's stream-management state alone.
func failedAttempt(in sessIn, kind string, held string) sessConn {
	if kind == "dial" {
		return sessConn{NoDial: true}
	}
	sh := shape{smOffer: true}
	if kind == "tls" || !in.Insecure {
		sh.tlsOffer = 1
	}
	g, labels := goodConn(in, sh, held, "resumed", "never-issued", "true")
	at := func(label string) int {
		for gi, l := range labels {
			if l == label {
				return gi
			}
		}
		return 0
	}
	switch kind {
	case "tls":
		return sessConn{Groups: g, Cert: "untrusted"}
	case "auth":
		return sessConn{Groups: mutate(g, at("auth"), 0, sItem{T: "saslfailure"})}
	case "restart":
		return sessConn{Groups: mutate(g, at("open3"), 0, sItem{T: "eof"})}
	case "resume-cut": // the connection is cut where the answer to <resume/> is awaited (when there is one to await)
		if held == "" {
			return sessConn{Groups: mutate(g, at("open3"), 0, sItem{T: "eof"})}
		}
		return sessConn{Groups: mutate(g, at("resume"), 0, sItem{T: "eof"})}
	default: // nofeatures: NewSession returns no session; the Session object of the earlier connections is kept
		if kind == "nofeatures" && len(g) > 0 {
			return sessConn{Groups: mutate(g, at("open1"), 1, sItem{T: []string{"message", "eof"}[len(held)%2], N: 1})}
		}
		return sessConn{Groups: mutate(g, at("open1"), 1, sItem{T: "message", N: 1})}
	}
}

var keepingFailures = []string{"dial", "tls", "auth", "restart", "nofeatures", "resume-cut"}

// genC09sess: stream-managed sessions with traffic, enabled with and without
// resumption granted, continued over 1-3 resumptions (C09's "continued across a resumption").
func genC09sess(r *rand.Rand, tier string) []interface{} {
	n := 60
	if tier == "thorough" {
		n = 1500
	}
	var out []interface{}
	// always: enable, traffic, one failed attempt of every kind, a resumption (h = what was received before the
	// failures), more traffic, failures again, a second resumption
	{
		in := sessIn{Insecure: true, SMEnable: true, SMResume: true, Tag: "c09-failures"}
		g, _ := goodConn(in, shape{smOffer: true}, "", "", "hf-1", "true")
		conns := []sessConn{{Groups: g, Traffic: 5}}
		for _, k := range keepingFailures {
			conns = append(conns, failedAttempt(in, k, "hf-1"))
		}
		g2, _ := goodConn(in, shape{smOffer: true}, "hf-1", "resumed", "unused", "true")
		conns = append(conns, sessConn{Groups: g2, Traffic: 4})
		conns = append(conns, failedAttempt(in, "auth", "hf-1"), failedAttempt(in, "dial", "hf-1"))
		conns = append(conns, sessConn{Groups: g2, Traffic: 2})
		conns = append(conns, sessConn{Groups: g2})
		in.Conns = conns
		out = append(out, in)
	}
	// always: <enabled/> that does not grant resumption (resume false / absent / not a boolean): stream management is
	// on all the same (answers counted), the id is resumable as far as the client is concerned, and after a refused
	// resumption the new stream is asked for <enable/> AGAIN (now with resume='false'): counting and answers must
	// hold on that later session as well
	for _, res := range []string{"false", "", "maybe"} {
		in := sessIn{Insecure: true, SMEnable: true, SMResume: true, Tag: "c09-noresume"}
		id1, id2 := "nr-1-"+res, "nr-2-"+res
		g, _ := goodConn(in, shape{smOffer: true}, "", "", id1, res)
		g2, _ := goodConn(in, shape{smOffer: true}, id1, "resumed", "unused", "true")
		g3, _ := goodConn(in, shape{smOffer: true, sess: 1}, id1, "failed", id2, "true")
		g4, _ := goodConn(in, shape{smOffer: true}, id2, "resumed", "unused", "true")
		in.Conns = []sessConn{{Groups: g, Traffic: 4}, {Groups: g2, Traffic: 3}, {Groups: g3, Traffic: 5}, {Groups: g4, Traffic: 2}, {Groups: g4}}
		out = append(out, in)
	}
	for i := 0; i < n; i++ {
		in := sessIn{Insecure: true, SMEnable: true, SMResume: r.Intn(4) > 0, Tag: "c09"}
		held := fmt.Sprintf("h-%d", i)
		res := []string{"true", "true", "true", "false", "", "1"}[r.Intn(6)]
		sh := shape{smOffer: true, sess: r.Intn(2)}
		g, _ := goodConn(in, sh, "", "", held, res)
		conns := []sessConn{{Groups: g, Traffic: r.Intn(9)}}
		for k := r.Intn(4); k > 0; k-- {
			// failed attempts between two sessions (refused dial, failed TLS handshake, rejected password, connection cut
			// at the stream restart): nothing is received on them and the count held must survive them unchanged
			if r.Intn(3) == 0 {
				for f := 1 + r.Intn(2); f > 0; f-- {
					conns = append(conns, failedAttempt(in, keepingFailures[r.Intn(len(keepingFailures))], held))
				}
			}
			if r.Intn(4) == 0 {
				// a stream WITHOUT stream management in between (the server does not offer it): a plain session is
				// bound and receives stanzas; they must not be counted into the session held from before, which is
				// gone: the next managed stream starts a new session, counting from zero
				g1, _ := goodConn(in, shape{smOffer: false}, "", "", "", "")
				conns = append(conns, sessConn{Groups: g1, Traffic: 1 + r.Intn(6)})
				newHeld := fmt.Sprintf("%s-u%d", held, k)
				g2, _ := goodConn(in, shape{smOffer: true}, "", "", newHeld, "true")
				conns = append(conns, sessConn{Groups: g2, Traffic: r.Intn(7)})
				held = newHeld
				continue
			}
			if r.Intn(3) == 0 {
				// resumption refused: bind, a new <enabled/> with a new id, counting starts again
				newHeld := fmt.Sprintf("%s-n%d", held, k)
				g2, _ := goodConn(in, shape{smOffer: true}, held, "failed", newHeld, "true")
				conns = append(conns, sessConn{Groups: g2, Traffic: r.Intn(7)})
				held = newHeld
				continue
			}
			g2, _ := goodConn(in, shape{smOffer: true}, held, "resumed", "unused", "true")
			conns = append(conns, sessConn{Groups: g2, Traffic: r.Intn(7)})
		}
		in.Conns = conns
		out = append(out, in)
	}
	return out
}
