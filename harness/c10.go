package main

// C10: Client.Send / SendRaw / inbound <a h/> (Router.route -> SendMissingStz) on the
// recording stub transport, against Model/Ack.v.

import (
	"encoding/json"
	"encoding/xml"
	"fmt"
	"math/rand"
	"sort"
	"strings"
	"sync"
	"time"

	xmpp "gosrc.io/xmpp"
	"gosrc.io/xmpp/stanza"
)

type c10Op struct {
	Op   string `json:"op"`             // send raw ack
	Kind int    `json:"kind,omitempty"` // send: 0 stanza 1 <r/> 2 <a/>
	Body string `json:"body,omitempty"` // stanza body / raw string
	H    int    `json:"h,omitempty"`
}
type c10In struct {
	Ops        []c10Op `json:"ops"`
	Concurrent int     `json:"concurrent,omitempty"` // >0: that many goroutines push first (stress), ops follow
	Stall      []int   `json:"stall,omitempty"`      // acknowledgements h1,h2,... arriving (each on its own goroutine, as Client.recv routes them) while the retransmission triggered by <a h='0'/> is stalled in a blocking write; Ops are the sends made before
}

type c10 struct{}

func init() { register(c10{}) }

func (c10) ID() string    { return "C10" }
func (c10) RunFn() string { return "run_C10" }
func (c10) Workers() int  { return 8 }
func (c10) Journal() bool { return true }
func (c10) Rule() string {
	return "random histories (0-40 ops) over Send(stanza), Send(<r/>), Send(<a/>), the server's <r/> answered by the real receive loop, SendRaw(stanza string) and server <a h/> with h below, equal to, above the number sent, stale, repeated and negative-free (h is unsigned on the wire) through the real Client.Send/SendRaw and Router.route(SMAnswer) on a recording transport; after every op the queue (ids, payloads) and the bytes written are compared; plus concurrent senders (8 goroutines) followed by acknowledgements, and acknowledgements piling up on their own goroutines behind a retransmission stalled in a blocking write (only what is held afterwards is compared); distinct = op-kind/h-class sequence; non-trivial = at least one ack with stanzas held"
}

func (c10) Decode(raw json.RawMessage) (interface{}, error) {
	var in c10In
	err := json.Unmarshal(raw, &in)
	return in, err
}

func (c10) Gen(r *rand.Rand, tier string) []interface{} {
	n := 1200
	if tier == "thorough" {
		n = 30000
	}
	var out []interface{}
	// D6 witnesses: send 3, ack 2; ack 3; D8: own <a/> then server ack
	out = append(out,
		c10In{Ops: []c10Op{{Op: "raw", Body: "<message id='1'/>"}, {Op: "raw", Body: "<message id='2'/>"}, {Op: "raw", Body: "<message id='3'/>"}, {Op: "ack", H: 2}}},
		c10In{Ops: []c10Op{{Op: "send", Body: "a"}, {Op: "send", Body: "b"}, {Op: "send", Body: "c"}, {Op: "ack", H: 3}, {Op: "send", Body: "d"}, {Op: "ack", H: 3}, {Op: "ack", H: 4}}},
		c10In{Ops: []c10Op{{Op: "send", Kind: 2, H: 5}, {Op: "send", Body: "x"}, {Op: "ack", H: 0}}},
		c10In{Ops: []c10Op{{Op: "ack", H: 1}}},
		c10In{Ops: []c10Op{{Op: "peer_r"}, {Op: "send", Body: "x"}, {Op: "ack", H: 1}, {Op: "peer_r"}, {Op: "raw", Body: "<message id='y'/>"}, {Op: "ack", H: 1}}},
	)
	bodies := []string{"hi", "a <b> & c", "é漢😀", strings.Repeat("z", 200), "", "]]>"}
	for i := 0; i < n; i++ {
		l := r.Intn(41)
		sent := 0
		ops := make([]c10Op, 0, l)
		ackBias := 1 + r.Intn(4)
		for j := 0; j < l; j++ {
			switch c := r.Intn(10); {
			case c < 4:
				ops = append(ops, c10Op{Op: "send", Body: bodies[r.Intn(len(bodies))] + fmt.Sprint(j)})
				sent++
			case c < 6:
				ops = append(ops, c10Op{Op: "raw", Body: fmt.Sprintf("<message id='r%d'><body>%s</body></message>", j, "raw")})
				sent++
			case c < 7:
				if r.Intn(2) == 0 {
					ops = append(ops, c10Op{Op: "peer_r"})
				} else {
					ops = append(ops, c10Op{Op: "send", Kind: 1 + r.Intn(2), H: r.Intn(4)})
				}
			default:
				_ = ackBias
				var h int
				switch r.Intn(8) {
				case 0:
					h = 0
				case 1:
					h = sent
				case 2:
					h = sent + 1 + r.Intn(3)
				case 3:
					h = 1 << 30
				default:
					h = r.Intn(sent + 2)
				}
				ops = append(ops, c10Op{Op: "ack", H: h})
			}
		}
		out = append(out, c10In{Ops: ops})
	}
	// acknowledgements piling up behind a stalled retransmission
	ns := 12
	if tier == "thorough" {
		ns = 200
	}
	for i := 0; i < ns; i++ {
		n := 2 + r.Intn(5)
		var ops []c10Op
		for j := 0; j < n; j++ {
			ops = append(ops, c10Op{Op: "raw", Body: fmt.Sprintf("<message id='st%d'/>", j)})
		}
		var hs []int
		for k := 1 + r.Intn(3); k > 0; k-- {
			hs = append(hs, 1+r.Intn(n))
		}
		out = append(out, c10In{Ops: ops, Stall: hs})
	}
	// concurrent senders
	nc := 20
	if tier == "thorough" {
		nc = 300
	}
	for i := 0; i < nc; i++ {
		out = append(out, c10In{Concurrent: 8, Ops: []c10Op{{Op: "ack", H: r.Intn(70)}, {Op: "ack", H: r.Intn(70)}}})
	}
	return out
}

func c10Client() (*xmpp.Client, *stubTransport, *xmpp.Router) {
	st := newStub([][]byte{[]byte(clientHeader)}, nil)
	st.feed = make(chan []byte, 4)
	router := xmpp.NewRouter()
	cfg := &xmpp.Config{TransportConfiguration: xmpp.TransportConfiguration{Address: "localhost:1"}, Jid: "u@localhost", Credential: xmpp.Password("p"), StreamManagementEnable: true}
	c, err := xmpp.NewClient(cfg, router, func(error) {})
	if err != nil {
		panic(err)
	}
	xmpp.VerifSetTransport(c, st)
	xmpp.VerifSetSession(c, xmpp.SMState{Id: "sm", UnAckQueue: stanza.NewUnAckQueue()})
	st.StartStream()
	st.mu.Lock()
	st.writes, st.nwrites = nil, 0
	st.mu.Unlock()
	// the real receive loop answers the server's <r/> (ops "peer_r")
	go xmpp.VerifRecv(c, make(chan struct{}))
	return c, st, router
}

func c10Packet(o c10Op) stanza.Packet {
	switch o.Kind {
	case 1:
		return stanza.SMRequest{}
	case 2:
		return stanza.SMAnswer{H: uint(o.H)}
	}
	m := stanza.NewMessage(stanza.Attrs{To: "peer@localhost", Id: "m"})
	m.Body = o.Body
	return m
}

// c10Canon: written and held stanzas are compared as elements (canon.go), not as bytes: how the library spells a
// stanza is not part of C10 (that every send writes exactly its serialisation is C08's clause).
func c10Canon(s string) string { return canonOrRaw(s) }

// observe: (writes since last op as witems, queue) ; concurrent pushes are observed
// through the queue only (their order is the order in which they were pushed).
func (c10) Run(inp interface{}) Sx {
	in := inp.(c10In)
	c, st, router := c10Client()
	q := c.Session.SMState.UnAckQueue
	var steps []Sx
	seen := 0
	snapshot := func() Sx {
		ws := st.snapshotWrites()
		var wx []Sx
		for _, w := range ws[seen:] {
			if isSMRequest([]byte(w.Data)) {
				wx = append(wx, L(Z(1)))
			} else {
				wx = append(wx, L(Z(0), SBytes(c10Canon(w.Data))))
			}
		}
		seen = len(ws)
		var qx []Sx
		q.RLock()
		for _, e := range q.Uslice {
			qx = append(qx, L(Zi(e.Id), SBytes(c10Canon(e.Stz))))
		}
		q.RUnlock()
		return L(LS(wx), LS(qx))
	}
	if in.Concurrent > 0 {
		var wg sync.WaitGroup
		for g := 0; g < in.Concurrent; g++ {
			wg.Add(1)
			go func(g int) {
				defer wg.Done()
				for k := 0; k < 8; k++ {
					if k%2 == 0 {
						c.SendRaw(fmt.Sprintf("<message id='g%d-%d'/>", g, k))
					} else {
						m := stanza.NewMessage(stanza.Attrs{Id: fmt.Sprintf("g%d-%d", g, k)})
						c.Send(m)
					}
				}
			}(g)
		}
		wg.Wait()
		first := snapshot()
		// the wire order of concurrent senders need not be the queue order: report the
		// writes in queue order when they are a permutation of the held payloads
		pos := map[string]int{}
		for i, e := range first.L[1].L {
			pos[string(bytesOf(e.L[1]))] = i
		}
		ws := append([]Sx{}, first.L[0].L...)
		perm := len(ws) == len(pos)
		for _, w := range ws {
			if len(w.L) != 2 {
				perm = false
			} else if _, ok := pos[string(bytesOf(w.L[1]))]; !ok {
				perm = false
			}
		}
		if perm {
			sort.SliceStable(ws, func(a, b int) bool { return pos[string(bytesOf(ws[a].L[1]))] < pos[string(bytesOf(ws[b].L[1]))] })
			first = L(LS(ws), first.L[1])
		}
		steps = append(steps, first)
	}
	for _, o := range in.Ops {
		switch o.Op {
		case "send":
			c.Send(c10Packet(o))
		case "raw":
			c.SendRaw(o.Body)
		case "ack":
			xmpp.VerifRoute(router, c, stanza.SMAnswer{H: uint(o.H)})
		case "peer_r":
			// the server asks for an acknowledgement: Client.recv writes <a/> through Client.Send
			before := len(st.snapshotWrites())
			st.feed <- []byte("<r xmlns='urn:xmpp:sm:3'/>")
			for k := 0; k < 4000 && len(st.snapshotWrites()) == before; k++ {
				time.Sleep(50 * time.Microsecond)
			}
			time.Sleep(200 * time.Microsecond)
		}
		steps = append(steps, snapshot())
	}
	if len(in.Stall) > 0 {
		gate := make(chan struct{})
		st.mu.Lock()
		if st.blockAt == nil {
			st.blockAt = map[int]chan struct{}{}
		}
		st.blockAt[st.nwrites+1] = gate // the first re-sent stanza stalls
		st.mu.Unlock()
		var wg sync.WaitGroup
		wg.Add(1)
		go func() { defer wg.Done(); xmpp.VerifRoute(router, c, stanza.SMAnswer{H: 0}) }()
		time.Sleep(2 * time.Millisecond) // now inside SendMissingStz, holding the queue lock, blocked in Write
		for _, h := range in.Stall {
			wg.Add(1)
			go func(h int) { defer wg.Done(); xmpp.VerifRoute(router, c, stanza.SMAnswer{H: uint(h)}) }(h)
		}
		time.Sleep(2 * time.Millisecond) // all parked on the lock
		close(gate)
		done := make(chan struct{})
		go func() { wg.Wait(); close(done) }()
		select {
		case <-done:
		case <-time.After(3 * time.Second):
			close(st.feed)
			return L(SBytes("acks-deadlocked"))
		}
		fin := snapshot()
		steps = append(steps, L(L(), fin.L[1])) // the order of the writes depends on the schedule: only what is held is compared
	}
	close(st.feed)
	return LS(steps)
}

// Input: for concurrent cases the pushes are given to the model in the order the
// implementation queued them (read back from the first observation), as raw sends.
func (p c10) Input(inp interface{}) Sx { return p.InputObs(inp, L()) }

func (p c10) InputObs(inp interface{}, obs Sx) Sx {
	in := inp.(c10In)
	var ops []Sx
	if in.Concurrent > 0 {
		var ds []Sx
		if len(obs.L) > 0 && len(obs.L[0].L) == 2 {
			for _, e := range obs.L[0].L[1].L {
				ds = append(ds, e.L[1])
			}
		}
		ops = append(ops, L(Z(9), LS(ds)))
	}
	for _, o := range in.Ops {
		switch o.Op {
		case "send":
			data, _ := xml.Marshal(c10Packet(o))
			ops = append(ops, L(Z(0), Zi(o.Kind), SBytes(c10Canon(string(data)))))
		case "raw":
			ops = append(ops, L(Z(1), SBytes(c10Canon(o.Body))))
		case "ack":
			ops = append(ops, L(Z(2), Zi(o.H)))
		case "peer_r":
			// no stanza is ever received in these histories: the answer reports h=0
			ops = append(ops, L(Z(0), Z(2), SBytes(c10Canon(`<a xmlns="urn:xmpp:sm:3" h="0"></a>`))))
		}
	}
	if len(in.Stall) > 0 {
		acks := []Sx{L(Z(2), Z(0))}
		for _, h := range in.Stall {
			acks = append(acks, L(Z(2), Zi(h)))
		}
		ops = append(ops, L(Z(8), LS(acks)))
	}
	return LS(ops)
}

// Oracle: independent Go reading of the property on the observation.
func (c10) Oracle(inp interface{}, obs Sx) (string, string) {
	in := inp.(c10In)
	steps := obs.L
	var sent []string // absolute
	acked := 0
	idx := 0
	if in.Concurrent > 0 {
		if len(steps) == 0 {
			return "no observation", "shape"
		}
		// every concurrent push exactly once, ids 1..n strictly increasing
		want := map[string]int{}
		for g := 0; g < in.Concurrent; g++ {
			for k := 0; k < 8; k++ {
				want[fmt.Sprintf("g%d-%d", g, k)]++
			}
		}
		qx := steps[0].L[1].L
		if len(qx) != in.Concurrent*8 {
			return fmt.Sprintf("concurrent senders: %d stanzas sent, %d held", in.Concurrent*8, len(qx)), "concurrent-lost"
		}
		for i, e := range qx {
			if e.L[0].Z != int64(i+1) {
				return fmt.Sprintf("concurrent senders: entry %d has sequence number %d", i, e.L[0].Z), "concurrent-ids"
			}
			s := string(bytesOf(e.L[1]))
			found := false
			for k := range want {
				if strings.Contains(s, "'"+k+"'") || strings.Contains(s, "\""+k+"\"") {
					want[k]--
					found = true
					break
				}
			}
			if !found {
				return "concurrent senders: unknown entry held: " + s, "concurrent-unknown"
			}
			sent = append(sent, s)
		}
		for k, v := range want {
			if v != 0 {
				return "concurrent senders: stanza " + k + " held " + fmt.Sprint(1-v) + " times", "concurrent-dup"
			}
		}
		idx = 1
	}
	if len(in.Stall) > 0 {
		if len(steps) != idx+len(in.Ops)+1 {
			return "acknowledgements behind a stalled retransmission never finished: " + obs.String(), "stall-deadlock"
		}
	}
	for oi, o := range in.Ops {
		if idx+oi >= len(steps) {
			return "missing observation", "shape"
		}
		ws, qx := steps[idx+oi].L[0].L, steps[idx+oi].L[1].L
		var wantWire []string // "" = <r/>
		switch o.Op {
		case "send":
			data, _ := xml.Marshal(c10Packet(o))
			if o.Kind == 0 {
				sent = append(sent, c10Canon(string(data)))
			}
			if o.Kind == 1 {
				wantWire = []string{"\x00R"}
			} else {
				wantWire = []string{c10Canon(string(data))}
			}
		case "raw":
			sent = append(sent, c10Canon(o.Body))
			wantWire = []string{c10Canon(o.Body)}
		case "peer_r":
			wantWire = []string{c10Canon(`<a xmlns="urn:xmpp:sm:3" h="0"></a>`)}
		case "ack":
			h := o.H
			if h > len(sent) {
				h = len(sent)
			}
			if h > acked {
				acked = h
			}
			if acked < len(sent) {
				wantWire = append(wantWire, sent[acked:]...)
				wantWire = append(wantWire, "\x00R")
			}
		}
		// held = sent[acked:], numbered acked+1...
		if len(qx) != len(sent)-acked {
			return fmt.Sprintf("op %d (%s h=%d): %d stanzas sent on the session, %d acknowledged, but %d held", oi, o.Op, o.H, len(sent), acked, len(qx)), "held-count-" + o.Op
		}
		for i, e := range qx {
			if string(bytesOf(e.L[1])) != sent[acked+i] {
				return fmt.Sprintf("op %d (%s): held entry %d is not the stanza sent at absolute position %d", oi, o.Op, i, acked+i+1), "held-content-" + o.Op
			}
			if e.L[0].Z != int64(acked+i+1) {
				return fmt.Sprintf("op %d (%s): held entry %d carries sequence number %d, absolute position %d", oi, o.Op, i, e.L[0].Z, acked+i+1), "held-number-" + o.Op
			}
		}
		if len(ws) != len(wantWire) {
			return fmt.Sprintf("op %d (%s h=%d): %d writes, expected %d", oi, o.Op, o.H, len(ws), len(wantWire)), "wire-count-" + o.Op
		}
		for i, w := range ws {
			if wantWire[i] == "\x00R" {
				if w.L[0].Z != 1 {
					return fmt.Sprintf("op %d (%s): write %d should be the ack request", oi, o.Op, i), "wire-req-" + o.Op
				}
			} else if w.L[0].Z != 0 || string(bytesOf(w.L[1])) != wantWire[i] {
				return fmt.Sprintf("op %d (%s): write %d is not the expected stanza", oi, o.Op, i), "wire-content-" + o.Op
			}
		}
	}
	if len(in.Stall) > 0 {
		max := 0
		for _, h := range in.Stall {
			if h > max {
				max = h
			}
		}
		if max > len(sent) {
			max = len(sent)
		}
		qx := steps[len(steps)-1].L[1].L
		if len(qx) != len(sent)-max {
			return fmt.Sprintf("acknowledgements %v arrived while a retransmission was stalled: highest h is %d of %d stanzas sent, but %d are held", in.Stall, max, len(sent), len(qx)), "stall-held-count"
		}
		for i, e := range qx {
			if string(bytesOf(e.L[1])) != sent[max+i] || e.L[0].Z != int64(max+i+1) {
				return fmt.Sprintf("acknowledgements %v behind a stalled retransmission: held entry %d is not stanza number %d", in.Stall, i, max+i+1), "stall-held-content"
			}
		}
	}
	return "", ""
}

func (c10) Key(inp interface{}) (string, bool) {
	in := inp.(c10In)
	var b strings.Builder
	fmt.Fprintf(&b, "c%d st%v:", in.Concurrent, in.Stall)
	if len(in.Stall) > 0 {
		hist("stalled-retransmission")
	}
	sent, acked, nt := in.Concurrent*8, 0, false
	for _, o := range in.Ops {
		switch o.Op {
		case "send":
			b.WriteString("s" + fmt.Sprint(o.Kind))
			if o.Kind == 0 {
				sent++
			}
			hist(fmt.Sprintf("op:send%d", o.Kind))
		case "raw":
			b.WriteString("w")
			sent++
			hist("op:raw")
		case "peer_r":
			b.WriteString("p")
			hist("op:peer_r")
		case "ack":
			cls := "<"
			switch {
			case o.H < acked:
				cls = "stale"
			case o.H == sent:
				cls = "="
			case o.H > sent:
				cls = ">"
			}
			if sent > acked {
				nt = true
			}
			if o.H > acked {
				acked = o.H
				if acked > sent {
					acked = sent
				}
			}
			b.WriteString("a" + cls)
			hist("op:ack" + cls)
		}
	}
	return b.String(), nt
}
