package main

// C10: Client.Send / SendRaw / inbound <a h/> (Router.route -> SendMissingStz) on the
// recording stub transport, against Model/Ack.v.

import (
	"context"
	"encoding/json"
	"encoding/xml"
	"fmt"
	"io"
	"math/rand"
	"strings"
	"sync"
	"time"

	xmpp "gosrc.io/xmpp"
	"gosrc.io/xmpp/stanza"
)

type c10Op struct {
	Op   string `json:"op"`             // send raw ack peer_r session attempt resume
	Kind int    `json:"kind,omitempty"` // send: 0 stanza 1 stanza.SMRequest 2 stanza.SMAnswer 3 *stanza.SMRequest 4 *stanza.SMAnswer 5 a nil packet
	Body string `json:"body,omitempty"` // stanza body / raw string (a raw <r/> or <a/> of stream management is recognised by c10RawKind)
	// send: the Go type through which the packet reaches the client (c10Vias). Kind 0: 0 stanza.Message, 1 *stanza.Message,
	// 2 stanza.Presence, 3 *stanza.Presence, 4 *stanza.IQ through Send, 5 *stanza.IQ through SendIQ, 6 / 7 an
	// application-defined stanza.Packet type marshalling to a <message/> (value / pointer), 8 / 9 one marshalling to a
	// <presence/> (value / pointer), 10 the bytes of the stanza.Message through SendRaw. Kind 5: 0 a nil packet, 1 / 2 an
	// application-defined stanza.Packet marshalling to a nonza (value / pointer). What is held is decided by the element
	// written, not by the Go type: the model does not see this field.
	Via int `json:"via,omitempty"`
	// send/raw: the call is made by a route handler, through the Sender the router hands it (as the examples answer: s.Send(&reply))
	Fwd  bool `json:"fwd,omitempty"`
	H    int  `json:"h,omitempty"`
	Big  bool `json:"big,omitempty"`  // ack: h = 2^63 + H (beyond the signed range)
	Fail bool `json:"fail,omitempty"` // send/raw: the transport refuses this write (Send returns the error)
	// ack: write number FailAt (from 1) of the retransmission this acknowledgement causes is refused by the transport (0: none)
	FailAt int `json:"fail_at,omitempty"`
	// session: the client connects again (a new connection, the server refuses to resume the old session) and
	// the server's <enabled/> carries this resume attribute (spellings as c10In.Resume)
	Resume string `json:"resume,omitempty"`
	NoID   bool   `json:"noid,omitempty"` // session: that <enabled/> carries no id (the id is only needed for resumption)
	// attempt: a connection attempt of the client that fails: "features" (the server's header, then the connection is
	// cut before the features), "tls" (STARTTLS offered and required, cut while <proceed/> is awaited), "resumed"
	// (authenticated, <resume/> written, cut before the answer). resume (op): an attempt on which the server resumes the session.
	Mode string `json:"mode,omitempty"`
}
type c10In struct {
	Ops        []c10Op `json:"ops"`
	Concurrent int     `json:"concurrent,omitempty"` // >0: that many goroutines push first (stress), ops follow
	Stall      []int   `json:"stall,omitempty"`      // acknowledgements h1,h2,... arriving (each on its own goroutine, as Client.recv routes them) while the retransmission triggered by <a h='0'/> is stalled in a blocking write; Ops are the sends made before
	Connect    bool    `json:"connect,omitempty"`    // the session is negotiated by the real Client.Connect (scripted server on the stub): its initial <presence/>, written after <enabled/>, is the first stanza of the session
	Race       int     `json:"race,omitempty"`       // 1,2: two senders A, B; A's write is stalled by the transport, B is started meanwhile, then A goes on (1: A=SendRaw B=Send, 2: A=Send B=SendRaw); ops follow
	NoID       bool    `json:"noid,omitempty"`       // the first session has no stream-management id: Connect: its <enabled/> carries none; otherwise the installed state has none
	Resume     string  `json:"resume,omitempty"`     // Connect: the resume attribute of the server's <enabled/>: "" = resume='true', "-" = no attribute, "empty" = resume='', anything else = that value
}

// c10Granted: does an <enabled/> with this resume attribute grant resumption? The harness's own table of the spellings
// the client accepts as true (the documented set of strconv.ParseBool); everything else, a missing attribute included, does not.
func c10Granted(resume string) bool {
	switch resume {
	case "", "1", "t", "T", "TRUE", "true", "True":
		return true
	}
	return false
}

func c10ResumeAttr(resume string) string {
	switch resume {
	case "":
		return " resume='true'"
	case "-":
		return ""
	case "empty":
		return " resume=''"
	}
	return " resume='" + resume + "'"
}

var c10Resumes = []string{"", "true", "1", "t", "T", "TRUE", "True", "-", "false", "0", "f", "False", "empty", "yes", "no", "tRuE", "2"}

func c10B(b bool) int64 {
	if b {
		return 1
	}
	return 0
}

// secure: the client insists on TLS (a history with an attempt that fails during STARTTLS)
func (in c10In) secure() bool {
	for _, o := range in.Ops {
		if o.Op == "attempt" && o.Mode == "tls" {
			return true
		}
	}
	return false
}

type c10 struct{}

func init() { register(c10{}) }

func (c10) ID() string    { return "C10" }
func (c10) RunFn() string { return "run_C10" }
func (c10) Workers() int  { return 8 }
func (c10) Journal() bool { return true }
func (c10) Rule() string {
	return "random histories (0-40 ops) over Send(stanza), Send(<r/>), Send(<a/>) by value and by pointer, the stanza reaching the client through every Go type there is (stanza.Message and stanza.Presence by value and by pointer, *stanza.IQ through Send and through SendIQ, application-defined stanza.Packet types marshalling to a <message/>, a <presence/> or a nonza by value and by pointer, the same bytes through SendRaw: half of the stanza sends; what is held is decided by the element written), a fifth of all sends made by a route handler through the Sender the router hands it, the server's <r/> answered by the real receive loop, SendRaw(stanza string), SendRaw of a raw stream-management <r/> or <a/> (several spellings), sends whose write the transport refuses, and server <a h/> with h below, equal to, above the number sent, stale, repeated and beyond the signed range (h is unsigned on the wire) through the real Client.Send/SendRaw and Router.route(SMAnswer) on a recording transport, a sixth of them on a session negotiated by the real Client.Connect (its initial presence is the first stanza of the session) with the server's <enabled/> carrying resume='true', other spellings of true, false, no attribute or garbage (whether resumption is granted makes no difference: stream management is active and every stanza is held), acknowledgements whose retransmission is cut short by a refused write at every position (what was not written stays held, no <r/>), and new connections of the same client in the middle of a history, up to three, after sessions that had a stream-management id (resumption is tried and refused) and after sessions whose <enabled/> carried none (nothing to resume with) (the old session is not resumed: a new session, numbered from 1, holding whatever this or any earlier <enabled/> said about resumption), sends of what is not a stanza between the stanzas (white space, the empty string, a nil packet, client-state nonzas, elements of a foreign namespace: written, never held or numbered - the numbers stay in step with a server that counts stanzas), and outages: one to three connection attempts of the same client that fail (cut before the features, while <proceed/> of a required STARTTLS is awaited, while the answer to <resume/> is awaited), acknowledgements of the old connection applied meanwhile (nothing can be written), then the session resumed by the real Client.connect (<resumed/>) - every stanza held before the outage is still held under its number and is retransmitted or discarded by the next acknowledgement; after every op the queue (ids, payloads) and the bytes written are compared; plus concurrent senders (8 goroutines) and two senders of which the first is stalled by the transport between numbering and writing (the sequence numbers must follow the order on the wire), followed by acknowledgements, and acknowledgements piling up on their own goroutines behind a retransmission stalled in a blocking write (only what is held afterwards is compared); distinct = op-kind/h-class sequence; non-trivial = at least one ack with stanzas held"
}

func (c10) Decode(raw json.RawMessage) (interface{}, error) {
	var in c10In
	err := json.Unmarshal(raw, &in)
	return in, err
}

// spellings of a raw stream-management request / answer handed to SendRaw
var c10RawSM = []string{
	"<r xmlns='urn:xmpp:sm:3'/>",
	`<r xmlns="urn:xmpp:sm:3"></r>`,
	" <sm:r xmlns:sm='urn:xmpp:sm:3'/>",
	"<a xmlns='urn:xmpp:sm:3' h='0'/>",
	`<a h="7" xmlns="urn:xmpp:sm:3"></a>`,
}

// c10Witnesses: the minimal histories of the defects found by review (replays/C10/corpus carries the same).
func c10Witnesses() []interface{} {
	m := func(b string) c10Op { return c10Op{Op: "send", Body: b} }
	ws := []interface{}{
		// an acknowledgement request / answer passed to Send as a pointer
		c10In{Ops: []c10Op{m("m1"), {Op: "send", Kind: 3}, {Op: "ack", H: 1}, m("m2"), {Op: "ack", H: 2}}},
		c10In{Ops: []c10Op{m("m1"), {Op: "send", Kind: 4, H: 0}, {Op: "ack", H: 1}}},
		// a raw <r/> / <a/> through SendRaw
		c10In{Ops: []c10Op{m("m1"), {Op: "raw", Body: c10RawSM[0]}, {Op: "ack", H: 1}, m("m2"), {Op: "ack", H: 2}}},
		c10In{Ops: []c10Op{m("m1"), {Op: "raw", Body: c10RawSM[3]}, {Op: "ack", H: 1}}},
		// the initial presence of Connect is stanza number 1 of the session
		c10In{Connect: true, Ops: []c10Op{m("m1"), m("m2"), {Op: "send", Kind: 1}, {Op: "ack", H: 1}}},
		// two senders, the first stalled between taking its number and writing
		c10In{Race: 1, Ops: []c10Op{{Op: "ack", H: 1}}},
		c10In{Race: 2, Ops: []c10Op{{Op: "ack", H: 1}, {Op: "ack", H: 1}}},
		// a refused send is not a stanza sent on the session
		c10In{Ops: []c10Op{m("m1"), {Op: "send", Body: "m2", Fail: true}, m("m3"), {Op: "ack", H: 2}}},
		c10In{Ops: []c10Op{{Op: "raw", Body: "<message id='x'/>", Fail: true}, m("m1"), {Op: "ack", H: 1}}},
		// h beyond the signed range acknowledges everything
		c10In{Ops: []c10Op{m("m1"), m("m2"), {Op: "ack", Big: true}}},
		c10In{Ops: []c10Op{m("m1"), m("m2"), {Op: "ack", H: 1}, {Op: "ack", Big: true, H: 5}}},
		// <enabled/> without resumption: stream management is active all the same, the client holds (fix C10-a1)
		c10In{Connect: true, Resume: "-", Ops: []c10Op{m("m1"), {Op: "ack", H: 0}, {Op: "raw", Body: "<message id='x'/>"}, {Op: "ack", H: 5}}},
		c10In{Connect: true, Resume: "false", Ops: []c10Op{m("m1"), {Op: "send", Body: "m2", Fail: true}, {Op: "ack", H: 1}}},
		c10In{Connect: true, Resume: "1", Ops: []c10Op{m("m1"), {Op: "ack", H: 1}, m("m2"), {Op: "ack", H: 1}}},
		// a retransmission cut short by a refused write
		c10In{Ops: []c10Op{m("m1"), m("m2"), m("m3"), {Op: "ack", H: 0, FailAt: 2}, {Op: "ack", H: 1}, {Op: "ack", H: 1, FailAt: 3}, {Op: "ack", H: 2, FailAt: 1}, {Op: "ack", H: 3, FailAt: 1}, m("m4"), {Op: "ack", H: 3}}},
		// a new connection in the middle: a new session numbered from 1; once resumption was not granted nothing is held any more
		c10In{Ops: []c10Op{m("m1"), m("m2"), {Op: "session", Resume: "true"}, m("m3"), {Op: "ack", H: 0}, {Op: "session", Resume: "-"}, m("m4"), {Op: "ack", H: 0}, {Op: "session", Resume: "true"}, m("m5"), {Op: "ack", H: 0}}},
		c10In{Connect: true, Ops: []c10Op{m("m1"), {Op: "session"}, {Op: "ack", H: 1}, m("m2"), {Op: "send", Kind: 1}, {Op: "ack", H: 0}}},
		// only stanzas are held and numbered: nonzas, foreign elements, white space, the empty string, a nil packet are written only
		c10In{Ops: []c10Op{m("m1"), {Op: "raw", Body: "<inactive xmlns='urn:xmpp:csi:0'/>"}, {Op: "raw", Body: " "}, m("m2"), {Op: "ack", H: 1}, {Op: "raw", Body: ""}, {Op: "send", Kind: 5}, {Op: "raw", Body: "<message xmlns='jabber:server' id='f'/>"}, {Op: "raw", Body: "<presence/>"}, {Op: "ack", H: 2}, {Op: "ack", H: 3}}},
		c10In{Ops: []c10Op{{Op: "raw", Body: "<message id='t1'/><message id='t2'/>"}, {Op: "raw", Body: "<active xmlns='urn:xmpp:csi:0'/>", Fail: true}, m("m1"), {Op: "ack", H: 1}}},
		// held stanzas survive connection attempts that fail and are there when the session is resumed
		c10In{Ops: []c10Op{m("m1"), m("m2"), {Op: "attempt", Mode: "features"}, {Op: "resume"}, {Op: "ack", H: 1}, m("m3"), {Op: "ack", H: 3}}},
		c10In{Connect: true, Ops: []c10Op{m("m1"), {Op: "attempt", Mode: "resumed"}, {Op: "ack", H: 1}, {Op: "attempt", Mode: "tls"}, {Op: "attempt", Mode: "features"}, {Op: "resume"}, {Op: "ack", H: 1}, {Op: "ack", H: 2}}},
		c10In{Ops: []c10Op{m("m1"), {Op: "attempt", Mode: "tls"}, {Op: "session"}, m("m2"), {Op: "attempt", Mode: "resumed"}, {Op: "resume"}, {Op: "ack", H: 0}}},
		// sessions without a stream-management id (nothing to resume with): the next session of the client is still a new one,
		// numbered from 1, holding nothing of the one before
		c10In{Connect: true, NoID: true, Resume: "-", Ops: []c10Op{m("m1"), {Op: "ack", H: 2}, {Op: "session", NoID: true, Resume: "-"}, m("m2"), {Op: "ack", H: 1}}},
		c10In{Connect: true, NoID: true, Ops: []c10Op{m("m1"), m("m2"), {Op: "session"}, m("m3"), {Op: "ack", H: 0}, {Op: "ack", H: 1}}},
		c10In{NoID: true, Ops: []c10Op{m("m1"), {Op: "session", NoID: true}, m("m2"), {Op: "session", NoID: true, Resume: "false"}, m("m3"), m("m4"), {Op: "ack", H: 1}, {Op: "session"}, m("m5"), {Op: "ack", H: 1}}},
	}
	// every Go type through which a stanza can reach the client, called directly and from a route handler: held as
	// number 2 between two plain messages, acknowledged one by one (each acknowledgement retransmits the rest)
	for via := 1; via < c10NVias; via++ {
		for _, fwd := range []bool{false, true} {
			ws = append(ws, c10In{Ops: []c10Op{m("m1"), {Op: "send", Body: "v", Via: via, Fwd: fwd}, m("m3"), {Op: "ack", H: 1}, {Op: "ack", H: 2}, {Op: "ack", H: 3}}})
		}
	}
	// an application-defined nonza is written and not counted; stanzas and raw strings sent by a handler are held
	ws = append(ws,
		c10In{Ops: []c10Op{m("m1"), {Op: "send", Kind: 5, Via: 1}, {Op: "send", Kind: 5, Via: 2, Fwd: true}, m("m2"), {Op: "ack", H: 1}, {Op: "ack", H: 2}}},
		c10In{Connect: true, Ops: []c10Op{{Op: "send", Body: "r", Fwd: true}, {Op: "raw", Body: "<presence/>", Fwd: true}, {Op: "send", Kind: 3, Fwd: true}, {Op: "ack", H: 1}, {Op: "ack", H: 3}}},
	)
	return ws
}

func (c10) Gen(r *rand.Rand, tier string) []interface{} {
	n := 1200
	if tier == "thorough" {
		n = 30000
	}
	var out []interface{}
	// D6 witnesses: send 3, ack 2; ack 3; D8: own <a/> then server ack
	out = append(out,
		c10In{Ops: []c10Op{{Op: "raw", Body: "<message id='1'/>"}, {Op: "raw", Body: "<message id='2'/>"}, {Op: "raw", Body: "<message id='3'/>"}, {Op: "ack", H: 2}}},
		c10In{Ops: []c10Op{{Op: "send", Body: "a"}, {Op: "send", Body: "b"}, {Op: "send", Body: "c"}, {Op: "ack", H: 3}, {Op: "send", Body: "d"}, {Op: "ack", H: 3}, {Op: "ack", H: 4}}},
		c10In{Ops: []c10Op{{Op: "send", Kind: 2, H: 5}, {Op: "send", Body: "x"}, {Op: "ack", H: 0}}},
		c10In{Ops: []c10Op{{Op: "ack", H: 1}}},
		c10In{Ops: []c10Op{{Op: "peer_r"}, {Op: "send", Body: "x"}, {Op: "ack", H: 1}, {Op: "peer_r"}, {Op: "raw", Body: "<message id='y'/>"}, {Op: "ack", H: 1}}},
	)
	out = append(out, c10Witnesses()...)
	bodies := []string{"hi", "a <b> & c", "é漢😀", strings.Repeat("z", 200), "", "]]>"}
	for i := 0; i < n; i++ {
		l := r.Intn(41)
		in := c10In{Connect: r.Intn(6) == 0}
		sent := 0
		const holding = true
		if in.Connect {
			if r.Intn(2) == 0 {
				in.Resume = c10Resumes[r.Intn(len(c10Resumes))]
			}
			sent = 1
		}
		sessions := 0
		if r.Intn(4) == 0 {
			sessions = 1 + r.Intn(3)
			in.NoID = r.Intn(2) == 0
		} else if in.Connect {
			in.NoID = r.Intn(4) == 0
		}
		ops := make([]c10Op, 0, l)
		lastNoID := in.NoID
		outages := 0
		if r.Intn(4) == 0 {
			outages = 1 + r.Intn(2)
		}
		for j := 0; j < l; j++ {
			fail := r.Intn(14) == 0
			if outages > 0 && !lastNoID && r.Intn(l) < 3 {
				// the connection is lost: one to three attempts fail (acknowledgements of the old connection may still
				// be applied meanwhile), then the session is resumed - or the server has forgotten it and a new one is bound
				outages--
				modes := []string{"features", "tls", "resumed"}
				for k := 1 + r.Intn(3); k > 0; k-- {
					ops = append(ops, c10Op{Op: "attempt", Mode: modes[r.Intn(3)]})
					if r.Intn(4) == 0 {
						ops = append(ops, c10Op{Op: "ack", H: r.Intn(sent + 2)})
					}
				}
				if r.Intn(5) == 0 {
					o := c10Op{Op: "session", NoID: r.Intn(3) == 0}
					lastNoID = o.NoID
					ops = append(ops, o)
					sent = 0
				} else {
					ops = append(ops, c10Op{Op: "resume"})
				}
				continue
			}
			if sessions > 0 && r.Intn(l) < 3 {
				sessions--
				o := c10Op{Op: "session", Resume: c10Resumes[r.Intn(len(c10Resumes))]}
				if r.Intn(2) == 0 {
					o.Resume = ""
				}
				o.NoID = r.Intn(2) == 0
				lastNoID = o.NoID
				ops = append(ops, o)
				sent = 0
				continue
			}
			switch c := r.Intn(10); {
			case c < 4:
				o := c10Op{Op: "send", Body: bodies[r.Intn(len(bodies))] + fmt.Sprint(j), Fail: fail}
				if r.Intn(2) == 0 {
					o.Via = 1 + r.Intn(c10NVias-1) // not the library's value Message: pointers, presence, iq, SendIQ, application-defined types, the same bytes raw
				}
				o.Fwd = r.Intn(5) == 0
				ops = append(ops, o)
				if !fail && holding {
					sent++
				}
			case c < 6:
				if r.Intn(6) == 0 {
					ops = append(ops, c10Op{Op: "raw", Body: c10RawSM[r.Intn(len(c10RawSM))], Fail: fail && r.Intn(2) == 0})
					break
				}
				if r.Intn(4) == 0 {
					// nothing the server counts: written, never held
					ops = append(ops, c10Op{Op: "raw", Body: c10RawOther[r.Intn(len(c10RawOther))], Fail: fail && r.Intn(2) == 0})
					break
				}
				if r.Intn(5) == 0 {
					ops = append(ops, c10Op{Op: "raw", Body: c10RawStanza[r.Intn(len(c10RawStanza))], Fail: fail})
					if !fail {
						sent++
					}
					break
				}
				ops = append(ops, c10Op{Op: "raw", Body: fmt.Sprintf("<message id='r%d'><body>%s</body></message>", j, "raw"), Fail: fail, Fwd: r.Intn(5) == 0})
				if !fail && holding {
					sent++
				}
			case c < 7:
				if r.Intn(2) == 0 {
					ops = append(ops, c10Op{Op: "peer_r"})
				} else {
					o := c10Op{Op: "send", Kind: 1 + r.Intn(5), H: r.Intn(4), Fwd: r.Intn(5) == 0}
					if o.Kind == 5 {
						o.Via = r.Intn(3) // a nil packet, an application-defined nonza by value, by pointer
					}
					ops = append(ops, o)
				}
			default:
				var h int
				big := false
				switch r.Intn(9) {
				case 0:
					h = 0
				case 1:
					h = sent
				case 2:
					h = sent + 1 + r.Intn(3)
				case 3:
					h = 1 << 30
				case 4:
					if r.Intn(3) == 0 {
						big, h = true, r.Intn(3)
					} else {
						h = r.Intn(sent + 2)
					}
				default:
					h = r.Intn(sent + 2)
				}
				o := c10Op{Op: "ack", H: h, Big: big}
				if r.Intn(5) == 0 {
					o.FailAt = 1 + r.Intn(sent+2) // up to one past the <r/>: then nothing is refused
				}
				ops = append(ops, o)
			}
		}
		in.Ops = ops
		out = append(out, in)
	}
	// acknowledgements piling up behind a stalled retransmission
	ns := 12
	if tier == "thorough" {
		ns = 200
	}
	for i := 0; i < ns; i++ {
		n := 2 + r.Intn(5)
		var ops []c10Op
		for j := 0; j < n; j++ {
			ops = append(ops, c10Op{Op: "raw", Body: fmt.Sprintf("<message id='st%d'/>", j)})
		}
		var hs []int
		for k := 1 + r.Intn(3); k > 0; k-- {
			hs = append(hs, 1+r.Intn(n))
		}
		out = append(out, c10In{Ops: ops, Stall: hs})
	}
	// concurrent senders
	nc := 20
	if tier == "thorough" {
		nc = 300
	}
	for i := 0; i < nc; i++ {
		out = append(out, c10In{Concurrent: 8, Ops: []c10Op{{Op: "ack", H: r.Intn(70)}, {Op: "ack", H: r.Intn(70)}}})
	}
	// two senders, the first stalled between numbering and writing
	nr := 6
	if tier == "thorough" {
		nr = 60
	}
	for i := 0; i < nr; i++ {
		in := c10In{Race: 1 + r.Intn(2)}
		for k := r.Intn(3); k >= 0; k-- {
			in.Ops = append(in.Ops, c10Op{Op: "ack", H: r.Intn(4)})
		}
		out = append(out, in)
	}
	return out
}

// the server side of a negotiation with stream management, all of it readable at once (the client reads what it needs).
// refusedResume: the client asks to resume an earlier session first and is refused; enabled: the client asks for stream
// management and gets <enabled/> with this resume attribute.
func c10Negotiation(refusedResume, enabled bool, resume string, noID bool) string {
	s := clientHeader +
		"<stream:features><mechanisms xmlns='urn:ietf:params:xml:ns:xmpp-sasl'><mechanism>PLAIN</mechanism></mechanisms></stream:features>" +
		"<success xmlns='urn:ietf:params:xml:ns:xmpp-sasl'/>" +
		clientHeader +
		"<stream:features><bind xmlns='urn:ietf:params:xml:ns:xmpp-bind'/><sm xmlns='urn:xmpp:sm:3'/></stream:features>"
	if refusedResume {
		s += "<failed xmlns='urn:xmpp:sm:3'><item-not-found xmlns='urn:ietf:params:xml:ns:xmpp-stanzas'/></failed>"
	}
	s += "<iq type='result' id='1'><bind xmlns='urn:ietf:params:xml:ns:xmpp-bind'><jid>u@localhost/r</jid></bind></iq>"
	if enabled {
		id := " id='sm'"
		if noID {
			id = ""
		}
		s += "<enabled xmlns='urn:xmpp:sm:3'" + id + c10ResumeAttr(resume) + "/>"
	}
	return s
}

// c10Client: a client on the recording stub with stream management active. connect=false: the session is installed
// through the hooks and the real receive loop started; connect=true: the public Client.Connect negotiates it (and
// starts the receive loop itself). skip = number of writes that belong to the negotiation (up to <enable/>).
func c10Client(connect bool, resume string, noID, secure bool) (c *xmpp.Client, st *stubTransport, router *xmpp.Router, skip int, err error) {
	script := clientHeader
	if connect {
		script = c10Negotiation(false, true, resume, noID)
	}
	st = newStub([][]byte{[]byte(script)}, nil)
	st.feed = make(chan []byte, 4)
	st.secure = secure // secure: the client insists on TLS and its connections have it from the start (except an attempt that fails there)
	router = xmpp.NewRouter()
	cfg := &xmpp.Config{TransportConfiguration: xmpp.TransportConfiguration{Address: "localhost:1"}, Jid: "u@localhost", Credential: xmpp.Password("p"), StreamManagementEnable: true, Insecure: !secure, KeepaliveInterval: time.Hour}
	cfg.VerifSetSMResume(true)
	c, err = xmpp.NewClient(cfg, router, func(error) {})
	if err != nil {
		panic(err)
	}
	xmpp.VerifSetTransport(c, st)
	if connect {
		if err = c.Connect(); err != nil {
			return
		}
		if c.Session == nil || c.Session.SMState.UnAckQueue == nil {
			err = fmt.Errorf("stream management not negotiated")
			return
		}
		skip = c10AfterEnable(st)
		if skip == 0 {
			err = fmt.Errorf("no <enable/> among the writes of Connect")
		}
		return
	}
	smID := "sm"
	if noID {
		smID = ""
	}
	xmpp.VerifSetSession(c, xmpp.SMState{Id: smID, UnAckQueue: stanza.NewUnAckQueue()})
	st.StartStream()
	st.mu.Lock()
	st.writes, st.nwrites = nil, 0
	st.mu.Unlock()
	// the real receive loop answers the server's <r/> (ops "peer_r")
	go xmpp.VerifRecv(c, make(chan struct{}))
	return
}

// c10AfterEnable: the number of writes up to and including the client's <enable/> (0: none was written)
func c10AfterEnable(st *stubTransport) (skip int) {
	for i, w := range st.snapshotWrites() {
		if ns, e := parseCanon([]byte(w.Data)); e == nil && len(ns) == 1 && ns[0].Name.Space == nsSM && ns[0].Name.Local == "enable" {
			skip = i + 1
		}
	}
	return
}

// c10Rebind: the next connection of the client: a new stub playing script, and the client's Session object (the one
// Client.connect keeps across connections) bound to it. A client left without session object starts from nothing, as
// Client.connect does then. live: the connection stays up after the script (input arrives through feed); otherwise it
// is cut there.
func c10Rebind(c *xmpp.Client, script string, secure, live bool) *stubTransport {
	st := newStub([][]byte{[]byte(script)}, nil)
	st.secure = secure
	if live {
		st.feed = make(chan []byte, 4)
	} else {
		st.endErr = io.EOF
	}
	var old xmpp.SMState
	if c.Session != nil {
		old = c.Session.SMState
	}
	xmpp.VerifSetTransport(c, st)
	xmpp.VerifSetSession(c, old)
	return st
}

// c10ConnectWithin: Client.connect on the current transport, given up after 3 s (the client waits for an answer to
// something the scripted server was not asked in the harness's account of the client: the connection is ended then).
func c10ConnectWithin(c *xmpp.Client, st *stubTransport) (err error) {
	done := make(chan error, 1)
	go func() { done <- xmpp.VerifClientConnect(c) }()
	select {
	case err = <-done:
	case <-time.After(3 * time.Second):
		st.mu.Lock()
		feed := st.feed
		st.feed = nil // the caller must not close it again
		st.mu.Unlock()
		if feed != nil {
			close(feed)
		}
		err = fmt.Errorf("the negotiation does not finish: the client waits for an answer the scripted server has no reason to give (%v)", <-done)
	}
	return
}

func c10Wrote(st *stubTransport, local string) (at int) {
	for i, w := range st.snapshotWrites() {
		if ns, e := parseCanon([]byte(w.Data)); e == nil && len(ns) == 1 && ns[0].Name.Space == nsSM && ns[0].Name.Local == local {
			at = i + 1
		}
	}
	return
}

// c10NewSession: the client connects again on a new connection. The server offers stream management, refuses to
// resume the session the client still has an id of, binds, and - when the harness expects the client to ask
// (wantEnable) - answers <enable/> with <enabled/> carrying the given resume attribute. The real receive loop is
// started on the new connection.
func c10NewSession(c *xmpp.Client, hadID, wantEnable bool, resume string, noID, secure bool) (st *stubTransport, skip int, err error) {
	st = c10Rebind(c, c10Negotiation(hadID, wantEnable, resume, noID), secure, true)
	if err = c10ConnectWithin(c, st); err != nil {
		return
	}
	if c.Session == nil {
		err = fmt.Errorf("no session after the new connection")
		return
	}
	skip = len(st.snapshotWrites())
	if at := c10Wrote(st, "enable"); wantEnable && at == 0 {
		err = fmt.Errorf("the client is configured with stream management and the server offers it, but the client did not ask for it (<enable/>) on this connection")
	} else if !wantEnable && at != 0 {
		err = fmt.Errorf("unexpected <enable/> on the new connection")
	} else if wantEnable {
		skip = at
	}
	go xmpp.VerifRecv(c, make(chan struct{}))
	return
}

const c10Mechanisms = "<mechanisms xmlns='urn:ietf:params:xml:ns:xmpp-sasl'><mechanism>PLAIN</mechanism></mechanisms>"

// up to the features after authentication
const c10Authenticated = clientHeader + "<stream:features>" + c10Mechanisms + "</stream:features>" +
	"<success xmlns='urn:ietf:params:xml:ns:xmpp-sasl'/>" + clientHeader +
	"<stream:features><bind xmlns='urn:ietf:params:xml:ns:xmpp-bind'/><sm xmlns='urn:xmpp:sm:3'/></stream:features>"

// c10FailedAttempt: a connection attempt that fails because the connection is cut at the given point. It must fail.
func c10FailedAttempt(c *xmpp.Client, mode string, secure bool) (st *stubTransport, err error) {
	switch mode {
	case "tls": // STARTTLS offered (the client insists on TLS), cut while <proceed/> is awaited
		st = c10Rebind(c, clientHeader+"<stream:features><starttls xmlns='urn:ietf:params:xml:ns:xmpp-tls'><required/></starttls>"+c10Mechanisms+"</stream:features>", false, false)
		st.doesTLS = true
	case "resumed": // authenticated; cut while the answer to <resume/> is awaited
		st = c10Rebind(c, c10Authenticated, secure, false)
	default: // "features": the server's stream header, then nothing
		st = c10Rebind(c, clientHeader, secure, false)
	}
	if e := c10ConnectWithin(c, st); e == nil {
		err = fmt.Errorf("a connection cut during the negotiation (%s) gave an established session", mode)
	}
	return
}

// c10Resume: a connection attempt on which the server resumes the session the client asks for.
func c10Resume(c *xmpp.Client, secure bool) (st *stubTransport, err error) {
	st = c10Rebind(c, c10Authenticated+"<resumed xmlns='urn:xmpp:sm:3' previd='sm' h='0'/>", secure, true)
	err = c10ConnectWithin(c, st)
	if c10Wrote(st, "resume") == 0 {
		err = fmt.Errorf("the client did not ask to resume the session on which its stanzas are held (%v)", err)
	}
	if err == nil {
		go xmpp.VerifRecv(c, make(chan struct{}))
	}
	return
}

// application-defined packet types: the library's Packet interface is open (Name() string), what they are on the
// stream is what they marshal to
type c10AppMessage struct {
	XMLName xml.Name `xml:"message"`
	To      string   `xml:"to,attr"`
	Id      string   `xml:"id,attr"`
	Body    string   `xml:"body"`
}

func (c10AppMessage) Name() string { return "app-message" }

type c10AppPresence struct {
	XMLName xml.Name `xml:"jabber:client presence"`
	Id      string   `xml:"id,attr"`
	Status  string   `xml:"status"`
}

func (c10AppPresence) Name() string { return "app-presence" }

type c10AppNonza struct {
	XMLName xml.Name `xml:"urn:xmpp:csi:0 inactive"`
}

func (c10AppNonza) Name() string { return "app-nonza" }

const c10NVias = 11 // Kind 0
const c10ViaSendIQ, c10ViaRaw = 5, 10

var c10ViaNames = []string{"Message", "*Message", "Presence", "*Presence", "*IQ", "SendIQ(*IQ)", "app-message", "*app-message", "app-presence", "*app-presence", "SendRaw(bytes of Message)"}

// c10Packet: the packet of the send op at index at of its history (the index makes the ids of the iq requests distinct:
// SendIQ refuses an id that still awaits its response)
func c10Packet(o c10Op, at int) stanza.Packet {
	switch o.Kind {
	case 1:
		return stanza.SMRequest{}
	case 2:
		return stanza.SMAnswer{H: uint(o.H)}
	case 3:
		return &stanza.SMRequest{}
	case 4:
		return &stanza.SMAnswer{H: uint(o.H)}
	case 5:
		switch o.Via {
		case 1:
			return c10AppNonza{}
		case 2:
			return &c10AppNonza{}
		}
		return nil
	}
	switch o.Via {
	case 2, 3:
		p := stanza.NewPresence(stanza.Attrs{To: "peer@localhost", Id: "p"})
		p.Status = o.Body
		if o.Via == 3 {
			return &p
		}
		return p
	case 4, 5:
		iq, err := stanza.NewIQ(stanza.Attrs{Type: stanza.IQTypeGet, To: "peer@localhost", Id: fmt.Sprintf("q%d", at)})
		if err != nil {
			panic(err)
		}
		iq.Payload = &stanza.Version{Name: o.Body}
		return iq
	case 6:
		return c10AppMessage{To: "peer@localhost", Id: "am", Body: o.Body}
	case 7:
		return &c10AppMessage{To: "peer@localhost", Id: "am", Body: o.Body}
	case 8:
		return c10AppPresence{Id: "ap", Status: o.Body}
	case 9:
		return &c10AppPresence{Id: "ap", Status: o.Body}
	}
	m := stanza.NewMessage(stanza.Attrs{To: "peer@localhost", Id: "m"})
	m.Body = o.Body
	if o.Via == 1 {
		return &m
	}
	return m
}

// c10Deliver: hand the packet of a send op to the sender the way the op says
func c10Deliver(s xmpp.Sender, o c10Op, at int, ctx context.Context) {
	p := c10Packet(o, at)
	switch {
	case o.Kind == 0 && o.Via == c10ViaSendIQ:
		s.SendIQ(ctx, p.(*stanza.IQ))
	case o.Kind == 0 && o.Via == c10ViaRaw:
		data, _ := xml.Marshal(p)
		s.SendRaw(string(data))
	default:
		s.Send(p)
	}
}

// c10SendKind: what a Send op hands over (0 stanza, 1 acknowledgement request, 2 acknowledgement answer, 5 nothing the
// server counts), value or pointer alike.
func c10SendKind(o c10Op) int {
	switch o.Kind {
	case 1, 3:
		return 1
	case 2, 4:
		return 2
	case 5:
		return 5
	}
	return 0
}

// c10IsStanza: the harness's own reading (canon.go) of "what the server counts": the first element of the string is a
// message, presence or iq of the stream's namespace (jabber:client, or no namespace of its own).
func c10IsStanza(body string) bool {
	ns, err := parseCanon([]byte(body))
	if err != nil || len(ns) == 0 {
		return false
	}
	n := ns[0].Name
	if n.Space != "" && n.Space != "jabber:client" {
		return false
	}
	return n.Local == "message" || n.Local == "presence" || n.Local == "iq"
}

// raw strings that are not stanzas (written, never held or numbered) and further spellings of stanzas
var c10RawOther = []string{" ", "\n", "", "<inactive xmlns='urn:xmpp:csi:0'/>", "<active xmlns='urn:xmpp:csi:0'/>", "<message xmlns='jabber:server' id='f'/>", "<x:message xmlns:x='urn:foreign' id='f'/>", "<enable xmlns='urn:xmpp:sm:3'/>", "<ping xmlns='urn:xmpp:ping'/>"}
var c10RawStanza = []string{"<presence/>", "<iq type='get' id='q'/>", "<message xmlns='jabber:client' id='c'/>", " \n<message id='lead'/>", "<presence type='unavailable'><status>bye</status></presence>",
	"<message id='t1'/><message id='t2'/>" /* one string, one entry: the code numbers a raw string once (disclosed) */}

// c10RawKind: the harness's own reading of a raw string (canon.go): 1 = one {urn:xmpp:sm:3}r, 2 = one {urn:xmpp:sm:3}a, 0 = a stanza, 5 = anything else.
func c10RawKind(body string) int {
	if isSMRequest([]byte(body)) {
		return 1
	}
	if _, ok := smAnswerH([]byte(body)); ok {
		return 2
	}
	if c10IsStanza(body) {
		return 0
	}
	return 5
}

const c10Presence = "<presence/>"

// the two stanzas of a race scenario: A's raw string and the body of B's message
func c10RaceBodies(mode int) (a, b string) { return "<message id='ra'/>", "rb" }

// c10Canon: written and held stanzas are compared as elements (canon.go), not as bytes: how the library spells a
// stanza is not part of C10 (that every send writes exactly its serialisation is C08's clause).
func c10Canon(s string) string { return canonOrRaw(s) }

// observe: (writes since last op as witems, queue). Writes the transport refused are not on the wire. Concurrent
// pushes are observed as one step: the writes in the order the transport received them, the queue afterwards.
func (c10) Run(inp interface{}) Sx {
	in := inp.(c10In)
	secure := in.secure()
	c, st, router, seen, err := c10Client(in.Connect, in.Resume, in.NoID, secure)
	feeds := []chan []byte{st.feed}
	closeFeeds := func() {
		if c.Session == nil {
			// a connection attempt that failed leaves the client without session object; the receive loops
			// that end now read it (DESIGN 10.6)
			xmpp.VerifSetSession(c, xmpp.SMState{})
		}
		for _, f := range feeds {
			close(f)
		}
	}
	if err != nil {
		closeFeeds()
		return L(SBytes("setup-failed"), SBytes(err.Error()))
	}
	// the harness's own account of what the client must be doing (for the scripts of later connections only): it is
	// configured with stream management, so it asks for it on every connection, after trying to resume the session it has an id of
	// (only a session that has an id: without one there is nothing to resume with and the client binds at once)
	const holding = true
	hadID := !in.NoID
	live := true // a connection with a running receive loop
	var steps []Sx
	// stop: the history cannot go on (the observations so far are kept and judged)
	stop := func(msg string) Sx {
		closeFeeds()
		return LS(append(steps, L(SBytes("stopped"), SBytes(msg))))
	}
	// the receive loop of the current connection takes that connection's decoder when it starts: make sure it has
	// (it answers a request of the server) before the transport is handed to the next connection
	settle := func() bool {
		if !live {
			return true
		}
		before := len(st.snapshotWrites())
		st.feed <- []byte("<r xmlns='urn:xmpp:sm:3'/>")
		for k := 0; k < 40000 && len(st.snapshotWrites()) == before; k++ {
			time.Sleep(50 * time.Microsecond)
		}
		return len(st.snapshotWrites()) != before
	}
	snapshot := func() Sx {
		ws := st.snapshotWrites()
		var wx []Sx
		for _, w := range ws[seen:] {
			if w.Failed {
				continue
			}
			if isSMRequest([]byte(w.Data)) {
				wx = append(wx, L(Z(1)))
			} else {
				wx = append(wx, L(Z(0), SBytes(c10Canon(w.Data))))
			}
		}
		seen = len(ws)
		var qx []Sx
		if c.Session == nil {
			// no session object: nothing is held any more
		} else if q := c.Session.SMState.UnAckQueue; q != nil { // nil: a session on which stream management was not enabled holds nothing
			q.RLock()
			for _, e := range q.Uslice {
				qx = append(qx, L(Zi(e.Id), SBytes(c10Canon(e.Stz))))
			}
			q.RUnlock()
		}
		return L(LS(wx), LS(qx))
	}
	if in.Connect {
		steps = append(steps, snapshot()) // what Connect wrote after <enable/>, and what is held
	}
	if in.Concurrent > 0 {
		var wg sync.WaitGroup
		for g := 0; g < in.Concurrent; g++ {
			wg.Add(1)
			go func(g int) {
				defer wg.Done()
				for k := 0; k < 8; k++ {
					if k%2 == 0 {
						c.SendRaw(fmt.Sprintf("<message id='g%d-%d'/>", g, k))
					} else {
						m := stanza.NewMessage(stanza.Attrs{Id: fmt.Sprintf("g%d-%d", g, k)})
						if k%4 == 3 {
							c.Send(&m) // the same stanza by pointer
						} else {
							c.Send(m)
						}
					}
				}
			}(g)
		}
		wg.Wait()
		steps = append(steps, snapshot())
	}
	if in.Race > 0 {
		bodyA, bodyB := c10RaceBodies(in.Race)
		sendA := func() { c.SendRaw(bodyA) }
		sendB := func() { c.Send(c10Packet(c10Op{Body: bodyB}, 0)) }
		if in.Race == 2 {
			sendA, sendB = func() { c.Send(c10Packet(c10Op{Body: bodyB, Via: 1}, 0)) }, func() { c.SendRaw(bodyA) } // the message by pointer
		}
		gate := make(chan struct{})
		st.mu.Lock()
		st.blockAt = map[int]chan struct{}{st.nwrites + 1: gate} // the next write stalls: it is A's
		st.mu.Unlock()
		doneA, doneB := make(chan struct{}), make(chan struct{})
		go func() { defer close(doneA); sendA() }()
		for k := 0; k < 40000; k++ { // until A is inside its write (it has its sequence number)
			st.mu.Lock()
			inside := len(st.blockAt) == 0
			st.mu.Unlock()
			if inside {
				break
			}
			time.Sleep(50 * time.Microsecond)
		}
		go func() { defer close(doneB); sendB() }()
		select { // B either completes while A is stalled, or has to wait for A
		case <-doneB:
			hist("race:second-sender-overtook")
		case <-time.After(30 * time.Millisecond):
			hist("race:second-sender-waited")
		}
		close(gate)
		for _, d := range []chan struct{}{doneA, doneB} {
			select {
			case <-d:
			case <-time.After(3 * time.Second):
				closeFeeds()
				return L(SBytes("senders-deadlocked"))
			}
		}
		steps = append(steps, snapshot())
	}
	// sends made by a route handler through the Sender the router hands it: the handler of <message/> does what the
	// harness asks for (the inbound message is handed to Router.route directly, as the acknowledgements are)
	var inHandler func(s xmpp.Sender)
	router.HandleFunc("message", func(s xmpp.Sender, p stanza.Packet) {
		if inHandler != nil {
			inHandler(s)
		}
	})
	forwarded := func(call func(s xmpp.Sender)) {
		inHandler = call
		xmpp.VerifRoute(router, c, stanza.NewMessage(stanza.Attrs{From: "peer@localhost", Id: "in"}))
		inHandler = nil
	}
	iqCtx, iqCancel := context.WithCancel(context.Background())
	defer iqCancel() // the iq requests of SendIQ are never answered: their routes go when the history ends
	for oi, o := range in.Ops {
		if o.Fail && (o.Op == "send" || o.Op == "raw") {
			st.mu.Lock()
			st.writeFailAt[st.nwrites+1] = true
			st.mu.Unlock()
		}
		switch o.Op {
		case "send":
			if o.Fwd {
				forwarded(func(s xmpp.Sender) { c10Deliver(s, o, oi, iqCtx) })
			} else {
				c10Deliver(c, o, oi, iqCtx)
			}
		case "raw":
			if o.Fwd {
				forwarded(func(s xmpp.Sender) { s.SendRaw(o.Body) })
			} else {
				c.SendRaw(o.Body)
			}
		case "ack":
			h := uint(o.H)
			if o.Big {
				h += 1 << 63
			}
			if c.Session == nil {
				return stop("an acknowledgement arrives and the client has no session object (Router.route reads it)")
			}
			armed := 0
			if o.FailAt > 0 {
				st.mu.Lock()
				armed = st.nwrites + o.FailAt
				st.writeFailAt[armed] = true
				st.mu.Unlock()
			}
			xmpp.VerifRoute(router, c, stanza.SMAnswer{H: h})
			if armed > 0 {
				st.mu.Lock()
				delete(st.writeFailAt, armed) // not reached: the retransmission had fewer writes
				st.mu.Unlock()
			}
		case "attempt":
			if !settle() {
				return stop("the receive loop does not answer")
			}
			st2, err := c10FailedAttempt(c, o.Mode, secure)
			if err != nil {
				return stop(err.Error())
			}
			st, seen, live = st2, len(st2.snapshotWrites()), false
		case "resume":
			if !settle() {
				return stop("the receive loop does not answer")
			}
			st2, err := c10Resume(c, secure)
			if st2.feed != nil {
				feeds = append(feeds, st2.feed)
			}
			if err != nil {
				return stop("resumption: " + err.Error())
			}
			st, seen, live = st2, len(st2.snapshotWrites()), true
		case "session":
			if !settle() {
				return stop("the receive loop does not answer")
			}
			st2, skip, err := c10NewSession(c, hadID, holding, o.Resume, o.NoID, secure)
			if st2.feed != nil {
				feeds = append(feeds, st2.feed)
			}
			if err != nil {
				return stop("new connection: " + err.Error())
			}
			hadID = !o.NoID
			st, seen, live = st2, skip, true
		case "peer_r":
			// the server asks for an acknowledgement: Client.recv writes <a/> through Client.Send
			before := len(st.snapshotWrites())
			st.feed <- []byte("<r xmlns='urn:xmpp:sm:3'/>")
			for k := 0; k < 4000 && len(st.snapshotWrites()) == before; k++ {
				time.Sleep(50 * time.Microsecond)
			}
			time.Sleep(200 * time.Microsecond)
		}
		steps = append(steps, snapshot())
	}
	if len(in.Stall) > 0 {
		gate := make(chan struct{})
		st.mu.Lock()
		if st.blockAt == nil {
			st.blockAt = map[int]chan struct{}{}
		}
		st.blockAt[st.nwrites+1] = gate // the first re-sent stanza stalls
		st.mu.Unlock()
		var wg sync.WaitGroup
		wg.Add(1)
		go func() { defer wg.Done(); xmpp.VerifRoute(router, c, stanza.SMAnswer{H: 0}) }()
		time.Sleep(2 * time.Millisecond) // now inside SendMissingStz, holding the queue lock, blocked in Write
		for _, h := range in.Stall {
			wg.Add(1)
			go func(h int) { defer wg.Done(); xmpp.VerifRoute(router, c, stanza.SMAnswer{H: uint(h)}) }(h)
		}
		time.Sleep(2 * time.Millisecond) // all parked on the lock
		close(gate)
		done := make(chan struct{})
		go func() { wg.Wait(); close(done) }()
		select {
		case <-done:
		case <-time.After(3 * time.Second):
			closeFeeds()
			return L(SBytes("acks-deadlocked"))
		}
		fin := snapshot()
		steps = append(steps, L(L(), fin.L[1])) // the order of the writes depends on the schedule: only what is held is compared
	}
	closeFeeds()
	return LS(steps)
}

// Input: for concurrent cases the pushes are given to the model in the order the
// implementation queued them (read back from that step's observation), as raw sends.
func (p c10) Input(inp interface{}) Sx { return p.InputObs(inp, L()) }

func (p c10) InputObs(inp interface{}, obs Sx) Sx {
	in := inp.(c10In)
	var ops []Sx
	const holding = true
	at := 0 // index of the next observed step
	if in.Connect {
		// the <enabled/> of the negotiation, then the initial presence of Connect: an ordinary stanza sent on the
		// session (both observed as one step: what Connect wrote after <enable/>)
		ops = append(ops, L(Z(10), LS([]Sx{L(Z(5), Z(c10B(c10Granted(in.Resume)))), L(Z(1), Z(0), SBytes(c10Canon(c10Presence)))})))
		at = 1
	}
	if in.Concurrent > 0 || in.Race > 0 {
		var ds []Sx
		if len(obs.L) > at && len(obs.L[at].L) == 2 {
			if holding {
				for _, e := range obs.L[at].L[1].L {
					if len(e.L) == 2 {
						ds = append(ds, e.L[1])
					}
				}
			} else { // nothing is held: the order is that of the writes
				for _, w := range obs.L[at].L[0].L {
					if len(w.L) == 2 {
						ds = append(ds, w.L[1])
					}
				}
			}
		}
		ops = append(ops, L(Z(9), LS(ds)))
	}
	closed := false // between a failed attempt and the next established session every write is refused
	for oi, o := range in.Ops {
		switch o.Op {
		case "attempt":
			ops = append(ops, L(Z(11)))
			closed = true
		case "resume":
			ops = append(ops, L(Z(12)))
			closed = false
		case "send":
			// the Go type through which the packet arrives (Via) and who makes the call (Fwd) are not the model's business:
			// it gets the element
			data, _ := xml.Marshal(c10Packet(o, oi))
			if o.Fail {
				ops = append(ops, L(Z(4), Zi(o.Kind), SBytes(c10Canon(string(data)))))
			} else if o.Kind == 0 && o.Via == c10ViaRaw {
				ops = append(ops, L(Z(1), Z(0), SBytes(c10Canon(string(data)))))
			} else {
				ops = append(ops, L(Z(0), Zi(o.Kind), SBytes(c10Canon(string(data)))))
			}
		case "raw":
			if o.Fail {
				ops = append(ops, L(Z(4), Zi(c10RawKind(o.Body)), SBytes(c10Canon(o.Body))))
			} else {
				ops = append(ops, L(Z(1), Zi(c10RawKind(o.Body)), SBytes(c10Canon(o.Body))))
			}
		case "ack":
			if closed {
				o.FailAt = 1
			}
			switch {
			case o.FailAt > 0 && o.Big:
				ops = append(ops, L(Z(7), Zi(o.H), Zi(o.FailAt-1)))
			case o.FailAt > 0:
				ops = append(ops, L(Z(6), Zi(o.H), Zi(o.FailAt-1)))
			case o.Big:
				ops = append(ops, L(Z(3), Zi(o.H)))
			default:
				ops = append(ops, L(Z(2), Zi(o.H)))
			}
		case "session":
			ops = append(ops, L(Z(5), Z(c10B(c10Granted(o.Resume)))))
			closed = false
		case "peer_r":
			// no stanza is ever received in these histories: the answer reports h=0
			ops = append(ops, L(Z(0), Z(2), SBytes(c10Canon(`<a xmlns="urn:xmpp:sm:3" h="0"></a>`))))
		}
	}
	if len(in.Stall) > 0 {
		acks := []Sx{L(Z(2), Z(0))}
		for _, h := range in.Stall {
			acks = append(acks, L(Z(2), Zi(h)))
		}
		ops = append(ops, L(Z(8), LS(acks)))
	}
	return LS(ops)
}

// c10Simultaneous: the step of several senders at once. Every expected stanza is held exactly once, numbered from
// base+1 in steps of one, and - the server counts the stanzas in the order in which they arrive - the order of the
// sequence numbers is the order of the writes. Returns the payloads in that order.
func c10Simultaneous(step Sx, want map[string]int, base int, what string) (sent []string, msg, sig string) {
	if len(step.L) != 2 {
		return nil, what + ": no observation", "shape"
	}
	ws, qx := step.L[0].L, step.L[1].L
	total := 0
	for _, v := range want {
		total += v
	}
	if len(qx) != total {
		return nil, fmt.Sprintf("%s: %d stanzas sent, %d held", what, total, len(qx)), "concurrent-lost"
	}
	for i, e := range qx {
		if e.L[0].Z != int64(base+i+1) {
			return nil, fmt.Sprintf("%s: entry %d has sequence number %d", what, i, e.L[0].Z), "concurrent-ids"
		}
		s := string(bytesOf(e.L[1]))
		if _, ok := want[s]; !ok {
			return nil, what + ": unknown entry held: " + s, "concurrent-unknown"
		}
		want[s]--
		sent = append(sent, s)
	}
	for k, v := range want {
		if v != 0 {
			return nil, what + ": stanza " + k + " held " + fmt.Sprint(1-v) + " times", "concurrent-dup"
		}
	}
	if len(ws) != len(sent) {
		return nil, fmt.Sprintf("%s: %d stanzas sent, %d writes", what, len(sent), len(ws)), "concurrent-wire-count"
	}
	for i, w := range ws {
		if len(w.L) != 2 || string(bytesOf(w.L[1])) != sent[i] {
			return nil, fmt.Sprintf("%s: the stanza written at position %d of the stream is not the one holding sequence number %d: an acknowledgement of %d stanzas, which the server counts as they arrive, discards another stanza than the server has handled", what, i+1, base+i+1, i+1), "concurrent-wire-order"
		}
	}
	return sent, "", ""
}

// Oracle: independent Go reading of the property on the observation.
func (c10) Oracle(inp interface{}, obs Sx) (string, string) {
	in := inp.(c10In)
	steps := obs.L
	if len(steps) > 0 && steps[0].K == "s" {
		if len(steps) == 2 && steps[1].K == "s" {
			return "scenario did not run: " + string(bytesOf(steps[1])), "setup-" + string(bytesOf(steps[0]))
		}
		return "scenario did not run: " + obs.String(), "setup-" + string(bytesOf(steps[0]))
	}
	var sent []string // absolute
	acked := 0
	idx := 0
	// ungranted: some <enabled/> so far did not grant resumption. Stream management is active all the same and every
	// stanza must be held; a client that stopped holding at that point is reported under its own signature.
	ungranted := in.Connect && !c10Granted(in.Resume)
	if in.Connect {
		// Connect wrote the initial presence after stream management was enabled: stanza number 1 of the session
		if len(steps) == 0 || len(steps[0].L) != 2 {
			return "no observation", "shape"
		}
		ws, qx := steps[0].L[0].L, steps[0].L[1].L
		pres := c10Canon(c10Presence)
		if len(ws) != 1 || len(ws[0].L) != 2 || string(bytesOf(ws[0].L[1])) != pres {
			return "Connect: expected exactly the initial presence on the wire after <enable/>: " + steps[0].String(), "connect-wire"
		}
		sent = append(sent, pres)
		if len(qx) == 0 && ungranted {
			return fmt.Sprintf("Connect: stream management is enabled on the session (<enabled resume=%q/>: only resumption is not granted), the initial presence was sent on it and is not acknowledged, but nothing is held", in.Resume), "held-unresumable-connect"
		}
		if len(qx) != 1 {
			return fmt.Sprintf("Connect: 1 stanza sent on the session (the initial presence, after stream management was enabled), 0 acknowledged, but %d held", len(qx)), "held-count-connect"
		}
		if string(bytesOf(qx[0].L[1])) != pres || qx[0].L[0].Z != 1 {
			return "Connect: the held entry is not the initial presence under sequence number 1", "held-content-connect"
		}
		idx = 1
	}
	if in.Concurrent > 0 {
		want := map[string]int{}
		for g := 0; g < in.Concurrent; g++ {
			for k := 0; k < 8; k++ {
				if k%2 == 0 {
					want[c10Canon(fmt.Sprintf("<message id='g%d-%d'/>", g, k))]++
				} else {
					data, _ := xml.Marshal(stanza.NewMessage(stanza.Attrs{Id: fmt.Sprintf("g%d-%d", g, k)}))
					want[c10Canon(string(data))]++
				}
			}
		}
		if idx >= len(steps) {
			return "no observation", "shape"
		}
		got, msg, sig := c10Simultaneous(steps[idx], want, len(sent), "concurrent senders")
		if msg != "" {
			return msg, sig
		}
		sent = append(sent, got...)
		idx++
	}
	if in.Race > 0 {
		bodyA, bodyB := c10RaceBodies(in.Race)
		data, _ := xml.Marshal(c10Packet(c10Op{Body: bodyB}, 0))
		want := map[string]int{c10Canon(bodyA): 1, c10Canon(string(data)): 1}
		if idx >= len(steps) {
			return "no observation", "shape"
		}
		got, msg, sig := c10Simultaneous(steps[idx], want, len(sent), "two senders, the first stalled by the transport after taking its sequence number")
		if msg != "" {
			return msg, sig
		}
		sent = append(sent, got...)
		idx++
	}
	if len(in.Stall) > 0 {
		if len(steps) != idx+len(in.Ops)+1 {
			return "acknowledgements behind a stalled retransmission never finished: " + obs.String(), "stall-deadlock"
		}
	}
	closed := false // between a failed attempt and the next established session the client writes nothing
	for oi, o := range in.Ops {
		if idx+oi >= len(steps) {
			return "missing observation", "shape"
		}
		if st := steps[idx+oi]; len(st.L) == 2 && st.L[0].K == "s" {
			what := o.Op
			if o.Op == "attempt" {
				what += "-" + o.Mode
			}
			return fmt.Sprintf("op %d (%s): the history stops here: %s", oi, what, string(bytesOf(st.L[1]))), "stopped-" + what
		}
		ws, qx := steps[idx+oi].L[0].L, steps[idx+oi].L[1].L
		var wantWire []string // "\x00R" = <r/>
		what := o.Op
		switch o.Op {
		case "attempt":
			// the attempt fails; the session is still alive on the server: everything held stays held
			what = "attempt-" + o.Mode
			closed = true
		case "resume":
			// the session goes on: same stanzas, same numbers; nothing is written by the resumption itself
			closed = false
		case "send":
			data, _ := xml.Marshal(c10Packet(o, oi))
			k := c10SendKind(o)
			what = fmt.Sprintf("send%d", o.Kind)
			if o.Via != 0 {
				what += fmt.Sprintf("-via%d", o.Via)
			}
			if o.Fwd {
				what += "-in-handler"
			}
			if o.Fail {
				what += "-refused"
				break // nothing on the wire, nothing sent on the session
			}
			if k == 0 {
				sent = append(sent, c10Canon(string(data)))
			}
			if k == 1 {
				wantWire = []string{"\x00R"}
			} else {
				wantWire = []string{c10Canon(string(data))}
			}
		case "raw":
			k := c10RawKind(o.Body)
			if k != 0 {
				what = fmt.Sprintf("raw-sm%d", k)
			}
			if o.Fwd {
				what += "-in-handler"
			}
			if o.Fail {
				what += "-refused"
				break
			}
			if k == 0 {
				sent = append(sent, c10Canon(o.Body))
			}
			if k == 1 {
				wantWire = []string{"\x00R"}
			} else {
				wantWire = []string{c10Canon(o.Body)}
			}
		case "peer_r":
			wantWire = []string{c10Canon(`<a xmlns="urn:xmpp:sm:3" h="0"></a>`)}
		case "ack":
			h := o.H
			if o.Big {
				what = "ack-big"
			}
			if o.Big || h > len(sent) {
				h = len(sent)
			}
			if h > acked {
				acked = h
			}
			if acked < len(sent) {
				wantWire = append(wantWire, sent[acked:]...)
				wantWire = append(wantWire, "\x00R")
			}
			if o.FailAt > 0 {
				// the retransmission stops at the write the transport refuses; what was not written stays held
				what += "-cut"
				if o.FailAt-1 < len(wantWire) {
					wantWire = wantWire[:o.FailAt-1]
				}
			}
			if closed {
				what += "-while-reconnecting"
				wantWire = nil
			}
		case "session":
			// a new session: nothing of the old one is held on it, numbering starts again
			closed = false
			sent, acked = nil, 0
			ungranted = ungranted || !c10Granted(o.Resume)
		}
		// held = sent[acked:], numbered acked+1...
		if ungranted && (o.Op == "send" || o.Op == "raw") && len(qx) == 0 && len(sent)-acked > 0 {
			return fmt.Sprintf("op %d (%s): stream management is enabled on the session (an <enabled/> did not grant resumption, which is all it refuses), %d stanzas sent on it, %d acknowledged, but nothing is held", oi, what, len(sent), acked), "held-unresumable-" + what
		}
		if len(qx) != len(sent)-acked {
			return fmt.Sprintf("op %d (%s h=%d): %d stanzas sent on the session, %d acknowledged, but %d held", oi, what, o.H, len(sent), acked, len(qx)), "held-count-" + what
		}
		for i, e := range qx {
			if string(bytesOf(e.L[1])) != sent[acked+i] {
				return fmt.Sprintf("op %d (%s): held entry %d is not the stanza sent at absolute position %d", oi, what, i, acked+i+1), "held-content-" + what
			}
			if e.L[0].Z != int64(acked+i+1) {
				return fmt.Sprintf("op %d (%s): held entry %d carries sequence number %d, absolute position %d", oi, what, i, e.L[0].Z, acked+i+1), "held-number-" + what
			}
		}
		if len(ws) != len(wantWire) {
			return fmt.Sprintf("op %d (%s h=%d): %d writes, expected %d", oi, what, o.H, len(ws), len(wantWire)), "wire-count-" + what
		}
		for i, w := range ws {
			if wantWire[i] == "\x00R" {
				if w.L[0].Z != 1 {
					return fmt.Sprintf("op %d (%s): write %d should be the ack request", oi, what, i), "wire-req-" + what
				}
			} else if w.L[0].Z != 0 || string(bytesOf(w.L[1])) != wantWire[i] {
				return fmt.Sprintf("op %d (%s): write %d is not the expected stanza", oi, what, i), "wire-content-" + what
			}
		}
	}
	if len(in.Stall) > 0 {
		max := 0
		for _, h := range in.Stall {
			if h > max {
				max = h
			}
		}
		if max > len(sent) {
			max = len(sent)
		}
		qx := steps[len(steps)-1].L[1].L
		if len(qx) != len(sent)-max {
			return fmt.Sprintf("acknowledgements %v arrived while a retransmission was stalled: highest h is %d of %d stanzas sent, but %d are held", in.Stall, max, len(sent), len(qx)), "stall-held-count"
		}
		for i, e := range qx {
			if string(bytesOf(e.L[1])) != sent[max+i] || e.L[0].Z != int64(max+i+1) {
				return fmt.Sprintf("acknowledgements %v behind a stalled retransmission: held entry %d is not stanza number %d", in.Stall, i, max+i+1), "stall-held-content"
			}
		}
	}
	return "", ""
}

func (c10) Key(inp interface{}) (string, bool) {
	in := inp.(c10In)
	var b strings.Builder
	fmt.Fprintf(&b, "c%d r%d k%v%s%v st%v:", in.Concurrent, in.Race, in.Connect, in.Resume, in.NoID, in.Stall)
	lastNoID := in.NoID
	ungranted := in.Connect && !c10Granted(in.Resume)
	if in.Connect {
		hist(fmt.Sprintf("session:Connect resume=%q granted=%v", in.Resume, !ungranted))
	}
	if len(in.Stall) > 0 {
		hist("stalled-retransmission")
	}
	if in.Connect {
		hist("session:Connect")
	}
	if in.Race > 0 {
		hist("two-senders-first-stalled")
	}
	sent, acked, nt := in.Concurrent*8, 0, false
	if in.Connect {
		sent++
	}
	if in.Race > 0 {
		sent += 2
	}
	for _, o := range in.Ops {
		switch o.Op {
		case "send":
			b.WriteString("s" + fmt.Sprint(o.Kind))
			if o.Via != 0 {
				b.WriteString("v" + fmt.Sprint(o.Via))
			}
			if o.Fwd {
				b.WriteString("h")
				hist("op:send-in-handler")
			}
			if o.Kind == 0 {
				hist("send0-via:" + c10ViaNames[o.Via])
			} else if o.Kind == 5 {
				hist(fmt.Sprintf("send5-via:%d", o.Via))
			}
			if o.Fail {
				b.WriteString("!")
				hist(fmt.Sprintf("op:send%d-refused", o.Kind))
				break
			}
			if o.Kind == 0 {
				sent++
			}
			hist(fmt.Sprintf("op:send%d", o.Kind))
			if o.Kind == 0 && ungranted {
				hist("op:send0-after-ungranted-enabled")
			}
		case "raw":
			k := c10RawKind(o.Body)
			b.WriteString("w" + fmt.Sprint(k))
			if o.Fwd {
				b.WriteString("h")
				hist("op:raw-in-handler")
			}
			if o.Fail {
				b.WriteString("!")
				hist(fmt.Sprintf("op:raw%d-refused", k))
				break
			}
			if k == 0 {
				sent++
			}
			hist(fmt.Sprintf("op:raw%d", k))
		case "peer_r":
			b.WriteString("p")
			hist("op:peer_r")
		case "attempt":
			b.WriteString("F" + o.Mode[:1])
			hist(fmt.Sprintf("op:attempt-%s held=%v", o.Mode, sent > acked))
		case "resume":
			b.WriteString("R")
			hist("op:resume")
		case "session":
			g := c10Granted(o.Resume)
			ungranted = ungranted || !g
			sent, acked = 0, 0
			fmt.Fprintf(&b, "S%v%v", g, o.NoID)
			hist(fmt.Sprintf("op:session granted=%v after-session-with-id=%v", g, !lastNoID))
			lastNoID = o.NoID
		case "ack":
			cls := "<"
			switch {
			case o.Big:
				cls = ">>"
			case o.H < acked:
				cls = "stale"
			case o.H == sent:
				cls = "="
			case o.H > sent:
				cls = ">"
			}
			if sent > acked {
				nt = true
			}
			if o.Big {
				acked = sent
			} else if o.H > acked {
				acked = o.H
				if acked > sent {
					acked = sent
				}
			}
			b.WriteString("a" + cls)
			hist("op:ack" + cls)
			if o.FailAt > 0 {
				held := sent - acked
				switch {
				case held == 0:
					hist("op:ack-cut:nothing-held")
				case o.FailAt <= held:
					b.WriteString("!")
					hist("op:ack-cut:in-retransmission")
				case o.FailAt == held+1:
					b.WriteString("!r")
					hist("op:ack-cut:request")
				default:
					hist("op:ack-cut:beyond")
				}
			}
		}
	}
	return b.String(), nt
}
