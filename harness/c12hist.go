package main

// C12, second family: HISTORIES OF CONNECTIONS OF ONE Client OBJECT. The first family (c12.go, recv.go) runs one
// receive loop per Client; what belongs to a connection but is kept in the Client (the keepalive quit channel and
// whatever closes it, the receiver, the readers started by a failed attempt) only shows when the same object is
// connected again. Here one Client is connected (Connect), the server cuts the connection at a byte offset of the
// inbound stream, the same Client is connected again (Resume or Connect) and cut again, 2-4 rounds, some of the later
// rounds being cut DURING the negotiation (no session: nothing to report, but nothing may be left behind either).
// After each round, after quiescence: error callbacks and Disconnected events of THIS round, the stanzas routed in
// THIS round, and the goroutines of the library by stack inspection (keepalive, Client.recv, any other).
// Model: Model/RecvHist.v (every connection has its own quit channel, closed at its own end), Corr/RunC12.v.

import (
	"encoding/json"
	"encoding/xml"
	"fmt"
	"math/rand"
	"net"
	"runtime"
	"sort"
	"strings"
	"sync"
	"time"

	xmpp "gosrc.io/xmpp"
	"gosrc.io/xmpp/stanza"
)

type c12Round struct {
	Via    string  `json:"via"`              // "connect" | "resume"
	SM     bool    `json:"sm,omitempty"`     // the server offers stream management on this connection (and confirms enable / resume)
	NegCut int     `json:"negcut,omitempty"` // 0: the negotiation completes; k: the server closes the connection after its k-th answer of the negotiation (1 features, 2 <success/>, 3 second features)
	Items  []rItem `json:"items"`
	Cut    int     `json:"cut"` // byte offset at which the inbound stream of this connection is cut (-1: behind everything)
}

type c12HistIn struct {
	Rounds []c12Round `json:"rounds"`
}

func (rd c12Round) asRecv() recvIn { return recvIn{Items: rd.Items, Cut: rd.Cut} }

type c12Case struct {
	Recv *recvIn    `json:"recv,omitempty"`
	Hist *c12HistIn `json:"hist,omitempty"`
}

// c12Prop: composite of the receive-loop cases (recvProp) and the connection histories.
type c12Prop struct{ r recvProp }

func (p c12Prop) ID() string    { return "C12" }
func (p c12Prop) RunFn() string { return "run_C12" }
func (p c12Prop) Workers() int  { return 1 } // goroutines of the whole process are inspected
func (p c12Prop) Journal() bool { return true }
func (p c12Prop) Rule() string {
	return p.r.rule + "; PLUS histories of 2-4 connections of ONE Client object (Connect, then Resume or Connect again) against a scripted TCP server, each connection cut by the server at a byte offset of its inbound stream (between stanzas, inside a tag, inside text), with and without stream management (enabled, then resumed), later rounds also cut during the negotiation (after the features, after <success/>, after the second features): per round, after quiescence, the error callbacks and Disconnected events of that round are counted, the stanzas routed in that round listed, and the goroutines of the library inspected by stack (keepalive, Client.recv, others) - the quit channel of every connection is its own and is closed at that connection's end (Model/RecvHist.v, C12_every_connection_stops_its_keepalive)"
}
func (p c12Prop) Gen(r *rand.Rand, tier string) []interface{} {
	var out []interface{}
	for _, x := range p.r.Gen(r, tier) {
		v := x.(recvIn)
		out = append(out, c12Case{Recv: &v})
	}
	for _, h := range genC12Hist(r, tier) {
		h := h
		out = append(out, c12Case{Hist: &h})
	}
	return out
}
func (p c12Prop) Decode(raw json.RawMessage) (interface{}, error) {
	var c c12Case
	if err := json.Unmarshal(raw, &c); err != nil {
		return nil, err
	}
	if c.Hist != nil {
		for i := range c.Hist.Rounds {
			for k := range c.Hist.Rounds[i].Items {
				if c.Hist.Rounds[i].Items[k].XML == "" {
					c.Hist.Rounds[i].Items[k].render()
				}
			}
		}
		return c, nil
	}
	if c.Recv == nil { // replay files of the first family written before the composite: a bare recvIn
		v, err := p.r.Decode(raw)
		if err != nil {
			return nil, err
		}
		in := v.(recvIn)
		return c12Case{Recv: &in}, nil
	}
	raw2, _ := json.Marshal(c.Recv)
	v, err := p.r.Decode(raw2)
	if err != nil {
		return nil, err
	}
	in := v.(recvIn)
	return c12Case{Recv: &in}, nil
}
func (p c12Prop) Run(in interface{}) Sx {
	c := in.(c12Case)
	if c.Hist != nil {
		return runC12Hist(*c.Hist)
	}
	return p.r.Run(*c.Recv)
}
func (p c12Prop) Input(in interface{}) Sx {
	c := in.(c12Case)
	if c.Hist != nil {
		return c12HistInputSx(*c.Hist)
	}
	return p.r.Input(*c.Recv)
}
func (p c12Prop) Oracle(in interface{}, obs Sx) (string, string) {
	c := in.(c12Case)
	if c.Hist != nil {
		return c12HistOracle(*c.Hist, obs)
	}
	return p.r.Oracle(*c.Recv, obs)
}
func (p c12Prop) Key(in interface{}) (string, bool) {
	c := in.(c12Case)
	if c.Hist == nil {
		return p.r.Key(*c.Recv)
	}
	k := "hist:"
	est, st := 0, 0
	for _, rd := range c.Hist.Rounds {
		k += fmt.Sprintf("%s sm%v n%d cut%d:", rd.Via[:1], rd.SM, rd.NegCut, rd.Cut)
		if rd.NegCut == 0 {
			est++
			hist("history:round-established-then-cut")
			for _, it := range rd.asRecv().completeItems() {
				k += it.T[:1]
				if it.T == "stanza" {
					st++
				}
			}
		} else {
			hist(fmt.Sprintf("history:round-cut-during-negotiation-%d", rd.NegCut))
		}
		hist("history:via-" + rd.Via)
	}
	hist(fmt.Sprintf("history:connections-of-one-client=%d", len(c.Hist.Rounds)))
	return k, est >= 2 && st >= 2
}

func genC12Hist(r *rand.Rand, tier string) []c12HistIn {
	n := 14
	if tier == "thorough" {
		n = 120
	}
	var out []c12HistIn
	for h := 0; h < n; h++ {
		nr := 2 + r.Intn(3)
		sm := h%2 == 0
		var hi c12HistIn
		for k := 0; k < nr; k++ {
			rd := c12Round{Via: "resume", SM: sm, Cut: -1}
			if k == 0 || (!sm && r.Intn(3) == 0) {
				rd.Via = "connect"
			}
			// a later round cut during its negotiation (never the last one: a connection follows it)
			if k > 0 && k < nr-1 && r.Intn(3) == 0 {
				rd.NegCut = 1 + r.Intn(3)
				hi.Rounds = append(hi.Rounds, rd)
				continue
			}
			for i := 0; i < 2+r.Intn(4); i++ {
				it := rItem{T: "stanza", Kind: r.Intn(3), ID: i + 1, Var: r.Intn(6)}
				if c := r.Intn(10); c == 0 {
					it = rItem{T: "r"}
				} else if c == 1 {
					it = rItem{T: "a", H: 0}
				}
				it.render()
				rd.Items = append(rd.Items, it)
			}
			total := len(rd.asRecv().body())
			switch r.Intn(4) {
			case 0:
				rd.Cut = -1
			case 1:
				rd.Cut = 0
			default:
				rd.Cut = r.Intn(total + 1)
			}
			hi.Rounds = append(hi.Rounds, rd)
		}
		out = append(out, hi)
	}
	return out
}

// input of the model: (12 (round ...)); round = (established (item ...)) with the items completely received
func c12HistInputSx(in c12HistIn) Sx {
	var rs []Sx
	for _, rd := range in.Rounds {
		var xs []Sx
		if rd.NegCut == 0 {
			for _, it := range rd.asRecv().completeItems() {
				xs = append(xs, it.sx())
			}
		}
		rs = append(rs, L(B(rd.NegCut == 0), LS(xs)))
	}
	return L(Z(12), LS(rs))
}

// c12Goroutines: live goroutines of the library by kind: keepalive, Client.recv, any other with a frame in the library.
func c12Goroutines() (ka, rc, other int) {
	buf := make([]byte, 1<<20)
	n := runtime.Stack(buf, true)
	for _, g := range strings.Split(string(buf[:n]), "\n\n") {
		switch {
		case strings.Contains(g, "main.c12Goroutines"):
		case strings.Contains(g, "gosrc.io/xmpp.keepalive("):
			ka++
		case strings.Contains(g, "gosrc.io/xmpp.(*Client).recv("):
			rc++
		case strings.Contains(g, "gosrc.io/xmpp.") || strings.Contains(g, "gosrc.io/xmpp/stanza."):
			if !strings.Contains(g, "main.runC12Hist") { // (the harness itself inside Connect/Resume: never at inspection time)
				other++
			}
		}
	}
	return
}

var c12LeakSeen bool // (one worker)

const c12Open = "<?xml version='1.0'?><stream:stream from='localhost' id='c12h' xmlns='jabber:client' xmlns:stream='http://etherx.jabber.org/streams' version='1.0'>"

// c12Serve plays the server side of one connection: the negotiation (cut after NegCut answers), then the inbound
// stream up to the cut; it closes the connection when told to.
func c12Serve(conn net.Conn, rd c12Round, sent chan<- bool, closeNow <-chan struct{}) {
	defer conn.Close()
	ok := false
	defer func() {
		if !ok {
			sent <- false
		}
	}()
	conn.SetDeadline(time.Now().Add(20 * time.Second))
	dec := xml.NewDecoder(conn)
	next := func() (xml.StartElement, error) { return stanza.NextStart(dec) }
	if _, err := next(); err != nil { // <stream:stream>
		return
	}
	fmt.Fprint(conn, c12Open+"<stream:features><mechanisms xmlns='urn:ietf:params:xml:ns:xmpp-sasl'><mechanism>PLAIN</mechanism></mechanisms></stream:features>")
	if rd.NegCut == 1 {
		return
	}
	if _, err := next(); err != nil { // <auth>
		return
	}
	if dec.Skip() != nil {
		return
	}
	fmt.Fprint(conn, "<success xmlns='urn:ietf:params:xml:ns:xmpp-sasl'/>")
	if rd.NegCut == 2 {
		return
	}
	if _, err := next(); err != nil { // <stream:stream> again
		return
	}
	smf := ""
	if rd.SM {
		smf = "<sm xmlns='urn:xmpp:sm:3'/>"
	}
	fmt.Fprint(conn, c12Open+"<stream:features><bind xmlns='urn:ietf:params:xml:ns:xmpp-bind'/>"+smf+"</stream:features>")
	if rd.NegCut >= 3 {
		return
	}
	for established := false; !established; {
		se, err := next()
		if err != nil {
			return
		}
		attr := func(n string) string {
			for _, a := range se.Attr {
				if a.Name.Local == n {
					return a.Value
				}
			}
			return ""
		}
		if dec.Skip() != nil {
			return
		}
		switch se.Name.Local {
		case "resume":
			fmt.Fprintf(conn, "<resumed xmlns='urn:xmpp:sm:3' previd='%s' h='0'/>", attr("previd"))
			established = true
		case "iq":
			fmt.Fprintf(conn, "<iq id='%s' type='result'><bind xmlns='urn:ietf:params:xml:ns:xmpp-bind'><jid>u@localhost/r</jid></bind></iq>", attr("id"))
			established = !rd.SM
		case "enable":
			fmt.Fprint(conn, "<enabled xmlns='urn:xmpp:sm:3' id='c12sm' resume='true'/>")
			established = true
		default:
			return
		}
	}
	// whatever the client writes from here on (initial presence, answers, held stanzas sent again) is read and dropped
	go func() {
		buf := make([]byte, 4096)
		for {
			if _, err := conn.Read(buf); err != nil {
				return
			}
		}
	}()
	if _, err := conn.Write(rd.asRecv().body()); err != nil {
		return
	}
	ok = true
	sent <- true
	<-closeNow
}

// runC12Hist: observation = one entry per round: (established, error callbacks, Disconnected events, ids of the
// stanzas routed (sorted), (keepalive, recv, other goroutines of the library left after quiescence)).
func runC12Hist(in c12HistIn) Sx {
	// nothing of an earlier case may be around
	wait0, waitQ := 5*time.Second, 4*time.Second
	if c12LeakSeen { // something was left behind earlier in this process (reported there): it is subtracted, not waited for
		wait0, waitQ = 200*time.Millisecond, 1500*time.Millisecond
	}
	for dl := time.Now().Add(wait0); time.Now().Before(dl); time.Sleep(10 * time.Millisecond) {
		if a, b, c := c12Goroutines(); a+b+c == 0 {
			break
		}
	}
	ka0, rc0, ot0 := c12Goroutines()
	ln, err := listenLoopback()
	if err != nil {
		return L(SBytes("listen-failed"))
	}
	defer ln.Close()
	rounds := make(chan c12Round, 1)
	sent := make(chan bool, 4)
	closeNow := make(chan struct{})
	go func() {
		for {
			conn, err := ln.Accept()
			if err != nil {
				return
			}
			rd, ok := <-rounds
			if !ok {
				conn.Close()
				return
			}
			c12Serve(conn, rd, sent, closeNow)
		}
	}()
	defer close(rounds)

	var mu sync.Mutex
	nerr, ndisc := 0, 0
	var routed []int
	router := xmpp.NewRouter()
	router.NewRoute().HandlerFunc(func(s xmpp.Sender, p stanza.Packet) {
		x := packetSx(p)
		if len(x.L) == 3 && x.L[0].K == "z" && x.L[0].Z == 0 {
			mu.Lock()
			routed = append(routed, c12StanzaKey(x))
			mu.Unlock()
		}
	})
	cfg := &xmpp.Config{
		TransportConfiguration: xmpp.TransportConfiguration{Address: ln.Addr().String(), Domain: "localhost"},
		Jid:                    "u@localhost", Credential: xmpp.Password("p"), Insecure: true,
		StreamManagementEnable: true, ConnectTimeout: 1,
		KeepaliveInterval: time.Hour, // never ticks: the keepalive only has to stop
	}
	client, err := xmpp.NewClient(cfg, router, func(error) { mu.Lock(); nerr++; mu.Unlock() })
	if err != nil {
		return L(SBytes("newclient-failed"))
	}
	client.SetHandler(func(e xmpp.Event) error {
		if xmpp.VerifEventState(e) == xmpp.StateDisconnected {
			mu.Lock()
			ndisc++
			mu.Unlock()
		}
		return nil
	})
	var out []Sx
	for _, rd := range in.Rounds {
		mu.Lock()
		nerr, ndisc, routed = 0, 0, nil
		mu.Unlock()
		rounds <- rd
		var cerr error
		if rd.Via == "connect" {
			cerr = client.Connect()
		} else {
			cerr = client.Resume()
		}
		if cerr != nil && rd.NegCut == 0 && strings.Contains(cerr.Error(), "i/o timeout") {
			return L(SBytes("dial-timeout")) // the loopback dial exceeded ConnectTimeout (machine starved): the case is played again
		}
		wantSt := 0
		for _, it := range rd.asRecv().completeItems() {
			if it.T == "stanza" {
				wantSt++
			}
		}
		srvOK := false
		select {
		case srvOK = <-sent:
		case <-time.After(25 * time.Second):
		}
		if srvOK && cerr == nil {
			// everything completely received is given the time to be routed, then the server cuts
			for dl := time.Now().Add(5 * time.Second); time.Now().Before(dl); time.Sleep(2 * time.Millisecond) {
				mu.Lock()
				n := len(routed)
				mu.Unlock()
				if n >= wantSt {
					break
				}
			}
			closeNow <- struct{}{}
			for dl := time.Now().Add(5 * time.Second); time.Now().Before(dl); time.Sleep(2 * time.Millisecond) {
				mu.Lock()
				n := ndisc
				mu.Unlock()
				if n >= 1 {
					break
				}
			}
		} else if srvOK {
			closeNow <- struct{}{}
		}
		// quiescence: generous bound; a goroutine still there after it is left behind
		var ka, rc, ot int
		for dl := time.Now().Add(waitQ); ; time.Sleep(10 * time.Millisecond) {
			ka, rc, ot = c12Goroutines()
			ka, rc, ot = ka-ka0, rc-rc0, ot-ot0
			if (ka <= 0 && rc <= 0 && ot <= 0) || time.Now().After(dl) {
				break
			}
		}
		time.Sleep(20 * time.Millisecond) // a second report, if any, has had the time to come
		mu.Lock()
		ids := append([]int{}, routed...)
		e, d := nerr, ndisc
		mu.Unlock()
		sort.Ints(ids)
		var xs []Sx
		for _, id := range ids {
			xs = append(xs, Zi(id))
		}
		if cerr != nil {
			// an attempt that established no session: what it reports is not C12's matter (the error it returns is)
			e, d = 0, 0
		}
		out = append(out, L(B(cerr == nil), Zi(e), Zi(d), LS(xs), L(Zi(ka), Zi(rc), Zi(ot))))
		if ka > 0 || rc > 0 || ot > 0 {
			c12LeakSeen = true
			break // the history ends at the first round that leaves something behind
		}
	}
	return LS(out)
}

// c12StanzaKey: (0 kind id) -> id*4+kind
func c12StanzaKey(x Sx) int {
	return int(x.L[2].Z)*4 + int(x.L[1].Z)
}

// the property's own predicate, per round: a connection that was established and lost is reported exactly once (one
// error callback, one Disconnected event), every stanza completely received before the cut was routed (nothing else
// was), and no keepalive, receiver or other goroutine of the library is left behind - after EVERY round.
func c12HistOracle(in c12HistIn, obs Sx) (string, string) {
	if obs.K != "l" {
		return "history not run: " + obs.String(), "hist-not-run"
	}
	for i, rd := range in.Rounds {
		if i >= len(obs.L) {
			return "history not run to its end: " + obs.String(), "hist-not-run"
		}
		o := obs.L[i]
		if o.K != "l" || len(o.L) != 5 {
			return fmt.Sprintf("round %d: malformed observation %s", i+1, o.String()), "hist-malformed"
		}
		g := o.L[4]
		if g.String() != L(Z(0), Z(0), Z(0)).String() {
			return fmt.Sprintf("round %d of one Client (%s, negcut %d): goroutines of the library left behind after the connection was lost (keepalive, Client.recv, other) = %s", i+1, rd.Via, rd.NegCut, g.String()), "hist-goroutine-left-behind"
		}
		est := o.L[0].String() == B(true).String()
		if est != (rd.NegCut == 0) {
			return fmt.Sprintf("round %d: connection established = %v, scripted %v", i+1, est, rd.NegCut == 0), "hist-establishment"
		}
		if !est {
			continue
		}
		if o.L[1].String() != Z(1).String() || o.L[2].String() != Z(1).String() {
			return fmt.Sprintf("round %d of one Client: %s error callbacks and %s Disconnected events for one lost connection", i+1, o.L[1].String(), o.L[2].String()), "hist-not-reported-once"
		}
		var want []int
		for _, it := range rd.asRecv().completeItems() {
			if it.T == "stanza" {
				want = append(want, it.ID*4+it.Kind)
			}
		}
		sort.Ints(want)
		var xs []Sx
		for _, w := range want {
			xs = append(xs, Zi(w))
		}
		if o.L[3].String() != LS(xs).String() {
			return fmt.Sprintf("round %d of one Client: routed %s, completely received before the cut %s", i+1, o.L[3].String(), LS(xs).String()), "hist-routing"
		}
	}
	return "", ""
}
