package main

// C14 as a composite check: the authSASL-level cases of c14.go (tag 0) plus
// connection histories through the real Client.connect (tag 1, session.go), because the
// mechanism the client names depends on WHICH features element of WHICH stream it
// looks at, and a <failure/> must end the negotiation even when the server goes on
// answering: both only show at the session level.

import (
	"encoding/json"
	"math/rand"
)

type c14Case struct {
	Auth *c14In  `json:"auth,omitempty"`
	Sess *sessIn `json:"sess,omitempty"`
}
type c14Prop struct{}

func (c14Prop) ID() string    { return "C14" }
func (c14Prop) RunFn() string { return "run_C14b" }
func (c14Prop) Workers() int  { return 16 }
func (c14Prop) Journal() bool { return true }
func (c14Prop) Rule() string {
	return c14{}.Rule() + " PLUS whole negotiations against the scripted TCP/STARTTLS server: the mechanism list differs between the stream before and the stream after STARTTLS, and between two connections of the same Client (offered only before TLS / only after TLS / no longer offered on the reconnect); every reply kind at the <auth/> step with the server going on to answer afterwards (stream restart, bind...) as if nothing had happened; oracle: <auth/> names a mechanism offered in the features of THAT stream, no <auth/> and a permanent error when there is none, nothing but teardown after a non-success reply"
}
func (c14Prop) Gen(r *rand.Rand, tier string) []interface{} {
	var out []interface{}
	for _, x := range (c14{}).Gen(r, tier) {
		v := x.(c14In)
		out = append(out, c14Case{Auth: &v})
	}
	for _, x := range genC03(r, tier) {
		v := x.(sessIn)
		if v.Tag == "mechs-change" || v.Tag == "keep:auth" || v.Tag == "after-failure:auth" || v.Tag == "step:auth" {
			out = append(out, c14Case{Sess: &v})
		}
	}
	return out
}
func (c14Prop) Decode(raw json.RawMessage) (interface{}, error) {
	var c c14Case
	if err := json.Unmarshal(raw, &c); err != nil {
		return nil, err
	}
	return c, nil
}
func (c14Prop) Run(in interface{}) Sx {
	c := in.(c14Case)
	if c.Auth != nil {
		return c14{}.Run(*c.Auth)
	}
	return sessProp{id: "C14"}.Run(*c.Sess)
}
func (c14Prop) InputObs(in interface{}, obs Sx) Sx {
	c := in.(c14Case)
	if c.Auth != nil {
		return L(Z(0), c14{}.Input(*c.Auth))
	}
	return L(Z(1), sessProp{id: "C14"}.InputObs(*c.Sess, obs))
}
func (p c14Prop) Input(in interface{}) Sx { return p.InputObs(in, L()) }
func (c14Prop) Oracle(in interface{}, obs Sx) (string, string) {
	c := in.(c14Case)
	if c.Auth != nil {
		return c14{}.Oracle(*c.Auth, obs)
	}
	// the session oracle (success iff the script completes, request order, ...) plus C14's own clause
	if msg, sig := (sessProp{id: "C14"}).Oracle(*c.Sess, obs); msg != "" {
		return msg, sig
	}
	for ci, co := range obs.L {
		if ci >= len(c.Sess.Conns) {
			break
		}
		offered := offeredAtAuth(c.Sess.Conns[ci])
		for _, rq := range co.L[0].L {
			if rq.L[0].L[0].Z == 2 { // <auth mechanism=...>
				m := string(bytesOf(rq.L[0].L[1]))
				found := false
				for _, o := range offered {
					if o == m {
						found = true
					}
				}
				if !found {
					return "conn " + itoa(ci) + ": <auth mechanism=\"" + m + "\"/> but the features of that stream offered " + joinStrs(offered), "mechanism-not-offered"
				}
			}
		}
	}
	return "", ""
}
func (c14Prop) Key(in interface{}) (string, bool) {
	c := in.(c14Case)
	if c.Auth != nil {
		return c14{}.Key(*c.Auth)
	}
	k, nt := sessProp{id: "C14"}.Key(*c.Sess)
	return "S" + k, nt
}

// offeredAtAuth: the mechanisms of the features element the client authenticates
// against: the last <stream:features/> sent before the reply to <auth/>, i.e. the
// one after <proceed/> when TLS was negotiated, the first one otherwise.
func offeredAtAuth(c sessConn) []string {
	var last []string
	sawProceed, tlsOffered := false, false
	n := 0
	for _, g := range c.Groups {
		for _, it := range g {
			switch it.T {
			case "features":
				n++
				if n == 1 {
					last = it.Mechs
					tlsOffered = it.TLS != 0
				} else if n == 2 && tlsOffered && sawProceed {
					last = it.Mechs
				}
			case "proceed":
				sawProceed = true
			}
		}
	}
	return last
}

func itoa(i int) string {
	b, _ := json.Marshal(i)
	return string(b)
}
func joinStrs(xs []string) string {
	b, _ := json.Marshal(xs)
	return string(b)
}
