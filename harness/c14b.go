package main

// C14 as a composite check: the authSASL-level cases of c14.go (tag 0) plus
// connection histories through the real Client.connect (tag 1, session.go), because the
// mechanism the client names depends on WHICH features element of WHICH stream it
// looks at, and a <failure/> must end the negotiation even when the server goes on
// answering: both only show at the session level.

import (
	"encoding/base64"
	"encoding/json"
	"fmt"
	"math/rand"

	"gosrc.io/xmpp/stanza"
)

// local parts (what stanza.NewJid accepts is decided by the library: rejected ones are skipped) and secrets for the
// session-level cases: the payload of the <auth/> the scripted server receives must be NUL + local part + NUL + secret
// with the local part exactly as configured (no case folding, trimming or re-encoding on the way through
// NewClient / parsedJid.Node / authSASL)
var c14LocalPool = []string{"user", "Alice", "UPPER.lower", "ünï-cödé", "漢字", "a+b=c", "x%41", "tab\tno", "dot.", "1", "İstanbul", "ǅ", "a_b~c!$*()", "ﬀ"}
var c14SecretPool = []string{"secret", "s3cr&t<>\"'", "pass word ", "\x00nul\x00", "пароль", "=+/", "a", "ÿ\u00ff"}

func c14SessCreds(r *rand.Rand, in *sessIn) {
	for tries := 0; tries < 8; tries++ {
		u := c14LocalPool[r.Intn(len(c14LocalPool))]
		if j, err := stanza.NewJid(u + "@" + srvDomain); err == nil && j != nil {
			in.User = u
			break
		}
	}
	in.Secret = c14SecretPool[r.Intn(len(c14SecretPool))]
}

type c14Case struct {
	Auth *c14In    `json:"auth,omitempty"`
	Sess *sessIn   `json:"sess,omitempty"`
	Cfg  *c14CfgIn `json:"cfg,omitempty"`
}
type c14Prop struct{}

func (c14Prop) ID() string    { return "C14" }
func (c14Prop) RunFn() string { return "run_C14b" }
func (c14Prop) Workers() int  { return 16 }
func (c14Prop) Journal() bool { return true }
func (c14Prop) Rule() string {
	return c14{}.Rule() + " PLUS the configured JID string through the real NewClient and a complete negotiation against an accepting server (payload = NUL + bytes before the first '@' + NUL + secret, resource and stream-header domain as the string's pieces; Model/ClientConfig.v) PLUS whole negotiations against the scripted TCP/STARTTLS server: the mechanism list differs between the stream before and the stream after STARTTLS, and between two connections of the same Client (offered only before TLS / only after TLS / no longer offered on the reconnect); every reply kind at the <auth/> step with the server going on to answer afterwards (stream restart, bind...) as if nothing had happened; oracle: <auth/> names a mechanism offered in the features of THAT stream, no <auth/> and a permanent error when there is none, nothing but teardown after a non-success reply"
}
func (c14Prop) Gen(r *rand.Rand, tier string) []interface{} {
	var out []interface{}
	for _, x := range (c14{}).Gen(r, tier) {
		v := x.(c14In)
		out = append(out, c14Case{Auth: &v})
	}
	for _, x := range genC03(r, tier) {
		v := x.(sessIn)
		if v.Tag == "mechs-change" || v.Tag == "keep:auth" || v.Tag == "after-failure:auth" || v.Tag == "step:auth" || v.Tag == "good" {
			c14SessCreds(r, &v)
			out = append(out, c14Case{Sess: &v})
		}
	}
	for _, x := range genC14c(r, tier) {
		v := x.(c14CfgIn)
		out = append(out, c14Case{Cfg: &v})
	}
	return out
}
func (c14Prop) Decode(raw json.RawMessage) (interface{}, error) {
	var c c14Case
	if err := json.Unmarshal(raw, &c); err != nil {
		return nil, err
	}
	return c, nil
}
func (c14Prop) Run(in interface{}) Sx {
	c := in.(c14Case)
	if c.Auth != nil {
		return c14{}.Run(*c.Auth)
	}
	if c.Cfg != nil {
		return runC14c(*c.Cfg)
	}
	// the session observation, plus per connection the character data of every <auth/> the server received
	ob, sx := runSessionRaw(*c.Sess)
	var pls []Sx
	if ob != nil {
		for _, elems := range ob.elems {
			var l []Sx
			for _, e := range elems {
				if e.Kind == "auth" {
					l = append(l, SBytes(e.B))
				}
			}
			pls = append(pls, LS(l))
		}
	}
	return L(sx, LS(pls))
}
func (c14Prop) InputObs(in interface{}, obs Sx) Sx {
	c := in.(c14Case)
	if c.Auth != nil {
		return L(Z(0), c14{}.Input(*c.Auth))
	}
	if c.Cfg != nil {
		return inputC14c(*c.Cfg)
	}
	inner := L()
	if len(obs.L) == 2 {
		inner = obs.L[0]
	}
	return L(Z(2), sessProp{id: "C14"}.InputObs(*c.Sess, inner), SBytes(c.Sess.user()), SBytes(c.Sess.secret()))
}
func (p c14Prop) Input(in interface{}) Sx { return p.InputObs(in, L()) }
func (c14Prop) Oracle(in interface{}, obs Sx) (string, string) {
	c := in.(c14Case)
	if c.Auth != nil {
		return c14{}.Oracle(*c.Auth, obs)
	}
	if c.Cfg != nil {
		return oracleC14c(*c.Cfg, obs)
	}
	// the session oracle (success iff the script completes, request order, ...) plus C14's own clauses
	if len(obs.L) != 2 {
		return "scenario did not finish: " + obs.String(), "hang"
	}
	payloads := obs.L[1].L
	obs = obs.L[0]
	if msg, sig := (sessProp{id: "C14"}).Oracle(*c.Sess, obs); msg != "" {
		return msg, sig
	}
	// the payload of every <auth/>: NUL + the local part of the configured JID + NUL + the secret, byte for byte
	want := "\x00" + c.Sess.user() + "\x00" + c.Sess.secret()
	for ci, pc := range payloads {
		for _, pl := range pc.L {
			dec, err := base64.StdEncoding.DecodeString(string(bytesOf(pl)))
			if err != nil || string(dec) != want {
				return fmt.Sprintf("conn %d: the <auth/> payload %q decodes to %q (err %v); configured JID local part %q and secret %q want %q", ci, bytesOf(pl), dec, err, c.Sess.user(), c.Sess.secret(), want), "session-payload"
			}
		}
	}
	for ci, co := range obs.L {
		if ci >= len(c.Sess.Conns) {
			break
		}
		offered := offeredAtAuth(c.Sess.Conns[ci])
		for _, rq := range co.L[0].L {
			if rq.L[0].L[0].Z == 2 { // <auth mechanism=...>
				m := string(bytesOf(rq.L[0].L[1]))
				found := false
				for _, o := range offered {
					if o == m {
						found = true
					}
				}
				if !found {
					return "conn " + itoa(ci) + ": <auth mechanism=\"" + m + "\"/> but the features of that stream offered " + joinStrs(offered), "mechanism-not-offered"
				}
			}
		}
	}
	return "", ""
}
func (c14Prop) Key(in interface{}) (string, bool) {
	c := in.(c14Case)
	if c.Auth != nil {
		return c14{}.Key(*c.Auth)
	}
	if c.Cfg != nil {
		return "K" + c.Cfg.JidHex + "/" + c.Cfg.Domain + "/" + c.Cfg.SecretHex, true
	}
	k, nt := sessProp{id: "C14"}.Key(*c.Sess)
	return "S" + k, nt
}

// offeredAtAuth: the mechanisms of the features element the client authenticates
// against: the last <stream:features/> sent before the reply to <auth/>, i.e. the
// one after <proceed/> when TLS was negotiated, the first one otherwise.
func offeredAtAuth(c sessConn) []string {
	var last []string
	sawProceed, tlsOffered := false, false
	n := 0
	for _, g := range c.Groups {
		for _, it := range g {
			switch it.T {
			case "features":
				n++
				if n == 1 {
					last = it.Mechs
					tlsOffered = it.TLS != 0
				} else if n == 2 && tlsOffered && sawProceed {
					last = it.Mechs
				}
			case "proceed":
				sawProceed = true
			}
		}
	}
	return last
}

func itoa(i int) string {
	b, _ := json.Marshal(i)
	return string(b)
}
func joinStrs(xs []string) string {
	b, _ := json.Marshal(xs)
	return string(b)
}
