package main

// C13: the real StreamManager + Client against the scripted server under fault
// sequences (drop, graceful close, refused connections, failing negotiations, Stop).

import (
	"context"
	"crypto/tls"
	"crypto/x509"
	"encoding/json"
	"encoding/xml"
	"errors"
	"fmt"
	"math/rand"
	"net"
	"net/http"
	"strings"
	"sync"
	"time"

	xmpp "gosrc.io/xmpp"
	"gosrc.io/xmpp/stanza"
	"nhooyr.io/websocket"
)

type c13Round struct {
	Term     string `json:"term"`                // drop close serr (<stream:error><system-shutdown/></stream:error></stream:stream>) serrconflict (the same with <conflict/>)
	RefuseMs int    `json:"refuse_ms,omitempty"` // nothing listens for this long after the loss
	// negotiation failures before the good attempt: transient (unexpected reply to <auth/>, stream closed cleanly),
	// transientdrop (the same, connection cut), cutfeatures (connection cut after the server's stream header, before
	// the features), cutproceed (TLS only: cut after the client's <starttls/>, before <proceed/>), permanent (SASL failure),
	// and, TLS only, the handshake that follows <proceed/> is REFUSED (a TLS policy failure, permanent): by the server
	// with an alert -- tlsversion (the server accepts TLS 1.3 only, the application pins TLS 1.2), tlsclientcert (the
	// server demands a client certificate) -- or by the client -- tlswronghost tlsuntrusted tlsexpired (certificate
	// for another name / from an unknown authority / out of date);
	// hookfail: the negotiation succeeds and the application's PostResumeHook reports an error (Resume closes the
	// session and reports a failed attempt, which is retried)
	Fails  []string `json:"fails,omitempty"`
	Resume bool     `json:"resume,omitempty"` // the good attempt resumes the stream-managed session
}
type c13In struct {
	SM     bool       `json:"sm,omitempty"`
	First  string     `json:"first,omitempty"`   // "" ok; transient permanent refused: the very first connection fails; stopduring: Stop is called while the first negotiation is going on (which then fails)
	StopIn int        `json:"stop_in,omitempty"` // k > 0: Stop is called from inside the k-th PostConnect callback (the one-shot connect / send / stop pattern)
	Rounds []c13Round `json:"rounds"`
	KaMs   int        `json:"ka_ms,omitempty"` // keepalive interval in ms (0: the default, 30 s): a short one makes the keepalive of a lost connection tick during the outage
	TLS    bool       `json:"tls,omitempty"`   // TLS is mandatory (Insecure=false): every connection goes through STARTTLS
	WS     bool       `json:"ws,omitempty"`    // WebSocket transport (ws://) against an RFC 7395 server: terms drop / serr, refusal windows, transient / permanent failures
	// StopOut k > 0: Stop is called during the outage of round k (which has a refusal window), i.e. while the retry
	// loop is running; then the server accepts connections again -- and must not see any
	StopOut int `json:"stop_out,omitempty"`
	// Probe "hdrwrite": no fault sequence; how the transport classifies a stream header it cannot write
	Probe string `json:"probe,omitempty"`
}

// c13EarlyFailure: transient failures at the early steps of a negotiation (first features not read, TLS not
// negotiated), where NewSession returns no Session object. The client keeps the object of the previous connection, and
// with it the stream-management state: "resumed when possible" holds after such an attempt as after any other failed
// one (hunt2-C13/f1: it used to forget the state and bind afresh). The name only serves the oracle's signatures.
func c13EarlyFailure(f string) bool {
	return f == "cutfeatures" || f == "cutproceed" || c13HandshakeCut(f) != "" || c13StreamEnded(f)
}

// c13StreamEnded: on a reconnection attempt the server (going down, or not up yet) ends the stream itself where the
// negotiation awaits an element: <stream:error><system-shutdown/></stream:error></stream:stream> (serrfeatures) or a
// bare </stream:stream> (closefeatures) in place of the first features, the stream error in reply to <starttls/> with
// TLS mandatory (serrproceed). Transient, like the cut connection they are the polite form of.
func c13StreamEnded(f string) bool { return f == "serrfeatures" || f == "closefeatures" || f == "serrproceed" }

// c13HandshakeCut: TLS only: the connection ends in the middle of the handshake that follows <proceed/> (srv.go
// connScript.TLSCut): before the server's answer to the ClientHello, inside the header of its first record, inside
// that record's payload, right after that record. A cut, not a refusal: transient. "" for every other kind.
func c13HandshakeCut(f string) string {
	switch f {
	case "tlscutnone":
		return "none"
	case "tlscuthdr":
		return "header"
	case "tlscutpayload":
		return "payload"
	case "tlscutboundary":
		return "boundary"
	}
	return ""
}

var c13HandshakeCuts = []string{"tlscutnone", "tlscuthdr", "tlscutpayload", "tlscutboundary"}

// c13Resumes: whether the successful attempt of a round resumes the stream-managed session.
func c13Resumes(in c13In, rd c13Round) bool {
	if !rd.Resume || !in.SM {
		return false
	}
	return true
}

// c13TLSRefusal: the certificate kind / server TLS configuration (srv.go serverTLSConfig) that makes the handshake
// after <proceed/> fail; "" for every other kind of failure.
func c13TLSRefusal(f string) string {
	switch f {
	case "tlsversion":
		return "tls13only"
	case "tlsclientcert":
		return "needclientcert"
	case "tlswronghost":
		return "wronghost"
	case "tlsuntrusted":
		return "untrusted"
	case "tlsexpired":
		return "expired"
	}
	return ""
}

// c13Permanent: failures that must end the retry loop (rejected credentials, TLS policy failure).
// permanentdrop / permanentfin: the SASL <failure/>, and the server hangs up at once (reset / orderly) instead of
// waiting for the client's closing tag: closing the failed connection then fails as well on the client's side
func c13Permanent(f string) bool {
	return f == "permanent" || f == "permanentdrop" || f == "permanentfin" || c13TLSRefusal(f) != ""
}

// c13Pins12: the application allows TLS 1.2 at most. Needed for the refusals that come from the server: a TLS 1.3
// server that wants a client certificate only says so after the client's handshake has completed.
func c13Pins12(in c13In) bool {
	for _, rd := range in.Rounds {
		for _, f := range rd.Fails {
			if f == "tlsversion" || f == "tlsclientcert" {
				return true
			}
		}
	}
	return false
}

// c13RefusalLogged: the server's account of a failed handshake is the refusal the fault sequence scripted
func c13RefusalLogged(kind, serverErr string) bool {
	switch kind {
	case "tlsversion":
		return strings.Contains(serverErr, "unsupported versions") || strings.Contains(serverErr, "protocol version")
	case "tlsclientcert":
		return strings.Contains(serverErr, "didn't provide a certificate")
	default: // the client refuses the server's certificate and says so with an alert
		return strings.HasPrefix(serverErr, "remote error: tls:") && (strings.Contains(serverErr, "certificate") || strings.Contains(serverErr, "authority"))
	}
}

var c13Refusals = []string{"tlsversion", "tlsclientcert", "tlswronghost", "tlsuntrusted", "tlsexpired"}

// c13LateCut: the connection of a reconnection attempt is cut at a step of the negotiation where a Session object exists
// and the stream-management state travels with it: cutopen (before the server's stream header: the client's header is
// all the server has read), cutauth (after the client's <auth/>, before the answer), cutrestart (after <success/>, when
// the client's header of the restarted stream arrives), cutrequest (after the features of the restarted stream, when the
// client's request - <resume/> if it holds a state, the bind request otherwise - has been read, BEFORE any answer) and
// cutmidanswer (the same, and the connection ends in the middle of the answer's first tag). At none of these points
// has the server confirmed or refused anything: transient, and the state held is the one held before.
func c13LateCut(f string) bool {
	return f == "cutopen" || f == "cutauth" || f == "cutrestart" || f == "cutrequest" || f == "cutmidanswer"
}

var c13LateCuts = []string{"cutopen", "cutauth", "cutrestart", "cutrequest", "cutmidanswer"}

// refusedcut: the client's <resume/> is ANSWERED, with <failed/>, and then the connection is cut (before the bind
// request that follows can be answered). The server has refused the state: nothing is left to resume, the successful
// attempt that follows binds afresh whatever the server would grant. (Where the client holds no state the connection
// is cut at the same step without an answer.)
func c13IsCut(f string) bool {
	return c13LateCut(f) || f == "refusedcut" || f == "transientdrop" || f == "cutfeatures" || f == "cutproceed" || f == "permanentdrop" || f == "permanentfin" || c13HandshakeCut(f) != ""
}

type c13 struct{}

func init() { register(c13{}) }

func (c13) ID() string    { return "C13" }
func (c13) RunFn() string { return "run_C13" }
func (c13) Workers() int  { return 32 }
func (c13) Journal() bool { return true }
func (c13) Rule() string {
	return "fault sequences of up to 4 rounds on successive connections of a real StreamManager+Client: abrupt drop, graceful </stream:stream> or <stream:error><system-shutdown/></stream:error></stream:stream> by the server, listener down for 0-120 ms (refused attempts), keepalive interval the default or 3-10 ms (shorter than the outage), 0-2 negotiation failures (transient: unexpected reply to <auth/>, with a clean stream close or with the connection cut, or the connection cut after the server's stream header / after the client's <starttls/>, or cut at each later step of the negotiation: before the server's header, after <auth/>, after <success/>, when the <resume/> (or bind) request has been read and before any answer, in the middle of that answer - the state held is then presented again on the next attempt (<resume previd=the same id/>, observed on the server) - or after the answer <failed/> (the state is refused: the next session is bound afresh); or the server ending the stream itself (stream error / closing tag) in place of its first features or of <proceed/>, or the connection ending inside the TLS handshake: before the server's first record, inside its header, inside its payload, right after it; permanent: SASL <failure/> with the server waiting for the client's closing tag or hanging up at once (reset / orderly), or - TLS mandatory - the handshake after <proceed/> refused by the server with an alert (TLS 1.3 only against an application pinning TLS 1.2; client certificate demanded) or by the client (certificate for another name, from an unknown authority, expired)), or a PostResumeHook of the application that fails after a successful negotiation, then a successful attempt on which the server grants or refuses a resumption (stream management) or that binds afresh; on every established session a stanza from the server must reach a handler and a stanza sent afterwards must arrive on that session's connection; the stream error also with <conflict/>; finally Stop, or Stop in the middle of an outage (then the server accepts again and must see nobody), or Stop during the first negotiation; also first-connection failures; cleartext or mandatory STARTTLS; TCP or WebSocket transport; distinct = fault sequence; non-trivial = at least one loss followed by a new session"
}
func (c13) Decode(raw json.RawMessage) (interface{}, error) {
	var in c13In
	err := json.Unmarshal(raw, &in)
	return in, err
}

func (c13) Gen(r *rand.Rand, tier string) []interface{} {
	n := 40
	if tier == "thorough" {
		n = 1200
	}
	var out []interface{}
	out = append(out,
		c13In{Rounds: []c13Round{{Term: "drop"}}},
		c13In{Rounds: []c13Round{{Term: "close"}}},
		// the server closes the stream on two sessions in a row (what the first close leaves behind in the transport
		// must not be in the way of the second)
		c13In{Rounds: []c13Round{{Term: "close"}, {Term: "close"}}},
		c13In{SM: true, Rounds: []c13Round{{Term: "close", Resume: true}, {Term: "drop"}, {Term: "close", Resume: true}, {Term: "close"}}},
		c13In{SM: true, Rounds: []c13Round{{Term: "drop", Resume: true}, {Term: "close", Resume: true}}},
		c13In{Rounds: []c13Round{{Term: "drop", RefuseMs: 80}}},
		c13In{Rounds: []c13Round{{Term: "drop", Fails: []string{"transient"}}}},
		c13In{Rounds: []c13Round{{Term: "drop", Fails: []string{"permanent"}}}},
		c13In{Rounds: []c13Round{{Term: "drop", Fails: []string{"transientdrop"}}}},
		c13In{SM: true, Rounds: []c13Round{{Term: "close", Fails: []string{"transientdrop", "transient"}, Resume: true}}},
		c13In{First: "transient"}, c13In{First: "permanent"}, c13In{First: "refused"},
		c13In{StopIn: 1}, c13In{SM: true, StopIn: 1},
		c13In{StopIn: 2, Rounds: []c13Round{{Term: "drop"}}},
		// the keepalive interval is shorter than the outage (with the default of 30 s: any outage of a minute)
		c13In{KaMs: 5, Rounds: []c13Round{{Term: "drop", RefuseMs: 100}}},
		c13In{KaMs: 5, Rounds: []c13Round{{Term: "close", RefuseMs: 60}, {Term: "drop", Fails: []string{"transient"}}}},
		c13In{KaMs: 4, SM: true, Rounds: []c13Round{{Term: "drop", RefuseMs: 80, Resume: true}}},
		// the server ends the session with a stream error (a restart): the manager reconnects from inside the handler
		c13In{Rounds: []c13Round{{Term: "serr"}}},
		c13In{SM: true, Rounds: []c13Round{{Term: "serr", Resume: true}, {Term: "drop"}}},
		c13In{KaMs: 5, Rounds: []c13Round{{Term: "serr", RefuseMs: 80}}},
		// a reconnection attempt reaches a server that is still going down: the connection is cut in mid-negotiation
		c13In{Rounds: []c13Round{{Term: "drop", Fails: []string{"cutfeatures"}}}},
		c13In{TLS: true, Rounds: []c13Round{{Term: "drop", Fails: []string{"cutproceed"}}}},
		c13In{TLS: true, SM: true, Rounds: []c13Round{{Term: "close", Resume: true}, {Term: "serr", Fails: []string{"transient"}}}},
		// TLS mandatory, and the handshake of a reconnection attempt is refused: a policy failure ends the retry loop
		c13In{TLS: true, Rounds: []c13Round{{Term: "drop", Fails: []string{"tlsversion"}}}},
		c13In{TLS: true, Rounds: []c13Round{{Term: "close", Fails: []string{"tlsclientcert"}}}},
		c13In{TLS: true, SM: true, Rounds: []c13Round{{Term: "drop", Resume: true}, {Term: "serr", Fails: []string{"transient", "tlsuntrusted"}}}},
		c13In{TLS: true, Rounds: []c13Round{{Term: "drop", RefuseMs: 60, Fails: []string{"cutproceed", "tlswronghost"}}}},
		c13In{TLS: true, KaMs: 5, Rounds: []c13Round{{Term: "drop", Fails: []string{"tlsexpired"}}}},
		// TLS mandatory, the connection of a reconnection attempt ends in the middle of the handshake (at every class
		// of record offset): a cut, not a refusal
		c13In{TLS: true, Rounds: []c13Round{{Term: "drop", Fails: []string{"tlscutnone"}}}},
		c13In{TLS: true, Rounds: []c13Round{{Term: "close", Fails: []string{"tlscuthdr"}}}},
		c13In{TLS: true, SM: true, Rounds: []c13Round{{Term: "drop", Fails: []string{"tlscutpayload"}, Resume: true}}},
		c13In{TLS: true, Rounds: []c13Round{{Term: "serr", Fails: []string{"tlscutboundary", "tlscuthdr"}}}},
		// rejected credentials, and the server hangs up first (over TLS the client's close_notify cannot be written
		// any more: closing the failed connection fails too) -- or answers the closing tag first
		c13In{TLS: true, Rounds: []c13Round{{Term: "drop", Fails: []string{"permanentdrop"}}}},
		c13In{TLS: true, Rounds: []c13Round{{Term: "close", Fails: []string{"transient", "permanentfin"}}}},
		c13In{TLS: true, Rounds: []c13Round{{Term: "drop", Fails: []string{"permanent"}}}},
		c13In{Rounds: []c13Round{{Term: "drop", Fails: []string{"permanentfin"}}}},
		// resumed when possible: also after an attempt that failed before the features / during STARTTLS
		c13In{SM: true, Rounds: []c13Round{{Term: "drop", Fails: []string{"cutfeatures"}, Resume: true}}},
		c13In{TLS: true, SM: true, Rounds: []c13Round{{Term: "close", Fails: []string{"cutproceed"}, Resume: true}, {Term: "drop", Resume: true}}},
		// resumed when possible: a reconnection attempt is cut at each later step of its negotiation -- before the
		// server's header, after <auth/>, after <success/>, when the <resume/> (or bind) request has been read and before
		// any answer, in the middle of the answer -- and the attempt that follows succeeds: the state was neither confirmed
		// nor refused, the client presents it again and the session is resumed when the server still knows it
		c13In{SM: true, Rounds: []c13Round{{Term: "drop", Fails: []string{"cutrequest"}, Resume: true}}},
		c13In{SM: true, Rounds: []c13Round{{Term: "close", Fails: []string{"cutmidanswer"}, Resume: true}}},
		c13In{SM: true, Rounds: []c13Round{{Term: "drop", Fails: []string{"cutopen", "cutauth"}, Resume: true}}},
		c13In{SM: true, Rounds: []c13Round{{Term: "serr", Fails: []string{"cutrestart", "cutrequest"}, Resume: true}, {Term: "drop", Resume: true}}},
		c13In{TLS: true, SM: true, Rounds: []c13Round{{Term: "drop", Resume: true}, {Term: "drop", RefuseMs: 40, Fails: []string{"cutrequest", "cutmidanswer"}, Resume: true}}},
		c13In{SM: true, Rounds: []c13Round{{Term: "drop", Fails: []string{"cutrequest"}}, {Term: "close", Fails: []string{"cutmidanswer"}, Resume: true}}},
		c13In{Rounds: []c13Round{{Term: "drop", Fails: []string{"cutrequest", "cutmidanswer"}}}},
		c13In{TLS: true, Rounds: []c13Round{{Term: "close", Fails: []string{"cutauth", "cutrestart"}}}},
		c13In{SM: true, KaMs: 5, Rounds: []c13Round{{Term: "drop", Fails: []string{"transient", "cutrequest"}, Resume: true}}},
		// ... and the contrast: the state is refused (<failed/>) and the connection cut right afterwards
		c13In{SM: true, Rounds: []c13Round{{Term: "drop", Fails: []string{"refusedcut"}, Resume: true}, {Term: "close", Resume: true}}},
		c13In{SM: true, Rounds: []c13Round{{Term: "close", Fails: []string{"cutrequest", "refusedcut", "cutrequest"}, Resume: true}}},
		c13In{TLS: true, SM: true, Rounds: []c13Round{{Term: "drop", Fails: []string{"refusedcut"}}, {Term: "drop", Fails: []string{"cutmidanswer"}, Resume: true}}},
		// the server ends the stream itself in place of its features (it is going down / not up yet)
		c13In{Rounds: []c13Round{{Term: "drop", Fails: []string{"serrfeatures"}}}},
		c13In{SM: true, Rounds: []c13Round{{Term: "close", Fails: []string{"closefeatures", "serrfeatures"}, Resume: true}}},
		c13In{TLS: true, Rounds: []c13Round{{Term: "drop", Fails: []string{"serrproceed"}}}},
		// wss://: a certificate that does not verify
		c13In{Probe: "wsscert"},
		// Stop while the manager is reconnecting (listener down, retry loop in its back-off); then the server is back
		c13In{Rounds: []c13Round{{Term: "drop", RefuseMs: 80}}, StopOut: 1},
		c13In{SM: true, Rounds: []c13Round{{Term: "close", Resume: true}, {Term: "serr", RefuseMs: 100, Resume: true}}, StopOut: 2},
		c13In{KaMs: 5, Rounds: []c13Round{{Term: "close", RefuseMs: 60}}, StopOut: 1},
		// Stop while the first connection is being negotiated
		c13In{First: "stopduring"},
		// the server ends the session with <conflict/>: the manager does not reconnect from the stream error handler,
		// the receiver closes its connection and reports the loss: one new session all the same
		c13In{Rounds: []c13Round{{Term: "serrconflict"}}},
		c13In{SM: true, Rounds: []c13Round{{Term: "serrconflict", Resume: true}, {Term: "drop", Fails: []string{"transient"}}}},
		// the application's PostResumeHook fails after a successful negotiation
		c13In{Rounds: []c13Round{{Term: "drop", Fails: []string{"hookfail"}}}},
		c13In{Rounds: []c13Round{{Term: "serr", Fails: []string{"transient", "hookfail"}}, {Term: "close", Fails: []string{"hookfail", "hookfail"}}}},
		// a stream header that cannot be written
		c13In{Probe: "hdrwrite"},
		// WebSocket transport
		c13In{WS: true, KaMs: 20, Rounds: []c13Round{{Term: "drop"}}},
		c13In{WS: true, KaMs: 20, Rounds: []c13Round{{Term: "drop", RefuseMs: 80}}},
		c13In{WS: true, Rounds: []c13Round{{Term: "serr", Fails: []string{"transient"}}}},
	)
	for i := 0; i < n; i++ {
		in := c13In{SM: r.Intn(2) == 0}
		if r.Intn(3) == 0 {
			in.KaMs = 3 + r.Intn(8)
		}
		switch r.Intn(8) {
		case 0, 2:
			in.TLS = true
		case 1:
			in.WS, in.SM = true, false
			in.KaMs = 15 + r.Intn(15) // a WebSocket client notices a dead peer through its keepalive only
		}
		k := 1 + r.Intn(4)
		if in.WS {
			k = 1 + r.Intn(2)
		}
		for j := 0; j < k; j++ {
			rd := c13Round{Term: []string{"drop", "close", "drop", "close", "serr"}[r.Intn(5)]}
			if in.WS && rd.Term == "close" {
				rd.Term = "drop"
			}
			if !in.WS && r.Intn(12) == 0 {
				rd.Term = "serrconflict"
			}
			if r.Intn(3) == 0 {
				rd.RefuseMs = 20 + r.Intn(100)
			}
			for f := r.Intn(3); f > 0; f-- {
				if r.Intn(6) == 0 {
					rd.Fails = append(rd.Fails, []string{"permanent", "permanent", "permanentdrop", "permanentfin"}[r.Intn(4)])
					if in.WS {
						rd.Fails[len(rd.Fails)-1] = "permanent"
					}
					break
				}
				if in.TLS && r.Intn(4) == 0 {
					rd.Fails = append(rd.Fails, c13Refusals[r.Intn(len(c13Refusals))])
					break
				}
				switch x := r.Intn(8); {
				case in.WS:
					rd.Fails = append(rd.Fails, "transient")
				case x == 0:
					rd.Fails = append(rd.Fails, "transientdrop")
				case x == 1:
					rd.Fails = append(rd.Fails, "cutfeatures")
				case x == 7:
					rd.Fails = append(rd.Fails, append(c13LateCuts, "refusedcut")[r.Intn(len(c13LateCuts)+1)])
				case x == 2 && in.TLS:
					rd.Fails = append(rd.Fails, "cutproceed")
				case x == 5:
					rd.Fails = append(rd.Fails, []string{"serrfeatures", "closefeatures"}[r.Intn(2)])
				case x == 6 && in.TLS:
					rd.Fails = append(rd.Fails, "serrproceed")
				case x == 4 && in.TLS:
					rd.Fails = append(rd.Fails, c13HandshakeCuts[r.Intn(len(c13HandshakeCuts))])
				case x == 3 && !in.SM:
					rd.Fails = append(rd.Fails, "hookfail")
				default:
					rd.Fails = append(rd.Fails, "transient")
				}
			}
			rd.Resume = in.SM && r.Intn(2) == 0
			if !in.WS && r.Intn(10) == 0 {
				// Stop in the middle of this round's outage
				if rd.RefuseMs == 0 {
					rd.RefuseMs = 40 + r.Intn(80)
				}
				rd.Fails = nil
				in.StopOut = j + 1
			}
			in.Rounds = append(in.Rounds, rd)
			if in.StopOut > 0 || len(rd.Fails) > 0 && c13Permanent(rd.Fails[len(rd.Fails)-1]) {
				break
			}
		}
		out = append(out, in)
	}
	return out
}

// c13Walk goes through a fault sequence the way the scenario is played and tells the visitor what happens, in order.
// It is the one place that knows the shape of a scenario; the model input, the server scripts and the model-free
// expectation of the oracle are three visitors.
type c13Visitor struct {
	attempt func(kind string, rd *c13Round) // refused | a failure kind | hookfail | good
	term    func(how string)                // drop close serr serrconflict stop
	oldRecv func()                          // the receiver that reported a stream error gets the control back
}

func c13Walk(in c13In, v c13Visitor) {
	// whatever the sequence, the scenario ends with Stop (visitors see one Stop only when it was called earlier)
	defer v.term("stop")
	switch in.First {
	case "":
		v.attempt("good", nil)
	case "refused":
		v.attempt("refused", nil)
		return
	case "stopduring":
		// the connection is made and the negotiation is going on when Stop comes; Run returns when it has failed
		v.attempt("transient", nil)
		return
	default:
		v.attempt(in.First, nil)
		return
	}
	sessions := 1
	for i := range in.Rounds {
		rd := &in.Rounds[i]
		if in.StopIn > 0 && sessions >= in.StopIn {
			break
		}
		v.term(rd.Term)
		if rd.RefuseMs > 0 {
			v.attempt("refused", rd)
		}
		if in.StopOut == i+1 {
			v.term("stop")
			v.attempt("good", rd) // the server would accept: nobody must be there to connect
			return
		}
		for _, f := range rd.Fails {
			v.attempt(f, rd)
			if c13Permanent(f) {
				if rd.Term == "serr" {
					v.oldRecv()
				}
				return
			}
		}
		v.attempt("good", rd)
		if rd.Term == "serr" {
			v.oldRecv()
		}
		sessions++
	}
}

func (c13) Input(inp interface{}) Sx {
	in := inp.(c13In)
	if in.Probe == "wsscert" {
		return L(Z(2))
	}
	if in.Probe != "" {
		return L(Z(1))
	}
	var es []Sx
	stopped := false
	c13Walk(in, c13Visitor{
		attempt: func(kind string, rd *c13Round) {
			a, fl := 1, false
			switch {
			case kind == "refused":
				a = 0
			case kind == "good":
				// the flag is what the SERVER is ready to do when asked to resume; whether the client asks, and so
				// whether the session is the resumed one, is for the model to say
				a, fl = 3, rd != nil && rd.Resume
			case kind == "hookfail":
				a = 5
			case c13Permanent(kind):
				a = 2
			case kind == "refusedcut":
				// the state the client held has been refused on this connection
				fl = true
			}
			es = append(es, L(Z(0), Zi(a), B(fl)))
			if a == 1 || a == 2 {
				// NewSession failed on a connection: Client.connect leaves a reader behind, which meets the end of that
				// connection (a stalled first negotiation that Stop interrupts included)
				es = append(es, L(Z(2)))
			}
		},
		term: func(how string) {
			t := map[string]int{"drop": 0, "close": 1, "stop": 2, "serr": 3, "serrconflict": 3}[how]
			if t == 2 {
				if stopped {
					return
				}
				stopped = true
			}
			es = append(es, L(Z(1), Zi(t)))
		},
		oldRecv: func() { es = append(es, L(Z(3))) },
	})
	return L(Z(0), B(in.SM), LS(es))
}

// c13Expect: what the property asks for, counted from the fault sequence alone: negotiations the server sees
// completed, of which resumed, sessions handed over (= PostConnect calls = sessions that must work), connections made
func c13Expect(in c13In) (estab, resumed, sessions, conns int64) {
	stopped := false
	held := false // the client holds a stream-management state that the server has not refused
	c13Walk(in, c13Visitor{
		attempt: func(kind string, rd *c13Round) {
			if stopped || kind == "refused" {
				return
			}
			conns++
			switch kind {
			case "good":
				estab++
				sessions++
				if rd != nil && c13Resumes(in, *rd) && held {
					resumed++
				}
				held = in.SM // resumed, or bound and enabled anew
			case "hookfail":
				estab++
				held = in.SM
			case "refusedcut":
				held = false
			}
		},
		term:    func(how string) { stopped = stopped || how == "stop" },
		oldRecv: func() {},
	})
	return
}

func c13Scripts(in c13In) (scripts []connScript, good map[int]bool, resumed map[int]bool) {
	scripts, good, resumed, _ = c13ScriptsPrev(in)
	return
}

// c13ScriptsPrev: also, for each connection made while the client holds a stream-management state that the server has
// neither confirmed nor refused since (prev): the id of that state. If the client gets as far as the features of the
// restarted stream on such a connection, its request there is <resume previd=that id/>.
func c13ScriptsPrev(in c13In) (scripts []connScript, good map[int]bool, resumed map[int]bool, prev map[int]string) {
	good, resumed, prev = map[int]bool{}, map[int]bool{}, map[int]string{}
	mechs := []string{"PLAIN"}
	// the groups up to the features that carry the SASL mechanisms
	pre := func() [][]sItem {
		if in.TLS {
			return [][]sItem{{hdrItem(), {T: "features", TLS: 2}}, {{T: "proceed"}}, {hdrItem(), {T: "features", Mechs: mechs}}}
		}
		return [][]sItem{{hdrItem(), {T: "features", Mechs: mechs}}}
	}
	heldID := "" // curID when the connection whose script is being added is made
	id := 0
	curID := "" // the id of the session the client holds a resumable state of, when all went as scripted so far
	fail := func(kind string) connScript {
		rep := sItem{T: "message", N: 1}
		cut := []sItem{{T: "wait", N: 3}, {T: "eof"}}
		restarted := func() [][]sItem {
			return append(pre(), []sItem{{T: "success"}}, []sItem{hdrItem(), {T: "features", Bind: true, SM: in.SM}})
		}
		switch kind {
		case "cutopen":
			return connScript{Groups: [][]sItem{cut}}
		case "cutauth":
			return connScript{Groups: append(pre(), cut)}
		case "cutrestart":
			return connScript{Groups: append(pre(), []sItem{{T: "success"}}, cut)}
		case "cutrequest":
			return connScript{Groups: append(restarted(), cut)}
		case "refusedcut":
			if in.SM && curID != "" {
				curID = ""
				return connScript{Groups: append(restarted(), []sItem{{T: "failed", Cond: "item-not-found"}, {T: "wait", N: 3}, {T: "eof"}})}
			}
			return connScript{Groups: append(restarted(), cut)}
		case "cutmidanswer":
			begun := "<iq type='result' id"
			if in.SM && curID != "" {
				begun = "<resumed xmlns='urn:xmpp:sm:3' previd='" + curID
			}
			return connScript{Groups: append(restarted(), []sItem{{T: "partial", Cond: begun}, {T: "wait", N: 3}, {T: "eof"}})}
		}
		switch kind {
		case "permanent":
			rep = sItem{T: "saslfailure"}
		case "transientdrop":
			// unexpected reply, then the server cuts the connection instead of closing the stream
			return connScript{Groups: append(pre(), []sItem{rep, {T: "wait", N: 3}, {T: "eof"}})}
		case "cutfeatures":
			// the server's stream header, then the connection is cut (the pause lets the client consume the header first)
			return connScript{Groups: [][]sItem{{hdrItem(), {T: "wait", N: 25}, {T: "eof"}}}}
		case "cutproceed":
			// STARTTLS is offered and required; the connection is cut when the client asks for it
			return connScript{Groups: [][]sItem{{hdrItem(), {T: "features", TLS: 2}}, {{T: "wait", N: 3}, {T: "eof"}}}}
		}
		switch kind {
		case "serrfeatures":
			return connScript{Groups: [][]sItem{{hdrItem(), {T: "serr", Cond: "system-shutdown"}, {T: "close"}}}, IdleDropMs: 1500}
		case "closefeatures":
			return connScript{Groups: [][]sItem{{hdrItem(), {T: "close"}}}, IdleDropMs: 1500}
		case "serrproceed":
			return connScript{Groups: [][]sItem{{hdrItem(), {T: "features", TLS: 2}}, {{T: "serr", Cond: "system-shutdown"}, {T: "close"}}}, IdleDropMs: 1500}
		case "permanentdrop":
			return connScript{Groups: append(pre(), []sItem{{T: "saslfailure"}, {T: "wait", N: 3}, {T: "eof"}})}
		case "permanentfin":
			return connScript{Groups: append(pre(), []sItem{{T: "saslfailure"}, {T: "wait", N: 3}, {T: "fin"}})}
		}
		if cut := c13HandshakeCut(kind); cut != "" {
			return connScript{Groups: [][]sItem{{hdrItem(), {T: "features", TLS: 2}}, {{T: "proceed"}}}, TLSCut: cut}
		}
		if cert := c13TLSRefusal(kind); cert != "" {
			// <proceed/>, then a handshake that one side refuses
			return connScript{Groups: [][]sItem{{hdrItem(), {T: "features", TLS: 2}}, {{T: "proceed"}}}, Cert: cert}
		}
		return connScript{Groups: append(pre(), []sItem{rep}), IdleDropMs: 1500}
	}
	goodConn := func(resume bool) connScript {
		g := append(pre(), []sItem{{T: "success"}}, []sItem{hdrItem(), {T: "features", Bind: true, SM: in.SM}})
		if in.SM && curID != "" {
			if resume {
				g = append(g, []sItem{{T: "resumed", ID: curID}})
				return connScript{Groups: g}
			}
			g = append(g, []sItem{{T: "failed", Cond: "item-not-found"}})
		}
		g = append(g, []sItem{{T: "iq", Typ: "result", ID: "b", Pl: "bind", Jid: "user@" + srvDomain + "/r"}})
		if in.SM {
			id++
			curID = fmt.Sprintf("sm-%d", id)
			g = append(g, []sItem{{T: "enabled", ID: curID, Res: "true"}})
		}
		return connScript{Groups: g}
	}
	add := func(s connScript, isGood, isResumed bool) {
		if in.SM && heldID != "" {
			prev[len(scripts)] = heldID
		}
		if isGood {
			good[len(scripts)] = true
		}
		if isResumed {
			resumed[len(scripts)] = true
		}
		scripts = append(scripts, s)
	}
	c13Walk(in, c13Visitor{
		attempt: func(kind string, rd *c13Round) {
			switch {
			case kind == "refused":
			case kind == "good", kind == "hookfail":
				res := kind == "good" && rd != nil && c13Resumes(in, *rd) && curID != ""
				heldID = curID
				add(goodConn(res), true, res)
			case in.First == "stopduring" && rd == nil:
				// the negotiation stalls at <auth/> long enough for Stop to arrive in the middle of it, then fails
				heldID = curID
				add(connScript{Groups: append(pre(), []sItem{{T: "wait", N: 400}, {T: "message", N: 1}}), IdleDropMs: 1500}, false, false)
			default:
				heldID = curID
				add(fail(kind), false, false)
			}
		},
		term:    func(string) {},
		oldRecv: func() {},
	})
	return
}

const c13StreamError = "<stream:error><system-shutdown xmlns='urn:ietf:params:xml:ns:xmpp-streams'/></stream:error>"

// c13Server: what a fault sequence needs from the server side, whatever the transport. Connections are numbered
// in the order in which the server accepted them.
type c13Server interface {
	address() string
	listenerDown()
	listenerUp() error
	terminate(conn int, how string) // drop close serr
	probe(conn int, id string)      // a message stanza with this id, sent on the connection
	shutdown()
	sawMessage(conn int, id string) bool // a message stanza with this id has arrived from the client on the connection
	// negotiations completed on the connections scripted to succeed, how many of them by resumption, and the
	// connections the server accepted
	result() (sessions, resumed, conns int)
}

// ---- TCP: the scripted server of srv.go ----
type c13TCP struct {
	srv     *scriptedServer
	scripts []connScript
	good    map[int]bool
	resumed map[int]bool
	prev    map[int]string
}

// notResumed: the first connection (if any) on which the client, holding a state the server had neither confirmed nor
// refused, reached the features of the restarted stream and asked for something else than the resumption of that state
func (t *c13TCP) notResumed() (conn int, held, asked string) {
	logs := t.srv.snapshot()
	for i := 0; i < len(logs); i++ {
		id, ok := t.prev[i]
		if !ok {
			continue
		}
		for _, e := range logs[i].Elems {
			if e.Kind == "resume" && e.A == id {
				break
			}
			if e.Kind == "resume" || e.Kind == "bind" || e.Kind == "enable" {
				return i, id, e.Kind + " " + e.A
			}
		}
	}
	return -1, "", ""
}

func (t *c13TCP) address() string   { return t.srv.addr() }
func (t *c13TCP) listenerDown()     { t.srv.ln.Close() }
func (t *c13TCP) listenerUp() error { return t.srv.relisten() }
func (t *c13TCP) shutdown()         { t.srv.stop() }
func (t *c13TCP) terminate(conn int, how string) {
	switch how {
	case "drop":
		t.srv.drop(conn)
	case "serr":
		// RFC 6120 4.9.1.1: the error, the closing tag; the scripted server ends the TCP connection when the client
		// answers with its own closing tag
		t.srv.push(conn, c13StreamError+"</stream:stream>")
	case "serrconflict":
		t.srv.push(conn, strings.Replace(c13StreamError, "system-shutdown", "conflict", 1)+"</stream:stream>")
	default:
		t.srv.push(conn, "</stream:stream>")
	}
}
func (t *c13TCP) probe(conn int, id string) {
	t.srv.push(conn, fmt.Sprintf("<message id='%s' from='peer@%s'><body>probe</body></message>", id, srvDomain))
}
func (t *c13TCP) sawMessage(conn int, id string) bool {
	logs := t.srv.snapshot()
	if conn >= len(logs) {
		return false
	}
	for _, e := range logs[conn].Elems {
		if e.Kind == "message" && e.A == id {
			return true
		}
	}
	return false
}
func (t *c13TCP) result() (sessions, resumed, conns int) {
	logs := t.srv.snapshot()
	for i, lg := range logs {
		if t.good[i] {
			// the negotiation on a good script completed if the client went on to use the session:
			// count connections on which every scripted group was consumed
			n := 0
			for _, e := range lg.Elems {
				switch e.Kind {
				case "open", "starttls", "auth", "bind", "resume", "enable":
					n++
				}
			}
			if n >= len(t.scripts[i].Groups) {
				sessions++
				if t.resumed[i] {
					resumed++
				}
			}
		}
	}
	return sessions, resumed, len(logs)
}

// ---- WebSocket: a small RFC 7395 server (SASL PLAIN, resource binding; no stream management) ----
type c13WS struct {
	mu       sync.Mutex
	addr     string
	ln       net.Listener
	plan     []string // per accepted WebSocket connection: good transient permanent
	raw      []net.Conn
	ws       map[int]*websocket.Conn // connection number -> established session
	msgs     map[int][]string        // connection number -> ids of the message stanzas received on the session
	accepted int
	sessions int
	ctx      context.Context
	cancel   context.CancelFunc
}

type c13Listener struct {
	net.Listener
	s *c13WS
}

func (l c13Listener) Accept() (net.Conn, error) {
	c, err := l.Listener.Accept()
	if err == nil {
		l.s.mu.Lock()
		l.s.raw = append(l.s.raw, c)
		l.s.mu.Unlock()
	}
	return c, err
}

func c13WSPlan(in c13In) (plan []string) {
	c13Walk(in, c13Visitor{
		attempt: func(kind string, rd *c13Round) {
			switch kind {
			case "refused":
			case "good", "hookfail":
				plan = append(plan, "good")
			default:
				plan = append(plan, kind)
			}
		},
		term:    func(string) {},
		oldRecv: func() {},
	})
	return
}

func startC13WS(plan []string) (*c13WS, error) {
	ln, err := listenLoopback()
	if err != nil {
		return nil, err
	}
	s := &c13WS{plan: plan, ws: map[int]*websocket.Conn{}, msgs: map[int][]string{}, addr: ln.Addr().String()}
	s.ctx, s.cancel = context.WithCancel(context.Background())
	s.serveOn(ln)
	return s, nil
}

func (s *c13WS) serveOn(ln net.Listener) {
	s.mu.Lock()
	s.ln = ln
	s.mu.Unlock()
	go (&http.Server{Handler: http.HandlerFunc(s.handle)}).Serve(c13Listener{ln, s})
}

func c13XMLName(msg []byte) (name, id string) {
	d := xml.NewDecoder(strings.NewReader(string(msg)))
	for {
		tok, err := d.Token()
		if err != nil {
			return "", ""
		}
		if se, ok := tok.(xml.StartElement); ok {
			for _, a := range se.Attr {
				if a.Name.Local == "id" {
					id = a.Value
				}
			}
			return se.Name.Local, id
		}
	}
}

func (s *c13WS) handle(w http.ResponseWriter, r *http.Request) {
	c, err := websocket.Accept(w, r, &websocket.AcceptOptions{Subprotocols: []string{"xmpp"}})
	if err != nil {
		return
	}
	defer c.Close(websocket.StatusNormalClosure, "")
	s.mu.Lock()
	idx := s.accepted
	s.accepted++
	kind := ""
	if idx < len(s.plan) {
		kind = s.plan[idx]
	}
	s.mu.Unlock()
	if kind == "" {
		return // a connection the fault sequence does not call for
	}
	send := func(str string) { c.Write(s.ctx, websocket.MessageText, []byte(str)) }
	expect := func(local string) (string, bool) {
		for {
			_, msg, err := c.Read(s.ctx)
			if err != nil {
				return "", false
			}
			if n, id := c13XMLName(msg); n == local {
				return id, true
			}
		}
	}
	const open = "<open xmlns='urn:ietf:params:xml:ns:xmpp-framing' from='" + srvDomain + "' id='ws' version='1.0'/>"
	if _, ok := expect("open"); !ok {
		return
	}
	send(open)
	send("<stream:features xmlns:stream='http://etherx.jabber.org/streams'><mechanisms xmlns='urn:ietf:params:xml:ns:xmpp-sasl'><mechanism>PLAIN</mechanism></mechanisms></stream:features>")
	if _, ok := expect("auth"); !ok {
		return
	}
	switch kind {
	case "permanent":
		send("<failure xmlns='urn:ietf:params:xml:ns:xmpp-sasl'><not-authorized/></failure>")
		expect("close")
		return
	case "transient":
		send("<message xmlns='jabber:client' id='1' from='peer@" + srvDomain + "/r'><body>hello 1</body></message>")
		expect("close")
		return
	}
	send("<success xmlns='urn:ietf:params:xml:ns:xmpp-sasl'/>")
	if _, ok := expect("open"); !ok {
		return
	}
	send(open)
	send("<stream:features xmlns:stream='http://etherx.jabber.org/streams'><bind xmlns='urn:ietf:params:xml:ns:xmpp-bind'/></stream:features>")
	id, ok := expect("iq")
	if !ok {
		return
	}
	s.mu.Lock()
	s.ws[idx] = c
	s.sessions++
	s.mu.Unlock()
	send(fmt.Sprintf("<iq xmlns='jabber:client' type='result' id='%s'><bind xmlns='urn:ietf:params:xml:ns:xmpp-bind'><jid>user@%s/r</jid></bind></iq>", id, srvDomain))
	for {
		_, msg, err := c.Read(s.ctx)
		if err != nil {
			return
		}
		if n, id := c13XMLName(msg); n == "message" {
			s.mu.Lock()
			s.msgs[idx] = append(s.msgs[idx], id)
			s.mu.Unlock()
		}
	}
}

func (s *c13WS) address() string { return "ws://" + s.addr + "/xmpp-websocket" }
func (s *c13WS) listenerDown() {
	s.mu.Lock()
	s.ln.Close()
	s.mu.Unlock()
}
func (s *c13WS) listenerUp() error {
	for i := 0; i < 600; i++ {
		ln, err := netListen(s.addr)
		if err == nil {
			s.serveOn(ln)
			return nil
		}
		time.Sleep(2 * time.Millisecond)
	}
	return fmt.Errorf("cannot listen on %s again", s.addr)
}
// cut ends the TCP connections accepted so far (fin: orderly, else reset); the caller may have taken the list earlier
func (s *c13WS) take() []net.Conn {
	s.mu.Lock()
	defer s.mu.Unlock()
	l := s.raw
	s.raw = nil
	return l
}
func c13Cut(l []net.Conn, fin bool) {
	for _, c := range l {
		if tc, ok := c.(*net.TCPConn); ok && !fin {
			tc.SetLinger(0)
		}
		c.Close()
	}
}
func (s *c13WS) terminate(conn int, how string) {
	old := s.take() // the client reconnects at once: connections accepted from here on are not to be touched
	if how == "serr" {
		s.mu.Lock()
		c := s.ws[conn]
		s.mu.Unlock()
		if c != nil {
			c.Write(s.ctx, websocket.MessageText, []byte("<stream:error xmlns:stream='http://etherx.jabber.org/streams'><system-shutdown xmlns='urn:ietf:params:xml:ns:xmpp-streams'/></stream:error>"))
			c.Write(s.ctx, websocket.MessageText, []byte("<close xmlns='urn:ietf:params:xml:ns:xmpp-framing'/>"))
			time.Sleep(10 * time.Millisecond)
		}
		c13Cut(old, true)
		return
	}
	c13Cut(old, false)
}
func (s *c13WS) probe(conn int, id string) {
	s.mu.Lock()
	c := s.ws[conn]
	s.mu.Unlock()
	if c != nil {
		c.Write(s.ctx, websocket.MessageText, []byte(fmt.Sprintf("<message xmlns='jabber:client' id='%s' from='peer@%s'><body>probe</body></message>", id, srvDomain)))
	}
}
func (s *c13WS) shutdown() {
	s.listenerDown()
	s.cancel()
	c13Cut(s.take(), false)
}
func (s *c13WS) sawMessage(conn int, id string) bool {
	s.mu.Lock()
	defer s.mu.Unlock()
	for _, m := range s.msgs[conn] {
		if m == id {
			return true
		}
	}
	return false
}
func (s *c13WS) result() (sessions, resumed, conns int) {
	s.mu.Lock()
	defer s.mu.Unlock()
	return s.sessions, 0, s.accepted
}

// c13HeaderWrite: the transport is given a connection on which nothing can be written any more (the peer has reset
// it as soon as it was accepted) and asked to open the stream: how is the failure classified?
func c13HeaderWrite() Sx {
	a, b := net.Pipe()
	b.Close()
	a.Close()
	t := xmpp.VerifXMPPTransportOnConn(a, 1)
	_, err := t.StartStream()
	var ce xmpp.ConnError
	if err == nil || !errors.As(err, &ce) {
		return L(SBytes("header-write-did-not-fail-with-a-ConnError"))
	}
	return L(Z(9), B(ce.Permanent))
}

// c13WssCertificate: the WebSocket transport dials a wss:// address where a certificate is presented that does not
// verify (its authority is not among the roots of the process, it does not name the address): how is the failure classified?
func c13WssCertificate() Sx {
	base, err := listenLoopback()
	if err != nil {
		return L(SBytes("listen-failed"))
	}
	ln := tls.NewListener(base, serverTLSConfig("valid"))
	defer ln.Close()
	go (&http.Server{Handler: http.HandlerFunc(func(w http.ResponseWriter, r *http.Request) { w.WriteHeader(http.StatusBadGateway) })}).Serve(ln)
	t := xmpp.NewClientTransport(xmpp.TransportConfiguration{Address: "wss://" + base.Addr().String() + "/xmpp-websocket", Domain: srvDomain, ConnectTimeout: 2})
	_, err = t.Connect()
	var ce xmpp.ConnError
	if err == nil || !errors.As(err, &ce) {
		return L(SBytes("wss-dial-did-not-fail-with-a-ConnError"))
	}
	var ua x509.UnknownAuthorityError
	var hn x509.HostnameError
	var ci x509.CertificateInvalidError
	if !errors.As(err, &ua) && !errors.As(err, &hn) && !errors.As(err, &ci) {
		// not the failure this probe is about (the TLS handshake did not get as far as the verification)
		return L(SBytes("listen-failed"), SBytes(err.Error()))
	}
	return L(Z(8), B(ce.Permanent))
}

func (c13) Run(inp interface{}) Sx {
	in := inp.(c13In)
	if in.Probe == "wsscert" {
		return c13WssCertificate()
	}
	if in.Probe != "" {
		return c13HeaderWrite()
	}
	var srv c13Server
	if in.WS {
		w, err := startC13WS(c13WSPlan(in))
		if err != nil {
			return L(SBytes("listen-failed"))
		}
		srv = w
	} else {
		scripts, good, resumedSet, prev := c13ScriptsPrev(in)
		s, err := startScriptedServer(scripts)
		if err != nil {
			return L(SBytes("listen-failed"))
		}
		srv = &c13TCP{srv: s, scripts: scripts, good: good, resumed: resumedSet, prev: prev}
	}
	defer srv.shutdown()
	if in.First == "refused" {
		srv.listenerDown()
	}
	cfg := &xmpp.Config{
		TransportConfiguration: xmpp.TransportConfiguration{Address: srv.address(), Domain: srvDomain, ConnectTimeout: 1},
		Jid:                    "user@" + srvDomain, Credential: xmpp.Password("secret"), Insecure: !in.TLS,
		StreamManagementEnable: in.SM, ConnectTimeout: 1,
	}
	if in.TLS {
		initCerts()
		cfg.TLSConfig = &tls.Config{RootCAs: caPool}
		if c13Pins12(in) {
			cfg.TLSConfig.MaxVersion = tls.VersionTLS12
		}
	}
	if in.KaMs > 0 {
		cfg.KeepaliveInterval = time.Duration(in.KaMs) * time.Millisecond
	}
	cfg.VerifSetSMResume(true)
	var mu sync.Mutex
	probes := map[string]int{}
	post := 0
	router := xmpp.NewRouter()
	router.NewRoute().HandlerFunc(func(s xmpp.Sender, p stanza.Packet) {
		if m, ok := p.(stanza.Message); ok {
			mu.Lock()
			probes[m.Id]++
			mu.Unlock()
		}
	})
	client, err := xmpp.NewClient(cfg, router, func(error) {})
	if err != nil {
		return L(SBytes("newclient-failed"))
	}
	// the application's hook after a reconnection: fails on the attempts the fault sequence says
	var hookPlan []bool
	c13Walk(in, c13Visitor{
		attempt: func(kind string, rd *c13Round) {
			if rd != nil && (kind == "good" || kind == "hookfail") {
				hookPlan = append(hookPlan, kind == "hookfail")
			}
		},
		term: func(string) {}, oldRecv: func() {},
	})
	hooks := 0
	client.PostResumeHook = func() error {
		mu.Lock()
		defer mu.Unlock()
		hooks++
		if hooks <= len(hookPlan) && hookPlan[hooks-1] {
			return errors.New("the application could not restore its state")
		}
		return nil
	}
	var sm *xmpp.StreamManager
	sm = xmpp.NewStreamManager(client, func(s xmpp.Sender) {
		mu.Lock()
		post++
		p := post
		mu.Unlock()
		if in.StopIn > 0 && p == in.StopIn {
			sm.Stop()
		}
	})
	runDone := make(chan error, 1)
	go func() { runDone <- sm.Run() }()
	returned := false
	waitPost := func(n int, d time.Duration) bool {
		deadline := time.Now().Add(d)
		for time.Now().Before(deadline) {
			mu.Lock()
			p := post
			mu.Unlock()
			if p >= n {
				return true
			}
			select {
			case <-runDone:
				returned = true
				return false
			default:
			}
			time.Sleep(500 * time.Microsecond)
		}
		return false
	}
	probeOK := 0
	// a session works when a stanza the server sends on its connection reaches a handler AND a stanza the
	// application sends afterwards arrives at the server on that same connection
	probe := func(connIdx, k int) {
		id := fmt.Sprintf("probe-%d", k)
		srv.probe(connIdx, id)
		deadline := time.Now().Add(2 * time.Second)
		got := false
		for time.Now().Before(deadline) && !got {
			mu.Lock()
			got = probes[id] > 0
			mu.Unlock()
			if !got {
				time.Sleep(300 * time.Microsecond)
			}
		}
		if !got {
			return
		}
		up := fmt.Sprintf("up-%d", k)
		if client.Send(stanza.Message{Attrs: stanza.Attrs{Id: up, To: "peer@" + srvDomain, Type: stanza.MessageTypeChat}, Body: "up"}) != nil {
			return
		}
		for time.Now().Before(deadline) {
			if srv.sawMessage(connIdx, up) {
				probeOK++
				return
			}
			time.Sleep(300 * time.Microsecond)
		}
	}
	stoppedIn := false  // Stop has been called from a PostConnect callback
	stoppedOut := false // Stop has been called by the scenario itself (during an outage, during the first connection)
	stopDone := make(chan struct{})
	connIdx := 0 // index of the server connection carrying the current session
	sessions := 0
	dead := false
	cutAt := map[int]string{} // connections on which the fault sequence has the server go away in mid-handshake
	refusedAt := map[int]string{} // connections on which the fault sequence has the TLS handshake refused, and how
	settle := time.Duration(0)
	switch in.First {
	case "":
		if waitPost(1, 5*time.Second) {
			sessions = 1
			if in.StopIn == 1 {
				stoppedIn = true
				probeOK++ // Stop runs inside this session's PostConnect: the session is not probed
			} else {
				probe(connIdx, sessions)
			}
		}
	rounds:
		for i, rd := range in.Rounds {
			if sessions == 0 || stoppedIn {
				break
			}
			if rd.RefuseMs > 0 {
				srv.listenerDown()
			}
			srv.terminate(connIdx, rd.Term)
			if rd.Term == "serr" && settle < 300*time.Millisecond {
				// the receiver that reported the stream error is still there when the manager has reconnected
				// from inside its handler: give it the time to show what it does next
				settle = 300 * time.Millisecond
			}
			if in.StopOut == i+1 {
				// Stop in the middle of the outage: the retry loop is running (refused dials, back-off)
				time.Sleep(time.Duration(rd.RefuseMs/2) * time.Millisecond)
				stoppedOut = true
				go func() { sm.Stop(); close(stopDone) }()
				time.Sleep(time.Duration(rd.RefuseMs-rd.RefuseMs/2) * time.Millisecond)
				if srv.listenerUp() != nil {
					return L(SBytes("relisten-failed"))
				}
				// the server accepts connections again: a retry loop that Stop has not ended comes back within its
				// back-off (below 20 ms * 2^attempts, i.e. some hundred ms after an outage of this length)
				settle = 1200 * time.Millisecond
				break
			}
			if rd.RefuseMs > 0 {
				time.Sleep(time.Duration(rd.RefuseMs) * time.Millisecond)
				if srv.listenerUp() != nil {
					return L(SBytes("relisten-failed"))
				}
			}
			for _, f := range rd.Fails {
				connIdx++
				if c13IsCut(f) {
					// a cut connection keeps Transport.Close waiting for ConnectTimeout (1 s): give a
					// second, concurrent retry loop (if the code starts one) the time to show itself
					settle = 1600 * time.Millisecond
				}
				if c13HandshakeCut(f) != "" {
					cutAt[connIdx] = f
				}
				if c13TLSRefusal(f) != "" {
					// the connection of a refused handshake is gone when the client closes its stream: Transport.Close
					// sits out ConnectTimeout (1 s) before a retry loop that has NOT ended makes its next attempt
					settle = 1600 * time.Millisecond
					refusedAt[connIdx] = f
				}
				if c13Permanent(f) {
					// the attempt that fails for good has to be made first (after a stream error the manager sits out
					// ConnectTimeout in Disconnect before it reconnects, after <conflict/> twice)
					deadline := time.Now().Add(12 * time.Second)
					for time.Now().Before(deadline) {
						if _, _, c := srv.result(); c > connIdx {
							break
						}
						time.Sleep(time.Millisecond)
					}
					dead = true
					break rounds
				}
			}
			connIdx++
			if !waitPost(sessions+1, 12*time.Second) {
				break
			}
			sessions++
			if in.StopIn == sessions {
				stoppedIn = true
				probeOK++
				break
			}
			probe(connIdx, sessions)
		}
	case "stopduring":
		// wait until the negotiation is under way (the server has the client's <auth/> and sits on its answer), then Stop
		deadline := time.Now().Add(3 * time.Second)
		for time.Now().Before(deadline) {
			if _, _, c := srv.result(); c > 0 {
				break
			}
			time.Sleep(time.Millisecond)
		}
		time.Sleep(60 * time.Millisecond)
		stoppedOut = true
		go func() { sm.Stop(); close(stopDone) }()
	default:
		select {
		case <-runDone:
			returned = true
		case <-time.After(6 * time.Second):
		}
	}
	if dead && settle < 400*time.Millisecond {
		// the retry loop must have ended: no further connection is attempted
		settle = 400 * time.Millisecond
	}
	time.Sleep(settle)
	if (stoppedIn || stoppedOut) && !returned {
		// Stop has been called (from a PostConnect callback, or by the scenario): Run must return on its own
		select {
		case <-runDone:
			returned = true
		case <-time.After(5 * time.Second):
		}
		if stoppedOut {
			select {
			case <-stopDone:
			case <-time.After(3 * time.Second):
			}
		}
	} else if !returned {
		stopped := make(chan struct{})
		go func() { sm.Stop(); close(stopped) }()
		select {
		case <-runDone:
			returned = true
		case <-time.After(5 * time.Second):
		}
		select {
		case <-stopped:
		case <-time.After(3 * time.Second):
		}
	}
	time.Sleep(5 * time.Millisecond)
	srvSessions, srvResumed, conns := srv.result()
	if t, ok := srv.(*c13TCP); ok {
		// a scripted cut inside the handshake must have taken place as scripted (the server's TLS layer was stopped
		// by it), not as something else (e.g. a handshake the client abandoned first)
		logs := t.srv.snapshot()
		for i, kind := range cutAt {
			if i < len(logs) && !(logs[i].TLS == "handshake-error" && strings.Contains(logs[i].TLSErr, "scripted cut")) {
				return L(SBytes("tls-refusal-not-realised"), Zi(i), SBytes(kind), SBytes(logs[i].TLS+": "+logs[i].TLSErr))
			}
		}
	}
	if t, ok := srv.(*c13TCP); ok && dead {
		// The scenario is only what it claims to be if the handshake was really REFUSED on that connection, in the
		// way scripted: the server's side of the handshake reports its own refusal or the client's alert. Anything
		// else (a deadline, a connection that went away under the handshake, a garbled record) is not a policy
		// failure, the client is right to retry it, and the scenario is played again.
		logs := t.srv.snapshot()
		for i, kind := range refusedAt {
			if i >= len(logs) || logs[i].TLS != "handshake-error" || !c13RefusalLogged(kind, logs[i].TLSErr) {
				why := "no handshake"
				if i < len(logs) {
					why = logs[i].TLS + ": " + logs[i].TLSErr
				}
				return L(SBytes("tls-refusal-not-realised"), Zi(i), SBytes(kind), SBytes(why))
			}
		}
	}
	mu.Lock()
	p := post
	mu.Unlock()
	phase := 1
	if returned {
		phase = 4
	}
	dup := 0
	mu.Lock()
	for _, n := range probes {
		if n > 1 {
			dup++
		}
	}
	mu.Unlock()
	if t, ok := srv.(*c13TCP); ok && dup == 0 {
		if i, held, asked := t.notResumed(); i >= 0 {
			return L(Zi(phase), Zi(srvSessions), Zi(srvResumed), Zi(p), Zi(probeOK), Zi(conns), L(SBytes("state-not-presented"), Zi(i), SBytes(held), SBytes(asked)))
		}
	}
	if dup > 0 {
		return L(Zi(phase), Zi(srvSessions), Zi(srvResumed), Zi(p), Zi(probeOK), Zi(conns), L(SBytes("probe-delivered-twice"), Zi(dup)))
	}
	return L(Zi(phase), Zi(srvSessions), Zi(srvResumed), Zi(p), Zi(probeOK), Zi(conns))
}

func (c13) Oracle(inp interface{}, obs Sx) (string, string) {
	in := inp.(c13In)
	if in.Probe == "wsscert" {
		if len(obs.L) != 2 || obs.L[0].Z != 8 {
			return "probe did not run: " + obs.String(), "hang"
		}
		if obs.L[1].Z == 0 {
			return "on a wss:// address a server certificate that does not verify (unknown authority) is classified as a TRANSIENT error: a TLS policy failure does not end the retry loop", "wss-certificate-failure-transient"
		}
		return "", ""
	}
	if in.Probe != "" {
		if len(obs.L) != 2 || obs.L[0].Z != 9 {
			return "probe did not run: " + obs.String(), "hang"
		}
		if obs.L[1].Z != 0 {
			return "a stream header that cannot be written (the connection was reset as soon as it was accepted) is classified as a PERMANENT error: the retry loop ends on an abrupt drop", "header-write-failure-permanent"
		}
		return "", ""
	}
	if len(obs.L) < 6 {
		return "scenario did not finish: " + obs.String(), "hang"
	}
	phase, sessions, resumed, post, works, conns := obs.L[0].Z, obs.L[1].Z, obs.L[2].Z, obs.L[3].Z, obs.L[4].Z, obs.L[5].Z
	if len(obs.L) > 6 && len(obs.L[6].L) == 4 && c13Str(obs.L[6].L[0]) == "state-not-presented" {
		sig := "held-state-not-presented"
		if int(obs.L[3].Z) >= 1 && int(obs.L[3].Z) <= len(in.Rounds) {
			for _, f := range in.Rounds[obs.L[3].Z-1].Fails {
				if c13LateCut(f) {
					sig = "resumable-session-forgotten-after-cut"
				}
			}
		}
		return fmt.Sprintf("on connection %d the client, which held the stream-management state %q (neither confirmed nor refused by the server since), asked %q where <resume previd=%q/> was due: the session that could be resumed is not", obs.L[6].L[1].Z, c13Str(obs.L[6].L[2]), c13Str(obs.L[6].L[3]), c13Str(obs.L[6].L[2])), sig
	}
	if len(obs.L) > 6 {
		return "a probe stanza was delivered more than once: " + obs.L[6].String(), "probe-delivered-twice"
	}
	if phase != 4 {
		return "Run did not return after Stop (or after the first connection failed)", "run-not-returned"
	}
	wantEstab, wantRes, want, wantConns := c13Expect(in)
	stopEarly := in.StopOut > 0 || in.First == "stopduring"
	if stopEarly && (post > want || sessions > wantEstab || conns > wantConns) {
		return fmt.Sprintf("after Stop (called while the manager was reconnecting) and Run's return: %d connections (%d before Stop), %d sessions negotiated (%d), PostConnect ran %d times (%d)",
			conns, wantConns, sessions, wantEstab, post, want), "session-after-stop"
	}
	if conns > wantConns || sessions < wantEstab {
		// a session that could be resumed and was not: the scripted server answers the bind request that comes in
		// place of <resume/> with <resumed/>, the attempt fails, and so does every later one
		if post >= 1 && int(post) <= len(in.Rounds) {
			rd := in.Rounds[post-1]
			early := false
			for _, f := range rd.Fails {
				early = early || c13EarlyFailure(f) || c13LateCut(f)
			}
			if early && c13Resumes(in, rd) && post < want {
				return fmt.Sprintf("after an attempt that failed before the features / during STARTTLS the session the server would resume was not resumed (%d connections for %d, %d sessions for %d)", conns, wantConns, sessions, wantEstab), "resumable-session-forgotten"
			}
		}
	}
	if conns > wantConns {
		return fmt.Sprintf("the server accepted %d connections, the fault sequence accounts for %d", conns, wantConns), "extra-session"
	}
	if sessions != wantEstab {
		sig := fmt.Sprintf("sessions-%s", cmpWord(sessions, wantEstab))
		if post >= 1 && post < want && int(post) <= len(in.Rounds) {
			// the round after which no new session came: what the manager met while reconnecting
			rd := in.Rounds[post-1]
			for _, f := range rd.Fails {
				if c13EarlyFailure(f) {
					sig = "gave-up-after-cut-negotiation"
				}
				if c13StreamEnded(f) {
					sig = "gave-up-after-stream-ended-by-server"
				}
			}
			if sig == "sessions-missing" && rd.RefuseMs > 0 && in.WS {
				sig = "gave-up-after-refused-websocket-dial"
			}
		}
		return fmt.Sprintf("%d sessions established on the server, fault sequence calls for %d", sessions, wantEstab), sig
	}
	if post != want {
		return fmt.Sprintf("PostConnect ran %d times for %d sessions", post, want), "post-connect-count"
	}
	if works != want {
		return fmt.Sprintf("%d of %d sessions work in both directions (a stanza from the server reaches a handler, a stanza sent afterwards arrives on the session's connection)", works, want), "session-not-working"
	}
	if resumed != wantRes {
		return fmt.Sprintf("%d sessions resumed, expected %d", resumed, wantRes), "resumed-count"
	}
	if conns != wantConns {
		return fmt.Sprintf("the server accepted %d connections, the fault sequence accounts for %d", conns, wantConns), "connections-missing"
	}
	return "", ""
}

func c13Str(x Sx) string {
	b := make([]byte, len(x.S))
	for i, c := range x.S {
		b[i] = byte(c)
	}
	return string(b)
}

func cmpWord(a, b int64) string {
	if a < b {
		return "missing"
	}
	return "extra"
}

func (c13) Key(inp interface{}) (string, bool) {
	in := inp.(c13In)
	var b strings.Builder
	fmt.Fprintf(&b, "sm%v tls%v ws%v first=%s stopout%d probe=%s|", in.SM, in.TLS, in.WS, in.First, in.StopOut, in.Probe)
	if in.StopOut > 0 {
		hist("stop-during-outage")
	}
	if in.TLS {
		hist("tls-mandatory")
	}
	if in.WS {
		hist("websocket")
	}
	nt := false
	for _, rd := range in.Rounds {
		fmt.Fprintf(&b, "%s r%v f%v res%v;", rd.Term, rd.RefuseMs > 0, rd.Fails, rd.Resume)
		hist("term:" + rd.Term)
		for _, f := range rd.Fails {
			hist("fail:" + f)
		}
		if rd.RefuseMs > 0 {
			hist("refuse-window")
		}
		nt = true
	}
	return b.String(), nt && in.First == ""
}
