package main

// Scripted XMPP server on loopback TCP with optional STARTTLS (DESIGN.md 2.3).
// Reactive: after every complete client element (or stream header) it plays the next
// script group of the current connection. Records everything the client sends,
// each element tagged with whether it arrived inside TLS.

import (
	"bytes"
	"crypto/ecdsa"
	"crypto/elliptic"
	"crypto/rand"
	"crypto/tls"
	"crypto/x509"
	"crypto/x509/pkix"
	"encoding/xml"
	"fmt"
	"io"
	"math/big"
	"net"
	"strings"
	"sync"
	"time"
)

// ---- script items (abstract; rendered to XML here) ----
type sItem struct {
	T     string   `json:"t"`               // header features proceed tlsfailure success saslfailure iq message presence enabled resumed failed r a serr close unknown malformed eof wait
	ID    string   `json:"id,omitempty"`    // header id / enabled id / resumed previd
	TLS   int      `json:"tls,omitempty"`   // features: 0 none 1 offered 2 required
	Mechs []string `json:"mechs,omitempty"` // features
	Bind  bool     `json:"bind,omitempty"`
	Sess  int      `json:"sess,omitempty"` // features: 0 absent 1 present(mandatory) 2 optional
	SM    bool     `json:"sm,omitempty"`
	Typ   string   `json:"typ,omitempty"`  // iq type
	Pl    string   `json:"pl,omitempty"`   // iq payload: bind session other none
	Jid   string   `json:"jid,omitempty"`  // bind jid
	Err   bool     `json:"err,omitempty"`  // iq carries <error/>
	Res   string   `json:"res,omitempty"`  // enabled resume attr: "true" "false" "" "garbage"
	Cond  string   `json:"cond,omitempty"` // failed / serr condition
	H     int      `json:"h,omitempty"`
	N     int      `json:"n,omitempty"`  // message/presence/iq stanza id for post-session traffic
	NS    string   `json:"ns,omitempty"` // iq: written in this namespace instead of the stream's default one (an element that is merely CALLED iq)
	// KeepID (iq): the scripted server writes an <iq/> that answers a client iq request (bind, session) with the id of
	// THAT request, whatever ID says, as a server does (RFC 6120 8.2.3). KeepID: ID is written as it stands - an iq
	// that does not answer the pending request; ID "@bind" then stands for the id of the client's bind request
	// (a bind result sent once more).
	KeepID bool `json:"keep_id,omitempty"`
	// Open (header): "" the opening element of the transport in use; "other": the opening element of the OTHER
	// transport (<open xmlns='urn:ietf:params:xml:ns:xmpp-framing'/> over TCP, <stream:stream> over WebSocket)
	Open string `json:"open,omitempty"`
}

func attrEsc(s string) string {
	var b bytes.Buffer
	xml.EscapeText(&b, []byte(s))
	return b.String()
}

func (it sItem) xml() string {
	it.ID = attrEsc(it.ID)
	switch it.T {
	case "header":
		if it.Open == "other" {
			return fmt.Sprintf("<open xmlns='urn:ietf:params:xml:ns:xmpp-framing' from='localhost' id='%s' version='1.0'/>", it.ID)
		}
		return fmt.Sprintf("<?xml version='1.0'?><stream:stream xmlns='jabber:client' xmlns:stream='http://etherx.jabber.org/streams' from='localhost' id='%s' version='1.0'>", it.ID)
	case "features":
		var b strings.Builder
		b.WriteString("<stream:features>")
		switch it.TLS {
		case 1:
			b.WriteString("<starttls xmlns='urn:ietf:params:xml:ns:xmpp-tls'/>")
		case 2:
			b.WriteString("<starttls xmlns='urn:ietf:params:xml:ns:xmpp-tls'><required/></starttls>")
		}
		if it.Mechs != nil {
			b.WriteString("<mechanisms xmlns='urn:ietf:params:xml:ns:xmpp-sasl'>")
			for _, m := range it.Mechs {
				b.WriteString("<mechanism>" + m + "</mechanism>")
			}
			b.WriteString("</mechanisms>")
		}
		if it.Bind {
			b.WriteString("<bind xmlns='urn:ietf:params:xml:ns:xmpp-bind'/>")
		}
		switch it.Sess {
		case 1:
			b.WriteString("<session xmlns='urn:ietf:params:xml:ns:xmpp-session'/>")
		case 2:
			b.WriteString("<session xmlns='urn:ietf:params:xml:ns:xmpp-session'><optional/></session>")
		}
		if it.SM {
			b.WriteString("<sm xmlns='urn:xmpp:sm:3'/>")
		}
		b.WriteString("</stream:features>")
		return b.String()
	case "proceed":
		return "<proceed xmlns='urn:ietf:params:xml:ns:xmpp-tls'/>"
	case "tlsfailure":
		return "<failure xmlns='urn:ietf:params:xml:ns:xmpp-tls'/>"
	case "success":
		return "<success xmlns='urn:ietf:params:xml:ns:xmpp-sasl'/>"
	case "saslfailure":
		return "<failure xmlns='urn:ietf:params:xml:ns:xmpp-sasl'><not-authorized/></failure>"
	case "iq":
		var b strings.Builder
		if it.NS != "" {
			fmt.Fprintf(&b, "<iq xmlns='%s' type='%s' id='%s'>", attrEsc(it.NS), it.Typ, it.ID)
		} else {
			fmt.Fprintf(&b, "<iq type='%s' id='%s'>", it.Typ, it.ID)
		}
		switch it.Pl {
		case "bind":
			if it.Jid != "" {
				fmt.Fprintf(&b, "<bind xmlns='urn:ietf:params:xml:ns:xmpp-bind'><jid>%s</jid></bind>", it.Jid)
			} else {
				b.WriteString("<bind xmlns='urn:ietf:params:xml:ns:xmpp-bind'/>")
			}
		case "session":
			b.WriteString("<session xmlns='urn:ietf:params:xml:ns:xmpp-session'/>")
		case "other":
			b.WriteString("<query xmlns='jabber:iq:version'/>")
		}
		if it.Err {
			b.WriteString("<error type='cancel' code='409'><conflict xmlns='urn:ietf:params:xml:ns:xmpp-stanzas'/></error>")
		}
		b.WriteString("</iq>")
		return b.String()
	case "message":
		return fmt.Sprintf("<message id='%d' from='peer@localhost/r'><body>hello %d</body></message>", it.N, it.N)
	case "presence":
		return fmt.Sprintf("<presence id='%d' from='peer@localhost/r'/>", it.N)
	case "enabled":
		s := "<enabled xmlns='urn:xmpp:sm:3'"
		if it.ID != "" {
			s += " id='" + it.ID + "'"
		}
		if it.Res != "" {
			s += " resume='" + it.Res + "'"
		}
		return s + "/>"
	case "resumed":
		return fmt.Sprintf("<resumed xmlns='urn:xmpp:sm:3' previd='%s' h='%d'/>", it.ID, it.H)
	case "failed":
		if it.Cond == "" {
			return "<failed xmlns='urn:xmpp:sm:3'/>"
		}
		ns := "urn:ietf:params:xml:ns:xmpp-stanzas"
		return fmt.Sprintf("<failed xmlns='urn:xmpp:sm:3'><%s xmlns='%s'/></failed>", it.Cond, ns)
	case "r":
		return "<r xmlns='urn:xmpp:sm:3'/>"
	case "a":
		return fmt.Sprintf("<a xmlns='urn:xmpp:sm:3' h='%d'/>", it.H)
	case "serr":
		c := it.Cond
		if c == "" {
			c = "host-unknown"
		}
		return fmt.Sprintf("<stream:error><%s xmlns='urn:ietf:params:xml:ns:xmpp-streams'/></stream:error>", c)
	case "close":
		return "</stream:stream>"
	case "unknown":
		return "<foo xmlns='urn:example:unknown'/>"
	case "malformed":
		return "<<<"
	case "partial":
		// (C13) the beginning of an element, written as it stands in Cond: the connection ends in the middle of an answer
		return it.Cond
	}
	return ""
}

// what the client sent
type cElem struct {
	Kind   string `json:"kind"`   // open starttls auth resume bind session enable presence a r message iq close other
	Secure bool   `json:"secure"` // arrived inside TLS
	A      string `json:"a,omitempty"`
	B      string `json:"b,omitempty"`
	C      string `json:"c,omitempty"`
	After  int    `json:"after"` // number of server groups already sent when this arrived
	Items  int    `json:"items"` // number of server items already sent when the first byte of this element was noticed (PeekMs > 0: also noticed while the server is still talking)
}

type connScript struct {
	Groups [][]sItem `json:"groups"`
	Cert   string    `json:"cert,omitempty"`   // valid wronghost untrusted expired
	Refuse bool      `json:"refuse,omitempty"` // accept and close at once
	// DropAfter: once the groups are exhausted, and this many further client elements arrived, cut the connection
	IdleDropMs int `json:"idle_drop_ms,omitempty"` // once every group is sent: drop when the client stays silent this long (0: never)
	// StallDropMs: while groups remain (each waits for the next client element): drop when the client stays silent this
	// long, i.e. it is blocked reading (e.g. a stray stream header swallowed the rest of the input). 0: 20 s.
	StallDropMs int `json:"stall_drop_ms,omitempty"`
	// PeekMs > 0: the server is "patient": after reading a request and after each item of its answer (but the last)
	// it looks for this long whether the client has already written something new, and notes how many items it had
	// sent by then (cElem.Items of the next request). A client that sends a request before the answer that has to
	// confirm the previous one is thereby caught: its Items is smaller than what it must have read. A slow client
	// only makes Items larger, so the observation is one-sided and load cannot produce a false alarm.
	PeekMs int `json:"peek_ms,omitempty"`
	// HoldAfterClose: after the server has sent </stream:stream> it keeps the TCP connection open and waits for the
	// client's closing tag, as RFC 6120 4.4 tells the closing party to (no idle or stall drop any more): a client
	// that does not notice the closed stream waits forever.
	HoldAfterClose bool `json:"hold_after_close,omitempty"`
	// LingerMs > 0 (C04): after a FAILED TLS handshake the server does not hang up: it goes on reading the raw socket
	// for this long (or until it is cut) and logs what arrives there (RawBy) -- a client that refused the certificate
	// holds that connection open for a while, and nothing but its </stream:stream> may be written on it.
	LingerMs int `json:"linger_ms,omitempty"`
	// TLSCut (C13): after <proceed/> the server starts the handshake and goes away in the middle of it, in an orderly
	// way (FIN): "none" before it has answered the ClientHello, "header" inside the header of its first record,
	// "payload" inside that record's payload, "boundary" right after that record. "": the handshake runs.
	TLSCut string `json:"tls_cut,omitempty"`
	// Tickets (C04): "12" / "13": the server issues session tickets under a key shared by all its connections (so that
	// a client with a ClientSessionCache can RESUME a session of an earlier connection) and speaks at most TLS 1.2
	// (the ticket is part of the handshake) / whatever is negotiated (TLS 1.3: tickets follow the handshake). "": as before.
	Tickets string `json:"tickets,omitempty"`
	// GateAt > 0 (C03, application send during the negotiation): the server holds back its GateAt-th answer (1: the
	// answer to the client's first stream header, i.e. its own first stream header) -- it has read the client's request,
	// closes gateReached, and sends nothing until gateRelease is closed (or 10 s have passed).
	GateAt      int           `json:"gate_at,omitempty"`
	gateReached chan struct{} `json:"-"`
	gateRelease chan struct{} `json:"-"`
}

// cutConn is what the TLS layer of such a server writes to: the first bytes go through, then the connection is closed.
type cutConn struct {
	net.Conn
	mode    string
	limit   int // -1: not known yet (it depends on the length of the first record)
	written int
}

func (c *cutConn) Write(p []byte) (int, error) {
	if c.limit < 0 {
		rec := len(p)
		if len(p) >= 5 {
			rec = 5 + int(p[3])<<8 + int(p[4])
		}
		switch c.mode {
		case "header":
			c.limit = 3
		case "payload":
			c.limit = 5 + (rec-5)/2
		case "boundary":
			c.limit = rec
		default:
			c.limit = 0
		}
	}
	n := c.limit - c.written
	if n > len(p) {
		n = len(p)
	}
	if n > 0 {
		m, err := c.Conn.Write(p[:n])
		c.written += m
		if err != nil {
			return m, err
		}
	}
	if c.written >= c.limit {
		c.Conn.Close()
		return n, fmt.Errorf("scripted cut of the connection after %d bytes of the handshake (%s)", c.written, c.mode)
	}
	return n, nil
}

type connLog struct {
	Elems    []cElem `json:"elems"`
	TLS      string  `json:"tls,omitempty"`     // "", "ok", "handshake-error"
	Resumed  bool    `json:"resumed,omitempty"` // the TLS session of this connection was resumed from a ticket (C04)
	TLSErr   string  `json:"tls_err,omitempty"` // handshake-error: what the server's side of the handshake reported
	ClearBy  []byte  `json:"-"`                 // every byte received outside TLS
	RawBy    []byte  `json:"-"`                 // after <proceed/>: every byte read from the socket underneath TLS (handshake included)
	SecureBy []byte  `json:"-"`                 // after <proceed/>: every byte of the decrypted stream
	Ended    string  `json:"ended"`
}

type scriptedServer struct {
	ln     net.Listener
	mu     sync.Mutex
	conns  []connScript
	logs   []*connLog
	active []net.Conn
	wg     sync.WaitGroup
	closed bool
	// push: channel to inject post-session traffic on the current connection
	accepted int
	// connections that went through STARTTLS: raw connection -> TLS layer (push writes through it)
	secured map[net.Conn]*tls.Conn
}

type genericNode struct {
	XMLName xml.Name
	Attrs   []xml.Attr    `xml:",any,attr"`
	Content string        `xml:",chardata"`
	Nodes   []genericNode `xml:",any"`
}

func (n genericNode) attr(name string) string {
	for _, a := range n.Attrs {
		if a.Name.Local == name {
			return a.Value
		}
	}
	return ""
}
func (n genericNode) child(name string) *genericNode {
	for i := range n.Nodes {
		if n.Nodes[i].XMLName.Local == name {
			return &n.Nodes[i]
		}
	}
	return nil
}

func startScriptedServer(conns []connScript) (*scriptedServer, error) {
	ln, err := listenLoopback()
	if err != nil {
		return nil, err
	}
	s := &scriptedServer{ln: ln, conns: conns}
	s.wg.Add(1)
	go s.acceptLoop()
	return s, nil
}

func (s *scriptedServer) addr() string { return s.ln.Addr().String() }

func netListen(addr string) (net.Listener, error) { return net.Listen("tcp", addr) }

func (s *scriptedServer) acceptLoop() {
	defer s.wg.Done()
	s.mu.Lock()
	ln := s.ln
	s.mu.Unlock()
	for {
		c, err := ln.Accept()
		if err != nil {
			return
		}
		s.mu.Lock()
		idx := s.accepted
		s.accepted++
		lg := &connLog{}
		s.logs = append(s.logs, lg)
		s.active = append(s.active, c)
		var sc connScript
		have := idx < len(s.conns)
		if have {
			sc = s.conns[idx]
		}
		s.mu.Unlock()
		if !have || sc.Refuse {
			lg.Ended = "refused"
			c.Close()
			continue
		}
		s.wg.Add(1)
		go func() {
			defer s.wg.Done()
			s.serve(c, sc, lg)
		}()
	}
}

type countingReader struct {
	r   io.Reader
	log *connLog
	mu  *sync.Mutex
}

func (c countingReader) Read(p []byte) (int, error) {
	n, err := c.r.Read(p)
	if n > 0 {
		c.mu.Lock()
		c.log.ClearBy = append(c.log.ClearBy, p[:n]...)
		c.mu.Unlock()
	}
	return n, err
}

// sinkConn records what the TLS layer reads from the socket; sinkReader what the XML decoder reads from TLS.
type sinkConn struct {
	net.Conn
	sink *[]byte
	mu   *sync.Mutex
}

func (c sinkConn) Read(p []byte) (int, error) {
	n, err := c.Conn.Read(p)
	if n > 0 {
		c.mu.Lock()
		*c.sink = append(*c.sink, p[:n]...)
		c.mu.Unlock()
	}
	return n, err
}

type sinkReader struct {
	r    io.Reader
	sink *[]byte
	mu   *sync.Mutex
}

func (c sinkReader) Read(p []byte) (int, error) {
	n, err := c.r.Read(p)
	if n > 0 {
		c.mu.Lock()
		*c.sink = append(*c.sink, p[:n]...)
		c.mu.Unlock()
	}
	return n, err
}

// peekReader keeps every byte read from the connection, so that the server can ask whether the client has
// written something the XML decoder has not consumed yet (and wait a little for it) without disturbing the decoder.
type peekReader struct {
	conn net.Conn
	r    io.Reader
	all  []byte
	off  int
}

func (p *peekReader) Read(b []byte) (int, error) {
	if p.off < len(p.all) {
		n := copy(b, p.all[p.off:])
		p.off += n
		return n, nil
	}
	n, err := p.r.Read(b)
	p.all = append(p.all, b[:n]...)
	p.off += n
	return n, err
}

func (p *peekReader) pending(decOff int64) bool {
	if decOff < 0 || decOff > int64(len(p.all)) {
		return false
	}
	for _, c := range p.all[decOff:] {
		if c != ' ' && c != '\n' && c != '\r' && c != '\t' {
			return true
		}
	}
	return false
}

// peek: is there unconsumed client data now, or within d?
func (p *peekReader) peek(d time.Duration, decOff int64) bool {
	if p.pending(decOff) {
		return true
	}
	p.conn.SetReadDeadline(time.Now().Add(d))
	var tmp [4096]byte
	n, _ := p.r.Read(tmp[:])
	p.all = append(p.all, tmp[:n]...) // kept for the decoder: off is not advanced
	return p.pending(decOff)
}

func (s *scriptedServer) serve(conn net.Conn, sc connScript, lg *connLog) {
	defer conn.Close()
	var cur net.Conn = conn
	secure := false
	pr := &peekReader{conn: conn, r: countingReader{conn, lg, &s.mu}}
	dec := xml.NewDecoder(pr)
	sent := 0
	items := 0
	pendingIQ, bindIQ := "", "" // id of the client iq request being answered / of its bind request
	otherOpen := false          // the stream was "opened" with the opening element of the other transport
	holding := false            // </stream:stream> sent with HoldAfterClose: wait for the client's closing tag
	noticed := -1
	peek := func() {
		if sc.PeekMs > 0 && noticed < 0 && pr.peek(time.Duration(sc.PeekMs)*time.Millisecond, dec.InputOffset()) {
			noticed = items
		}
	}
	record := func(e cElem) {
		e.Secure = secure
		e.After = sent
		e.Items = items
		if noticed >= 0 {
			e.Items = noticed
		}
		s.mu.Lock()
		lg.Elems = append(lg.Elems, e)
		s.mu.Unlock()
	}
	end := func(how string) { s.mu.Lock(); lg.Ended = how; s.mu.Unlock() }
	for {
		if holding {
			cur.SetReadDeadline(time.Now().Add(20 * time.Second))
		} else if sent >= len(sc.Groups) && sc.IdleDropMs > 0 {
			cur.SetReadDeadline(time.Now().Add(time.Duration(sc.IdleDropMs) * time.Millisecond))
		} else {
			stall := 20 * time.Second
			if sc.StallDropMs > 0 {
				stall = time.Duration(sc.StallDropMs) * time.Millisecond
			}
			cur.SetReadDeadline(time.Now().Add(stall))
		}
		tok, err := dec.Token()
		if err != nil {
			if ne, ok := err.(net.Error); ok && ne.Timeout() {
				end("idle-drop")
				if tc, ok := conn.(*net.TCPConn); ok {
					tc.SetLinger(0)
				}
				return
			}
			end("client-gone")
			return
		}
		reply := false
		switch t := tok.(type) {
		case xml.StartElement:
			if t.Name.Local == "stream" {
				to := ""
				for _, a := range t.Attr {
					if a.Name.Local == "to" {
						to = a.Value
					}
				}
				record(cElem{Kind: "open", A: to})
				pendingIQ = ""
				reply = true
			} else {
				var n genericNode
				if err := dec.DecodeElement(&n, &t); err != nil {
					end("client-garbage")
					return
				}
				e := cElem{Kind: "other", A: n.XMLName.Space + " " + n.XMLName.Local}
				reply = true
				switch n.XMLName.Space + " " + n.XMLName.Local {
				case "urn:ietf:params:xml:ns:xmpp-tls starttls":
					e = cElem{Kind: "starttls"}
				case "urn:ietf:params:xml:ns:xmpp-sasl auth":
					e = cElem{Kind: "auth", A: n.attr("mechanism"), B: n.Content}
				case "urn:xmpp:sm:3 resume":
					e = cElem{Kind: "resume", A: n.attr("previd"), B: n.attr("h")}
				case "urn:xmpp:sm:3 enable":
					e = cElem{Kind: "enable", A: n.attr("resume")}
				case "urn:xmpp:sm:3 a":
					e = cElem{Kind: "a", A: n.attr("h")}
					reply = false
				case "urn:xmpp:sm:3 r":
					e = cElem{Kind: "r"}
					reply = false
				case "jabber:client presence":
					e = cElem{Kind: "presence", A: n.attr("id")}
					reply = false
				case "jabber:client message":
					e = cElem{Kind: "message", A: n.attr("id")}
					reply = false
				case "jabber:client iq":
					e = cElem{Kind: "iq", A: n.attr("type"), B: n.attr("id")}
					pendingIQ = n.attr("id")
					if b := n.child("bind"); b != nil {
						bindIQ = n.attr("id")
						e.Kind = "bind"
						if r := b.child("resource"); r != nil {
							e.C = r.Content
						}
					} else if n.child("session") != nil {
						e.Kind = "session"
					} else {
						reply = false
						pendingIQ = ""
					}
				default:
					pendingIQ = ""
				}
				record(e)
			}
		case xml.EndElement:
			if t.Name.Local == "stream" {
				record(cElem{Kind: "close"})
				cur.Write([]byte("</stream:stream>"))
				end("client-closed")
				return
			}
		}
		if !reply {
			continue
		}
		noticed = -1
		peek() // has the client already written more, without waiting for the answer?
		if sent >= len(sc.Groups) {
			// a request the script has no answer for: the server drops the connection
			end("script-exhausted")
			if tc, ok := conn.(*net.TCPConn); ok {
				tc.SetLinger(0)
			}
			return
		}
		if sc.GateAt > 0 && sent == sc.GateAt-1 && sc.gateReached != nil {
			close(sc.gateReached)
			select {
			case <-sc.gateRelease:
			case <-time.After(10 * time.Second):
			}
		}
		g := sc.Groups[sent]
		sent++
		for gi, it := range g {
			switch it.T {
			case "eof":
				end("server-dropped")
				if tc, ok := conn.(*net.TCPConn); ok {
					tc.SetLinger(0)
				}
				return
			case "fin":
				// (C13) the server hangs up in an orderly way, without waiting for anything the client may still say
				end("server-closed")
				return
			case "wait":
				time.Sleep(time.Duration(it.N) * time.Millisecond)
				continue
			}
			if it.T == "iq" {
				switch {
				case !it.KeepID && pendingIQ != "":
					it.ID = pendingIQ // the answer carries the id of the request
				case it.KeepID && it.ID == "@bind":
					it.ID = bindIQ
					if pendingIQ == bindIQ {
						it.ID = "zz-" + bindIQ // (in answer to the bind request itself the bind id would be the right one)
					}
				}
			}
			data := it.xml()
			if it.T == "header" {
				otherOpen = it.Open == "other"
			} else if otherOpen {
				// after an <open/> in place of <stream:stream> there is no root element whose namespace declarations
				// the later elements could inherit: they carry their own, as over a websocket
				data = it.wsXML()
			}
			if _, err := cur.Write([]byte(data)); err != nil {
				end("write-error")
				return
			}
			if it.T == "close" && sc.HoldAfterClose {
				holding = true
			}
			items++
			if it.T != "proceed" && gi+1 < len(g) {
				peek()
			}
			if it.T == "proceed" {
				cfg := serverTLSConfig(sc.Cert)
				if sc.Tickets != "" {
					cfg.SetSessionTicketKeys([][32]byte{ticketKey})
					if sc.Tickets == "12" {
						cfg.MaxVersion = tls.VersionTLS12
					}
				}
				var under net.Conn = sinkConn{conn, &lg.RawBy, &s.mu}
				if sc.TLSCut != "" {
					under = &cutConn{Conn: under, mode: sc.TLSCut, limit: -1}
				}
				tc := tls.Server(under, cfg)
				// generous: a client that is still working on the handshake on a loaded machine is not to be timed out
				tc.SetDeadline(time.Now().Add(30 * time.Second))
				if err := tc.Handshake(); err != nil {
					s.mu.Lock()
					lg.TLS = "handshake-error"
					lg.TLSErr = err.Error()
					s.mu.Unlock()
					if sc.LingerMs > 0 {
						conn.SetReadDeadline(time.Now().Add(time.Duration(sc.LingerMs) * time.Millisecond))
						io.Copy(io.Discard, sinkConn{conn, &lg.RawBy, &s.mu})
					}
					end("tls-handshake-failed")
					return
				}
				tc.SetDeadline(time.Time{})
				s.mu.Lock()
				lg.TLS = "ok"
				lg.Resumed = tc.ConnectionState().DidResume
				if s.secured == nil {
					s.secured = map[net.Conn]*tls.Conn{}
				}
				s.secured[conn] = tc
				s.mu.Unlock()
				cur = tc
				secure = true
				pr = &peekReader{conn: tc, r: sinkReader{tc, &lg.SecureBy, &s.mu}}
				dec = xml.NewDecoder(pr)
			}
		}
	}
}

// push sends unsolicited traffic on connection idx (post-session stanzas).
func (s *scriptedServer) push(idx int, data string) error {
	s.mu.Lock()
	if idx >= len(s.active) {
		s.mu.Unlock()
		return fmt.Errorf("no connection %d", idx)
	}
	c := s.active[idx]
	tc := s.secured[c]
	s.mu.Unlock()
	if tc != nil {
		// the connection has been upgraded: unsolicited traffic goes through the TLS layer too
		_, err := tc.Write([]byte(data))
		return err
	}
	_, err := c.Write([]byte(data))
	return err
}

func (s *scriptedServer) drop(idx int) {
	s.mu.Lock()
	defer s.mu.Unlock()
	if idx < len(s.active) {
		if tc, ok := s.active[idx].(*net.TCPConn); ok {
			tc.SetLinger(0)
		}
		s.active[idx].Close()
	}
}

func (s *scriptedServer) stop() {
	s.ln.Close()
	s.mu.Lock()
	for _, c := range s.active {
		c.Close()
	}
	s.mu.Unlock()
	done := make(chan struct{})
	go func() { s.wg.Wait(); close(done) }()
	select {
	case <-done:
	case <-time.After(3 * time.Second):
	}
}

func (s *scriptedServer) snapshot() []connLog {
	s.mu.Lock()
	defer s.mu.Unlock()
	out := make([]connLog, len(s.logs))
	for i, l := range s.logs {
		out[i] = connLog{Elems: append([]cElem{}, l.Elems...), TLS: l.TLS, TLSErr: l.TLSErr, Resumed: l.Resumed, Ended: l.Ended, ClearBy: append([]byte{}, l.ClearBy...),
			RawBy: append([]byte{}, l.RawBy...), SecureBy: append([]byte{}, l.SecureBy...)}
	}
	return out
}

// ---- certificates ----
var (
	certOnce  sync.Once
	caPool    *x509.CertPool // trusts the good CA only
	certByKey map[string]tls.Certificate
)

const srvDomain = "xmpp.test"

func mkCert(parent *x509.Certificate, parentKey *ecdsa.PrivateKey, isCA bool, names []string, notBefore, notAfter time.Time, serial int64) (*x509.Certificate, *ecdsa.PrivateKey, []byte) {
	key, _ := ecdsa.GenerateKey(elliptic.P256(), rand.Reader)
	tpl := &x509.Certificate{
		SerialNumber: big.NewInt(serial), Subject: pkix.Name{CommonName: fmt.Sprintf("xv-%d", serial)},
		NotBefore: notBefore, NotAfter: notAfter, DNSNames: names,
		KeyUsage:    x509.KeyUsageDigitalSignature | x509.KeyUsageCertSign,
		ExtKeyUsage: []x509.ExtKeyUsage{x509.ExtKeyUsageServerAuth}, BasicConstraintsValid: true, IsCA: isCA,
	}
	p, pk := parent, parentKey
	if p == nil {
		p, pk = tpl, key
	}
	der, err := x509.CreateCertificate(rand.Reader, tpl, p, &key.PublicKey, pk)
	if err != nil {
		panic(err)
	}
	c, _ := x509.ParseCertificate(der)
	return c, key, der
}

func initCerts() {
	certOnce.Do(func() {
		now := time.Now()
		ca, caKey, _ := mkCert(nil, nil, true, nil, now.Add(-time.Hour), now.Add(24*time.Hour), 1)
		badCA, badKey, _ := mkCert(nil, nil, true, nil, now.Add(-time.Hour), now.Add(24*time.Hour), 2)
		caPool = x509.NewCertPool()
		caPool.AddCert(ca)
		certByKey = map[string]tls.Certificate{}
		mk := func(name string, p *x509.Certificate, pk *ecdsa.PrivateKey, names []string, nb, na time.Time, serial int64) {
			_, k, der := mkCert(p, pk, false, names, nb, na, serial)
			certByKey[name] = tls.Certificate{Certificate: [][]byte{der}, PrivateKey: k}
		}
		mk("valid", ca, caKey, []string{srvDomain}, now.Add(-time.Hour), now.Add(24*time.Hour), 10)
		mk("wronghost", ca, caKey, []string{"other.example"}, now.Add(-time.Hour), now.Add(24*time.Hour), 11)
		mk("untrusted", badCA, badKey, []string{srvDomain}, now.Add(-time.Hour), now.Add(24*time.Hour), 12)
		mk("expired", ca, caKey, []string{srvDomain}, now.Add(-48*time.Hour), now.Add(-24*time.Hour), 13)
		mk("both", ca, caKey, []string{srvDomain, "other.example"}, now.Add(-time.Hour), now.Add(24*time.Hour), 14) // C04: valid for the domain AND for the ServerName of the scenarios
	})
}

// ticketKey: the session ticket key of the servers that let clients resume (connScript.Tickets)
var ticketKey = [32]byte{'x', 'v', '-', 't', 'i', 'c', 'k', 'e', 't'}

func serverTLSConfig(kind string) *tls.Config {
	initCerts()
	if kind == "" {
		kind = "valid"
	}
	switch kind {
	case "tls13only":
		// a good certificate, but nothing below TLS 1.3: a client that allows TLS 1.2 at most gets the alert protocol_version
		return &tls.Config{Certificates: []tls.Certificate{certByKey["valid"]}, MinVersion: tls.VersionTLS13}
	case "needclientcert":
		// a good certificate, and the server demands one of the client: without it, the alert bad_certificate
		return &tls.Config{Certificates: []tls.Certificate{certByKey["valid"]}, ClientAuth: tls.RequireAnyClientCert}
	}
	return &tls.Config{Certificates: []tls.Certificate{certByKey[kind]}}
}

var _ = bytes.NewBuffer
