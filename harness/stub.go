package main

// In-memory xmpp.Transport with exact control over what the client reads and a
// record of everything it writes (DESIGN.md 2.3, "stub transport").

import (
	"bufio"
	"encoding/xml"
	"errors"
	"io"
	"sync"

	"gosrc.io/xmpp/stanza"
)

var errScriptEnd = errors.New("stub: connection lost (end of scripted input)")
var errStall = errors.New("stub: client reads but the reactive server has nothing to say before the next client write")

type stubWrite struct {
	Data      string
	Delivered int // number of inbound groups fully handed to the client when this write happened
	Failed    bool
}

type stubTransport struct {
	mu sync.Mutex
	// inbound
	groups    [][]byte // group g is released once nwrites >= gate[g]
	gate      []int
	gi, off   int
	chunk     int   // max bytes per Read (0 = unlimited)
	endErr    error // error delivered after the last group
	stalled   bool
	blockEnd  chan struct{} // if non-nil: at end of input block until closed instead of returning endErr at once
	feed      chan []byte   // if non-nil: once the groups are exhausted, further input arrives here (closed = connection lost)
	feedBuf   []byte
	delivered int

	dec *xml.Decoder

	// outbound
	writes      []stubWrite
	nwrites     int
	writeFailAt map[int]bool          // 1-based write numbers that fail
	blockAt     map[int]chan struct{} // 1-based write numbers that stall until the channel is closed
	shortWrite  map[int]bool
	pings       int
	pingFailAt  int
	closes      int
	closeCh     chan struct{}
	streamClose int
	starttls    int
	tlsErr      error
	secure      bool
	doesTLS     bool
	streamID    string
	logw        io.Writer
}

func newStub(groups [][]byte, gate []int) *stubTransport {
	t := &stubTransport{groups: groups, gate: gate, endErr: errScriptEnd, closeCh: make(chan struct{}), writeFailAt: map[int]bool{}, shortWrite: map[int]bool{}}
	t.dec = xml.NewDecoder(bufio.NewReaderSize(readerFunc(t.Read), 32768))
	return t
}

type readerFunc func(p []byte) (int, error)

func (f readerFunc) Read(p []byte) (int, error) { return f(p) }

func (t *stubTransport) Read(p []byte) (int, error) {
	t.mu.Lock()
	for t.gi < len(t.groups) && t.off >= len(t.groups[t.gi]) {
		t.gi++
		t.off = 0
		t.delivered = t.gi
	}
	if t.gi >= len(t.groups) && t.feed != nil {
		if len(t.feedBuf) == 0 {
			f := t.feed
			t.mu.Unlock()
			data, ok := <-f
			if !ok {
				return 0, t.endErr
			}
			t.mu.Lock()
			t.feedBuf = data
		}
		n := copy(p, t.feedBuf)
		t.feedBuf = t.feedBuf[n:]
		t.mu.Unlock()
		return n, nil
	}
	if t.gi >= len(t.groups) {
		be := t.blockEnd
		t.mu.Unlock()
		if be != nil {
			<-be
		}
		return 0, t.endErr
	}
	if t.gate != nil && t.nwrites < t.gate[t.gi] {
		t.stalled = true
		t.mu.Unlock()
		return 0, errStall
	}
	g := t.groups[t.gi][t.off:]
	n := len(g)
	if n > len(p) {
		n = len(p)
	}
	if t.chunk > 0 && n > t.chunk {
		n = t.chunk
	}
	copy(p, g[:n])
	t.off += n
	if t.off >= len(t.groups[t.gi]) {
		t.delivered = t.gi + 1
	}
	t.mu.Unlock()
	return n, nil
}

// exhausted: every scripted byte has been handed out.
func (t *stubTransport) exhausted() bool {
	t.mu.Lock()
	defer t.mu.Unlock()
	gi, off := t.gi, t.off
	for gi < len(t.groups) && off >= len(t.groups[gi]) {
		gi++
		off = 0
	}
	return gi >= len(t.groups)
}

func (t *stubTransport) Write(p []byte) (int, error) {
	t.mu.Lock()
	if gate, ok := t.blockAt[t.nwrites+1]; ok {
		delete(t.blockAt, t.nwrites+1)
		t.mu.Unlock()
		<-gate // a write stalled by the peer / the network
		t.mu.Lock()
	}
	defer t.mu.Unlock()
	t.nwrites++
	if t.writeFailAt[t.nwrites] {
		t.writes = append(t.writes, stubWrite{Data: string(p), Delivered: t.delivered, Failed: true})
		return 0, errors.New("stub: write failed")
	}
	t.writes = append(t.writes, stubWrite{Data: string(p), Delivered: t.delivered})
	if t.logw != nil {
		t.logw.Write(p)
	}
	return len(p), nil
}

func (t *stubTransport) Connect() (string, error) { return t.StartStream() }
func (t *stubTransport) DoesStartTLS() bool       { return t.doesTLS }
func (t *stubTransport) StartTLS() error {
	t.mu.Lock()
	defer t.mu.Unlock()
	t.starttls++
	if t.tlsErr != nil {
		return t.tlsErr
	}
	t.secure = true
	return nil
}
func (t *stubTransport) LogTraffic(w io.Writer) { t.logw = w }
func (t *stubTransport) StartStream() (string, error) {
	if _, err := t.Write([]byte("<OPEN/>")); err != nil {
		return "", err
	}
	id, err := stanza.InitStream(t.dec)
	if err != nil {
		return "", err
	}
	return id, nil
}
func (t *stubTransport) GetDecoder() *xml.Decoder { return t.dec }
func (t *stubTransport) IsSecure() bool           { t.mu.Lock(); defer t.mu.Unlock(); return t.secure }
func (t *stubTransport) Ping() error {
	t.mu.Lock()
	defer t.mu.Unlock()
	t.pings++
	if t.pingFailAt > 0 && t.pings >= t.pingFailAt {
		return errors.New("stub: ping failed")
	}
	return nil
}
func (t *stubTransport) Close() error {
	t.mu.Lock()
	t.closes++
	first := t.closes == 1
	t.mu.Unlock()
	if first {
		close(t.closeCh)
	}
	return nil
}
func (t *stubTransport) ReceivedStreamClose() { t.mu.Lock(); t.streamClose++; t.mu.Unlock() }

func (t *stubTransport) snapshotWrites() []stubWrite {
	t.mu.Lock()
	defer t.mu.Unlock()
	return append([]stubWrite{}, t.writes...)
}

const clientHeader = "<?xml version='1.0'?><stream:stream xmlns='jabber:client' xmlns:stream='http://etherx.jabber.org/streams' id='sid' version='1.0'>"
const componentHeader = "<?xml version='1.0'?><stream:stream xmlns='jabber:component:accept' xmlns:stream='http://etherx.jabber.org/streams' id='sid'>"
