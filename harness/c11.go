package main

// C11 as a composite check: connection histories against the scripted server (c03.go: genC11, genC11long; tag 0) and
// the resumption step on the in-memory transport with a FAILING WRITE of <resume/> (tag 1): the connection goes away
// after the features were read, the request never reaches the server. Nothing was refused and nothing confirmed: the
// connection must fail there, without a bind request on that stream, and the state held stays as it was.

import (
	"encoding/json"
	"fmt"
	"io"
	"math/rand"
	"strconv"

	xmpp "gosrc.io/xmpp"
)

type c11WF struct {
	SMEnable bool   `json:"sm_enable,omitempty"` // Config.StreamManagementEnable (false: the application does not ask for <enable/> on new sessions)
	SMResume bool   `json:"sm_resume,omitempty"`
	Resource string `json:"resource,omitempty"`
	Held     string `json:"held"`              // SMState.Id held from the earlier session
	Inbound  int    `json:"inbound,omitempty"` // SMState.Inbound
	Sess     int    `json:"sess,omitempty"`    // session feature of the stream: 0 absent 1 mandatory 2 optional
	SMOffer  bool   `json:"sm_offer"`          // the stream after authentication offers stream management
	WFail    bool   `json:"wfail,omitempty"`   // the write of <resume/> fails
	MoreFail bool   `json:"morefail,omitempty"`
	// MoreFail: every later write fails as well (the connection is gone for good); otherwise later writes succeed and
	// the server answers them as if nothing had happened (bind result, session result, <enabled/>)
	Reply sItem  `json:"reply"`  // the server's answer to <resume/> when the write succeeds
	NewID string `json:"new_id"` // id of the <enabled/> the server would send
}

type c11Case struct {
	Sess *sessIn `json:"sess,omitempty"`
	WF   *c11WF  `json:"wf,omitempty"`
}
type c11Prop struct{ s sessProp }

func (p c11Prop) ID() string    { return "C11" }
func (p c11Prop) RunFn() string { return "run_C11" }
func (p c11Prop) Workers() int  { return 48 }
func (p c11Prop) Journal() bool { return true }
func (p c11Prop) Rule() string {
	return p.s.rule + " PLUS the resumption step through the real NewSession on the in-memory transport: the write of <resume/> fails (alone, or with every later write), for a client that would / would not ask for <enable/> afterwards, session feature absent / mandatory / optional; control runs with the same set-up and a successful write (reply resumed / failed / other)"
}
func (p c11Prop) Gen(r *rand.Rand, tier string) []interface{} {
	var out []interface{}
	for _, x := range p.s.Gen(r, tier) {
		v := x.(sessIn)
		out = append(out, c11Case{Sess: &v})
	}
	n := 1
	if tier == "thorough" {
		n = 8
	}
	for k := 0; k < n; k++ {
		for _, sme := range []bool{false, true} {
			for sess := 0; sess < 3; sess++ {
				for _, more := range []bool{false, true} {
					w := c11WF{SMEnable: sme, SMResume: r.Intn(2) == 0, Held: fmt.Sprintf("held-%d", r.Intn(1000)), Inbound: r.Intn(50), Sess: sess,
						SMOffer: true, WFail: true, MoreFail: more, NewID: fmt.Sprintf("new-%d", r.Intn(1000))}
					if r.Intn(3) == 0 {
						w.Resource = "res"
					}
					out = append(out, c11Case{WF: &w})
				}
				// control: the same set-up, the write succeeds
				for _, rep := range []sItem{{T: "resumed", ID: "@held"}, {T: "failed"}, {T: "resumed", ID: "other"}, {T: "message", N: 1}, {T: "eof"}} {
					if k == 0 && tier != "thorough" && r.Intn(2) == 0 {
						continue
					}
					w := c11WF{SMEnable: sme, SMResume: true, Held: fmt.Sprintf("held-%d", r.Intn(1000)), Inbound: r.Intn(50), Sess: sess, SMOffer: true,
						Reply: rep, NewID: fmt.Sprintf("new-%d", r.Intn(1000))}
					if w.Reply.ID == "@held" {
						w.Reply.ID = w.Held
					}
					out = append(out, c11Case{WF: &w})
				}
			}
		}
		// no stream management offered on the new stream: no <resume/> is written, the fault never strikes
		w := c11WF{SMEnable: true, SMResume: true, Held: "held-x", Inbound: 3, SMOffer: false, WFail: true, NewID: "new-x"}
		out = append(out, c11Case{WF: &w})
	}
	return out
}
func (p c11Prop) Decode(raw json.RawMessage) (interface{}, error) {
	var c c11Case
	if err := json.Unmarshal(raw, &c); err != nil {
		return nil, err
	}
	if c.Sess == nil && c.WF == nil {
		// replay files written before C11 became a composite hold a bare session input
		var in sessIn
		if err := json.Unmarshal(raw, &in); err != nil {
			return nil, err
		}
		c.Sess = &in
	}
	return c, nil
}

// what the server holds ready after the features of the restarted stream: the answer to <resume/> (when that write
// is to succeed), then the answers to what a client that goes on would ask
func (w c11WF) after() (items []sItem) {
	if !w.WFail && w.SMOffer {
		items = append(items, w.Reply)
	}
	items = append(items, sItem{T: "iq", Typ: "result", ID: "1", Pl: "bind", Jid: "user@" + srvDomain + "/fresh"})
	if w.Sess == 1 {
		items = append(items, sItem{T: "iq", Typ: "result", ID: "2", Pl: "none"})
	}
	if w.SMOffer && w.SMEnable {
		items = append(items, sItem{T: "enabled", ID: w.NewID, Res: "true"})
	}
	return
}

func (w c11WF) features() sItem {
	return sItem{T: "features", Bind: true, Sess: w.Sess, SM: w.SMOffer}
}

func (p c11Prop) Run(in interface{}) Sx {
	c := in.(c11Case)
	if c.Sess != nil {
		return p.s.Run(*c.Sess)
	}
	w := *c.WF
	// writes: 1 stream header, 2 <auth/>, 3 stream header, 4 <resume/> (or the bind request), 5 ...
	groups := [][]byte{
		[]byte(hdrItem().xml() + sItem{T: "features", Mechs: []string{"PLAIN"}}.xml()),
		[]byte(sItem{T: "success"}.xml()),
		[]byte(hdrItem().xml() + w.features().xml()),
	}
	gate := []int{1, 2, 3}
	for i, it := range w.after() {
		if it.T == "eof" {
			break
		}
		groups = append(groups, []byte(it.xml()))
		gate = append(gate, 4+i)
	}
	st := newStub(groups, gate)
	st.endErr = io.ErrUnexpectedEOF           // the end of the script is the end of the connection
	if w.WFail && w.SMOffer && w.Held != "" { // the fourth write is the <resume/>
		st.writeFailAt[4] = true
		if w.MoreFail {
			for k := 5; k < 12; k++ {
				st.writeFailAt[k] = true
			}
		}
	}
	jid := "user@" + srvDomain
	if w.Resource != "" {
		jid += "/" + w.Resource
	}
	cfg := &xmpp.Config{TransportConfiguration: xmpp.TransportConfiguration{Address: "localhost:1"}, Jid: jid, Credential: xmpp.Password("secret"),
		StreamManagementEnable: w.SMEnable, Insecure: true}
	cfg.VerifSetSMResume(w.SMResume)
	client, err := xmpp.NewClient(cfg, xmpp.NewRouter(), func(error) {})
	if err != nil {
		return L(SBytes("newclient-failed: " + err.Error()))
	}
	xmpp.VerifSetTransport(client, st)
	xmpp.VerifSetSession(client, xmpp.SMState{Id: w.Held, Inbound: uint(w.Inbound)})
	cerr := xmpp.VerifClientConnect(client)
	var reqs []Sx
	failed := 0
	for i, wr := range st.snapshotWrites() {
		if i < 3 {
			continue // stream header, <auth/>, stream header
		}
		if wr.Failed {
			failed++
			continue
		}
		reqs = append(reqs, c11Req(wr.Data))
	}
	return L(LS(reqs), errSx(cerr), snapSx(snapClient(client)), Zi(failed))
}

// c11Req: a client write read as an abstract request (the alphabet of session.go: reqSx)
func c11Req(data string) Sx {
	ns, err := parseCanon([]byte(data))
	if err != nil || len(ns) != 1 {
		return L(Z(50), SBytes(data))
	}
	n := ns[0]
	attr := func(name string) string {
		for _, a := range n.Attrs {
			if a.Name.Local == name && a.Name.Space == "" {
				return a.Value
			}
		}
		return ""
	}
	hex := func(s string) int64 {
		v, err := strconv.ParseInt(s, 16, 64)
		if err != nil {
			return -1
		}
		return v
	}
	switch n.Name.Space + " " + n.Name.Local {
	case "urn:xmpp:sm:3 resume":
		h, err := strconv.Atoi(attr("h"))
		if err != nil {
			h = -1
		}
		return L(Z(3), SBytes(attr("previd")), Zi(h))
	case "urn:xmpp:sm:3 enable":
		return L(Z(6), B(attr("resume") == "true"))
	case "jabber:client iq", " iq":
		for _, k := range n.Kids {
			switch k.Name.Space + " " + k.Name.Local {
			case "urn:ietf:params:xml:ns:xmpp-bind bind":
				res := ""
				for _, kk := range k.Kids {
					if kk.Name.Local == "resource" {
						for _, t := range kk.Kids {
							res += t.Text
						}
					}
				}
				return L(Z(4), SBytes(res), Z(hex(attr("id"))))
			case "urn:ietf:params:xml:ns:xmpp-session session":
				return L(Z(5), Z(hex(attr("id"))))
			}
		}
	}
	return L(Z(50), SBytes(n.Name.Space+" "+n.Name.Local))
}

func (p c11Prop) Input(in interface{}) Sx { return p.InputObs(in, L()) }
func (p c11Prop) InputObs(in interface{}, obs Sx) Sx {
	c := in.(c11Case)
	if c.Sess != nil {
		return L(Z(0), p.s.InputObs(*c.Sess, obs))
	}
	w := *c.WF
	var items []Sx
	for _, it := range w.after() {
		items = append(items, itemSx(it))
	}
	return L(Z(1), L(B(true), SBytes(w.Resource), B(w.SMResume), LS([]Sx{SBytes("PLAIN")})),
		L(SBytes(w.Held), Zi(w.Inbound), B(w.SMEnable)), featuresSx(w.features()), LS(items), B(w.WFail))
}

func (p c11Prop) Oracle(in interface{}, obs Sx) (string, string) {
	c := in.(c11Case)
	if c.Sess != nil {
		return p.s.Oracle(*c.Sess, obs)
	}
	w := *c.WF
	if len(obs.L) != 4 {
		return "scenario did not finish: " + obs.String(), "hang"
	}
	reqs, ok, snap := obs.L[0].L, obs.L[1].L[0].Z == 0, obs.L[2]
	id, inb := string(bytesOf(snap.L[1])), snap.L[2].Z
	if !(w.WFail && w.SMOffer) {
		return "", "" // control runs: compared with the model only
	}
	// the write of <resume/> failed: the server has neither confirmed nor refused anything
	for _, rq := range reqs {
		if rq.L[0].Z == 4 {
			return fmt.Sprintf("the write of <resume previd=%q/> failed, yet a bind request followed on the same stream (Connect returned ok=%v; the client holds id %q afterwards)", w.Held, ok, id), "resume-write-failed-bind-follows"
		}
	}
	if ok {
		return fmt.Sprintf("the write of <resume previd=%q/> failed and Connect returned nil", w.Held), "resume-write-failed-success"
	}
	if len(reqs) != 0 {
		return fmt.Sprintf("the write of <resume/> failed, yet %d further request(s) were written: %s", len(reqs), obs.L[0].String()), "resume-write-failed-more-requests"
	}
	if id != w.Held || inb != int64(w.Inbound) {
		return fmt.Sprintf("the write of <resume previd=%q h=%d/> failed (the server saw nothing): the client holds id %q, count %d afterwards", w.Held, w.Inbound, id, inb), "resume-write-failed-state-changed"
	}
	return "", ""
}

func (p c11Prop) Key(in interface{}) (string, bool) {
	c := in.(c11Case)
	if c.Sess != nil {
		return p.s.Key(*c.Sess)
	}
	w := *c.WF
	hist("tag:resume-write")
	return fmt.Sprintf("WF e%v s%d o%v f%v m%v r%s%v res%v", w.SMEnable, w.Sess, w.SMOffer, w.WFail, w.MoreFail, w.Reply.T, w.Reply.ID == w.Held, w.Resource != ""), true
}
