package main

// C02: stanza.NextPacket on one decoder vs Model/Parser.v (token level).
//
// The harness generates a stream as a list of trees, serialises the trees ITSELF to
// bytes (prefix form for the stream namespace, default-namespace form otherwise), feeds
// one xml.Decoder (after stanza.InitStream consumed the header) and calls
// stanza.NextPacket until it returns an error.  The model receives the harness's OWN
// flattening of the same trees into tokens (names with resolved namespaces), so the
// byte->token step of encoding/xml is under test, not assumed.  Every stream is replayed
// through several read segmentations; the packet sequence must be identical.
// A second generator produces malformed byte streams (truncations, corruptions, random
// bytes): oracle only (error in bounded time, no panic, packets before the error are a
// prefix of the intact stream's packets); the model has no bytes, it answers a placeholder.

import (
	"encoding/json"
	"encoding/xml"
	"fmt"
	"io"
	"math/rand"
	"runtime/debug"
	"sort"
	"strconv"
	"strings"
	"time"

	"gosrc.io/xmpp/stanza"
)

const (
	c02NSStream    = "http://etherx.jabber.org/streams"
	c02NSClient    = "jabber:client"
	c02NSComponent = "jabber:component:accept"
	c02NSSASL      = "urn:ietf:params:xml:ns:xmpp-sasl"
	c02NSSM        = "urn:xmpp:sm:3"
	c02NSStanzas   = "urn:ietf:params:xml:ns:xmpp-stanzas"
	c02NSXML       = "http://www.w3.org/XML/1998/namespace"
	c02NSMuc       = "http://jabber.org/protocol/muc"
)

// c02Node: K 0 element, 1 text, 2 comment, 3 processing instruction, 4 CDATA section.
// Deep > 0: the element is nested inside itself Deep more times (a chain), children at the
// bottom - keeps inputs of depth 20000 small.
type c02Node struct {
	K    int       `json:"k"`
	NS   string    `json:"ns,omitempty"`
	L    string    `json:"l,omitempty"`
	A    []c02Attr `json:"a,omitempty"`
	C    []c02Node `json:"c,omitempty"`
	T    string    `json:"t,omitempty"`
	Deep int       `json:"deep,omitempty"`
}
type c02Attr struct {
	NS string `json:"ns,omitempty"` // "" unqualified; c02NSXML => xml: prefix; "xmlns" => declaration of prefix L; else a declared prefix
	L  string `json:"l"`
	V  string `json:"v"`
}

type c02In struct {
	Mode      string    `json:"mode"` // "stream" | "malformed" | "deepfwd" | "deepnode"
	// deepfwd: one <Kind/> stanza holding Depth nested <delegation><forwarded><Kind> wrappers
	// (the 10 MB document is generated from these two fields, never stored)
	Depth int    `json:"depth,omitempty"`
	Kind  string `json:"kind,omitempty"`
	// Shape of every Every-th level (Every 0/1 = each level): "" plain;
	// "sib-before" / "sib-after": an empty <forwarded/> sibling before / after the nesting one;
	// "sib-both"; "deleg-before": a whole <delegation><forwarded/></delegation> sibling before
	// the nesting <delegation/>; "stanza-sib": the sibling <forwarded/> holds a small stanza
	Shape string `json:"shape,omitempty"`
	Every int    `json:"every,omitempty"`
	// Bound: do not go to crash depth; parse depth Depth and 2*Depth and require that the
	// decoder followed the nesting equally far in both (it is bounded, not input-driven)
	Bound bool `json:"bound,omitempty"`
	// deepnode: one element of kind Kind (message | presence | iq | features) holding, at the
	// position Where (see c02NodePositions), a chain of Depth nested unknown elements (root of
	// the chain included); Shape "" plain, "sib": every level of the chain also has an empty
	// sibling before and after the nested child, "text": character data at every level.
	// The document is generated from these fields at run time, never stored.
	Where string `json:"where,omitempty"`
	Component bool      `json:"component,omitempty"`
	Items     []c02Node `json:"items,omitempty"`
	Closed    bool      `json:"closed,omitempty"` // </stream:stream> at the end
	AllSplits bool      `json:"allsplits,omitempty"`
	ChunkSeed int64     `json:"chunkseed,omitempty"`
	// malformed: the bytes after the stream header are derived from Items (+Closed) by
	Cut     int    `json:"cut,omitempty"`     // Op "cut": keep this many bytes
	Op      string `json:"op,omitempty"`      // cut | corrupt | random
	Pos     int    `json:"pos,omitempty"`     // corrupt: offset
	Byte    int    `json:"byte,omitempty"`    // corrupt: new value
	RawSeed int64  `json:"rawseed,omitempty"` // random: seed
	RawLen  int    `json:"rawlen,omitempty"`
}

type c02 struct{}

func init() { register(c02{}) }

func (c02) ID() string    { return "C02" }
func (c02) RunFn() string { return "run_C02" }
func (c02) Workers() int  { return 8 }

// Journal: the case in flight is written down first, so that an input that brings the process
// down (fatal error: stack overflow cannot be recovered) is found again and reported.
func (c02) Journal() bool { return true }
func (c02) Rule() string {
	return "streams of 0-8 top-level elements (client / component / stream / SASL / SM namespaces, ~8% with an undispatchable element) after a real stream header; stanza start tags with unqualified type/id/from/to, xml:lang and qualified look-alikes (p:id, xmlns:id, q:lang, unqualified lang); children drawn from registered extensions with valid content incl. every one with a hand-written UnmarshalXML (pubsub event, pubsub owner, command, delegation/forwarded, MUC history) holding same-named descendants below unknown children, unknown elements (incl. names body/error/show/message/presence/iq/forwarded/failed below unknown parents), same-named nested stanzas (carbons/MAM shape), known child names, error children, <failed/> with listed, unlisted and unknown children and any h, chains of depth up to 200 (thorough 20000), chains of unknown elements of depth 1000 / 4096 / 10000 / 10001 / 20000 / 65536 / 100001 (thorough: 24 depths up to 250000; plain, with siblings, with text at every level) at every position where content is decoded generically into a Node (unknown iq payload; child of, inside the condition of and inside the text of the <error/> of iq / message / presence; <starttls/> of the features; pubsub item payload in request, publish and event; unknown / x / set children of an ad-hoc command) and at the skipping positions (unknown child of message / presence, body, status, disco query, features), each read whole and in random chunks, plus depth 10001 and 12345 at the iq-payload and error positions through the model, text/CDATA/comments/PIs inside and between elements; each stream read whole, 1 byte per read, random chunks, and (one stream per run) split at every offset; malformed: every truncation of one stream, random byte corruptions, random bytes. distinct = distinct sequence of (top-level kind, child-shape summary); non-trivial = at least 2 top-level elements one of which has element children"
}

// ---------------------------------------------------------------- serialisation

func c02EscText(s string) string {
	s = strings.ReplaceAll(s, "&", "&amp;")
	s = strings.ReplaceAll(s, "<", "&lt;")
	return strings.ReplaceAll(s, ">", "&gt;")
}
func c02EscAttr(s string) string {
	s = c02EscText(s)
	s = strings.ReplaceAll(s, "'", "&apos;")
	return strings.ReplaceAll(s, "\"", "&quot;")
}

// c02Emit writes the bytes of the nodes and, independently of any XML library, the tokens
// the model is given: (0 ns local attrs) start, (1 ns local) end, (2 text), (3) misc.
type c02Emit struct {
	b    strings.Builder
	toks []Sx
	npfx int
}

func (e *c02Emit) start(n *c02Node, def string) (tag string, newDef string) {
	var attrs []Sx
	e.b.WriteByte('<')
	newDef = def
	if n.NS == c02NSStream {
		tag = "stream:" + n.L
		e.b.WriteString(tag)
	} else {
		tag = n.L
		e.b.WriteString(tag)
		if n.NS != def {
			fmt.Fprintf(&e.b, " xmlns='%s'", c02EscAttr(n.NS))
			attrs = append(attrs, L(SBytes(""), SBytes("xmlns"), SBytes(n.NS)))
			newDef = n.NS
		}
	}
	for _, a := range n.A {
		switch a.NS {
		case "":
			fmt.Fprintf(&e.b, " %s='%s'", a.L, c02EscAttr(a.V))
		case c02NSXML:
			fmt.Fprintf(&e.b, " xml:%s='%s'", a.L, c02EscAttr(a.V))
		case "xmlns":
			// a prefix declaration whose prefix is a.L (Go: Attr{Name{"xmlns", prefix}, uri})
			fmt.Fprintf(&e.b, " xmlns:%s='%s'", a.L, c02EscAttr(a.V))
		default:
			e.npfx++
			p := "p" + strconv.Itoa(e.npfx)
			fmt.Fprintf(&e.b, " xmlns:%s='%s' %s:%s='%s'", p, c02EscAttr(a.NS), p, a.L, c02EscAttr(a.V))
			attrs = append(attrs, L(SBytes("xmlns"), SBytes(p), SBytes(a.NS)))
		}
		attrs = append(attrs, L(SBytes(a.NS), SBytes(a.L), SBytes(a.V)))
	}
	e.toks = append(e.toks, L(Z(0), SBytes(n.NS), SBytes(n.L), LS(attrs)))
	return tag, newDef
}

func (e *c02Emit) node(n *c02Node, def string) {
	switch n.K {
	case 1:
		e.b.WriteString(c02EscText(n.T))
		e.toks = append(e.toks, L(Z(2), SBytes(n.T)))
	case 2:
		e.b.WriteString("<!--" + n.T + "-->")
		e.toks = append(e.toks, L(Z(3)))
	case 3:
		e.b.WriteString("<?" + n.T + "?>")
		e.toks = append(e.toks, L(Z(3)))
	case 4:
		e.b.WriteString("<![CDATA[" + n.T + "]]>")
		e.toks = append(e.toks, L(Z(2), SBytes(n.T)))
	default:
		tag, nd := e.start(n, def)
		if n.Deep == 0 && len(n.C) == 0 && len(n.L)%2 == 0 {
			// self-closing form for some childless elements (Go still yields start + end)
			e.b.WriteString("/>")
			e.toks = append(e.toks, L(Z(1), SBytes(n.NS), SBytes(n.L)))
			return
		}
		e.b.WriteByte('>')
		inner := c02Node{K: 0, NS: n.NS, L: n.L}
		for i := 0; i < n.Deep; i++ {
			e.start(&inner, nd)
			e.b.WriteByte('>')
		}
		for i := range n.C {
			e.node(&n.C[i], nd)
		}
		for i := 0; i <= n.Deep; i++ {
			e.b.WriteString("</" + tag + ">")
			e.toks = append(e.toks, L(Z(1), SBytes(n.NS), SBytes(n.L)))
		}
	}
}

func c02Header(component bool) string {
	def := c02NSClient
	if component {
		def = c02NSComponent
	}
	return "<?xml version='1.0'?><stream:stream xmlns='" + def + "' xmlns:stream='" + c02NSStream + "' id='c02' version='1.0'>"
}

// c02Render: bytes after the header, and the model's tokens.
func c02Render(in *c02In) (string, []Sx) {
	e := &c02Emit{}
	def := c02NSClient
	if in.Component {
		def = c02NSComponent
	}
	for i := range in.Items {
		e.node(&in.Items[i], def)
	}
	if in.Closed {
		e.b.WriteString("</stream:stream>")
		e.toks = append(e.toks, L(Z(1), SBytes(c02NSStream), SBytes("stream")))
	}
	// trailing line feed: see c02ErrClass
	e.b.WriteString("\n")
	e.toks = append(e.toks, L(Z(2), SBytes("\n")))
	return e.b.String(), e.toks
}

// ---------------------------------------------------------------- running the code

type c02ChunkReader struct {
	data []byte
	pos  int
	next func(remaining int) int // bytes to hand out at the next Read
}

func (c *c02ChunkReader) Read(p []byte) (int, error) {
	if c.pos >= len(c.data) {
		return 0, io.EOF
	}
	n := c.next(len(c.data) - c.pos)
	if n < 1 {
		n = 1
	}
	if n > len(p) {
		n = len(p)
	}
	if n > len(c.data)-c.pos {
		n = len(c.data) - c.pos
	}
	copy(p, c.data[c.pos:c.pos+n])
	c.pos += n
	return n, nil
}

// c02ErrClass classifies a NextPacket error by what is observable about the decoder, never
// by the error's text or type (wording and wrapping are not part of the property):
//
//	1  the input is exhausted: every byte has been consumed when the error is returned
//	   (the peer stopped sending, with or without </stream:stream>);
//	2  an element was rejected: the error is returned while input remains - the element's
//	   name is not dispatchable or its decoder failed.
//
// Every rendered stream ends with a line feed after its last element / end tag, so that a
// rejected last element (even a self-closing one) still leaves input behind it.
func c02ErrClass(d *xml.Decoder, total int) int64 {
	if d.InputOffset() >= int64(total) {
		return 1
	}
	return 2
}

func c02Attrs(code int64, a stanza.Attrs, lang bool) Sx {
	l := a.Lang
	if !lang {
		l = ""
	}
	return L(Z(code), SBytes(string(a.Type)), SBytes(a.Id), SBytes(a.From), SBytes(a.To), SBytes(l))
}

func c02PacketSx(p stanza.Packet) Sx {
	switch v := p.(type) {
	case stanza.Message:
		return c02Attrs(1, v.Attrs, true)
	case stanza.Presence:
		return c02Attrs(2, v.Attrs, true)
	case *stanza.IQ:
		return c02Attrs(3, v.Attrs, true)
	case stanza.StreamFeatures:
		return L(Z(4))
	case stanza.StreamError:
		return L(Z(5))
	case stanza.SASLSuccess:
		return L(Z(6))
	case stanza.SASLFailure:
		return L(Z(7))
	case stanza.Handshake:
		return L(Z(8))
	case stanza.SMEnabled:
		return L(Z(9))
	case stanza.SMResumed:
		return L(Z(10))
	case stanza.SMResume:
		return L(Z(11))
	case stanza.SMRequest:
		return L(Z(12))
	case stanza.SMAnswer:
		return L(Z(13))
	case stanza.SMFailed:
		return L(Z(14))
	case stanza.StreamClosePacket:
		return L(Z(15))
	default:
		return L(Z(98), SBytes(fmt.Sprintf("%T", p)))
	}
}

// c02Parse: InitStream + NextPacket until error, on one decoder over r.
// status: 0 ended with an error, 1 timeout, 2 panic, 3 more than limit packets.
func c02Parse(r io.Reader, total int, limit int, timeout time.Duration) (seq []Sx, status int, detail string) {
	seq, _, status, detail = c02ParseV(r, total, limit, timeout)
	return
}

// c02SMVals: the attribute-borne fields of a stream-management packet, for the direct oracle
func c02SMVals(p stanza.Packet) string {
	up := func(u *uint) string {
		if u == nil {
			return "nil"
		}
		return fmt.Sprint(*u)
	}
	switch v := p.(type) {
	case stanza.SMEnabled:
		return fmt.Sprintf("id=%q location=%q resume=%q max=%d", v.Id, v.Location, v.Resume, v.Max)
	case stanza.SMResumed:
		return fmt.Sprintf("previd=%q h=%s", v.PrevId, up(v.H))
	case stanza.SMResume:
		return fmt.Sprintf("previd=%q h=%s", v.PrevId, up(v.H))
	case stanza.SMAnswer:
		return fmt.Sprintf("h=%d", v.H)
	}
	return ""
}

func c02ParseV(r io.Reader, total int, limit int, timeout time.Duration) (seq []Sx, vals []string, status int, detail string) {
	type res struct {
		seq    []Sx
		vals   []string
		status int
		detail string
	}
	ch := make(chan res, 1)
	go func() {
		var out []Sx
		var vals []string
		defer func() {
			if p := recover(); p != nil {
				ch <- res{out, nil, 2, fmt.Sprint(p)}
			}
		}()
		d := xml.NewDecoder(r)
		if _, err := stanza.InitStream(d); err != nil {
			ch <- res{append(out, L(Z(0), Z(5))), nil, 0, ""}
			return
		}
		for i := 0; i < limit; i++ {
			p, err := stanza.NextPacket(d)
			if err != nil {
				ch <- res{append(out, L(Z(0), Z(c02ErrClass(d, total)))), vals, 0, ""}
				return
			}
			out = append(out, c02PacketSx(p))
			vals = append(vals, c02SMVals(p))
		}
		ch <- res{out, vals, 3, ""}
	}()
	select {
	case x := <-ch:
		return x.seq, x.vals, x.status, x.detail
	case <-time.After(timeout):
		return nil, nil, 1, "timeout"
	}
}

func c02MalformedBytes(in *c02In) []byte {
	body, _ := c02Render(in)
	full := []byte(c02Header(in.Component) + body)
	switch in.Op {
	case "cut":
		if in.Cut < len(full) {
			return full[:in.Cut]
		}
		return full
	case "corrupt":
		if len(full) > 0 {
			full[in.Pos%len(full)] = byte(in.Byte)
		}
		return full
	default:
		rr := rand.New(rand.NewSource(in.RawSeed))
		raw := make([]byte, in.RawLen)
		alphabet := []byte("<>/='\"&;!?-[] abxmlns:stream\x00\xff\xc3")
		for i := range raw {
			if rr.Intn(3) == 0 {
				raw[i] = byte(rr.Intn(256))
			} else {
				raw[i] = alphabet[rr.Intn(len(alphabet))]
			}
		}
		if rr.Intn(2) == 0 {
			return append([]byte(c02Header(in.Component)), raw...)
		}
		return raw
	}
}

func c02SeqEq(a, b []Sx) bool {
	if len(a) != len(b) {
		return false
	}
	for i := range a {
		if a[i].String() != b[i].String() {
			return false
		}
	}
	return true
}

// c02DeepDoc: header + one stanza with depth nested delegation/forwarded/stanza wrappers + a
// sentinel presence + end tag
func c02DeepDoc(kind string, depth int, shape string, every int) []byte {
	const (
		dOpen = "<delegation xmlns='urn:xmpp:delegation:1'>"
		fOpen = "<forwarded xmlns='urn:xmpp:forward:0'>"
		fSib  = "<forwarded xmlns='urn:xmpp:forward:0'/>"
	)
	if every < 1 {
		every = 1
	}
	kOpen := "<" + kind + " xmlns='jabber:client'>"
	stSib := fOpen + "<" + kind + " xmlns='jabber:client' id='sib'/></forwarded>"
	var b strings.Builder
	b.Grow((len(dOpen)+2*len(fOpen)+2*len(kOpen)+60)*depth + 400)
	b.WriteString(c02Header(false))
	b.WriteString("<" + kind + " id='top' type='set'>")
	shaped := func(i int) bool { return shape != "" && i%every == 0 }
	for i := 0; i < depth; i++ {
		if shaped(i) && shape == "deleg-before" {
			b.WriteString(dOpen + fSib + "</delegation>")
		}
		b.WriteString(dOpen)
		if shaped(i) {
			switch shape {
			case "sib-before", "sib-both":
				b.WriteString(fSib)
			case "stanza-sib":
				b.WriteString(stSib)
			}
		}
		b.WriteString(fOpen)
		b.WriteString(kOpen)
	}
	for i := depth - 1; i >= 0; i-- {
		b.WriteString("</" + kind + "></forwarded>")
		if shaped(i) && (shape == "sib-after" || shape == "sib-both") {
			b.WriteString(fSib)
		}
		b.WriteString("</delegation>")
	}
	b.WriteString("</" + kind + "><presence id='after'/></stream:stream>\n")
	return []byte(b.String())
}

// c02NodePositions: every position of a top-level element at which the library decodes
// content generically (into a stanza.Node, whose tree is as deep as the input), and, for
// contrast, the positions at which unknown content is skipped.  kinds = the top-level elements
// the position exists in; open/close = what stands between the top-level element's start tag
// and the chain; el = local name of the chain's elements (namespace "u").
var c02NodePositions = []struct {
	where       string
	kinds       []string
	open, close string
	el          string
}{
	// unknown payload of an iq (IQ.Any); for message and presence an unknown child is skipped
	{"child", []string{"iq", "message", "presence"}, "", "", "x"},
	// children of the stanza <error/> (Err.UnmarshalXML reads each child into a Node): between
	// the condition and the text, and inside the condition
	{"error", []string{"iq", "message", "presence"}, "<error type='cancel'><item-not-found xmlns='" + c02NSStanzas + "'/>", "<text xmlns='" + c02NSStanzas + "'>why</text></error>", "x"},
	{"error-cond", []string{"iq", "message", "presence"}, "<error type='modify'><gone xmlns='" + c02NSStanzas + "'>", "</gone></error>", "x"},
	{"error-text", []string{"iq", "message", "presence"}, "<error type='wait'><conflict xmlns='" + c02NSStanzas + "'/><text xmlns='" + c02NSStanzas + "'>", "</text></error>", "x"},
	// children of <starttls/> in the stream features (TlsStartTLS.UnmarshalXML)
	{"starttls", []string{"features"}, "<starttls xmlns='urn:ietf:params:xml:ns:xmpp-tls'>", "</starttls>", "x"},
	// Node-typed fields of registered extensions: the payload of a pubsub item (request and
	// event), unknown children of an ad-hoc command (default branch and the x / set look-alikes)
	{"pubsub-item", []string{"iq"}, "<pubsub xmlns='http://jabber.org/protocol/pubsub'><items node='n'><item id='i'>", "</item></items></pubsub>", "x"},
	{"pubsub-publish", []string{"iq"}, "<pubsub xmlns='http://jabber.org/protocol/pubsub'><publish node='n'><item id='i'>", "</item></publish></pubsub>", "x"},
	{"event-item", []string{"message"}, "<event xmlns='http://jabber.org/protocol/pubsub#event'><items node='n'><item id='i'>", "</item></items></event>", "x"},
	{"command", []string{"iq"}, "<command xmlns='http://jabber.org/protocol/commands' node='n'>", "</command>", "y"},
	{"command-x", []string{"iq"}, "<command xmlns='http://jabber.org/protocol/commands' node='n'>", "</command>", "x"},
	{"command-set", []string{"iq"}, "<command xmlns='http://jabber.org/protocol/commands' node='n'>", "</command>", "set"},
	// skipped content: below a known string-valued child, below a registered extension
	// decoded by reflection, below the stream features
	{"body", []string{"message"}, "<body>", "</body>", "x"},
	{"status", []string{"presence"}, "<status>", "</status>", "x"},
	{"disco", []string{"iq"}, "<query xmlns='http://jabber.org/protocol/disco#info'>", "</query>", "x"},
	{"features", []string{"features"}, "", "", "x"},
}

// c02NodeDoc: header + one top-level element with a chain of depth nested unknown elements at
// the position where + a sentinel presence + end tag; nil if there is no such position.
func c02NodeDoc(kind, where string, depth int, shape string) []byte {
	for _, p := range c02NodePositions {
		if p.where != where {
			continue
		}
		ok := false
		for _, k := range p.kinds {
			ok = ok || k == kind
		}
		if !ok {
			return nil
		}
		var b strings.Builder
		b.Grow(depth*(2*len(p.el)+24) + 600)
		b.WriteString(c02Header(false))
		tag := kind
		if kind == "features" {
			tag = "stream:features"
			b.WriteString("<stream:features>")
		} else {
			typ := "set"
			if strings.HasPrefix(where, "error") {
				typ = "error"
			}
			b.WriteString("<" + kind + " id='top' type='" + typ + "'>")
		}
		b.WriteString(p.open)
		for i := 0; i < depth; i++ {
			if i == 0 {
				b.WriteString("<" + p.el + " xmlns='u'>")
			} else {
				b.WriteString("<" + p.el + ">")
			}
			switch shape {
			case "sib":
				b.WriteString("<s/>")
			case "text":
				b.WriteString("a")
			}
		}
		for i := 0; i < depth; i++ {
			switch shape {
			case "sib":
				b.WriteString("<s a='1'/>")
			case "text":
				b.WriteString("b")
			}
			b.WriteString("</" + p.el + ">")
		}
		b.WriteString(p.close)
		b.WriteString("</" + tag + "><presence id='after'/></stream:stream>\n")
		return []byte(b.String())
	}
	return nil
}

// c02Followed: how many levels of forwarded stanzas the decoder followed in the packet it
// returned (packet -> delegation -> forwarded -> stanza -> ...)
func c02Followed(p stanza.Packet) int {
	n := 0
	for p != nil && n < 10000000 {
		var d *stanza.Delegation
		switch v := p.(type) {
		case *stanza.IQ:
			d, _ = v.Payload.(*stanza.Delegation)
		case stanza.Message:
			for _, e := range v.Extensions {
				if x, ok := e.(*stanza.Delegation); ok {
					d = x
				}
			}
		}
		if d == nil || d.Forwarded == nil || d.Forwarded.Stanza == nil {
			return n
		}
		n++
		p = d.Forwarded.Stanza
	}
	return n
}

// c02ParseDeep: the packets of a deepfwd document, and how far the first one was followed
func c02ParseDeep(data []byte, timeout time.Duration) (seq []Sx, followed int, status int) {
	type res struct {
		seq      []Sx
		followed int
		status   int
	}
	ch := make(chan res, 1)
	go func() {
		var out []Sx
		fol := -1
		defer func() {
			if p := recover(); p != nil {
				ch <- res{out, fol, 2}
			}
		}()
		d := xml.NewDecoder(&c02ChunkReader{data: data, next: func(int) int { return 1 << 16 }})
		if _, err := stanza.InitStream(d); err != nil {
			ch <- res{out, fol, 0}
			return
		}
		for i := 0; i < 10; i++ {
			p, err := stanza.NextPacket(d)
			if err != nil {
				ch <- res{append(out, L(Z(0), Z(c02ErrClass(d, len(data))))), fol, 0}
				return
			}
			if i == 0 {
				fol = c02Followed(p)
			}
			out = append(out, c02PacketSx(p))
		}
		ch <- res{out, fol, 3}
	}()
	select {
	case x := <-ch:
		return x.seq, x.followed, x.status
	case <-time.After(timeout):
		return nil, -1, 1
	}
}

// c02SMWant: what the attribute-borne fields of a stream-management element must be, from its
// own UNQUALIFIED attributes ("" = not checked: not such an element, or an attribute does not convert)
func c02SMWant(n *c02Node) string {
	if n.NS != c02NSSM {
		return ""
	}
	get := func(l string) (string, bool) {
		v, ok := "", false
		for _, a := range n.A {
			if a.NS == "" && a.L == l {
				v, ok = a.V, true
			}
		}
		return v, ok
	}
	num := func(l string, ptr bool) (string, bool) {
		v, ok := get(l)
		if !ok {
			if ptr {
				return "nil", true
			}
			return "0", true
		}
		if v == "" {
			return "0", true
		}
		u, err := strconv.ParseUint(strings.TrimSpace(v), 10, 64)
		return fmt.Sprint(u), err == nil
	}
	str := func(l string) string { v, _ := get(l); return v }
	switch n.L {
	case "enabled":
		if m, ok := num("max", false); ok {
			return fmt.Sprintf("id=%q location=%q resume=%q max=%s", str("id"), str("location"), str("resume"), m)
		}
	case "resumed", "resume":
		if h, ok := num("h", true); ok {
			return fmt.Sprintf("previd=%q h=%s", str("previd"), h)
		}
	case "a":
		if h, ok := num("h", false); ok {
			return "h=" + h
		}
	}
	return ""
}

func (c02) Run(inp interface{}) Sx {
	in := inp.(c02In)
	if in.Mode == "deepfwd" {
		// A stack that follows the input shows up long before the default 1 GB limit is
		// reached: bounded nesting needs a few hundred KB whatever the input, so 128 MB is
		// ample for every case of this property (the setting is process wide; xvrun runs one
		// property per process).
		debug.SetMaxStack(128 << 20)
		code := map[string]int64{"message": 1, "iq": 3}[in.Kind]
		want := []Sx{L(Z(code), SBytes("set"), SBytes("top"), SBytes(""), SBytes(""), SBytes("")),
			L(Z(2), SBytes(""), SBytes("after"), SBytes(""), SBytes(""), SBytes("")), L(Z(15)), L(Z(0), Z(1))}
		seq, fol, status := c02ParseDeep(c02DeepDoc(in.Kind, in.Depth, in.Shape, in.Every), 120*time.Second)
		if status != 0 || !c02SeqEq(seq, want) {
			return L(Z(-5), Zi(status), LS(seq))
		}
		if in.Bound {
			// how far the nesting is followed must not depend on how deep the input goes
			seq2, fol2, status2 := c02ParseDeep(c02DeepDoc(in.Kind, 2*in.Depth, in.Shape, in.Every), 120*time.Second)
			if status2 != 0 || !c02SeqEq(seq2, want) {
				return L(Z(-5), Zi(status2), LS(seq2))
			}
			if fol != fol2 || fol >= in.Depth {
				return L(Z(-7), Zi(fol), Zi(fol2))
			}
		}
		return L(Z(77))
	}
	if in.Mode == "deepnode" {
		// same stack arrangement as deepfwd: generic content is kept with an explicit stack, so
		// a goroutine stack that grows with the input ends the process (crash journal) long
		// before the default 1 GB
		debug.SetMaxStack(128 << 20)
		data := c02NodeDoc(in.Kind, in.Where, in.Depth, in.Shape)
		if data == nil {
			return L(Z(-8))
		}
		var first Sx
		if in.Kind == "features" {
			first = L(Z(4))
		} else {
			typ := "set"
			if strings.HasPrefix(in.Where, "error") {
				typ = "error"
			}
			code := map[string]int64{"message": 1, "presence": 2, "iq": 3}[in.Kind]
			first = L(Z(code), SBytes(typ), SBytes("top"), SBytes(""), SBytes(""), SBytes(""))
		}
		want := []Sx{first, L(Z(2), SBytes(""), SBytes("after"), SBytes(""), SBytes(""), SBytes("")), L(Z(15)), L(Z(0), Z(1))}
		rr := rand.New(rand.NewSource(int64(in.Depth)))
		for k, next := range []func(int) int{func(rem int) int { return rem }, func(int) int { return 1 + rr.Intn(23) }} {
			seq, status, _ := c02Parse(&c02ChunkReader{data: data, next: next}, len(data), 10, 120*time.Second)
			if status != 0 || !c02SeqEq(seq, want) {
				return L(Z(-5), Zi(status), LS(seq), Zi(k))
			}
		}
		return L(Z(77))
	}
	if in.Mode == "malformed" {
		data := c02MalformedBytes(&in)
		seq, status, detail := c02Parse(&c02ChunkReader{data: data, next: func(int) int { return 4096 }}, len(data), 1000, 20*time.Second)
		if status != 0 {
			return L(Z(-3), Zi(status), SBytes(detail))
		}
		if in.Op == "cut" {
			// packets before the error must be a prefix of the intact stream's packets
			body, _ := c02Render(&in)
			fullData := c02Header(in.Component) + body
			full, st2, _ := c02Parse(strings.NewReader(fullData), len(fullData), 1000, 20*time.Second)
			if st2 != 0 || len(seq)-1 > len(full) || !c02SeqEq(seq[:len(seq)-1], full[:len(seq)-1]) {
				return L(Z(-4), LS(seq), LS(full))
			}
		}
		return L(Z(77))
	}
	body, _ := c02Render(&in)
	data := []byte(c02Header(in.Component) + body)
	limit := len(in.Items) + 5
	whole, vals, status, detail := c02ParseV(&c02ChunkReader{data: data, next: func(rem int) int { return rem }}, len(data), limit, 60*time.Second)
	if status != 0 {
		return L(Z(-3), Zi(status), SBytes(detail))
	}
	// direct oracle on the values of stream-management attributes (not part of the model's
	// observation): the i-th packet belongs to the i-th top-level element as long as the
	// kinds agree; a wrong value is marked in the observation
	{
		i := 0
		for k := range in.Items {
			n := &in.Items[k]
			if n.K != 0 {
				continue
			}
			code, _ := c02TopKind(n.NS, n.L)
			if i >= len(whole) || i >= len(vals) || code == 0 || whole[i].L[0].Z != code {
				break
			}
			if want := c02SMWant(n); want != "" && vals[i] != want {
				return L(Z(-6), Zi(k), SBytes(vals[i]), SBytes(want))
			}
			i++
		}
	}
	check := func(kind int, rd io.Reader) *Sx {
		s, st, _ := c02Parse(rd, len(data), limit, 60*time.Second)
		if st != 0 || !c02SeqEq(s, whole) {
			x := L(Z(-2), Zi(kind), Zi(st), LS(s), LS(whole))
			return &x
		}
		return nil
	}
	if x := check(1, &c02ChunkReader{data: data, next: func(int) int { return 1 }}); x != nil {
		return *x
	}
	rr := rand.New(rand.NewSource(in.ChunkSeed))
	if x := check(2, &c02ChunkReader{data: data, next: func(int) int { return 1 + rr.Intn(23) }}); x != nil {
		return *x
	}
	if in.AllSplits {
		for k := 0; k <= len(data); k++ {
			first := true
			kk := k
			if x := check(3, &c02ChunkReader{data: data, next: func(rem int) int {
				if first && kk > 0 {
					first = false
					return kk
				}
				return rem
			}}); x != nil {
				return *x
			}
		}
	}
	return LS(whole)
}

func (c02) Input(inp interface{}) Sx {
	in := inp.(c02In)
	if in.Mode == "malformed" || in.Mode == "deepfwd" || in.Mode == "deepnode" {
		return L(Z(77))
	}
	_, toks := c02Render(&in)
	return L(Z(1), LS(toks))
}

// ---------------------------------------------------------------- direct oracle

// c02TopKind: the property's own table of top-level elements -> packet code (0 = not a
// known element: reading must fail there).
func c02TopKind(ns, l string) (code int64, label string) {
	switch ns {
	case c02NSStream:
		switch l {
		case "features":
			return 4, "features"
		case "error":
			return 5, "stream-error"
		}
	case c02NSSASL:
		switch l {
		case "success":
			return 6, "sasl"
		case "failure":
			return 7, "sasl"
		}
	case c02NSClient, c02NSComponent:
		switch l {
		case "message":
			return 1, "message"
		case "presence":
			return 2, "presence"
		case "iq":
			return 3, "iq"
		case "handshake":
			if ns == c02NSComponent {
				return 8, "handshake"
			}
		}
	case c02NSSM:
		switch l {
		case "enabled":
			return 9, "sm"
		case "resumed":
			return 10, "sm"
		case "resume":
			return 11, "sm"
		case "r":
			return 12, "sm"
		case "a":
			return 13, "sm"
		case "failed":
			return 14, "sm-failed"
		}
	}
	return 0, "unknown"
}

func c02OwnAttr(n *c02Node, local string) string {
	v := ""
	for _, a := range n.A {
		if a.L == local && (a.NS == "" || (local == "lang" && a.NS == c02NSXML)) {
			v = a.V
		}
	}
	return v
}

func c02IsUint(s string) bool {
	if s == "" {
		return true
	}
	_, err := strconv.ParseUint(strings.TrimSpace(s), 10, 64)
	return err == nil
}

// c02Features: risky shapes of a top-level element (for the failure signature).
func c02Features(n *c02Node) []string {
	f := map[string]bool{}
	var walk func(m *c02Node, depth int, underUnknown bool)
	walk = func(m *c02Node, depth int, underUnknown bool) {
		if m.K != 0 {
			return
		}
		if depth > 0 && m.NS == n.NS && m.L == n.L {
			f["nested-same-name"] = true
		}
		if depth > 0 && m.Deep > 0 && m.NS == n.NS && m.L == n.L {
			f["nested-same-name"] = true
		}
		if depth > 1 && underUnknown {
			switch m.L {
			case "body", "subject", "thread", "show", "status", "priority", "error":
				f["known-name-below-unknown"] = true
			}
		}
		if m.NS == "urn:xmpp:forward:0" && m.L == "forwarded" && depth >= 2 {
			for i := range m.C {
				var w2 func(x *c02Node)
				w2 = func(x *c02Node) {
					if x.K != 0 {
						return
					}
					if x.NS == m.NS && x.L == m.L {
						f["forwarded-nested"] = true
					}
					for j := range x.C {
						w2(&x.C[j])
					}
				}
				w2(&m.C[i])
			}
		}
		for i := range m.C {
			walk(&m.C[i], depth+1, underUnknown || depth >= 1)
		}
	}
	walk(n, 0, false)
	for _, a := range n.A {
		if a.NS != "" && !(a.L == "lang" && a.NS == c02NSXML) {
			switch a.L {
			case "type", "id", "from", "to", "lang":
				f["qualified-attr"] = true
			}
		}
		if a.NS == "" && n.NS == c02NSSM && (a.L == "h" || a.L == "max") && !c02IsUint(a.V) {
			f["illtyped-sm-attr"] = true
		}
	}
	// typed fields: own-namespace <priority/> of a presence (int8); result sets (*int) of
	// registered iq payloads, of a message delegation and of the bind / session features
	dtext := func(m *c02Node) string {
		t := ""
		for i := range m.C {
			if m.C[i].K == 1 || m.C[i].K == 4 {
				t += m.C[i].T
			}
		}
		return t
	}
	conv := func(v string, bits int) bool {
		if v == "" {
			return true
		}
		_, err := strconv.ParseInt(strings.TrimSpace(v), 10, bits)
		return err == nil
	}
	badRSM := func(p *c02Node) bool {
		for i := range p.C {
			set := &p.C[i]
			if set.K != 0 || set.NS != c02NSRSM || set.L != "set" {
				continue
			}
			for j := range set.C {
				c := &set.C[j]
				if c.K != 0 {
					continue
				}
				switch c.L {
				case "count", "index", "max":
					if !conv(dtext(c), 64) {
						return true
					}
				case "first":
					for _, a := range c.A {
						if a.L == "index" && !conv(a.V, 64) {
							return true
						}
					}
				}
			}
		}
		return false
	}
	for i := range n.C {
		c := &n.C[i]
		if c.K != 0 {
			continue
		}
		xn := xml.Name{Space: c.NS, Local: c.L}
		switch {
		case n.L == "presence" && c.L == "priority" && c.NS == n.NS && stanza.TypeRegistry.GetPresExtension(xn) == nil:
			if !conv(dtext(c), 8) {
				f["illtyped-priority"] = true
			}
		case n.L == "iq" && (n.NS == c02NSClient || n.NS == c02NSComponent) && !(c.L == "error" && c.NS == n.NS) && stanza.TypeRegistry.GetIQExtension(xn) != nil,
			n.L == "message" && c.NS == "urn:xmpp:delegation:1" && c.L == "delegation",
			n.NS == c02NSStream && n.L == "features" && (c.NS == "urn:ietf:params:xml:ns:xmpp-bind" && c.L == "bind" || c.NS == "urn:ietf:params:xml:ns:xmpp-session" && c.L == "session"):
			if badRSM(c) {
				f["illtyped-rsm"] = true
			}
		}
	}
	if n.NS == c02NSSM && n.L == "failed" {
		for i := range n.C {
			c := &n.C[i]
			if c.K == 0 && c.NS != c02NSStanzas {
				for _, cn := range c02Conditions {
					if cn == c.L {
						f["failed-condition-foreign-ns"] = true
					}
				}
			}
		}
	}
	if n.L == "iq" {
		for i := range n.C {
			c := &n.C[i]
			if c.K == 0 && c.NS == "http://jabber.org/protocol/commands" && c.L == "command" {
				for j := range c.C {
					if x := &c.C[j]; x.K == 0 && x.L == "x" && x.NS != "jabber:x:data" {
						f["command-foreign-x"] = true
					}
				}
			}
		}
	}
	if n.L == "presence" {
		for i := range n.C {
			x := &n.C[i]
			if x.K == 0 && x.NS == c02NSMuc && x.L == "x" {
				for j := range x.C {
					h := &x.C[j]
					if h.K == 0 && h.L == "history" && h.NS == c02NSMuc {
						for _, a := range h.A {
							if _, err := strconv.Atoi(a.V); err != nil && a.NS == "" && (a.L == "seconds" || a.L == "maxchars" || a.L == "maxstanzas") {
								f["illtyped-extension"] = true
							}
						}
					}
				}
			}
		}
	}
	out := []string{}
	for k := range f {
		out = append(out, k)
	}
	sort.Strings(out)
	if len(out) == 0 {
		out = []string{"plain"}
	}
	return out
}

func (c02) Oracle(inp interface{}, obs Sx) (string, string) {
	in := inp.(c02In)
	if in.Mode == "deepfwd" {
		if len(obs.L) == 1 && obs.L[0].Z == 77 {
			return "", ""
		}
		if len(obs.L) == 3 && obs.L[0].Z == -7 {
			return fmt.Sprintf("<%s/> with forwarded stanzas nested %d and %d deep (shape %q every %d): the decoder followed the nesting %d and %d levels - as far as the input goes, not up to a bound", in.Kind, in.Depth, 2*in.Depth, in.Shape, in.Every, obs.L[1].Z, obs.L[2].Z), "forwarded-nesting-unbounded"
		}
		return fmt.Sprintf("<%s/> holding %d nested <delegation><forwarded><%s> wrappers (shape %q): not (the stanza, the presence after it, close, end of input): %s", in.Kind, in.Depth, in.Kind, in.Shape, obs.String()), "deep-forwarded"
	}
	if in.Mode == "deepnode" {
		if len(obs.L) == 1 && obs.L[0].Z == 77 {
			return "", ""
		}
		return fmt.Sprintf("<%s/> holding a chain of %d nested unknown elements at position %q (shape %q): not exactly (the element's packet, the presence after it, close, end of input) under whole and chunked reads: %s", in.Kind, in.Depth, in.Where, in.Shape, obs.String()), "deep-generic:" + in.Kind + ":" + in.Where
	}
	if in.Mode == "malformed" {
		if len(obs.L) == 1 && obs.L[0].Z == 77 {
			return "", ""
		}
		if len(obs.L) > 0 && obs.L[0].Z == -4 {
			return "truncated stream: packets before the error are not a prefix of the intact stream's packets", "malformed-prefix-" + in.Op
		}
		st := int64(0)
		if len(obs.L) > 1 {
			st = obs.L[1].Z
		}
		what := map[int64]string{1: "no error within the time bound", 2: "panic", 3: "no error after 1000 packets"}[st]
		return "malformed bytes (" + in.Op + "): " + what, "malformed-" + in.Op + "-" + strings.ReplaceAll(what, " ", "-")
	}
	if len(obs.L) > 0 && obs.L[0].K == "z" {
		switch obs.L[0].Z {
		case -2:
			return fmt.Sprintf("packet sequence depends on the read segmentation (kind %d)", obs.L[1].Z), "segmentation"
		case -3:
			return "reading did not end with an error: status " + fmt.Sprint(obs.L[1].Z), "no-error-at-end"
		case -6:
			k := int(obs.L[1].Z)
			return fmt.Sprintf("element %d (<%s/>): stream-management attributes decoded as %s, the element's own unqualified attributes say %s", k, in.Items[k].L, string(bytesOf(obs.L[2])), string(bytesOf(obs.L[3]))), "wrong-sm-attrs"
		}
	}
	// expected sequence, from the generated elements alone
	i := 0 // index in obs
	for k := range in.Items {
		n := &in.Items[k]
		if n.K != 0 {
			continue
		}
		code, label := c02TopKind(n.NS, n.L)
		feat := strings.Join(c02Features(n), "+")
		if i >= len(obs.L) {
			return fmt.Sprintf("element %d (<%s/>): no packet and no error", k, n.L), c02Sig("missing", label, feat)
		}
		o := obs.L[i]
		if code == 0 {
			if o.L[0].Z != 0 {
				return fmt.Sprintf("element %d (<%s xmlns='%s'/>) is not a known element but yielded a packet", k, n.L, n.NS), "packet-for-unknown"
			}
			if o.L[1].Z != 2 {
				return fmt.Sprintf("element %d (<%s xmlns='%s'/>): expected the element to be rejected with input left, got class %d", k, n.L, n.NS, o.L[1].Z), "wrong-error-for-unknown"
			}
			if i != len(obs.L)-1 {
				return "packets after an error", "shape"
			}
			return "", ""
		}
		if o.L[0].Z == 0 {
			return fmt.Sprintf("element %d (<%s/>, %s) yielded an error (class %d) instead of its packet; %d later element(s) lost", k, n.L, feat, o.L[1].Z, c02CountElems(in.Items[k+1:])), c02Sig("error-instead-of-packet", label, feat)
		}
		if o.L[0].Z != code {
			return fmt.Sprintf("element %d (<%s/>, %s) yielded packet kind %d, expected %d", k, n.L, feat, o.L[0].Z, code), c02Sig("wrong-kind", label, feat)
		}
		if code <= 3 {
			want := []string{c02OwnAttr(n, "type"), c02OwnAttr(n, "id"), c02OwnAttr(n, "from"), c02OwnAttr(n, "to"), c02OwnAttr(n, "lang")}
			names := []string{"type", "id", "from", "to", "lang"}
			for j := range want {
				if got := string(bytesOf(o.L[1+j])); got != want[j] {
					return fmt.Sprintf("element %d (<%s/>, %s): attribute %s is %q, the element's own start tag says %q", k, n.L, feat, names[j], got, want[j]), c02Sig("wrong-attrs", label, feat)
				}
			}
		}
		i++
	}
	// tail: close packet if the stream was closed, then exactly one end-of-input error
	if in.Closed {
		if i >= len(obs.L) || obs.L[i].L[0].Z != 15 {
			return "no close packet for </stream:stream>", "close"
		}
		i++
	}
	if i != len(obs.L)-1 || obs.L[i].L[0].Z != 0 || obs.L[i].L[1].Z != 1 {
		return fmt.Sprintf("after the last element: expected exactly one end-of-input error, observed %s", LS(obs.L[i:]).String()), "tail"
	}
	return "", ""
}

// c02Sig: signature of a failing shape.  The recorded finding shapes are named by
// their decisive feature alone; everything else by what failed, the element kind and all
// risky features of the element.
func c02Sig(what, label, feat string) string {
	for _, f := range []string{"illtyped-extension", "illtyped-sm-attr", "illtyped-priority", "illtyped-rsm"} {
		for _, x := range strings.Split(feat, "+") {
			if x == f {
				return what + ":" + f
			}
		}
	}
	return what + ":" + label + ":" + feat
}

func c02CountElems(ns []c02Node) int {
	c := 0
	for i := range ns {
		if ns[i].K == 0 {
			c++
		}
	}
	return c
}

// ---------------------------------------------------------------- generator

type c02Gen struct {
	stanzaNS string // namespace of the stanza being generated
	r        *rand.Rand
	maxDeep  int
	budget   int // element budget per top-level element
	fixedFwd bool
}

var c02Texts = []string{"", " ", "\n  ", "hi", "a&b<c>d", "é漢😀", "]]>x", "5", "x'y\"z"}
var c02Vals = []string{"", "a", "chat", "get", "set", "result", "error", "u@d/r", "d", "a&b", "<", "it's", "q\"q", "é漢", "x y", "1"}

func (g *c02Gen) text() c02Node {
	switch g.r.Intn(10) {
	case 0:
		return c02Node{K: 2, T: " c <message> </message> "}
	case 1:
		return c02Node{K: 3, T: "pi <x> y"}
	case 2:
		return c02Node{K: 4, T: "<message/></x> & raw"}
	default:
		return c02Node{K: 1, T: c02Texts[g.r.Intn(len(c02Texts))]}
	}
}

func (g *c02Gen) val() string { return c02Vals[g.r.Intn(len(c02Vals))] }

func c02El(ns, l string, c ...c02Node) c02Node { return c02Node{K: 0, NS: ns, L: l, C: c} }
func c02Txt(s string) c02Node                  { return c02Node{K: 1, T: s} }
func (n c02Node) with(l, v string) c02Node {
	n.A = append(append([]c02Attr{}, n.A...), c02Attr{L: l, V: v})
	return n
}

var c02UnknownNS = []string{"u", "urn:x:y", "", "jabber:client", "jabber:server", "urn:xmpp:carbons:2", "urn:xmpp:forward:0", "urn:xmpp:mam:2"}
var c02UnknownL = []string{"priority", "thread", "item", "set", "x", "y", "body", "error", "show", "status", "subject", "message", "presence", "iq", "forwarded", "failed", "stream", "features", "history", "sent", "result", "starttls", "required", "text", "a", "r"}

// unknown: an element no registry entry or known child name matches at the place it is put
// (namespace/local chosen so that it is not registered for kind); arbitrary content.
func (g *c02Gen) unknown(kind string, depth int) c02Node {
	for {
		n := c02El(c02UnknownNS[g.r.Intn(len(c02UnknownNS))], c02UnknownL[g.r.Intn(len(c02UnknownL))])
		if depth == 0 && g.isKnownChild(kind, n.NS, n.L) {
			continue
		}
		if g.r.Intn(3) == 0 {
			n.A = append(n.A, c02Attr{L: []string{"id", "type", "foo", "h", "seconds"}[g.r.Intn(5)], V: g.val()})
		}
		if depth < 5 {
			for k := g.r.Intn(4 - depth/2); k > 0 && g.budget > 0; k-- {
				g.budget--
				switch g.r.Intn(5) {
				case 0:
					n.C = append(n.C, g.text())
				case 1:
					n.C = append(n.C, g.sameNamed(kind))
				default:
					n.C = append(n.C, g.unknown(kind, depth+1))
				}
			}
		}
		if g.r.Intn(12) == 0 {
			n.Deep = 1 + g.r.Intn(200)
			if g.maxDeep > 200 && g.r.Intn(150) == 0 {
				n.Deep = 1 + g.r.Intn(g.maxDeep) // rare: the token lists get large
			}
			hist("deep:" + c02Bucket(n.Deep))
		}
		return n
	}
}

func c02Bucket(d int) string {
	switch {
	case d <= 10:
		return "<=10"
	case d <= 200:
		return "<=200"
	case d <= 2000:
		return "<=2000"
	default:
		return ">2000"
	}
}

// direct children the stanza loops treat specially (by local name, any namespace, or by
// the registry): an "unknown" child must avoid them at depth 0
func (g *c02Gen) isKnownChild(kind, ns, l string) bool {
	switch kind {
	case "message":
		if (l == "body" || l == "thread" || l == "subject" || l == "error") && ns == g.stanzaNS {
			return true
		}
		return stanza.TypeRegistry.GetMsgExtension(xml.Name{Space: ns, Local: l}) != nil
	case "presence":
		if (l == "show" || l == "status" || l == "priority" || l == "error") && ns == g.stanzaNS {
			return true
		}
		return stanza.TypeRegistry.GetPresExtension(xml.Name{Space: ns, Local: l}) != nil
	case "iq":
		if l == "error" {
			return true
		}
		return stanza.TypeRegistry.GetIQExtension(xml.Name{Space: ns, Local: l}) != nil
	case "sm-failed":
		for _, c := range c02Conditions { // listed condition names are interpreted
			if c == l {
				return true
			}
		}
	}
	return false
}

// sameNamed: a nested stanza with the name of the enclosing one (or another stanza name)
func (g *c02Gen) sameNamed(kind string) c02Node {
	l := kind
	if l != "message" && l != "presence" && l != "iq" || g.r.Intn(4) == 0 {
		l = []string{"message", "presence", "iq"}[g.r.Intn(3)]
	}
	ns := c02NSClient
	if g.r.Intn(4) == 0 {
		ns = c02NSComponent
	}
	n := c02El(ns, l)
	if g.r.Intn(2) == 0 {
		n.A = []c02Attr{{L: "id", V: "inner"}, {L: "from", V: "evil@x"}, {L: "type", V: "chat"}}
	}
	if g.r.Intn(2) == 0 {
		n.C = append(n.C, c02El(ns, "body", c02Txt("inner body")))
	}
	if g.r.Intn(3) == 0 && g.budget > 0 {
		g.budget--
		n.C = append(n.C, g.unknown(l, 1))
	}
	return n
}

func (g *c02Gen) carbon() c02Node {
	inner := g.sameNamed("message")
	inner.NS, inner.L = c02NSClient, "message"
	fwd := c02El("urn:xmpp:forward:0", "forwarded", c02El("urn:xmpp:delay", "delay").with("stamp", "2020-01-01T00:00:00Z"), inner)
	if g.r.Intn(2) == 0 {
		return c02El("urn:xmpp:carbons:2", []string{"sent", "received"}[g.r.Intn(2)], fwd)
	}
	return c02El("urn:xmpp:mam:2", "result", fwd).with("id", "m").with("queryid", "q")
}

func (g *c02Gen) errorChild() c02Node {
	e := c02El("", "error").with("type", "cancel")
	if g.r.Intn(2) == 0 {
		e = e.with("code", []string{"404", "x", ""}[g.r.Intn(3)])
	}
	e.C = append(e.C, c02El(c02NSStanzas, []string{"item-not-found", "gone", "conflict"}[g.r.Intn(3)]))
	if g.r.Intn(2) == 0 {
		e.C = append(e.C, c02El(c02NSStanzas, "text", c02Txt("why")))
	}
	if g.r.Intn(2) == 0 && g.budget > 0 {
		g.budget--
		// an error inside the error, unknown content inside the condition
		u := g.unknown("none", 1)
		u.C = append(u.C, c02El("", "error"))
		e.C = append(e.C, u)
	}
	return e
}

// registered extensions with valid content for their Go struct
const c02NSRSM = "http://jabber.org/protocol/rsm"

// rsm: a XEP-0059 result set; count / index / max are *int elements and first has an *int
// attribute index in the Go struct.  bad: one of them does not convert.
func (g *c02Gen) rsm(bad bool) c02Node {
	good := []string{"10", " 5 ", "", "0", "-1", "+7"}
	ill := []string{"x", "1.5", "99999999999999999999", "5 5", "+"}
	val := func() string { return good[g.r.Intn(len(good))] }
	set := c02El(c02NSRSM, "set")
	if g.r.Intn(2) == 0 {
		set.C = append(set.C, c02El(c02NSRSM, "after", c02Txt("a1")))
	}
	if g.r.Intn(2) == 0 {
		set.C = append(set.C, c02El(c02NSRSM, "first", c02Txt("f")).with("index", val()))
	}
	for _, l := range []string{"count", "index", "max"} {
		if g.r.Intn(2) == 0 {
			c := c02El(c02NSRSM, l, c02Txt(val()))
			if g.r.Intn(5) == 0 { // character data around a nested element is concatenated
				c.C = []c02Node{c02Txt("1"), c02El("u", "y", c02Txt("9")), c02Txt("2")}
			}
			set.C = append(set.C, c)
		}
	}
	if bad {
		v := ill[g.r.Intn(len(ill))]
		switch g.r.Intn(4) {
		case 0:
			set.C = append(set.C, c02El(c02NSRSM, "first", c02Txt("f")).with("index", v))
		case 1: // the field tags match the local name in any namespace
			set.C = append(set.C, c02El("urn:example:ext", "max", c02Txt(v)))
		default:
			set.C = append(set.C, c02El(c02NSRSM, []string{"count", "index", "max"}[g.r.Intn(3)], c02Txt(v)))
		}
		hist("rsm:ill-typed")
	} else {
		hist("rsm:valid")
	}
	return set
}

// extension: a registered extension; iq payloads and the message delegation sometimes carry a
// result set (seldom an ill-typed one)
func (g *c02Gen) extension(kind string) c02Node {
	n := g.extension0(kind)
	if (kind == "iq" || n.L == "delegation") && kind != "presence" && g.r.Intn(4) == 0 {
		n.C = append(n.C, g.rsm(g.r.Intn(6) == 0))
	}
	return n
}

func (g *c02Gen) extension0(kind string) c02Node {
	extra := func(n c02Node) c02Node { // unknown content inside a tag-driven extension is skipped
		if g.r.Intn(3) == 0 && g.budget > 0 {
			g.budget--
			n.C = append(n.C, g.unknown("none", 1))
		}
		return n
	}
	switch kind {
	case "message":
		switch g.r.Intn(10) {
		case 0:
			return extra(c02El("urn:xmpp:receipts", "request"))
		case 1:
			return extra(c02El("urn:xmpp:receipts", "received").with("id", "r1"))
		case 2:
			return extra(c02El("http://jabber.org/protocol/chatstates", []string{"active", "composing", "gone", "inactive", "paused"}[g.r.Intn(5)]))
		case 3:
			return c02El("jabber:x:oob", "x", c02El("jabber:x:oob", "url", c02Txt("http://x/y")), c02El("jabber:x:oob", "desc", c02Txt("d")))
		case 4:
			return extra(c02El("urn:xmpp:chat-markers:0", []string{"markable", "received", "displayed", "acknowledged"}[g.r.Intn(4)]).with("id", "m"))
		case 5:
			return extra(c02El("urn:xmpp:hints", []string{"no-copy", "no-permanent-store", "no-store", "store"}[g.r.Intn(4)]))
		case 6:
			return c02El("http://jabber.org/protocol/xhtml-im", "html", c02El("http://www.w3.org/1999/xhtml", "body", c02El("http://www.w3.org/1999/xhtml", "p", c02Txt("hi"))))
		case 7:
			return g.delegation()
		default:
			return g.pubsubEvent()
		}
	case "presence":
		x := c02El(c02NSMuc, "x")
		if g.r.Intn(2) == 0 {
			x.C = append(x.C, c02El(c02NSMuc, "password", c02Txt("pw")))
		}
		if g.r.Intn(2) == 0 {
			h := c02El(c02NSMuc, "history").with("maxstanzas", "3")
			if g.r.Intn(2) == 0 {
				h = h.with("seconds", []string{"10", "-1", "+7", "0"}[g.r.Intn(4)])
			}
			if g.r.Intn(3) == 0 {
				// XEP-0082 DateTime: Z, numeric offset, fraction
				h = h.with("since", []string{"1970-01-01T00:00:00Z", "1970-01-01T00:00:00+00:00", "2020-02-03T04:05:06.789-05:30"}[g.r.Intn(3)])
			}
			if g.r.Intn(3) == 0 {
				h.A = append(h.A, c02Attr{NS: "urn:example:ext", L: []string{"seconds", "maxstanzas", "since"}[g.r.Intn(3)], V: "all"})
			}
			x.C = append(x.C, h)
			if g.r.Intn(3) == 0 {
				// an unrelated element called history
				x.C = append(x.C, c02El("urn:example:ext", "history").with("since", "yesterday").with("seconds", "many"))
			}
		}
		return extra(x)
	default: // iq
		switch g.r.Intn(9) {
		case 0:
			return extra(c02El("http://jabber.org/protocol/disco#info", "query", c02El("http://jabber.org/protocol/disco#info", "identity").with("category", "c").with("type", "t"), c02El("http://jabber.org/protocol/disco#info", "feature").with("var", "v")))
		case 1:
			return extra(c02El("http://jabber.org/protocol/disco#items", "query", c02El("http://jabber.org/protocol/disco#items", "item").with("jid", "a@b")))
		case 2:
			return extra(c02El("jabber:iq:version", "query", c02El("jabber:iq:version", "name", c02Txt("n")), c02El("jabber:iq:version", "version", c02Txt("1"))))
		case 3:
			return extra(c02El("urn:ietf:params:xml:ns:xmpp-bind", "bind", c02El("urn:ietf:params:xml:ns:xmpp-bind", "jid", c02Txt("a@b/c"))))
		case 4:
			return extra(c02El("jabber:iq:roster", "query", c02El("jabber:iq:roster", "item", c02El("jabber:iq:roster", "group", c02Txt("g"))).with("jid", "a@b").with("subscription", "both")))
		case 5:
			return extra(c02El("urn:ietf:params:xml:ns:xmpp-session", "session"))
		case 6:
			return g.delegation()
		default:
			if g.r.Intn(2) == 0 {
				return g.pubsubOwner()
			}
			return g.command()
		}
	}
}

const (
	c02NSEvent    = "http://jabber.org/protocol/pubsub#event"
	c02NSOwner    = "http://jabber.org/protocol/pubsub#owner"
	c02NSCommands = "http://jabber.org/protocol/commands"
)

// trap: an unknown element holding an element named like `same` (and like a known child)
func (g *c02Gen) trap(same c02Node, knownChild string) c02Node {
	u := c02El([]string{"u", "urn:x:y", same.NS}[g.r.Intn(3)], []string{"y", "wrap", "zz"}[g.r.Intn(3)], same)
	if knownChild != "" && g.r.Intn(2) == 0 {
		u.C = append(u.C, c02El(same.NS, knownChild))
	}
	if g.r.Intn(3) == 0 {
		u.C = append([]c02Node{g.text()}, u.C...)
	}
	return u
}

// pubsubEvent (message): PubSubEvent.UnmarshalXML
func (g *c02Gen) pubsubEvent() c02Node {
	ev := c02El(c02NSEvent, "event")
	switch g.r.Intn(5) {
	case 0:
		ev.C = append(ev.C, c02El(c02NSEvent, "items", c02El(c02NSEvent, "item", c02El("u", "payload", c02El(c02NSEvent, "event"), c02El(c02NSEvent, "items"))).with("id", "i1")).with("node", "n"))
	case 1:
		ev.C = append(ev.C, c02El(c02NSEvent, "purge").with("node", "n"))
	case 2:
		ev.C = append(ev.C, c02El(c02NSEvent, "delete", c02El(c02NSEvent, "redirect").with("uri", "xmpp:x")).with("node", "n"))
	case 3:
		ev.C = append(ev.C, c02El(c02NSEvent, "subscription").with("node", "n").with("jid", "a@b").with("subscription", "subscribed"))
	}
	for k := g.r.Intn(3); k > 0; k-- {
		t := g.trap(c02El(c02NSEvent, "event"), []string{"items", "purge", "delete", ""}[g.r.Intn(4)])
		if g.r.Intn(2) == 0 {
			ev.C = append([]c02Node{t}, ev.C...)
		} else {
			ev.C = append(ev.C, t)
		}
	}
	return ev
}

// pubsubOwner (iq): PubSubOwner.UnmarshalXML
func (g *c02Gen) pubsubOwner() c02Node {
	o := c02El(c02NSOwner, "pubsub")
	switch g.r.Intn(5) {
	case 0:
		o.C = append(o.C, c02El(c02NSOwner, "configure", c02El("jabber:x:data", "x", c02El("jabber:x:data", "field").with("var", "FORM_TYPE")).with("type", "form")).with("node", "n"))
	case 1:
		o.C = append(o.C, c02El(c02NSOwner, "delete", c02El(c02NSOwner, "redirect").with("uri", "xmpp:x")).with("node", "n"))
	case 2:
		o.C = append(o.C, c02El(c02NSOwner, "affiliations", c02El(c02NSOwner, "affiliation").with("jid", "a@b").with("affiliation", "owner")).with("node", "n"))
	case 3:
		o.C = append(o.C, c02El(c02NSOwner, "purge").with("node", "n"))
	}
	for k := g.r.Intn(3); k > 0; k-- {
		t := g.trap(c02El(c02NSOwner, "pubsub"), []string{"configure", "delete", "purge", ""}[g.r.Intn(4)])
		if g.r.Intn(2) == 0 {
			o.C = append([]c02Node{t}, o.C...)
		} else {
			o.C = append(o.C, t)
		}
	}
	return o
}

// command (iq): Command.UnmarshalXML
func (g *c02Gen) command() c02Node {
	c := c02El(c02NSCommands, "command").with("node", "n").with("action", "execute")
	if g.r.Intn(2) == 0 {
		c.C = append(c.C, c02El(c02NSCommands, "actions", c02El(c02NSCommands, "next")).with("execute", "next"))
	}
	if g.r.Intn(2) == 0 {
		c.C = append(c.C, c02El(c02NSCommands, "note", c02Txt("hello")).with("type", "info"))
	}
	if g.r.Intn(2) == 0 {
		c.C = append(c.C, c02El("jabber:x:data", "x", c02El("jabber:x:data", "title", c02Txt("t")), c02El("u", "y", c02El("jabber:x:data", "x"), c02El(c02NSCommands, "command"))).with("type", "form"))
	}
	for k := g.r.Intn(3); k > 0; k-- {
		c.C = append(c.C, g.trap(c02El(c02NSCommands, "command"), []string{"actions", "note", ""}[g.r.Intn(3)]))
	}
	return c
}

func (g *c02Gen) delegation() c02Node {
	d := c02El("urn:xmpp:delegation:1", "delegation")
	if g.r.Intn(2) == 0 {
		d.C = append(d.C, c02El("urn:xmpp:delegation:1", "delegated").with("namespace", "urn:x"))
	}
	inner := c02El(c02NSClient, []string{"iq", "message", "presence"}[g.r.Intn(3)]).with("id", "fw").with("type", "get")
	if inner.L == "message" {
		inner.C = append(inner.C, c02El(c02NSClient, "body", c02Txt("b")))
	}
	fwd := c02El("urn:xmpp:forward:0", "forwarded", inner)
	if g.r.Intn(2) == 0 {
		// unknown child of <forwarded/>, possibly containing another <forwarded/>
		u := c02El("u", "x")
		if g.r.Intn(2) == 0 {
			u.C = append(u.C, c02El("urn:xmpp:forward:0", "forwarded"))
		}
		if g.r.Intn(2) == 0 {
			fwd.C = append([]c02Node{u}, fwd.C...)
		} else {
			fwd.C = append(fwd.C, u)
		}
	}
	d.C = append(d.C, fwd)
	// forwarded stanzas that again carry a delegation with a forwarded stanza ...: beyond the
	// decoder's bound (32) the content is skipped, not decoded
	if g.r.Intn(4) == 0 {
		for k := 1 + g.r.Intn(45); k > 0; k-- {
			w := c02El(c02NSClient, []string{"iq", "message"}[g.r.Intn(2)], d).with("id", "w")
			if g.r.Intn(4) == 0 {
				// a whole sibling delegation that finishes before the nesting one starts
				w.C = append([]c02Node{c02El("urn:xmpp:delegation:1", "delegation", c02El("urn:xmpp:forward:0", "forwarded"))}, w.C...)
			}
			d = c02El("urn:xmpp:delegation:1", "delegation", c02El("urn:xmpp:forward:0", "forwarded", w))
			switch g.r.Intn(5) {
			case 0: // an empty <forwarded/> sibling that finishes first
				d.C = append([]c02Node{c02El("urn:xmpp:forward:0", "forwarded")}, d.C...)
			case 1: // ... or last
				d.C = append(d.C, c02El("urn:xmpp:forward:0", "forwarded"))
			case 2: // a sibling holding a small stanza
				d.C = append([]c02Node{c02El("urn:xmpp:forward:0", "forwarded", c02El(c02NSClient, "iq").with("id", "sib"))}, d.C...)
			}
		}
		hist("child:delegation-nested")
	}
	return d
}

func (g *c02Gen) stanzaAttrs(n c02Node, kind string) c02Node {
	types := map[string][]string{"message": {"chat", "groupchat", "normal", "error", "headline", "weird"},
		"presence": {"unavailable", "subscribe", "error", "probe", ""}, "iq": {"get", "set", "result", "error"}}[kind]
	if g.r.Intn(3) > 0 {
		n = n.with("type", types[g.r.Intn(len(types))])
	}
	if g.r.Intn(3) > 0 {
		n = n.with("id", "i"+g.val())
	}
	if g.r.Intn(2) == 0 {
		n = n.with("from", g.val())
	}
	if g.r.Intn(2) == 0 {
		n = n.with("to", g.val())
	}
	if g.r.Intn(3) == 0 {
		n.A = append(n.A, c02Attr{NS: c02NSXML, L: "lang", V: []string{"en", "fr", ""}[g.r.Intn(3)]})
	}
	if g.r.Intn(4) == 0 {
		n = n.with("foo", g.val())
	}
	if g.r.Intn(3) == 0 {
		// look-alikes that must NOT be read: p:id, xmlns:id, q:lang ...; and an unqualified
		// lang next to xml:lang (both are read, the later one wins)
		names := []string{"type", "id", "from", "to", "lang"}
		for k := 1 + g.r.Intn(3); k > 0; k-- {
			l := names[g.r.Intn(len(names))]
			switch g.r.Intn(4) {
			case 0:
				dup := false
				for _, a := range n.A {
					dup = dup || (a.NS == "xmlns" && a.L == l)
				}
				if !dup {
					n.A = append(n.A, c02Attr{NS: "xmlns", L: l, V: "urn:decl:" + l})
				}
			case 1:
				has := false
				for _, a := range n.A {
					has = has || (a.NS == "" && a.L == "lang")
				}
				if !has {
					n.A = append(n.A, c02Attr{L: "lang", V: "xx"})
				}
			case 2:
				// attribute in the XML namespace (predeclared xml: prefix): only xml:lang is ours
				dup := false
				for _, a := range n.A {
					dup = dup || (a.NS == c02NSXML && a.L == l)
				}
				if !dup {
					n.A = append(n.A, c02Attr{NS: c02NSXML, L: l, V: "xml-" + l})
				}
			default:
				n.A = append(n.A, c02Attr{NS: fmt.Sprintf("urn:q:%d", len(n.A)), L: l, V: "other-" + l})
			}
		}
		hist("attrs:qualified-lookalikes")
	}
	g.r.Shuffle(len(n.A), func(i, j int) { n.A[i], n.A[j] = n.A[j], n.A[i] })
	if g.r.Intn(6) == 0 {
		// xml:id / xml:type / xml:from / xml:to AFTER the real attributes (last one would win)
		for _, l := range []string{"id", "type", "from", "to"} {
			dup := false
			for _, a := range n.A {
				dup = dup || (a.NS == c02NSXML && a.L == l)
			}
			if !dup && g.r.Intn(2) == 0 {
				n.A = append(n.A, c02Attr{NS: c02NSXML, L: l, V: "xml-" + l})
			}
		}
		hist("attrs:xml-namespace-lookalikes")
	}
	return n
}

func (g *c02Gen) stanza(ns, kind string) c02Node {
	g.stanzaNS = ns
	n := g.stanzaAttrs(c02El(ns, kind), kind)
	g.budget = 12
	for k := g.r.Intn(6); k > 0; k-- {
		var c c02Node
		cls := ""
		switch x := g.r.Intn(12); {
		case x < 3:
			c, cls = g.unknown(kind, 0), "unknown"
		case x < 5:
			c, cls = g.extension(kind), "extension"
		case x == 5:
			c, cls = g.carbon(), "carbon"
			if kind != "message" {
				c, cls = c02El("u", "wrap", g.sameNamed(kind)), "nested-same-name"
			}
		case x == 6:
			c, cls = c02El("u", "wrap", g.sameNamed(kind)), "nested-same-name"
		case x == 7:
			c, cls = g.errorChild(), "error"
		case x == 8:
			c, cls = g.text(), "text"
		case x == 9:
			// known child names below an unknown parent
			c, cls = c02El("u", "x", c02El(ns, "body", c02Txt("fake")), c02El(ns, "show", c02Txt("dnd")), c02El(ns, "error").with("type", "auth")), "known-below-unknown"
		default:
			switch kind {
			case "message":
				c = c02El(ns, []string{"body", "subject", "thread"}[g.r.Intn(3)], c02Txt(c02Texts[g.r.Intn(len(c02Texts))]))
				if g.r.Intn(4) == 0 {
					c.C = append(c.C, c02El("u", "b", c02El(ns, "body")), c02Txt("tail"))
				}
			case "presence":
				c = c02El(ns, []string{"show", "status", "priority"}[g.r.Intn(3)])
				if c.L == "priority" {
					c.C = []c02Node{c02Txt([]string{"5", "-3", "0", "", " 7 ", "+3", "-128", "127"}[g.r.Intn(8)])}
					switch g.r.Intn(8) {
					case 0: // character data around a nested element / a comment / CDATA is concatenated
						c.C = []c02Node{c02Txt("1"), c02El("u", "y", c02Txt("9")), {K: 2, T: " c "}, {K: 4, T: "2"}}
					case 1: // does not convert to int8
						c.C = []c02Node{c02Txt([]string{"high", "300", "-129", "5 5", "+", "1.5"}[g.r.Intn(6)])}
						hist("priority:ill-typed")
					}
				} else {
					c.C = []c02Node{c02Txt("away")}
				}
			default:
				c = g.unknown(kind, 0)
			}
			cls = "known-child"
		}
		hist("child:" + cls)
		n.C = append(n.C, c)
	}
	return n
}

var c02Conditions = []string{"bad-format", "bad-namespace-prefix", "conflict", "connection-timeout", "host-gone", "host-unknown", "improper-addressing", "internal-server-error", "invalid-from", "invalid-id", "invalid-namespace", "invalid-xml", "not-authorized", "not-well-formed", "policy-violation", "remote-connection-failed", "resource-constraint", "restricted-xml", "see-other-host", "system-shutdown", "undefined-condition", "unexpected-request", "unsupported-encoding", "unsupported-stanza-type", "unsupported-version", "xml-not-well-formed"}

func (g *c02Gen) top(component bool) c02Node {
	g.budget = 8
	ns := c02NSClient
	if component != (g.r.Intn(10) == 0) {
		ns = c02NSComponent
	}
	// arbitrary extra content for EVERY top-level kind (each must consume its whole element):
	// text, unknown elements, a nested stanza (would surface as a forged packet if the
	// element were not consumed), a nested element named like the top-level one
	some := func(n c02Node) c02Node {
		for k := g.r.Intn(4); k > 0; k-- {
			switch g.r.Intn(6) {
			case 0:
				n.C = append(n.C, g.text())
			case 1:
				st := g.sameNamed("none")
				if len(st.A) == 0 {
					st.A = append(st.A, c02Attr{L: "id", V: "forged"})
				}
				n.C = append(n.C, st)
				hist("topchild:nested-stanza")
			case 2:
				n.C = append(n.C, c02El("u", "w", c02El(n.NS, n.L), g.sameNamed("none")))
				hist("topchild:nested-same-name")
			case 3:
				n.C = append(n.C, c02El(n.NS, n.L))
				hist("topchild:nested-same-name")
			default:
				n.C = append(n.C, g.unknown("none", 1))
				hist("topchild:unknown")
			}
		}
		return n
	}
	switch x := g.r.Intn(20); {
	case x < 5:
		return g.stanza(ns, "message")
	case x < 8:
		return g.stanza(ns, "presence")
	case x < 11:
		return g.stanza(ns, "iq")
	case x == 11:
		f := c02El(c02NSStream, "features")
		if g.r.Intn(2) == 0 {
			s := c02El("urn:ietf:params:xml:ns:xmpp-tls", "starttls")
			if g.r.Intn(2) == 0 {
				s.C = append(s.C, c02El("urn:ietf:params:xml:ns:xmpp-tls", "required"))
			}
			if g.r.Intn(2) == 0 {
				s.C = append(s.C, c02El("u", "x", c02El("urn:ietf:params:xml:ns:xmpp-tls", "starttls")))
			}
			f.C = append(f.C, s)
		}
		if g.r.Intn(2) == 0 {
			f.C = append(f.C, c02El(c02NSSASL, "mechanisms", c02El(c02NSSASL, "mechanism", c02Txt("PLAIN")), c02El(c02NSSASL, "mechanism", c02Txt("X-OAUTH2"))))
		}
		if g.r.Intn(2) == 0 {
			bind, sess := c02El("urn:ietf:params:xml:ns:xmpp-bind", "bind"), c02El("urn:ietf:params:xml:ns:xmpp-session", "session")
			if g.r.Intn(3) == 0 {
				bind.C = append(bind.C, g.rsm(g.r.Intn(6) == 0))
			}
			if g.r.Intn(3) == 0 {
				sess.C = append(sess.C, g.rsm(g.r.Intn(6) == 0))
			}
			f.C = append(f.C, bind, c02El(c02NSSM, "sm"), sess)
		}
		if g.r.Intn(2) == 0 {
			f.C = append(f.C, c02El("http://jabber.org/protocol/caps", "c").with("hash", "sha-1").with("node", "n").with("ver", "v"))
		}
		if g.r.Intn(2) == 0 {
			f.C = append(f.C, c02El("u", "zz", c02El(c02NSStream, "features")))
		}
		return some(f)
	case x == 12:
		e := c02El(c02NSStream, "error", c02El("urn:ietf:params:xml:ns:xmpp-streams", []string{"host-unknown", "conflict", "weird"}[g.r.Intn(3)]))
		if g.r.Intn(2) == 0 {
			e.C = append(e.C, c02El("urn:ietf:params:xml:ns:xmpp-streams", "text", c02Txt("t")))
		}
		return some(e)
	case x == 13:
		if g.r.Intn(2) == 0 {
			return some(c02El(c02NSSASL, "success", c02Txt("dj1hYmM=")))
		}
		return some(c02El(c02NSSASL, "failure", c02El(c02NSSASL, "not-authorized"), c02El(c02NSSASL, "text", c02Txt("no"))))
	case x == 14:
		if component || g.r.Intn(2) == 0 {
			h := c02El(c02NSComponent, "handshake")
			if g.r.Intn(2) == 0 {
				h.C = []c02Node{c02Txt("0123abcd")}
			}
			return some(h)
		}
		return some(c02El(c02NSSM, "r"))
	case x == 15:
		n := c02El(c02NSSM, "enabled").with("id", "sm1")
		if g.r.Intn(2) == 0 {
			n = n.with("resume", "true").with("max", []string{"300", "", " 5 ", "0"}[g.r.Intn(4)])
		}
		return some(g.smLookalikes(n))
	case x == 16:
		n := c02El(c02NSSM, []string{"resumed", "resume"}[g.r.Intn(2)]).with("previd", "p")
		if g.r.Intn(2) == 0 {
			n = n.with("h", []string{"0", "17", "", "18446744073709551615"}[g.r.Intn(4)])
		}
		return some(g.smLookalikes(n))
	case x == 17:
		return some(g.smLookalikes(c02El(c02NSSM, "a").with("h", []string{"0", "3", "4294967296", " 8"}[g.r.Intn(4)])))
	case x == 18:
		f := c02El(c02NSSM, "failed")
		if g.r.Intn(2) == 0 {
			f = f.with("h", []string{"2", "x", "", "-1", " 3"}[g.r.Intn(5)])
		}
		for k := g.r.Intn(4); k > 0; k-- {
			switch g.r.Intn(4) {
			case 0:
				f.C = append(f.C, g.text())
				continue
			case 1:
				// not a listed condition: skipped since D23 was repaired
				f.C = append(f.C, c02El(c02NSStanzas, []string{"item-not-found", "feature-not-implemented"}[g.r.Intn(2)], c02El(c02NSSM, "failed")))
				continue
			case 2:
				f.C = append(f.C, g.unknown("sm-failed", 0))
				continue
			}
			c := c02El(c02NSStanzas, c02Conditions[g.r.Intn(len(c02Conditions))])
			// arbitrary content inside the condition, incl. a nested <failed/>
			if g.r.Intn(2) == 0 {
				c.C = append(c.C, g.unknown("none", 1), c02El(c02NSSM, "failed"))
			}
			f.C = append(f.C, c)
		}
		return some(f)
	default:
		return some(c02El(c02NSSM, "r"))
	}
}

// smLookalikes: namespace-qualified attributes named like the XEP-0198 ones (must not be read)
func (g *c02Gen) smLookalikes(n c02Node) c02Node {
	if g.r.Intn(3) != 0 {
		return n
	}
	for k := 1 + g.r.Intn(2); k > 0; k-- {
		l := []string{"h", "max", "id", "previd", "resume"}[g.r.Intn(5)]
		dup := false
		for _, a := range n.A {
			dup = dup || (a.NS != "" && a.L == l)
		}
		if !dup {
			n.A = append(n.A, c02Attr{NS: "urn:example:ext", L: l, V: []string{"seven", "4000000", "other", "n/a"}[g.r.Intn(4)]})
		}
	}
	hist("attrs:sm-qualified-lookalikes")
	return n
}

func (g *c02Gen) undispatchable(component bool) c02Node {
	var n c02Node
	switch g.r.Intn(7) {
	case 0:
		n = c02El("u", "x", c02El(c02NSClient, "presence"))
	case 1:
		n = c02El(c02NSClient, "foo")
	case 2:
		n = c02El(c02NSStream, "stream")
	case 3:
		n = c02El(c02NSSASL, "challenge", c02Txt("abc="))
	case 4:
		n = c02El(c02NSSM, "enable")
	case 5:
		n = c02El("urn:ietf:params:xml:ns:xmpp-tls", "proceed")
	default:
		n = c02El(c02NSClient, "handshake")
	}
	if g.r.Intn(2) == 0 {
		n.C = append(n.C, g.unknown("none", 1))
	}
	return n
}

func (g *c02Gen) stream() c02In {
	in := c02In{Mode: "stream", Component: g.r.Intn(4) == 0, Closed: g.r.Intn(7) > 0, ChunkSeed: g.r.Int63()}
	n := g.r.Intn(9)
	bad := -1
	if g.r.Intn(12) == 0 {
		bad = g.r.Intn(n + 1)
	}
	for i := 0; i <= n; i++ {
		if g.r.Intn(3) == 0 {
			in.Items = append(in.Items, g.text())
		}
		if i == bad {
			in.Items = append(in.Items, g.undispatchable(in.Component))
			hist("top:undispatchable")
		}
		if i < n {
			t := g.top(in.Component)
			_, label := c02TopKind(t.NS, t.L)
			hist("top:" + label)
			in.Items = append(in.Items, t)
		}
	}
	return in
}

// probes: inputs of the shapes recorded as findings (one risky feature each, otherwise plain)
func (g *c02Gen) probe(kind int) c02In {
	in := c02In{Mode: "stream", Closed: true, ChunkSeed: 1}
	after := c02El(c02NSClient, "presence").with("id", "after")
	switch kind {
	case 0: // D3
		in.Items = []c02Node{c02El(c02NSClient, "message", c02El("u", "x", c02El(c02NSClient, "message"))), c02El(c02NSClient, "presence")}
	case 1: // D18
		in.Items = []c02Node{c02El(c02NSClient, "presence", c02El(c02NSMuc, "x", c02El(c02NSMuc, "history").with("seconds", "x"))), after}
	case 2: // ill-typed h
		in.Items = []c02Node{c02El(c02NSSM, []string{"a", "resumed", "enabled"}[g.r.Intn(3)]).with([]string{"h", "h", "max"}[0], "x"), after}
		if in.Items[0].L == "enabled" {
			in.Items[0].A[0].L = "max"
		}
	case 3: // qualified attribute shadows the unqualified one
		n := c02El(c02NSClient, []string{"message", "presence", "iq"}[g.r.Intn(3)]).with("id", "real").with("from", "me@d")
		n.A = append(n.A, c02Attr{NS: "urn:q", L: []string{"id", "from"}[g.r.Intn(2)], V: "other"})
		in.Items = []c02Node{n, after}
	case 4: // unknown child of forwarded containing forwarded
		in.Items = []c02Node{c02El(c02NSClient, "iq", c02El("urn:xmpp:delegation:1", "delegation", c02El("urn:xmpp:forward:0", "forwarded", c02El("u", "x", c02El("urn:xmpp:forward:0", "forwarded"))))).with("id", "1").with("type", "set"), after}
	case 6: // a history element nested below the MUC history (local name matches in any namespace)
		in.Items = []c02Node{c02El(c02NSClient, "presence", c02El(c02NSMuc, "x", c02El(c02NSMuc, "history", c02El("u", "y", c02El(c02NSMuc, "history"))).with("maxstanzas", "1"))), after}
	case 7: // PubSubEvent: same-named descendant below an unknown child (fixed by ac3889a)
		in.Items = []c02Node{c02El(c02NSClient, "message", c02El(c02NSEvent, "event", c02El("u", "x", c02El(c02NSEvent, "event")))), c02El(c02NSClient, "presence")}
	case 8: // PubSubOwner: the same (fixed by ac3889a)
		in.Items = []c02Node{c02El(c02NSClient, "iq", c02El(c02NSOwner, "pubsub", c02El("u", "x", c02El(c02NSOwner, "pubsub")))).with("id", "1").with("type", "result"), after}
	case 9: // Command: the same (consumes unknown children as Node: not affected)
		in.Items = []c02Node{c02El(c02NSClient, "iq", c02El(c02NSCommands, "command", c02El("u", "y", c02El(c02NSCommands, "command")))).with("id", "1").with("type", "set"), after}
	case 10: // Command: an <x/> that is not a data form (a generic node since beca765)
		in.Items = []c02Node{c02El(c02NSClient, "iq", c02El(c02NSCommands, "command", c02El("u", "x"))).with("id", "1").with("type", "set"), after}
	case 11: // <failed/>: a listed condition name in another namespace (skipped since 92db6e3)
		in.Items = []c02Node{c02El(c02NSSM, "failed", c02El("u", "conflict")), after}
	case 12: // <failed h='x'> with an unlisted condition holding a nested <failed/>
		in.Items = []c02Node{c02El(c02NSSM, "failed", c02El(c02NSStanzas, "item-not-found", c02El(c02NSSM, "failed"))).with("h", "x"), after}
	case 13: // attributes in the XML namespace other than lang, after the real one and with it absent
		kind := []string{"message", "presence", "iq"}[g.r.Intn(3)]
		n := c02El(c02NSClient, kind).with("id", "real").with("type", "get")
		n.A = append(n.A, c02Attr{NS: c02NSXML, L: "id", V: "xml-id"}, c02Attr{NS: c02NSXML, L: "type", V: "xml-type"},
			c02Attr{NS: c02NSXML, L: "from", V: "xml-from"}, c02Attr{NS: c02NSXML, L: "to", V: "xml-to"}, c02Attr{NS: c02NSXML, L: "lang", V: "en"})
		in.Items = []c02Node{n, after}
	case 14: // content of elements that normally have none: a stanza or an unknown element inside <r/>, <a/>, <success/>
		top := []c02Node{c02El(c02NSSM, "r"), c02El(c02NSSM, "a").with("h", "1"), c02El(c02NSSASL, "success"), c02El(c02NSSM, "enabled")}[g.r.Intn(4)]
		if g.r.Intn(2) == 0 {
			top.C = []c02Node{c02El(c02NSClient, "message", c02El(c02NSClient, "body", c02Txt("forged"))).with("id", "forged").with("from", "admin@d")}
		} else {
			top.C = []c02Node{c02El("u", "x", c02El(top.NS, top.L))}
		}
		in.Items = []c02Node{top, after}
	case 15: // f3: a foreign element called priority / body next to the real one
		if g.r.Intn(2) == 0 {
			in.Items = []c02Node{c02El(c02NSClient, "presence", c02El(c02NSClient, "priority", c02Txt("5")), c02El("urn:example:ticket", "priority", c02Txt("high"))).with("id", "p1"), after}
		} else {
			in.Items = []c02Node{c02El(c02NSClient, "message", c02El(c02NSClient, "body", c02Txt("real")), c02El("urn:example:ext", "body", c02El("urn:example:ext", "p")), c02El("urn:example:ext", "error", c02Txt("x"))).with("id", "m1"), after}
		}
	case 16: // f5: qualified look-alikes on stream-management elements
		n := []c02Node{c02El(c02NSSM, "a").with("h", "7"), c02El(c02NSSM, "resumed").with("previd", "x").with("h", "3"),
			c02El(c02NSSM, "enabled").with("id", "sm1").with("resume", "true").with("max", "300")}[g.r.Intn(3)]
		l := map[string][]string{"a": {"h"}, "resumed": {"h", "previd"}, "enabled": {"max", "id"}}[n.L]
		n.A = append(n.A, c02Attr{NS: "urn:example:ext", L: l[g.r.Intn(len(l))], V: []string{"seven", "4000000"}[g.r.Intn(2)]})
		in.Items = []c02Node{n, after}
	case 17: // f6: MUC history
		h := []c02Node{c02El(c02NSMuc, "history").with("since", "1970-01-01T00:00:00+00:00"),
			c02El("urn:example:ext", "history").with("since", "yesterday"),
			c02El(c02NSMuc, "history").with("maxstanzas", "20")}[g.r.Intn(3)]
		if h.NS == c02NSMuc && len(h.A) == 1 && h.A[0].L == "maxstanzas" {
			h.A = append(h.A, c02Attr{NS: "urn:example:ext", L: "seconds", V: "all"})
		}
		in.Items = []c02Node{c02El(c02NSClient, "presence", c02El(c02NSMuc, "x", h)).with("id", "j1"), after}
	case 18: // f4: a foreign element with a known local name inside a registered payload
		const ext = "urn:example:ext"
		switch g.r.Intn(4) {
		case 0:
			in.Items = []c02Node{c02El(c02NSClient, "iq", c02El("jabber:iq:roster", "query", c02El(ext, "item"), c02El("jabber:iq:roster", "item").with("jid", "a@b"))).with("id", "1").with("type", "result"), after}
		case 1:
			in.Items = []c02Node{c02El(c02NSClient, "iq", c02El("http://jabber.org/protocol/disco#info", "query", c02El(ext, "set"))).with("id", "1").with("type", "result"), after}
		case 2:
			in.Items = []c02Node{c02El(c02NSClient, "iq", c02El("http://jabber.org/protocol/pubsub", "pubsub", c02El("http://jabber.org/protocol/pubsub", "configure", c02El(ext, "x")))).with("id", "1").with("type", "set"), after}
		default:
			in.Items = []c02Node{c02El(c02NSStream, "features", c02El("urn:ietf:params:xml:ns:xmpp-bind", "bind", c02El(ext, "set"))), after}
		}
	case 19: // audit M1: an own-namespace <priority/> that does not convert to int8
		in.Items = []c02Node{c02El(c02NSClient, "presence", c02El(c02NSClient, "priority", c02Txt([]string{"high", "300", "-129"}[g.r.Intn(3)]))).with("id", "p1"), after}
	case 20: // audit M2/M3: a result set that does not convert, in an iq payload / below a stream feature
		bad := c02El(c02NSRSM, "set", c02El(c02NSRSM, "max", c02Txt("x")))
		switch g.r.Intn(3) {
		case 0:
			in.Items = []c02Node{c02El(c02NSClient, "iq", c02El("http://jabber.org/protocol/disco#items", "query", bad)).with("id", "1").with("type", "result"), after}
		case 1:
			in.Items = []c02Node{c02El(c02NSStream, "features", c02El("urn:ietf:params:xml:ns:xmpp-bind", "bind", bad)), after}
		default:
			in.Items = []c02Node{c02El(c02NSClient, "message", c02El("urn:xmpp:delegation:1", "delegation", bad)).with("id", "m"), after}
		}
	case 5: // body below an unknown child
		in.Items = []c02Node{c02El(c02NSClient, "message", c02El(c02NSClient, "body", c02Txt("real")), c02El("u", "x", c02El(c02NSClient, "body", c02Txt("fake")))).with("id", "b"), after}
	}
	hist(fmt.Sprintf("probe:%d", kind))
	return in
}

func (c02) Gen(r *rand.Rand, tier string) []interface{} {
	g := &c02Gen{r: r, maxDeep: 200}
	nStreams, nCorrupt, nRandom := 2500, 600, 300
	if tier == "thorough" {
		g.maxDeep = 20000
		nStreams, nCorrupt, nRandom = 30000, 6000, 3000
	}
	var out []interface{}
	out = append(out, c02In{Mode: "stream", Closed: true}, c02In{Mode: "stream"}, c02In{Mode: "stream", Component: true, Closed: true})
	for k := 0; k < 21; k++ {
		for rep := 0; rep < 4; rep++ {
			out = append(out, g.probe(k))
		}
	}
	// explicit deep chains at the bound, in each consuming position
	for _, d := range []int{g.maxDeep, g.maxDeep / 2} {
		deepU := c02Node{K: 0, NS: "u", L: "x", Deep: d}
		deepSame := c02Node{K: 0, NS: c02NSClient, L: "message", Deep: d}
		out = append(out,
			c02In{Mode: "stream", Closed: true, ChunkSeed: 3, Items: []c02Node{c02El(c02NSClient, "message", deepU).with("id", "d1"), c02El(c02NSClient, "iq", deepU).with("id", "d2"), c02El(c02NSClient, "presence").with("id", "d3")}},
			c02In{Mode: "stream", Closed: true, ChunkSeed: 4, Items: []c02Node{c02El(c02NSClient, "message", c02El("u", "w", deepSame)).with("id", "d4"), c02El(c02NSStream, "features", deepU), c02El(c02NSClient, "message", c02El(c02NSClient, "body", deepU)).with("id", "d5"), c02El(c02NSSM, "r")}})
		hist("deep:" + c02Bucket(d))
	}
	// the same through the model (token lists of 2*depth entries): chains just above the
	// decoders' likely bound of 10000 at the generically decoded positions - unknown iq payload,
	// child of <error/> of each stanza kind, inside the error condition
	for i, d := range []int{10001, 12345} {
		deepU := c02Node{K: 0, NS: "u", L: "x", Deep: d, C: []c02Node{c02Txt("t")}}
		errWith := func(c ...c02Node) c02Node {
			e := c02El("", "error").with("type", "cancel")
			e.C = c
			return e
		}
		cond := c02El(c02NSStanzas, "item-not-found")
		out = append(out,
			c02In{Mode: "stream", Closed: true, ChunkSeed: 5 + int64(i), Items: []c02Node{c02El(c02NSClient, "iq", deepU).with("id", "g1").with("type", "get"), c02El(c02NSClient, "iq", errWith(cond, deepU)).with("id", "g2").with("type", "error"), c02El(c02NSClient, "presence").with("id", "g3")}},
			c02In{Mode: "stream", Closed: true, ChunkSeed: 7 + int64(i), Items: []c02Node{c02El(c02NSClient, "message", errWith(deepU, cond)).with("id", "g4").with("type", "error"), c02El(c02NSClient, "presence", errWith(c02El(c02NSStanzas, "gone", deepU))).with("id", "g5").with("type", "error"), c02El(c02NSSM, "r")}})
		hist("deep-generic-model:" + strconv.Itoa(d))
	}
	// forwarded stanzas nested far beyond any stack: generated from (kind, depth) at run time
	// crash depth (with the 128 MB stack limit set in Run, about 40000 followed levels end the
	// process): plain nesting and nesting with siblings that finish first; and, cheaper, the
	// saturation oracle (Bound) on moderately deep inputs for every shape
	shapes := []string{"", "sib-before", "sib-after", "sib-both", "deleg-before", "stanza-sib"}
	for i, kd := range []string{"message", "iq"} {
		out = append(out, c02In{Mode: "deepfwd", Kind: kd, Depth: 1000}, c02In{Mode: "deepfwd", Kind: kd, Depth: 200000},
			c02In{Mode: "deepfwd", Kind: kd, Depth: 150000, Shape: []string{"sib-before", "deleg-before"}[i], Every: 1})
		for _, sh := range shapes {
			for _, ev := range []int{1, 2, 7} {
				if sh == "" && ev > 1 {
					continue
				}
				out = append(out, c02In{Mode: "deepfwd", Kind: kd, Depth: 100 + r.Intn(400), Shape: sh, Every: ev, Bound: true})
				hist("deepfwd-bound:" + sh)
			}
		}
		hist("deepfwd:" + kd)
	}
	// chains of unknown elements at EVERY position where content is decoded generically (and
	// the skipping positions), at depths around powers of ten and two - the bounds a decoder
	// is likely to have (encoding/xml's own is 10000): at the bound, one above, far above
	{
		depths := []int{1000, 4096, 10000, 10001, 20000, 65536, 100001}
		if tier == "thorough" {
			depths = append(depths, 999, 1001, 1024, 1025, 4097, 8192, 9999, 10002, 16384, 32768, 50000, 65535, 65537, 100000, 131072, 250000)
		}
		for _, p := range c02NodePositions {
			for _, kd := range p.kinds {
				for _, d := range depths {
					out = append(out, c02In{Mode: "deepnode", Kind: kd, Where: p.where, Depth: d})
					hist("deepnode:" + p.where)
					hist("deepnode-depth:" + map[bool]string{true: ">10000", false: "<=10000"}[d > 10000])
					if (tier == "thorough" && d <= 131072) || d == 10001 || d == 65536 {
						out = append(out, c02In{Mode: "deepnode", Kind: kd, Where: p.where, Depth: d, Shape: "sib"},
							c02In{Mode: "deepnode", Kind: kd, Where: p.where, Depth: d, Shape: "text"})
					}
				}
			}
		}
	}
	var sample *c02In
	for i := 0; i < nStreams; i++ {
		in := g.stream()
		if sample == nil && len(in.Items) >= 5 {
			body, _ := c02Render(&in)
			if len(body) > 300 && len(body) < 2500 {
				in.AllSplits = true
				s := in
				sample = &s
				hist("seg:all-splits-stream")
			}
		}
		out = append(out, in)
	}
	// malformed: every truncation of one valid stream, corruptions, random bytes
	if sample != nil {
		base := *sample
		base.AllSplits = false
		base.Mode = "malformed"
		body, _ := c02Render(&base)
		total := len(c02Header(base.Component)) + len(body)
		for k := 0; k < total; k++ {
			b := base
			b.Op, b.Cut = "cut", k
			out = append(out, b)
		}
		hist("malformed:truncations")
		for i := 0; i < nCorrupt; i++ {
			b := g.stream()
			b.Mode, b.Op = "malformed", "corrupt"
			b.Pos, b.Byte = r.Intn(1<<20), []int{'<', '>', '/', '&', 0, 0xff, '\'', '=', ' ', 'x', ']', '!'}[r.Intn(12)]
			if r.Intn(4) == 0 {
				b.Byte = r.Intn(256)
			}
			out = append(out, b)
		}
	}
	for i := 0; i < nRandom; i++ {
		out = append(out, c02In{Mode: "malformed", Op: "random", RawSeed: r.Int63(), RawLen: r.Intn(400)})
	}
	return out
}

func (c02) Decode(raw json.RawMessage) (interface{}, error) {
	var in c02In
	err := json.Unmarshal(raw, &in)
	return in, err
}

func (c02) Key(inp interface{}) (string, bool) {
	in := inp.(c02In)
	if in.Mode == "deepfwd" {
		return fmt.Sprintf("deepfwd:%s:%d:%s:%d:%v", in.Kind, in.Depth, in.Shape, in.Every, in.Bound), true
	}
	if in.Mode == "deepnode" {
		return fmt.Sprintf("deepnode:%s:%s:%d:%s", in.Kind, in.Where, in.Depth, in.Shape), true
	}
	if in.Mode == "malformed" {
		return fmt.Sprintf("mal:%s:%d:%d:%d:%d", in.Op, in.Cut, in.Pos%4096, in.Byte, in.RawSeed), in.Op != "random" || in.RawLen > 10
	}
	var b strings.Builder
	elems, withKids := 0, false
	var shape func(n *c02Node, d int)
	shape = func(n *c02Node, d int) {
		if n.K != 0 {
			b.WriteString("t")
			return
		}
		b.WriteString(n.L)
		if n.Deep > 0 {
			b.WriteString("^" + c02Bucket(n.Deep))
		}
		if d < 3 && len(n.C) > 0 {
			b.WriteString("(")
			for i := range n.C {
				shape(&n.C[i], d+1)
			}
			b.WriteString(")")
		}
	}
	for i := range in.Items {
		n := &in.Items[i]
		if n.K == 0 {
			elems++
			for j := range n.C {
				if n.C[j].K == 0 {
					withKids = true
				}
			}
		}
		shape(n, 0)
		b.WriteString(";")
	}
	if in.Component {
		b.WriteString("C")
	}
	if in.Closed {
		b.WriteString("$")
	}
	return b.String(), elems >= 2 && withKids
}
