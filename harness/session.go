package main

// Shared runner for session negotiation (C03, C04, C11): the real Client against the
// scripted TCP/TLS server, over histories of connections.

import (
	"crypto/tls"
	"errors"
	"fmt"
	"strconv"
	"strings"
	"sync"
	"time"

	xmpp "gosrc.io/xmpp"
	"gosrc.io/xmpp/stanza"
)

type sessConn struct {
	Groups  [][]sItem `json:"groups"`
	Cert    string    `json:"cert,omitempty"`
	Traffic int       `json:"traffic,omitempty"` // stanzas pushed after a successful negotiation
	NoDial  bool      `json:"nodial,omitempty"`  // nothing listens: the TCP connection is refused
	Hold    bool      `json:"hold,omitempty"`    // after a </stream:stream> of the script the server keeps the connection open and waits for the client's closing tag (RFC 6120 4.4)
	// C04, application sends from another goroutine (client.Send of a <message/> carrying a unique marker):
	// SendDuring: NDuring sends made WHILE this connection attempt runs: "starttls" = as soon as the server holds the
	// client's <starttls/> (the script withholds its answer), "certfail" = as soon as the server's TLS handshake has
	// failed (the client refused the certificate and keeps the connection for ConnectTimeout); the connection is cut
	// afterwards. SendAfter: sends made after connect() has returned, before traffic / the cut.
	SendDuring string `json:"send_during,omitempty"`
	NDuring    int    `json:"n_during,omitempty"`
	SendAfter  int    `json:"send_after,omitempty"`
	// C04, stream-management retransmissions: an acknowledgement <a h=.../> is applied to the stanzas held for the
	// session (those the earlier sends of the history left unacknowledged): AckDuring while this attempt runs (same
	// trigger as SendDuring, after its sends; NoSendDuring: no sends, only these), AckAfter after connect() has returned
	// (after the SendAfter sends). AckVia: "route" = xmpp.VerifRoute(router, client, SMAnswer{H}), what the go routine
	// started by the receiver of the OLD connection does, possibly long after that connection is gone; anything
	// else = the exported SendMissingStz on the queue taken from the session while it was up (what an application
	// may call). Each must leave at least one stanza held (h below the number of stanzas sent on the session).
	AckDuring    []int  `json:"ack_during,omitempty"`
	AckAfter     []int  `json:"ack_after,omitempty"`
	AckVia       string `json:"ack_via,omitempty"`
	NoSendDuring bool   `json:"no_send_during,omitempty"`
	// HeldSend (C04, needs sessIn.HoldWrites and an established earlier session): BEFORE this connection attempt is
	// started a goroutine calls client.Send; the send passes the gate and is suspended at the entry of the transport's
	// Write (a sender descheduled there). The attempt is then started: it must not dial while that write is in flight
	// (observed for 150 ms: does the server get a new connection?). Then the sender is released.
	HeldSend bool `json:"held_send,omitempty"`
	// AppSendAt > 0 (C03, an application send while the negotiation is in progress): the scripted server holds back its
	// AppSendAt-th answer of this connection (1: its first stream header, the answer to the client's first stream
	// header; 2: the answer to the client's next request; ...) until another goroutine of the "application" has called
	// Send (AppSendVia "send") or SendRaw ("raw") with a <message/> carrying a marker (appMarker) and that call has
	// RETURNED; only then does the server answer. Whatever the call returned, the stanza must not show up at the
	// server before the negotiation of this connection is through: it is reported among the requests of the
	// connection (kind 50), unless it arrived after the last request of a negotiation that succeeded.
	AppSendAt  int    `json:"app_send_at,omitempty"`
	AppSendVia string `json:"app_send_via,omitempty"`
}

// appMarker: prefix of the id of the <message/> an application goroutine tries to send during a negotiation (C03)
const appMarker = "xvapp-"

// holdTransport: pass-through around the client's transport; the Write that carries the armed marker waits at its
// entry until released.
type holdTransport struct {
	xmpp.Transport
	mu      sync.Mutex
	marker  string
	entered chan struct{}
	release chan struct{}
}

func (h *holdTransport) arm(marker string) {
	h.mu.Lock()
	h.marker, h.entered, h.release = marker, make(chan struct{}), make(chan struct{})
	h.mu.Unlock()
}

func (h *holdTransport) Write(p []byte) (int, error) {
	h.mu.Lock()
	m, entered, release := h.marker, h.entered, h.release
	if m != "" && strings.Contains(string(p), m) {
		h.marker = ""
	} else {
		m = ""
	}
	h.mu.Unlock()
	if m != "" {
		close(entered)
		select {
		case <-release:
		case <-time.After(10 * time.Second):
		}
	}
	return h.Transport.Write(p)
}

// sendObs: what became of one application send: the error Send returned, and where the server saw the marker
// ("" nowhere, "clear": in the bytes received outside TLS, "tls": in the decrypted stream).
type sendObs struct {
	Err   error
	Where string
	NoErr bool // a retransmission triggered through the router: no error is reported to anybody
}

const sendMarker = "xvgate-"

type sessIn struct {
	Insecure   bool       `json:"insecure,omitempty"`
	Resource   string     `json:"resource,omitempty"`
	SMEnable   bool       `json:"sm_enable,omitempty"`
	SMResume   bool       `json:"sm_resume,omitempty"`
	OAuth      bool       `json:"oauth,omitempty"`
	TLSMode    int        `json:"tlsmode,omitempty"` // 0 RootCAs, 1 InsecureSkipVerify, 2 nil TLSConfig
	ServerName string     `json:"servername,omitempty"`
	Conns      []sessConn `json:"conns"`
	Tag        string     `json:"tag,omitempty"` // generator label (what is being varied)
	// Patient: the scripted server sends its answers item by item and notes how many items it had sent when each
	// client request showed up (connScript.PeekMs): "each request only after the previous step was confirmed"
	Patient bool `json:"patient,omitempty"`
	// C04: SessionCache: the TLS configuration carries a ClientSessionCache (crypto/tls may then resume, on a later
	// connection of this client, the TLS session of an earlier one); Tickets: what the server does about session
	// tickets (connScript.Tickets). HoldWrites: the client's transport is wrapped by a pass-through that can suspend
	// one Write at its entry (sessConn.HeldSend).
	SessionCache bool   `json:"session_cache,omitempty"`
	Tickets      string `json:"tickets,omitempty"`
	HoldWrites   bool   `json:"hold_writes,omitempty"`
	// User / Secret (C14): local part of the configured JID and the password or token; "" = "user" / "secret" ("token")
	User   string `json:"user,omitempty"`
	Secret string `json:"secret,omitempty"`
	// WS (C03): "" the TCP transport; "ws" / "wss": the WebSocket transport against a scripted websocket endpoint
	// (plain / over TLS): see c03ws.go. No STARTTLS there, no traffic phase.
	WS string `json:"ws,omitempty"`
}

func (in sessIn) user() string {
	if in.User != "" {
		return in.User
	}
	return "user"
}

func (in sessIn) secret() string {
	switch {
	case in.Secret != "":
		return in.Secret
	case in.OAuth:
		return "token"
	}
	return "secret"
}

// tlsOutcome: model of crypto/tls as configured by XMPPTransport.StartTLS
// (ServerName defaults to Domain; VerifyHostname(Domain) unless InsecureSkipVerify).
func (in sessIn) tlsOutcome(cert string) bool {
	if cert == "" {
		cert = "valid"
	}
	switch in.TLSMode {
	case 1:
		return true
	case 2:
		return false // system roots do not know the test CA
	}
	sn := in.ServerName
	if sn == "" {
		sn = srvDomain
	}
	if cert == "both" { // valid for the domain and for other.example
		return sn == srvDomain || sn == "other.example"
	}
	certName := map[string]string{"valid": srvDomain, "wronghost": "other.example", "untrusted": srvDomain, "expired": srvDomain}[cert]
	if cert == "untrusted" || cert == "expired" {
		return false
	}
	// handshake verifies against ServerName, then VerifyHostname(Domain)
	return certName == sn && certName == srvDomain
}

func (in sessIn) mechs() []string {
	if in.OAuth {
		return []string{"X-OAUTH2"}
	}
	return []string{"PLAIN"}
}

// ---- model input ----
func featuresSx(it sItem) Sx {
	ms := make([]Sx, len(it.Mechs))
	for i, m := range it.Mechs {
		ms[i] = SBytes(m)
	}
	return L(Zi(it.TLS), LS(ms), B(it.Bind), Zi(it.Sess), B(it.SM))
}

func itemSx(it sItem) Sx {
	switch it.T {
	case "header":
		if it.Open == "other" {
			// the opening element of the other transport does not open a stream of this one: an unexpected element
			return L(Z(16))
		}
		return L(Z(0), SBytes(it.ID))
	case "features":
		return L(Z(1), featuresSx(it))
	case "proceed":
		return L(Z(2))
	case "tlsfailure":
		return L(Z(3))
	case "success":
		return L(Z(4))
	case "saslfailure":
		return L(Z(5))
	case "iq":
		if it.NS != "" {
			// an element called iq in a namespace that is not the stream's: not an IQ stanza, whatever it contains
			return L(Z(16))
		}
		if it.KeepID {
			// an <iq/> that does not carry the id of the pending request does not answer it: an unexpected element
			return L(Z(16))
		}
		typ := map[string]int{"get": 0, "set": 1, "result": 2, "error": 3}[it.Typ]
		var pl Sx
		switch it.Pl {
		case "bind":
			if it.Jid == "" {
				pl = L(Z(2)) // an empty <bind/>: a payload, but not the result of resource binding (that carries the bound JID)
			} else {
				pl = L(Z(0), SBytes(it.Jid))
			}
		case "session":
			pl = L(Z(1))
		case "other":
			pl = L(Z(2))
		default:
			pl = L(Z(3))
		}
		return L(Z(6), Zi(typ), pl, B(it.Err))
	case "message":
		return L(Z(7))
	case "presence":
		return L(Z(8))
	case "enabled":
		// the client reads the attribute with strconv.ParseBool: "1", "t", "TRUE"... grant resumption too
		rv := 3
		if b, err := strconv.ParseBool(it.Res); err == nil && b {
			rv = 0
		} else if err == nil {
			rv = 1
		} else if it.Res == "" {
			rv = 2
		}
		return L(Z(9), SBytes(it.ID), Zi(rv))
	case "resumed":
		return L(Z(10), SBytes(it.ID))
	case "failed":
		return L(Z(11))
	case "r":
		return L(Z(12))
	case "a":
		return L(Z(13))
	case "serr":
		return L(Z(14))
	case "close":
		return L(Z(15))
	case "unknown":
		return L(Z(16))
	case "malformed":
		return L(Z(17))
	default:
		return L(Z(18))
	}
}

// sessInputObsSx: the model input plus, per connection, the observed "items sent before each request" (the model
// answers with the same number when it is at least what the client must have consumed by then).
func sessInputObsSx(in sessIn, obs Sx) Sx {
	x := sessInputSx(in)
	var sbs []Sx
	for _, co := range obs.L {
		var l []Sx
		if len(co.L) >= 1 {
			for _, rq := range co.L[0].L {
				if len(rq.L) == 3 {
					l = append(l, rq.L[2])
				}
			}
		}
		sbs = append(sbs, LS(l))
	}
	x.L = append(x.L, LS(sbs))
	return x
}

func sessInputSx(in sessIn) Sx {
	ms := []Sx{}
	for _, m := range in.mechs() {
		ms = append(ms, SBytes(m))
	}
	var conns []Sx
	for _, c := range in.Conns {
		var items []Sx
		for _, g := range c.Groups {
			for _, it := range g {
				if it.T == "wait" {
					continue
				}
				if in.WS != "" && it.T == "close" {
					// over a websocket the stream is closed by <close xmlns='urn:ietf:params:xml:ns:xmpp-framing'/>,
					// which the stream parser does not know: an element in an unknown namespace
					items = append(items, L(Z(16)))
					continue
				}
				items = append(items, itemSx(it))
			}
		}
		conns = append(conns, L(B(!c.NoDial), B(in.tlsOutcome(c.Cert)), LS(items), Zi(c.Traffic)))
	}
	cfg := L(B(in.Insecure), SBytes(in.Resource), B(in.SMResume), LS(ms))
	switch in.WS {
	case "ws":
		cfg.L = append(cfg.L, Z(1))
	case "wss":
		cfg.L = append(cfg.L, Z(2))
	}
	return L(cfg, B(in.SMEnable), LS(conns))
}

// ---- running against the implementation ----
var sessPortMu sync.Mutex

func reqSx(e cElem) (Sx, bool) {
	switch e.Kind {
	case "open":
		return L(Z(0)), true
	case "starttls":
		return L(Z(1)), true
	case "auth":
		return L(Z(2), SBytes(e.A)), true
	case "resume":
		h, err := strconv.Atoi(e.B)
		if err != nil {
			h = -1
		}
		return L(Z(3), SBytes(e.A), Zi(h)), true
	case "bind":
		id, err := strconv.ParseInt(e.B, 16, 64)
		if err != nil {
			id = -1
		}
		return L(Z(4), SBytes(e.C), Z(id)), true
	case "session":
		id, err := strconv.ParseInt(e.B, 16, 64)
		if err != nil {
			id = -1
		}
		return L(Z(5), Z(id)), true
	case "enable":
		return L(Z(6), B(e.A == "true")), true
	case "close":
		return Sx{}, false // the client's own </stream:stream> on teardown
	default:
		return L(Z(50), SBytes(e.Kind+" "+e.A)), true
	}
}

type sessObs struct {
	elems    [][]cElem
	clear    [][]byte
	errs     []error
	estab    []int // per connection: StateSessionEstablished events delivered by the time the connection was over
	estabRet []int // ... by the time Client.connect had returned (C03: announced exactly when connecting succeeds)
	before   []sessSnap
	after    []sessSnap
	tlsLogs  []string
	sends    [][]sendObs // per connection: the sends during the attempt, then those after it (C04)
	resends  [][]sendObs // per connection: the acknowledgements applied during the attempt, then those after it (C04)
	resumed  []bool      // per connection: the server saw the TLS session resumed (C04)
	held     [][2]bool   // per connection with a held send: the attempt dialled while the write was in flight; the stanza showed up in clear on the new connection (C04)
	flags    [][2]bool   // per connection, afterwards: XMPPTransport.isSecure, Session.TlsEnabled (false without a session) (C04)
}
type sessSnap struct {
	has     bool
	id, jid string
	inbound uint
	queue   bool
}

func snapClient(c *xmpp.Client) sessSnap {
	if c.Session == nil {
		return sessSnap{}
	}
	return sessSnap{has: true, id: c.Session.SMState.Id, jid: c.Session.BindJid, inbound: c.Session.SMState.Inbound, queue: c.Session.SMState.UnAckQueue != nil}
}

// runSessionRaw drives the history and returns raw observations (for oracles) and the Sx.
func runSessionRaw(in sessIn) (*sessObs, Sx) {
	initCerts()
	scripts := make([]connScript, 0, len(in.Conns))
	for _, c := range in.Conns {
		if c.NoDial {
			continue
		}
		sc := connScript{Groups: c.Groups, Cert: c.Cert, IdleDropMs: 400, StallDropMs: 3000}
		if in.Patient {
			sc.PeekMs = 4
		}
		sc.HoldAfterClose = c.Hold
		if c.SendDuring == "certfail" {
			sc.LingerMs = 3000
		}
		sc.Tickets = in.Tickets
		if c.AppSendAt > 0 {
			sc.GateAt, sc.gateReached, sc.gateRelease = c.AppSendAt, make(chan struct{}), make(chan struct{})
		}
		if c.SendDuring != "" {
			sc.IdleDropMs = 8000 // the runner cuts the connection itself when it has seen what it needs
		}
		scripts = append(scripts, sc)
	}
	srv, err := startScriptedServer(scripts)
	if err != nil {
		return nil, L(SBytes("listen-failed"))
	}
	defer srv.stop()
	jid := in.user() + "@" + srvDomain
	if in.Resource != "" {
		jid += "/" + in.Resource
	}
	cfg := &xmpp.Config{
		TransportConfiguration: xmpp.TransportConfiguration{Address: srv.addr(), Domain: srvDomain, ConnectTimeout: 1},
		Jid:                    jid,
		Credential:             xmpp.Password(in.secret()),
		Insecure:               in.Insecure,
		StreamManagementEnable: in.SMEnable,
		ConnectTimeout:         1,
	}
	if in.OAuth {
		cfg.Credential = xmpp.OAuthToken(in.secret())
	}
	cfg.VerifSetSMResume(in.SMResume)
	switch in.TLSMode {
	case 0:
		cfg.TLSConfig = &tls.Config{RootCAs: caPool, ServerName: in.ServerName}
	case 1:
		cfg.TLSConfig = &tls.Config{InsecureSkipVerify: true, ServerName: in.ServerName}
	}
	if in.SessionCache && cfg.TLSConfig != nil {
		cfg.TLSConfig.ClientSessionCache = tls.NewLRUClientSessionCache(8)
	}
	var mu sync.Mutex
	handled := 0
	estab := 0
	router := xmpp.NewRouter()
	router.NewRoute().HandlerFunc(func(s xmpp.Sender, p stanza.Packet) {
		mu.Lock()
		switch p.(type) {
		case stanza.Message, stanza.Presence, *stanza.IQ:
			handled++
		}
		mu.Unlock()
	})
	client, err := xmpp.NewClient(cfg, router, func(error) {})
	if err != nil {
		return nil, L(SBytes("newclient-failed: " + err.Error()))
	}
	var holder *holdTransport
	if in.HoldWrites {
		holder = &holdTransport{Transport: xmpp.VerifTransport(client)}
		xmpp.VerifSetTransport(client, holder)
	}
	client.SetHandler(func(e xmpp.Event) error {
		if xmpp.VerifEventState(e) == xmpp.StateSessionEstablished {
			mu.Lock()
			estab++
			mu.Unlock()
		}
		return nil
	})
	ob := &sessObs{}
	var heldMarkers []string         // C04: markers of the stanzas sent on the current stream-managed session (held: nobody acknowledges them)
	var heldQueue *stanza.UnAckQueue // ... and the queue that holds them
	var conns []Sx
	srvIdx := 0
	for _, c := range in.Conns {
		ob.before = append(ob.before, snapClient(client))
		mu.Lock()
		estab = 0
		mu.Unlock()
		if c.NoDial {
			// nobody listens on the port for the duration of this attempt
			srv.ln.Close()
		}
		// C04: a sender that has passed the gate and sits at the entry of the transport's Write while the attempt starts
		heldMarker := ""
		var heldDone chan error
		if c.HeldSend && holder != nil && !c.NoDial {
			heldMarker = fmt.Sprintf("%s%d-h", sendMarker, len(conns))
			holder.arm(heldMarker)
			heldDone = make(chan error, 1)
			go func(m string) {
				heldDone <- client.Send(stanza.Message{Attrs: stanza.Attrs{Id: m, To: "peer@" + srvDomain, Type: stanza.MessageTypeChat}, Body: m})
			}(heldMarker)
			select {
			case <-holder.entered:
			case err := <-heldDone: // refused at the gate (or failed before the write): nothing is in flight
				heldDone <- err
				heldMarker = ""
			case <-time.After(5 * time.Second):
				heldMarker = ""
			}
		}
		done := make(chan error, 1)
		go func() { done <- xmpp.VerifClientConnect(client) }()
		held := [2]bool{}
		if heldMarker != "" {
			// does the attempt dial while the write is in flight?
			until := time.Now().Add(150 * time.Millisecond)
			for time.Now().Before(until) && !held[0] {
				held[0] = len(srv.snapshot()) > srvIdx
				time.Sleep(500 * time.Microsecond)
			}
			close(holder.release)
			select {
			case <-heldDone:
			case <-time.After(10 * time.Second):
			}
		}
		if c.AppSendAt > 0 && !c.NoDial && srvIdx < len(scripts) {
			// C03: the server has the client's request and holds back its answer: the application sends now
			gsc := scripts[srvIdx]
			select {
			case <-gsc.gateReached:
				m := fmt.Sprintf("%s%d", appMarker, len(conns))
				if c.AppSendVia == "raw" {
					client.SendRaw("<message id='" + m + "' to='peer@" + srvDomain + "' type='chat'><body>" + m + "</body></message>")
				} else {
					client.Send(stanza.Message{Attrs: stanza.Attrs{Id: m, To: "peer@" + srvDomain, Type: stanza.MessageTypeChat}, Body: m})
				}
			case err := <-done: // the attempt was over before the server got that far
				done <- err
			case <-time.After(8 * time.Second):
			}
			close(gsc.gateRelease)
		}
		var sends, resends []sendObs
		var markers []string
		// retransmission: apply <a h/> to the held stanzas; did any of their markers show up at the server AGAIN, where?
		countHeld := func() (clear, tls int) {
			logs := srv.snapshot()
			if srvIdx < len(logs) {
				lg := logs[srvIdx]
				outside := string(lg.ClearBy) + "\x00" + string(lg.RawBy)
				for _, m := range heldMarkers {
					clear += strings.Count(outside, m)
					tls += strings.Count(string(lg.SecureBy), m)
				}
			}
			return
		}
		applyAck := func(h int) {
			c0, t0 := countHeld()
			so := sendObs{}
			if c.AckVia == "route" {
				so.NoErr = true
				xmpp.VerifRoute(router, client, stanza.SMAnswer{H: uint(h)})
			} else if heldQueue != nil {
				so.Err = xmpp.SendMissingStz(h, client, heldQueue)
			} else {
				so.Err = errors.New("no queue")
			}
			quiet := time.Now().Add(25 * time.Millisecond)
			giveUp := quiet
			if !so.NoErr && so.Err == nil {
				giveUp = time.Now().Add(6 * time.Second) // written, says the library: it must show up somewhere
			}
			for {
				c1, t1 := countHeld()
				switch {
				case c1 > c0:
					so.Where = "clear"
				case t1 > t0:
					so.Where = "tls"
				}
				if so.Where != "" || time.Now().After(giveUp) {
					break
				}
				time.Sleep(300 * time.Microsecond)
			}
			resends = append(resends, so)
		}
		appSend := func(tag string) {
			m := fmt.Sprintf("%s%d-%s", sendMarker, len(conns), tag)
			err := client.Send(stanza.Message{Attrs: stanza.Attrs{Id: m, To: "peer@" + srvDomain, Type: stanza.MessageTypeChat}, Body: m})
			sends = append(sends, sendObs{Err: err})
			markers = append(markers, m)
		}
		// where did the markers show up at the server? A send that returned nil is waited for (it must arrive
		// somewhere); one that returned an error is given a moment in which it must not arrive.
		locate := func() {
			quiet := time.Now().Add(20 * time.Millisecond) // refused sends: nothing may show up meanwhile
			giveUp := time.Now().Add(6 * time.Second)      // accepted sends: they must show up somewhere (generous: a loaded machine)
			for {
				logs := srv.snapshot()
				missing := false
				if srvIdx < len(logs) {
					lg := logs[srvIdx]
					outside := string(lg.ClearBy) + "\x00" + string(lg.RawBy)
					for j, m := range markers {
						switch {
						case strings.Contains(outside, m):
							sends[j].Where = "clear"
						case strings.Contains(string(lg.SecureBy), m):
							sends[j].Where = "tls"
						case sends[j].Err == nil:
							missing = true
						}
					}
				}
				now := time.Now()
				if now.After(giveUp) || (!missing && (allErrNil(sends) || now.After(quiet))) {
					return
				}
				time.Sleep(300 * time.Microsecond)
			}
		}
		if c.SendDuring != "" && !c.NoDial {
			trigger := time.Now().Add(5 * time.Second)
			for time.Now().Before(trigger) {
				logs := srv.snapshot()
				hit := false
				if srvIdx < len(logs) {
					switch c.SendDuring {
					case "starttls":
						for _, e := range logs[srvIdx].Elems {
							hit = hit || e.Kind == "starttls"
						}
					case "certfail":
						hit = logs[srvIdx].TLS == "handshake-error"
					}
				}
				if hit {
					break
				}
				time.Sleep(200 * time.Microsecond)
			}
			n := c.NDuring
			if n < 1 {
				n = 1
			}
			if c.NoSendDuring {
				n = 0
			}
			for j := 0; j < n; j++ {
				appSend(fmt.Sprintf("d%d", j))
			}
			locate()
			for _, h := range c.AckDuring {
				applyAck(h)
			}
			srv.drop(srvIdx) // the attempt ends here: the peer goes away
		}
		var cerr error
		select {
		case cerr = <-done:
		case <-time.After(hungAfter(c)):
			return ob, L(SBytes("connect-hung"), Zi(len(conns)))
		}
		mu.Lock()
		estabRet := estab
		mu.Unlock()
		ob.estabRet = append(ob.estabRet, estabRet)
		if c.SendAfter > 0 && !c.NoDial {
			for j := 0; j < c.SendAfter; j++ {
				appSend(fmt.Sprintf("a%d", j))
			}
			locate()
		}
		if !c.NoDial {
			if cerr == nil && client.Session != nil && client.Session.SMState.UnAckQueue != nil && client.Session.SMState.UnAckQueue != heldQueue {
				// a new stream-managed session: what is sent on it from now on is held until acknowledged (never, here)
				heldQueue, heldMarkers = client.Session.SMState.UnAckQueue, nil
			}
			if cerr == nil && client.Session != nil && client.Session.SMState.UnAckQueue == heldQueue && heldQueue != nil {
				for j, so := range sends {
					if so.Err == nil && strings.Contains(markers[j], "-a") {
						heldMarkers = append(heldMarkers, markers[j])
					}
				}
			}
			for _, h := range c.AckAfter {
				applyAck(h)
			}
		}
		ob.sends = append(ob.sends, sends)
		ob.resends = append(ob.resends, resends)
		if c.NoDial {
			ob.errs = append(ob.errs, cerr)
			ob.elems = append(ob.elems, nil)
			ob.clear = append(ob.clear, nil)
			ob.tlsLogs = append(ob.tlsLogs, "")
			ob.resumed = append(ob.resumed, false)
			ob.held = append(ob.held, [2]bool{})
			mu.Lock()
			estabEnd := estab
			ob.estab = append(ob.estab, estabEnd)
			mu.Unlock()
			ob.after = append(ob.after, snapClient(client))
			ob.flags = append(ob.flags, clientTLSFlags(client))
			conns = append(conns, L(L(), errSx(cerr), snapSx(snapClient(client)), L(), L(Zi(estabRet), Zi(estabEnd))))
			// listen again on the same port for later connections
			if e := srv.relisten(); e != nil {
				return ob, L(SBytes("relisten-failed"))
			}
			continue
		}
		// traffic on an established session: the receive loop counts it
		if cerr == nil && c.Traffic > 0 {
			mu.Lock()
			handled = 0
			mu.Unlock()
			quit := make(chan struct{})
			rdone := make(chan struct{})
			go func() { xmpp.VerifRecv(client, quit); close(rdone) }()
			var b strings.Builder
			for i := 0; i < c.Traffic; i++ {
				b.WriteString(sItem{T: []string{"message", "presence"}[i%2], N: i + 1}.xml())
				if i%3 == 0 {
					b.WriteString("<r xmlns='urn:xmpp:sm:3'/>")
				}
			}
			srv.push(srvIdx, b.String())
			deadline := time.Now().Add(10 * time.Second) // only bounds a hang: generous, the machine may be loaded
			for {
				mu.Lock()
				n := handled
				mu.Unlock()
				if n >= c.Traffic || time.Now().After(deadline) {
					break
				}
				time.Sleep(300 * time.Microsecond)
			}
			// every third stanza was followed by <r/>: wait until the server has the answers
			wantA := (c.Traffic + 2) / 3
			for time.Now().Before(deadline) {
				na := 0
				for _, l := range srv.snapshot() {
					_ = l
				}
				logs := srv.snapshot()
				if srvIdx < len(logs) {
					for _, e := range logs[srvIdx].Elems {
						if e.Kind == "a" {
							na++
						}
					}
				}
				if na >= wantA {
					break
				}
				time.Sleep(300 * time.Microsecond)
			}
			srv.drop(srvIdx)
			select {
			case <-rdone:
			case <-time.After(3 * time.Second):
				return ob, L(SBytes("recv-hung"), Zi(len(conns)))
			}
		} else {
			// let the failure path's teardown (close exchange) finish, then cut
			time.Sleep(2 * time.Millisecond)
			srv.drop(srvIdx)
		}
		time.Sleep(time.Millisecond)
		logs := srv.snapshot()
		var lg connLog
		if srvIdx < len(logs) {
			lg = logs[srvIdx]
		}
		srvIdx++
		ob.errs = append(ob.errs, cerr)
		ob.elems = append(ob.elems, lg.Elems)
		ob.clear = append(ob.clear, lg.ClearBy)
		ob.tlsLogs = append(ob.tlsLogs, lg.TLS)
		ob.resumed = append(ob.resumed, lg.Resumed)
		if heldMarker != "" {
			held[1] = strings.Contains(string(lg.ClearBy)+"\x00"+string(lg.RawBy), heldMarker)
		}
		ob.held = append(ob.held, held)
		mu.Lock()
		estabEnd := estab
		mu.Unlock()
		ob.estab = append(ob.estab, estabEnd)
		snap := snapClient(client)
		ob.after = append(ob.after, snap)
		ob.flags = append(ob.flags, clientTLSFlags(client))
		var reqs []Sx
		answers := []Sx{}
		for _, e := range lg.Elems {
			if e.Kind == "a" {
				h, err := strconv.Atoi(e.A)
				if err != nil {
					h = -1
				}
				answers = append(answers, Zi(h))
			}
			if e.Kind == "a" || e.Kind == "presence" || e.Kind == "r" {
				continue // post-session traffic
			}
			if e.Kind == "message" && strings.HasPrefix(e.A, sendMarker) {
				continue // an application send of the scenario (C04): reported through sessObs.sends
			}
			if x, ok := reqSx(e); ok {
				// third component: how many server items had been sent when the request showed up (-1: not measured)
				sb := -1
				if in.Patient {
					sb = e.Items
				}
				reqs = append(reqs, L(x, B(e.Secure), Zi(sb)))
			}
		}
		if cerr == nil {
			// an application stanza that reached the server after the last request of a negotiation that succeeded
			// was not sent during the negotiation
			for len(reqs) > 0 && isAppSendReq(reqs[len(reqs)-1]) {
				reqs = reqs[:len(reqs)-1]
			}
		}
		// fifth component: how often the session-established state was announced to the EventHandler, by the
		// time Client.connect returned and by the time the connection was over
		conns = append(conns, L(LS(reqs), errSx(cerr), snapSx(snap), LS(answers), L(Zi(estabRet), Zi(estabEnd))))
	}
	return ob, LS(conns)
}

// clientTLSFlags: the two flags the TLS gate of NewSession reads, as the client's objects hold them now.
func clientTLSFlags(c *xmpp.Client) [2]bool {
	return [2]bool{xmpp.VerifTransportSecureFlag(xmpp.VerifTransport(c)), c.Session != nil && c.Session.TlsEnabled}
}

// isAppSendReq: the request entry (reqSx, kind 50) of an application <message/> sent during a negotiation (C03)
func isAppSendReq(rq Sx) bool {
	return len(rq.L) >= 1 && len(rq.L[0].L) == 2 && rq.L[0].L[0].Z == 50 && strings.HasPrefix(string(bytesOf(rq.L[0].L[1])), "message "+appMarker)
}

func allErrNil(sends []sendObs) bool {
	for _, so := range sends {
		if so.Err != nil {
			return false
		}
	}
	return true
}

// hungAfter: how long Connect may take before the scenario is declared hung. Against a server that holds the
// connection open after closing the stream nothing else bounds the wait, so the verdict comes sooner there.
func hungAfter(c sessConn) time.Duration {
	if c.Hold {
		return 6 * time.Second
	}
	return 15 * time.Second
}

func snapSx(s sessSnap) Sx {
	return L(B(s.has), SBytes(s.id), Z(int64(s.inbound)), B(s.queue), SBytes(s.jid))
}

func errSx(err error) Sx {
	if err == nil {
		return L(Z(0))
	}
	var ce xmpp.ConnError
	if errors.As(err, &ce) {
		return L(Z(1), B(true), B(ce.Permanent))
	}
	return L(Z(1), B(false), B(false))
}

func (s *scriptedServer) relisten() error {
	addr := s.ln.Addr().String()
	for i := 0; i < 600; i++ { // up to ~1.2 s: another process may hold the (ephemeral) port for a moment
		l, err := netListen(addr)
		if err == nil {
			s.mu.Lock()
			s.ln = l
			s.mu.Unlock()
			s.wg.Add(1)
			go s.acceptLoop()
			return nil
		}
		time.Sleep(2 * time.Millisecond)
	}
	return fmt.Errorf("cannot listen on %s again", addr)
}
