package main

// Canonical reading of XML the library writes: the properties fix which ELEMENT goes on
// the wire (name, namespace, attributes, content), not its spelling (attribute order,
// quote style, <a/> versus <a></a>, where xmlns is repeated).  Everything the harness
// compares about written stanzas goes through here, so that a harmless change of the
// serialisation cannot raise an alarm while a change of content still does.

import (
	"bytes"
	"encoding/xml"
	"fmt"
	"io"
	"sort"
	"strconv"
	"strings"
)

type cnode struct {
	Name  xml.Name
	Attrs []xml.Attr
	Kids  []cnode // element children and text runs (Name.Local == "" for text)
	Text  string
}

// parseCanon reads zero or more complete top-level elements (namespace-resolved by
// encoding/xml's tokenizer; xmlns declarations dropped; comments and processing
// instructions ignored; white space between top-level elements ignored).
func parseCanon(data []byte) ([]cnode, error) {
	d := xml.NewDecoder(bytes.NewReader(data))
	var stack []*cnode
	var top []cnode
	for {
		tok, err := d.Token()
		if err == io.EOF {
			if len(stack) != 0 {
				return nil, fmt.Errorf("unclosed element")
			}
			return top, nil
		}
		if err != nil {
			return nil, err
		}
		switch t := tok.(type) {
		case xml.StartElement:
			n := &cnode{Name: t.Name}
			for _, a := range t.Attr {
				if a.Name.Space == "xmlns" || (a.Name.Space == "" && a.Name.Local == "xmlns") {
					continue
				}
				n.Attrs = append(n.Attrs, a)
			}
			sort.SliceStable(n.Attrs, func(i, j int) bool {
				if n.Attrs[i].Name.Space != n.Attrs[j].Name.Space {
					return n.Attrs[i].Name.Space < n.Attrs[j].Name.Space
				}
				return n.Attrs[i].Name.Local < n.Attrs[j].Name.Local
			})
			stack = append(stack, n)
		case xml.EndElement:
			if len(stack) == 0 {
				return nil, fmt.Errorf("unexpected end element")
			}
			n := stack[len(stack)-1]
			stack = stack[:len(stack)-1]
			if len(stack) == 0 {
				top = append(top, *n)
			} else {
				p := stack[len(stack)-1]
				p.Kids = append(p.Kids, *n)
			}
		case xml.CharData:
			if len(stack) == 0 {
				if strings.TrimSpace(string(t)) != "" {
					return nil, fmt.Errorf("text outside an element")
				}
				continue
			}
			p := stack[len(stack)-1]
			if k := len(p.Kids); k > 0 && p.Kids[k-1].Name.Local == "" {
				p.Kids[k-1].Text += string(t)
			} else if len(t) > 0 {
				p.Kids = append(p.Kids, cnode{Text: string(t)})
			}
		}
	}
}

func (n cnode) write(b *strings.Builder) {
	if n.Name.Local == "" {
		b.WriteString(strconv.Quote(n.Text))
		return
	}
	fmt.Fprintf(b, "{%s}%s[", n.Name.Space, n.Name.Local)
	for i, a := range n.Attrs {
		if i > 0 {
			b.WriteByte(' ')
		}
		fmt.Fprintf(b, "{%s}%s=%s", a.Name.Space, a.Name.Local, strconv.Quote(a.Value))
	}
	b.WriteString("](")
	for _, k := range n.Kids {
		k.write(b)
	}
	b.WriteByte(')')
}

// canonXML: the canonical spelling of a sequence of complete elements; ok=false when
// the data is not that (then callers fall back to the exact bytes).
func canonXML(data []byte) (string, bool) {
	ns, err := parseCanon(data)
	if err != nil || len(ns) == 0 {
		return "", false
	}
	var b strings.Builder
	for _, n := range ns {
		n.write(&b)
	}
	return b.String(), true
}

// canonOrRaw: canonical form when the payload is well-formed XML, the exact bytes otherwise.
func canonOrRaw(s string) string {
	if c, ok := canonXML([]byte(s)); ok {
		return "C:" + c
	}
	return "R:" + s
}

const nsSM = "urn:xmpp:sm:3"

// smAnswerH: data is exactly one <a xmlns='urn:xmpp:sm:3' h='N'/> (any spelling).
func smAnswerH(data []byte) (int, bool) {
	ns, err := parseCanon(data)
	if err != nil || len(ns) != 1 || ns[0].Name.Space != nsSM || ns[0].Name.Local != "a" || len(ns[0].Kids) != 0 {
		return 0, false
	}
	for _, a := range ns[0].Attrs {
		if a.Name.Space == "" && a.Name.Local == "h" {
			v, err := strconv.Atoi(a.Value)
			if err != nil {
				return 0, false
			}
			return v, true
		}
	}
	return 0, false
}

// isSMRequest: data is exactly one <r xmlns='urn:xmpp:sm:3'/> (any spelling).
func isSMRequest(data []byte) bool {
	ns, err := parseCanon(data)
	return err == nil && len(ns) == 1 && ns[0].Name.Space == nsSM && ns[0].Name.Local == "r" && len(ns[0].Kids) == 0 && len(ns[0].Attrs) == 0
}
