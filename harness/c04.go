package main

// C04 is a composite check (like C09): behind one property
//   - connection histories against the scripted TCP/STARTTLS server (session.go, generator genC04 in c03.go),
//     now with APPLICATION SENDS made by another goroutine while a connection attempt runs and after it
//     (the send gate of Client, Model/Gate.v), and with the raw clear-text log of the server in the observation;
//   - the WebSocket transport against a loopback HTTPS endpoint whose answer to the opening handshake is a chain of
//     redirects (wss:// -> http:// and others), with a plain endpoint that records what arrives in clear.

import (
	"context"
	"crypto/ecdsa"
	"crypto/elliptic"
	crand "crypto/rand"
	"crypto/tls"
	"crypto/x509"
	"crypto/x509/pkix"
	"encoding/json"
	"fmt"
	"io"
	"log"
	"math/big"
	"math/rand"
	"net"
	"net/http"
	"regexp"
	"strconv"
	"strings"
	"sync"
	"time"

	xmpp "gosrc.io/xmpp"
	"nhooyr.io/websocket"
)

type c04Case struct {
	Sess *sessIn `json:"sess,omitempty"`
	Wss  *wssIn  `json:"wss,omitempty"`
}

type wssIn struct {
	Insecure bool     `json:"insecure,omitempty"`
	Addr     string   `json:"addr"`            // scheme of the configured address: "wss" | "ws"
	Chain    []string `json:"chain,omitempty"` // scheme of the Location of each redirect answer in turn: "https" | "http"
	Code     int      `json:"code,omitempty"`  // status of the redirect answers (301 302 307 308)
	// TLSConf: TransportConfiguration.TLSConfig of the application: "" none (the process' default HTTP transport, which
	// trusts the test CA: "the machine trusts the issuer") | "roots" RootCAs = the test CA | "otherroots" RootCAs = a pool
	// that does NOT hold the issuer (the application trusts its own CA only) | "skip" InsecureSkipVerify.
	// Cert: what the https endpoint presents: "" issued by the test CA for the endpoint's address | "untrusted" the same
	// from a CA nobody trusts | "wrongname" issued by the test CA for another name.
	TLSConf string `json:"tlsconf,omitempty"`
	Cert    string `json:"cert,omitempty"`
}

// certAcceptable: the harness's own reading of "the certificate validates under the application's configuration".
func (w wssIn) certTrusted() bool { return w.Cert != "untrusted" && w.TLSConf != "otherroots" }
func (w wssIn) certAcceptable() bool {
	return w.TLSConf == "skip" || (w.certTrusted() && w.Cert != "wrongname")
}

type c04Prop struct{ s sessProp }

func (p c04Prop) ID() string    { return "C04" }
func (p c04Prop) RunFn() string { return "run_C04" }
func (p c04Prop) Workers() int  { return 48 }
func (p c04Prop) Journal() bool { return true }
func (p c04Prop) Rule() string {
	return p.s.rule + " PLUS application sends: histories on ONE Client (a TLS session, its loss, a reconnection on which the peer withholds <proceed/> or presents an untrusted certificate, a further good connection) x Insecure x TLS config, with client.Send called from another goroutine while the attempt runs (1-2 sends, triggered by what the server has received) and after each attempt; every stanza carries a unique marker that is looked for in the bytes the server received outside TLS (before <proceed/>, underneath a failed handshake, after it) and in the decrypted stream; for every connection with Insecure=false the clear-text byte log must reduce to stream headers, <starttls/> and </stream:stream>. PLUS stream-management retransmissions: a stream-managed session over verified TLS with 1-3 stanzas sent and never acknowledged, its loss, a held-up reconnection of the same Client (proceed withheld / certificate refused) during which 1-2 acknowledgements <a h/> that leave something held are applied -- routed through the router as the go routine left behind by the old receiver does, or through the exported SendMissingStz -- with or without application sends next to them, optionally a further good connection with sends and an acknowledgement; the markers of the held stanzas are counted in the clear-text and decrypted logs of the server before and after each acknowledgement (retransmitted where?). PLUS TLS session resumption: ClientSessionCache in the TLS configuration, servers issuing tickets (TLS 1.2 / 1.3) under one key, 2-3 connections of one client x ServerName {unset, other.example} x certificate valid for {domain, other.example only, both, untrusted issuer} x Insecure x {RootCAs, InsecureSkipVerify}; whether the server saw a session resumed is an input of the model that must not matter. PLUS writers in flight: the client's transport wrapped by a pass-through that suspends the Write of one marked stanza at its entry; Send is called on an established TLS session, then the next connection attempt of the client is started and watched for 150 ms (does the server get a new connection while the write is in flight?), then the sender is released: the stanza must not show up in the clear-text log of the new connection. PLUS WebSocket transport: a loopback HTTPS endpoint (certificate of a test CA trusted by the process) and a plain one; address wss:// or ws://, answer to the opening handshake = chain of 0-10 redirects over {https, http} (301/302/307/308), Insecure on/off; the endpoint reached completes SASL PLAIN + bind and records whether <auth/> arrived on a TLS connection"
}

func (p c04Prop) Gen(r *rand.Rand, tier string) []interface{} {
	var out []interface{}
	for _, x := range p.s.Gen(r, tier) {
		v := x.(sessIn)
		out = append(out, c04Case{Sess: &v})
	}
	for _, v := range genC04Gate(r, tier) {
		v := v
		out = append(out, c04Case{Sess: &v})
	}
	for _, v := range genC04Resend(r, tier) {
		v := v
		out = append(out, c04Case{Sess: &v})
	}
	for _, v := range genC04Resume(r, tier) {
		v := v
		out = append(out, c04Case{Sess: &v})
	}
	for _, v := range genC04Held(r, tier) {
		v := v
		out = append(out, c04Case{Sess: &v})
	}
	for _, v := range genC04Wss(r, tier) {
		v := v
		out = append(out, c04Case{Wss: &v})
	}
	return out
}

func (p c04Prop) Decode(raw json.RawMessage) (interface{}, error) {
	var c c04Case
	if err := json.Unmarshal(raw, &c); err != nil {
		return nil, err
	}
	if c.Sess == nil && c.Wss == nil {
		// a bare connection history (the format of this check before it became composite)
		var in sessIn
		if err := json.Unmarshal(raw, &in); err != nil {
			return nil, err
		}
		c.Sess = &in
	}
	return c, nil
}

var reClearFraming = regexp.MustCompile(`(?s)<\?xml[^>]*\?>|<stream:stream[^>]*>|<starttls[^>]*/>|<starttls[^>]*>\s*</starttls>|</stream:stream>|\s+`)

// clearResidue: what the server received outside TLS besides stream headers, <starttls/> and the closing tag.
func clearResidue(b []byte) string {
	s := reClearFraming.ReplaceAllString(string(b), "")
	if len(s) > 160 {
		s = s[:160]
	}
	return s
}

func sendSx(so sendObs) Sx {
	switch {
	case so.Err != nil && so.Where == "":
		return L(Z(0)) // refused: an error, nothing on the wire
	case so.Err == nil && so.Where != "":
		return L(Z(1), B(so.Where == "tls"))
	case so.Err != nil:
		return L(Z(2), B(so.Where == "tls")) // an error AND it arrived
	default:
		return L(Z(3)) // nil, but it never arrived
	}
}

// resendSx: a retransmission. Through the router nobody learns of an error: only where the held stanzas showed up again.
func resendSx(so sendObs) Sx {
	if so.NoErr {
		if so.Where == "" {
			return L(Z(0))
		}
		return L(Z(1), B(so.Where == "tls"))
	}
	return sendSx(so)
}

// nDuringOf: how many sends and how many acknowledgements the scenario makes while the attempt runs.
func nDuringOf(sc sessConn) (sends, acks int) {
	if sc.SendDuring == "" || sc.NoDial {
		return 0, 0
	}
	sends = maxInt(sc.NDuring, 1)
	if sc.NoSendDuring {
		sends = 0
	}
	return sends, len(sc.AckDuring)
}

func minInt(a, b int) int {
	if a < b {
		return a
	}
	return b
}

func (p c04Prop) Run(in interface{}) Sx {
	c := in.(c04Case)
	if c.Wss != nil {
		return runWss(*c.Wss)
	}
	ob, sx := runSessionRaw(*c.Sess)
	if ob == nil || sx.K != "l" || (len(sx.L) > 0 && sx.L[0].K == "s") || len(sx.L) != len(c.Sess.Conns) {
		return sx // could not be set up / did not finish
	}
	var per []Sx
	for ci := range c.Sess.Conns {
		// in the order of the model's trace: sends during the attempt, retransmissions during it, sends after, retransmissions after
		var ss []Sx
		var snd, rsn []sendObs
		if ci < len(ob.sends) {
			snd = ob.sends[ci]
		}
		if ci < len(ob.resends) {
			rsn = ob.resends[ci]
		}
		nd, nrd := nDuringOf(c.Sess.Conns[ci])
		nd, nrd = minInt(nd, len(snd)), minInt(nrd, len(rsn))
		for _, so := range snd[:nd] {
			ss = append(ss, sendSx(so))
		}
		for _, so := range rsn[:nrd] {
			ss = append(ss, resendSx(so))
		}
		for _, so := range snd[nd:] {
			ss = append(ss, sendSx(so))
		}
		for _, so := range rsn[nrd:] {
			ss = append(ss, resendSx(so))
		}
		res := ""
		if !c.Sess.Insecure && ci < len(ob.clear) {
			res = clearResidue(ob.clear[ci])
		}
		// the flags the gate reads, against what the server saw of THIS connection: isSecure claiming a TLS that was never
		// established on it; after a successful negotiation, Session.TlsEnabled differing from "the session runs over TLS"
		tlsHere := ci < len(ob.tlsLogs) && ob.tlsLogs[ci] == "ok"
		var fl [2]bool
		if ci < len(ob.flags) {
			fl = ob.flags[ci]
		}
		okHere := ci < len(ob.errs) && ob.errs[ci] == nil
		// a sender held inside its write while this attempt was started: did the dial overtake it, did its stanza land in
		// clear text on the new connection; and (environment) whether the server saw the TLS session resumed
		var hd [2]bool
		if ci < len(ob.held) {
			hd = ob.held[ci]
		}
		resumed := ci < len(ob.resumed) && ob.resumed[ci]
		if resumed {
			hist("tls-session-resumed")
		}
		per = append(per, L(LS(ss), SBytes(res), B(fl[0] && !tlsHere), B(okHere && fl[1] != tlsHere), B(hd[0]), B(hd[1]), B(resumed)))
	}
	return L(sx, LS(per))
}

func (p c04Prop) Input(in interface{}) Sx { return p.InputObs(in, L()) }
func (p c04Prop) InputObs(in interface{}, obs Sx) Sx {
	c := in.(c04Case)
	if c.Wss != nil {
		w := c.Wss
		var ch []Sx
		for _, s := range w.Chain {
			ch = append(ch, B(s != "https")) // 0 https, 1 http
		}
		// the TLS configuration and the abstract facts about the certificate: the MODEL decides the handshake
		// (TlsPolicy.handshake_ok with the host of the URL in the place of the domain); ServerName is never set here
		name := "url-host"
		if w.Cert == "wrongname" {
			name = "other.example"
		}
		return L(Z(1), B(w.Insecure), B(w.Addr != "wss"), LS(ch),
			L(B(w.TLSConf == "skip"), SBytes(""), SBytes("url-host"), B(w.certTrusted()), L(SBytes(name))))
	}
	var plans []Sx
	for _, sc := range c.Sess.Conns {
		var during, rduring []Sx
		nd, nrd := nDuringOf(sc)
		for j := 0; j < nd; j++ {
			during = append(during, Z(2)) // after the client's second request (stream header, <starttls/>)
		}
		for j := 0; j < nrd; j++ {
			rduring = append(rduring, Z(2))
		}
		after, rafter := sc.SendAfter, len(sc.AckAfter)
		if sc.NoDial {
			after, rafter = 0, 0
		}
		plans = append(plans, L(LS(during), Zi(after), LS(rduring), Zi(rafter)))
	}
	return L(Z(0), sessInputSx(*c.Sess), LS(plans), tlsDataSx(*c.Sess, obs))
}

// tlsDataSx: what the MODEL decides the outcome of StartTLS from (Model/TlsPolicy.start_tls): the client's TLS
// configuration and, per connection, what crypto/x509 says about the certificate presented -- trusted (issued by the CA
// of the configured pool and within its validity; never with a nil TLSConfig: the system roots do not know the test
// CA) and the names it carries. The decision itself (ServerName defaulting, the second check against Domain,
// InsecureSkipVerify) is the model's; sessIn.tlsOutcome stays the independent reading used by the direct oracle.
func tlsDataSx(in sessIn, obs Sx) Sx {
	sn := in.ServerName
	if in.TLSMode == 2 {
		sn = "" // no TLSConfig at all
	}
	var certs []Sx
	for ci, c := range in.Conns {
		kind := c.Cert
		if kind == "" {
			kind = "valid"
		}
		trusted := in.TLSMode != 2 && (kind == "valid" || kind == "wronghost" || kind == "both")
		names := []Sx{SBytes(srvDomain)}
		switch kind {
		case "wronghost":
			names = []Sx{SBytes("other.example")}
		case "both":
			names = append(names, SBytes("other.example"))
		}
		// observed: the server saw the TLS session of this connection resumed (an input of the model's decision that must not matter)
		resumed := false
		if obs.K == "l" && len(obs.L) == 2 && ci < len(obs.L[1].L) && len(obs.L[1].L[ci].L) >= 7 {
			resumed = obs.L[1].L[ci].L[6].Z == 1
		}
		certs = append(certs, L(B(trusted), LS(names), B(resumed)))
	}
	return L(B(in.TLSMode == 1), SBytes(sn), SBytes(srvDomain), LS(certs))
}

func (p c04Prop) Oracle(in interface{}, obs Sx) (string, string) {
	c := in.(c04Case)
	if c.Wss != nil {
		return oracleWss(*c.Wss, obs)
	}
	if obs.K != "l" || len(obs.L) != 2 || obs.L[0].K != "l" || (len(obs.L[0].L) > 0 && obs.L[0].L[0].K == "s") {
		return p.s.Oracle(*c.Sess, obs) // reports the hang / shape
	}
	// ---- C04, a sender in flight while a reconnection starts (judged first: a stray stanza in the middle of the
	// negotiation derails everything after it)
	for ci, pc := range obs.L[1].L {
		if ci >= len(c.Sess.Conns) || !c.Sess.Conns[ci].HeldSend || len(pc.L) < 6 {
			continue
		}
		if pc.L[5].Z == 1 && !c.Sess.Insecure {
			return fmt.Sprintf("conn %d: a sender that had passed the send gate on the established TLS session and was inside the transport's Write when this reconnection started wrote its stanza IN CLEAR on the new connection (Insecure=false)", ci), "cleartext-stanza-inflight"
		}
		if pc.L[4].Z == 1 {
			return fmt.Sprintf("conn %d: the reconnection dialled its new connection while a write that had passed the send gate was still in flight", ci), "dial-overtakes-write"
		}
	}
	if msg, sig := p.s.Oracle(*c.Sess, obs.L[0]); msg != "" {
		return msg, sig
	}
	// ---- C04, what the application sends and what the server's raw log holds
	for ci, pc := range obs.L[1].L {
		if ci >= len(c.Sess.Conns) {
			break
		}
		sc := c.Sess.Conns[ci]
		nd, nrd := nDuringOf(sc)
		for j, so := range pc.L[0].L {
			arrived, tlsCh := false, false
			switch so.L[0].Z {
			case 1, 2:
				arrived, tlsCh = true, so.L[1].Z == 1
			}
			when := "after the attempt"
			if j < nd+nrd {
				when = "while the connection attempt was running (" + sc.SendDuring + ")"
			}
			resend := (j >= nd && j < nd+nrd) || j >= nd+nrd+sc.SendAfter
			what, sig := "the stanza passed to Client.Send", "stanza"
			if resend {
				what, sig = "a stanza held for the stream-managed session, retransmitted on an acknowledgement ("+map[bool]string{true: "routed <a/>", false: "SendMissingStz"}[sc.AckVia == "route"]+")", "resend"
			}
			if arrived && !tlsCh && !c.Sess.Insecure {
				return fmt.Sprintf("conn %d: %s %s was received by the server IN CLEAR (outside TLS) with Insecure=false", ci, what, when), "cleartext-" + sig
			}
			if arrived && tlsCh && !c.Sess.tlsOutcome(sc.Cert) {
				return fmt.Sprintf("conn %d: %s %s travelled inside TLS although the certificate (%s, tlsmode %d, servername %q) must not verify", ci, what, when, sc.Cert, c.Sess.TLSMode, c.Sess.ServerName), "unverified-tls-" + sig
			}
			if so.L[0].Z == 3 {
				return fmt.Sprintf("conn %d: %s %s: nil was returned but nothing reached the server", ci, what, when), "send-lost"
			}
		}
		if len(pc.L) >= 4 && !sc.NoDial {
			if pc.L[2].Z == 1 {
				return fmt.Sprintf("conn %d: after this connection the transport says IsSecure although no TLS session was established on it: the next negotiation on this client would skip STARTTLS and its gate", ci), "stale-secure-flag"
			}
			if pc.L[3].Z == 1 {
				return fmt.Sprintf("conn %d: the negotiation succeeded but Session.TlsEnabled does not say whether the session runs over TLS", ci), "tlsenabled-wrong"
			}
		}
		if res := string(bytesOf(pc.L[1])); res != "" {
			return fmt.Sprintf("conn %d: with Insecure=false the server received, outside TLS, more than stream headers, <starttls/> and </stream:stream>: %q", ci, res), "cleartext-bytes"
		}
	}
	return "", ""
}

func maxInt(a, b int) int {
	if a > b {
		return a
	}
	return b
}

func (p c04Prop) Key(in interface{}) (string, bool) {
	c := in.(c04Case)
	if c.Wss != nil {
		hist("tag:wss")
		return fmt.Sprintf("W%v %s %v %d %s %s", c.Wss.Insecure, c.Wss.Addr, c.Wss.Chain, c.Wss.Code, c.Wss.TLSConf, c.Wss.Cert), len(c.Wss.Chain) > 0 || c.Wss.TLSConf != ""
	}
	k, nt := p.s.Key(*c.Sess)
	var b strings.Builder
	b.WriteString(k)
	fmt.Fprintf(&b, "<%v %s %v>", c.Sess.SessionCache, c.Sess.Tickets, c.Sess.HoldWrites)
	for _, sc := range c.Sess.Conns {
		fmt.Fprintf(&b, "{%s %d %d %v %v %s %v %v}", sc.SendDuring, sc.NDuring, sc.SendAfter, sc.AckDuring, sc.AckAfter, sc.AckVia, sc.NoSendDuring, sc.HeldSend)
	}
	return b.String(), nt
}

// ---------------------------------------------------------------- application sends: generator

// genC04Gate: histories on one Client with sends from another goroutine.
func genC04Gate(r *rand.Rand, tier string) []sessIn {
	var out []sessIn
	reps := 1
	if tier == "thorough" {
		reps = 4
	}
	for rep := 0; rep < reps; rep++ {
		for _, insecure := range []bool{false, true} {
			for _, tlsmode := range []int{0, 1, 2} {
				for _, phase := range []string{"starttls", "certfail"} {
					for _, prior := range []bool{true, false} {
						in := sessIn{Insecure: insecure, TLSMode: tlsmode, Tag: fmt.Sprintf("send:%s:prior%v", phase, prior)}
						if phase == "certfail" && in.tlsOutcome("untrusted") {
							continue // verification disabled: the handshake succeeds, there is no refusal to wait for
						}
						if insecure && rep == 0 && tier != "thorough" && r.Intn(2) == 0 {
							continue
						}
						var conns []sessConn
						if prior {
							// a session over verified TLS, with a stanza sent on it, then lost
							if !in.tlsOutcome("valid") {
								continue
							}
							g, _ := goodConn(in, shape{tlsOffer: 1 + r.Intn(2), sess: r.Intn(3)}, "", "", "id0", "true")
							conns = append(conns, sessConn{Groups: g, Cert: "valid", SendAfter: 1})
						}
						sh := shape{tlsOffer: 1 + r.Intn(2), sess: r.Intn(3)}
						g, labels := goodConn(in, sh, "", "", "id", "true")
						att := sessConn{SendDuring: phase, NDuring: 1 + r.Intn(2), SendAfter: r.Intn(2)}
						switch phase {
						case "starttls":
							// the peer takes the <starttls/> and answers nothing
							for gi, l := range labels {
								if l == "starttls" {
									g = append(append([][]sItem{}, g[:gi]...), []sItem{{T: "wait", N: 1}})
									break
								}
							}
							att.Cert = "valid"
						case "certfail":
							att.Cert = []string{"untrusted", "expired", "wronghost"}[r.Intn(3)]
							if in.tlsOutcome(att.Cert) {
								att.Cert = "untrusted"
							}
						}
						att.Groups = g
						conns = append(conns, att)
						if in.tlsOutcome("valid") && r.Intn(2) == 0 {
							// and the connection after it succeeds: the gate opens again
							g3, _ := goodConn(in, shape{tlsOffer: 1}, "", "", "id3", "true")
							conns = append(conns, sessConn{Groups: g3, Cert: "valid", SendAfter: 1})
						}
						in.Conns = conns
						out = append(out, in)
					}
				}
			}
		}
	}
	return out
}

// genC04Resend: the retransmission path. A stream-managed session over verified TLS on which k stanzas are sent and
// never acknowledged (sometimes an acknowledgement is applied right there: the rest goes out again inside TLS); its
// loss; a reconnection of the same Client that is held up (the peer withholds <proceed/>, or presents a certificate the
// client refuses) during which acknowledgements <a h/> are applied -- through the router, as the go routine left behind
// by the old connection's receiver does, or through the exported SendMissingStz -- with or without application sends
// next to them; sometimes a further good connection with sends and an acknowledgement (the gate is open again).
func genC04Resend(r *rand.Rand, tier string) []sessIn {
	var out []sessIn
	reps := 1
	if tier == "thorough" {
		reps = 5
	}
	type pv struct{ phase, via string }
	for rep := 0; rep < reps; rep++ {
		for _, insecure := range []bool{false, true} {
			for _, tlsmode := range []int{0, 1} {
				for _, x := range []pv{{"starttls", "route"}, {"starttls", "direct"}, {"certfail", "direct"}} {
					in := sessIn{Insecure: insecure, TLSMode: tlsmode, SMEnable: true, SMResume: r.Intn(2) == 0, Tag: "resend:" + x.phase + ":" + x.via}
					if x.phase == "certfail" && in.tlsOutcome("untrusted") {
						continue
					}
					if insecure && tier != "thorough" && r.Intn(2) == 0 {
						continue
					}
					k := 1 + r.Intn(3)
					g1, _ := goodConn(in, shape{tlsOffer: 1 + r.Intn(2), sess: r.Intn(3), smOffer: true}, "", "", "smq-"+fmt.Sprint(r.Intn(1000)), "true")
					first := sessConn{Groups: g1, Cert: "valid", SendAfter: k, AckVia: "direct"}
					h0 := 0
					if k > 1 && r.Intn(2) == 0 {
						h0 = r.Intn(k)
						first.AckAfter = []int{h0}
					}
					att := sessConn{SendDuring: x.phase, AckVia: x.via, NoSendDuring: r.Intn(2) == 0, NDuring: 1, SendAfter: r.Intn(2)}
					for n := 1 + r.Intn(2); n > 0; n-- {
						h0 += r.Intn(k - h0) // never everything: at least one stanza stays held
						att.AckDuring = append(att.AckDuring, h0)
					}
					g, labels := goodConn(in, shape{tlsOffer: 1 + r.Intn(2), smOffer: true}, "", "", "id", "true")
					if x.phase == "starttls" {
						for gi, l := range labels {
							if l == "starttls" {
								g = append(append([][]sItem{}, g[:gi]...), []sItem{{T: "wait", N: 1}})
								break
							}
						}
						att.Cert = "valid"
					} else {
						att.Cert = []string{"untrusted", "expired", "wronghost"}[r.Intn(3)]
						if in.tlsOutcome(att.Cert) {
							att.Cert = "untrusted"
						}
					}
					att.Groups = g
					conns := []sessConn{first, att}
					if !insecure && r.Intn(2) == 0 { // (with Insecure the failed attempt keeps the old session: the next connection would try to resume it)
						// (a stream without stream management: whether or not the failed attempt kept the old session, nothing is resumed here)
						g3, _ := goodConn(in, shape{tlsOffer: 1, smOffer: false}, "", "", "", "")
						conns = append(conns, sessConn{Groups: g3, Cert: "valid", SendAfter: 2})
					}
					in.Conns = conns
					out = append(out, in)
				}
			}
		}
	}
	return out
}

// genC04Resume: TLS session resumption. The client's TLS configuration carries a ClientSessionCache, the server issues
// session tickets (TLS 1.2: within the handshake; TLS 1.3: after it) under one key for all its connections; 2-3
// connections of ONE client against the same certificate, over ServerName {unset, other.example} x certificate valid
// for {the domain, other.example only, both} (+ untrusted): crypto/tls caches the session at handshake time, also when
// the check against the domain then refuses the certificate, and resumes it on the next connection; the outcome of
// every connection must be what the configuration and the certificate say, resumed or not.
func genC04Resume(r *rand.Rand, tier string) []sessIn {
	var out []sessIn
	reps := 1
	if tier == "thorough" {
		reps = 4
	}
	for rep := 0; rep < reps; rep++ {
		for _, tickets := range []string{"12", "13"} {
			for _, sn := range []string{"", "other.example"} {
				for _, cert := range []string{"valid", "wronghost", "both", "untrusted"} {
					for _, insecure := range []bool{false, true} {
						for _, tlsmode := range []int{0, 1} {
							critical := !insecure && tlsmode == 0 && sn != "" && cert != "untrusted"
							if !critical && tier != "thorough" && r.Intn(4) != 0 {
								continue
							}
							in := sessIn{Insecure: insecure, TLSMode: tlsmode, ServerName: sn, SessionCache: true, Tickets: tickets,
								SMEnable: r.Intn(2) == 0, Tag: fmt.Sprintf("resume:%s:sn%v:%s", tickets, sn != "", cert)}
							n := 2 + r.Intn(2)
							for k := 0; k < n; k++ {
								g, _ := goodConn(in, shape{tlsOffer: 1 + r.Intn(2), sess: r.Intn(3), smOffer: r.Intn(2) == 0}, "", "", fmt.Sprintf("id%d", k), "false")
								in.Conns = append(in.Conns, sessConn{Groups: g, Cert: cert})
							}
							out = append(out, in)
						}
					}
				}
			}
		}
	}
	return out
}

// genC04Held: a sender in flight. A session over verified TLS; then, BEFORE the next connection attempt of the same
// client is started, a goroutine calls Send: it passes the gate (open: the session is established) and is suspended at
// the entry of the transport's Write; the attempt is started meanwhile and observed for 150 ms; then the sender goes
// on. The attempt must wait for the write (it would otherwise swap the transport's connection under it), and the
// stanza must not show up in clear text on the new connection.
func genC04Held(r *rand.Rand, tier string) []sessIn {
	var out []sessIn
	n := 4
	if tier == "thorough" {
		n = 16
	}
	for k := 0; k < n; k++ {
		in := sessIn{Insecure: k%4 == 3, TLSMode: k % 2, HoldWrites: true, SMEnable: r.Intn(2) == 0, Tag: "held-send"}
		g1, _ := goodConn(in, shape{tlsOffer: 1 + r.Intn(2), sess: r.Intn(3), smOffer: true}, "", "", "idh", "false")
		conns := []sessConn{{Groups: g1, Cert: "valid", SendAfter: r.Intn(2)}}
		for j := 1 + r.Intn(2); j > 0; j-- {
			g, _ := goodConn(in, shape{tlsOffer: 1 + r.Intn(2), sess: r.Intn(3), smOffer: true}, "", "", fmt.Sprintf("idh%d", j), "false")
			conns = append(conns, sessConn{Groups: g, Cert: "valid", HeldSend: true, SendAfter: r.Intn(2)})
		}
		in.Conns = conns
		out = append(out, in)
	}
	return out
}

// ---------------------------------------------------------------- WebSocket transport behind redirects

func genC04Wss(r *rand.Rand, tier string) []wssIn {
	var out []wssIn
	codes := []int{301, 302, 307, 308}
	rep := func(s string, n int) []string {
		var l []string
		for i := 0; i < n; i++ {
			l = append(l, s)
		}
		return l
	}
	chains := [][]string{nil, {"http"}, {"https"}, {"https", "http"}, {"https", "https"}, {"http", "https"}, rep("https", 9), rep("https", 10)}
	for _, insecure := range []bool{false, true} {
		for _, addr := range []string{"wss", "ws"} {
			for _, ch := range chains {
				if addr == "ws" && len(ch) > 2 {
					continue
				}
				if insecure && len(ch) > 2 {
					continue
				}
				out = append(out, wssIn{Insecure: insecure, Addr: addr, Chain: ch, Code: codes[r.Intn(len(codes))]})
			}
		}
	}
	// the application's TLS configuration x what the https endpoint presents (wss://, with and without a redirect to https)
	for _, conf := range []string{"", "roots", "otherroots", "skip"} {
		for _, cert := range []string{"", "untrusted", "wrongname"} {
			for _, ch := range [][]string{nil, {"https"}} {
				if conf == "" && cert == "" {
					continue // above
				}
				if len(ch) > 0 && tier != "thorough" && r.Intn(2) == 0 {
					continue
				}
				out = append(out, wssIn{Insecure: r.Intn(4) == 0, Addr: "wss", Chain: ch, Code: codes[r.Intn(len(codes))], TLSConf: conf, Cert: cert})
			}
		}
	}
	if tier == "thorough" {
		for k := 0; k < 60; k++ {
			n := r.Intn(5)
			var ch []string
			for i := 0; i < n; i++ {
				ch = append(ch, []string{"https", "http"}[r.Intn(2)])
			}
			out = append(out, wssIn{Insecure: r.Intn(2) == 0, Addr: []string{"wss", "ws"}[r.Intn(2)], Chain: ch, Code: codes[r.Intn(len(codes))]})
		}
	}
	return out
}

var (
	wssOnce   sync.Once
	wssCA     *x509.Certificate
	wssCAKey  *ecdsa.PrivateKey
	wssCAPool *x509.CertPool
	// a CA nobody trusts
	wssBadCA    *x509.Certificate
	wssBadCAKey *ecdsa.PrivateKey
)

// wssInit: a CA of its own for the HTTPS endpoints. The WebSocket transport dials through net/http's default
// transport and cannot be given a CA, so the test CA is made a root of that transport for this process: it stands
// for "the certificate of the wss endpoint is valid".
func wssInit() {
	wssOnce.Do(func() {
		now := time.Now()
		wssCAKey, _ = ecdsa.GenerateKey(elliptic.P256(), crand.Reader)
		tpl := &x509.Certificate{SerialNumber: big.NewInt(1), Subject: pkix.Name{CommonName: "xv wss CA"},
			NotBefore: now.Add(-time.Hour), NotAfter: now.Add(24 * time.Hour), IsCA: true, BasicConstraintsValid: true,
			KeyUsage: x509.KeyUsageCertSign | x509.KeyUsageDigitalSignature}
		der, err := x509.CreateCertificate(crand.Reader, tpl, tpl, &wssCAKey.PublicKey, wssCAKey)
		if err != nil {
			panic(err)
		}
		wssCA, _ = x509.ParseCertificate(der)
		wssCAPool = x509.NewCertPool()
		wssCAPool.AddCert(wssCA)
		wssBadCAKey, _ = ecdsa.GenerateKey(elliptic.P256(), crand.Reader)
		tpl2 := &x509.Certificate{SerialNumber: big.NewInt(2), Subject: pkix.Name{CommonName: "xv wss other CA"},
			NotBefore: now.Add(-time.Hour), NotAfter: now.Add(24 * time.Hour), IsCA: true, BasicConstraintsValid: true,
			KeyUsage: x509.KeyUsageCertSign | x509.KeyUsageDigitalSignature}
		der2, err := x509.CreateCertificate(crand.Reader, tpl2, tpl2, &wssBadCAKey.PublicKey, wssBadCAKey)
		if err != nil {
			panic(err)
		}
		wssBadCA, _ = x509.ParseCertificate(der2)
		if dt, ok := http.DefaultTransport.(*http.Transport); ok {
			dt.TLSClientConfig = &tls.Config{RootCAs: wssCAPool}
		}
	})
}

// wssLeaf: a certificate of the test CA for the endpoint's address (also used by c03ws.go)
func wssLeaf(ip net.IP) tls.Certificate { return wssLeafKind(ip, "") }

func wssLeafKind(ip net.IP, kind string) tls.Certificate {
	key, _ := ecdsa.GenerateKey(elliptic.P256(), crand.Reader)
	now := time.Now()
	tpl := &x509.Certificate{SerialNumber: big.NewInt(time.Now().UnixNano()), Subject: pkix.Name{CommonName: "xv wss endpoint"},
		IPAddresses: []net.IP{ip}, NotBefore: now.Add(-time.Hour), NotAfter: now.Add(24 * time.Hour),
		KeyUsage: x509.KeyUsageDigitalSignature, ExtKeyUsage: []x509.ExtKeyUsage{x509.ExtKeyUsageServerAuth}}
	ca, caKey := wssCA, wssCAKey
	switch kind {
	case "wrongname":
		tpl.IPAddresses, tpl.DNSNames = nil, []string{"other.example"}
	case "untrusted":
		ca, caKey = wssBadCA, wssBadCAKey
	}
	der, err := x509.CreateCertificate(crand.Reader, tpl, ca, &key.PublicKey, caKey)
	if err != nil {
		panic(err)
	}
	return tls.Certificate{Certificate: [][]byte{der}, PrivateKey: key}
}

var quietLog = log.New(io.Discard, "", 0) // TLS handshakes the client aborts are expected, not news

var reIQID = regexp.MustCompile(`id=["']([^"']*)["']`)

// runWss: observation = [what the endpoints saw: 0 no websocket was established | 1 established, no <auth/> |
// 2 <auth/> received, over TLS?] and whether Client.connect succeeded.
func runWss(in wssIn) Sx {
	wssInit()
	tlsL, err := listenLoopback()
	if err != nil {
		return L(SBytes("listen-failed"))
	}
	defer tlsL.Close()
	plainL, err := listenLoopback()
	if err != nil {
		return L(SBytes("listen-failed"))
	}
	defer plainL.Close()
	ctx, cancel := context.WithTimeout(context.Background(), 40*time.Second)
	defer cancel()
	var mu sync.Mutex
	established, authSeen, authTLS := false, false, false
	hostOf := func(scheme string) string {
		if scheme == "https" {
			return tlsL.Addr().String()
		}
		return plainL.Addr().String()
	}
	code := in.Code
	if code == 0 {
		code = 302
	}
	handler := http.HandlerFunc(func(w http.ResponseWriter, r *http.Request) {
		i, err := strconv.Atoi(strings.TrimPrefix(r.URL.Path, "/x/"))
		if err != nil {
			http.NotFound(w, r)
			return
		}
		if i < len(in.Chain) {
			http.Redirect(w, r, fmt.Sprintf("%s://%s/x/%d", in.Chain[i], hostOf(in.Chain[i]), i+1), code)
			return
		}
		c, err := websocket.Accept(w, r, &websocket.AcceptOptions{Subprotocols: []string{"xmpp"}})
		if err != nil {
			return
		}
		defer c.Close(websocket.StatusNormalClosure, "")
		overTLS := r.TLS != nil
		mu.Lock()
		established = true
		mu.Unlock()
		open := `<open xmlns="urn:ietf:params:xml:ns:xmpp-framing" id="c04ws" from="` + srvDomain + `" version="1.0"/>`
		feat := func(inner string) string {
			return `<stream:features xmlns:stream="http://etherx.jabber.org/streams">` + inner + `</stream:features>`
		}
		step := 0
		for {
			_, b, err := c.Read(ctx)
			if err != nil {
				return
			}
			f := string(b)
			var reply []string
			switch {
			case strings.Contains(f, "<open") && step == 0:
				reply = []string{open, feat(`<mechanisms xmlns="urn:ietf:params:xml:ns:xmpp-sasl"><mechanism>PLAIN</mechanism></mechanisms>`)}
				step = 1
			case strings.Contains(f, "<auth"):
				mu.Lock()
				authSeen, authTLS = true, overTLS
				mu.Unlock()
				reply = []string{`<success xmlns="urn:ietf:params:xml:ns:xmpp-sasl"/>`}
			case strings.Contains(f, "<open"):
				reply = []string{open, feat(`<bind xmlns="urn:ietf:params:xml:ns:xmpp-bind"/>`)}
			case strings.Contains(f, "<bind"):
				id := ""
				if m := reIQID.FindStringSubmatch(f); m != nil {
					id = m[1]
				}
				reply = []string{`<iq xmlns="jabber:client" type="result" id="` + id + `"><bind xmlns="urn:ietf:params:xml:ns:xmpp-bind"><jid>user@` + srvDomain + `/ws</jid></bind></iq>`}
			case strings.Contains(f, "<close"):
				return
			}
			for _, x := range reply {
				if c.Write(ctx, websocket.MessageText, []byte(x)) != nil {
					return
				}
			}
		}
	})
	host, _, _ := net.SplitHostPort(tlsL.Addr().String())
	tlsSrv := &http.Server{Handler: handler,
		TLSConfig:    &tls.Config{Certificates: []tls.Certificate{wssLeafKind(net.ParseIP(host), in.Cert)}, NextProtos: []string{"http/1.1"}},
		TLSNextProto: map[string]func(*http.Server, *tls.Conn, http.Handler){}, // HTTP/1.1 only
		ErrorLog:     quietLog}
	plainSrv := &http.Server{Handler: handler, ErrorLog: quietLog}
	go tlsSrv.ServeTLS(tlsL, "", "")
	go plainSrv.Serve(plainL)
	defer tlsSrv.Close()
	defer plainSrv.Close()

	addr := "wss://" + tlsL.Addr().String() + "/x/0"
	if in.Addr != "wss" {
		addr = "ws://" + plainL.Addr().String() + "/x/0"
	}
	cfg := &xmpp.Config{
		TransportConfiguration: xmpp.TransportConfiguration{Address: addr, Domain: srvDomain, ConnectTimeout: 10},
		Jid:                    "user@" + srvDomain, Credential: xmpp.Password("secret"), Insecure: in.Insecure, ConnectTimeout: 10,
	}
	switch in.TLSConf {
	case "roots":
		cfg.TLSConfig = &tls.Config{RootCAs: wssCAPool}
	case "otherroots":
		initCerts()
		cfg.TLSConfig = &tls.Config{RootCAs: caPool} // the CA of the TCP scenarios: not the issuer of this endpoint's certificate
	case "skip":
		cfg.TLSConfig = &tls.Config{InsecureSkipVerify: true}
	}
	client, err := xmpp.NewClient(cfg, xmpp.NewRouter(), func(error) {})
	if err != nil {
		return L(SBytes("newclient-failed: " + err.Error()))
	}
	done := make(chan error, 1)
	go func() { done <- xmpp.VerifClientConnect(client) }()
	var cerr error
	select {
	case cerr = <-done:
	case <-time.After(30 * time.Second):
		return L(SBytes("connect-hung"))
	}
	if cerr == nil {
		client.Disconnect()
	}
	time.Sleep(2 * time.Millisecond)
	mu.Lock()
	defer mu.Unlock()
	var seen Sx
	switch {
	case authSeen:
		seen = L(Z(2), B(authTLS))
	case established:
		seen = L(Z(1))
	default:
		seen = L(Z(0))
	}
	return L(seen, B(cerr == nil))
}

func oracleWss(in wssIn, obs Sx) (string, string) {
	if obs.K != "l" || len(obs.L) != 2 || obs.L[0].K != "l" {
		return "scenario did not finish: " + obs.String(), "hang"
	}
	seen := obs.L[0]
	if seen.L[0].Z == 2 && seen.L[1].Z == 0 && !in.Insecure {
		return fmt.Sprintf("address %s://, Insecure=false, redirects %v: the SASL credentials (<auth/>) were received by an endpoint on a plain TCP connection", in.Addr, in.Chain), "ws-auth-in-clear"
	}
	if seen.L[0].Z == 2 && !in.Insecure && in.Addr != "wss" {
		return fmt.Sprintf("address ws://, Insecure=false, redirects %v: the SASL credentials (<auth/>) were written although the configured address is not a secure one (the redirect to https arrived in clear text: whoever sent it chose the host the certificate was checked against)", in.Chain), "ws-redirected-auth"
	}
	if seen.L[0].Z == 2 && seen.L[1].Z == 1 && !in.certAcceptable() {
		return fmt.Sprintf("address %s://, TLS configuration %q, certificate %q: the SASL credentials (<auth/>) were written over TLS although the certificate does not validate under the application's TLS configuration", in.Addr, in.TLSConf, in.Cert), "ws-auth-unverified-tls"
	}
	if obs.L[1].Z == 1 && seen.L[0].Z != 2 {
		return "Connect succeeded although no endpoint received the authentication", "ws-ok-without-auth"
	}
	return "", ""
}
