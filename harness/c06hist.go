package main

import (
	"fmt"
	"math/rand"
	"strings"
	"sync"
	"time"

	xmpp "gosrc.io/xmpp"
	"gosrc.io/xmpp/stanza"
)

// C06, histories: the route table GROWS while the router is in use.
//
// A history = an initial table and a sequence of steps.  A step either registers one route from
// outside any dispatch (Add), or dispatches one packet on a goroutine of its own (as Client.recv
// does).  The handler that runs for a dispatched packet may itself register routes (Inside:
// re-entrant NewRoute / HandleFunc), and may stay running (Hold) while another goroutine registers
// routes (During) and while the NEXT packet is dispatched; it is released once that dispatch has
// returned.  Every call is under c06Deadline; a dispatch that does not return is "blocked".
// Expected: each packet is dispatched on the table as it is when its dispatch begins (first
// accepting route exactly once, else one error reply for an IQ get/set, else nothing).

const c06Deadline = 3 * time.Second

type c06Step struct {
	Add    []c06Matcher   `json:"add,omitempty"` // with IsAdd: register this route from outside a dispatch
	IsAdd  bool           `json:"isadd,omitempty"`
	Pkt    *c06Pkt        `json:"pkt,omitempty"`
	Inside [][]c06Matcher `json:"inside,omitempty"` // routes the handler that runs registers itself
	Hold   bool           `json:"hold,omitempty"`   // the handler stays running while During is registered and the next packet is dispatched
	During [][]c06Matcher `json:"during,omitempty"` // registered by another goroutine while the handler runs (with Hold)
	Short  bool           `json:"short,omitempty"`  // single Packet(name) routes are registered with Router.HandleFunc(name, f)
}

type c06Hist struct {
	Steps []c06Step `json:"steps"`
}

// held: a Hold step is effective when the next step is a dispatch that does not hold itself
func (h *c06Hist) held(i int) bool {
	st := h.Steps
	return !st[i].IsAdd && st[i].Hold && i+1 < len(st) && !st[i+1].IsAdd && !st[i+1].Hold
}

func c06WaitCh(ch <-chan struct{}, d time.Duration) bool {
	select {
	case <-ch:
		return true
	default:
	}
	t := time.NewTimer(d)
	defer t.Stop()
	select {
	case <-ch:
		return true
	case <-t.C:
		return false
	}
}

func c06RunHist(in c06In) Sx {
	h := in.Hist
	router := xmpp.NewRouter()
	n := len(h.Steps)
	var mu sync.Mutex
	cur := -1
	nroutes := 0
	logs := make([][]Sx, n)
	ran := make([]bool, n)
	wants := make([]c06Facts, n)
	pkts := make([]stanza.Packet, n)
	senders := make([]*c06Sender, n)
	entered := make([]chan struct{}, n)
	release := make([]chan struct{}, n)
	for i, st := range h.Steps {
		if !st.IsAdd {
			pkts[i] = c06Build(*st.Pkt)
			wants[i] = c06FactsOf(pkts[i])
			senders[i] = &c06Sender{}
			entered[i] = make(chan struct{})
			release[i] = make(chan struct{})
		}
	}
	var register func(ms []c06Matcher, short bool)
	handler := func(idx int) func(s xmpp.Sender, p stanza.Packet) {
		return func(s xmpp.Sender, p stanza.Packet) {
			mu.Lock()
			k := cur
			if k < 0 || k >= n || h.Steps[k].IsAdd {
				mu.Unlock()
				return
			}
			same := s != nil && c06FactsOf(p) == wants[k]
			logs[k] = append(logs[k], L(Zi(idx), B(same)))
			first := !ran[k]
			ran[k] = true
			mu.Unlock()
			if !first {
				return
			}
			st := h.Steps[k]
			for _, ms := range st.Inside { // re-entrant registration
				register(ms, st.Short)
			}
			if h.held(k) {
				close(entered[k])
				c06WaitCh(release[k], 4*c06Deadline)
			}
		}
	}
	register = func(ms []c06Matcher, short bool) {
		if short && len(ms) == 1 && ms[0].K == "packet" {
			mu.Lock()
			idx := nroutes
			nroutes++
			mu.Unlock()
			router.HandleFunc(ms[0].A[0], handler(idx))
			return
		}
		rt := router.NewRoute()
		mu.Lock()
		idx := nroutes
		nroutes++
		mu.Unlock()
		for _, m := range ms {
			args := append([]string{}, m.A...)
			switch m.K {
			case "packet":
				rt.Packet(args[0])
			case "type":
				rt.StanzaType(args...)
			case "ns":
				rt.IQNamespaces(args...)
			default:
				panic("c06: unknown matcher " + m.K)
			}
		}
		rt.HandlerFunc(handler(idx))
	}
	for _, ms := range in.Routes {
		register(ms, false)
	}

	var entries []Sx
	entry := func(k int) Sx {
		mu.Lock()
		lg := append([]Sx{}, logs[k]...)
		mu.Unlock()
		s := senders[k]
		s.mu.Lock()
		defer s.mu.Unlock()
		return L(LS(lg), LS(append([]Sx{}, s.sent...)), Zi(len(s.raws)+s.sendIQ))
	}
	blocked := func(what string, k int) Sx {
		entries = append(entries, L(SBytes(what), Zi(k)))
		// let whatever still runs go on; nothing of it is read any more
		for _, r := range release {
			if r != nil {
				select {
				case <-r:
				default:
					close(r)
				}
			}
		}
		return LS(entries)
	}
	async := func(f func()) chan struct{} {
		done := make(chan struct{})
		go func() { defer close(done); f() }()
		return done
	}
	dispatch := func(k int) chan struct{} {
		mu.Lock()
		cur = k
		mu.Unlock()
		return async(func() { xmpp.VerifRoute(router, senders[k], pkts[k]) })
	}
	for i := 0; i < n; i++ {
		st := h.Steps[i]
		if st.IsAdd {
			if !c06WaitCh(async(func() { register(st.Add, st.Short) }), c06Deadline) {
				return blocked("registration-blocked", i)
			}
			continue
		}
		g := dispatch(i)
		if !h.held(i) {
			if !c06WaitCh(g, c06Deadline) {
				return blocked("blocked", i)
			}
			entries = append(entries, entry(i))
			continue
		}
		// the handler of packet i stays running (or no handler runs at all and the dispatch returns)
		sel := time.NewTimer(c06Deadline)
		select {
		case <-entered[i]:
		case <-g:
		case <-sel.C:
			sel.Stop()
			return blocked("blocked", i)
		}
		sel.Stop()
		during := st.During
		rdone := async(func() {
			for _, ms := range during {
				register(ms, st.Short)
			}
		})
		regLate := !c06WaitCh(rdone, c06Deadline)
		j := i + 1
		g2 := dispatch(j)
		if !c06WaitCh(g2, c06Deadline) {
			entries = append(entries, L(SBytes("held"), Zi(i)))
			return blocked("blocked", j)
		}
		e2 := entry(j)
		close(release[i])
		if !c06WaitCh(g, c06Deadline) {
			return blocked("blocked", i)
		}
		if regLate {
			c06WaitCh(rdone, c06Deadline)
			return blocked("registration-blocked", i)
		}
		entries = append(entries, entry(i), e2)
		i = j
	}
	return LS(entries)
}

func c06RouteSx(ms []c06Matcher) Sx {
	items := make([]Sx, len(ms))
	for j, m := range ms {
		switch m.K {
		case "packet":
			items[j] = L(Z(0), SBytes(c06ModelArg(m.A[0])))
		case "type":
			as := make([]string, len(m.A))
			for k, a := range m.A {
				as[k] = c06ModelArg(a)
			}
			items[j] = L(Z(1), c06Strs(as))
		default:
			items[j] = L(Z(2), c06Strs(m.A))
		}
	}
	return LS(items)
}

func c06TableSx(rs [][]c06Matcher) Sx {
	out := make([]Sx, len(rs))
	for i, ms := range rs {
		out[i] = c06RouteSx(ms)
	}
	return LS(out)
}

func c06PktSx(d c06Pkt) Sx {
	f := c06FactsOf(c06Build(d))
	switch f.kind {
	case 0, 1:
		return L(Zi(f.kind), c06Attrs(f.typ, f.id, f.fr, f.to))
	case 2:
		return L(Z(2), c06Attrs(f.typ, f.id, f.fr, f.to), Opt(f.hasPayload, SBytes(f.ns)), Opt(f.any, SBytes(f.anyNs)))
	}
	if d.Kind == "sma" {
		return L(Z(3), Z(9))
	}
	return L(Z(3), Zi(d.Other%len(c06Others)))
}

// the model's input: [table; hops]
func c06HistInput(in c06In) Sx {
	h := in.Hist
	var hops []Sx
	for i, st := range h.Steps {
		if st.IsAdd {
			hops = append(hops, L(Z(0), c06RouteSx(st.Add)))
			continue
		}
		hops = append(hops, L(Z(1), c06PktSx(*st.Pkt), c06TableSx(st.Inside)))
		if h.held(i) {
			for _, ms := range st.During {
				hops = append(hops, L(Z(0), c06RouteSx(ms)))
			}
		}
	}
	return L(c06TableSx(in.Routes), LS(hops))
}

// c06HistWalk: the documented rule, step by step, on the table as a plain list (model-free)
type c06HistWant struct {
	step  int
	f     c06Facts
	first int
	reply bool
	late  bool // only a route registered after dispatching began accepts the packet
}

func c06HistExpect(in c06In) []c06HistWant {
	h := in.Hist
	table := append([][]c06Matcher{}, in.Routes...)
	n0 := len(table)
	var out []c06HistWant
	for i, st := range h.Steps {
		if st.IsAdd {
			table = append(table, st.Add)
			continue
		}
		f := c06FactsOf(c06Build(*st.Pkt))
		w := c06HistWant{step: i, f: f, first: -1}
		for k, ms := range table {
			if c06Accepts(ms, f) {
				w.first = k
				break
			}
		}
		w.late = w.first >= n0
		w.reply = w.first < 0 && f.kind == 2 && (f.typ == "get" || f.typ == "set")
		out = append(out, w)
		if w.first >= 0 {
			table = append(table, st.Inside...)
		}
		if h.held(i) {
			table = append(table, st.During...)
		}
	}
	return out
}

func c06CheckReply(sent []Sx, f c06Facts) (string, string) {
	if len(sent) != 1 {
		return fmt.Sprintf("unmatched IQ %s got %d replies, expected exactly one", f.typ, len(sent)), fmt.Sprintf("reply-count-%d", c06Min(len(sent), 2))
	}
	r := sent[0]
	if r.L[0].Z != 2 {
		return "reply is not an IQ", "reply-kind"
	}
	a := r.L[1].L
	str := func(x Sx) string { return string(bytesOf(x)) }
	if str(a[0]) != "error" {
		return "reply type is " + str(a[0]), "reply-type"
	}
	if str(a[1]) != f.id {
		return fmt.Sprintf("reply id %q, request id %q", str(a[1]), f.id), "reply-id"
	}
	if str(a[2]) != f.to || str(a[3]) != f.fr {
		return fmt.Sprintf("reply from/to %q/%q, request from/to %q/%q", str(a[2]), str(a[3]), f.fr, f.to), "reply-addressing"
	}
	if cond := str(r.L[2]); cond != "feature-not-implemented" {
		return fmt.Sprintf("reply error condition is %q, expected feature-not-implemented", cond), "reply-condition"
	}
	return "", ""
}

func c06HistOracle(in c06In, obs Sx) (string, string) {
	if obs.K != "l" {
		return "malformed observation", "shape"
	}
	h := in.Hist
	for _, e := range obs.L {
		if e.K == "l" && len(e.L) == 2 && e.L[0].K == "s" {
			k := int(e.L[1].Z)
			switch string(bytesOf(e.L[0])) {
			case "blocked":
				how := "its dispatch"
				if k > 0 && h.held(k-1) {
					how = "its dispatch, made while the handler of the packet before was still running and after another goroutine had set out to register a route,"
				} else if len(h.Steps[k].Inside) > 0 {
					how = fmt.Sprintf("its dispatch, whose handler registers %d route(s),", len(h.Steps[k].Inside))
				}
				return fmt.Sprintf("packet of step %d: %s did not return within %v: the packet (and every later one) is not handled exactly once", k, how, c06Deadline), "blocked"
			case "registration-blocked":
				return fmt.Sprintf("step %d: registering a route (NewRoute / HandleFunc) after dispatching had begun did not return within %v", k, c06Deadline), "registration-blocked"
			}
		}
	}
	ws := c06HistExpect(in)
	// entries are in dispatch order except that a holding packet's entry comes with the one dispatched during it
	var es []Sx
	for _, e := range obs.L {
		if e.K == "l" && len(e.L) == 3 {
			es = append(es, e)
		}
	}
	if len(es) != len(ws) {
		return fmt.Sprintf("%d packets dispatched, %d outcomes observed", len(ws), len(es)), "shape"
	}
	for i, w := range ws {
		e := es[i]
		log, sent := e.L[0].L, e.L[1].L
		if e.L[2].Z != 0 {
			return fmt.Sprintf("step %d: router called SendRaw / SendIQ %d times", w.step, e.L[2].Z), "raw-or-sendiq"
		}
		if w.first >= 0 {
			if len(log) != 1 {
				return fmt.Sprintf("step %d: route %d is the first acceptable one of the table at that time but %d handlers ran", w.step, w.first, len(log)), fmt.Sprintf("handler-count-%d", c06Min(len(log), 2))
			}
			if got := int(log[0].L[0].Z); got != w.first {
				return fmt.Sprintf("step %d: handler of route %d ran, first acceptable route of the table at that time is %d", w.step, got, w.first), "wrong-route"
			}
			if log[0].L[1].Z != 1 {
				return fmt.Sprintf("step %d: handler was not given the routed packet", w.step), "handler-args"
			}
			if len(sent) != 0 {
				return fmt.Sprintf("step %d: router sent a reply for a packet a route handled", w.step), "reply-on-match"
			}
			continue
		}
		if len(log) != 0 {
			return fmt.Sprintf("step %d: no route of the table at that time accepts but handler of route %d ran", w.step, log[0].L[0].Z), "handler-on-no-match"
		}
		if !w.reply {
			if len(sent) != 0 {
				return fmt.Sprintf("step %d: unmatched packet (kind %d type %q) got %d replies", w.step, w.f.kind, w.f.typ, len(sent)), "spurious-reply"
			}
			continue
		}
		if msg, sig := c06CheckReply(sent, w.f); msg != "" {
			return fmt.Sprintf("step %d: %s", w.step, msg), sig
		}
	}
	return "", ""
}

func c06HistKey(in c06In) (string, bool) {
	h := in.Hist
	ws := c06HistExpect(in)
	var b strings.Builder
	fmt.Fprintf(&b, "hist|%d|", len(in.Routes))
	wi := 0
	late, inside, hold, reply := false, false, false, false
	for i, st := range h.Steps {
		if st.IsAdd {
			b.WriteString("A,")
			hist("hist-step:add between dispatches")
			continue
		}
		w := ws[wi]
		wi++
		cls := [...]string{"m", "p", "q", "o"}[w.f.kind]
		fmt.Fprintf(&b, "%s%d", cls, c06Min(w.first, 9))
		if len(st.Inside) > 0 {
			fmt.Fprintf(&b, "i%d", len(st.Inside))
			if w.first >= 0 {
				inside = true
				hist("hist-step:handler registers routes")
			} else {
				hist("hist-step:inside routes but no handler runs")
			}
		}
		if h.held(i) {
			fmt.Fprintf(&b, "h%d", len(st.During))
			hold = true
			if w.first >= 0 {
				hist("hist-step:handler held, other goroutine registers, next packet dispatched meanwhile")
			} else {
				hist("hist-step:hold but no handler runs")
			}
		}
		switch {
		case w.late:
			late = true
			hist("hist-outcome:route registered after dispatching began")
		case w.first >= 0:
			hist("hist-outcome:initial route")
		case w.reply:
			reply = true
			hist("hist-outcome:unmatched-error-reply")
		default:
			hist("hist-outcome:unmatched-silent")
		}
		b.WriteByte(',')
	}
	hist(fmt.Sprintf("hist-steps:%d", len(h.Steps)))
	_ = reply
	return b.String(), late && (inside || hold)
}

func c06GenHist(r *rand.Rand) c06In {
	np := 2 + r.Intn(4)
	pk := make([]c06Pkt, np)
	fs := make([]c06Facts, np)
	for i := range pk {
		pk[i] = c06GenPkt(r)
		if pk[i].Payload == "deep:40" {
			pk[i].Payload = "version"
		}
		if i > 0 && r.Intn(4) == 0 {
			pk[i] = pk[r.Intn(i)] // the same packet again: now a route registered meanwhile may take it
		}
		fs[i] = c06FactsOf(c06Build(pk[i]))
	}
	route := func(aim int) []c06Matcher {
		nm := 1 + r.Intn(2)
		if r.Intn(6) == 0 {
			nm = 0
		}
		ms := make([]c06Matcher, nm)
		for k := range ms {
			ms[k] = c06GenMatcher(r, fs[aim])
			if r.Intn(2) == 0 { // plain names: the routes Router.HandleFunc registers
				name := [...]string{"message", "presence", "iq", ""}[fs[aim].kind]
				ms[k] = c06Matcher{K: "packet", A: []string{name}}
			}
		}
		return ms
	}
	routes := func(from, max int) [][]c06Matcher {
		var out [][]c06Matcher
		for k := r.Intn(max + 1); k > 0; k-- {
			aim := from + r.Intn(np-from)
			out = append(out, route(aim))
		}
		return out
	}
	in := c06In{Routes: routes(0, 2), Hist: &c06Hist{}}
	if in.Routes == nil {
		in.Routes = [][]c06Matcher{}
	}
	mode := r.Intn(3) // 0 re-entrant, 1 held + other goroutine, 2 both, adds between dispatches in all
	for i := 0; i < np; i++ {
		p := pk[i]
		st := c06Step{Pkt: &p, Short: r.Intn(2) == 0}
		later := i
		if i+1 < np && r.Intn(3) != 0 {
			later = i + 1 // aim the new routes at the packets still to come
		}
		if mode != 1 && r.Intn(3) != 0 {
			st.Inside = routes(later, 2)
		}
		if mode != 0 && i+1 < np && r.Intn(2) == 0 {
			st.Hold = true
			st.During = routes(later, 2)
		}
		in.Hist.Steps = append(in.Hist.Steps, st)
		if r.Intn(5) == 0 {
			in.Hist.Steps = append(in.Hist.Steps, c06Step{IsAdd: true, Add: route(later), Short: r.Intn(2) == 0})
		}
	}
	// a step after a holding one must not hold itself (one handler is held at a time)
	for i := 1; i < len(in.Hist.Steps); i++ {
		if in.Hist.Steps[i-1].Hold && !in.Hist.Steps[i-1].IsAdd {
			if in.Hist.Steps[i].IsAdd {
				in.Hist.Steps[i-1].Hold, in.Hist.Steps[i-1].During = false, nil
			} else {
				in.Hist.Steps[i].Hold, in.Hist.Steps[i].During = false, nil
			}
		}
	}
	return in
}

func c06HistFixed() []interface{} {
	pm := func(k string, a ...string) c06Matcher { return c06Matcher{K: k, A: a} }
	msg := c06Pkt{Kind: "message", Type: "chat", Id: "m1", From: "a@b/c", To: "u@localhost"}
	pres := c06Pkt{Kind: "presence", From: "a@b/c"}
	get := c06Pkt{Kind: "iq", Type: "get", Id: "1", From: "a@b/c", To: "srv.example", Payload: "disco"}
	P := func(p c06Pkt) *c06Pkt { return &p }
	return []interface{}{
		// a message handler registers the route for IQs; the get before it is answered with an error, the one after is handled
		c06In{Routes: [][]c06Matcher{{pm("packet", "message")}}, Hist: &c06Hist{Steps: []c06Step{
			{Pkt: P(get)}, {Pkt: P(msg), Inside: [][]c06Matcher{{pm("packet", "iq")}}, Short: true}, {Pkt: P(get)}, {Pkt: P(pres)}, {Pkt: P(msg)}}}},
		// the same with NewRoute().Packet().StanzaType() and a catch-all added at the end: it never shadows an earlier route
		c06In{Routes: [][]c06Matcher{{pm("packet", "message")}}, Hist: &c06Hist{Steps: []c06Step{
			{Pkt: P(msg), Inside: [][]c06Matcher{{pm("packet", "iq"), pm("type", "get")}, {}}}, {Pkt: P(get)}, {Pkt: P(pres)}, {Pkt: P(msg)}}}},
		// a message handler waits while another goroutine registers the presence route and the presence arrives
		c06In{Routes: [][]c06Matcher{{pm("packet", "message")}}, Hist: &c06Hist{Steps: []c06Step{
			{Pkt: P(msg), Hold: true, During: [][]c06Matcher{{pm("packet", "presence")}}, Short: true}, {Pkt: P(pres)}, {Pkt: P(get)}}}},
		// held handler, the packet arriving meanwhile is an unhandled IQ request: answered once, while the handler still runs
		c06In{Routes: [][]c06Matcher{{pm("packet", "message")}}, Hist: &c06Hist{Steps: []c06Step{
			{Pkt: P(msg), Hold: true, During: [][]c06Matcher{{pm("packet", "presence")}}}, {Pkt: P(get)}, {Pkt: P(pres)}}}},
		// held handler that has itself registered a route first
		c06In{Routes: [][]c06Matcher{{pm("packet", "message")}}, Hist: &c06Hist{Steps: []c06Step{
			{Pkt: P(msg), Inside: [][]c06Matcher{{pm("packet", "iq")}}, Hold: true, During: [][]c06Matcher{{pm("packet", "presence")}}}, {Pkt: P(get)}, {Pkt: P(pres)}}}},
		// empty table; routes only ever come from outside, between dispatches
		c06In{Routes: [][]c06Matcher{}, Hist: &c06Hist{Steps: []c06Step{
			{Pkt: P(get)}, {IsAdd: true, Add: []c06Matcher{pm("packet", "iq")}, Short: true}, {Pkt: P(get)}, {IsAdd: true, Add: []c06Matcher{}}, {Pkt: P(msg)}}}},
	}
}
