package main

import (
	"bytes"
	"encoding/base64"
	"encoding/json"
	"encoding/xml"
	"errors"
	"fmt"
	"io"
	"math/rand"
	"strings"

	xmpp "gosrc.io/xmpp"
	"gosrc.io/xmpp/stanza"
)

// C14: authSASL / authPlain (auth.go) vs Model/Sasl.v + Model/Base64.v.
//
// mode "auth": VerifAuthSASL on a recording socket with a canned reply.
// mode "codec": base64.StdEncoding itself (EncodeToString / DecodeString) vs the
// model's b64_encode / b64_decode, so that the decoder the payload theorem is
// stated with is tied to Go's as well.
type c14In struct {
	Mode string `json:"mode"`
	// auth
	Kind   int      `json:"kind,omitempty"`   // 0 xmpp.Password, 1 xmpp.OAuthToken
	User   []byte   `json:"user,omitempty"`   // bytes of the Go string
	Secret []byte   `json:"secret,omitempty"` // bytes of the Go string
	Mechs  []string `json:"mechs"`            // server list, in order (valid UTF-8 by construction)
	NoElem bool     `json:"noelem,omitempty"` // empty list sent as "no <mechanisms/> element at all"
	// Look-alikes: child elements of the SASL <mechanisms/> element that are NOT
	// {urn:ietf:params:xml:ns:xmpp-sasl}mechanism (another namespace, or another name) and
	// therefore advertise nothing; At = index in Mechs before which the child stands.
	Foreign []c14Foreign `json:"foreign,omitempty"`
	Outside []string     `json:"outside,omitempty"` // raw look-alike elements directly under <stream:features/>
	// Second: a SECOND <mechanisms xmlns='urn:ietf:params:xml:ns:xmpp-sasl'/> element in the same features
	// element, after the first (nil: none). Its mechanisms are advertised like those of the first.
	Second  []string `json:"second,omitempty"`
	Spell   int      `json:"spell,omitempty"`  // 1: the SASL elements are written with a prefix (same elements)
	W       int      `json:"w,omitempty"`      // 0 Write ok, 1 Write returns an error, 2 Write returns (0, nil)
	RKind   int      `json:"rkind,omitempty"`  // abstract reply kind: 0 success 1 failure 2 other packet 3 read error
	Reply   string   `json:"reply,omitempty"`  // concrete bytes the server sends (ASCII)
	Reason  string   `json:"reason,omitempty"` // failure condition (goes to the model, which ignores it)
	ReplyID string   `json:"reply_id,omitempty"`
	// codec
	Data []byte `json:"data,omitempty"`
	Text []byte `json:"text,omitempty"`
}

type c14Foreign struct {
	At    int    `json:"at"`
	NS    string `json:"ns"` // "" = no namespace (xmlns='')
	Local string `json:"local"`
	Text  string `json:"text"`
}

// c14Child: one child element of <mechanisms/>, genuine or look-alike, in document order.
type c14Child struct{ NS, Local, Text string }

func c14Children(in c14In) []c14Child {
	if in.NoElem && len(in.Mechs) == 0 {
		return nil
	}
	var out []c14Child
	for i := 0; i <= len(in.Mechs); i++ {
		for _, f := range in.Foreign {
			if f.At == i || (i == len(in.Mechs) && f.At > i) || (i == 0 && f.At < 0) {
				out = append(out, c14Child{f.NS, f.Local, f.Text})
			}
		}
		if i < len(in.Mechs) {
			out = append(out, c14Child{c14NSSASL, "mechanism", in.Mechs[i]})
		}
	}
	return out
}

type c14 struct{}

func init() { register(c14Prop{}) } // composite, see c14b.go

func (c14) ID() string    { return "C14" }
func (c14) RunFn() string { return "run_C14" }
func (c14) Workers() int  { return 8 }
func (c14) Rule() string {
	return "auth: user/secret drawn from {empty, ASCII, NUL-adjacent, non-ASCII UTF-8, XML metacharacters, 1 kB, arbitrary bytes incl. invalid UTF-8, every length mod 3} x server lists of 0-7 names over {PLAIN, X-OAUTH2, SCRAM-SHA-1, ANONYMOUS, near-misses, unknown, empty string} with duplicates and any order (empty list as an empty element or no element), optionally with look-alikes that advertise nothing (children of <mechanisms/> called mechanism in 8 other namespaces or with another name in the SASL namespace; SASL-looking elements elsewhere in the features) and with the SASL elements spelled with a prefix; the features element is decoded by the library itself x {Password, OAuthToken} x Write {ok, error, 0 bytes} x a table of concrete replies (success / failure with every RFC 6120 condition / other packets / wrong-namespace success / truncated / EOF); codec: random bytes and valid, mutated and random base64 text through base64.StdEncoding; distinct = (mode, kind, list shape, user class, secret class, raw length mod 3, write mode, reply); non-trivial = common mechanism exists and user or secret non-empty (codec: text non-empty)"
}

const c14NSSASL = "urn:ietf:params:xml:ns:xmpp-sasl"
const c14Root = "<?xml version='1.0'?><stream:stream xmlns='jabber:client' xmlns:stream='http://etherx.jabber.org/streams' id='c14' version='1.0'>"

type c14Reply struct {
	id     string
	kind   int
	wire   string
	reason string
}

func c14ReplyTable() []c14Reply {
	ok := "<success xmlns='" + c14NSSASL + "'/>"
	t := []c14Reply{
		// success
		{"success", 0, ok, ""},
		{"success-open-close", 0, `<success xmlns="` + c14NSSASL + `"></success>`, ""},
		{"success-data", 0, "<success xmlns='" + c14NSSASL + "'>dj1yTDNsQUs=</success>", ""},
		{"success-ws", 0, " \r\n\t" + ok, ""},
		{"success-prefixed", 0, "<sasl:success xmlns:sasl='" + c14NSSASL + "'/>", ""},
		{"success-after-comment", 0, "<!-- hello -->" + ok, ""},
		{"success-then-features", 0, ok + "<stream:features/>", ""},
		{"success-then-failure", 0, ok + "<failure xmlns='" + c14NSSASL + "'><not-authorized/></failure>", ""},
		// other packets
		{"message", 2, "<message xmlns='jabber:client'/>", ""},
		{"message-inherited-ns", 2, "<message><body>hi</body></message>", ""},
		{"presence", 2, "<presence xmlns='jabber:client'/>", ""},
		{"iq", 2, "<iq xmlns='jabber:client' type='result' id='x'/>", ""},
		{"features", 2, "<stream:features/>", ""},
		{"features-mechs", 2, "<stream:features><mechanisms xmlns='" + c14NSSASL + "'><mechanism>PLAIN</mechanism></mechanisms></stream:features>", ""},
		{"stream-error", 2, "<stream:error><host-unknown xmlns='urn:ietf:params:xml:ns:xmpp-streams'/></stream:error>", ""},
		{"stream-close", 2, "</stream:stream>", ""},
		{"sm-a", 2, "<a xmlns='urn:xmpp:sm:3' h='1'/>", ""},
		{"sm-r", 2, "<r xmlns='urn:xmpp:sm:3'/>", ""},
		{"sm-enabled", 2, "<enabled xmlns='urn:xmpp:sm:3' id='x'/>", ""},
		{"handshake", 2, "<handshake xmlns='jabber:component:accept'/>", ""},
		{"message-then-success", 2, "<message xmlns='jabber:client'/>" + ok, ""},
		// NextPacket returns an error
		{"eof", 3, "", ""},
		{"ws-eof", 3, "  \n", ""},
		{"text-eof", 3, "hello", ""},
		{"success-wrong-ns-inherited", 3, "<success/>", ""},
		{"success-wrong-ns-client", 3, "<success xmlns='jabber:client'/>", ""},
		{"success-wrong-ns-near", 3, "<success xmlns='" + c14NSSASL + "-x'/>", ""},
		{"success-wrong-ns-stream", 3, "<stream:success/>", ""},
		{"success-uppercase", 3, "<SUCCESS xmlns='" + c14NSSASL + "'/>", ""},
		{"success-truncated-tag", 3, "<success xmlns='" + c14NSSASL + "'", ""},
		{"success-unclosed", 3, "<success xmlns='" + c14NSSASL + "'>", ""},
		{"success-mismatched-end", 3, "<success xmlns='" + c14NSSASL + "'></failure>", ""},
		{"challenge", 3, "<challenge xmlns='" + c14NSSASL + "'>cmVhbG09</challenge>", ""},
		{"unknown-ns", 3, "<foo xmlns='urn:example:unknown'/>", ""},
		{"no-ns-unbound-prefix", 3, "<x:success xmlns:x=''/>", ""},
		{"malformed", 3, "<<<", ""},
		{"failure-truncated", 3, "<failure xmlns='" + c14NSSASL + "'><not-authorized/>", ""},
		{"bad-entity", 3, "&nosuch;<success xmlns='" + c14NSSASL + "'/>", ""},
	}
	for _, c := range []string{"not-authorized", "aborted", "account-disabled", "credentials-expired",
		"encryption-required", "incorrect-encoding", "invalid-authzid", "invalid-mechanism",
		"malformed-request", "mechanism-too-weak", "temporary-auth-failure"} {
		t = append(t, c14Reply{"failure-" + c, 1, "<failure xmlns='" + c14NSSASL + "'><" + c + "/></failure>", c})
	}
	t = append(t,
		c14Reply{"failure-empty", 1, "<failure xmlns='" + c14NSSASL + "'/>", ""},
		c14Reply{"failure-text", 1, "<failure xmlns='" + c14NSSASL + "'><not-authorized/><text xml:lang='en'>bad &amp; wrong</text></failure>", "not-authorized"},
		c14Reply{"failure-prefixed", 1, "<s:failure xmlns:s='" + c14NSSASL + "'><s:not-authorized/></s:failure>", "not-authorized"},
		c14Reply{"failure-then-success", 1, "<failure xmlns='" + c14NSSASL + "'><not-authorized/></failure>" + ok, "not-authorized"},
	)
	return t
}

var c14Replies = c14ReplyTable()

var c14MechPool = []string{"PLAIN", "X-OAUTH2", "SCRAM-SHA-1", "ANONYMOUS", "",
	"DIGEST-MD5", "EXTERNAL", "SCRAM-SHA-1-PLUS", "plain", "Plain", " PLAIN", "PLAIN ", "PLAIN\n", "PLAI", "PLAINX",
	"X-OAUTH", "x-oauth2", "X-OAUTH2 ", "XOAUTH2", "X_OAUTH2", "<PLAIN>", "PL&AIN", "\"PLAIN\"", "PLAIN,X-OAUTH2",
	"PLAIN X-OAUTH2", "ПЛАИН", "UNKNOWN-MECH"}

// namespaces of look-alike <mechanism/> children: none of them is the SASL namespace
var c14ForeignNS = []string{"urn:example:not-sasl", "", "jabber:client", "urn:ietf:params:xml:ns:xmpp-tls",
	"urn:ietf:params:xml:ns:xmpp-sasl2", "URN:IETF:PARAMS:XML:NS:XMPP-SASL", "urn:ietf:params:xml:ns:xmpp-sasl ", "urn:xmpp:sasl:2"}

// look-alikes directly under <stream:features/> (placed before / after the real list)
var c14OutsidePool = []string{
	"<mechanism xmlns='" + c14NSSASL + "'>PLAIN</mechanism>",
	"<mechanism xmlns='" + c14NSSASL + "'>X-OAUTH2</mechanism>",
	"<mechanisms xmlns='urn:example:not-sasl'><mechanism>PLAIN</mechanism><mechanism>X-OAUTH2</mechanism></mechanisms>",
	"<authentication xmlns='urn:xmpp:sasl:2'><mechanism>PLAIN</mechanism><mechanism>X-OAUTH2</mechanism></authentication>",
	"<x xmlns='urn:example:wrap'><mechanisms xmlns='" + c14NSSASL + "'><mechanism>PLAIN</mechanism><mechanism>X-OAUTH2</mechanism></mechanisms></x>",
}

func c14Mechs(r *rand.Rand) []string {
	switch r.Intn(14) {
	case 0:
		return []string{}
	case 1:
		return []string{"PLAIN"}
	case 2:
		return []string{"X-OAUTH2"}
	case 3:
		return []string{"PLAIN", "X-OAUTH2"}
	case 4:
		return []string{"X-OAUTH2", "PLAIN"}
	case 5: // everything but the two supported ones
		var l []string
		for _, m := range c14MechPool {
			if m != "PLAIN" && m != "X-OAUTH2" {
				l = append(l, m)
			}
		}
		r.Shuffle(len(l), func(i, j int) { l[i], l[j] = l[j], l[i] })
		return l[:1+r.Intn(len(l))]
	}
	n := r.Intn(8)
	l := make([]string, 0, n)
	for i := 0; i < n; i++ {
		switch c := r.Intn(10); {
		case c < 5: // the four well-known names and ""
			l = append(l, c14MechPool[r.Intn(5)])
		case c < 7 && len(l) > 0: // duplicate
			l = append(l, l[r.Intn(len(l))])
		default:
			l = append(l, c14MechPool[r.Intn(len(c14MechPool))])
		}
	}
	return l
}

var c14Fixed = []string{"", "a", "test", "alice", "\x00", "\x00\x00", "a\x00b", "\x00a", "a\x00", "é", "日本語", "\U0001F600",
	"<", ">", "&", "\"", "'", "<&>\"'", "]]>", "</auth>", "<!--", "&amp;", "&#0;", "<auth mechanism='ANONYMOUS'/>",
	"\xff", "\xff\xff\xff", "\xfb\xff\xbf", "\xfb\xef\xbe", "\x80", "\xc0\xaf", "\xed\xa0\x80", "\xfe\xff",
	"=", "====", "+/", "\r\n", "\t", " ", "user@example.org", "pass word", "\x7f", "\x01\x02\x03"}

// c14Bytes: (bytes, class)
func c14Bytes(r *rand.Rand) ([]byte, string) {
	switch c := r.Intn(20); {
	case c < 1:
		return []byte{}, "empty"
	case c < 8:
		s := c14Fixed[r.Intn(len(c14Fixed))]
		return []byte(s), c14Class([]byte(s))
	case c < 9: // about 1 kB
		n := 1000 + r.Intn(50)
		b := make([]byte, n)
		r.Read(b)
		if r.Intn(2) == 0 {
			for i := range b {
				b[i] = "abcdefghijklmnopqrstuvwxyz<&>\x00é"[int(b[i])%32]
			}
		}
		return b, "1k"
	case c < 13: // arbitrary bytes
		n := r.Intn(40)
		b := make([]byte, n)
		r.Read(b)
		return b, c14Class(b)
	case c < 15: // concatenation of fixed pieces
		var b []byte
		for k := 1 + r.Intn(4); k > 0; k-- {
			b = append(b, c14Fixed[r.Intn(len(c14Fixed))]...)
		}
		return b, c14Class(b)
	case c < 16: // one repeated extreme byte
		b := bytes.Repeat([]byte{[]byte{0, 0xff, 0x3f, 0xfb, '<', '&'}[r.Intn(6)]}, 1+r.Intn(9))
		return b, c14Class(b)
	default: // printable ASCII of varied length
		n := 1 + r.Intn(24)
		b := make([]byte, n)
		for i := range b {
			b[i] = byte(32 + r.Intn(95))
		}
		return b, c14Class(b)
	}
}

func c14Class(b []byte) string {
	if len(b) == 0 {
		return "empty"
	}
	if len(b) >= 1000 {
		return "1k"
	}
	cls := ""
	if bytes.IndexByte(b, 0) >= 0 {
		cls += "nul,"
	}
	if bytes.ContainsAny(b, "<>&\"'") {
		cls += "meta,"
	}
	if !validUTF8(string(b)) {
		cls += "badutf8,"
	} else {
		for _, c := range b {
			if c >= 0x80 {
				cls += "nonascii,"
				break
			}
		}
	}
	if cls == "" {
		return "ascii"
	}
	return strings.TrimSuffix(cls, ",")
}

func c14Text(r *rand.Rand, data []byte) []byte {
	const alpha = "ABCDEFGHIJKLMNOPQRSTUVWXYZabcdefghijklmnopqrstuvwxyz0123456789+/"
	enc := []byte(base64.StdEncoding.EncodeToString(data))
	ins := func(b []byte, at int, s string) []byte {
		return append(append(append([]byte{}, b[:at]...), s...), b[at:]...)
	}
	switch r.Intn(16) {
	case 0, 1:
		return enc
	case 2: // line breaks anywhere (Go skips them)
		for k := 1 + r.Intn(4); k > 0; k-- {
			enc = ins(enc, r.Intn(len(enc)+1), []string{"\n", "\r", "\r\n"}[r.Intn(3)])
		}
		return enc
	case 3:
		return bytes.TrimRight(enc, "=")
	case 4:
		return append(enc, '=')
	case 5: // one foreign character
		if len(enc) == 0 {
			return []byte("*")
		}
		enc[r.Intn(len(enc))] = " -_*.,\x00\xff=\t"[r.Intn(10)]
		return enc
	case 6: // cut
		if len(enc) == 0 {
			return enc
		}
		return enc[:r.Intn(len(enc))]
	case 7: // non-zero unused bits in the last group
		n := 4 * r.Intn(4)
		b := make([]byte, 0, n+4)
		for i := 0; i < n+2; i++ {
			b = append(b, alpha[r.Intn(64)])
		}
		if r.Intn(2) == 0 {
			return append(b, '=', '=')
		}
		return append(b, alpha[r.Intn(64)], '=')
	case 8: // random text over the alphabet, '=', line breaks
		n := r.Intn(14)
		b := make([]byte, n)
		for i := range b {
			b[i] = (alpha + "===\n\r")[r.Intn(69)]
		}
		return b
	case 9:
		fixed := []string{"", "=", "==", "===", "====", "A", "AA", "AAA", "AAAA", "A===", "AA==", "AAA=", "=AAA", "A=AA", "AA=A",
			"AA==AAAA", "AAA=AAAA", "AAAAAA==", "AAAA=", "AA=\n=", "AA\n==", "A\nA==\n", "AAA=\n", "\n", "\r\n\r\n", "AA==\n\nA", "////", "++++", "AB==", "AAB=", "/w==", "//8="}
		return []byte(fixed[r.Intn(len(fixed))])
	case 10: // padding inserted in the middle
		return ins(enc, r.Intn(len(enc)+1), "=")
	default: // arbitrary bytes
		n := r.Intn(12)
		b := make([]byte, n)
		r.Read(b)
		return b
	}
}

func (c14) Gen(r *rand.Rand, tier string) []interface{} {
	n, ncodec := 3000, 1500
	if tier == "thorough" {
		n, ncodec = 50000, 20000
	}
	var out []interface{}
	mk := func(kind int, user, secret string, mechs []string, w int, rep c14Reply) c14In {
		return c14In{Mode: "auth", Kind: kind, User: []byte(user), Secret: []byte(secret), Mechs: mechs, W: w,
			RKind: rep.kind, Reply: rep.wire, Reason: rep.reason, ReplyID: rep.id}
	}
	// every reply of the table with each credential kind on a matching server
	for _, rep := range c14Replies {
		out = append(out, mk(0, "test", "test", []string{"PLAIN"}, 0, rep),
			mk(1, "test", "tok", []string{"SCRAM-SHA-1", "X-OAUTH2", "PLAIN"}, 0, rep),
			mk(0, "a<b", "&\x00\xff", []string{"X-OAUTH2"}, 0, rep))
	}
	for _, s := range c14Fixed {
		out = append(out, mk(0, s, "pw", []string{"PLAIN"}, 0, c14Replies[0]), mk(1, "u", s, []string{"X-OAUTH2"}, 0, c14Replies[0]))
	}
	in := mk(0, "u", "p", []string{}, 0, c14Replies[0])
	in.NoElem = true
	out = append(out, in)
	// look-alike children and siblings: they advertise nothing
	for kind, m := range []string{"PLAIN", "X-OAUTH2"} {
		for _, rep := range []c14Reply{c14Replies[0], c14Replies[len(c14Replies)-4]} {
			for _, ns := range c14ForeignNS {
				x := mk(kind, "alice", "s3cret", []string{"SCRAM-SHA-1"}, 0, rep)
				x.Foreign = []c14Foreign{{At: 1, NS: ns, Local: "mechanism", Text: m}}
				out = append(out, x)
			}
			x := mk(kind, "alice", "s3cret", []string{}, 0, rep)
			x.Foreign = []c14Foreign{{At: 0, NS: "urn:example:not-sasl", Local: "mechanism", Text: m}}
			y := mk(kind, "alice", "s3cret", []string{"SCRAM-SHA-1"}, 0, rep)
			y.Outside = c14OutsidePool
			z := mk(kind, "alice", "s3cret", []string{"SCRAM-SHA-1", m}, 0, rep) // genuinely advertised, prefixed spelling
			z.Spell = 1
			z.Foreign = []c14Foreign{{At: 0, NS: "urn:example:not-sasl", Local: "mechanism", Text: "ANONYMOUS"}}
			out = append(out, x, y, z)
		}
	}
	// a server that writes its features indented: white space around the name is not part of it
	for kind, m := range []string{"PLAIN", "X-OAUTH2"} {
		for _, rep := range []c14Reply{c14Replies[0], c14Replies[len(c14Replies)-4]} {
			a := mk(kind, "alice", "s3cret", []string{"\n      SCRAM-SHA-1\n    ", "\n      " + m + "\n    "}, 0, rep)
			b := mk(kind, "alice", "s3cret", []string{" " + m + " "}, 0, rep)
			c := mk(kind, "alice", "s3cret", []string{"\t" + m + "\r\n"}, 0, rep)
			d := mk(kind, "alice", "s3cret", []string{"\u00a0" + m, m + "\u2003", "P LAIN", "X- OAUTH2"}, 0, rep) // not XML white space / inside the name: other names
			out = append(out, a, b, c, d)
		}
	}
	// two SASL lists in one features element: the mechanisms of both are advertised
	for kind, m := range []string{"PLAIN", "X-OAUTH2"} {
		a := mk(kind, "alice", "s3cret", []string{"SCRAM-SHA-1"}, 0, c14Replies[0])
		a.Second = []string{"ANONYMOUS", m}
		b := mk(kind, "alice", "s3cret", []string{"SCRAM-SHA-1"}, 0, c14Replies[0])
		b.Second = []string{"ANONYMOUS"}
		c := mk(kind, "alice", "s3cret", []string{}, 0, c14Replies[0])
		c.NoElem = true
		c.Second = []string{m}
		c.Outside = c14OutsidePool[:3]
		out = append(out, a, b, c)
	}
	for i := 0; i < n; i++ {
		u, _ := c14Bytes(r)
		s, _ := c14Bytes(r)
		rep := c14Replies[r.Intn(len(c14Replies))]
		if r.Intn(3) == 0 { // weight towards success and failure
			rep = c14Replies[r.Intn(8)]
		}
		w := 0
		if r.Intn(12) == 0 {
			w = 1 + r.Intn(2)
		}
		in := mk(r.Intn(2), string(u), string(s), c14Mechs(r), w, rep)
		if len(in.Mechs) == 0 && r.Intn(2) == 0 {
			in.NoElem = true
		}
		if !in.NoElem && r.Intn(5) == 0 {
			for k := 1 + r.Intn(3); k > 0; k-- {
				f := c14Foreign{At: r.Intn(len(in.Mechs) + 1), NS: c14ForeignNS[r.Intn(len(c14ForeignNS))], Local: "mechanism",
					Text: c14MechPool[r.Intn(4)]}
				if r.Intn(6) == 0 { // SASL namespace, another name
					f.NS, f.Local = c14NSSASL, []string{"Mechanism", "mechanisms", "mech", "hostname"}[r.Intn(4)]
				}
				in.Foreign = append(in.Foreign, f)
			}
		}
		if r.Intn(10) == 0 {
			for k := 1 + r.Intn(2); k > 0; k-- {
				in.Outside = append(in.Outside, c14OutsidePool[r.Intn(len(c14OutsidePool))])
			}
		}
		if r.Intn(8) == 0 {
			in.Spell = 1
		}
		if r.Intn(12) == 0 {
			if sec := c14Mechs(r); len(sec) > 0 { // (an empty list would not survive the JSON round trip of a replay)
				in.Second = sec
			}
		}
		out = append(out, in)
	}
	for i := 0; i < ncodec; i++ {
		d, _ := c14Bytes(r)
		if i < 300 {
			d = d[:len(d)%7] // all short lengths
		}
		out = append(out, c14In{Mode: "codec", Data: d, Text: c14Text(r, d)})
	}
	return out
}

func (c14) Decode(raw json.RawMessage) (interface{}, error) {
	var in c14In
	err := json.Unmarshal(raw, &in)
	return in, err
}

// c14Sock: the socket handed to authSASL.  Records every Write call; reads come
// from the canned server bytes.
type c14Sock struct {
	rd     io.Reader
	w      int
	writes [][]byte
}

func (s *c14Sock) Read(p []byte) (int, error) { return s.rd.Read(p) }
func (s *c14Sock) Write(p []byte) (int, error) {
	s.writes = append(s.writes, append([]byte{}, p...))
	switch s.w {
	case 1:
		return 0, errors.New("c14: scripted write failure")
	case 2:
		return 0, nil
	}
	return len(p), nil
}

func c14FeaturesXML(in c14In) []byte {
	var b bytes.Buffer
	b.WriteString("<stream:features xmlns:stream='http://etherx.jabber.org/streams'>")
	b.WriteString("<starttls xmlns='urn:ietf:params:xml:ns:xmpp-tls'/>")
	for i, o := range in.Outside {
		if i%2 == 0 {
			b.WriteString(o)
		}
	}
	if !(in.NoElem && len(in.Mechs) == 0) {
		pfx := ""
		if in.Spell == 1 {
			pfx = "sasl:"
			b.WriteString("<sasl:mechanisms xmlns:sasl='" + c14NSSASL + "'>")
		} else {
			b.WriteString("<mechanisms xmlns='" + c14NSSASL + "'>")
		}
		for _, c := range c14Children(in) {
			if c.NS == c14NSSASL {
				b.WriteString("<" + pfx + c.Local + ">")
				xml.EscapeText(&b, []byte(c.Text))
				b.WriteString("</" + pfx + c.Local + ">")
			} else {
				b.WriteString("<" + c.Local + " xmlns='")
				xml.EscapeText(&b, []byte(c.NS))
				b.WriteString("'>")
				xml.EscapeText(&b, []byte(c.Text))
				b.WriteString("</" + c.Local + ">")
			}
		}
		b.WriteString("</" + pfx + "mechanisms>")
	}
	for i, o := range in.Outside {
		if i%2 == 1 {
			b.WriteString(o)
		}
	}
	if in.Second != nil {
		b.WriteString("<mechanisms xmlns='" + c14NSSASL + "'>")
		for _, m := range in.Second {
			b.WriteString("<mechanism>")
			xml.EscapeText(&b, []byte(m))
			b.WriteString("</mechanism>")
		}
		b.WriteString("</mechanisms>")
	}
	b.WriteString("<bind xmlns='urn:ietf:params:xml:ns:xmpp-bind'/></stream:features>")
	return b.Bytes()
}

// c14Features: the features element as the library itself decodes it (Session.init does
// the same Decode into a stanza.StreamFeatures): which children count as advertised
// mechanisms is part of what is checked.
func c14Features(in c14In) (stanza.StreamFeatures, error) {
	var f stanza.StreamFeatures
	err := xml.Unmarshal(c14FeaturesXML(in), &f)
	return f, err
}

// c14Elem: what was written, read as an ELEMENT (canon.go: namespace-resolved name,
// attributes, exact character data), because C14 fixes which mechanism the element
// names and what its character data is, not how the element is spelled (quote style,
// attribute order, where xmlns stands, hand-written or xml.Marshal).
// (namespace local mechanism chardata), or (raw bytes) when the write is not exactly
// one element with one un-prefixed mechanism attribute and character data only.
func c14Elem(data []byte) Sx {
	raw := L(SBytes(string(data)))
	ns, err := parseCanon(data)
	if err != nil || len(ns) != 1 {
		return raw
	}
	n := ns[0]
	mech, nmech := "", 0
	for _, a := range n.Attrs {
		if a.Name.Space == "" && a.Name.Local == "mechanism" {
			mech = a.Value
			nmech++
		}
	}
	text := ""
	for _, k := range n.Kids {
		if k.Name.Local != "" { // a child element: not character data only
			return raw
		}
		text += k.Text
	}
	if nmech != 1 {
		return raw
	}
	return L(SBytes(n.Name.Space), SBytes(n.Name.Local), SBytes(mech), SBytes(text))
}

func (c14) Run(inp interface{}) Sx {
	in := inp.(c14In)
	if in.Mode == "codec" {
		enc := base64.StdEncoding.EncodeToString(in.Data)
		dec, err := base64.StdEncoding.DecodeString(string(in.Text))
		return L(SBytes(enc), Opt(err == nil, SBytes(string(dec))))
	}
	f, err := c14Features(in)
	if err != nil {
		return L(Z(-1), SBytes("features: "+err.Error()))
	}
	sock := &c14Sock{rd: strings.NewReader(c14Root + in.Reply), w: in.W}
	d := xml.NewDecoder(sock)
	// the stream header has been read long before authentication
	for {
		tok, err := d.Token()
		if err != nil {
			return L(Z(-3), SBytes("root: "+err.Error()))
		}
		if se, ok := tok.(xml.StartElement); ok && se.Name.Local == "stream" {
			break
		}
	}
	var cred xmpp.Credential
	if in.Kind == 0 {
		cred = xmpp.Password(string(in.Secret))
	} else {
		cred = xmpp.OAuthToken(string(in.Secret))
	}
	err = xmpp.VerifAuthSASL(sock, d, f, string(in.User), cred)
	res := 0
	if err != nil {
		res = 2
		var ce xmpp.ConnError
		if errors.As(err, &ce) && ce.Permanent {
			res = 1
		}
	}
	es := make([]Sx, len(sock.writes))
	for i, w := range sock.writes {
		es[i] = c14Elem(w)
	}
	return L(Zi(len(sock.writes)), Zi(res), LS(es))
}

func (c14) Input(inp interface{}) Sx {
	in := inp.(c14In)
	if in.Mode == "codec" {
		return L(Z(1), SBytes(string(in.Data)), SBytes(string(in.Text)))
	}
	// The model is given ALL the children of the features element, as an independent XML reader (canon.go) sees
	// the bytes the library decodes: which of them advertise a mechanism is the model's business (advertised_in).
	nodes, ok := c14Nodes(c14FeaturesXML(in))
	reply := L(Zi(in.RKind), SBytes(in.Reason))
	if ns, local, named := c14ReplyName(in.Reply); named {
		// the answer starts with a complete, well-formed element: what kind of reply that is, is the model's
		// business too (Model/Parser.v's classification of the expanded name)
		reply = L(Zi(in.RKind), SBytes(in.Reason), SBytes(ns), SBytes(local))
	}
	if ok {
		return L(Z(2), Zi(in.Kind), SBytes(string(in.User)), SBytes(string(in.Secret)), LS(nodes), Zi(in.W), reply)
	}
	cs := c14Children(in)
	ms := make([]Sx, len(cs))
	for i, c := range cs {
		ms[i] = L(SBytes(c.NS), SBytes(c.Local), SBytes(c.Text))
	}
	return L(Z(0), Zi(in.Kind), SBytes(string(in.User)), SBytes(string(in.Secret)), LS(ms), Zi(in.W), reply)
}

// c14Nodes: the element children of the features element, each as (namespace local ((namespace local text) ...)):
// its own element children with their direct character data.
func c14Nodes(features []byte) ([]Sx, bool) {
	top, err := parseCanon(features)
	if err != nil || len(top) != 1 {
		return nil, false
	}
	var nodes []Sx
	for _, n := range top[0].Kids {
		if n.Name.Local == "" {
			continue
		}
		var kids []Sx
		for _, k := range n.Kids {
			if k.Name.Local == "" {
				continue
			}
			text := ""
			for _, t := range k.Kids {
				if t.Name.Local == "" {
					text += t.Text
				}
			}
			kids = append(kids, L(SBytes(k.Name.Space), SBytes(k.Name.Local), SBytes(text)))
		}
		nodes = append(nodes, L(SBytes(n.Name.Space), SBytes(n.Name.Local), LS(kids)))
	}
	return nodes, true
}

// c14ReplyName: the expanded name of the element the server's answer starts with, when that element is complete and
// well-formed (inside the stream the client has open: default namespace jabber:client, prefix stream bound).
func c14ReplyName(wire string) (ns, local string, named bool) {
	d := xml.NewDecoder(strings.NewReader(c14Root + wire))
	first := true
	for {
		tok, err := d.Token()
		if err != nil {
			return "", "", false
		}
		switch t := tok.(type) {
		case xml.StartElement:
			if first { // the stream header
				first = false
				continue
			}
			if err := d.Skip(); err != nil {
				return "", "", false
			}
			return t.Name.Space, t.Name.Local, true
		case xml.EndElement:
			return "", "", false
		case xml.CharData:
			if !first && strings.TrimSpace(string(t)) != "" {
				return "", "", false
			}
		}
	}
}

// Direct oracle: the property's own clauses on the observation, no model.
func (c14) Oracle(inp interface{}, obs Sx) (string, string) {
	in := inp.(c14In)
	if in.Mode == "codec" {
		// Go's own codec: nothing of the repository under test is involved; only sanity
		if len(obs.L) != 2 {
			return "codec observation malformed", "shape"
		}
		return "", ""
	}
	if len(obs.L) != 3 {
		return "harness could not set the case up: " + obs.String(), "shape"
	}
	nwrites, res, elems := int(obs.L[0].Z), obs.L[1].Z, obs.L[2].L
	credMech := "PLAIN"
	if in.Kind == 1 {
		credMech = "X-OAUTH2"
	}
	// advertised: the mechanisms of every SASL <mechanisms/> element of the features (the scenario's own lists)
	// ... each by its name: the character data without the XML white space around it (xs:NMTOKEN)
	var advertisedMechs []string
	for _, m := range append(append([]string{}, in.Mechs...), in.Second...) {
		advertisedMechs = append(advertisedMechs, strings.Trim(m, " \t\r\n"))
	}
	common := false
	for _, m := range advertisedMechs {
		if m == credMech {
			common = true
		}
	}
	if !common {
		if nwrites != 0 {
			sig, extra := "no-common-mech-sent", ""
			for _, f := range in.Foreign {
				if f.Text == credMech && f.Local == "mechanism" {
					sig, extra = "foreign-mechanism-used", fmt.Sprintf(" (a <mechanism xmlns=%q>%s</mechanism> child, which is not a SASL mechanism, was taken for one)", f.NS, f.Text)
				}
			}
			return fmt.Sprintf("server offers %q, credential supports %s: nothing may be sent, but %d write(s): %s%s", advertisedMechs, credMech, nwrites, elems[0].String(), extra), sig
		}
		if res != 1 {
			return fmt.Sprintf("server offers %q, credential supports %s: expected a permanent error, got result %d", in.Mechs, credMech, res), "no-common-mech-error"
		}
		return "", ""
	}
	if nwrites != 1 || len(elems) != 1 {
		return fmt.Sprintf("expected exactly one write of the auth element, got %d", nwrites), "write-count"
	}
	if len(elems[0].L) != 4 {
		return fmt.Sprintf("what was written is not a single well-formed element with a mechanism attribute and character data: %q", bytesOf(elems[0].L[0])), "element-malformed"
	}
	if ns, local := string(bytesOf(elems[0].L[0])), string(bytesOf(elems[0].L[1])); ns != c14NSSASL || local != "auth" {
		return fmt.Sprintf("the element written is {%s}%s, not {%s}auth", ns, local, c14NSSASL), "element-name"
	}
	mech, payload := string(bytesOf(elems[0].L[2])), string(bytesOf(elems[0].L[3]))
	if mech != credMech {
		return fmt.Sprintf("mechanism %q is not the credential's %s", mech, credMech), "mechanism-credential"
	}
	offered := false
	for _, m := range advertisedMechs {
		offered = offered || m == mech
	}
	if !offered {
		return fmt.Sprintf("mechanism %q was not advertised (%q)", mech, in.Mechs), "mechanism-not-advertised"
	}
	for i := 0; i < len(payload); i++ {
		c := payload[i]
		if !(c >= 'A' && c <= 'Z' || c >= 'a' && c <= 'z' || c >= '0' && c <= '9' || c == '+' || c == '/' || c == '=') {
			return fmt.Sprintf("payload character %q outside the base64 alphabet", c), "payload-alphabet"
		}
	}
	dec, err := base64.StdEncoding.DecodeString(payload)
	want := "\x00" + string(in.User) + "\x00" + string(in.Secret)
	if err != nil || string(dec) != want {
		return fmt.Sprintf("payload %q decodes to %q (err %v), want %q", payload, dec, err, want), "payload"
	}
	switch {
	case in.W != 0:
		if res == 0 {
			return "the write failed and authSASL returned nil", "write-failed-authenticated"
		}
	case in.RKind == 0:
		if res != 0 {
			return fmt.Sprintf("reply %s: expected nil, got result %d", in.ReplyID, res), "success-rejected"
		}
	case in.RKind == 1:
		if res != 1 {
			return fmt.Sprintf("reply %s (<failure/>): expected a permanent error, got result %d", in.ReplyID, res), "failure-not-permanent"
		}
	default:
		if res == 0 {
			return fmt.Sprintf("reply %s is not <success/> but authSASL returned nil", in.ReplyID), "non-success-authenticated"
		}
	}
	return "", ""
}

func (c14) Key(inp interface{}) (string, bool) {
	in := inp.(c14In)
	if in.Mode == "codec" {
		_, err := base64.StdEncoding.DecodeString(string(in.Text))
		k := fmt.Sprintf("codec/%d/%d/%v", len(in.Data)%3, len(in.Text)%4, err == nil)
		hist("codec:decodes=" + fmt.Sprint(err == nil))
		hist(fmt.Sprintf("codec:len%%3=%d", len(in.Data)%3))
		return k + "/" + string(in.Text), len(in.Text) > 0
	}
	credMech := "PLAIN"
	if in.Kind == 1 {
		credMech = "X-OAUTH2"
	}
	common, dup := false, false
	seen := map[string]bool{}
	for _, m := range in.Mechs {
		if m == credMech {
			common = true
		}
		if seen[m] {
			dup = true
		}
		seen[m] = true
	}
	uc, sc := c14Class(in.User), c14Class(in.Secret)
	hist("kind:" + []string{"password", "oauth"}[in.Kind])
	hist("common:" + fmt.Sprint(common))
	hist("user:" + uc)
	hist("secret:" + sc)
	hist(fmt.Sprintf("rawlen%%3=%d", (2+len(in.User)+len(in.Secret))%3))
	hist("reply:" + []string{"success", "failure", "other", "read-error"}[in.RKind])
	hist("write:" + []string{"ok", "error", "zero"}[in.W])
	switch {
	case len(in.Mechs) == 0 && in.NoElem:
		hist("mechs:no-element")
	case len(in.Mechs) == 0:
		hist("mechs:empty")
	case dup:
		hist("mechs:duplicates")
	default:
		hist(fmt.Sprintf("mechs:%d", len(in.Mechs)))
	}
	if len(in.Foreign) > 0 {
		hist("lookalike:child")
	}
	if len(in.Outside) > 0 {
		hist("lookalike:outside")
	}
	if in.Spell == 1 {
		hist("spelling:prefixed")
	}
	fk, _ := json.Marshal(in.Foreign)
	k := fmt.Sprintf("auth/%s/%d/%d/%d/%s/%v/%s/%s/%d/%d/%s", fk, len(in.Outside), in.Spell, in.Kind, strings.Join(in.Mechs, "|"), in.NoElem, uc, sc,
		(2+len(in.User)+len(in.Secret))%3, in.W, in.ReplyID)
	return k, common && len(in.User)+len(in.Secret) > 0
}
