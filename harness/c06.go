package main

import (
	"context"
	"encoding/json"
	"encoding/xml"
	"fmt"
	"math/rand"
	"strconv"
	"strings"
	"sync"

	xmpp "gosrc.io/xmpp"
	"gosrc.io/xmpp/stanza"
)

// C06: Router.route (through the hook xmpp.VerifRoute) vs Model/Router.v.
//
// One case = (route table given as builder calls, ids of pending SendIQ requests, one packet).

type c06Matcher struct {
	K string   `json:"k"` // "packet" | "type" | "ns": Route.Packet / StanzaType / IQNamespaces
	A []string `json:"a"` // arguments as given to the builder (before its lower-casing); ASCII
}

type c06Pkt struct {
	Kind string `json:"kind"` // message | presence | iq | other
	Type string `json:"type,omitempty"`
	Id   string `json:"id,omitempty"`
	From string `json:"from,omitempty"`
	To   string `json:"to,omitempty"`
	// iq only. Payload: "" (nil) | disco | items | version | roster (library builders)
	// | disco0 | version0 | pubsub0 (zero values) | custom:<ns> | xml:<children> (parsed)
	// | deep:<n> (generic payload nested n levels, generated from the depth only)
	Payload string `json:"payload,omitempty"`
	Any     bool   `json:"any,omitempty"`   // set the generic Any node (ignored for xml:)
	Other   int    `json:"other,omitempty"` // which non-stanza packet
	H       uint   `json:"h,omitempty"`     // kind "sma": the h of the stream-management answer <a h='..'/>
}

// c06Client: the Sender is a real *Client (the router applies a stream-management answer to its session
// before dispatching it), with Held stanzas sent and awaiting acknowledgement when the packet arrives.
type c06Client struct {
	SM   bool `json:"sm,omitempty"`   // stream management enabled on the session (stanzas are held)
	Held int  `json:"held,omitempty"` // stanzas sent before the packet arrives
	Cut  bool `json:"cut,omitempty"`  // the connection is cut before the packet is routed: every further write fails
}

type c06In struct {
	Routes  [][]c06Matcher `json:"routes"`
	Pending []string       `json:"pending,omitempty"`
	Ended   []string       `json:"ended,omitempty"` // ids of SendIQ requests whose context has ended (Err() != nil) while their entry is still registered (the clean-up goroutine has not run: Done() never fires)
	Pkt     c06Pkt         `json:"pkt"`
	Client  *c06Client     `json:"client,omitempty"`
	Hist    *c06Hist       `json:"hist,omitempty"`  // a history: routes registered after dispatching has begun (c06hist.go); Routes is the initial table
	Share   bool           `json:"share,omitempty"` // the caller passes the arguments of every StanzaType / IQNamespaces call through ONE slice it re-uses (f(buf...)) and overwrites when the table is built
}

type c06 struct{}

func init() { register(c06{}) }

func (c06) ID() string    { return "C06" }
func (c06) RunFn() string { return "run_C06" }
func (c06) Workers() int  { return 8 }

// Journal: the case in flight is written down first, so that an input that brings the process
// down (a fatal error no recover can catch) is still named by the check.
func (c06) Journal() bool { return true }
func (c06) Rule() string {
	return "random route tables (0-6 routes x 0-3 matchers among Packet/StanzaType/IQNamespaces, 1-3 arguments each, catch-all routes at random positions, duplicated and overlapping routes, arguments in mixed case, in one case in four handed to the builders through ONE slice the caller re-uses for every StanzaType / IQNamespaces call and overwrites once the table is built (a builder must neither modify nor retain it); mostly ASCII, the domain of the model's lower-casing, plus names that strings.ToLower folds onto ASCII ones or onto each other - U+0130 (dotted capital I) in Packet('\u0130Q'), U+017F (long s) in 'me\u017f\u017fage', U+212A (Kelvin sign), '\u00c9' against the type '\u00e9' - for which the model is handed the argument as strings.ToLower returns it) x one random packet (message/presence with assorted types incl. empty, *IQ of type get/set/result/error/other with payload nil / built by the library builders / zero-valued / custom namespace / parsed from XML (registered payload types, and types unknown to the registry such as ping / vCard / a mixed-case application namespace, which land in the generic Any node), with or without a generic Any node, and 10 kinds of non-stanza packets incl. SMAnswer - routed like the others for a Sender that is not a *Client; in one case in twelve the Sender is a real *Client on an established session (stream management on or off, 0-4 stanzas sent and held, connection working or cut so that every write of the retransmission fails) and the packet an <a h/> with h below / equal to / beyond the number held, or any other packet: whatever the router does with the acknowledgement first (C10), the packet is still dispatched to the first accepting route exactly once), 0-2 pending IQ-result ids (clashing with the ids of requests as well as of responses), and in one case in five 1-2 ids of requests that have ENDED (context cancelled, entry still in IQResultRoutes because the clean-up goroutine is held back: a context whose Err() is non-nil and whose Done() never fires) - a response carrying such an id is a received packet like any other: first matching route exactly once, delivered to nobody, stale entry gone; a live pending request still takes its response and no handler runs; namespace arguments aim at the payload namespace verbatim or in another letter case; corpus: an unmatched get whose generic payload is nested 400000 levels (generated from the depth); the recording Sender serialises what it is given, as Client.Send / Component.Send do; HISTORIES in which the route table grows while the router is in use (6 fixed + 400 random per quick run): an initial table of 0-2 routes and 2-5 packets, each dispatched on a goroutine of its own as Client.recv does, where the handler that runs registers 0-2 further routes itself (re-entrant NewRoute().Packet/StanzaType/IQNamespaces().HandlerFunc or Router.HandleFunc), or stays running while another goroutine registers 0-2 routes and the next packet is dispatched (it is released when that dispatch has returned), plus routes registered between dispatches; new routes aim at the packets still to come (the same packet is sent again after the registration one time in four); every dispatch and registration under a 3 s deadline (not returning = blocked); expected = first-match on the table as it is when each dispatch begins (a route registered during packet k is at the end of the table packet k+1 sees), every packet handled exactly once, every unhandled IQ get/set answered exactly once; distinct = distinct (matcher kinds and per-route verdict, packet class, pending hit); non-trivial = at least 2 routes and either a route other than the first is selected or nothing matches an IQ get/set"
}

// ---- packets -------------------------------------------------------------------------

// a payload type of the harness' own, for arbitrary namespaces
type c06Payload struct{ ns string }

func (p *c06Payload) Namespace() string         { return p.ns }
func (p *c06Payload) GetSet() *stanza.ResultSet { return nil }

var c06Others = []stanza.Packet{
	stanza.SMRequest{}, stanza.StreamFeatures{}, stanza.StreamError{}, stanza.SMEnabled{},
	stanza.Handshake{}, stanza.SASLSuccess{}, stanza.StreamClosePacket{}, stanza.SMFailed{}, stanza.SMResumed{},
	stanza.SMAnswer{H: 3}, // route() looks at it first (retransmission for a *Client sender, C10), then routes it like the others
}

func c06Build(d c06Pkt) stanza.Packet {
	at := stanza.Attrs{Type: stanza.StanzaType(d.Type), Id: d.Id, From: d.From, To: d.To}
	switch d.Kind {
	case "message":
		return stanza.Message{XMLName: xml.Name{Local: "message"}, Attrs: at, Body: "hi"}
	case "presence":
		return stanza.Presence{XMLName: xml.Name{Local: "presence"}, Attrs: at}
	case "iq":
		iq := &stanza.IQ{XMLName: xml.Name{Local: "iq"}}
		switch {
		case d.Payload == "":
		case d.Payload == "disco":
			iq.DiscoInfo()
		case d.Payload == "items":
			iq.DiscoItems()
		case d.Payload == "version":
			iq.Version()
		case d.Payload == "roster":
			iq.RosterIQ()
		case d.Payload == "disco0":
			iq.Payload = &stanza.DiscoInfo{}
		case d.Payload == "version0":
			iq.Payload = &stanza.Version{}
		case d.Payload == "pubsub0":
			iq.Payload = &stanza.PubSubGeneric{}
		case strings.HasPrefix(d.Payload, "custom:"):
			iq.Payload = &c06Payload{ns: d.Payload[len("custom:"):]}
		case strings.HasPrefix(d.Payload, "deep:"):
			// what the decoder yields for <x xmlns='urn:example:deep'><a><a>...</a></a></x>, n levels
			n, _ := strconv.Atoi(d.Payload[len("deep:"):])
			node := stanza.Node{XMLName: xml.Name{Space: "urn:example:deep", Local: "a"}}
			for i := 0; i < n; i++ {
				node = stanza.Node{XMLName: xml.Name{Space: "urn:example:deep", Local: "a"}, Nodes: []stanza.Node{node}}
			}
			iq.Any = &stanza.Node{XMLName: xml.Name{Space: "urn:example:deep", Local: "x"}, Nodes: []stanza.Node{node}}
		case strings.HasPrefix(d.Payload, "xml:"):
			var parsed stanza.IQ
			src := "<iq xmlns='jabber:client' type='get' id='p'>" + d.Payload[len("xml:"):] + "</iq>"
			if err := xml.Unmarshal([]byte(src), &parsed); err != nil {
				panic("c06: cannot parse " + src + ": " + err.Error())
			}
			iq = &parsed
		default:
			panic("c06: unknown payload " + d.Payload)
		}
		iq.Attrs = at
		if d.Any && !strings.HasPrefix(d.Payload, "xml:") {
			iq.Any = &stanza.Node{XMLName: xml.Name{Space: "urn:any", Local: "x"}}
		}
		return iq
	case "sma":
		return stanza.SMAnswer{H: d.H}
	default:
		return c06Others[d.Other%len(c06Others)]
	}
}

// c06CutTransport: the stub transport, whose writes fail once the connection is cut.
type c06CutTransport struct {
	*stubTransport
	mu2    sync.Mutex
	cut    bool
	failed int
}

func (t *c06CutTransport) Write(p []byte) (int, error) {
	t.mu2.Lock()
	cut := t.cut
	if cut {
		t.failed++
	}
	t.mu2.Unlock()
	if cut {
		return 0, fmt.Errorf("write: connection reset by peer")
	}
	return t.stubTransport.Write(p)
}

// facts about a packet, read off the Go value (for Input and the oracle)
type c06Facts struct {
	kind       int // 0 message 1 presence 2 iq 3 other
	typ        string
	id, fr, to string
	hasPayload bool
	ns         string
	any        bool   // the generic Any node is set (payload of a type the registry does not know)
	anyNs      string // its namespace
}

func c06FactsOf(p stanza.Packet) c06Facts {
	switch v := p.(type) {
	case stanza.Message:
		return c06Facts{kind: 0, typ: string(v.Type), id: v.Id, fr: v.From, to: v.To}
	case stanza.Presence:
		return c06Facts{kind: 1, typ: string(v.Type), id: v.Id, fr: v.From, to: v.To}
	case *stanza.IQ:
		f := c06Facts{kind: 2, typ: string(v.Type), id: v.Id, fr: v.From, to: v.To, any: v.Any != nil}
		if v.Any != nil {
			f.anyNs = v.Any.XMLName.Space
		}
		if v.Payload != nil {
			f.hasPayload, f.ns = true, v.Payload.Namespace()
		}
		return f
	}
	return c06Facts{kind: 3}
}

func c06Attrs(typ, id, from, to string) Sx {
	return L(SBytes(typ), SBytes(id), SBytes(from), SBytes(to))
}

const c06NsStanzas = "urn:ietf:params:xml:ns:xmpp-stanzas"

// c06SentSx projects a packet handed to Sender.Send onto what C06 fixes about the automatic
// reply and nothing more: that it is an IQ, its type / id / from / to, and the name of its error
// condition ("" when there is none).  Legacy code, error type, <text/>, echoed payload, attribute
// order, and whether the reply is the received object or a copy are deliberately not observed.
// The packet is read as the element it serialises to (neutral parse, canon.go); if it cannot be
// serialised the fields of the Go value are read instead.
func c06SentSx(p stanza.Packet) Sx {
	if data, err := xml.Marshal(p); err == nil {
		if ns, perr := parseCanon(data); perr == nil && len(ns) == 1 {
			root := ns[0]
			if root.Name.Local != "iq" {
				return L(Z(99), SBytes(root.Name.Local))
			}
			attr := func(name string) string {
				for _, a := range root.Attrs {
					if a.Name.Space == "" && a.Name.Local == name {
						return a.Value
					}
				}
				return ""
			}
			cond := ""
			for _, k := range root.Kids {
				if k.Name.Local != "error" {
					continue
				}
				for _, c := range k.Kids {
					if c.Name.Local != "" && c.Name.Local != "text" && c.Name.Space == c06NsStanzas && cond == "" {
						cond = c.Name.Local
					}
				}
			}
			return L(Z(2), c06Attrs(attr("type"), attr("id"), attr("from"), attr("to")), SBytes(cond))
		}
	}
	if iq, ok := p.(*stanza.IQ); ok {
		cond := ""
		if iq.Error != nil {
			cond = iq.Error.Reason
		}
		return L(Z(2), c06Attrs(string(iq.Type), iq.Id, iq.From, iq.To), SBytes(cond))
	}
	return L(Z(99), SBytes(p.Name()))
}

// c06EndedCtx: a context that has ended (Err() != nil) but whose Done() never fires, so that the
// goroutine that would remove the request's entry never runs: the window between the end of a
// request and its clean-up, held open.
type c06EndedCtx struct{ context.Context }

func (c06EndedCtx) Err() error            { return context.Canceled }
func (c06EndedCtx) Done() <-chan struct{} { return nil }

// ---- the recording Sender ------------------------------------------------------------

type c06Sender struct {
	mu     sync.Mutex
	sent   []Sx
	raws   []Sx
	sendIQ int
}

func (s *c06Sender) Send(p stanza.Packet) error {
	s.mu.Lock()
	defer s.mu.Unlock()
	s.sent = append(s.sent, c06SentSx(p)) // projected at the moment it is sent
	return nil
}
func (s *c06Sender) SendIQ(ctx context.Context, iq *stanza.IQ) (chan stanza.IQ, error) {
	s.mu.Lock()
	defer s.mu.Unlock()
	s.sendIQ++
	return nil, nil
}
func (s *c06Sender) SendRaw(p string) error {
	s.mu.Lock()
	defer s.mu.Unlock()
	s.raws = append(s.raws, SBytes(p))
	return nil
}

// ---- run -----------------------------------------------------------------------------

func (c06) Decode(raw json.RawMessage) (interface{}, error) {
	var in c06In
	err := json.Unmarshal(raw, &in)
	return in, err
}

func (c06) Run(inp interface{}) Sx {
	in := inp.(c06In)
	if in.Hist != nil {
		return c06RunHist(in)
	}
	pkt := c06Build(in.Pkt)
	want := c06FactsOf(pkt) // read before routing: the router may or may not rewrite the packet
	sender := &c06Sender{}
	router := xmpp.NewRouter()
	var mu sync.Mutex
	var log []Sx
	scratch := make([]string, 0, 8) // in.Share: the caller's one re-used argument slice
	rewritten := 0                  // builder calls after which the caller's slice no longer held what was passed
	for i, ms := range in.Routes {
		rt := router.NewRoute()
		for _, m := range ms {
			args := append([]string{}, m.A...) // a variadic call f(args...) hands the builder this very slice
			if in.Share && m.K != "packet" && len(m.A) <= cap(scratch) {
				scratch = scratch[:len(m.A)]
				copy(scratch, m.A)
				args = scratch
			}
			switch m.K {
			case "packet":
				rt.Packet(args[0])
			case "type":
				rt.StanzaType(args...)
			case "ns":
				rt.IQNamespaces(args...)
			default:
				panic("c06: unknown matcher " + m.K)
			}
			if m.K != "packet" {
				for k := range args {
					if args[k] != m.A[k] {
						rewritten++
						break
					}
				}
			}
		}
		idx := i
		rt.HandlerFunc(func(s xmpp.Sender, p stanza.Packet) {
			// the handler must be given the routed packet: same kind, type, id and addressing
			// (not pointer identity, and the Sender may legitimately be wrapped)
			same := s != nil && c06FactsOf(p) == want
			mu.Lock()
			log = append(log, L(Zi(idx), B(same)))
			mu.Unlock()
		})
	}
	if in.Share {
		// the table is built: the caller's buffer goes on to other uses
		scratch = scratch[:cap(scratch)]
		for k := range scratch {
			scratch[k] = "clobbered"
		}
	}
	// pending SendIQ requests: registered through the public NewIQResultRoute, each with a reader
	ctx, cancel := context.WithCancel(context.Background())
	defer cancel()
	done := make(chan struct{})
	var wg sync.WaitGroup
	var delivered []Sx
	type reg struct {
		id    string
		ended bool
	}
	var regs []reg
	for _, id := range in.Pending {
		regs = append(regs, reg{id, false})
	}
	for _, id := range in.Ended {
		regs = append(regs, reg{id, true})
	}
	for _, rg := range regs {
		var ch chan stanza.IQ
		if rg.ended {
			ch = router.NewIQResultRoute(c06EndedCtx{context.Background()}, rg.id)
		} else {
			ch = router.NewIQResultRoute(ctx, rg.id)
		}
		wg.Add(1)
		go func() {
			defer wg.Done()
			take := func(iq stanza.IQ, ok bool) {
				if ok {
					mu.Lock()
					delivered = append(delivered, c06Attrs(string(iq.Type), iq.Id, iq.From, iq.To))
					mu.Unlock()
				}
			}
			select {
			case iq, ok := <-ch:
				take(iq, ok)
			case <-done:
				// the result channel is buffered: the value may be waiting although routing has returned
				select {
				case iq, ok := <-ch:
					take(iq, ok)
				default:
				}
			}
		}()
	}

	var tr *c06CutTransport
	nBefore := 0
	if in.Client != nil {
		// a real *Client on an established session, with stanzas sent (and, with stream management, held)
		cfg := &xmpp.Config{TransportConfiguration: xmpp.TransportConfiguration{Address: "localhost:1"}, Jid: "u@localhost",
			Credential: xmpp.Password("p"), StreamManagementEnable: in.Client.SM, Insecure: true}
		cl, err := xmpp.NewClient(cfg, router, func(error) {})
		if err != nil {
			return L(SBytes("newclient-failed"))
		}
		tr = &c06CutTransport{stubTransport: newStub(nil, nil)}
		xmpp.VerifSetTransport(cl, tr)
		sm := xmpp.SMState{}
		if in.Client.SM {
			sm = xmpp.SMState{Id: "sm", UnAckQueue: stanza.NewUnAckQueue()}
		}
		xmpp.VerifSetSession(cl, sm)
		for i := 0; i < in.Client.Held; i++ {
			msg := stanza.NewMessage(stanza.Attrs{To: "you@localhost", Type: stanza.MessageTypeChat})
			msg.Body = fmt.Sprint("m", i)
			_ = cl.Send(msg)
		}
		tr.mu2.Lock()
		tr.cut = in.Client.Cut
		tr.mu2.Unlock()
		tr.stubTransport.mu.Lock()
		nBefore = len(tr.stubTransport.writes)
		tr.stubTransport.mu.Unlock()
		xmpp.VerifRoute(router, cl, pkt)
		// what the router itself answers is an <iq type='error'/>; retransmissions and <r/> (C10) are not observed here
		tr.stubTransport.mu.Lock()
		for _, w := range tr.stubTransport.writes[nBefore:] {
			if strings.HasPrefix(strings.TrimSpace(w.Data), "<iq") {
				sender.sent = append(sender.sent, L(Z(99), SBytes("iq-written")))
			}
		}
		tr.stubTransport.mu.Unlock()
	} else {
		xmpp.VerifRoute(router, sender, pkt)
	}

	close(done)
	wg.Wait()
	var left []Sx
	router.IQResultRouteLock.RLock()
	for _, id := range in.Pending {
		if _, ok := router.IQResultRoutes[id]; ok {
			left = append(left, SBytes(id))
		}
	}
	var endedLeft []Sx
	for _, id := range in.Ended {
		if _, ok := router.IQResultRoutes[id]; ok {
			endedLeft = append(endedLeft, SBytes(id))
		}
	}
	router.IQResultRouteLock.RUnlock()
	sender.mu.Lock()
	defer sender.mu.Unlock()
	mu.Lock()
	defer mu.Unlock()
	return L(LS(log), LS(sender.sent), LS(sender.raws), Zi(sender.sendIQ), LS(delivered), LS(left), LS(endedLeft), Zi(rewritten))
}

// c06ModelArg: the model lower-cases ASCII only; an argument outside ASCII is handed to it as
// strings.ToLower returns it (idempotent under the model's own lower-casing).
func c06ModelArg(a string) string {
	if c06IsASCII(a) {
		return a
	}
	return strings.ToLower(a)
}

func c06Strs(xs []string) Sx {
	out := make([]Sx, len(xs))
	for i, x := range xs {
		out[i] = SBytes(x)
	}
	return LS(out)
}

func (c06) Input(inp interface{}) Sx {
	in := inp.(c06In)
	if in.Hist != nil {
		return c06HistInput(in)
	}
	routes := make([]Sx, len(in.Routes))
	for i, ms := range in.Routes {
		items := make([]Sx, len(ms))
		for j, m := range ms {
			switch m.K {
			case "packet":
				items[j] = L(Z(0), SBytes(c06ModelArg(m.A[0])))
			case "type":
				as := make([]string, len(m.A))
				for k, a := range m.A {
					as[k] = c06ModelArg(a)
				}
				items[j] = L(Z(1), c06Strs(as))
			default:
				items[j] = L(Z(2), c06Strs(m.A))
			}
		}
		routes[i] = LS(items)
	}
	f := c06FactsOf(c06Build(in.Pkt)) // namespace and Any as the implementation's value has them
	var p Sx
	switch f.kind {
	case 0, 1:
		p = L(Zi(f.kind), c06Attrs(f.typ, f.id, f.fr, f.to))
	case 2:
		p = L(Z(2), c06Attrs(f.typ, f.id, f.fr, f.to), Opt(f.hasPayload, SBytes(f.ns)), Opt(f.any, SBytes(f.anyNs)))
	default:
		if in.Pkt.Kind == "sma" {
			p = L(Z(3), Z(9)) // an SMAnswer, whatever its h: a non-stanza packet like the others
		} else {
			p = L(Z(3), Zi(in.Pkt.Other%len(c06Others)))
		}
	}
	return L(LS(routes), c06Strs(in.Pending), p, c06Strs(in.Ended))
}

// ---- direct oracle: the documented semantics, re-implemented here ---------------------

func c06InList(args []string, v string) bool {
	for _, a := range args {
		if strings.ToLower(a) == v {
			return true
		}
	}
	return false
}

func c06Accepts(ms []c06Matcher, f c06Facts) bool {
	for _, m := range ms {
		ok := false
		switch m.K {
		case "packet":
			name := [...]string{"message", "presence", "iq", ""}[f.kind]
			ok = strings.ToLower(m.A[0]) == name
		case "type":
			if f.kind != 3 {
				t := f.typ
				if f.kind == 0 && t == "" {
					t = "normal"
				}
				ok = c06InList(m.A, t)
			}
		case "ns":
			// the namespace of the IQ's payload, typed or generic, compared verbatim
			// (namespace names are case-sensitive)
			if f.kind == 2 && (f.hasPayload || f.any) {
				ns := f.ns
				if !f.hasPayload {
					ns = f.anyNs
				}
				for _, a := range m.A {
					if a == ns {
						ok = true
					}
				}
			}
		}
		if !ok {
			return false
		}
	}
	return true
}

type c06Want struct {
	endedHit   bool // a response whose id is that of an ended, not yet cleaned-up request (and of no live one)
	pendingHit bool
	first      int // first acceptable route, -1 none
	reply      bool
	verdicts   string
}

func c06Expect(in c06In, f c06Facts) c06Want {
	w := c06Want{first: -1}
	var vb strings.Builder
	for i, ms := range in.Routes {
		if c06Accepts(ms, f) {
			vb.WriteByte('+')
			if w.first < 0 {
				w.first = i
			}
		} else {
			vb.WriteByte('-')
		}
	}
	w.verdicts = vb.String()
	if f.kind == 2 && (f.typ == "result" || f.typ == "error") { // only a response can answer a pending request
		for _, id := range in.Pending {
			if id == f.id {
				w.pendingHit = true
			}
		}
	}
	if !w.pendingHit && f.kind == 2 && (f.typ == "result" || f.typ == "error") {
		for _, id := range in.Ended {
			if id == f.id {
				w.endedHit = true
			}
		}
	}
	w.reply = !w.pendingHit && w.first < 0 && f.kind == 2 && (f.typ == "get" || f.typ == "set")
	return w
}

func (c06) Oracle(inp interface{}, obs Sx) (string, string) {
	if in := inp.(c06In); in.Hist != nil {
		return c06HistOracle(in, obs)
	}
	if msg, sig := c06Judge(inp, obs); msg != "" {
		return msg, sig
	}
	// a builder neither modifies nor retains the slice its variadic arguments arrive in (the routing consequences of
	// a retained slice are judged above; this is the caller's own data)
	if n := obs.L[7].Z; n != 0 {
		return fmt.Sprintf("%d builder calls (StanzaType / IQNamespaces) rewrote the caller's argument slice", n), "caller-slice-rewritten"
	}
	return "", ""
}

func c06Judge(inp interface{}, obs Sx) (string, string) {
	in := inp.(c06In)
	f := c06FactsOf(c06Build(in.Pkt))
	w := c06Expect(in, f)
	if obs.K != "l" || len(obs.L) != 8 {
		return "malformed observation", "shape"
	}
	log, sent, raws, sendIQ, deliv, left := obs.L[0].L, obs.L[1].L, obs.L[2].L, obs.L[3].Z, obs.L[4].L, obs.L[5].L
	endedLeft := obs.L[6].L
	// the entries of ended requests: a response with such an id takes the stale entry away, nothing else touches them
	wantEndedLeft := 0
	for _, id := range in.Ended {
		if !(w.endedHit && id == f.id) {
			wantEndedLeft++
		}
	}
	if len(endedLeft) != wantEndedLeft {
		if w.endedHit {
			return fmt.Sprintf("response with the id %q of a request that has ended: its stale entry is still registered", f.id), "ended-not-removed"
		}
		return "packet that answers no request removed the entry of an ended request", "ended-spurious"
	}
	if w.endedHit && len(deliv) != 0 {
		return fmt.Sprintf("response with the id %q of a request whose context has ended was delivered to a request", f.id), "ended-delivered"
	}
	if len(raws) != 0 || sendIQ != 0 {
		return fmt.Sprintf("router called SendRaw %d times, SendIQ %d times", len(raws), sendIQ), "raw-or-sendiq"
	}
	if w.pendingHit {
		// sequential part of the IQ-result table: handed to the waiting request only
		if len(log) != 0 || len(sent) != 0 {
			return "IQ with a pending id also reached a route handler or got a reply", "pending-also-routed"
		}
		if len(deliv) != 1 || string(bytesOf(deliv[0].L[1])) != f.id || string(bytesOf(deliv[0].L[0])) != f.typ {
			return fmt.Sprintf("IQ with pending id %q delivered %d times to the waiting request", f.id, len(deliv)), "pending-delivery"
		}
		for _, x := range left {
			if string(bytesOf(x)) == f.id {
				return "pending id still registered after delivery", "pending-not-removed"
			}
		}
		return "", ""
	}
	if len(deliv) != 0 && f.kind == 2 && (f.typ == "get" || f.typ == "set") {
		return fmt.Sprintf("IQ %s request whose id %q equals the id of a pending SendIQ request was handed to that request as its response (%d handlers ran, %d replies sent)", f.typ, f.id, len(log), len(sent)), "request-taken-for-response"
	}
	if len(deliv) != 0 || len(left) != len(in.Pending) {
		return "packet that answers no pending request touched the IQ-result table", "pending-spurious"
	}
	if w.first >= 0 {
		if len(log) != 1 {
			return fmt.Sprintf("route %d is the first acceptable one (verdicts %s) but %d handlers ran", w.first, w.verdicts, len(log)), fmt.Sprintf("handler-count-%d", c06Min(len(log), 2))
		}
		if got := int(log[0].L[0].Z); got != w.first {
			return fmt.Sprintf("handler of route %d ran, first acceptable route is %d (verdicts %s)", got, w.first, w.verdicts), "wrong-route"
		}
		if log[0].L[1].Z != 1 {
			return "handler was not given the routed packet", "handler-args"
		}
		if len(sent) != 0 {
			return "router sent a reply for a packet a route handled", "reply-on-match"
		}
		return "", ""
	}
	if len(log) != 0 {
		return fmt.Sprintf("no route accepts (verdicts %s) but handler of route %d ran", w.verdicts, log[0].L[0].Z), "handler-on-no-match"
	}
	if !w.reply {
		if len(sent) != 0 {
			return fmt.Sprintf("unmatched packet (kind %d type %q) got %d replies", f.kind, f.typ, len(sent)), "spurious-reply"
		}
		return "", ""
	}
	if len(sent) != 1 {
		return fmt.Sprintf("unmatched IQ %s got %d replies, expected exactly one", f.typ, len(sent)), fmt.Sprintf("reply-count-%d", c06Min(len(sent), 2))
	}
	r := sent[0]
	if r.L[0].Z != 2 {
		return "reply is not an IQ", "reply-kind"
	}
	a := r.L[1].L
	str := func(x Sx) string { return string(bytesOf(x)) }
	if str(a[0]) != "error" {
		return "reply type is " + str(a[0]), "reply-type"
	}
	if str(a[1]) != f.id {
		return fmt.Sprintf("reply id %q, request id %q", str(a[1]), f.id), "reply-id"
	}
	if str(a[2]) != f.to || str(a[3]) != f.fr {
		return fmt.Sprintf("reply from/to %q/%q, request from/to %q/%q", str(a[2]), str(a[3]), f.fr, f.to), "reply-addressing"
	}
	if cond := str(r.L[2]); cond != "feature-not-implemented" {
		return fmt.Sprintf("reply error condition is %q, expected feature-not-implemented", cond), "reply-condition"
	}
	return "", ""
}

func c06Min(a, b int) int {
	if a < b {
		return a
	}
	return b
}

func (c06) Key(inp interface{}) (string, bool) {
	in := inp.(c06In)
	if in.Hist != nil {
		return c06HistKey(in)
	}
	f := c06FactsOf(c06Build(in.Pkt))
	w := c06Expect(in, f)
	var b strings.Builder
	for i, ms := range in.Routes {
		for _, m := range ms {
			b.WriteByte(m.K[0])
		}
		b.WriteByte(w.verdicts[i])
		b.WriteByte(',')
	}
	cls := [...]string{"message", "presence", "iq", "other"}[f.kind]
	typ := f.typ
	if typ == "" {
		typ = "(none)"
	}
	pl := ""
	if f.kind == 2 {
		switch {
		case !f.hasPayload && !f.any:
			pl = "/nopayload"
		case !f.hasPayload:
			pl = "/any-only"
		case f.any:
			pl = "/payload+any"
		default:
			pl = "/payload"
		}
		if f.hasPayload && f.ns == "" {
			pl += "(ns empty)"
		}
	}
	fmt.Fprintf(&b, "|%s/%s%s|%v%v", cls, typ, pl, w.pendingHit, w.endedHit)
	if in.Share {
		b.WriteString("|shared-slice")
		hist("builder-args:one re-used slice")
	}
	if in.Client != nil {
		fmt.Fprintf(&b, "|client%v%v%v", in.Client.SM, in.Client.Cut, in.Pkt.Kind == "sma" && int(in.Pkt.H) < in.Client.Held)
	}
	hist(fmt.Sprintf("routes:%d", len(in.Routes)))
	if f.kind == 3 {
		hist("pkt:other")
	} else {
		hist("pkt:" + cls + "/" + typ + pl)
	}
	switch {
	case w.pendingHit:
		hist("outcome:pending-request")
	case w.endedHit && w.first >= 0:
		hist("outcome:ended-request-response-routed")
	case w.endedHit:
		hist("outcome:ended-request-response-unmatched")
	case w.first == 0:
		hist("outcome:route-0")
	case w.first > 0:
		hist("outcome:route-later")
	case w.reply:
		hist("outcome:unmatched-error-reply")
	default:
		hist("outcome:unmatched-silent")
	}
	for _, ms := range in.Routes {
		if len(ms) == 0 {
			hist("route:catch-all")
		}
		for _, m := range ms {
			hist("matcher:" + m.K)
			for _, a := range m.A {
				if m.K != "ns" && !c06IsASCII(a) {
					hist("matcher-arg:non-ascii")
				}
			}
		}
	}
	if in.Client != nil {
		hist(fmt.Sprintf("sender:*Client sm=%v cut=%v", in.Client.SM, in.Client.Cut))
		if in.Pkt.Kind == "sma" {
			switch {
			case int(in.Pkt.H) < in.Client.Held && in.Pkt.H < 1<<30:
				hist("sma:h-below-held (retransmission)")
			default:
				hist("sma:h-covers-all")
			}
		}
	}
	if f.kind == 3 && in.Pkt.Kind != "sma" && in.Pkt.Other%len(c06Others) == 9 {
		hist("pkt:other/SMAnswer")
	}
	nt := len(in.Routes) >= 2 && !w.pendingHit && (w.first > 0 || w.reply)
	if len(in.Ended) > 0 {
		hist("ended-requests:present")
	}
	return b.String(), nt
}

// ---- generation ------------------------------------------------------------------------

var (
	c06Names    = []string{"message", "presence", "iq", "Message", "PRESENCE", "IQ", "Iq", "", "foo", "stream:error", "a", "\u0130Q", "\u0130q", "me\u017f\u017fage", "PRE\u017fENCE", "i\u0307q", "\u00c9", "\u212a"}
	c06MsgTypes = []string{"", "chat", "normal", "error", "groupchat", "headline", "Chat", "get", "\u00e9", "k"}
	c06PrTypes  = []string{"", "unavailable", "subscribe", "error", "probe", "subscribed", "Unavailable"}
	c06IQTypes  = []string{"get", "set", "result", "error", "get", "set", "", "GET", "Set", "chat"}
	c06TypeArgs = []string{"chat", "CHAT", "normal", "Normal", "error", "Error", "get", "GET", "set", "Set", "result", "RESULT",
		"unavailable", "subscribe", "", "groupchat", "headline", "probe", "bogus",
		"headl\u0130ne", "\u00c9", "\u00e9", "\u212a", "re\u017fult", "\u017fet", "CHAT\u00c9"}
	c06NsArgs = []string{stanza.NSDiscoInfo, "HTTP://JABBER.ORG/protocol/disco#info", "http://jabber.org/protocol/disco#items",
		"jabber:iq:version", "JABBER:IQ:VERSION", "Jabber:Iq:Roster", "jabber:iq:roster", "", "urn:custom", "urn:Custom", "URN:X", "urn:other",
		"urn:xmpp:ping", "vcard-temp", "urn:example:MyApp:Orders", "urn:example:myapp:orders", "urn:any", "urn:Custom:NS", "urn:x"}
	c06Payloads = []string{"", "", "disco", "items", "version", "roster", "disco0", "version0", "pubsub0",
		"custom:urn:custom", "custom:urn:Custom", "custom:", "custom:urn:x", "custom:jabber:iq:version",
		"xml:<query xmlns='jabber:iq:version'/>", "xml:<query xmlns='http://jabber.org/protocol/disco#info'><feature var='a'/></query>",
		"xml:<foo xmlns='urn:Custom:NS'/>", "xml:<query xmlns='jabber:iq:version'/><foo xmlns='urn:x'>t</foo>",
		"xml:<query xmlns='JABBER:IQ:VERSION'/>", "xml:", "xml:<query xmlns='jabber:iq:roster'><item jid='a@b'/></query>",
		"xml:<ping xmlns='urn:xmpp:ping'/>", "xml:<vCard xmlns='vcard-temp'/>", "xml:<order xmlns='urn:example:MyApp:Orders'><n>1</n></order>",
		"custom:urn:example:MyApp:Orders", "xml:<getForm xmlns='urn:xmpp:iot:control'/>", "deep:40"}
	c06Ids  = []string{"", "1", "abc", "id-7", "1"}
	c06Jids = []string{"", "a@b/c", "srv.example", "Romeo@Montague.lit/Orchard", "é@x"}
)

func c06MixCase(r *rand.Rand, s string) string {
	switch r.Intn(5) {
	case 0:
		return strings.ToUpper(s)
	case 1:
		b := []byte(s)
		for i := range b {
			if r.Intn(2) == 0 && b[i] >= 'a' && b[i] <= 'z' {
				b[i] -= 32
			}
		}
		return string(b)
	}
	return s
}

func c06IsASCII(s string) bool {
	for i := 0; i < len(s); i++ {
		if s[i] >= 0x80 {
			return false
		}
	}
	return true
}

func c06GenPkt(r *rand.Rand) c06Pkt {
	p := c06Pkt{Id: c06Ids[r.Intn(len(c06Ids))], From: c06Jids[r.Intn(len(c06Jids))], To: c06Jids[r.Intn(len(c06Jids))]}
	switch c := r.Intn(20); {
	case c < 4:
		p.Kind, p.Type = "message", c06MsgTypes[r.Intn(len(c06MsgTypes))]
	case c < 7:
		p.Kind, p.Type = "presence", c06PrTypes[r.Intn(len(c06PrTypes))]
	case c < 18:
		p.Kind, p.Type = "iq", c06IQTypes[r.Intn(len(c06IQTypes))]
		p.Payload = c06Payloads[r.Intn(len(c06Payloads))]
		p.Any = r.Intn(4) == 0
	default:
		p = c06Pkt{Kind: "other", Other: r.Intn(len(c06Others))}
	}
	return p
}

func c06GenMatcher(r *rand.Rand, f c06Facts) c06Matcher {
	fit := r.Intn(2) == 0 // aim at the packet (in some letter case), else anything from the pools
	pick := func(pool []string, fitting string, canFit bool) string {
		if fit && canFit && c06IsASCII(fitting) {
			return c06MixCase(r, fitting)
		}
		return pool[r.Intn(len(pool))]
	}
	args := func(pool []string, fitting string, canFit bool) []string {
		n := 1 + r.Intn(3)
		out := make([]string, n)
		for i := range out {
			out[i] = pool[r.Intn(len(pool))]
		}
		out[r.Intn(n)] = pick(pool, fitting, canFit)
		return out
	}
	switch r.Intn(3) {
	case 0:
		name := [...]string{"message", "presence", "iq", ""}[f.kind]
		return c06Matcher{K: "packet", A: []string{pick(c06Names, name, true)}}
	case 1:
		t := f.typ
		if f.kind == 0 && t == "" {
			t = "normal"
		}
		return c06Matcher{K: "type", A: args(c06TypeArgs, t, f.kind != 3)}
	default:
		// namespaces are compared verbatim: aim at the payload's namespace exactly, or (one time
		// in four) at a differently-cased spelling of it, which names another namespace
		ns := f.ns
		if !f.hasPayload {
			ns = f.anyNs
		}
		n := 1 + r.Intn(3)
		out := make([]string, n)
		for i := range out {
			out[i] = c06NsArgs[r.Intn(len(c06NsArgs))]
		}
		if fit && (f.hasPayload || f.any) {
			if r.Intn(4) == 0 {
				ns = c06MixCase(r, ns)
			}
			out[r.Intn(n)] = ns
		}
		return c06Matcher{K: "ns", A: out}
	}
}

func (c06) Gen(r *rand.Rand, tier string) []interface{} {
	n := 3000
	if tier == "thorough" {
		n = 60000
	}
	pm := func(k string, a ...string) c06Matcher { return c06Matcher{K: k, A: a} }
	get := c06Pkt{Kind: "iq", Type: "get", Id: "1", From: "a@b/c", To: "srv.example", Payload: "disco"}
	out := []interface{}{
		c06In{Routes: [][]c06Matcher{}, Pkt: get},                                                    // empty table, request
		c06In{Routes: [][]c06Matcher{}, Pkt: c06Pkt{Kind: "iq", Type: "result", Id: "1", From: "a"}}, // empty table, response
		c06In{Routes: [][]c06Matcher{}, Pkt: c06Pkt{Kind: "message", Type: "chat"}},
		c06In{Routes: [][]c06Matcher{}, Pkt: c06Pkt{Kind: "other", Other: 0}},
		c06In{Routes: [][]c06Matcher{{}, {pm("packet", "iq")}}, Pkt: get}, // catch-all shadows the exact route
		c06In{Routes: [][]c06Matcher{{pm("packet", "message")}, {pm("packet", "IQ"), pm("type", "SET")}, {pm("packet", "Iq"), pm("type", "Get"), pm("ns", strings.ToUpper(stanza.NSDiscoInfo))}, {}}, Pkt: get},
		c06In{Routes: [][]c06Matcher{{pm("type", "normal")}}, Pkt: c06Pkt{Kind: "message"}}, // default message type
		c06In{Routes: [][]c06Matcher{{pm("type", "")}}, Pkt: c06Pkt{Kind: "message"}},       // "" is not the type of an untyped message
		c06In{Routes: [][]c06Matcher{{pm("type", "")}}, Pkt: c06Pkt{Kind: "presence"}},      // but it is of an untyped presence
		c06In{Routes: [][]c06Matcher{{pm("ns", "")}}, Pkt: c06Pkt{Kind: "iq", Type: "set", Id: "2", Payload: "disco0"}},
		c06In{Routes: [][]c06Matcher{{pm("ns", "")}}, Pkt: c06Pkt{Kind: "iq", Type: "set", Id: "2", From: "x", To: "y"}},
		c06In{Routes: [][]c06Matcher{{pm("ns", "urn:Custom")}}, Pkt: c06Pkt{Kind: "iq", Type: "get", Id: "3", Payload: "custom:urn:Custom"}},                                                                                                     // namespaces are case-sensitive: matches verbatim
		c06In{Routes: [][]c06Matcher{{pm("ns", "urn:custom")}, {}}, Pkt: c06Pkt{Kind: "iq", Type: "get", Id: "3", Payload: "custom:urn:Custom"}},                                                                                                 // and only verbatim
		c06In{Routes: [][]c06Matcher{{pm("packet", "iq"), pm("type", "get"), pm("ns", "urn:xmpp:ping")}, {}}, Pkt: c06Pkt{Kind: "iq", Type: "get", Id: "ping1", From: "a@b/c", To: "srv.example", Payload: "xml:<ping xmlns='urn:xmpp:ping'/>"}}, // payload type unknown to the registry
		c06In{Routes: [][]c06Matcher{{pm("ns", "urn:xmpp:ping")}}, Pkt: c06Pkt{Kind: "iq", Type: "set", Id: "p2", From: "a", To: "b", Payload: "xml:<vCard xmlns='vcard-temp'/>"}},
		c06In{Routes: [][]c06Matcher{{pm("packet", "")}}, Pkt: c06Pkt{Kind: "other", Other: 2}},
		c06In{Routes: [][]c06Matcher{{pm("packet", "iq")}}, Pending: []string{"1"}, Pkt: get},                                                             // a request carrying the id of a pending request is still a request
		c06In{Routes: [][]c06Matcher{{pm("packet", "message")}}, Pending: []string{"1"}, Pkt: get},                                                        // ... and unmatched, is answered
		c06In{Routes: [][]c06Matcher{{pm("packet", "iq")}}, Pending: []string{"1"}, Pkt: c06Pkt{Kind: "iq", Type: "error", Id: "1", From: "srv.example"}}, // a response with a pending id goes to the request
		c06In{Routes: [][]c06Matcher{{pm("packet", "iq")}}, Pending: []string{"1"}, Pkt: c06Pkt{Kind: "message", Id: "1"}},
		c06In{Routes: [][]c06Matcher{{pm("packet", "message")}}, Pending: []string{"2", "1"}, Pkt: c06Pkt{Kind: "iq", Type: "result", Id: "1"}},
		// names outside ASCII that strings.ToLower folds onto the packet names / types
		c06In{Routes: [][]c06Matcher{{pm("packet", "\u0130Q")}, {}}, Pkt: get},
		c06In{Routes: [][]c06Matcher{{pm("packet", "me\u017f\u017fage")}, {}}, Pkt: c06Pkt{Kind: "message", Type: "chat"}},
		c06In{Routes: [][]c06Matcher{{pm("type", "headl\u0130ne", "\u017fet")}, {}}, Pkt: c06Pkt{Kind: "message", Type: "headline"}},
		c06In{Routes: [][]c06Matcher{{pm("type", "\u00c9")}, {}}, Pkt: c06Pkt{Kind: "message", Type: "\u00e9"}},
		c06In{Routes: [][]c06Matcher{{pm("packet", "i\u0307q")}, {pm("packet", "iq")}}, Pkt: get},
		// an SMAnswer is routed like any other non-stanza packet
		c06In{Routes: [][]c06Matcher{{pm("packet", "iq")}, {pm("packet", "")}, {}}, Pkt: c06Pkt{Kind: "other", Other: 9}},
		c06In{Routes: [][]c06Matcher{{pm("type", "get")}}, Pkt: c06Pkt{Kind: "other", Other: 9}},
		// type lists handed to StanzaType through one slice the caller re-uses (f(buf...)) and then overwrites: each route
		// keeps the types it was given (hunt2-C06/f1)
		c06In{Share: true, Routes: [][]c06Matcher{{pm("packet", "iq"), pm("type", "get")}, {pm("packet", "iq"), pm("type", "set")}}, Pkt: get},
		c06In{Share: true, Routes: [][]c06Matcher{{pm("packet", "iq"), pm("type", "get")}, {pm("packet", "iq"), pm("type", "set")}}, Pkt: c06Pkt{Kind: "iq", Type: "set", Id: "2", From: "a@b/c", To: "srv.example", Payload: "roster"}},
		c06In{Share: true, Routes: [][]c06Matcher{{pm("type", "chat", "groupchat")}, {pm("type", "headline", "error")}, {}}, Pkt: c06Pkt{Kind: "message", Type: "chat"}},
		c06In{Share: true, Routes: [][]c06Matcher{{pm("type", "Chat")}, {pm("ns", "jabber:iq:version"), pm("type", "GET", "set")}}, Pkt: c06Pkt{Kind: "iq", Type: "get", Id: "3", Payload: "version"}},
		c06In{Routes: [][]c06Matcher{{pm("type", "Chat", "NORMAL")}}, Pkt: c06Pkt{Kind: "message"}}, // the caller's own slice {"Chat","NORMAL"} stays as it is
		// the Sender is a real *Client holding unacknowledged stanzas: an <a/> is applied to its session first and then dispatched
		// like every received packet, also when the retransmission it triggers cannot be written (seeded C06-mut8)
		c06In{Routes: [][]c06Matcher{{pm("packet", "iq")}, {pm("packet", "presence")}, {}}, Client: &c06Client{SM: true, Held: 3, Cut: true}, Pkt: c06Pkt{Kind: "sma", H: 1}},
		c06In{Routes: [][]c06Matcher{{pm("packet", "iq")}, {pm("packet", "")}, {}}, Client: &c06Client{SM: true, Held: 3, Cut: true}, Pkt: c06Pkt{Kind: "sma", H: 2}},
		c06In{Routes: [][]c06Matcher{{}}, Client: &c06Client{SM: true, Held: 3}, Pkt: c06Pkt{Kind: "sma", H: 1}},
		c06In{Routes: [][]c06Matcher{{pm("type", "get")}, {}}, Client: &c06Client{SM: true, Held: 2, Cut: true}, Pkt: c06Pkt{Kind: "sma", H: 2}},
		c06In{Routes: [][]c06Matcher{{pm("packet", "message")}}, Client: &c06Client{SM: true, Held: 2, Cut: true}, Pkt: c06Pkt{Kind: "sma", H: 0}},
		c06In{Routes: [][]c06Matcher{{pm("packet", "iq")}}, Client: &c06Client{SM: true, Held: 1, Cut: true}, Pkt: get},
		// a response for a request that has ended (entry not yet cleaned up) is a packet like any other: first matching route, once
		c06In{Routes: [][]c06Matcher{{pm("packet", "iq")}}, Ended: []string{"1"}, Pkt: c06Pkt{Kind: "iq", Type: "result", Id: "1", From: "srv.example"}},
		c06In{Routes: [][]c06Matcher{{pm("packet", "message")}, {pm("packet", "iq"), pm("type", "result", "error"), pm("ns", "jabber:iq:version")}, {pm("packet", "iq")}, {}}, Ended: []string{"abc"}, Pending: []string{"1"}, Pkt: c06Pkt{Kind: "iq", Type: "result", Id: "abc", From: "srv.example", Payload: "version"}},
		c06In{Routes: [][]c06Matcher{{pm("type", "get")}, {}}, Ended: []string{"1", "abc"}, Pkt: c06Pkt{Kind: "iq", Type: "error", Id: "abc", From: "a@b/c"}},
		c06In{Routes: [][]c06Matcher{{pm("packet", "message")}}, Ended: []string{"1"}, Pkt: c06Pkt{Kind: "iq", Type: "result", Id: "1"}},                      // no route accepts: silently dropped, entry gone
		c06In{Routes: [][]c06Matcher{{pm("packet", "iq")}}, Ended: []string{"1"}, Pkt: get},                                                                   // a request with that id: routed, the stale entry stays
		c06In{Routes: [][]c06Matcher{{pm("packet", "iq")}}, Ended: []string{"abc"}, Pending: []string{"1"}, Pkt: c06Pkt{Kind: "iq", Type: "result", Id: "1"}}, // the live request still takes its response
		c06In{Routes: [][]c06Matcher{{}}, Ended: []string{"1"}, Pkt: c06Pkt{Kind: "message", Id: "1"}},
	}
	// histories: routes registered after dispatching has begun (from inside a handler, from another goroutine while a
	// handler is still running, between dispatches), every call under a deadline
	out = append(out, c06HistFixed()...)
	nh := 400
	if tier == "thorough" {
		nh = 4000
	}
	for i := 0; i < nh; i++ {
		out = append(out, c06GenHist(r))
	}
	for i := 0; i < n; i++ {
		p := c06GenPkt(r)
		f := c06FactsOf(c06Build(p))
		nr := r.Intn(7)
		routes := make([][]c06Matcher, 0, nr)
		for j := 0; j < nr; j++ {
			if len(routes) > 0 && r.Intn(8) == 0 { // duplicate an earlier route
				src := routes[r.Intn(len(routes))]
				routes = append(routes, append([]c06Matcher{}, src...))
				continue
			}
			nm := 1 + r.Intn(3)
			if r.Intn(6) == 0 {
				nm = 0 // catch-all at a random position
			}
			ms := make([]c06Matcher, nm)
			for k := range ms {
				ms[k] = c06GenMatcher(r, f)
			}
			routes = append(routes, ms)
		}
		var pend []string
		if r.Intn(10) < 3 {
			cand := []string{"1", "abc", "id-7", "zz", ""}
			r.Shuffle(len(cand), func(a, b int) { cand[a], cand[b] = cand[b], cand[a] })
			pend = cand[:1+r.Intn(2)]
		}
		var ended []string
		if r.Intn(5) == 0 {
			// requests that have ended, under ids no live request uses (the table holds one entry per id)
			for _, id := range []string{"1", "abc", "id-7", "zz", ""} {
				live := false
				for _, q := range pend {
					live = live || q == id
				}
				if !live && len(ended) < 2 && r.Intn(2) == 0 {
					ended = append(ended, id)
				}
			}
		}
		var cl *c06Client
		if r.Intn(12) == 0 {
			cl = &c06Client{SM: r.Intn(4) != 0, Held: r.Intn(5), Cut: r.Intn(2) == 0}
			if r.Intn(3) != 0 {
				// an acknowledgement: of fewer stanzas than are held (a retransmission follows), of all, of more
				p = c06Pkt{Kind: "sma", H: uint(r.Intn(cl.Held + 2))}
				if r.Intn(10) == 0 {
					p.H = ^uint(0) >> uint(r.Intn(2))
				}
			}
			// (the route table was drawn for the packet before; a catch-all or Packet("") route is what accepts a nonza)
			if p.Kind == "sma" && r.Intn(2) == 0 {
				routes = append(routes, []c06Matcher{})
			}
			if p.Kind == "iq" && (p.Type == "get" || p.Type == "set") {
				cl = nil // the automatic reply of a *Client goes to its transport, not to a recording Sender: not observed here
			}
		}
		out = append(out, c06In{Routes: routes, Pending: pend, Ended: ended, Pkt: p, Client: cl, Share: r.Intn(4) == 0})
	}
	return out
}
