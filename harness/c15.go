package main

import (
	"encoding/json"
	"fmt"
	"math/rand"
	"strings"
	"unicode"

	"gosrc.io/xmpp/stanza"
)

// C15: stanza.NewJid / Jid.Full / Jid.Bare vs Model/Jid.v.
//
// Inputs are valid UTF-8 only (the model works on code points; Go's byte-level
// SplitN and rune-level IndexFunc agree with it exactly on valid UTF-8).
type c15In struct {
	S    string `json:"s"`              // the string handed to NewJid
	Kind string `json:"kind"`           // raw | parts | bad
	Form string `json:"form,omitempty"` // parts: ldr ld dr d; bad: the reason it is malformed
	L    string `json:"l,omitempty"`    // parts: the triple the string was built from
	D    string `json:"d,omitempty"`
	R    string `json:"r,omitempty"`
}

type c15 struct{}

func init() { register(c15{}) }

func (c15) ID() string    { return "C15" }
func (c15) RunFn() string { return "run_C15" }
func (c15) Workers() int  { return 8 }
func (c15) Rule() string {
	return "every string of length <= 4 over {a @ / space \" & U+00A0} (2801, exhaustive) + random (40% well-formed [l@]d[/r] built from triples over the accepted classes incl. non-ASCII and astral, resource with '/' '@' spaces; 30% built malformed: empty, empty local, empty domain, every Unicode space and every forbidden character (local part: the eight of RFC 7622 3.3.1; domain: @ / ' \" < > &) at a random position of local part or domain; 30% unstructured strings over ASCII, all rejected characters, all Unicode spaces, non-ASCII, astral); valid UTF-8 only; strings with a '/' before the first '@' are run but projected to a constant on both sides (outside the property); distinct = distinct input string; non-trivial = at least 3 code points and at least one '@' or '/'"
}

// ---- the property's character classes, written independently of /repo ----
// local part: the eight characters RFC 7622 section 3.3.1 forbids in a localpart;
// domain: the two separators and the five characters special in XML (no IP literal
// or IDNA name contains any of them; ':' is legal: IPv6 literals).
const c15LocalForbidden = "\"&'/:<>@"
const c15DomainForbidden = "\"&'/<>@"

func c15LocalOK(c rune) bool {
	return !unicode.IsSpace(c) && !strings.ContainsRune(c15LocalForbidden, c)
}
func c15DomainOK(c rune) bool {
	return !unicode.IsSpace(c) && !strings.ContainsRune(c15DomainForbidden, c)
}

func c15All(s string, ok func(rune) bool) bool {
	for _, c := range s {
		if !ok(c) {
			return false
		}
	}
	return true
}

var c15Spaces = func() []rune {
	var sp []rune
	for c := rune(0); c <= unicode.MaxRune; c++ {
		if unicode.IsSpace(c) {
			sp = append(sp, c)
		}
	}
	return sp
}()

// c15Ref: the property's reading of a string as [local@]domain[/resource], on the
// string alone.  asserted=false where the property says nothing: a '/' before the
// first '@', and an otherwise well-formed address ending in an empty resource.
type c15Ref struct {
	asserted bool
	accept   bool
	why      string // reason for rejection
	l, d, r  string
}

func c15RefParse(s string) c15Ref {
	if s == "" {
		return c15Ref{asserted: true, why: "empty"}
	}
	at, sl := strings.IndexByte(s, '@'), strings.IndexByte(s, '/')
	if at >= 0 && sl >= 0 && sl < at {
		return c15Ref{}
	}
	ref := c15Ref{asserted: true}
	rest := s
	if at >= 0 {
		ref.l, rest = s[:at], s[at+1:]
		if ref.l == "" {
			ref.why = "empty-local"
			return ref
		}
	}
	hasRes := false
	if k := strings.IndexByte(rest, '/'); k >= 0 {
		ref.d, ref.r, hasRes = rest[:k], rest[k+1:], true
	} else {
		ref.d = rest
	}
	switch {
	case ref.d == "":
		ref.why = "empty-domain"
	case !c15All(ref.l, c15LocalOK):
		ref.why = "bad-local"
	case !c15All(ref.d, c15DomainOK):
		ref.why = "bad-domain"
	case hasRes && ref.r == "":
		return c15Ref{} // "d/" : nothing asserted
	default:
		ref.accept = true
	}
	return ref
}

func c15SlashBeforeAt(s string) bool {
	at, sl := strings.IndexByte(s, '@'), strings.IndexByte(s, '/')
	return at >= 0 && sl >= 0 && sl < at
}

func c15Build(form, l, d, r string) string {
	switch form {
	case "ldr":
		return l + "@" + d + "/" + r
	case "ld":
		return l + "@" + d
	case "dr":
		return d + "/" + r
	default:
		return d
	}
}

// ---- generation ----
func c15Rune(r *rand.Rand) rune {
	for {
		var c rune
		switch r.Intn(12) {
		case 0, 1, 2, 3:
			c = rune("abcdefghijklmnopqrstuvwxyzABCXYZ0123456789.-_"[r.Intn(45)])
		case 4:
			c = rune(0x21 + r.Intn(0x7f-0x21))
		case 5:
			c = rune(r.Intn(0x20)) // controls, among them \t \n \v \f \r and the non-spaces 0x1c-0x1f
		case 6:
			c = rune(0x80 + r.Intn(0x180)) // Latin-1 (U+0085, U+00A0 are spaces) and Latin Extended
		case 7:
			c = rune(r.Intn(0x10000))
		case 8:
			c = rune(0x10000 + r.Intn(0x100000))
		case 9: // look like spaces but are not unicode.IsSpace, and neighbours of the space table
			pool := []rune{0x200b, 0x200c, 0x200d, 0x2060, 0xfeff, 0x180e, 0x1c, 0x1f, 0x7f, 0x84, 0x86, 0x9f, 0xa1, 0x167f, 0x1681, 0x1fff, 0x200b, 0x2027, 0x202a, 0x202e, 0x2030, 0x205e, 0x2060, 0x2fff, 0x3001, 0xfffd, 0xffff}
			c = pool[r.Intn(len(pool))]
		case 10:
			c = c15Spaces[r.Intn(len(c15Spaces))]
		default:
			c = rune(c15LocalForbidden[r.Intn(len(c15LocalForbidden))])
		}
		if c >= 0xd800 && c <= 0xdfff { // surrogates are not encodable
			continue
		}
		return c
	}
}

func c15Str(r *rand.Rand, min, max int, ok func(rune) bool) string {
	n := min + r.Intn(max-min+1)
	var b strings.Builder
	for i := 0; i < n; {
		c := c15Rune(r)
		if ok != nil && !ok(c) {
			continue
		}
		b.WriteRune(c)
		i++
	}
	return b.String()
}

func c15Insert(r *rand.Rand, s string, c rune) string {
	rs := []rune(s)
	k := r.Intn(len(rs) + 1)
	return string(rs[:k]) + string(c) + string(rs[k:])
}

func c15NoAt(c rune) bool { return c != '@' }

func (c15) Gen(r *rand.Rand, tier string) []interface{} {
	n := 5000
	if tier == "thorough" {
		n = 60000
	}
	var out []interface{}
	// exhaustive: every string of length <= 4 over this alphabet
	alpha := []string{"a", "@", "/", " ", "\"", "&", "\u00a0"}
	level := []string{""}
	for l := 0; l <= 4; l++ {
		for _, s := range level {
			out = append(out, c15In{S: s, Kind: "raw"})
		}
		var next []string
		for _, s := range level {
			for _, a := range alpha {
				next = append(next, s+a)
			}
		}
		level = next
	}
	// fixed: the cases of the repository's own tests and of finding D4
	for _, s := range []string{"d/r", "example.org/res/a b", "test@domain.com/my resource", "test@domain.com/a/b@c", "domain.com", "test@domain.com@otherdomain.com", "test@domain com/resource", "test@/r", "te:st@domain.com",
		"us&er@example.org", "user@exa'mple.org/res", "user@a&b.org", "user@x'><auth><a.b='/res", "[::1]", "u@[2001:db8::1]/r"} {
		out = append(out, c15In{S: s, Kind: "raw"})
	}
	for i := 0; i < n; i++ {
		switch k := r.Intn(10); {
		case k < 4: // well-formed, built from a triple over the accepted classes
			form := []string{"ldr", "ld", "dr", "d"}[r.Intn(4)]
			in := c15In{Kind: "parts", Form: form}
			in.D = c15Str(r, 1, 8, c15DomainOK)
			if form == "ldr" || form == "ld" {
				in.L = c15Str(r, 1, 8, c15LocalOK)
			}
			switch form {
			case "ldr": // anything, '/' '@' and spaces included
				in.R = c15Str(r, 1, 10, nil)
				if r.Intn(3) == 0 {
					in.R = c15Insert(r, c15Insert(r, in.R, '/'), '@')
				}
			case "dr": // free of '@'
				in.R = c15Str(r, 1, 10, c15NoAt)
				if r.Intn(3) == 0 {
					in.R = c15Insert(r, in.R, '/')
				}
			}
			in.S = c15Build(form, in.L, in.D, in.R)
			out = append(out, in)
		case k < 7: // built to be malformed
			l := c15Str(r, 1, 6, c15LocalOK)
			d := c15Str(r, 1, 6, c15DomainOK)
			res := c15Str(r, 0, 6, c15NoAt)
			tail := ""
			if r.Intn(2) == 0 {
				tail = "/" + res
			}
			in := c15In{Kind: "bad"}
			switch r.Intn(10) {
			case 8: // a character special in XML in the domain, with a local part
				in.Form, in.S = "bad-domain", l+"@"+c15Insert(r, d, rune("'\"<>&"[r.Intn(5)]))+tail
			case 9: // the same in a bare domain
				in.Form, in.S = "bad-domain", c15Insert(r, d, rune("'\"<>&"[r.Intn(5)]))+tail
			case 0:
				in.Form, in.S = "empty-local", "@"+c15Str(r, 0, 8, nil)
			case 1:
				in.Form, in.S = "empty-domain", l+"@"
			case 2:
				in.Form, in.S = "empty-domain", l+"@/"+c15Str(r, 0, 8, nil)
			case 3: // a space in the local part
				in.Form, in.S = "bad-local", c15Insert(r, l, c15Spaces[r.Intn(len(c15Spaces))])+"@"+d+tail
			case 4: // a forbidden character in the local part ('@' and '/' cannot be "in" it)
				in.Form, in.S = "bad-local", c15Insert(r, l, rune("'\":<>&"[r.Intn(6)]))+"@"+d+tail
			case 5: // a space in the domain, with a local part
				in.Form, in.S = "bad-domain", l+"@"+c15Insert(r, d, c15Spaces[r.Intn(len(c15Spaces))])+tail
			case 6: // a second '@', in the domain
				in.Form, in.S = "bad-domain", l+"@"+c15Insert(r, d, '@')+tail
			default: // a space in a bare domain
				in.Form, in.S = "bad-domain", c15Insert(r, d, c15Spaces[r.Intn(len(c15Spaces))])+tail
			}
			out = append(out, in)
		default: // unstructured
			s := c15Str(r, 0, 12, nil)
			for j := r.Intn(3); j > 0; j-- { // make separators likelier
				s = c15Insert(r, s, rune("@/"[r.Intn(2)]))
			}
			out = append(out, c15In{S: s, Kind: "raw"})
		}
	}
	out = append(out, c15In{S: "", Kind: "bad", Form: "empty"})
	// keep invalid UTF-8 out (cannot arise from the generators above; replay files could carry it)
	kept := out[:0]
	for _, x := range out {
		if validUTF8(x.(c15In).S) {
			kept = append(kept, x)
		}
	}
	return kept
}

func (c15) Decode(raw json.RawMessage) (interface{}, error) {
	var in c15In
	err := json.Unmarshal(raw, &in)
	if err == nil && in.Kind == "" {
		in.Kind = "raw"
	}
	return in, err
}

// ---- running the implementation ----
func c15Res(j *stanza.Jid, err error) Sx {
	if err != nil {
		return L(Z(0))
	}
	if j == nil {
		return L(Z(97)) // nil Jid without an error: nothing the model can produce
	}
	return L(Z(1), SRunes(j.Node), SRunes(j.Domain), SRunes(j.Resource))
}

func (c15) Run(inp interface{}) Sx {
	in := inp.(c15In)
	j, err := stanza.NewJid(in.S)
	if c15SlashBeforeAt(in.S) {
		// outside the property (RFC 7622 and the library legitimately differ): the code is
		// run (a panic would still be seen) but nothing is observed
		if err == nil && j != nil {
			_, _ = j.Full(), j.Bare()
		}
		return L(Z(2))
	}
	if err != nil {
		return L(Z(0)) // the partially filled Jid returned with an error is not observed
	}
	if j == nil {
		return L(Z(97))
	}
	full, bare := j.Full(), j.Bare()
	return L(Z(1), SRunes(j.Node), SRunes(j.Domain), SRunes(j.Resource), SRunes(full), SRunes(bare),
		c15Res(stanza.NewJid(full)), c15Res(stanza.NewJid(bare)))
}

func (c15) Input(inp interface{}) Sx { return SRunes(inp.(c15In).S) }

// ---- direct oracle: the three clauses of the property on the implementation alone ----
func sxStr(x Sx) string {
	var b strings.Builder
	for _, v := range x.S {
		b.WriteRune(rune(v))
	}
	return b.String()
}

func (c15) Oracle(inp interface{}, obs Sx) (string, string) {
	in := inp.(c15In)
	if len(obs.L) == 1 && obs.L[0].Z == 2 && c15SlashBeforeAt(in.S) {
		return "", "" // outside the property
	}
	if len(obs.L) == 0 || (obs.L[0].Z != 0 && obs.L[0].Z != 1) || (obs.L[0].Z == 1 && len(obs.L) != 8) {
		return "unexpected observation shape", "shape"
	}
	ok := obs.L[0].Z == 1
	var n, d, res string
	if ok {
		n, d, res = sxStr(obs.L[1]), sxStr(obs.L[2]), sxStr(obs.L[3])
	}
	// clause 1 by construction: a string built from (l, d, r) over the accepted classes
	if in.Kind == "parts" && in.S == c15Build(in.Form, in.L, in.D, in.R) && in.D != "" &&
		c15All(in.L, c15LocalOK) && c15All(in.D, c15DomainOK) &&
		((in.Form == "ldr" || in.Form == "ld") == (in.L != "")) &&
		(in.Form != "dr" || !strings.Contains(in.R, "@")) && ((in.Form == "ldr" || in.Form == "dr") || in.R == "") {
		if !ok {
			return fmt.Sprintf("NewJid(%q) rejects the well-formed JID local=%q domain=%q resource=%q", in.S, in.L, in.D, in.R), "parts-rejected:" + in.Form
		}
		if n != in.L || d != in.D || res != in.R {
			return fmt.Sprintf("NewJid(%q) = {%q %q %q}, the parts are {%q %q %q}", in.S, n, d, res, in.L, in.D, in.R), "parts-wrong:" + in.Form
		}
	}
	// clauses 1 and 2 on the string alone
	ref := c15RefParse(in.S)
	if ref.asserted {
		switch {
		case ref.accept && !ok:
			return fmt.Sprintf("NewJid(%q) rejects [local@]domain[/resource] = {%q %q %q}", in.S, ref.l, ref.d, ref.r), "parts-rejected"
		case ref.accept && (n != ref.l || d != ref.d || res != ref.r):
			return fmt.Sprintf("NewJid(%q) = {%q %q %q}, the parts are {%q %q %q}", in.S, n, d, res, ref.l, ref.d, ref.r), "parts-wrong"
		case !ref.accept && ok:
			return fmt.Sprintf("NewJid(%q) accepts a malformed address (%s): {%q %q %q}", in.S, ref.why, n, d, res), "accepts-malformed:" + ref.why
		}
	}
	if in.Kind == "bad" && (!ref.asserted || ref.accept) {
		return fmt.Sprintf("harness: %q generated as malformed (%s) but the reference reading does not reject it", in.S, in.Form), "harness-inconsistent"
	}
	// clause 3: every accepted input (without '/' before the first '@') round-trips
	if ok && !c15SlashBeforeAt(in.S) {
		shape := "local"
		if n == "" {
			shape = "domain"
		}
		if res != "" {
			shape += "+resource"
		}
		full, bare := sxStr(obs.L[4]), sxStr(obs.L[5])
		rf, rb := obs.L[6], obs.L[7]
		if len(rf.L) != 4 || rf.L[0].Z != 1 || sxStr(rf.L[1]) != n || sxStr(rf.L[2]) != d || sxStr(rf.L[3]) != res {
			return fmt.Sprintf("NewJid(%q) = {%q %q %q}; Full() = %q; NewJid(Full()) = %s, not the same JID", in.S, n, d, res, full, c15Show(rf)), "roundtrip-full:" + shape
		}
		if len(rb.L) != 4 || rb.L[0].Z != 1 || sxStr(rb.L[1]) != n || sxStr(rb.L[2]) != d || sxStr(rb.L[3]) != "" {
			return fmt.Sprintf("NewJid(%q) = {%q %q %q}; Bare() = %q; NewJid(Bare()) = %s, not the bare JID", in.S, n, d, res, bare, c15Show(rb)), "roundtrip-bare:" + shape
		}
	}
	return "", ""
}

func c15Show(x Sx) string {
	if len(x.L) != 4 {
		return "error"
	}
	return fmt.Sprintf("{%q %q %q}", sxStr(x.L[1]), sxStr(x.L[2]), sxStr(x.L[3]))
}

func (c15) Key(inp interface{}) (string, bool) {
	in := inp.(c15In)
	hist("kind:" + in.Kind)
	if in.Form != "" {
		hist("form:" + in.Kind + "-" + in.Form)
	}
	ref := c15RefParse(in.S)
	switch {
	case !ref.asserted:
		hist("expect:nothing-asserted")
	case ref.accept:
		hist("expect:accept")
	default:
		hist("expect:reject-" + ref.why)
	}
	nr, ascii := 0, true
	for _, c := range in.S {
		nr++
		if c > 0x7f {
			ascii = false
		}
	}
	if !ascii {
		hist("chars:non-ascii")
	}
	switch {
	case nr <= 4:
		hist("len:0-4")
	case nr <= 12:
		hist("len:5-12")
	default:
		hist("len:13+")
	}
	return in.S, nr >= 3 && strings.ContainsAny(in.S, "@/")
}
