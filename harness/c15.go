package main

import (
	"encoding/hex"
	"encoding/json"
	"fmt"
	"math/rand"
	"strings"
	"unicode"
	"unicode/utf8"

	"gosrc.io/xmpp/stanza"
)

// C15: stanza.NewJid / Jid.Full / Jid.Bare vs Model/Jid.v.
//
// Inputs are arbitrary byte strings.  The model works on units: one code point per
// well-formed UTF-8 sequence, 0x110000+b for a byte b outside one (c15Units; the inverse
// is sxStr), so strings are compared byte-exactly also where they are not valid UTF-8.
type c15In struct {
	S    string    `json:"s"`              // the string handed to NewJid
	X    string    `json:"x,omitempty"`    // hex of the bytes of S when S is not valid UTF-8 (JSON cannot carry it)
	Kind string    `json:"kind"`           // raw | parts | bad | hist
	Form string    `json:"form,omitempty"` // parts: ldr ld dr d; bad: the reason it is malformed; hist: the family
	L    string    `json:"l,omitempty"`    // parts: the triple the string was built from
	D    string    `json:"d,omitempty"`
	R    string    `json:"r,omitempty"`
	H    []c15Step `json:"h,omitempty"` // hist: several calls in one process (c15h.go); S is unused
}

type c15 struct{}

func init() { register(c15{}) }

func (c15) ID() string    { return "C15" }
func (c15) RunFn() string { return "run_C15" }
func (c15) Workers() int  { return 8 }
func (c15) Rule() string {
	return "every string of length <= 4 over {a @ / space \" & U+00A0} (2801, exhaustive) + every string of <= 3 pieces over {a @ / 0x80 0xE2,0x80 0xC0,0xAF} (259, exhaustive; bytes outside well-formed UTF-8) + random (40% well-formed [l@]d[/r] built from triples over the accepted classes incl. non-ASCII and astral, resource with '/' '@' spaces; 30% built malformed: empty, empty local, empty domain, every Unicode space and every forbidden character (local part: the eight of RFC 7622 3.3.1; domain: @ / ' \" < > &) at a random position of local part or domain; 30% unstructured strings over ASCII, all rejected characters, all Unicode spaces, non-ASCII, astral); one case in six of each kind additionally gets 1-3 ill-formed UTF-8 pieces (lone continuation and lead bytes, 0xC0/0xC1/0xF5-0xFF, truncated sequences incl. the prefix of U+2028, overlong '/' and '@', encoded surrogates) spliced in at random places, compared byte-exactly; strings with a '/' before the first '@' are run but projected to a constant on both sides (outside the property); HISTORIES (several calls in one process; every call judged on its own string alone, and equal strings must show equal results): parse s, assign to a field of the returned Jid, parse s again - for 7 address shapes x 3 fields x 3 values exhaustively, and random (reparse after 1-3 rounds of assignments; the Full()/Bare() renderings parsed again after the holder reduced/redirected its Jid; 6-12 parses and assignments interleaved over 2-7 strings incl. each address's bare form and a malformed one; 2-6 goroutines x 2-4 rounds parsing the same and different strings while assigning to their own results, before and after sequential parses); each history uses strings of its own (domain label); distinct = distinct input string or history; non-trivial = at least 3 code points and at least one '@' or '/'"
}

// ---- the property's character classes, written independently of /repo ----
// local part: the eight characters RFC 7622 section 3.3.1 forbids in a localpart;
// domain: the two separators and the five characters special in XML (no IP literal
// or IDNA name contains any of them; ':' is legal: IPv6 literals).
const c15LocalForbidden = "\"&'/:<>@"
const c15DomainForbidden = "\"&'/<>@"

// white space: Unicode's White_Space property written out (25 code points), NOT the toolchain's
// unicode.IsSpace which the library calls and from which the model's table is dumped
// (Props/C15.v C15_space_table pins that dump to the same list).
var c15WhiteSpace = []rune{9, 10, 11, 12, 13, 32, 133, 160, 5760, 8192, 8193, 8194, 8195, 8196, 8197, 8198, 8199,
	8200, 8201, 8202, 8232, 8233, 8239, 8287, 12288}

func c15IsSpace(c rune) bool {
	for _, w := range c15WhiteSpace {
		if c == w {
			return true
		}
	}
	return false
}

func c15LocalOK(c rune) bool {
	return !c15IsSpace(c) && !strings.ContainsRune(c15LocalForbidden, c)
}
func c15DomainOK(c rune) bool {
	return !c15IsSpace(c) && !strings.ContainsRune(c15DomainForbidden, c)
}

// c15Units: Go's own reading of a byte string (utf8.DecodeRune), keeping the byte where it
// is not part of a well-formed sequence.
func c15Units(s string) Sx {
	v := make([]int64, 0, len(s))
	for i := 0; i < len(s); {
		c, w := utf8.DecodeRuneInString(s[i:])
		if c == utf8.RuneError && w == 1 {
			v = append(v, 0x110000+int64(s[i]))
		} else {
			v = append(v, int64(c))
		}
		i += w
	}
	return Sx{K: "s", S: v}
}

func c15Mk(in c15In) c15In {
	if !utf8.ValidString(in.S) {
		in.X = hex.EncodeToString([]byte(in.S))
	}
	return in
}

// ill-formed UTF-8 pieces
var c15IllFormed = []string{"\x80", "\xbf", "\xc2", "\xe2", "\xf0", "\xc0", "\xc1", "\xf5", "\xff", "\xfe",
	"\xe2\x80", "\xe2\x82", "\xf0\x9f\x98", "\xc0\xaf", "\xc1\x80", "\xe0\x80\xaf", "\xed\xa0\x80", "\xed\xbf\xbf", "\xf4\x90\x80\x80", "\xa8"}

// c15Splice inserts 1-3 ill-formed pieces at random BYTE positions (so a piece may also cut a
// well-formed sequence in two, leaving both halves ill-formed).
func c15Splice(r *rand.Rand, s string) string {
	for k := 1 + r.Intn(3); k > 0; k-- {
		p := r.Intn(len(s) + 1)
		s = s[:p] + c15IllFormed[r.Intn(len(c15IllFormed))] + s[p:]
	}
	return s
}

func c15All(s string, ok func(rune) bool) bool {
	for _, c := range s {
		if !ok(c) {
			return false
		}
	}
	return true
}

var c15Spaces = func() []rune {
	var sp []rune
	for c := rune(0); c <= unicode.MaxRune; c++ {
		if unicode.IsSpace(c) {
			sp = append(sp, c)
		}
	}
	return sp
}()

// c15Ref: the property's reading of a string as [local@]domain[/resource], on the
// string alone.  asserted=false where the property says nothing: a '/' before the
// first '@', and an otherwise well-formed address ending in an empty resource.
type c15Ref struct {
	asserted bool
	accept   bool
	why      string // reason for rejection
	l, d, r  string
}

func c15RefParse(s string) c15Ref {
	if s == "" {
		return c15Ref{asserted: true, why: "empty"}
	}
	at, sl := strings.IndexByte(s, '@'), strings.IndexByte(s, '/')
	if at >= 0 && sl >= 0 && sl < at {
		return c15Ref{}
	}
	ref := c15Ref{asserted: true}
	rest := s
	if at >= 0 {
		ref.l, rest = s[:at], s[at+1:]
		if ref.l == "" {
			ref.why = "empty-local"
			return ref
		}
	}
	hasRes := false
	if k := strings.IndexByte(rest, '/'); k >= 0 {
		ref.d, ref.r, hasRes = rest[:k], rest[k+1:], true
	} else {
		ref.d = rest
	}
	switch {
	case ref.d == "":
		ref.why = "empty-domain"
	case !c15All(ref.l, c15LocalOK):
		ref.why = "bad-local"
	case !c15All(ref.d, c15DomainOK):
		ref.why = "bad-domain"
	case hasRes && ref.r == "":
		return c15Ref{} // "d/" : nothing asserted
	default:
		ref.accept = true
	}
	return ref
}

func c15SlashBeforeAt(s string) bool {
	at, sl := strings.IndexByte(s, '@'), strings.IndexByte(s, '/')
	return at >= 0 && sl >= 0 && sl < at
}

func c15Build(form, l, d, r string) string {
	switch form {
	case "ldr":
		return l + "@" + d + "/" + r
	case "ld":
		return l + "@" + d
	case "dr":
		return d + "/" + r
	default:
		return d
	}
}

// ---- generation ----
func c15Rune(r *rand.Rand) rune {
	for {
		var c rune
		switch r.Intn(12) {
		case 0, 1, 2, 3:
			c = rune("abcdefghijklmnopqrstuvwxyzABCXYZ0123456789.-_"[r.Intn(45)])
		case 4:
			c = rune(0x21 + r.Intn(0x7f-0x21))
		case 5:
			c = rune(r.Intn(0x20)) // controls, among them \t \n \v \f \r and the non-spaces 0x1c-0x1f
		case 6:
			c = rune(0x80 + r.Intn(0x180)) // Latin-1 (U+0085, U+00A0 are spaces) and Latin Extended
		case 7:
			c = rune(r.Intn(0x10000))
		case 8:
			c = rune(0x10000 + r.Intn(0x100000))
		case 9: // look like spaces but are not unicode.IsSpace, and neighbours of the space table
			pool := []rune{0x200b, 0x200c, 0x200d, 0x2060, 0xfeff, 0x180e, 0x1c, 0x1f, 0x7f, 0x84, 0x86, 0x9f, 0xa1, 0x167f, 0x1681, 0x1fff, 0x200b, 0x2027, 0x202a, 0x202e, 0x2030, 0x205e, 0x2060, 0x2fff, 0x3001, 0xfffd, 0xffff}
			c = pool[r.Intn(len(pool))]
		case 10:
			c = c15Spaces[r.Intn(len(c15Spaces))]
		default:
			c = rune(c15LocalForbidden[r.Intn(len(c15LocalForbidden))])
		}
		if c >= 0xd800 && c <= 0xdfff { // surrogates are not encodable
			continue
		}
		return c
	}
}

func c15Str(r *rand.Rand, min, max int, ok func(rune) bool) string {
	n := min + r.Intn(max-min+1)
	var b strings.Builder
	for i := 0; i < n; {
		c := c15Rune(r)
		if ok != nil && !ok(c) {
			continue
		}
		b.WriteRune(c)
		i++
	}
	return b.String()
}

func c15Insert(r *rand.Rand, s string, c rune) string {
	rs := []rune(s)
	k := r.Intn(len(rs) + 1)
	return string(rs[:k]) + string(c) + string(rs[k:])
}

func c15NoAt(c rune) bool { return c != '@' }

func (c15) Gen(r *rand.Rand, tier string) []interface{} {
	n := 5000
	if tier == "thorough" {
		n = 60000
	}
	var out []interface{}
	// exhaustive: every string of length <= 4 over this alphabet
	alpha := []string{"a", "@", "/", " ", "\"", "&", "\u00a0"}
	level := []string{""}
	for l := 0; l <= 4; l++ {
		for _, s := range level {
			out = append(out, c15In{S: s, Kind: "raw"})
		}
		var next []string
		for _, s := range level {
			for _, a := range alpha {
				next = append(next, s+a)
			}
		}
		level = next
	}
	// exhaustive: every string of <= 3 pieces over an alphabet with bytes outside well-formed UTF-8
	// (a lone continuation byte, the two-byte prefix of U+2028 LINE SEPARATOR, an overlong '/')
	alphaX := []string{"a", "@", "/", "\x80", "\xe2\x80", "\xc0\xaf"}
	level = []string{""}
	for l := 0; l <= 3; l++ {
		for _, s := range level {
			out = append(out, c15Mk(c15In{S: s, Kind: "raw"}))
		}
		var next []string
		for _, s := range level {
			for _, a := range alphaX {
				next = append(next, s+a)
			}
		}
		level = next
	}
	for _, s := range []string{"u\xff@d", "u@d\xff/r", "u@d/\xff", "d\x80/r\x80", "\xe2\x80@\xa8", "u\xe2\x80\xa8@d", "u@d/\xe2\x80", "\xff", "\xff@\xfe/\xfd", "u\xc1\x80d", "u@d\xc0\xafr"} {
		out = append(out, c15Mk(c15In{S: s, Kind: "raw"}))
	}
	// fixed: the cases of the repository's own tests and of finding D4
	for _, s := range []string{"d/r", "example.org/res/a b", "test@domain.com/my resource", "test@domain.com/a/b@c", "domain.com", "test@domain.com@otherdomain.com", "test@domain com/resource", "test@/r", "te:st@domain.com",
		"us&er@example.org", "user@exa'mple.org/res", "user@a&b.org", "user@x'><auth><a.b='/res", "[::1]", "u@[2001:db8::1]/r"} {
		out = append(out, c15In{S: s, Kind: "raw"})
	}
	for i := 0; i < n; i++ {
		switch k := r.Intn(10); {
		case k < 4: // well-formed, built from a triple over the accepted classes
			form := []string{"ldr", "ld", "dr", "d"}[r.Intn(4)]
			in := c15In{Kind: "parts", Form: form}
			in.D = c15Str(r, 1, 8, c15DomainOK)
			if form == "ldr" || form == "ld" {
				in.L = c15Str(r, 1, 8, c15LocalOK)
			}
			switch form {
			case "ldr": // anything, '/' '@' and spaces included
				in.R = c15Str(r, 1, 10, nil)
				if r.Intn(3) == 0 {
					in.R = c15Insert(r, c15Insert(r, in.R, '/'), '@')
				}
			case "dr": // free of '@'
				in.R = c15Str(r, 1, 10, c15NoAt)
				if r.Intn(3) == 0 {
					in.R = c15Insert(r, in.R, '/')
				}
			}
			if r.Intn(6) == 0 { // bytes outside well-formed UTF-8 are ordinary characters of any part
				in.D = c15Splice(r, in.D)
				if in.L != "" && r.Intn(2) == 0 {
					in.L = c15Splice(r, in.L)
				}
				if in.R != "" && r.Intn(2) == 0 {
					in.R = c15Splice(r, in.R)
				}
			}
			in.S = c15Build(form, in.L, in.D, in.R)
			out = append(out, c15Mk(in))
		case k < 7: // built to be malformed
			l := c15Str(r, 1, 6, c15LocalOK)
			d := c15Str(r, 1, 6, c15DomainOK)
			res := c15Str(r, 0, 6, c15NoAt)
			tail := ""
			if r.Intn(2) == 0 {
				tail = "/" + res
			}
			in := c15In{Kind: "bad"}
			switch r.Intn(10) {
			case 8: // a character special in XML in the domain, with a local part
				in.Form, in.S = "bad-domain", l+"@"+c15Insert(r, d, rune("'\"<>&"[r.Intn(5)]))+tail
			case 9: // the same in a bare domain
				in.Form, in.S = "bad-domain", c15Insert(r, d, rune("'\"<>&"[r.Intn(5)]))+tail
			case 0:
				in.Form, in.S = "empty-local", "@"+c15Str(r, 0, 8, nil)
			case 1:
				in.Form, in.S = "empty-domain", l+"@"
			case 2:
				in.Form, in.S = "empty-domain", l+"@/"+c15Str(r, 0, 8, nil)
			case 3: // a space in the local part
				in.Form, in.S = "bad-local", c15Insert(r, l, c15Spaces[r.Intn(len(c15Spaces))])+"@"+d+tail
			case 4: // a forbidden character in the local part ('@' and '/' cannot be "in" it)
				in.Form, in.S = "bad-local", c15Insert(r, l, rune("'\":<>&"[r.Intn(6)]))+"@"+d+tail
			case 5: // a space in the domain, with a local part
				in.Form, in.S = "bad-domain", l+"@"+c15Insert(r, d, c15Spaces[r.Intn(len(c15Spaces))])+tail
			case 6: // a second '@', in the domain
				in.Form, in.S = "bad-domain", l+"@"+c15Insert(r, d, '@')+tail
			default: // a space in a bare domain
				in.Form, in.S = "bad-domain", c15Insert(r, d, c15Spaces[r.Intn(len(c15Spaces))])+tail
			}
			if r.Intn(6) == 0 { // a splice may repair the defect ("@d" -> "\x80@d"): judged on the string alone
				in = c15In{Kind: "raw", S: c15Splice(r, in.S)}
			}
			out = append(out, c15Mk(in))
		default: // unstructured
			s := c15Str(r, 0, 12, nil)
			for j := r.Intn(3); j > 0; j-- { // make separators likelier
				s = c15Insert(r, s, rune("@/"[r.Intn(2)]))
			}
			if r.Intn(6) == 0 {
				s = c15Splice(r, s)
			}
			out = append(out, c15Mk(c15In{S: s, Kind: "raw"}))
		}
	}
	out = append(out, c15In{S: "", Kind: "bad", Form: "empty"})
	out = append(out, c15GenHist(r, tier)...) // histories: several calls in one process
	return out
}

func (c15) Decode(raw json.RawMessage) (interface{}, error) {
	var in c15In
	err := json.Unmarshal(raw, &in)
	if err == nil && (in.Kind == "hist" || (in.Kind == "" && len(in.H) > 0)) {
		in.Kind = "hist"
		return in, c15CheckHist(in.H)
	}
	if err == nil && in.Kind == "" {
		in.Kind = "raw"
	}
	if err == nil && in.X != "" {
		b, herr := hex.DecodeString(in.X)
		if herr != nil {
			return in, herr
		}
		in.S = string(b)
		// the parts of a spliced triple cannot travel in JSON either: the case is then judged on the string alone
		if in.Kind == "parts" && in.S != c15Build(in.Form, in.L, in.D, in.R) {
			in.Kind, in.Form, in.L, in.D, in.R = "raw", "", "", "", ""
		}
	}
	return in, err
}

// ---- running the implementation ----
func c15Res(j *stanza.Jid, err error) Sx {
	if err != nil {
		return L(Z(0))
	}
	if j == nil {
		return L(Z(97)) // nil Jid without an error: nothing the model can produce
	}
	return L(Z(1), c15Units(j.Node), c15Units(j.Domain), c15Units(j.Resource))
}

func (c15) Run(inp interface{}) Sx {
	in := inp.(c15In)
	if in.Kind == "hist" {
		return c15RunHist(in.H)
	}
	j, err := stanza.NewJid(in.S)
	if c15SlashBeforeAt(in.S) {
		// outside the property (RFC 7622 and the library legitimately differ): the code is
		// run (a panic would still be seen) but nothing is observed
		if err == nil && j != nil {
			_, _ = j.Full(), j.Bare()
		}
		return L(Z(2))
	}
	if err != nil {
		return L(Z(0)) // the partially filled Jid returned with an error is not observed
	}
	if j == nil {
		return L(Z(97))
	}
	full, bare := j.Full(), j.Bare()
	return L(Z(1), c15Units(j.Node), c15Units(j.Domain), c15Units(j.Resource), c15Units(full), c15Units(bare),
		c15Res(stanza.NewJid(full)), c15Res(stanza.NewJid(bare)))
}

func (c15) Input(inp interface{}) Sx {
	if in := inp.(c15In); in.Kind == "hist" {
		return c15HistInput(in.H)
	}
	return c15Units(inp.(c15In).S)
}

// ---- direct oracle: the three clauses of the property on the implementation alone ----
func sxStr(x Sx) string { // inverse of c15Units
	var b strings.Builder
	for _, v := range x.S {
		if v >= 0x110000 {
			b.WriteByte(byte(v - 0x110000))
		} else {
			b.WriteRune(rune(v))
		}
	}
	return b.String()
}

func (c15) Oracle(inp interface{}, obs Sx) (string, string) {
	in := inp.(c15In)
	if in.Kind == "hist" {
		return c15HistOracle(in.H, obs)
	}
	if len(obs.L) == 1 && obs.L[0].Z == 2 && c15SlashBeforeAt(in.S) {
		return "", "" // outside the property
	}
	if len(obs.L) == 0 || (obs.L[0].Z != 0 && obs.L[0].Z != 1) || (obs.L[0].Z == 1 && len(obs.L) != 8) {
		return "unexpected observation shape", "shape"
	}
	ok := obs.L[0].Z == 1
	var n, d, res string
	if ok {
		n, d, res = sxStr(obs.L[1]), sxStr(obs.L[2]), sxStr(obs.L[3])
	}
	// clause 1 by construction: a string built from (l, d, r) over the accepted classes
	if in.Kind == "parts" && in.S == c15Build(in.Form, in.L, in.D, in.R) && in.D != "" &&
		c15All(in.L, c15LocalOK) && c15All(in.D, c15DomainOK) &&
		((in.Form == "ldr" || in.Form == "ld") == (in.L != "")) &&
		(in.Form != "dr" || !strings.Contains(in.R, "@")) && ((in.Form == "ldr" || in.Form == "dr") || in.R == "") {
		if !ok {
			return fmt.Sprintf("NewJid(%q) rejects the well-formed JID local=%q domain=%q resource=%q", in.S, in.L, in.D, in.R), "parts-rejected:" + in.Form
		}
		if n != in.L || d != in.D || res != in.R {
			return fmt.Sprintf("NewJid(%q) = {%q %q %q}, the parts are {%q %q %q}", in.S, n, d, res, in.L, in.D, in.R), "parts-wrong:" + in.Form
		}
	}
	// clauses 1 and 2 on the string alone
	ref := c15RefParse(in.S)
	if ref.asserted {
		switch {
		case ref.accept && !ok:
			return fmt.Sprintf("NewJid(%q) rejects [local@]domain[/resource] = {%q %q %q}", in.S, ref.l, ref.d, ref.r), "parts-rejected"
		case ref.accept && (n != ref.l || d != ref.d || res != ref.r):
			return fmt.Sprintf("NewJid(%q) = {%q %q %q}, the parts are {%q %q %q}", in.S, n, d, res, ref.l, ref.d, ref.r), "parts-wrong"
		case !ref.accept && ok:
			return fmt.Sprintf("NewJid(%q) accepts a malformed address (%s): {%q %q %q}", in.S, ref.why, n, d, res), "accepts-malformed:" + ref.why
		}
	}
	if in.Kind == "bad" && (!ref.asserted || ref.accept) {
		return fmt.Sprintf("harness: %q generated as malformed (%s) but the reference reading does not reject it", in.S, in.Form), "harness-inconsistent"
	}
	// clause 3: every accepted input (without '/' before the first '@') round-trips
	if ok && !c15SlashBeforeAt(in.S) {
		shape := "local"
		if n == "" {
			shape = "domain"
		}
		if res != "" {
			shape += "+resource"
		}
		full, bare := sxStr(obs.L[4]), sxStr(obs.L[5])
		rf, rb := obs.L[6], obs.L[7]
		// an accepted string is the rendering of what it was parsed to (byte for byte; "d/" and "l@d/" read as no resource)
		if full != in.S && !(res == "" && full+"/" == in.S) {
			return fmt.Sprintf("NewJid(%q) = {%q %q %q} but Full() = %q is not the input", in.S, n, d, res, full), "full-not-input:" + shape
		}
		if len(rf.L) != 4 || rf.L[0].Z != 1 || sxStr(rf.L[1]) != n || sxStr(rf.L[2]) != d || sxStr(rf.L[3]) != res {
			return fmt.Sprintf("NewJid(%q) = {%q %q %q}; Full() = %q; NewJid(Full()) = %s, not the same JID", in.S, n, d, res, full, c15Show(rf)), "roundtrip-full:" + shape
		}
		if len(rb.L) != 4 || rb.L[0].Z != 1 || sxStr(rb.L[1]) != n || sxStr(rb.L[2]) != d || sxStr(rb.L[3]) != "" {
			return fmt.Sprintf("NewJid(%q) = {%q %q %q}; Bare() = %q; NewJid(Bare()) = %s, not the bare JID", in.S, n, d, res, bare, c15Show(rb)), "roundtrip-bare:" + shape
		}
	}
	return "", ""
}

func c15Show(x Sx) string {
	if len(x.L) != 4 {
		return "error"
	}
	return fmt.Sprintf("{%q %q %q}", sxStr(x.L[1]), sxStr(x.L[2]), sxStr(x.L[3]))
}

func (c15) Key(inp interface{}) (string, bool) {
	in := inp.(c15In)
	if in.Kind == "hist" {
		return c15HistKey(in)
	}
	hist("kind:" + in.Kind)
	if in.Form != "" {
		hist("form:" + in.Kind + "-" + in.Form)
	}
	ref := c15RefParse(in.S)
	switch {
	case !ref.asserted:
		hist("expect:nothing-asserted")
	case ref.accept:
		hist("expect:accept")
	default:
		hist("expect:reject-" + ref.why)
	}
	nr, ascii := 0, true
	for _, c := range in.S {
		nr++
		if c > 0x7f {
			ascii = false
		}
	}
	if !ascii {
		hist("chars:non-ascii")
	}
	if !utf8.ValidString(in.S) {
		hist("chars:ill-formed-utf8")
	}
	switch {
	case nr <= 4:
		hist("len:0-4")
	case nr <= 12:
		hist("len:5-12")
	default:
		hist("len:13+")
	}
	return in.S, nr >= 3 && strings.ContainsAny(in.S, "@/")
}
