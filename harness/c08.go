package main

// C08: each Send / SendRaw / SendIQ puts exactly the serialised stanza on the wire
// once, whole, also concurrently; failed writes are reported.  Model: Model/Send.v.
//
// Seven case modes:
//   seq    op history on a real Client / Component over a recording transport whose
//          Write is XMPPTransport.Write's (readWriter = socket, or the real streamLogger
//          around socket + log), write faults (error after n bytes / short count) on
//          the socket and on the log
//   logger Write calls straight on xmpp.VerifStreamLogger(conn, log)
//   mem    concurrent senders on the in-memory recording transport
//   tcp    concurrent senders over the real XMPPTransport to a loopback TCP sink
//   wsfault op history over the real WebsocketTransport whose TCP connection is made to
//          fail every write from some op on (connection reset not yet noticed)
//   connect Client.Connect against a small negotiating server that resets the connection after
//          the bind result or not, with and without a PostConnectHook: Connect's own initial
//          presence is a send like any other
//   ws     concurrent senders over the real WebsocketTransport to a loopback
//          websocket sink (nhooyr.io/websocket, the module /repo uses)
//   held   concurrent senders (and, for a client, the keep-alive loop) of stanzas around and far above
//          the transport's packet size (32 KiB) over the real XMPPTransport on a net.Conn of the harness
//          that serialises whole Write calls as a net.Conn does and nothing more, and that holds every
//          caller back after its Write until another caller's Write went through (or a pause elapsed):
//          whatever of a send is not ONE Write call on the connection (or covered by a lock that every
//          writer takes) gets another writer's bytes in between, deterministically

import (
	"bufio"
	"bytes"
	"context"
	"encoding/json"
	"encoding/xml"
	"errors"
	"flag"
	"fmt"
	"io"
	"math/rand"
	"net"
	"net/http"
	"os"
	"sort"
	"strings"
	"sync"
	"sync/atomic"
	"time"

	xmpp "gosrc.io/xmpp"
	"gosrc.io/xmpp/stanza"
	"nhooyr.io/websocket"
)

type c08Op struct {
	K    string `json:"k"` // msg pres iq raw smr sma sendiq
	ID   string `json:"id,omitempty"`
	Typ  string `json:"typ,omitempty"`
	To   string `json:"to,omitempty"`
	From string `json:"from,omitempty"`
	Lang string `json:"lang,omitempty"`
	Seed int64  `json:"seed,omitempty"` // text content = c08Text(Seed, Len)
	Len  int    `json:"len,omitempty"`
	Raw  string `json:"raw,omitempty"` // raw: literal prefix put before the generated text
	H    uint   `json:"h,omitempty"`
}

type c08Fault struct {
	K    int `json:"k"`    // 0-based call number on that writer
	Kind int `json:"kind"` // 1: returns (n, err)   2: returns (n, nil)
	N    int `json:"n"`    // bytes taken
}

type c08In struct {
	Mode      string     `json:"mode"`
	Component bool       `json:"component,omitempty"`
	SM        bool       `json:"sm,omitempty"`
	Log       bool       `json:"log,omitempty"`
	Conn      int        `json:"conn,omitempty"`   // 0: connected  1: no transport (nil)  2: a TCP transport that was never connected  3: a WebSocket transport that was never connected  4: a WebSocket transport whose dial was refused
	NoSess    bool       `json:"nosess,omitempty"` // client: no session object (before Connect, or after a failed Connect/Resume)
	SockF     []c08Fault `json:"sockf,omitempty"`
	Ops       []c08Op    `json:"ops,omitempty"`
	// tcp / ws
	Senders   int   `json:"senders,omitempty"`
	PerSender int   `json:"per,omitempty"`
	MaxLen    int   `json:"maxlen,omitempty"`
	Seed      int64 `json:"seed,omitempty"`
	FailFrom  int   `json:"failfrom,omitempty"` // wsfault: every socket write fails from this op on
	Break     int   `json:"break,omitempty"`    // wsfault: 0 the TCP connection starts failing every write (reset not yet noticed)  2 the transport is closed (Disconnect) before that op
	Hook      bool  `json:"hook,omitempty"`     // connect: a PostConnectHook (returning nil) is set
	Reset     bool  `json:"reset,omitempty"`    // connect: the server resets the connection right after the bind result
	Big       []int `json:"big,omitempty"`      // held: serialised size of the stanza sender s sends as its q-th is Big[(s+q) % len(Big)] (exactly for SendRaw, at least for Send)
	KA        bool  `json:"ka,omitempty"`       // held: the library's keep-alive loop (interval 1 ms) runs on the same transport while the senders send
	// filled by Run: the sender index of every element on the wire, in wire order
	// (the schedule the run exhibited; handed to the model's LTS runner)
	Sched []int `json:"sched,omitempty"`
}

type c08 struct{}

func init() { register(c08{}) }

func (c08) ID() string    { return "C08" }
func (c08) RunFn() string { return "run_C08" }
func (c08) Workers() int  { return 4 }
func (c08) Rule() string {
	return "seq: histories of 1-12 ops (Send of Message/Presence/IQ with random attributes and text incl. XML metacharacters, non-ASCII, control bytes, 1 B-20 kB; SMRequest/SMAnswer; SendRaw; SendIQ get/set/result/error) on a real Client (stream management on/off) or Component, connected or not, whose transport Write is readWriter.Write with readWriter = recording socket or the real streamLogger around socket+log, with error-after-n-bytes and short-count faults at random calls of socket and log; logger: Write sequences straight on the stream logger; mem: 2-16 goroutines x 100-500 tiny stanzas on the in-memory recording transport (client SM on, component; logger on/off); tcp: 8-16 goroutines x 50-200 stanzas with unique ids over the real XMPPTransport to a loopback TCP sink that re-parses the byte stream with encoding/xml (client SM on/off, component; traffic log on/off); ws: the same over the real WebsocketTransport to a loopback nhooyr.io/websocket sink (one text message per stanza). wsfault: 1-6 ops on a real Client over the real WebsocketTransport dialled through a TCP connection that fails every write from op k on (the first failing send below and above the library's 4 KiB write buffer): every send from k on must return an error, the earlier ones arrive whole; held: 1-4 goroutines x 2-6 stanzas of 32767, 32768, 32769, 65536, 100000, 200000 bytes (SendRaw: exactly; Send of Message/Presence: a text of that size) and small ones as control, through a Component (traffic log on/off) and through a Client (stream management on/off, log on/off, with the library's keep-alive loop at 1 ms on the same transport, and without), over the real XMPPTransport on a harness net.Conn in front of the loopback TCP sink that serialises whole Write calls (what a net.Conn guarantees) and holds every caller back after its Write until another caller's Write has gone through (or 50 ms): a stanza that is not one Write call on the connection, or not under a lock all writers take, gets another sender's or the keep-alive's bytes in between in every run; the sink's byte stream must split into exactly the stanzas sent, each contiguous, white space only between them; text pools of every mode contain %, %%, %s, %d, %20, %!. distinct = configuration + op-kind/size-class/fault sequence; non-trivial = at least 2 ops reached the transport (seq), 2 writes (logger), 2 senders (mem/tcp/ws)"
}

// ---------------------------------------------------------------- content

var c08Pieces = []string{"a", "b", "xyz", " ", "<", ">", "&", "'", "\"", "é", "漢", "😀", "\n", "\t", "\r", "]]>", "&amp;", "<!--", "\x01", "\xff", "0123456789", "%", "%%", "%s", "%d", "%20", "%!", "50% off", "%v%x"}

// c08Text: deterministic text of about n bytes (at least 0) from the seed.
func c08Text(seed int64, n int) string {
	r := rand.New(rand.NewSource(seed))
	var b strings.Builder
	for b.Len() < n {
		p := c08Pieces[r.Intn(len(c08Pieces))]
		if b.Len()+len(p) > n {
			p = "q"
		}
		b.WriteString(p)
	}
	return b.String()
}

func (o c08Op) attrs() stanza.Attrs {
	return stanza.Attrs{Type: stanza.StanzaType(o.Typ), Id: o.ID, To: o.To, From: o.From, Lang: o.Lang}
}

// packet builds the stanza value of a non-raw op.
func (o c08Op) packet() stanza.Packet {
	txt := c08Text(o.Seed, o.Len)
	switch o.K {
	case "msg":
		m := stanza.NewMessage(o.attrs())
		m.Body = txt
		if o.Seed%3 == 0 {
			m.Subject = c08Text(o.Seed+1, o.Len%50)
		}
		if o.Seed%4 == 0 {
			m.Thread = "t" + o.ID
		}
		return m
	case "pres":
		p := stanza.NewPresence(o.attrs())
		p.Status = txt
		if o.Seed%2 == 0 {
			p.Show = stanza.PresenceShowAway
		}
		p.Priority = int8(o.Seed % 100)
		return p
	case "iq", "sendiq":
		a := o.attrs()
		if a.Id == "" {
			a.Id = "noid" // NewIQ would draw a random id
		}
		if a.Type == "" {
			a.Type = "get"
		}
		iq, _ := stanza.NewIQ(a)
		if o.Seed%5 != 0 {
			iq.Payload = &stanza.Version{Name: txt, OS: "os<&>"}
		}
		return iq
	case "smr":
		return stanza.SMRequest{}
	case "sma":
		return stanza.SMAnswer{H: o.H}
	case "smrp":
		return &stanza.SMRequest{}
	case "smap":
		return &stanza.SMAnswer{H: o.H}
	}
	return nil
}

func (o c08Op) rawString() string { return o.Raw + c08Text(o.Seed, o.Len) }

// data: the bytes the op must put on the wire: Go's own xml.Marshal of the packet,
// computed here, independently of the send call (the codec is C01's subject).
func (o c08Op) data() string {
	if o.K == "raw" {
		return o.rawString()
	}
	b, err := xml.Marshal(o.packet())
	if err != nil {
		return "MARSHAL-ERROR " + err.Error()
	}
	return string(b)
}

// nonza: anything that is not a stanza.  Stream management holds and numbers exactly the stanzas
// (message, presence, iq: what the server counts in the h of its acknowledgements): the Message /
// Presence / IQ packets, and a raw string whose first element is message, presence or iq in
// jabber:client (or without a namespace of its own).  Acknowledgement requests and answers, other
// nonzas (client state indication, a stream end tag), white space keepalives, the empty string and
// a nil packet are written and neither held nor numbered.
func (o c08Op) nonza() bool {
	switch o.K {
	case "msg", "pres", "iq", "sendiq":
		return false
	case "raw":
		d := xml.NewDecoder(strings.NewReader(o.rawString()))
		for {
			tok, err := d.Token()
			if err != nil {
				return true
			}
			if se, ok := tok.(xml.StartElement); ok {
				stanzaName := se.Name.Local == "message" || se.Name.Local == "presence" || se.Name.Local == "iq"
				return !(stanzaName && (se.Name.Space == "" || se.Name.Space == "jabber:client"))
			}
		}
	}
	return true // smr sma smrp smap nil
}
func (o c08Op) iqGetSet() bool {
	return o.Typ == "get" || o.Typ == "set"
}

// ---------------------------------------------------------------- recording writers

// tok: the payload of an op as the model sees it and as observed writes are compared.
// Send / SendIQ: the stanza read as XML elements (attribute order, quote style, <a/> versus
// <a></a> and xmlns repetition are free; names, namespaces, attribute values, children
// order and character data are exact).  SendRaw: the exact bytes, that IS the property.
func (o c08Op) tok(written string) string {
	if o.K == "raw" {
		return "R:" + written
	}
	return canonOrRaw(written)
}

// want: the token of what the op must put on the wire.
func (o c08Op) want() string { return o.tok(o.data()) }

var c08SockErr = errors.New("c08: socket write failed")

// Fault byte counts are 0, 1, 2 or "everything" so that whether a write was taken whole
// does not depend on how a stanza happens to be spelled (every serialised stanza is longer
// than 2 bytes; raw strings are compared exactly anyway).
const c08All = 1 << 18

type c08Writer struct {
	mu     sync.Mutex
	calls  []string
	taken  bytes.Buffer
	faults map[int]c08Fault
	err    error
}

func c08NewWriter(fs []c08Fault, err error) *c08Writer {
	w := &c08Writer{faults: map[int]c08Fault{}, err: err}
	for _, f := range fs {
		if _, dup := w.faults[f.K]; !dup { // first entry for a call number wins (as the model's find)
			w.faults[f.K] = f
		}
	}
	return w
}

// Write copies p before it returns: the caller may reuse the slice afterwards.
func (w *c08Writer) Write(p []byte) (int, error) {
	w.mu.Lock()
	defer w.mu.Unlock()
	k := len(w.calls)
	w.calls = append(w.calls, string(p))
	if f, ok := w.faults[k]; ok {
		n := f.N
		if n > len(p) {
			n = len(p)
		}
		if n < 0 {
			n = 0
		}
		w.taken.Write(p[:n])
		if f.Kind == 1 {
			return n, w.err
		}
		return n, nil
	}
	w.taken.Write(p)
	return len(p), nil
}

func (w *c08Writer) ncalls() int { w.mu.Lock(); defer w.mu.Unlock(); return len(w.calls) }
func (w *c08Writer) since(k int) []string {
	w.mu.Lock()
	defer w.mu.Unlock()
	return append([]string{}, w.calls[k:]...)
}

type c08RW struct{ io.Writer }

func (c08RW) Read(p []byte) (int, error) { return 0, io.EOF }

// c08Transport: everything from the stub except Write, which is XMPPTransport.Write:
// "return t.readWriter.Write(p)".
type c08Transport struct {
	*stubTransport
	rw io.ReadWriter
}

func (t *c08Transport) Write(p []byte) (int, error) { return t.rw.Write(p) }

func c08Strs(l []string) Sx {
	xs := make([]Sx, len(l))
	for i, s := range l {
		xs[i] = SBytes(s)
	}
	return LS(xs)
}

// c08Result: error or no error, nothing about which error (8: SendIQ returned neither an
// error nor a channel).
func c08Result(err error, chanOK bool) Sx {
	if err != nil {
		return Z(1)
	}
	if !chanOK {
		return Z(8)
	}
	return Z(0)
}

// c08Log swallows the traffic log: how the logger spells and chunks its own output is not
// the property's business.
type c08Log struct {
	mu sync.Mutex
	n  int
}

func (l *c08Log) Write(p []byte) (int, error) {
	l.mu.Lock()
	l.n += len(p)
	l.mu.Unlock()
	return len(p), nil
}

// ---------------------------------------------------------------- mode seq

type c08Sender interface {
	Send(stanza.Packet) error
	SendRaw(string) error
	SendIQ(context.Context, *stanza.IQ) (chan stanza.IQ, error)
}

// iqID: the id a SendIQ request is registered under
func (o c08Op) iqID() string {
	if o.ID == "" {
		return "noid"
	}
	return o.ID
}

// c08Plan: what the property's text lets one expect of each op of a history, in order.
type c08Plan struct {
	badType   bool // SendIQ of a type other than get/set
	pending   bool // SendIQ (get/set) under an id that is still awaiting its response
	attempted bool // gets to a socket write
	failed    bool // ... which fails as seen by the caller (error, or short count under the stream logger)
}

func (p c08Plan) rejected() bool { return p.badType || p.pending }

// plan: a request stays pending from a SendIQ that returned nil to the end of the case (nothing
// answers it and its context is cancelled only then); one that failed is unregistered again.
func (in *c08In) plan() []c08Plan {
	ps := make([]c08Plan, len(in.Ops))
	pend := map[string]bool{}
	si := 0
	up := in.Conn == 0 || in.Mode == "wsfault"
	for i, o := range in.Ops {
		p := &ps[i]
		if o.K == "sendiq" {
			p.badType = !o.iqGetSet()
			p.pending = !p.badType && pend[o.iqID()]
		}
		p.attempted = up && !p.rejected()
		if !p.attempted {
			continue
		}
		if in.Mode == "wsfault" {
			p.failed = i >= in.FailFrom
		} else if f, ok := c08FaultAt(in.SockF, si); ok {
			p.failed = f.failsOn(len(o.data()), in.Log)
		}
		si++
		if o.K == "sendiq" && !p.failed {
			pend[o.iqID()] = true
		}
	}
	return ps
}

func (in *c08In) rejected(i int) bool { return in.plan()[i].rejected() }

// writeFails: for every op, whether it gets to a socket write and whether that write fails
func (in *c08In) writeFails() (attempted, failed []bool) {
	attempted, failed = make([]bool, len(in.Ops)), make([]bool, len(in.Ops))
	for i, p := range in.plan() {
		attempted[i], failed[i] = p.attempted, p.failed
	}
	return
}

// pushing: the ops whose payload a client with stream management (and a session) holds in the
// queue afterwards: stanzas and raw strings, not acknowledgement requests/answers, whose write
// succeeded (a refused packet leaves the queue again).
func (in *c08In) pushing() []c08Op {
	var r []c08Op
	if in.Component || !in.SM || in.NoSess || in.Conn != 0 {
		return nil
	}
	attempted, failed := in.writeFails()
	for i, o := range in.Ops {
		if attempted[i] && !failed[i] && !o.nonza() {
			r = append(r, o)
		}
	}
	return r
}

func c08PanicSig(in *c08In) string {
	switch {
	case in.Conn == 3 || in.Conn == 4:
		return "send-panics-websocket-not-connected"
	case in.SM && in.NoSess:
		return "send-panics-sm-without-session"
	}
	return "send-panics"
}

// c08ClosedPort: a loopback address nobody listens on
func c08ClosedPort() string {
	ln, err := net.Listen("tcp", "127.0.0.1:0")
	if err != nil {
		return "127.0.0.1:1"
	}
	a := ln.Addr().String()
	ln.Close()
	return a
}

func c08RunSeq(in *c08In) Sx {
	sock := c08NewWriter(in.SockF, c08SockErr)
	tr := &c08Transport{stubTransport: newStub(nil, nil)}
	if in.Log {
		tr.rw = xmpp.VerifStreamLogger(c08RW{sock}, &c08Log{})
	} else {
		tr.rw = xmpp.VerifStreamLogger(c08RW{sock}, nil)
	}
	router := xmpp.NewRouter()
	var snd c08Sender
	var queue func() []string
	if in.Component {
		c, _ := xmpp.NewComponent(xmpp.ComponentOptions{Domain: "comp.localhost", Secret: "s"}, router, func(error) {})
		switch in.Conn {
		case 0:
			xmpp.VerifComponentSetTransport(c, tr)
		case 2: // what a failed Resume leaves behind
			ft, _ := xmpp.NewComponentTransport(xmpp.TransportConfiguration{Address: "localhost:1", Domain: "comp.localhost"})
			xmpp.VerifComponentSetTransport(c, ft)
		}
		snd = c
		queue = func() []string { return nil }
	} else {
		addr := "localhost:1"
		if in.Conn == 3 || in.Conn == 4 {
			addr = "ws://" + c08ClosedPort() + "/xmpp-websocket"
		} else if in.Conn == 5 {
			addr = c08ClosedPort()
		}
		cfg := &xmpp.Config{TransportConfiguration: xmpp.TransportConfiguration{Address: addr, ConnectTimeout: 1}, Jid: "u@localhost", Credential: xmpp.Password("p"), StreamManagementEnable: in.SM}
		c, err := xmpp.NewClient(cfg, router, func(error) {})
		if err != nil {
			return L(SBytes("newclient-failed"))
		}
		switch in.Conn {
		case 0:
			xmpp.VerifSetTransport(c, tr)
		case 1:
			xmpp.VerifSetTransport(c, nil)
		case 4: // 2, 3: NewClient has installed a transport that is not connected; 4: and its dial fails
			if _, err := xmpp.VerifTransport(c).Connect(); err == nil {
				return L(SBytes("connect-to-closed-port-succeeded"))
			}
		case 5: // a connection attempt has failed: the send gate is closed, whatever the transport is
			if err := xmpp.VerifClientConnect(c); err == nil {
				return L(SBytes("connect-to-closed-port-succeeded"))
			}
			xmpp.VerifSetTransport(c, tr)
		}
		if !in.NoSess {
			sm := xmpp.SMState{}
			if in.SM {
				sm.Id = "smid"
				sm.UnAckQueue = stanza.NewUnAckQueue()
			}
			xmpp.VerifSetSession(c, sm)
		}
		snd = c
		queue = func() []string {
			if !in.SM || c.Session == nil {
				return nil
			}
			var es []string
			for _, e := range c.Session.SMState.UnAckQueue.Uslice {
				es = append(es, e.Stz)
			}
			return es
		}
	}
	ctx, cancel := context.WithCancel(context.Background())
	defer cancel()
	var steps []Sx
	for _, o := range in.Ops {
		s0 := sock.ncalls()
		res := func() (r Sx) {
			defer func() {
				if p := recover(); p != nil {
					r = Z(9) // the call panicked in the caller's goroutine
				}
			}()
			var err error
			chanOK := true
			switch o.K {
			case "raw":
				err = snd.SendRaw(o.rawString())
			case "sendiq":
				var ch chan stanza.IQ
				ch, err = snd.SendIQ(ctx, o.packet().(*stanza.IQ))
				chanOK = ch != nil
			default:
				err = snd.Send(o.packet())
			}
			return c08Result(err, chanOK)
		}()
		var ws []string
		for _, w := range sock.since(s0) {
			ws = append(ws, o.tok(w))
		}
		if len(ws) == 0 && res.Z == 0 && o.data() == "" {
			// nothing to put on the wire (nil packet, empty string): no Write and a Write of
			// zero bytes are the same thing there
			ws = []string{o.tok("")}
		}
		steps = append(steps, L(res, c08Strs(ws)))
	}
	// queue payloads, each read as the op that (by the push rule) put it there
	push := in.pushing()
	var q []string
	for j, e := range queue() {
		if j < len(push) {
			q = append(q, push[j].tok(e))
		} else {
			q = append(q, "R:"+e)
		}
	}
	return L(LS(steps), c08Strs(q))
}

// faults as the model gets them: its payloads are tokens, at least 2 bytes longer than a raw
// string and never shorter than 5 bytes for a stanza, so n+2 bytes taken of a token means
// "whole" exactly when n bytes taken of the real write does.
func c08FaultsSx(fs []c08Fault) Sx {
	xs := make([]Sx, len(fs))
	for i, f := range fs {
		xs[i] = L(Zi(f.K), Zi(f.Kind), Zi(f.N+2))
	}
	return LS(xs)
}

func c08IQTypeZ(t string) Sx {
	switch t {
	case "get":
		return Z(0)
	case "set":
		return Z(1)
	}
	return Z(2)
}

func c08OpsSx(in *c08In) Sx {
	ops := make([]Sx, len(in.Ops))
	pl := in.plan()
	for i, o := range in.Ops {
		switch o.K {
		case "raw":
			ops[i] = L(Z(1), SBytes(o.want()), B(o.nonza()))
		case "sendiq":
			if pl[i].pending {
				ops[i] = L(Z(2), SBytes(o.want()), Z(3)) // an id still awaiting its response
			} else {
				ops[i] = L(Z(2), SBytes(o.want()), c08IQTypeZ(o.Typ))
			}
		default:
			ops[i] = L(Z(0), SBytes(o.want()), B(o.nonza()))
		}
	}
	return LS(ops)
}

func c08InputSeq(in *c08In) Sx {
	// the model's c_sm is "stream management bookkeeping is active": enabled and a session exists;
	// its CFresh is any transport object that is not connected (TCP or WebSocket)
	conn := in.Conn
	if conn >= 3 {
		conn = 2
	}
	return L(Z(0), L(B(in.Component), B(in.SM && !in.NoSess), B(in.Log), Zi(conn), B(in.Conn == 3 || in.Conn == 4)), c08FaultsSx(in.SockF), L(), c08OpsSx(in))
}

func c08FaultAt(fs []c08Fault, k int) (c08Fault, bool) {
	for _, f := range fs {
		if f.K == k {
			return f, true
		}
	}
	return c08Fault{}, false
}

// failsOn: does this fault make a write of plen bytes fail as seen by streamLogger
// (withCount) or by the bare sendWithWriter (error only)?
func (f c08Fault) failsOn(plen int, withCount bool) bool {
	if f.Kind == 1 {
		return true
	}
	return withCount && f.N < plen
}

// Model-free oracle for mode seq: the property's own clauses on the observation.
func c08OracleSeq(in *c08In, obs Sx) (string, string) {
	if len(obs.L) != 2 || len(obs.L[0].L) != len(in.Ops) {
		return "unexpected observation shape: " + obs.String(), "shape"
	}
	att, fl := in.writeFails()
	for i, o := range in.Ops {
		st := obs.L[0].L[i]
		res, sc := st.L[0].Z, st.L[1].L
		want := o.want()
		attempted := att[i]
		if res == 9 {
			return fmt.Sprintf("op %d (%s; stream management %v, session present %v, connection state %d): the call panicked instead of returning nil or an error", i, o.K, in.SM, !in.NoSess, in.Conn), c08PanicSig(in)
		}
		if !attempted {
			if len(sc) != 0 {
				return fmt.Sprintf("op %d (%s): %d transport writes by an op that must not write", i, o.K, len(sc)), "write-by-rejected"
			}
			if res == 0 {
				return fmt.Sprintf("op %d (%s type %q, connection state %d) returned nil", i, o.K, o.Typ, in.Conn), "rejected-returns-nil"
			}
			continue
		}
		// exactly one transport write, carrying the whole stanza (raw string) and nothing else
		if len(sc) != 1 {
			return fmt.Sprintf("op %d (%s): %d transport writes, want exactly 1", i, o.K, len(sc)), "write-count"
		}
		if got := string(bytesOf(sc[0])); got != want {
			what := "the stanza sent (read as XML elements)"
			if o.K == "raw" {
				what = "the raw string"
			}
			return fmt.Sprintf("op %d (%s): the transport write is not %s: wrote %.120q, want %.120q", i, o.K, what, got, want), "write-bytes"
		}
		failed := fl[i]
		if failed && res != 1 {
			return fmt.Sprintf("op %d (%s): the write failed (injected fault) but the call returned nil", i, o.K), "unreported-failure"
		}
		if !failed && res != 0 {
			return fmt.Sprintf("op %d (%s): no fault injected but the call did not return nil (and a channel)", i, o.K), "spurious-error"
		}
	}
	q := obs.L[1].L
	push := in.pushing()
	if len(q) != len(push) {
		sig := "queue"
		if len(q) > len(push) {
			sig = "queue-holds-non-stanza" // or a stanza whose write failed
		}
		return fmt.Sprintf("unacknowledged queue holds %d entries, want %d: exactly the stanzas (message, presence, iq; by packet type, or by the first element of a raw string) whose write succeeded - the server counts nothing else, so anything else held puts the client's numbering ahead and an acknowledged stanza is written again", len(q), len(push)), sig
	}
	for i := range q {
		if string(bytesOf(q[i])) != push[i].want() {
			return fmt.Sprintf("unacknowledged queue entry %d is not what was sent", i), "queue"
		}
	}
	return "", ""
}

// ---------------------------------------------------------------- mode logger

func c08RunLogger(in *c08In) Sx {
	sock := c08NewWriter(in.SockF, c08SockErr)
	conn := c08RW{sock}
	if xmpp.VerifStreamLogger(conn, nil) != io.ReadWriter(conn) {
		return L(SBytes("anomaly"), SBytes("nil-log"), SBytes("newStreamLogger(conn, nil) is not conn"))
	}
	sl := xmpp.VerifStreamLogger(conn, &c08Log{})
	var res []Sx
	for i, o := range in.Ops {
		p := []byte(o.rawString())
		keep := string(p)
		n, err := sl.Write(p)
		if string(p) != keep {
			return L(SBytes("anomaly"), SBytes("mutates-argument"), SBytes(fmt.Sprintf("write %d: Write modified its argument", i)))
		}
		if err == nil && n != len(p) {
			return L(SBytes("anomaly"), SBytes("count"), SBytes(fmt.Sprintf("write %d: nil error with n=%d of %d", i, n, len(p))))
		}
		res = append(res, c08Result(err, true))
	}
	return L(LS(res), c08Strs(sock.calls), SBytes(sock.taken.String()))
}

func c08InputLogger(in *c08In) Sx {
	ps := make([]Sx, len(in.Ops))
	fs := make([]Sx, len(in.SockF))
	for i, o := range in.Ops {
		ps[i] = SBytes(o.rawString())
	}
	for i, f := range in.SockF { // payloads are the exact bytes here
		fs[i] = L(Zi(f.K), Zi(f.Kind), Zi(f.N))
	}
	return L(Z(1), LS(fs), L(), LS(ps))
}

func c08OracleLogger(in *c08In, obs Sx) (string, string) {
	if len(obs.L) == 3 && obs.L[0].K == "s" {
		return string(bytesOf(obs.L[2])), "logger-" + string(bytesOf(obs.L[1]))
	}
	if len(obs.L) != 3 || len(obs.L[0].L) != len(in.Ops) {
		return "unexpected observation shape: " + obs.String(), "shape"
	}
	// the socket receives every p exactly once, in order; a failing or short socket write is reported
	sc := obs.L[1].L
	if len(sc) != len(in.Ops) {
		return fmt.Sprintf("socket got %d writes for %d logger writes", len(sc), len(in.Ops)), "logger-socket-writes"
	}
	for i, o := range in.Ops {
		p := o.rawString()
		if string(bytesOf(sc[i])) != p {
			return fmt.Sprintf("write %d: the socket did not get exactly p", i), "logger-socket-writes"
		}
		failed := false
		if f, ok := c08FaultAt(in.SockF, i); ok {
			failed = f.failsOn(len(p), true)
		}
		isNil := obs.L[0].L[i].Z == 0
		if failed && isNil {
			return fmt.Sprintf("write %d: a failing or short socket write was not reported", i), "logger-unreported-failure"
		}
		if !failed && !isNil {
			return fmt.Sprintf("write %d: error without a fault", i), "logger-spurious-error"
		}
	}
	return "", ""
}

// ---------------------------------------------------------------- modes tcp / ws (real transports)

type c08Sink struct {
	mu   sync.Mutex
	buf  []byte   // tcp: every byte received
	msgs []string // ws: every text message received
	err  error
	stop func()
	addr string
}

func (s *c08Sink) size() int {
	s.mu.Lock()
	defer s.mu.Unlock()
	n := len(s.buf)
	for _, m := range s.msgs {
		n += len(m)
	}
	return n
}

const c08ServerHeader = "<?xml version='1.0'?><stream:stream id='x' xmlns='jabber:client' xmlns:stream='http://etherx.jabber.org/streams' version='1.0'>"

func c08TCPSink() (*c08Sink, error) {
	ln, err := listenLoopback()
	if err != nil {
		return nil, err
	}
	s := &c08Sink{addr: ln.Addr().String()}
	var conn net.Conn
	var cmu sync.Mutex
	s.stop = func() {
		ln.Close()
		cmu.Lock()
		if conn != nil {
			conn.Close()
		}
		cmu.Unlock()
	}
	go func() {
		c, err := ln.Accept()
		if err != nil {
			return
		}
		cmu.Lock()
		conn = c
		cmu.Unlock()
		if _, err := c.Write([]byte(c08ServerHeader)); err != nil {
			return
		}
		b := make([]byte, 65536)
		for {
			n, err := c.Read(b)
			s.mu.Lock()
			s.buf = append(s.buf, b[:n]...)
			s.mu.Unlock()
			if err != nil {
				return
			}
		}
	}()
	return s, nil
}

func c08WSSink() (*c08Sink, error) {
	ln, err := listenLoopback()
	if err != nil {
		return nil, err
	}
	s := &c08Sink{addr: "ws://" + ln.Addr().String() + "/xmpp-websocket"}
	ctx, cancel := context.WithCancel(context.Background())
	srv := &http.Server{Handler: http.HandlerFunc(func(w http.ResponseWriter, r *http.Request) {
		c, err := websocket.Accept(w, r, &websocket.AcceptOptions{Subprotocols: []string{"xmpp"}})
		if err != nil {
			return
		}
		defer c.Close(websocket.StatusNormalClosure, "")
		c.SetReadLimit(1 << 22)
		if err := c.Write(ctx, websocket.MessageText, []byte(`<open xmlns="urn:ietf:params:xml:ns:xmpp-framing" id="x" version="1.0"/>`)); err != nil {
			return
		}
		for {
			typ, data, err := c.Read(ctx)
			if err != nil {
				return
			}
			s.mu.Lock()
			if typ != websocket.MessageText {
				s.err = errors.New("binary message received")
			}
			s.msgs = append(s.msgs, string(data))
			s.mu.Unlock()
		}
	})}
	s.stop = func() {
		cancel()
		srv.Close()
		ln.Close()
	}
	go srv.Serve(ln)
	return s, nil
}

// ---- mode wsfault: the real WebsocketTransport over a TCP connection that can be broken

// The websocket library dials through http.DefaultClient; its transport hands out
// connections whose writes can be switched to fail (pass-through until then).
type c08FaultConn struct {
	net.Conn
	fail int32
}

func (c *c08FaultConn) Write(p []byte) (int, error) {
	if atomic.LoadInt32(&c.fail) != 0 {
		return 0, fmt.Errorf("c08: injected socket write failure (%d bytes not written)", len(p))
	}
	return c.Conn.Write(p)
}

var c08Conns sync.Map // "host:port" dialled -> *c08FaultConn

func init() {
	t, ok := http.DefaultTransport.(*http.Transport)
	if !ok {
		return
	}
	t = t.Clone()
	t.DialContext = func(ctx context.Context, network, addr string) (net.Conn, error) {
		c, err := (&net.Dialer{}).DialContext(ctx, network, addr)
		if err != nil {
			return nil, err
		}
		fc := &c08FaultConn{Conn: c}
		c08Conns.Store(addr, fc)
		return fc, nil
	}
	http.DefaultTransport = t
}

func (in *c08In) wsAttempted(i int) bool { return in.plan()[i].attempted }

func c08RunWSFault(in *c08In) Sx {
	sink, err := c08WSSink()
	if err != nil {
		return c08Anomaly("harness", "sink: "+err.Error())
	}
	defer sink.stop()
	tc := xmpp.TransportConfiguration{Address: sink.addr, Domain: "localhost", ConnectTimeout: 2}
	tr := xmpp.NewClientTransport(tc)
	if in.Log {
		tr.LogTraffic(&c08Log{}) // the traffic log only has to be there and swallow its input
	}
	if _, err := tr.Connect(); err != nil {
		return c08Anomaly("harness", "connect: "+err.Error())
	}
	hostport := strings.TrimSuffix(strings.TrimPrefix(sink.addr, "ws://"), "/xmpp-websocket")
	v, ok := c08Conns.Load(hostport)
	if !ok {
		return c08Anomaly("harness", "the websocket library did not dial through http.DefaultTransport")
	}
	c08Conns.Delete(hostport)
	fc := v.(*c08FaultConn)
	cfg := &xmpp.Config{TransportConfiguration: tc, Jid: "u@localhost", Credential: xmpp.Password("p"), StreamManagementEnable: in.SM}
	c, err := xmpp.NewClient(cfg, xmpp.NewRouter(), func(error) {})
	if err != nil {
		return c08Anomaly("harness", "newclient: "+err.Error())
	}
	xmpp.VerifSetTransport(c, tr)
	sm := xmpp.SMState{}
	if in.SM {
		sm.Id = "smid"
		sm.UnAckQueue = stanza.NewUnAckQueue()
	}
	xmpp.VerifSetSession(c, sm)
	ctx, cancel := context.WithCancel(context.Background())
	defer cancel()
	var res []Sx
	delivered := 0
	closed := false
	for i, o := range in.Ops {
		if i == in.FailFrom {
			if in.Break == 2 {
				tr.Close() // what Client.Disconnect does
				closed = true
			} else {
				atomic.StoreInt32(&fc.fail, 1) // connection reset / broken pipe, not yet noticed by anybody
			}
		}
		var err error
		chanOK := true
		switch o.K {
		case "raw":
			err = c.SendRaw(o.rawString())
		case "sendiq":
			var ch chan stanza.IQ
			ch, err = c.SendIQ(ctx, o.packet().(*stanza.IQ))
			chanOK = ch != nil
		default:
			err = c.Send(o.packet())
		}
		res = append(res, c08Result(err, chanOK))
		if i < in.FailFrom && in.wsAttempted(i) {
			delivered++
		}
	}
	deadline := time.Now().Add(5 * time.Second)
	for {
		sink.mu.Lock()
		n := len(sink.msgs)
		sink.mu.Unlock()
		if n >= 1+delivered || time.Now().After(deadline) {
			break
		}
		time.Sleep(time.Millisecond)
	}
	time.Sleep(20 * time.Millisecond)
	sink.mu.Lock()
	msgs := append([]string{}, sink.msgs...)
	sink.mu.Unlock()
	sink.stop()
	if !closed {
		go tr.Close()
	}
	if len(msgs) == 0 {
		return c08Anomaly("lost", "nothing received, not even <open/>")
	}
	msgs = msgs[1:] // the client's <open/>
	if closed {     // Close says goodbye with a <close/> of the framing namespace: not a send
		var kept []string
		for _, m := range msgs {
			if c, ok := canonXML([]byte(m)); ok && strings.HasPrefix(c, "{urn:ietf:params:xml:ns:xmpp-framing}close[") {
				continue
			}
			kept = append(kept, m)
		}
		msgs = kept
	}
	// what the client holds as sent and unacknowledged
	var q []string
	if in.SM {
		held := in.wsHeld()
		for j, e := range c.Session.SMState.UnAckQueue.Uslice {
			if j < len(held) {
				q = append(q, held[j].tok(e.Stz))
			} else {
				q = append(q, "R:"+e.Stz)
			}
		}
	}
	// each message read as the op that (in order) should have produced it
	del := in.wsDelivered()
	var toks []string
	for j, m := range msgs {
		if j < len(del) {
			toks = append(toks, del[j].tok(m))
		} else {
			toks = append(toks, "R:"+m)
		}
	}
	return L(LS(res), SBytes(strings.Join(toks, "")), c08Strs(q))
}

func c08InputWSFault(in *c08In) Sx {
	k0 := len(in.wsDelivered())
	if in.FailFrom >= len(in.Ops) {
		k0 = len(in.Ops) + 1 // never
	}
	return L(Z(3), B(in.SM), B(in.Log), Zi(k0), c08OpsSx(in))
}

// wsHeld: the delivered ops a client with stream management holds afterwards
func (in *c08In) wsHeld() []c08Op {
	var r []c08Op
	if !in.SM {
		return nil
	}
	for _, o := range in.wsDelivered() {
		if !o.nonza() {
			r = append(r, o)
		}
	}
	return r
}

// wsDelivered: the ops that reach the socket before it breaks
func (in *c08In) wsDelivered() []c08Op {
	var r []c08Op
	for i, o := range in.Ops {
		if i < in.FailFrom && in.wsAttempted(i) {
			r = append(r, o)
		}
	}
	return r
}

// Model-free oracle: a send issued after the socket broke must return an error; the
// sends before it return nil and are what the peer received, one message each, in order.
func c08OracleWSFault(in *c08In, obs Sx) (string, string) {
	if len(obs.L) == 3 && obs.L[0].K == "s" {
		return "wsfault: " + string(bytesOf(obs.L[2])), "wsfault-" + string(bytesOf(obs.L[1]))
	}
	if len(obs.L) != 3 || len(obs.L[0].L) != len(in.Ops) {
		return "unexpected observation shape", "shape"
	}
	how := "the TCP connection started failing every write"
	if in.Break == 2 {
		how = "the transport was closed (Disconnect)"
	}
	for i, o := range in.Ops {
		r := obs.L[0].L[i].Z
		switch {
		case !in.wsAttempted(i):
			if r == 0 {
				return fmt.Sprintf("op %d: SendIQ of type %q was not rejected", i, o.Typ), "rejected-returns-nil"
			}
		case i >= in.FailFrom && r != 1:
			return fmt.Sprintf("op %d (%s, %d bytes) was sent over WebSocket (traffic log configured: %v) after %s, and returned nil: the failed write is not reported (and the stanza is lost)", i, o.K, len(o.data()), in.Log, how), "ws-unreported-failure"
		case i < in.FailFrom && r != 0:
			return fmt.Sprintf("op %d (%s) failed on a healthy WebSocket connection", i, o.K), "ws-spurious-error"
		}
	}
	var want strings.Builder
	for _, o := range in.wsDelivered() {
		want.WriteString(o.want())
	}
	if got := string(bytesOf(obs.L[1])); got != want.String() {
		return fmt.Sprintf("what the peer received is not the sequence of stanzas whose sends returned nil: got %.150q want %.150q", got, want.String()), "ws-wire-bytes"
	}
	held := in.wsHeld()
	if q := obs.L[2].L; len(q) != len(held) {
		return fmt.Sprintf("the unacknowledged queue holds %d entries, %d stanzas reached the server", len(q), len(held)), "ws-queue"
	} else {
		for j := range q {
			if string(bytesOf(q[j])) != held[j].want() {
				return fmt.Sprintf("unacknowledged queue entry %d is not the stanza sent", j), "ws-queue"
			}
		}
	}
	return "", ""
}

// ---- mode connect: the one send Connect makes itself (the initial presence)


const c08SrvHeader = "<?xml version='1.0'?><stream:stream xmlns='jabber:client' xmlns:stream='http://etherx.jabber.org/streams' id='%s' from='localhost' version='1.0'>"

// c08Negotiate plays the server side of one plain session negotiation (PLAIN, bind), then either
// resets the connection at once or keeps reading; got receives everything read after the bind.
func c08Negotiate(c net.Conn, reset bool, got chan<- string) {
	defer close(got)
	// The client's side is read as XML, not as bytes: quote style, attribute order, empty-element spelling
	// and the XML declaration are the library's to choose. A bufio.Reader is an io.ByteReader, so the
	// decoders read through it without a buffer of their own and a new one can take over after a restart.
	br := bufio.NewReader(c)
	nextStart := func(d *xml.Decoder, local string) (xml.StartElement, bool) {
		for {
			c.SetReadDeadline(time.Now().Add(10 * time.Second))
			tok, err := d.Token()
			if err != nil {
				return xml.StartElement{}, false
			}
			if se, ok := tok.(xml.StartElement); ok {
				return se, se.Name.Local == local
			}
		}
	}
	fail := func() { c.Close() }
	d := xml.NewDecoder(br)
	if _, ok := nextStart(d, "stream"); !ok {
		fail()
		return
	}
	c.Write([]byte(fmt.Sprintf(c08SrvHeader, "id1") + "<stream:features><mechanisms xmlns='urn:ietf:params:xml:ns:xmpp-sasl'><mechanism>PLAIN</mechanism></mechanisms></stream:features>"))
	if _, ok := nextStart(d, "auth"); !ok || d.Skip() != nil {
		fail()
		return
	}
	c.Write([]byte("<success xmlns='urn:ietf:params:xml:ns:xmpp-sasl'/>"))
	d = xml.NewDecoder(br) // the stream is restarted
	if _, ok := nextStart(d, "stream"); !ok {
		fail()
		return
	}
	c.Write([]byte(fmt.Sprintf(c08SrvHeader, "id2") + "<stream:features><bind xmlns='urn:ietf:params:xml:ns:xmpp-bind'/></stream:features>"))
	iq, ok := nextStart(d, "iq")
	if !ok || d.Skip() != nil {
		fail()
		return
	}
	id := ""
	for _, at := range iq.Attr {
		if at.Name.Local == "id" && at.Name.Space == "" {
			id = at.Value
		}
	}
	var esc bytes.Buffer
	xml.EscapeText(&esc, []byte(id))
	c.Write([]byte("<iq type='result' id='" + esc.String() + "'><bind xmlns='urn:ietf:params:xml:ns:xmpp-bind'><jid>u@localhost/r</jid></bind></iq>"))
	if reset {
		if tc, ok := c.(*net.TCPConn); ok {
			tc.SetLinger(0) // the server goes away: connection reset
		}
		c.Close()
		return
	}
	// healthy: whatever comes within a short while
	var buf bytes.Buffer
	deadline := time.Now().Add(3 * time.Second)
	tmp := make([]byte, 65536)
	for time.Now().Before(deadline) {
		if strings.Contains(buf.String(), ">") {
			break
		}
		c.SetReadDeadline(time.Now().Add(100 * time.Millisecond))
		n, _ := br.Read(tmp)
		buf.Write(tmp[:n])
	}
	got <- buf.String()
	c.Close()
}

func c08RunConnect(in *c08In) Sx {
	ln, err := net.Listen("tcp", "127.0.0.1:0")
	if err != nil {
		return c08Anomaly("harness", err.Error())
	}
	defer ln.Close()
	got := make(chan string, 1)
	go func() {
		c, err := ln.Accept()
		if err != nil {
			close(got)
			return
		}
		c08Negotiate(c, in.Reset, got)
	}()
	cfg := &xmpp.Config{TransportConfiguration: xmpp.TransportConfiguration{Address: ln.Addr().String(), Domain: "localhost", ConnectTimeout: 1},
		Jid: "u@localhost", Credential: xmpp.Password("p"), Insecure: true, KeepaliveInterval: time.Hour}
	c, err := xmpp.NewClient(cfg, xmpp.NewRouter(), func(error) {})
	if err != nil {
		return c08Anomaly("harness", "newclient: "+err.Error())
	}
	// the application is told about the new session before Connect writes the presence: while it
	// thinks about it, the reset arrives
	c.SetHandler(func(e xmpp.Event) error {
		if in.Reset && xmpp.VerifEventState(e) == xmpp.StateSessionEstablished {
			time.Sleep(250 * time.Millisecond)
		}
		return nil
	})
	if in.Hook {
		c.PostConnectHook = func() error { return nil }
	}
	cerr := c.Connect()
	arrived := false
	select {
	case s, ok := <-got:
		arrived = ok && strings.Contains(s, "<presence")
	case <-time.After(5 * time.Second):
	}
	if cerr == nil {
		go c.Disconnect()
	}
	return L(c08Result(cerr, true), B(arrived))
}

func c08InputConnect(in *c08In) Sx { return L(Z(4), B(in.Reset)) }

// Model-free oracle: Connect makes one send of its own; when that write failed (the presence is
// not with the server) Connect must say so.
func c08OracleConnect(in *c08In, obs Sx) (string, string) {
	if len(obs.L) == 3 && obs.L[0].K == "s" {
		return "connect: " + string(bytesOf(obs.L[2])), "connect-" + string(bytesOf(obs.L[1]))
	}
	if len(obs.L) != 2 {
		return "unexpected observation shape", "shape"
	}
	res, arrived := obs.L[0].Z, obs.L[1].Z == 1
	switch {
	case res == 0 && !arrived:
		return fmt.Sprintf("Connect (PostConnectHook set: %v) returned nil although its initial presence never reached the server (connection reset after the bind result): the failed write is not reported", in.Hook), "connect-unreported-failure"
	case res != 0 && arrived && !in.Reset:
		return "Connect failed on a healthy connection", "connect-spurious-error"
	case in.Reset && arrived:
		return "the presence arrived over a connection that was reset before it was written", "harness"
	}
	return "", ""
}

type c08Sent struct {
	id     string
	op     c08Op
	data   string
	sender int
	seq    int
}

// c08StressOp: the stanza sender s sends as its q-th.
func c08StressOp(in *c08In, s, q int) c08Op {
	r := rand.New(rand.NewSource(in.Seed*1000003 + int64(s)*10007 + int64(q)))
	id := fmt.Sprintf("s%d-%d", s, q)
	n := 0
	switch c := r.Intn(10); {
	case c < 5:
		n = r.Intn(200)
	case c < 8:
		n = r.Intn(3000)
	default:
		n = r.Intn(in.MaxLen + 1)
	}
	if n > in.MaxLen {
		n = in.MaxLen
	}
	o := c08Op{ID: id, Seed: r.Int63n(1 << 40), Len: n, To: "peer@localhost/r", From: "u@localhost"}
	switch c := r.Intn(10); {
	case c < 4:
		o.K, o.Typ = "msg", "chat"
	case c < 6:
		o.K = "pres"
	case c < 7:
		o.K, o.Typ = "iq", []string{"get", "set", "result"}[r.Intn(3)]
	case c < 8:
		o.K, o.Typ = "sendiq", []string{"get", "set"}[r.Intn(2)]
	default:
		// a raw, well-formed element: the text is escaped here, SendRaw sends it as is
		var b bytes.Buffer
		xml.EscapeText(&b, []byte(c08Text(o.Seed, n)))
		o = c08Op{K: "raw", ID: id, Raw: "<message id='" + id + "' type='chat'><body>100%" + b.String() + "%d</body></message>"}
	}
	return o
}

// ---- mode held: a connection that gives every other ready writer its turn after each Write call

// c08HeldConn is what a net.Conn promises and no more: Write calls are serialised whole (the fd write
// lock of a TCP connection), nothing ties two Write calls of one caller together.  After its Write went
// through, the caller is held back until some other caller's Write has gone through as well, or the
// pause has elapsed, or nobody else can come (the other senders are done and no keep-alive runs).
// A send that is one Write call - or whose Write calls are all made under a lock every writer of the
// connection takes - is unaffected; anything else is interleaved in every run, not once in a while.
type c08HeldConn struct {
	net.Conn
	mu     sync.Mutex
	done   int // Write calls gone through
	pause  time.Duration
	active int32 // sender goroutines still running
	ka     bool  // a keep-alive loop runs
}

func (c *c08HeldConn) count() int { c.mu.Lock(); defer c.mu.Unlock(); return c.done }

func (c *c08HeldConn) Write(p []byte) (int, error) {
	c.mu.Lock()
	n, err := c.Conn.Write(p)
	c.done++
	mine := c.done
	c.mu.Unlock()
	deadline := time.Now().Add(c.pause)
	for time.Now().Before(deadline) {
		c.mu.Lock()
		d, ka := c.done, c.ka
		c.mu.Unlock()
		if d > mine || (atomic.LoadInt32(&c.active) <= 1 && !ka) {
			break
		}
		time.Sleep(50 * time.Microsecond)
	}
	return n, err
}

func c08HeldClass(n int) string {
	switch {
	case n < 32768:
		return "below-the-packet-size"
	case n == 32768:
		return "the-packet-size"
	case n < 65536:
		return "above-the-packet-size"
	case n == 65536:
		return "twice-the-packet-size"
	default:
		return "several-packets"
	}
}

// c08HeldOp: the stanza sender s sends as its q-th in mode held; SendRaw strings have exactly the
// size asked for, Send's stanzas a text of that size (their serialisation is a little longer).
func c08HeldOp(in *c08In, s, q int) c08Op {
	id := fmt.Sprintf("s%d-%d", s, q)
	n := 100
	if len(in.Big) > 0 {
		n = in.Big[(s+q)%len(in.Big)]
	}
	seed := in.Seed*1000003 + int64(s)*10007 + int64(q)
	switch (s + 2*q + int(in.Seed)) % 4 {
	case 0, 2:
		head, tail := "<message id='"+id+"' type='chat'><body>100%", "%d</body></message>"
		pad := n - len(head) - len(tail)
		if pad < 0 {
			pad = 0
		}
		var b bytes.Buffer
		xml.EscapeText(&b, []byte(c08Text(seed, pad)))
		txt := b.String()
		if len(txt) > pad { // escaping lengthened it: cut between two characters / entities and fill up
			cut := pad
			for cut > 0 && txt[cut]&0xC0 == 0x80 {
				cut--
			}
			if i := strings.LastIndexByte(txt[:cut], '&'); i >= 0 && !strings.Contains(txt[i:cut], ";") {
				cut = i
			}
			txt = txt[:cut] + strings.Repeat("p", pad-cut)
		}
		return c08Op{K: "raw", ID: id, Raw: head + txt + tail}
	case 1:
		return c08Op{K: "msg", Typ: "chat", ID: id, Seed: seed, Len: n, To: "peer@localhost/r", From: "u@localhost"}
	default:
		return c08Op{K: "pres", ID: id, Seed: seed, Len: n, To: "peer@localhost/r", From: "u@localhost"}
	}
}

func c08Anomaly(kind, msg string) Sx { return L(SBytes("anomaly"), SBytes(kind), SBytes(msg)) }

func c08RunStress(in *c08In) Sx {
	ws, mem, held := in.Mode == "ws", in.Mode == "mem", in.Mode == "held"
	var hc *c08HeldConn
	var sink *c08Sink
	var err error
	var tr xmpp.Transport
	var memSock *c08Writer
	tc := xmpp.TransportConfiguration{Address: "localhost:1", Domain: "localhost", ConnectTimeout: 1}
	if mem {
		// in-memory: the recording socket (one Write call = one atomic append) behind
		// XMPPTransport.Write's delegation, optionally through the real streamLogger
		memSock = c08NewWriter(nil, nil)
		mt := &c08Transport{stubTransport: newStub(nil, nil)}
		if in.Log {
			mt.rw = xmpp.VerifStreamLogger(c08RW{memSock}, &c08Log{})
		} else {
			mt.rw = c08RW{memSock}
		}
		tr = mt
	} else if held {
		// the real XMPPTransport (Write, Ping; optionally the real streamLogger) on the harness's connection
		// to the loopback TCP sink; the stream header is written here, straight on the socket
		sink, err = c08TCPSink()
		if err != nil {
			return c08Anomaly("harness", "sink: "+err.Error())
		}
		defer sink.stop()
		sock, err := net.Dial("tcp", sink.addr)
		if err != nil {
			return c08Anomaly("harness", "dial: "+err.Error())
		}
		defer sock.Close()
		if _, err := sock.Write([]byte("<?xml version='1.0'?><stream:stream to='localhost' xmlns='jabber:client' xmlns:stream='http://etherx.jabber.org/streams' version='1.0'>")); err != nil {
			return c08Anomaly("harness", "header: "+err.Error())
		}
		hc = &c08HeldConn{Conn: sock, pause: 50 * time.Millisecond, active: int32(in.Senders), ka: in.KA}
		if in.Log {
			tr = xmpp.VerifXMPPTransportLoggedOnConn(hc, &c08Log{}, 1)
		} else {
			tr = xmpp.VerifXMPPTransportOnConn(hc, 1)
		}
	} else {
		if ws {
			sink, err = c08WSSink()
		} else {
			sink, err = c08TCPSink()
		}
		if err != nil {
			return c08Anomaly("harness", "sink: "+err.Error())
		}
		defer sink.stop()
		tc.Address = sink.addr
		if in.Component {
			tr, err = xmpp.NewComponentTransport(tc)
			if err != nil {
				return c08Anomaly("harness", "transport: "+err.Error())
			}
		} else {
			tr = xmpp.NewClientTransport(tc)
		}
		if in.Log {
			if in.Seed%2 == 0 {
				tr.LogTraffic(&c08Log{})
			} else {
				// a real file, as Config.StreamLogger is
				f, err := os.CreateTemp(c08OutDir(), "c08log")
				if err != nil {
					return c08Anomaly("harness", "log file: "+err.Error())
				}
				defer func() { f.Close(); os.Remove(f.Name()) }()
				tr.LogTraffic(f)
			}
		}
		if _, err := tr.Connect(); err != nil {
			return c08Anomaly("harness", "connect: "+err.Error())
		}
	}
	router := xmpp.NewRouter()
	var snd c08Sender
	var smq *stanza.UnAckQueue
	if in.Component {
		c, _ := xmpp.NewComponent(xmpp.ComponentOptions{Domain: "comp.localhost", Secret: "s"}, router, func(error) {})
		xmpp.VerifComponentSetTransport(c, tr)
		snd = c
	} else {
		cfg := &xmpp.Config{TransportConfiguration: tc, Jid: "u@localhost", Credential: xmpp.Password("p"), StreamManagementEnable: in.SM}
		c, err := xmpp.NewClient(cfg, router, func(error) {})
		if err != nil {
			return c08Anomaly("harness", "newclient: "+err.Error())
		}
		xmpp.VerifSetTransport(c, tr)
		sm := xmpp.SMState{}
		if in.SM {
			sm.Id = "smid"
			sm.UnAckQueue = stanza.NewUnAckQueue()
			smq = sm.UnAckQueue
		}
		xmpp.VerifSetSession(c, sm)
		snd = c
	}
	// what will be sent (data computed before and independently of the send calls)
	sent := map[string]c08Sent{}
	plan := make([][]c08Op, in.Senders)
	total := 0
	for s := 0; s < in.Senders; s++ {
		for q := 0; q < in.PerSender; q++ {
			o := c08StressOp(in, s, q)
			if held {
				o = c08HeldOp(in, s, q)
			}
			plan[s] = append(plan[s], o)
			d := o.data()
			sent[o.ID] = c08Sent{id: o.ID, op: o, data: d, sender: s, seq: q}
			total += len(d)
		}
	}
	base := 0
	if !mem {
		base = sink.size() // the client's stream header / <open/>
		deadline := time.Now().Add(3 * time.Second)
		for base == 0 && time.Now().Before(deadline) {
			time.Sleep(time.Millisecond)
			base = sink.size()
		}
	}
	ctx, cancel := context.WithCancel(context.Background())
	defer cancel()
	var wg sync.WaitGroup
	var emu sync.Mutex
	var errs []string
	start := make(chan struct{})
	for s := 0; s < in.Senders; s++ {
		wg.Add(1)
		go func(s int) {
			defer wg.Done()
			if hc != nil {
				defer atomic.AddInt32(&hc.active, -1)
			}
			defer func() {
				if r := recover(); r != nil {
					emu.Lock()
					errs = append(errs, fmt.Sprintf("sender %d panicked: %v", s, r))
					emu.Unlock()
				}
			}()
			<-start
			for _, o := range plan[s] {
				var err error
				switch o.K {
				case "raw":
					err = snd.SendRaw(o.rawString())
				case "sendiq":
					_, err = snd.SendIQ(ctx, o.packet().(*stanza.IQ))
				default:
					err = snd.Send(o.packet())
				}
				if err != nil {
					emu.Lock()
					errs = append(errs, fmt.Sprintf("sender %d %s: %v", s, o.ID, err))
					emu.Unlock()
				}
			}
		}(s)
	}
	var kaQuit chan struct{}
	kaDone := make(chan struct{})
	if held && in.KA {
		// the keep-alive loop of the library, as Connect/Resume start it, on the same transport
		kaQuit = make(chan struct{})
		go func() { defer close(kaDone); xmpp.VerifKeepalive(tr, time.Millisecond, kaQuit) }()
	}
	close(start)
	wg.Wait()
	if kaQuit != nil {
		close(kaQuit)
		atomic.StoreInt32(&hc.active, 0)
		hc.mu.Lock()
		hc.ka = false
		hc.mu.Unlock()
		select {
		case <-kaDone:
		case <-time.After(2 * time.Second):
		}
		hist(fmt.Sprintf("held:keep-alives-among-the-stanzas>0=%v", hc.count() > len(sent)))
	}
	if hc != nil && hc.count() > 0 {
		hist("held:ran")
	}
	if len(errs) > 0 {
		return c08Anomaly("send-error", fmt.Sprintf("%d sends failed on a healthy connection, first: %s", len(errs), errs[0]))
	}
	// split what arrived into top-level elements
	var elems []string
	if mem {
		elems = memSock.since(0) // one element per Write call
	} else {
		// every Send has returned: wait for the bytes, then a little longer for anything extra
		deadline := time.Now().Add(15 * time.Second)
		for sink.size() < base+total && time.Now().Before(deadline) {
			time.Sleep(time.Millisecond)
		}
		time.Sleep(30 * time.Millisecond)
		sink.mu.Lock()
		buf := append([]byte{}, sink.buf...)
		msgs := append([]string{}, sink.msgs...)
		serr := sink.err
		sink.mu.Unlock()
		sink.stop()
		go tr.Close() // waits up to ConnectTimeout for a stream close nobody sends
		if serr != nil {
			return c08Anomaly("sink", serr.Error())
		}
		if ws {
			if len(msgs) == 0 {
				return c08Anomaly("lost", "nothing received")
			}
			elems = msgs[1:] // msgs[0] is the client's <open/>
		} else {
			var perr string
			elems, perr = c08SplitStream(buf)
			if perr != "" {
				return c08Anomaly("torn", perr)
			}
		}
	}
	seen := map[string]int{}
	var wire []Sx
	var sched []int
	next := make([]int, in.Senders)
	for i, e := range elems {
		id, perr := c08ElementID(e)
		if perr != "" {
			return c08Anomaly("torn", fmt.Sprintf("element %d does not parse as one element: %s", i, perr))
		}
		st, ok := sent[id]
		if !ok {
			return c08Anomaly("foreign", fmt.Sprintf("element %d has id %q that was never sent", i, id))
		}
		if got, want := st.op.tok(e), st.op.want(); got != want {
			return c08Anomaly("bytes", fmt.Sprintf("element %d (id %s) on the wire is not the stanza sent (read as XML elements; raw strings byte for byte): got %.120q want %.120q", i, id, got, want))
		}
		seen[id]++
		if seen[id] > 1 {
			return c08Anomaly("duplicate", fmt.Sprintf("id %s arrived %d times", id, seen[id]))
		}
		if st.seq > next[st.sender] {
			return c08Anomaly("lost", fmt.Sprintf("sender %d: stanza %d never arrived (stanza %d is already on the wire)", st.sender, next[st.sender], st.seq))
		}
		if st.seq != next[st.sender] {
			return c08Anomaly("order", fmt.Sprintf("sender %d: stanza %d arrived when %d was due", st.sender, st.seq, next[st.sender]))
		}
		next[st.sender]++
		wire = append(wire, SBytes(id))
		sched = append(sched, st.sender)
	}
	if len(seen) != len(sent) {
		return c08Anomaly("lost", fmt.Sprintf("%d of %d stanzas arrived", len(seen), len(sent)))
	}
	if smq != nil {
		// number and write are one step: the queue holds every stanza, in wire order
		if len(smq.Uslice) != len(elems) {
			return c08Anomaly("queue", fmt.Sprintf("%d stanzas on the wire, %d held in the unacknowledged queue", len(elems), len(smq.Uslice)))
		}
		for i, e := range elems {
			id, _ := c08ElementID(e)
			if op := sent[id].op; op.tok(smq.Uslice[i].Stz) != op.tok(e) {
				return c08Anomaly("queue-order", fmt.Sprintf("queue entry %d is not element %d of the wire (id %s)", i, i, id))
			}
		}
		hist("stress:queue-complete-in-wire-order")
	}
	in.Sched = sched
	return L(LS(wire), B(true), B(true))
}

func c08OutDir() string {
	if f := flag.Lookup("out"); f != nil && f.Value.String() != "" {
		return f.Value.String()
	}
	return "."
}

// c08SplitStream cuts a client byte stream (after its header) into its top-level
// elements with encoding/xml, returning each element's exact bytes.
func c08SplitStream(buf []byte) ([]string, string) {
	d := xml.NewDecoder(bytes.NewReader(buf))
	depth := 0
	var elems []string
	var startOff int64
	for {
		before := d.InputOffset()
		tok, err := d.Token()
		if err == io.EOF {
			break
		}
		if err != nil {
			// the stream is never closed: running out of input inside the root is the normal end
			if depth == 1 && d.InputOffset() >= int64(len(buf)) && strings.Contains(err.Error(), "unexpected EOF") {
				break
			}
			return nil, fmt.Sprintf("byte stream does not parse at offset %d: %v", d.InputOffset(), err)
		}
		switch t := tok.(type) {
		case xml.StartElement:
			if depth == 1 {
				startOff = before
			}
			depth++
		case xml.EndElement:
			depth--
			if depth == 1 {
				elems = append(elems, string(buf[startOff:d.InputOffset()]))
			}
		case xml.CharData:
			if depth == 1 && len(bytes.TrimSpace(t)) > 0 {
				return nil, fmt.Sprintf("character data %q between stanzas at offset %d", string(t), before)
			}
		}
	}
	if depth != 1 {
		return nil, fmt.Sprintf("stream ends inside an element (depth %d)", depth)
	}
	return elems, ""
}

// c08ElementID parses s as exactly one element and returns its id attribute.
func c08ElementID(s string) (string, string) {
	d := xml.NewDecoder(strings.NewReader(s))
	depth, id, done := 0, "", false
	for {
		tok, err := d.Token()
		if err == io.EOF {
			break
		}
		if err != nil {
			return "", err.Error()
		}
		switch t := tok.(type) {
		case xml.StartElement:
			if done {
				return "", "more than one element"
			}
			if depth == 0 {
				for _, a := range t.Attr {
					if a.Name.Local == "id" && a.Name.Space == "" {
						id = a.Value
					}
				}
			}
			depth++
		case xml.EndElement:
			depth--
			if depth == 0 {
				done = true
			}
		case xml.CharData:
			if depth == 0 && len(bytes.TrimSpace(t)) > 0 {
				return "", "text outside the element"
			}
		}
	}
	if !done || depth != 0 {
		return "", "incomplete element"
	}
	return id, ""
}

func c08InputStress(in *c08In) Sx {
	senders := make([]Sx, in.Senders)
	for s := 0; s < in.Senders; s++ {
		ids := make([]Sx, in.PerSender)
		for q := 0; q < in.PerSender; q++ {
			ids[q] = SBytes(fmt.Sprintf("s%d-%d", s, q))
		}
		senders[s] = LS(ids)
	}
	sched := make([]Sx, len(in.Sched))
	for i, k := range in.Sched {
		sched[i] = Zi(k)
	}
	return L(Z(2), LS(senders), LS(sched))
}

// Model-free oracle for the real-transport modes: the multiset of ids on the wire is
// the multiset sent and every sender's order is kept (bytes, duplicates, foreign and
// torn elements were checked against xml.Marshal while reading the wire).
func c08OracleStress(in *c08In, obs Sx) (string, string) {
	if len(obs.L) == 3 && obs.L[0].K == "s" {
		return in.Mode + ": " + string(bytesOf(obs.L[2])), "stress-" + string(bytesOf(obs.L[1]))
	}
	if len(obs.L) != 3 {
		return "unexpected observation shape", "shape"
	}
	var got []string
	next := map[string]int{}
	for _, x := range obs.L[0].L {
		id := string(bytesOf(x))
		got = append(got, id)
		var s, q int
		if _, err := fmt.Sscanf(id, "s%d-%d", &s, &q); err != nil {
			return "unreadable id " + id, "stress-foreign"
		}
		k := fmt.Sprint(s)
		if q != next[k] {
			return fmt.Sprintf("sender %d out of order: %d when %d was due", s, q, next[k]), "stress-order"
		}
		next[k]++
	}
	var want []string
	for s := 0; s < in.Senders; s++ {
		for q := 0; q < in.PerSender; q++ {
			want = append(want, fmt.Sprintf("s%d-%d", s, q))
		}
	}
	sort.Strings(got)
	sort.Strings(want)
	if len(got) != len(want) {
		return fmt.Sprintf("%d elements on the wire, %d sent", len(got), len(want)), "stress-lost"
	}
	for i := range got {
		if got[i] != want[i] {
			return "multiset of ids on the wire differs from the multiset sent at " + want[i], "stress-lost"
		}
	}
	return "", ""
}

// ---------------------------------------------------------------- Property interface

func (c08) Decode(raw json.RawMessage) (interface{}, error) {
	in := &c08In{}
	err := json.Unmarshal(raw, in)
	if in.Mode == "seq" {
		for i := range in.SockF {
			if in.SockF[i].N > 2 {
				in.SockF[i].N = c08All
			}
		}
	}
	return in, err
}

func (c08) Run(inp interface{}) Sx {
	in := inp.(*c08In)
	switch in.Mode {
	case "seq":
		return c08RunSeq(in)
	case "logger":
		return c08RunLogger(in)
	case "tcp", "ws", "mem", "held":
		return c08RunStress(in)
	case "wsfault":
		return c08RunWSFault(in)
	case "connect":
		return c08RunConnect(in)
	}
	return L(SBytes("unknown-mode"))
}

func (c08) Input(inp interface{}) Sx {
	in := inp.(*c08In)
	switch in.Mode {
	case "seq":
		return c08InputSeq(in)
	case "logger":
		return c08InputLogger(in)
	case "wsfault":
		return c08InputWSFault(in)
	case "connect":
		return c08InputConnect(in)
	}
	return c08InputStress(in)
}

func (c08) Oracle(inp interface{}, obs Sx) (string, string) {
	in := inp.(*c08In)
	if obs.K != "l" {
		return "unexpected observation", "shape"
	}
	switch in.Mode {
	case "seq":
		return c08OracleSeq(in, obs)
	case "logger":
		return c08OracleLogger(in, obs)
	case "wsfault":
		return c08OracleWSFault(in, obs)
	case "connect":
		return c08OracleConnect(in, obs)
	}
	return c08OracleStress(in, obs)
}

func c08SizeClass(n int) string {
	switch {
	case n <= 1:
		return "0-1"
	case n < 100:
		return "<100"
	case n < 1000:
		return "<1k"
	case n < 8000:
		return "<8k"
	default:
		return "8k-20k+"
	}
}

func (c08) Key(inp interface{}) (string, bool) {
	in := inp.(*c08In)
	hist("mode:" + in.Mode)
	if in.Mode == "connect" {
		hist(fmt.Sprintf("connect:hook=%v reset=%v", in.Hook, in.Reset))
		return fmt.Sprintf("connect h%v r%v s%d", in.Hook, in.Reset, in.Seed), true
	}
	switch in.Mode {
	case "held":
		for _, n := range in.Big {
			hist("held:size=" + c08HeldClass(n))
		}
		hist(fmt.Sprintf("held:component=%v sm=%v log=%v keepalive=%v senders=%d", in.Component, in.SM, in.Log, in.KA, in.Senders))
		return fmt.Sprintf("held c%v sm%v log%v ka%v %dx%d big%v seed%d", in.Component, in.SM, in.Log, in.KA, in.Senders, in.PerSender, in.Big, in.Seed), in.Senders >= 2 || in.KA
	case "tcp", "ws", "mem":
		k := fmt.Sprintf("%s c%v sm%v log%v %dx%d max%d seed%d", in.Mode, in.Component, in.SM, in.Log, in.Senders, in.PerSender, in.MaxLen, in.Seed)
		hist(fmt.Sprintf("stress:%s component=%v sm=%v log=%v", in.Mode, in.Component, in.SM, in.Log))
		return k, in.Senders >= 2 && in.PerSender >= 2
	}
	if in.Mode == "wsfault" {
		big := in.FailFrom < len(in.Ops) && len(in.Ops[in.FailFrom].data()) >= 4096
		hist(fmt.Sprintf("wsfault:first-failing-send>=4KiB=%v", big))
		hist(fmt.Sprintf("wsfault:log=%v break=%d", in.Log, in.Break))
		if in.FailFrom >= len(in.Ops) {
			hist("wsfault:no-failure")
		}
	}
	var b strings.Builder
	fmt.Fprintf(&b, "f%d ns%v br%d ", in.FailFrom, in.NoSess, in.Break)
	fmt.Fprintf(&b, "%s c%v sm%v log%v nc%d|", in.Mode, in.Component, in.SM, in.Log, in.Conn)
	if in.Mode == "seq" {
		role := "client-sm-off"
		if in.Component {
			role = "component"
		} else if in.SM {
			role = "client-sm-on"
		}
		hist("cfg:" + role)
		hist(fmt.Sprintf("cfg:logger=%v", in.Log))
		hist([]string{"cfg:connected", "cfg:no-transport", "cfg:tcp-transport-never-connected", "cfg:ws-transport-never-connected", "cfg:ws-transport-dial-refused", "cfg:send-gate-closed-after-failed-connect"}[in.Conn%6])
		if in.NoSess {
			hist("cfg:client-without-session")
		}
	}
	writes := 0
	if in.Mode == "seq" || in.Mode == "wsfault" {
		for _, pl := range in.plan() {
			if pl.pending {
				hist("iq:refused-id-still-pending")
			}
			if pl.badType {
				hist("iq:refused-type")
			}
		}
	}
	for _, o := range in.Ops {
		n := o.Len + len(o.Raw)
		fmt.Fprintf(&b, "%s%s/%s,", o.K, o.Typ, c08SizeClass(n))
		hist("op:" + o.K)
		hist("size:" + c08SizeClass(n))
		if in.Conn == 0 && !(o.K == "sendiq" && !o.iqGetSet()) {
			writes++
		}
	}
	for _, f := range in.SockF {
		fmt.Fprintf(&b, "S%d.%d.%s;", f.K, f.Kind, c08SizeClass(f.N))
		hist(fmt.Sprintf("fault:socket-kind%d", f.Kind))
	}
	if len(in.SockF) == 0 {
		hist("fault:none")
	}
	return b.String(), writes >= 2
}

// ---------------------------------------------------------------- generation

var c08Jids = []string{"", "a@b", "user@localhost/res", "rö@dömain/ré&<s>", "x@y/\"q'", "50%off@d/%s%d"}
var c08MsgTypes = []string{"", "chat", "normal", "groupchat", "headline", "error"}

func c08GenLen(r *rand.Rand, big bool) int {
	switch c := r.Intn(20); {
	case c == 0:
		return 0
	case c == 1:
		return 1
	case c < 12:
		return r.Intn(60)
	case c < 18 || !big:
		return r.Intn(600)
	default:
		return 1000 + r.Intn(19500)
	}
}

func c08GenOp(r *rand.Rand, i int, big bool) c08Op {
	o := c08Op{ID: fmt.Sprintf("i%d", i), Seed: r.Int63n(1 << 40), Len: c08GenLen(r, big),
		To: c08Jids[r.Intn(len(c08Jids))], From: c08Jids[r.Intn(len(c08Jids))]}
	if r.Intn(4) == 0 {
		o.Lang = []string{"en", "fr", "zh-Hant"}[r.Intn(3)]
	}
	if r.Intn(8) == 0 {
		// ids with metacharacters / empty (kept valid UTF-8 so that the JSON replay file is exact)
		o.ID = strings.ToValidUTF8(c08Text(o.Seed+7, r.Intn(12)), "?")
	}
	switch c := r.Intn(20); {
	case c < 6:
		o.K, o.Typ = "msg", c08MsgTypes[r.Intn(len(c08MsgTypes))]
	case c < 9:
		o.K, o.Typ = "pres", []string{"", "unavailable", "subscribe"}[r.Intn(3)]
	case c < 11:
		o.K, o.Typ = "iq", []string{"get", "set", "result", "error"}[r.Intn(4)]
	case c < 14:
		o.K, o.Typ = "sendiq", []string{"get", "set", "result", "error", "get", "set"}[r.Intn(6)]
		if r.Intn(2) == 0 {
			o.ID = []string{"dup", "dup", "dup2", ""}[r.Intn(4)] // ids that recur within a history
		}
	case c < 15:
		o = c08Op{K: []string{"smr", "smrp", "nil"}[r.Intn(3)]}
	case c < 16:
		o = c08Op{K: []string{"sma", "smap"}[r.Intn(2)], H: uint(r.Intn(1000))}
	default:
		o = c08Op{K: "raw", Seed: o.Seed, Len: o.Len, Raw: []string{"", "<r xmlns='urn:xmpp:sm:3'/>", "<presence/>", "<message><body>", " ", "</stream:stream>", "100%", "%s %d %%", "<a xmlns=\"urn:xmpp:sm:3\" h=\"2\"/>", " <r xmlns='urn:xmpp:sm:3'/><message/>", "<r xmlns='urn:x'/>",
			"<inactive xmlns='urn:xmpp:csi:0'/>", "<active xmlns='urn:xmpp:csi:0'/>", "<message xmlns='jabber:client' id='x'/>", "<message xmlns='urn:other'/>", "<iq type='get' id='y'/>", "\n", "<presence/><presence/>"}[r.Intn(18)]}
		if r.Intn(6) == 0 { // exactly a white space keepalive / the empty string
			o.Len = 0
			o.Raw = []string{" ", "", "\n"}[r.Intn(3)]
		}
	}
	return o
}

// exact: the payloads are compared byte for byte (logger mode), any byte count is meaningful;
// otherwise the counts are 0, 1, 2 or everything (see c08All).
func c08GenFaults(r *rand.Rand, ncalls int, exact bool, dataLen func(k int) int) []c08Fault {
	var fs []c08Fault
	if ncalls == 0 {
		return nil
	}
	n := 1
	if r.Intn(4) == 0 {
		n = 2
	}
	for j := 0; j < n; j++ {
		k := r.Intn(ncalls + 1) // may lie past the last call: never hit
		l := dataLen(k)
		f := c08Fault{K: k, Kind: 1 + r.Intn(2)}
		if !exact {
			f.N = []int{0, 0, 1, 2, c08All, c08All}[r.Intn(6)]
			fs = append(fs, f)
			continue
		}
		switch r.Intn(5) {
		case 0:
			f.N = 0
		case 1:
			f.N = l // "short" write that is not short / error after everything was taken
		case 2:
			f.N = l + 1 + r.Intn(3)
		default:
			if l > 0 {
				f.N = r.Intn(l)
			}
		}
		fs = append(fs, f)
	}
	return fs
}

func (c08) Gen(r *rand.Rand, tier string) []interface{} {
	nseq, nlog := 1500, 400
	if tier == "thorough" {
		nseq, nlog = 12000, 3000
	}
	var out []interface{}
	// fixed corners
	out = append(out,
		&c08In{Mode: "seq", Ops: []c08Op{}},
		&c08In{Mode: "seq", SM: true, Log: true, Ops: []c08Op{{K: "msg", ID: "1", Len: 5, Seed: 1}, {K: "sendiq", ID: "2", Typ: "result"}, {K: "raw", Raw: "<r/>"}, {K: "smr"}, {K: "sma", H: 3}, {K: "sendiq", ID: "3", Typ: "get"}},
			SockF: []c08Fault{{K: 1, Kind: 1, N: 1}, {K: 2, Kind: 2, N: 1}}},
		&c08In{Mode: "seq", Component: true, Ops: []c08Op{{K: "msg", ID: "1", Len: 5, Seed: 1}, {K: "raw", Raw: "x"}, {K: "sendiq", ID: "3", Typ: "set"}}, SockF: []c08Fault{{K: 0, Kind: 1}, {K: 1, Kind: 1}, {K: 2, Kind: 1}}},
		&c08In{Mode: "seq", Conn: 1, SM: true, Ops: []c08Op{{K: "msg", ID: "1"}, {K: "raw", Raw: "x"}, {K: "sendiq", ID: "3", Typ: "set"}, {K: "sendiq", ID: "3", Typ: "error"}}},
		&c08In{Mode: "seq", Conn: 2, SM: true, Log: true, Ops: []c08Op{{K: "msg", ID: "1"}, {K: "smr"}, {K: "raw", Raw: "x"}, {K: "sendiq", ID: "3", Typ: "get"}, {K: "sendiq", ID: "4", Typ: "result"}}},
		&c08In{Mode: "seq", Conn: 2, Component: true, Ops: []c08Op{{K: "msg", ID: "1"}, {K: "raw", Raw: "x"}, {K: "sendiq", ID: "3", Typ: "get"}}},
		&c08In{Mode: "seq", Conn: 1, Component: true, Ops: []c08Op{{K: "msg", ID: "1"}, {K: "raw", Raw: "x"}, {K: "sendiq", ID: "3", Typ: "get"}}},
		// no session object (before Connect / after a failed Connect or Resume), stream management on
		&c08In{Mode: "seq", SM: true, NoSess: true, Conn: 2, Ops: []c08Op{{K: "msg", ID: "1"}, {K: "raw", Raw: "x"}, {K: "sendiq", ID: "3", Typ: "get"}}},
		&c08In{Mode: "seq", SM: true, NoSess: true, Ops: []c08Op{{K: "msg", ID: "1"}, {K: "raw", Raw: "x"}, {K: "sendiq", ID: "3", Typ: "get"}, {K: "smr"}}},
		&c08In{Mode: "seq", NoSess: true, Conn: 2, Ops: []c08Op{{K: "msg", ID: "1"}, {K: "raw", Raw: "x"}}},
		// WebSocket transport without a connection
		&c08In{Mode: "seq", Conn: 3, Ops: []c08Op{{K: "msg", ID: "1"}, {K: "raw", Raw: "x"}, {K: "sendiq", ID: "3", Typ: "get"}}},
		&c08In{Mode: "seq", Conn: 5, SM: true, Ops: []c08Op{{K: "msg", ID: "1"}, {K: "raw", Raw: "x"}, {K: "sendiq", ID: "3", Typ: "get"}, {K: "smr"}}},
		&c08In{Mode: "seq", Conn: 5, Ops: []c08Op{{K: "msg", ID: "1"}, {K: "sendiq", ID: "3", Typ: "set"}}},
		// what stream management must not hold: keepalive, client state indication, empty string, nil packet
		&c08In{Mode: "seq", SM: true, Ops: []c08Op{{K: "pres", ID: "p"}, {K: "raw", Raw: " "}, {K: "raw", Raw: "<inactive xmlns='urn:xmpp:csi:0'/>"}, {K: "raw", Raw: ""}, {K: "nil"}, {K: "msg", ID: "m1"}, {K: "raw", Raw: "<iq type='get' id='q'/>"}}},
		// the same id twice: the second request is refused while the first awaits its response
		&c08In{Mode: "seq", SM: true, Ops: []c08Op{{K: "sendiq", ID: "a", Typ: "get"}, {K: "sendiq", ID: "a", Typ: "set"}, {K: "sendiq", ID: "b", Typ: "get"}, {K: "iq", ID: "a", Typ: "get"}}},
		&c08In{Mode: "seq", Component: true, Ops: []c08Op{{K: "sendiq", ID: "a", Typ: "get"}, {K: "sendiq", ID: "a", Typ: "get"}, {K: "sendiq", ID: "a", Typ: "get"}}, SockF: []c08Fault{{K: 0, Kind: 1}}},
		&c08In{Mode: "seq", Conn: 4, SM: true, Log: true, Ops: []c08Op{{K: "msg", ID: "1"}, {K: "raw", Raw: "x"}, {K: "sendiq", ID: "3", Typ: "set"}, {K: "sendiq", ID: "4", Typ: "result"}}},
		&c08In{Mode: "seq", Ops: []c08Op{{K: "raw", Raw: "abc"}}, SockF: []c08Fault{{K: 0, Kind: 2, N: 1}}}, // short count, nil error, no logger: not reported (io.Writer contract broken by the socket)
		&c08In{Mode: "logger", Ops: []c08Op{{K: "raw", Raw: ""}, {K: "raw", Raw: "abc"}, {K: "raw", Raw: "de"}}, SockF: []c08Fault{{K: 1, Kind: 2, N: 2}, {K: 2, Kind: 2, N: 2}}},
	)
	for i := 0; i < nseq; i++ {
		in := &c08In{Mode: "seq"}
		switch i % 3 {
		case 0:
			in.SM = true
		case 1:
		default:
			in.Component = true
			in.SM = r.Intn(8) == 0 // ignored by components
		}
		in.Log = r.Intn(2) == 0
		if r.Intn(12) == 0 {
			in.Conn = 1 + r.Intn(2)
			if !in.Component && r.Intn(3) == 0 {
				in.Conn = 3 + r.Intn(3)
			}
		}
		if !in.Component && r.Intn(10) == 0 {
			in.NoSess = true
		}
		big := r.Intn(12) == 0
		nops := 1 + r.Intn(12)
		for j := 0; j < nops; j++ {
			in.Ops = append(in.Ops, c08GenOp(r, j, big))
		}
		// data length of the k-th socket write (for fault sizes)
		var lens []int
		for _, o := range in.Ops {
			if !(o.K == "sendiq" && !o.iqGetSet()) {
				lens = append(lens, len(o.data()))
			}
		}
		dl := func(k int) int {
			if k < len(lens) {
				return lens[k]
			}
			return 3
		}
		if r.Intn(3) != 0 {
			in.SockF = c08GenFaults(r, len(lens), false, dl)
		}
		out = append(out, in)
	}
	for i := 0; i < nlog; i++ {
		in := &c08In{Mode: "logger"}
		n := 1 + r.Intn(8)
		big := r.Intn(10) == 0
		var lens []int
		for j := 0; j < n; j++ {
			o := c08Op{K: "raw", Seed: r.Int63n(1 << 40), Len: c08GenLen(r, big), Raw: []string{"", "<a/>", "SEND:\n", "\n\n"}[r.Intn(4)]}
			in.Ops = append(in.Ops, o)
			lens = append(lens, len(o.rawString()))
		}
		dl := func(k int) int {
			if k < len(lens) {
				return lens[k]
			}
			return 3
		}
		if r.Intn(3) != 0 {
			in.SockF = c08GenFaults(r, n, true, dl)
		}
		out = append(out, in)
	}
	// real WebSocket transport whose TCP connection breaks before op FailFrom
	nwsf := 16
	if tier == "thorough" {
		nwsf = 120
	}
	out = append(out,
		&c08In{Mode: "wsfault", FailFrom: 1, Ops: []c08Op{{K: "msg", ID: "1", Len: 10, Seed: 3}, {K: "msg", ID: "2", Len: 20, Seed: 4}, {K: "msg", ID: "3", Len: 5, Seed: 5}}},
		&c08In{Mode: "wsfault", FailFrom: 0, SM: true, Ops: []c08Op{{K: "raw", Raw: "<presence/>"}, {K: "sendiq", ID: "2", Typ: "get"}}},
		&c08In{Mode: "wsfault", FailFrom: 1, Ops: []c08Op{{K: "pres", ID: "1"}, {K: "sendiq", ID: "2", Typ: "set", Len: 30, Seed: 9}}},
		&c08In{Mode: "wsfault", FailFrom: 1, Ops: []c08Op{{K: "pres", ID: "1"}, {K: "msg", ID: "2", Len: 9000, Seed: 9}, {K: "msg", ID: "3", Len: 3}}},
	)
	// every send position x traffic log absent/present x kind of break x stream management
	fam := []c08Op{{K: "msg", ID: "m", Len: 12, Seed: 21}, {K: "raw", Raw: "<presence id='r'/>"}, {K: "sendiq", ID: "q", Typ: "get", Len: 8, Seed: 22}}
	for k := 0; k <= len(fam); k++ {
		for v := 0; v < 8; v++ {
			ops := make([]c08Op, len(fam))
			for j := range fam {
				ops[j] = fam[(j+k)%len(fam)] // the first failing send is a Send, a SendRaw, a SendIQ in turn
			}
			brk := 0
			if v&2 != 0 {
				brk = 2
			}
			out = append(out, &c08In{Mode: "wsfault", FailFrom: k, Log: v&1 != 0, Break: brk, SM: v&4 != 0, Ops: ops})
		}
	}
	for i := 0; i < nwsf; i++ {
		in := &c08In{Mode: "wsfault", SM: r.Intn(2) == 0, Log: r.Intn(2) == 0, Break: []int{0, 0, 2}[r.Intn(3)]}
		nops := 1 + r.Intn(6)
		for j := 0; j < nops; j++ {
			o := c08GenOp(r, j, false)
			if o.nonza() && o.K != "raw" {
				o = c08Op{K: "pres", ID: fmt.Sprint("p", j), Seed: o.Seed}
			}
			in.Ops = append(in.Ops, o)
		}
		in.FailFrom = r.Intn(nops + 1)
		if in.FailFrom < nops && r.Intn(4) == 0 { // the large variant: the first failing send exceeds the 4 KiB write buffer
			in.Ops[in.FailFrom].Len = 5000 + r.Intn(15000)
		}
		out = append(out, in)
	}
	// the send Connect makes itself: hook set or not x connection healthy or reset after the bind
	for v := 0; v < 4; v++ {
		out = append(out, &c08In{Mode: "connect", Hook: v&1 != 0, Reset: v&2 != 0})
	}
	if tier == "thorough" {
		for k := 1; k <= 3; k++ {
			for v := 0; v < 4; v++ {
				out = append(out, &c08In{Mode: "connect", Hook: v&1 != 0, Reset: v&2 != 0, Seed: int64(k)})
			}
		}
	}
	// concurrent senders, in memory: tiny stanzas, maximal contention on the send path
	nmem := 24
	if tier == "thorough" {
		nmem = 200
	}
	for i := 0; i < nmem; i++ {
		in := &c08In{Mode: "mem", SM: i%4 < 2, Component: i%4 == 2, Log: i%5 == 1, Senders: 2 + r.Intn(15), PerSender: 100 + r.Intn(400), MaxLen: 40, Seed: r.Int63n(1 << 30)}
		out = append(out, in)
	}
	// real transports
	type cf struct{ comp, sm, log bool }
	cfgs := []cf{{false, false, false}, {false, true, false}, {false, false, true}, {false, true, true}, {true, false, false}, {true, false, true}}
	rounds, senders, per := 2, 8, 100
	if tier == "thorough" {
		rounds, senders, per = 4, 16, 200
	}
	for k := 0; k < rounds; k++ {
		if tier != "thorough" && k == 1 {
			senders, per = 12, 50
		}
		for _, c := range cfgs {
			out = append(out, &c08In{Mode: "tcp", Component: c.comp, SM: c.sm, Log: c.log, Senders: senders, PerSender: per, MaxLen: 20000, Seed: r.Int63n(1 << 30)})
			if !c.comp { // components have no websocket transport
				out = append(out, &c08In{Mode: "ws", SM: c.sm, Log: c.log, Senders: senders, PerSender: per, MaxLen: 20000, Seed: r.Int63n(1 << 30)})
			}
		}
		// mode held: stanzas below, at and above the transport's packet size from 2-4 senders over a connection
		// that lets every other ready writer in after each Write call
		if k == 0 || tier == "thorough" {
			sizes := []int{32767, 32768, 32769, 65536, 100000, 200000}
			for i, n := range sizes {
				// all stanzas of that size / mixed with small ones; component, client with the keep-alive loop
				out = append(out,
					&c08In{Mode: "held", Component: true, Log: i%3 == 2, Senders: 2 + i%3, PerSender: 2, Big: []int{n}, Seed: r.Int63n(1 << 30)},
					&c08In{Mode: "held", Component: true, Log: i%3 == 0, Senders: 2 + (i+1)%3, PerSender: 3, Big: []int{n, 150, n + 1}, Seed: r.Int63n(1 << 30)},
					&c08In{Mode: "held", SM: i%2 == 0, Log: i%3 == 1, KA: true, Senders: 2 + (i+2)%3, PerSender: 2, Big: []int{n, 3000}, Seed: r.Int63n(1 << 30)})
			}
			out = append(out,
				// controls: small stanzas only; one sender; a client without the keep-alive loop (its senders are serialised by its lock)
				&c08In{Mode: "held", Component: true, Senders: 4, PerSender: 6, Big: []int{10, 200, 3000, 20000}, Seed: r.Int63n(1 << 30)},
				&c08In{Mode: "held", KA: true, SM: true, Senders: 3, PerSender: 6, Big: []int{10, 200, 3000, 20000}, Seed: r.Int63n(1 << 30)},
				&c08In{Mode: "held", Component: true, Senders: 1, PerSender: 4, Big: sizes, Seed: r.Int63n(1 << 30)},
				&c08In{Mode: "held", KA: true, Senders: 1, PerSender: 6, Big: sizes, Seed: r.Int63n(1 << 30)},
				&c08In{Mode: "held", SM: true, Senders: 3, PerSender: 2, Big: []int{200000, 32769}, Seed: r.Int63n(1 << 30)},
				&c08In{Mode: "held", Log: true, Senders: 2, PerSender: 2, Big: []int{65536, 100}, Seed: r.Int63n(1 << 30)},
				// everything at once
				&c08In{Mode: "held", Component: true, Log: true, Senders: 4, PerSender: 6, Big: sizes, Seed: r.Int63n(1 << 30)},
				&c08In{Mode: "held", KA: true, SM: true, Senders: 4, PerSender: 3, Big: sizes, Seed: r.Int63n(1 << 30)})
		}
		// a single sender (the wire must be its list) and many small senders
		out = append(out, &c08In{Mode: "tcp", SM: true, Log: true, Senders: 1, PerSender: 40, MaxLen: 20000, Seed: r.Int63n(1 << 30)})
		out = append(out, &c08In{Mode: "tcp", Senders: 16, PerSender: 50 + r.Intn(40), MaxLen: 2000, Seed: r.Int63n(1 << 30)})
	}
	return out
}
