package main

// C01: stanza encode/decode round trip; text never injects XML.
//
// One typed description (c01In, JSON) is turned into (a) the real Go value of
// /repo/stanza and (b) the model's input.  Observed on the implementation: the
// DOCUMENT its xml.Marshal bytes denote (read by a neutral reader: resolved names,
// sorted attributes, exact character data; not the bytes), and the canonical
// description of xml.Unmarshal into a fresh value of the same type, once of those
// bytes and once of the same document re-written the way the model's printer writes
// it.  The model (Model/Codec.v through Corr/RunC01.v) must produce the same: the
// tree enc v, and the value dec (parse (print (enc v))).
// Model-free oracle: round trip of the description, byte identity of the second
// marshal, skeleton invariance under text replacement.  Kind "reflect" cases are
// oracle-only: every registered type and the stream elements, filled by reflection.

import (
	"bytes"
	"encoding/json"
	"encoding/xml"
	"fmt"
	"hash/fnv"
	"math/rand"
	"reflect"
	"sort"
	"strconv"
	"strings"
	"sync"
	"time"
	"unicode/utf8"

	"gosrc.io/xmpp/stanza"
)

type c01KV struct {
	K string `json:"k"`
	V string `json:"v"`
	// namespace of the attribute name: only in the oracle-only kind "qattr" (the model's
	// attributes are unqualified)
	NS string `json:"ns,omitempty"`
}
type c01Node struct {
	Space   string    `json:"space,omitempty"`
	Local   string    `json:"local"`
	Attrs   []c01KV   `json:"attrs,omitempty"`
	Content string    `json:"content,omitempty"`
	Nodes   []c01Node `json:"nodes,omitempty"`
}
type c01Err struct {
	Code   int    `json:"code,omitempty"`
	Type   string `json:"type,omitempty"`
	Reason string `json:"reason,omitempty"`
	Text   string `json:"text,omitempty"`
}
type c01Ext struct {
	GoType string `json:"gotype"`
	Seed   int64  `json:"seed"`
}
type c01In struct {
	Kind string `json:"kind"`
	// Attrs
	Type string `json:"type,omitempty"`
	Id   string `json:"id,omitempty"`
	From string `json:"from,omitempty"`
	To   string `json:"to,omitempty"`
	Lang string `json:"lang,omitempty"`
	// message / presence children
	Subject  string   `json:"subject,omitempty"`
	Body     string   `json:"body,omitempty"`
	Thread   string   `json:"thread,omitempty"`
	Show     string   `json:"show,omitempty"`
	Status   string   `json:"status,omitempty"`
	Priority int      `json:"priority,omitempty"`
	Err      *c01Err  `json:"err,omitempty"` // message/presence: nil = zero Err; iq: nil pointer
	Exts     []c01Ext `json:"exts,omitempty"`
	Payload  *c01Ext  `json:"payload,omitempty"`
	Any      *c01Node `json:"any,omitempty"` // iq: Any; kind node: the node
	// stream management / sasl / handshake
	Max       *uint64 `json:"max,omitempty"`
	H         *uint64 `json:"h,omitempty"`
	Resume    *bool   `json:"resume,omitempty"`
	SId       string  `json:"sid,omitempty"`
	Location  string  `json:"location,omitempty"`
	SResume   string  `json:"sresume,omitempty"`
	PrevId    string  `json:"previd,omitempty"`
	MaxU      uint64  `json:"maxu,omitempty"`
	HU        uint64  `json:"hu,omitempty"`
	Mechanism string  `json:"mechanism,omitempty"`
	Value     string  `json:"value,omitempty"`
	Cond      string  `json:"cond,omitempty"`  // smfailed: element name of the condition
	Depth     int     `json:"depth,omitempty"` // kind deepnode: nesting depth of the generic payload
	// kind reflect: oracle only
	GoType string `json:"gotype,omitempty"`
	Seed   int64  `json:"seed,omitempty"`
	Wrap   string `json:"wrap,omitempty"` // "", message, presence, iq
	// kind reflect: which optional fields are set ("1") / left zero ("0"), one character per
	// slot of c01Slots(GoType); empty = random fill
	Mask string `json:"mask,omitempty"`
	// outside the property's domain (a generic node that is not namespace-explicit, a condition
	// called text, an empty *Err): model and code are still compared, the bytes must be one
	// element and decode, the round-trip equality does not apply
	OutOfDomain bool `json:"out_of_domain,omitempty"`
	// a generic node or attribute whose name (type xml.Name) is not a name: encoding/xml writes
	// names unchecked; model and code are compared (both say: not a document), no oracle
	BadNames bool `json:"bad_names,omitempty"`
	// the XMLName the stanza value (and its Err) carries: not part of the model's value, the
	// tag names the element (a stanza parsed from a stream has jabber:client here)
	RootSpace string `json:"rootspace,omitempty"`
	RootLocal string `json:"rootlocal,omitempty"`
	// kind wire: a document that is not the encoding of a value, decoded into the type Into
	Doc  *c01Tree `json:"doc,omitempty"`
	Into string   `json:"into,omitempty"`
	// kind reflect, edge family: the IntSlot-th integer position of the (fully set) value holds
	// IntVal, a value at an edge of the position's Go type or of a narrower integer type
	IntSlot *int   `json:"intslot,omitempty"`
	IntVal  string `json:"intval,omitempty"`
	// kind reflect, wide family: every slice of the (fully set) value has Wide elements.
	// kind wide: a stanza of kind Wrap that carries N extensions of GoType (seeds Seed..), by
	// itself or (Nested) as the stanza forwarded by a delegation in an outer message
	// kind reflect, time family: the TimeSlot-th time position holds TimeVal (RFC 3339 with
	// nanoseconds, years beyond 9999 allowed); look-alike family: the NodeSlot-th position that
	// can hold a generic node holds one of another namespace whose local name is NodeName
	TimeSlot *int   `json:"timeslot,omitempty"`
	TimeVal  string `json:"timeval,omitempty"`
	NodeSlot *int   `json:"nodeslot,omitempty"`
	NodeName string `json:"nodename,omitempty"`
	Wide     int    `json:"wide,omitempty"`
	N        int    `json:"n,omitempty"`
	Nested   bool   `json:"nested,omitempty"`
}

// c01Tree: an element tree as Model/XmlPrint.v has them (Text != "" or !Elem: character data)
type c01Tree struct {
	Elem  bool      `json:"elem,omitempty"`
	Space string    `json:"space,omitempty"`
	Local string    `json:"local,omitempty"`
	Attrs []c01KV   `json:"attrs,omitempty"`
	Kids  []c01Tree `json:"kids,omitempty"`
	Text  string    `json:"text,omitempty"`
}

func (t c01Tree) xt() *c01XT {
	if !t.Elem {
		return &c01XT{Raw: strings.Contains(t.Text, "\n"), Text: t.Text}
	}
	n := &c01XT{Elem: true, Space: t.Space, Local: t.Local, Attrs: t.Attrs}
	for _, k := range t.Kids {
		n.Kids = append(n.Kids, k.xt())
	}
	return n
}

type c01 struct{}

func init() { register(c01{}) }

func (c01) ID() string    { return "C01" }
func (c01) RunFn() string { return "run_C01" }
func (c01) Workers() int  { return 8 }

// Journal: the case in flight is written down first, so that an input that brings the process
// down (fatal stack overflow in the recursive Node encoder) is found again by the driver.
func (c01) Journal() bool { return true }
func (c01) Rule() string {
	return "exhaustive: 3 stanza kinds x 2^5 presence patterns of type/id/from/to/lang x {no child, each child alone}; random: text fields from a pool (ASCII, each XML metacharacter alone and mixed, ]]>, blank-padded, TAB/LF/CR, non-ASCII, astral, 2 kB), Err with code 0/non-zero x fields empty/set, generic Node trees depth<=5 width<=4 with attributes and namespaces, registered extensions (subsets, order, repetition) filled by reflection, SM/SASL-auth/handshake elements; oracle-only reflection cases for every registered type and the SM/SASL/handshake elements, alone and inside its stanza kind; oracle-only subset sweep over which optional fields of each such type are set (every optional position at depth <= 3 is a slot: all-unset, all-set, every slot alone, every slot alone unset, all 2^k patterns when k <= 5 and all 2^g patterns of every group of <= 5 sibling fields with the rest unset / set; pointers nil/non-nil, strings empty/non-empty, numbers zero/non-zero, time.Time zero/non-zero, slices empty/non-empty); oracle-only: a generic payload nested 600000 levels deep (marshal, unmarshal, marshal), generic nodes with namespace-qualified attributes; oracle-only noise cases: every registered type inside its stanza kind with unknown children and same-named descendants (of the extension, of the enclosing element, of the stanza, of the core children) injected at random places of the extension's bytes, typed fields compared with the clean decode; texts with characters outside the XML range in every text position (they must come back as U+FFFD and change nothing else); names at the edges of encoding/xml's name grammar, measured on the decoder (every ASCII character and both sides of every edge of the start / continuation sets, alone, after a letter, between letters): accepted names as element names, attribute names and error conditions (must round trip), refused names one per case as a condition (Marshal must refuse) and as generic node / attribute names (model/code comparison only); stanza values that carry an XMLName (jabber:client and others: must make no difference); wire documents that are not the encoding of a value (stanzas in jabber:client / jabber:component:accept / no namespace with known, foreign, unknown and repeated children, numbers and booleans with white space and signs, wrong root names, random trees) decoded into every type: compared with the model's dec, and the parsed value must survive its own round trip; domain: an IQ whose Error pointer is non-nil and points to the all-empty Err is excluded (written as nothing, read back as nil; kept as a hypothesis of the theorem, wf_iq), generated only as an out-of-domain model/code comparison, as are a condition called text and generic nodes that are not namespace-explicit; integer edges: every integer position of the core, of every registered type and of the stream elements (fully set value) at both sides of the edges of its own Go type and of every narrower width (int8/16/32/64, uint8/16/32/64); wide values: every slice of every such type with 32 and 65 elements (thorough: 31, 32, 33, 64, 65, 300), and stanzas carrying 1, 31, 32, 33, 64, 65 extensions of every registered message / presence extension type, alone and as the stanza forwarded by a delegation in an outer message; time positions at the edges of what XEP-0082 carries (fractions down to the nanosecond, zones, years 0, 1, 9999, 10000 and beyond: a year outside 0..9999 must be refused by Marshal); every generic-node position of the types with a decoder of their own holding a node of ANOTHER namespace named like each child element the type itself writes; attributes of another namespace that share a local name with the element's own, on the root and the <error/> child of stanza wire documents and on the root of every extension with a decoder of its own (noise cases): they must not count; distinct = kind + presence pattern of every field + text class + tree shape; non-trivial = at least one non-empty field besides the kind"
}

// ---------------------------------------------------------------- pools

var c01Texts = []string{
	"a", "hello world", "<", ">", "&", "\"", "'", "<a b=\"c\">&amp;'</a>", "]]>", "<![CDATA[x]]>",
	" padded ", "  ", "\t\n\r", "a\nb", "line1\r\nline2", "é", "漢字", "😀", "a=b/>", "&#34;&lt;",
	strings.Repeat("x<&>", 512),
}
var c01Names = []string{"a", "q", "x1", "item-not-found", "no_store", "a.b", "query", "Z"}
var c01Spaces = []string{"urn:x:1", "jabber:client", "http://a/b#c", "u:&<>\"'", "urn:ietf:params:xml:ns:xmpp-stanzas"}
var c01Types = []string{"chat", "get", "set", "result", "error", "groupchat", "unavailable"}

// the 2 kB text (last of the pool) is drawn less often than the others: it dominates
// the size of the case files
func c01Text(r *rand.Rand) string {
	if r.Intn(60) == 0 {
		return c01Texts[len(c01Texts)-1]
	}
	return c01Texts[r.Intn(len(c01Texts)-1)]
}
func c01OptText(r *rand.Rand) string {
	if r.Intn(3) == 0 {
		return ""
	}
	return c01Text(r)
}

// texts with characters outside the XML range (valid UTF-8, so that a replay file keeps them):
// they cannot be written; what must hold is that U+FFFD comes back in their place and that
// they change nothing else
var c01Illegal = []string{"\x00", "a\x01b", "\x0b", "\x0c<\x1f>", "nul\x00 fffe\uFFFE ffff\uFFFF", "\uFFFE", "\uFFFF&\x08\""}

// c01TextAny / c01OptTextAny: for the text fields of the stanza core (not for the reflection
// filler, whose oracle compares without the U+FFFD rule)
func c01TextAny(r *rand.Rand) string {
	if r.Intn(16) == 0 {
		return c01Illegal[r.Intn(len(c01Illegal))]
	}
	return c01Text(r)
}
func c01OptTextAny(r *rand.Rand) string {
	if r.Intn(3) == 0 {
		return ""
	}
	return c01TextAny(r)
}
func c01Plain(r *rand.Rand, alphabet string) string {
	n := r.Intn(40)
	b := make([]byte, n)
	for i := range b {
		b[i] = alphabet[r.Intn(len(alphabet))]
	}
	return string(b)
}

const c01B64 = "ABCDEFGHIJKLMNOPQRSTUVWXYZabcdefghijklmnopqrstuvwxyz0123456789+/="
const c01Hex = "0123456789abcdef"

// ---------------------------------------------------------------- names, as the decoder reads them

// Which characters may start / continue a name is MEASURED on encoding/xml's decoder (every
// code point of the basic plane, once alone and once after a letter), not copied from its
// tables: the model (XmlLex.name_ok) carries a copy of the tables, the repaired
// Err.MarshalXML asks the decoder about the whole string, and this is the third, independent
// reading that the oracle and the generator use.
var (
	c01NameOnce             sync.Once
	c01First, c01Later      [0x10000]bool
	c01ProbeOK, c01ProbeBad []string // names at the edges of the grammar: accepted / refused
)

func c01DecoderReadsName(s string) bool {
	d := xml.NewDecoder(strings.NewReader("<" + s + "></" + s + ">"))
	tok, err := d.Token()
	se, ok := tok.(xml.StartElement)
	if err != nil || !ok || se.Name.Local != s || se.Name.Space != "" || len(se.Attr) != 0 {
		return false
	}
	tok, err = d.Token()
	_, ok = tok.(xml.EndElement)
	return err == nil && ok
}

func c01NameInit() {
	c01NameOnce.Do(func() {
		for c := 1; c < 0x10000; c++ {
			if c >= 0xD800 && c <= 0xDFFF {
				continue
			}
			c01First[c] = c01DecoderReadsName(string(rune(c)))
			c01Later[c] = c01DecoderReadsName("a" + string(rune(c)))
		}
		probe := map[rune]bool{}
		for c := 1; c < 0x80; c++ { // every ASCII character
			probe[rune(c)] = true
		}
		for c := 2; c < 0x10000; c++ { // both sides of every edge of the two sets
			if c01First[c] != c01First[c-1] || c01Later[c] != c01Later[c-1] {
				probe[rune(c)], probe[rune(c-1)] = true, true
			}
		}
		for _, c := range []rune{0xFFFD, 0xFFFE, 0x10000, 0x1F600, 0x10FFFF} {
			probe[c] = true
		}
		var cs []int
		for c := range probe {
			if c < 0xD800 || c > 0xDFFF {
				cs = append(cs, int(c))
			}
		}
		sort.Ints(cs)
		for _, c := range cs {
			for _, n := range []string{string(rune(c)), "a" + string(rune(c)), "a" + string(rune(c)) + "b"} {
				if strings.ContainsRune(n, ':') {
					continue // a prefixed name: outside the modelled language
				}
				if c01IsNameMeasured(n) {
					c01ProbeOK = append(c01ProbeOK, n)
				} else {
					c01ProbeBad = append(c01ProbeBad, n)
				}
			}
		}
	})
}

// c01IsName: a local name the decoder reads back as itself (composed from the measured sets;
// a colon makes a prefixed name)
func c01IsName(s string) bool {
	c01NameInit()
	return c01IsNameMeasured(s)
}

func c01IsNameMeasured(s string) bool {
	if s == "" || !utf8.ValidString(s) {
		return false
	}
	for i, c := range s {
		if c >= 0x10000 || c == ':' {
			return false
		}
		if i == 0 && !c01First[c] || i > 0 && !c01Later[c] {
			return false
		}
	}
	return true
}

// the XML character range (XML 1.0, production 2): what may appear in a document at all
func c01IsXMLChar(c rune) bool {
	return c == 0x9 || c == 0xA || c == 0xD || (c >= 0x20 && c <= 0xD7FF) || (c >= 0xE000 && c <= 0xFFFD) || (c >= 0x10000 && c <= 0x10FFFF)
}

// c01San: the text a reader can get back: characters outside the XML range cannot be written,
// the encoder puts U+FFFD in their place
func c01San(s string) string {
	ok := true
	for _, c := range s {
		if !c01IsXMLChar(c) {
			ok = false
		}
	}
	if ok {
		return s
	}
	var sb strings.Builder
	for _, c := range s {
		if c01IsXMLChar(c) {
			sb.WriteRune(c)
		} else {
			sb.WriteRune(0xFFFD)
		}
	}
	return sb.String()
}

// c01SanIn: the description with every text position passed through c01San
func c01SanIn(in c01In) c01In {
	out := in
	out.Type, out.Id, out.From, out.To, out.Lang = c01San(in.Type), c01San(in.Id), c01San(in.From), c01San(in.To), c01San(in.Lang)
	out.Subject, out.Body, out.Thread, out.Show, out.Status = c01San(in.Subject), c01San(in.Body), c01San(in.Thread), c01San(in.Show), c01San(in.Status)
	if in.Err != nil {
		e := *in.Err
		e.Type, e.Text = c01San(e.Type), c01San(e.Text)
		out.Err = &e
	}
	var sn func(n c01Node) c01Node
	sn = func(n c01Node) c01Node {
		m := c01Node{Space: c01San(n.Space), Local: n.Local, Content: c01San(n.Content)}
		for _, a := range n.Attrs {
			m.Attrs = append(m.Attrs, c01KV{K: a.K, V: c01San(a.V), NS: a.NS})
		}
		for _, k := range n.Nodes {
			m.Nodes = append(m.Nodes, sn(k))
		}
		return m
	}
	if in.Any != nil {
		n := sn(*in.Any)
		out.Any = &n
	}
	out.SId, out.Location, out.SResume, out.PrevId = c01San(in.SId), c01San(in.Location), c01San(in.SResume), c01San(in.PrevId)
	out.Mechanism, out.Value = c01San(in.Mechanism), c01San(in.Value)
	return out
}

// c01BadReason: the value carries an error condition that is not an element name
func c01BadReason(in c01In) bool {
	switch in.Kind {
	case "message", "presence", "iq":
		return in.Err != nil && in.Err.Reason != "" && !c01IsName(in.Err.Reason)
	}
	return false
}

// c01BadNodeNames: a generic node or attribute name that is not a name (or is xmlns)
func c01BadNodeNames(n *c01Node) bool {
	if n == nil {
		return false
	}
	if !c01IsName(n.Local) {
		return true
	}
	for _, a := range n.Attrs {
		if !c01IsName(a.K) || a.K == "xmlns" {
			return true
		}
	}
	for i := range n.Nodes {
		if c01BadNodeNames(&n.Nodes[i]) {
			return true
		}
	}
	return false
}

// ---------------------------------------------------------------- registry / types

type c01RegEntry struct {
	Kind         int
	Space, Local string
	GoType       string
	T            reflect.Type
}

var (
	c01RegOnce  sync.Once
	c01Registry []c01RegEntry
	c01TypeOf   = map[string]reflect.Type{}
	c01StreamEl []string
)

func c01Init() {
	c01RegOnce.Do(func() {
		for _, e := range stanza.VerifRegistryDump() {
			t := stanza.TypeRegistry.GetExtensionType(stanza.PacketType(e.Kind), xml.Name{Space: e.Space, Local: e.Local})
			c01Registry = append(c01Registry, c01RegEntry{int(e.Kind), e.Space, e.Local, e.GoType, t})
			c01TypeOf[e.GoType] = t
		}
		// the non-stanza elements C01 names: stream management, SASL auth, component handshake.
		// Receive-only stream elements (stream features, stream error, SASL failure) are not
		// "built from the library's types and serialised" by anybody: outside C01 (their decoding
		// is C02/C03's business), so they are not put through the marshal/unmarshal oracle.
		for _, v := range []interface{}{stanza.SASLAuth{}, stanza.SASLSuccess{}, stanza.Handshake{},
			stanza.SMEnable{}, stanza.SMEnabled{}, stanza.SMRequest{}, stanza.SMAnswer{}, stanza.SMResume{}, stanza.SMResumed{},
			stanza.SMFailed{}, stanza.TLSProceed{}, stanza.WebsocketOpen{}} {
			t := reflect.TypeOf(v)
			c01TypeOf[t.String()] = t
			c01StreamEl = append(c01StreamEl, t.String())
		}
	})
}

// ---------------------------------------------------------------- reflection filler

var c01UnmarshalerT = reflect.TypeOf((*xml.Unmarshaler)(nil)).Elem()
var c01NameT = reflect.TypeOf(xml.Name{})
var c01TimeT = reflect.TypeOf(time.Time{})
var c01NullIntT = reflect.TypeOf(stanza.NullableInt{})
var c01HistoryT = reflect.TypeOf(stanza.History{})
var c01ForwardedT = reflect.TypeOf(stanza.Forwarded{})

// untagged XMLName fields that are not the user's to set: History.MarshalXML fixes the name;
// a FormItem is named by the tag of the field it sits in (item / reported) and its XMLName is
// only what the decoder leaves there
var c01NameFixed = map[reflect.Type]bool{c01HistoryT: true, reflect.TypeOf(stanza.FormItem{}): true}

func c01TagInfo(f reflect.StructField) (name string, flags map[string]bool) {
	flags = map[string]bool{}
	tag := f.Tag.Get("xml")
	parts := strings.Split(tag, ",")
	name = parts[0]
	if i := strings.LastIndex(name, " "); i >= 0 {
		name = name[i+1:]
	}
	for _, p := range parts[1:] {
		flags[p] = true
	}
	return
}

// implementations the hand-written decoders produce for the interface-typed fields
var c01Impls = map[reflect.Type][]reflect.Type{
	reflect.TypeOf((*stanza.EventElement)(nil)).Elem(): {reflect.TypeOf(stanza.CollectionEvent{}), reflect.TypeOf(stanza.ConfigurationEvent{}),
		reflect.TypeOf(stanza.DeleteEvent{}), reflect.TypeOf(stanza.ItemsEvent{}), reflect.TypeOf(stanza.PurgeEvent{}), reflect.TypeOf(stanza.SubscriptionEvent{})},
	reflect.TypeOf((*stanza.AssocDisassoc)(nil)).Elem(): {reflect.TypeOf(stanza.AssociateEvent{}), reflect.TypeOf(stanza.DisassociateEvent{})},
	reflect.TypeOf((*stanza.OwnerUseCase)(nil)).Elem(): {reflect.TypeOf(stanza.AffiliationsOwner{}), reflect.TypeOf(stanza.ConfigureOwner{}),
		reflect.TypeOf(stanza.DefaultOwner{}), reflect.TypeOf(stanza.DeleteOwner{}), reflect.TypeOf(stanza.PurgeOwner{}), reflect.TypeOf(stanza.SubscriptionsOwner{})},
	reflect.TypeOf((*stanza.CommandElement)(nil)).Elem(): {reflect.TypeOf(stanza.Actions{}), reflect.TypeOf(stanza.Note{}), reflect.TypeOf(stanza.Form{}), reflect.TypeOf(stanza.Node{})},
}

func c01Fill(v reflect.Value, r *rand.Rand, depth int, plainText bool) {
	switch v.Kind() {
	case reflect.Interface:
		impls := c01Impls[v.Type()]
		if len(impls) == 0 || depth > 4 || r.Intn(4) == 0 {
			return
		}
		p := reflect.New(impls[r.Intn(len(impls))])
		c01Fill(p.Elem(), r, depth+1, false)
		if p.Type().Implements(v.Type()) {
			v.Set(p)
		}
	case reflect.Struct:
		if v.Type() == c01NameT {
			v.Set(reflect.ValueOf(xml.Name{Space: c01Spaces[r.Intn(3)], Local: c01Names[r.Intn(len(c01Names))]}))
			return
		}
		if v.Type() == c01TimeT {
			if r.Intn(2) == 0 {
				v.Set(reflect.ValueOf(c01Time(r)))
			}
			return
		}
		if v.Type() == c01ForwardedT { // Stanza is an interface: put in what decodeClient produces
			switch r.Intn(4) {
			case 0:
				v.Field(1).Set(reflect.ValueOf(stanza.Message{Attrs: stanza.Attrs{Id: c01OptText(r), Type: "chat", From: c01OptText(r)}, Body: c01OptText(r), Thread: c01OptText(r)}))
			case 1:
				v.Field(1).Set(reflect.ValueOf(stanza.Presence{Attrs: stanza.Attrs{Id: c01OptText(r), To: c01OptText(r)}, Status: c01OptText(r), Priority: int8(r.Intn(256) - 128)}))
			case 2:
				v.Field(1).Set(reflect.ValueOf(&stanza.IQ{Attrs: stanza.Attrs{Id: c01OptText(r), Type: "get", Lang: c01OptText(r)}}))
			}
			return
		}
		if v.Type() == c01NullIntT { // value + unexported "is set" flag: only through the constructor
			if r.Intn(2) == 0 {
				v.Set(reflect.ValueOf(stanza.NewNullableInt(r.Intn(2001) - 1000)))
			}
			return
		}
		t := v.Type()
		for i := 0; i < t.NumField(); i++ {
			f := t.Field(i)
			if f.PkgPath != "" {
				continue
			}
			name, flags := c01TagInfo(f)
			if name == "-" {
				continue
			}
			if f.Name == "XMLName" && (name != "" || c01NameFixed[t]) {
				continue // the tag (History: MarshalXML) fixes the name
			}
			c01Fill(v.Field(i), r, depth+1, flags["innerxml"])
		}
	case reflect.Ptr:
		if depth > 4 || r.Intn(2) == 0 {
			return
		}
		v.Set(reflect.New(v.Type().Elem()))
		c01Fill(v.Elem(), r, depth+1, plainText)
	case reflect.Slice:
		if depth > 4 || (v.Type().Elem().Kind() == reflect.Interface && c01Impls[v.Type().Elem()] == nil) {
			return
		}
		n := r.Intn(3)
		if n == 0 {
			return
		}
		s := reflect.MakeSlice(v.Type(), n, n)
		for i := 0; i < n; i++ {
			c01Fill(s.Index(i), r, depth+1, plainText)
			// a nil pointer / interface as a slice element is not a value anybody builds (the
			// encoder skips it, so the slice comes back shorter)
			if e := s.Index(i); (e.Kind() == reflect.Ptr || e.Kind() == reflect.Interface) && e.IsNil() {
				c01NonZero(e, r, plainText)
			}
		}
		v.Set(s)
	case reflect.String:
		if plainText {
			v.SetString(c01Plain(r, c01B64[:62]))
		} else {
			v.SetString(c01OptText(r))
		}
	case reflect.Bool:
		v.SetBool(r.Intn(2) == 0)
	case reflect.Int8:
		v.SetInt(int64(r.Intn(256) - 128))
	case reflect.Int, reflect.Int16, reflect.Int32, reflect.Int64:
		v.SetInt(int64(r.Intn(2001) - 1000))
	case reflect.Uint, reflect.Uint8, reflect.Uint16, reflect.Uint32, reflect.Uint64:
		v.SetUint(uint64(r.Intn(200)))
	}
}

// c01Canon: comparison form modulo XMLName.Space / fixed names and nil-vs-empty slices.
func c01Canon(v reflect.Value) interface{} { return c01CanonOpt(v, false) }

var c01NodeT = reflect.TypeOf(stanza.Node{})

// c01IsGeneric: a place where the typed codecs legitimately keep content they do not know
// (generic Node values)
func c01IsGeneric(t reflect.Type) bool {
	for t.Kind() == reflect.Ptr || t.Kind() == reflect.Slice {
		t = t.Elem()
	}
	return t == c01NodeT
}

// c01CanonOpt: dropGeneric leaves out generic Node captures, ,any and ,innerxml fields (used
// when unknown children were injected: those are the places where they may legitimately show up)
func c01CanonOpt(v reflect.Value, dropGeneric bool) interface{} {
	c01Canon := func(x reflect.Value) interface{} { return c01CanonOpt(x, dropGeneric) }
	switch v.Kind() {
	case reflect.Struct:
		if v.Type() == c01TimeT {
			return v.Interface().(time.Time).UTC().Format(time.RFC3339Nano)
		}
		if v.Type() == c01NullIntT {
			n, set := v.Interface().(stanza.NullableInt).Get()
			return []interface{}{n, set}
		}
		t := v.Type()
		var out []interface{}
		for i := 0; i < t.NumField(); i++ {
			f := t.Field(i)
			if f.PkgPath != "" {
				continue
			}
			name, flags := c01TagInfo(f)
			if f.Name == "XMLName" && f.Type == c01NameT {
				if name != "" || c01NameFixed[t] {
					continue
				}
				out = append(out, f.Name, v.Field(i).Interface().(xml.Name).Local)
				continue
			}
			if dropGeneric && (flags["innerxml"] || flags["any"] || c01IsGeneric(f.Type)) {
				continue
			}
			out = append(out, f.Name, c01Canon(v.Field(i)))
		}
		return out
	case reflect.Ptr, reflect.Interface:
		if v.IsNil() {
			return nil
		}
		return []interface{}{"&", v.Elem().Type().String(), c01Canon(v.Elem())}
	case reflect.Slice:
		if v.Len() == 0 {
			return nil
		}
		var out []interface{}
		for i := 0; i < v.Len(); i++ {
			e := v.Index(i)
			if dropGeneric && e.Kind() == reflect.Interface && !e.IsNil() && c01IsGeneric(e.Elem().Type()) {
				continue
			}
			out = append(out, c01Canon(e))
		}
		if len(out) == 0 {
			return nil
		}
		return out
	case reflect.String:
		return v.String()
	case reflect.Bool:
		return v.Bool()
	case reflect.Int, reflect.Int8, reflect.Int16, reflect.Int32, reflect.Int64:
		return v.Int()
	case reflect.Uint, reflect.Uint8, reflect.Uint16, reflect.Uint32, reflect.Uint64:
		return v.Uint()
	}
	return nil
}

// c01DiffField: the first exported top-level field whose canonical forms differ.
func c01DiffField(a, b reflect.Value) string {
	if a.Kind() == reflect.Ptr {
		a = a.Elem()
	}
	if b.Kind() == reflect.Ptr {
		b = b.Elem()
	}
	if a.Type() != b.Type() {
		return "type"
	}
	if a.Kind() != reflect.Struct {
		if !reflect.DeepEqual(c01Canon(a), c01Canon(b)) {
			return "value"
		}
		return ""
	}
	return c01DiffPath(a, b, 0)
}

// c01DiffPath: field path (Go field names, implementation types of interface values) down to
// the first place where the canonical forms differ; it names the finding.
func c01DiffPath(a, b reflect.Value, depth int) string {
	if reflect.DeepEqual(c01Canon(a), c01Canon(b)) {
		return ""
	}
	if depth > 6 || a.Kind() != b.Kind() {
		return "value"
	}
	switch a.Kind() {
	case reflect.Struct:
		if a.Type() != b.Type() || c01IsLeafStruct(a.Type()) {
			return "value"
		}
		t := a.Type()
		for i := 0; i < t.NumField(); i++ {
			f := t.Field(i)
			name, _ := c01TagInfo(f)
			if f.PkgPath != "" || (f.Name == "XMLName" && (name != "" || c01NameFixed[t])) {
				continue
			}
			if f.Name == "XMLName" && f.Type == c01NameT {
				if a.Field(i).Interface().(xml.Name).Local != b.Field(i).Interface().(xml.Name).Local {
					return f.Name
				}
				continue
			}
			if sub := c01DiffPath(a.Field(i), b.Field(i), depth+1); sub != "" {
				if sub == "value" {
					return f.Name
				}
				return f.Name + "." + sub
			}
		}
		return "value"
	case reflect.Ptr, reflect.Interface:
		if a.IsNil() || b.IsNil() {
			return "value"
		}
		if a.Elem().Type() != b.Elem().Type() {
			return "value"
		}
		sub := c01DiffPath(a.Elem(), b.Elem(), depth+1)
		if a.Kind() == reflect.Interface {
			tn := strings.TrimPrefix(strings.TrimPrefix(a.Elem().Type().String(), "*"), "stanza.")
			if sub == "value" {
				return "(" + tn + ")"
			}
			return "(" + tn + ")." + sub
		}
		return sub
	case reflect.Slice:
		if a.Len() != b.Len() {
			return "value"
		}
		for i := 0; i < a.Len(); i++ {
			if sub := c01DiffPath(a.Index(i), b.Index(i), depth+1); sub != "" {
				return sub
			}
		}
	}
	return "value"
}

// c01NewFilled: pointer to a value of the named type filled from the seed.
func c01NewFilled(goType string, seed int64) (reflect.Value, bool) {
	return c01NewFilledMask(goType, seed, "")
}

func c01NewFilledMask(goType string, seed int64, mask string) (reflect.Value, bool) {
	c01Init()
	t, ok := c01TypeOf[goType]
	if !ok || t == nil {
		return reflect.Value{}, false
	}
	p := reflect.New(t)
	r := rand.New(rand.NewSource(seed))
	if mask == "" {
		c01Fill(p.Elem(), r, 0, false)
		return p, true
	}
	ctx := &c01MaskCtx{mask: make([]bool, len(mask))}
	for i := range mask {
		ctx.mask[i] = mask[i] == '1'
	}
	c01FillStruct(p.Elem(), r, 0, ctx, "")
	return p, true
}

// ---- subset sweep: every optional position of a type is a slot that a mask sets or leaves zero

type c01Slot struct {
	Path  string
	Group string // path of the innermost enclosing struct: slots of one group are siblings
	End   int    // slots [index+1, End) lie below this one
}
type c01MaskCtx struct {
	mask  []bool    // nil: collecting (everything counts as set)
	i     int       // next slot index
	slots []c01Slot // collecting mode
}

func (c *c01MaskCtx) set(i int) bool { return c.mask == nil || (i < len(c.mask) && c.mask[i]) }
func (c *c01MaskCtx) anySet(a, b int) bool {
	if c.mask == nil {
		return true
	}
	for i := a; i < b && i < len(c.mask); i++ {
		if c.mask[i] {
			return true
		}
	}
	return false
}

func c01IsLeafStruct(t reflect.Type) bool {
	return t == c01NameT || t == c01TimeT || t == c01NullIntT || t == c01ForwardedT || t == c01NodeT
}

// c01Time: a whole-second instant, in UTC or in a zone east or west of it
func c01Time(r *rand.Rand) time.Time {
	t := time.Unix(1500000000+int64(r.Intn(1000000)), 0)
	switch r.Intn(3) {
	case 0:
		return t.In(time.FixedZone("east", 2*3600))
	case 1:
		return t.In(time.FixedZone("west", -7*3600))
	}
	return t.UTC()
}

// c01NonZero: a value that is certainly not the zero value ("set")
func c01NonZero(v reflect.Value, r *rand.Rand, plainText bool) {
	switch v.Kind() {
	case reflect.String:
		if plainText {
			v.SetString("Zm9v" + c01Plain(r, c01B64[:62]))
		} else {
			v.SetString(c01Text(r))
		}
	case reflect.Bool:
		v.SetBool(true)
	case reflect.Int8:
		v.SetInt(int64(1+r.Intn(127)) * int64(1-2*r.Intn(2)))
	case reflect.Int, reflect.Int16, reflect.Int32, reflect.Int64:
		v.SetInt(int64(1+r.Intn(1000)) * int64(1-2*r.Intn(2)))
	case reflect.Uint, reflect.Uint8, reflect.Uint16, reflect.Uint32, reflect.Uint64:
		v.SetUint(uint64(1 + r.Intn(200)))
	case reflect.Struct:
		switch v.Type() {
		case c01TimeT:
			v.Set(reflect.ValueOf(c01Time(r)))
		case c01NullIntT:
			v.Set(reflect.ValueOf(stanza.NewNullableInt(r.Intn(2001) - 1000)))
		case c01ForwardedT:
			for v.Field(1).IsNil() {
				c01Fill(v, r, 0, false)
			}
		default:
			c01Fill(v, r, 0, false)
		}
	case reflect.Ptr:
		e := reflect.New(v.Type().Elem())
		c01NonZero(e.Elem(), r, plainText)
		v.Set(e)
	case reflect.Slice:
		if v.Type().Elem().Kind() == reflect.Interface && c01Impls[v.Type().Elem()] == nil {
			return
		}
		e := reflect.New(v.Type().Elem()).Elem()
		c01NonZero(e, r, plainText)
		v.Set(reflect.Append(reflect.MakeSlice(v.Type(), 0, 1), e))
	case reflect.Interface:
		for len(c01Impls[v.Type()]) > 0 && v.IsNil() {
			c01Fill(v, r, 0, false)
		}
	default:
		c01Fill(v, r, 0, plainText)
	}
}

// c01FillStruct: the fields of a general struct, each an optional position
func c01FillStruct(v reflect.Value, r *rand.Rand, depth int, ctx *c01MaskCtx, path string) {
	t := v.Type()
	for i := 0; i < t.NumField(); i++ {
		f := t.Field(i)
		if f.PkgPath != "" {
			continue
		}
		name, flags := c01TagInfo(f)
		if name == "-" || (f.Name == "XMLName" && (name != "" || c01NameFixed[t])) {
			continue
		}
		if f.Name == "XMLName" && f.Type == c01NameT { // an element name is not optional
			c01Fill(v.Field(i), r, depth+1, false)
			continue
		}
		c01FillSlot(v.Field(i), r, depth, ctx, path+"."+f.Name, path, flags["innerxml"])
	}
}

func c01FillSlot(fv reflect.Value, r *rand.Rand, depth int, ctx *c01MaskCtx, path, group string, plainText bool) {
	ft := fv.Type()
	if ft.Kind() == reflect.Struct && !c01IsLeafStruct(ft) {
		c01FillStruct(fv, r, depth+1, ctx, path) // a struct value is not optional itself: its fields are
		return
	}
	idx := ctx.i
	ctx.i++
	if ctx.mask == nil {
		ctx.slots = append(ctx.slots, c01Slot{Path: strings.TrimPrefix(path, "."), Group: group})
	}
	defer func() {
		if ctx.mask == nil {
			ctx.slots[idx].End = ctx.i
		}
	}()
	switch ft.Kind() {
	case reflect.Ptr, reflect.Slice:
		et := ft.Elem()
		inner := et.Kind() == reflect.Struct && !c01IsLeafStruct(et) && depth < 3
		e := reflect.New(et).Elem()
		if inner {
			c01FillStruct(e, r, depth+1, ctx, path)
		}
		if !ctx.set(idx) && !ctx.anySet(idx+1, ctx.i) {
			return
		}
		if !inner {
			if et.Kind() == reflect.Interface {
				if len(c01Impls[et]) == 0 {
					return
				}
				for e.IsNil() {
					c01Fill(e, r, 0, false)
				}
			} else if ft.Kind() == reflect.Ptr && (et.Kind() == reflect.Bool || et.Kind() == reflect.Uint || et.Kind() == reflect.Int) {
				c01Fill(e, r, depth+1, plainText) // a non-nil pointer is "set" whatever it points to
			} else {
				c01NonZero(e, r, plainText)
			}
		}
		if ft.Kind() == reflect.Ptr {
			fv.Set(e.Addr())
		} else {
			fv.Set(reflect.Append(reflect.MakeSlice(ft, 0, 1), e))
		}
	case reflect.Interface:
		if !ctx.set(idx) || len(c01Impls[ft]) == 0 {
			return
		}
		for fv.IsNil() {
			c01Fill(fv, r, 0, false)
		}
	default:
		if ctx.set(idx) {
			c01NonZero(fv, r, plainText)
		}
	}
}

var (
	c01SlotMu    sync.Mutex
	c01SlotCache = map[string][]c01Slot{}
)

// c01Slots: the optional positions of a type, in fill order
func c01Slots(goType string) []c01Slot {
	c01Init()
	c01SlotMu.Lock()
	defer c01SlotMu.Unlock()
	if s, ok := c01SlotCache[goType]; ok {
		return s
	}
	t := c01TypeOf[goType]
	var slots []c01Slot
	if t != nil && t.Kind() == reflect.Struct {
		ctx := &c01MaskCtx{}
		c01FillStruct(reflect.New(t).Elem(), rand.New(rand.NewSource(1)), 0, ctx, "")
		slots = ctx.slots
	}
	c01SlotCache[goType] = slots
	return slots
}

// c01Masks: all-unset, all-set, every single slot alone, every slot alone unset, all 2^k
// when k <= 5, and for every group of at most 5 sibling slots all its 2^g patterns, once with
// everything else unset and once with everything else set.
func c01Masks(goType string) []string {
	slots := c01Slots(goType)
	k := len(slots)
	if k == 0 {
		return nil
	}
	seen := map[string]bool{}
	var out []string
	add := func(b []byte) {
		if s := string(b); !seen[s] {
			seen[s] = true
			out = append(out, s)
		}
	}
	fill := func(c byte) []byte { return bytes.Repeat([]byte{c}, k) }
	add(fill('0'))
	add(fill('1'))
	for i := 0; i < k; i++ {
		m := fill('0')
		m[i] = '1'
		add(m)
		m = fill('1')
		m[i] = '0'
		add(m)
	}
	if k <= 5 {
		for x := 0; x < 1<<uint(k); x++ {
			m := fill('0')
			for i := 0; i < k; i++ {
				if x>>uint(i)&1 == 1 {
					m[i] = '1'
				}
			}
			add(m)
		}
	}
	groups := map[string][]int{}
	var order []string
	for i, s := range slots {
		if _, ok := groups[s.Group]; !ok {
			order = append(order, s.Group)
		}
		groups[s.Group] = append(groups[s.Group], i)
	}
	for _, g := range order {
		idx := groups[g]
		if len(idx) > 5 || len(idx) == k {
			continue
		}
		for _, bg := range []byte{'0', '1'} {
			for x := 0; x < 1<<uint(len(idx)); x++ {
				m := fill(bg)
				for j, i := range idx {
					if x>>uint(j)&1 == 1 {
						m[i] = '1'
					} else {
						m[i] = '0'
					}
				}
				add(m)
			}
		}
	}
	return out
}

func c01MaskNames(goType, mask string) string {
	if mask == "" {
		return ""
	}
	var set []string
	for i, s := range c01Slots(goType) {
		if i < len(mask) && mask[i] == '1' {
			set = append(set, s.Path)
		}
	}
	return " [set: " + strings.Join(set, ", ") + "]"
}

// c01ReflectRoundTrip: marshal, unmarshal into a fresh value, compare, re-marshal.
// wrap: "" or the stanza kind the extension is carried in.
func c01ReflectRoundTrip(goType string, seed int64, wrap string, mask string) (msg, sig string) {
	defer func() {
		if msg != "" {
			msg += c01MaskNames(goType, mask)
		}
	}()
	p, ok := c01NewFilledMask(goType, seed, mask)
	if !ok {
		return "unknown Go type " + goType, "harness:unknown-type"
	}
	return c01ValueRoundTrip(goType, p, seed, wrap)
}

// c01ValueRoundTrip: p points to the value; wrap: "" or the stanza kind it is carried in.
func c01ValueRoundTrip(goType string, p reflect.Value, seed int64, wrap string) (msg, sig string) {
	var v interface{} = p.Interface()
	var fresh interface{} = reflect.New(p.Type().Elem()).Interface()
	get := func(x interface{}) (reflect.Value, string) { return reflect.ValueOf(x), "" }
	switch wrap {
	case "message":
		v = &stanza.Message{Attrs: stanza.Attrs{Id: "i"}, Extensions: []stanza.MsgExtension{p.Interface()}}
		fresh = &stanza.Message{}
		get = func(x interface{}) (reflect.Value, string) {
			m := x.(*stanza.Message)
			if len(m.Extensions) != 1 {
				return reflect.Value{}, fmt.Sprintf("%d extensions decoded instead of 1", len(m.Extensions))
			}
			return reflect.ValueOf(m.Extensions[0]), ""
		}
	case "presence":
		v = &stanza.Presence{Attrs: stanza.Attrs{Id: "i"}, Extensions: []stanza.PresExtension{p.Interface()}}
		fresh = &stanza.Presence{}
		get = func(x interface{}) (reflect.Value, string) {
			m := x.(*stanza.Presence)
			if len(m.Extensions) != 1 {
				return reflect.Value{}, fmt.Sprintf("%d extensions decoded instead of 1", len(m.Extensions))
			}
			return reflect.ValueOf(m.Extensions[0]), ""
		}
	case "iq":
		pl, ok := p.Interface().(stanza.IQPayload)
		if !ok {
			return goType + " is registered for iq but is not an IQPayload", "nonroundtrip:" + goType + ":not-a-payload"
		}
		v = &stanza.IQ{Attrs: stanza.Attrs{Id: "i", Type: "result"}, Payload: pl}
		fresh = &stanza.IQ{}
		get = func(x interface{}) (reflect.Value, string) {
			m := x.(*stanza.IQ)
			if m.Payload == nil {
				return reflect.Value{}, "payload decoded as nil (Any set: " + fmt.Sprint(m.Any != nil) + ")"
			}
			return reflect.ValueOf(m.Payload), ""
		}
	}
	where := goType
	if wrap != "" {
		where += " in " + wrap
	}
	b1, err := xml.Marshal(v)
	if err != nil {
		return fmt.Sprintf("%s seed %d: marshal error %v", where, seed, err), "nonroundtrip:" + goType + ":marshal-error"
	}
	if err := xml.Unmarshal(b1, fresh); err != nil {
		return fmt.Sprintf("%s seed %d: unmarshal of %q fails: %v", where, seed, c01Short(b1), err), "nonroundtrip:" + goType + ":unmarshal-error"
	}
	got, why := get(fresh)
	if why != "" {
		return fmt.Sprintf("%s seed %d: %s; bytes %q", where, seed, why, c01Short(b1)), "nonroundtrip:" + goType + ":dispatch"
	}
	if f := c01DiffField(p, got); f != "" {
		return fmt.Sprintf("%s seed %d: field %s differs after Unmarshal(Marshal v); bytes %q", where, seed, f, c01Short(b1)), "nonroundtrip:" + goType + ":" + f
	}
	b2, err := xml.Marshal(fresh)
	if err != nil || !bytes.Equal(b1, b2) {
		return fmt.Sprintf("%s seed %d: second marshal differs: %q vs %q (err %v)", where, seed, c01Short(b1), c01Short(b2), err), "nonroundtrip:" + goType + ":bytes"
	}
	return "", ""
}

func c01Short(b []byte) string {
	if len(b) > 400 {
		return string(b[:400]) + "..."
	}
	return string(b)
}

// ---------------------------------------------------------------- element trees (as Model/XmlPrint.v)

type c01XT struct {
	Elem         bool
	Space, Local string
	Attrs        []c01KV
	Kids         []*c01XT
	Raw          bool
	Text         string
	Qualified    bool // has an attribute in a namespace (key "namespace local")
}

// c01ParseTree: independent tokenisation with encoding/xml. ok=false when the bytes use
// something the tree cannot express (prefixed attributes, comments, ...).
func c01ParseTree(b []byte) (*c01XT, bool) {
	d := xml.NewDecoder(bytes.NewReader(b))
	var stack []*c01XT
	var root *c01XT
	for {
		before := d.InputOffset()
		tok, err := d.Token()
		if err != nil {
			break
		}
		switch t := tok.(type) {
		case xml.StartElement:
			n := &c01XT{Elem: true, Space: t.Name.Space, Local: t.Name.Local}
			for _, a := range t.Attr {
				if a.Name.Space == "" && a.Name.Local == "xmlns" {
					continue
				}
				if a.Name.Space != "" {
					return nil, false
				}
				n.Attrs = append(n.Attrs, c01KV{K: a.Name.Local, V: a.Value})
			}
			if len(stack) > 0 {
				p := stack[len(stack)-1]
				p.Kids = append(p.Kids, n)
			} else if root == nil {
				root = n
			} else {
				return nil, false
			}
			stack = append(stack, n)
		case xml.EndElement:
			if len(stack) == 0 {
				return nil, false
			}
			stack = stack[:len(stack)-1]
		case xml.CharData:
			if len(stack) == 0 {
				return nil, false
			}
			raw := b[before:d.InputOffset()]
			p := stack[len(stack)-1]
			p.Kids = append(p.Kids, &c01XT{Raw: bytes.IndexByte(raw, '\n') >= 0, Text: string(t)})
		default:
			return nil, false
		}
	}
	if root == nil || len(stack) != 0 {
		return nil, false
	}
	return root, true
}

// c01ReadDoc: a neutral reader for the implementation's bytes: encoding/xml RAW tokens (no
// name translation by the decoder), matching of end tags and namespace resolution done here
// (default namespace and prefixes for elements, prefixes only for attributes; xml: is the XML
// namespace). Namespace declarations are not attributes of the tree. An attribute in a
// namespace is keyed "namespace local". ok=false: not one well-formed element.
func c01ReadDoc(b []byte) (*c01XT, bool) {
	d := xml.NewDecoder(bytes.NewReader(b))
	type frame struct {
		raw xml.Name
		ns  map[string]string
		el  *c01XT
	}
	var stack []frame
	var root *c01XT
	lookup := func(prefix string) (string, bool) {
		if prefix == "xml" {
			return "http://www.w3.org/XML/1998/namespace", true
		}
		for i := len(stack) - 1; i >= 0; i-- {
			if v, ok := stack[i].ns[prefix]; ok {
				return v, true
			}
		}
		return "", prefix == ""
	}
	for {
		before := d.InputOffset()
		tok, err := d.RawToken()
		if err != nil {
			if err.Error() != "EOF" {
				return nil, false
			}
			break
		}
		switch t := tok.(type) {
		case xml.StartElement:
			fr := frame{raw: t.Name, ns: map[string]string{}}
			for _, a := range t.Attr {
				if a.Name.Space == "" && a.Name.Local == "xmlns" {
					fr.ns[""] = a.Value
				} else if a.Name.Space == "xmlns" {
					fr.ns[a.Name.Local] = a.Value
				}
			}
			stack = append(stack, fr)
			ns, ok := lookup(t.Name.Space)
			if !ok {
				return nil, false
			}
			n := &c01XT{Elem: true, Space: ns, Local: t.Name.Local}
			for _, a := range t.Attr {
				if (a.Name.Space == "" && a.Name.Local == "xmlns") || a.Name.Space == "xmlns" {
					continue
				}
				key := a.Name.Local
				if a.Name.Space != "" {
					ans, ok := lookup(a.Name.Space)
					if !ok {
						return nil, false
					}
					key = ans + " " + key
					n.Qualified = true
				}
				n.Attrs = append(n.Attrs, c01KV{K: key, V: a.Value})
			}
			stack[len(stack)-1].el = n
			if len(stack) > 1 {
				p := stack[len(stack)-2].el
				p.Kids = append(p.Kids, n)
			} else if root == nil {
				root = n
			} else {
				return nil, false
			}
		case xml.EndElement:
			if len(stack) == 0 || stack[len(stack)-1].raw != t.Name {
				return nil, false
			}
			stack = stack[:len(stack)-1]
		case xml.CharData:
			if len(stack) == 0 {
				if strings.TrimSpace(string(t)) != "" {
					return nil, false
				}
				continue
			}
			raw := b[before:d.InputOffset()]
			p := stack[len(stack)-1].el
			p.Kids = append(p.Kids, &c01XT{Raw: bytes.IndexByte(raw, '\n') >= 0, Text: string(t)})
		case xml.Comment, xml.ProcInst, xml.Directive:
			// not content
		}
	}
	if root == nil || len(stack) != 0 {
		return nil, false
	}
	return root, true
}

// c01CanonTreeSx: the document a tree denotes, as compared with the model's enc: resolved
// name, attributes sorted by name (stable), children in order, character data exact with
// adjacent runs joined and empty runs dropped; no lexical detail.
func c01CanonTreeSx(t *c01XT) Sx {
	if !t.Elem {
		return L(Z(1), SRunes(t.Text))
	}
	attrs := append([]c01KV{}, t.Attrs...)
	sort.SliceStable(attrs, func(i, j int) bool { return c01RuneLess(attrs[i].K, attrs[j].K) })
	var kids []Sx
	text, have := "", false
	flush := func() {
		if have && text != "" {
			kids = append(kids, L(Z(1), SRunes(text)))
		}
		text, have = "", false
	}
	for _, k := range t.Kids {
		if !k.Elem {
			text, have = text+k.Text, true
			continue
		}
		flush()
		kids = append(kids, c01CanonTreeSx(k))
	}
	flush()
	return L(Z(0), SRunes(t.Space), SRunes(t.Local), c01KVsSx(attrs), LS(kids))
}

func c01HasQualified(t *c01XT) bool {
	if t.Qualified {
		return true
	}
	for _, k := range t.Kids {
		if c01HasQualified(k) {
			return true
		}
	}
	return false
}

// order of code-point sequences (the model sorts lists of code points)
func c01RuneLess(a, b string) bool {
	ra, rb := []rune(a), []rune(b)
	for i := 0; i < len(ra) && i < len(rb); i++ {
		if ra[i] != rb[i] {
			return ra[i] < rb[i]
		}
	}
	return len(ra) < len(rb)
}

func c01Esc(s string, nl bool) string {
	var b bytes.Buffer
	xml.EscapeText(&b, []byte(s))
	out := b.String()
	if !nl {
		out = strings.ReplaceAll(out, "&#xA;", "\n")
	}
	return out
}

// c01PrintTree: the printing rule of Model/XmlPrint.v, used only to decide whether a
// tree obtained from bytes represents those bytes exactly.
func c01PrintTree(t *c01XT, b *strings.Builder) {
	if !t.Elem {
		b.WriteString(c01Esc(t.Text, !t.Raw))
		return
	}
	b.WriteString("<" + t.Local)
	if t.Space != "" {
		b.WriteString(` xmlns="` + c01Esc(t.Space, true) + `"`)
	}
	for i, a := range t.Attrs {
		if a.NS != "" { // an attribute of another namespace (wire documents only): its prefix is declared on the spot
			fmt.Fprintf(b, ` xmlns:q%d="%s" q%d:%s="%s"`, i, c01Esc(a.NS, true), i, a.K, c01Esc(a.V, true))
			continue
		}
		b.WriteString(" " + a.K + `="` + c01Esc(a.V, true) + `"`)
	}
	b.WriteString(">")
	for _, k := range t.Kids {
		c01PrintTree(k, b)
	}
	b.WriteString("</" + t.Local + ">")
}

// c01NodeXT: the element a generic node describes (children first, then the character data)
func c01NodeXT(n c01Node) *c01XT {
	t := &c01XT{Elem: true, Space: n.Space, Local: n.Local}
	for _, a := range n.Attrs {
		t.Attrs = append(t.Attrs, c01KV{K: a.K, V: a.V})
	}
	for _, k := range n.Nodes {
		t.Kids = append(t.Kids, c01NodeXT(k))
	}
	if n.Content != "" {
		t.Kids = append(t.Kids, &c01XT{Text: n.Content})
	}
	return t
}

func c01TreeSx(t *c01XT) Sx {
	if !t.Elem {
		return L(Z(1), B(t.Raw), SRunes(t.Text))
	}
	kids := make([]Sx, len(t.Kids))
	for i, k := range t.Kids {
		kids[i] = c01TreeSx(k)
	}
	return L(Z(0), SRunes(t.Space), SRunes(t.Local), c01KVsSx(t.Attrs), LS(kids))
}

// the tree model's attributes are the element's own, unqualified ones
func c01KVsSx(kvs []c01KV) Sx {
	out := make([]Sx, 0, len(kvs))
	for _, kv := range kvs {
		if kv.NS == "" {
			out = append(out, L(SRunes(kv.K), SRunes(kv.V)))
		}
	}
	return LS(out)
}

// c01ExtSx: canonical description of an extension value = the tree it marshals to.
func c01ExtSx(ext interface{}) Sx {
	b, err := xml.Marshal(ext)
	if err != nil {
		return L(Z(-9), SBytes(err.Error()))
	}
	t, ok := c01ParseTree(b)
	if !ok {
		return L(Z(-8), SRunes(string(b)))
	}
	return c01TreeSx(t)
}

// an extension (type, seed) can go through the model when its bytes are exactly what the
// tree prints to, and it round-trips on its own
var (
	c01SafeMu sync.Mutex
	c01Safe   = map[string]bool{}
)

func c01ExtSafe(e c01Ext) bool {
	key := fmt.Sprintf("%s/%d", e.GoType, e.Seed)
	c01SafeMu.Lock()
	v, ok := c01Safe[key]
	c01SafeMu.Unlock()
	if ok {
		return v
	}
	res := func() bool {
		p, ok := c01NewFilled(e.GoType, e.Seed)
		if !ok {
			return false
		}
		b, err := xml.Marshal(p.Interface())
		if err != nil {
			return false
		}
		t, ok := c01ParseTree(b)
		if !ok {
			return false
		}
		var sb strings.Builder
		c01PrintTree(t, &sb)
		if sb.String() != string(b) {
			return false
		}
		if m, _ := c01ReflectRoundTrip(e.GoType, e.Seed, "", ""); m != "" {
			return false
		}
		return true
	}()
	c01SafeMu.Lock()
	c01Safe[key] = res
	c01SafeMu.Unlock()
	return res
}

// ---------------------------------------------------------------- description -> Go value

func c01GoNode(n c01Node) stanza.Node {
	out := stanza.Node{XMLName: xml.Name{Space: n.Space, Local: n.Local}, Content: n.Content}
	for _, a := range n.Attrs {
		out.Attrs = append(out.Attrs, xml.Attr{Name: xml.Name{Space: a.NS, Local: a.K}, Value: a.V})
	}
	for _, k := range n.Nodes {
		out.Nodes = append(out.Nodes, c01GoNode(k))
	}
	return out
}
func c01GoErr(e *c01Err) stanza.Err {
	if e == nil {
		return stanza.Err{}
	}
	return stanza.Err{Code: e.Code, Type: stanza.ErrorType(e.Type), Reason: e.Reason, Text: e.Text}
}

// c01RootName: the XMLName a stanza value carries (what a decoder left there, or anything)
func c01RootName(in c01In) xml.Name { return xml.Name{Space: in.RootSpace, Local: in.RootLocal} }
func c01GoAttrs(in c01In) stanza.Attrs {
	return stanza.Attrs{Type: stanza.StanzaType(in.Type), Id: in.Id, From: in.From, To: in.To, Lang: in.Lang}
}
func c01GoExt(e c01Ext) interface{} {
	p, ok := c01NewFilled(e.GoType, e.Seed)
	if !ok {
		return nil
	}
	return p.Interface()
}
func c01UintP(p *uint64) *uint {
	if p == nil {
		return nil
	}
	u := uint(*p)
	return &u
}

// the 27 condition types of stanza_errors.go, by element name
var c01Conds = map[string]func() stanza.StanzaErrorGroup{
	"bad-format": func() stanza.StanzaErrorGroup { return &stanza.BadFormat{} }, "bad-namespace-prefix": func() stanza.StanzaErrorGroup { return &stanza.BadNamespacePrefix{} },
	"conflict": func() stanza.StanzaErrorGroup { return &stanza.Conflict{} }, "connection-timeout": func() stanza.StanzaErrorGroup { return &stanza.ConnectionTimeout{} },
	"host-gone": func() stanza.StanzaErrorGroup { return &stanza.HostGone{} }, "host-unknown": func() stanza.StanzaErrorGroup { return &stanza.HostUnknown{} },
	"improper-addressing": func() stanza.StanzaErrorGroup { return &stanza.ImproperAddressing{} }, "internal-server-error": func() stanza.StanzaErrorGroup { return &stanza.InternalServerError{} },
	"invalid-from": func() stanza.StanzaErrorGroup { return &stanza.InvalidForm{} }, "invalid-id": func() stanza.StanzaErrorGroup { return &stanza.InvalidId{} },
	"invalid-namespace": func() stanza.StanzaErrorGroup { return &stanza.InvalidNamespace{} }, "invalid-xml": func() stanza.StanzaErrorGroup { return &stanza.InvalidXML{} },
	"not-authorized": func() stanza.StanzaErrorGroup { return &stanza.NotAuthorized{} }, "not-well-formed": func() stanza.StanzaErrorGroup { return &stanza.NotWellFormed{} },
	"policy-violation": func() stanza.StanzaErrorGroup { return &stanza.PolicyViolation{} }, "remote-connection-failed": func() stanza.StanzaErrorGroup { return &stanza.RemoteConnectionFailed{} },
	"reset": func() stanza.StanzaErrorGroup { return &stanza.Reset{} }, "resource-constraint": func() stanza.StanzaErrorGroup { return &stanza.ResourceConstraint{} },
	"restricted-xml": func() stanza.StanzaErrorGroup { return &stanza.RestrictedXML{} }, "see-other-host": func() stanza.StanzaErrorGroup { return &stanza.SeeOtherHost{} },
	"system-shutdown": func() stanza.StanzaErrorGroup { return &stanza.SystemShutdown{} }, "undefined-condition": func() stanza.StanzaErrorGroup { return &stanza.UndefinedCondition{} },
	"unexpected-request": func() stanza.StanzaErrorGroup { return &stanza.UnexpectedRequest{} }, "unsupported-encoding": func() stanza.StanzaErrorGroup { return &stanza.UnsupportedEncoding{} },
	"unsupported-stanza-type": func() stanza.StanzaErrorGroup { return &stanza.UnsupportedStanzaType{} }, "unsupported-version": func() stanza.StanzaErrorGroup { return &stanza.UnsupportedVersion{} },
	"xml-not-well-formed": func() stanza.StanzaErrorGroup { return &stanza.XMLNotWellFormed{} },
}

// c01Build: the real value and a fresh value of the same type to decode into.
func c01Build(in c01In) (v interface{}, fresh interface{}) {
	switch in.Kind {
	case "message":
		m := stanza.Message{XMLName: c01RootName(in), Attrs: c01GoAttrs(in), Subject: in.Subject, Body: in.Body, Thread: in.Thread, Error: c01GoErr(in.Err)}
		if in.RootSpace != "" {
			m.Error.XMLName = xml.Name{Space: in.RootSpace, Local: "error"}
		}
		for _, e := range in.Exts {
			m.Extensions = append(m.Extensions, c01GoExt(e))
		}
		return m, &stanza.Message{}
	case "presence":
		p := stanza.Presence{XMLName: c01RootName(in), Attrs: c01GoAttrs(in), Show: stanza.PresenceShow(in.Show), Status: in.Status, Priority: int8(in.Priority), Error: c01GoErr(in.Err)}
		if in.RootSpace != "" {
			p.Error.XMLName = xml.Name{Space: in.RootSpace, Local: "error"}
		}
		for _, e := range in.Exts {
			p.Extensions = append(p.Extensions, c01GoExt(e))
		}
		return p, &stanza.Presence{}
	case "iq":
		q := &stanza.IQ{XMLName: c01RootName(in), Attrs: c01GoAttrs(in)}
		if in.Payload != nil {
			if pl, ok := c01GoExt(*in.Payload).(stanza.IQPayload); ok {
				q.Payload = pl
			}
		}
		if in.Err != nil {
			e := c01GoErr(in.Err)
			if in.RootSpace != "" {
				e.XMLName = xml.Name{Space: in.RootSpace, Local: "error"}
			}
			q.Error = &e
		}
		if in.Any != nil {
			n := c01GoNode(*in.Any)
			q.Any = &n
		}
		return q, &stanza.IQ{}
	case "node":
		return c01GoNode(*in.Any), &stanza.Node{}
	case "smenable":
		return stanza.SMEnable{Max: c01UintP(in.Max), Resume: in.Resume}, &stanza.SMEnable{}
	case "smenabled":
		return stanza.SMEnabled{Id: in.SId, Location: in.Location, Resume: in.SResume, Max: uint(in.MaxU)}, &stanza.SMEnabled{}
	case "smrequest":
		return stanza.SMRequest{}, &stanza.SMRequest{}
	case "smanswer":
		return stanza.SMAnswer{H: uint(in.HU)}, &stanza.SMAnswer{}
	case "smresume":
		return stanza.SMResume{PrevId: in.PrevId, H: c01UintP(in.H)}, &stanza.SMResume{}
	case "smresumed":
		return stanza.SMResumed{PrevId: in.PrevId, H: c01UintP(in.H)}, &stanza.SMResumed{}
	case "smfailed":
		f := stanza.SMFailed{H: c01UintP(in.H)}
		if mk, ok := c01Conds[in.Cond]; ok {
			f.StreamErrorGroup = mk()
		}
		return f, &stanza.SMFailed{}
	case "saslauth":
		return stanza.SASLAuth{Mechanism: in.Mechanism, Value: in.Value}, &stanza.SASLAuth{}
	case "handshake":
		return stanza.Handshake{Value: in.Value}, &stanza.Handshake{}
	}
	return nil, nil
}

// ---------------------------------------------------------------- canonical descriptions (Sx)

func c01AttrsSx(a stanza.Attrs) Sx {
	return L(SRunes(string(a.Type)), SRunes(a.Id), SRunes(a.From), SRunes(a.To), SRunes(a.Lang))
}
func c01ErrSx(e stanza.Err) Sx {
	return L(Zi(e.Code), SRunes(string(e.Type)), SRunes(e.Reason), SRunes(e.Text))
}
func c01NodeSx(n stanza.Node) Sx {
	var kvs []c01KV
	for _, a := range n.Attrs {
		k := a.Name.Local
		if a.Name.Space != "" {
			k = a.Name.Space + ":" + k
		}
		kvs = append(kvs, c01KV{K: k, V: a.Value})
	}
	kids := make([]Sx, len(n.Nodes))
	for i, k := range n.Nodes {
		kids[i] = c01NodeSx(k)
	}
	return L(SRunes(n.XMLName.Space), SRunes(n.XMLName.Local), c01KVsSx(kvs), SRunes(n.Content), LS(kids))
}
func c01OptU(p *uint) Sx {
	if p == nil {
		return L()
	}
	return L(Z(int64(*p)))
}

// c01Describe: the observable fields of a Go value, in the model's value format.
func c01Describe(v interface{}) Sx {
	switch x := v.(type) {
	case stanza.Message:
		exts := make([]Sx, len(x.Extensions))
		for i, e := range x.Extensions {
			exts[i] = c01ExtSx(e)
		}
		return L(Z(1), c01AttrsSx(x.Attrs), SRunes(x.Subject), SRunes(x.Body), SRunes(x.Thread), c01ErrSx(x.Error), LS(exts))
	case *stanza.Message:
		return c01Describe(*x)
	case stanza.Presence:
		exts := make([]Sx, len(x.Extensions))
		for i, e := range x.Extensions {
			exts[i] = c01ExtSx(e)
		}
		return L(Z(2), c01AttrsSx(x.Attrs), SRunes(string(x.Show)), SRunes(x.Status), Zi(int(x.Priority)), c01ErrSx(x.Error), LS(exts))
	case *stanza.Presence:
		return c01Describe(*x)
	case *stanza.IQ:
		pl, er, an := L(), L(), L()
		if x.Payload != nil {
			pl = L(c01ExtSx(x.Payload))
		}
		if x.Error != nil {
			er = L(c01ErrSx(*x.Error))
		}
		if x.Any != nil {
			an = L(c01NodeSx(*x.Any))
		}
		return L(Z(3), c01AttrsSx(x.Attrs), pl, er, an)
	case stanza.Node:
		return L(Z(4), c01NodeSx(x))
	case *stanza.Node:
		return L(Z(4), c01NodeSx(*x))
	case stanza.SMEnable:
		rs := L()
		if x.Resume != nil {
			rs = L(B(*x.Resume))
		}
		return L(Z(5), c01OptU(x.Max), rs)
	case *stanza.SMEnable:
		return c01Describe(*x)
	case stanza.SMEnabled:
		return L(Z(6), SRunes(x.Id), SRunes(x.Location), SRunes(x.Resume), Z(int64(x.Max)))
	case *stanza.SMEnabled:
		return c01Describe(*x)
	case stanza.SMRequest, *stanza.SMRequest:
		return L(Z(7))
	case stanza.SMAnswer:
		return L(Z(8), Z(int64(x.H)))
	case *stanza.SMAnswer:
		return c01Describe(*x)
	case stanza.SMResume:
		return L(Z(9), SRunes(x.PrevId), c01OptU(x.H))
	case *stanza.SMResume:
		return c01Describe(*x)
	case stanza.SMResumed:
		return L(Z(10), SRunes(x.PrevId), c01OptU(x.H))
	case *stanza.SMResumed:
		return c01Describe(*x)
	case stanza.SMFailed:
		if x.StreamErrorGroup != nil {
			return L(Z(11), c01OptU(x.H), SRunes(x.StreamErrorGroup.GroupErrorName()))
		}
		return L(Z(11), c01OptU(x.H), SRunes(""))
	case *stanza.SMFailed:
		return c01Describe(*x)
	case stanza.SASLAuth:
		return L(Z(12), SRunes(x.Mechanism), SRunes(x.Value))
	case *stanza.SASLAuth:
		return c01Describe(*x)
	case stanza.Handshake:
		return L(Z(13), SRunes(x.Value))
	case *stanza.Handshake:
		return c01Describe(*x)
	}
	return L(Z(-7))
}

// ---------------------------------------------------------------- Property

func (c01) Decode(raw json.RawMessage) (interface{}, error) {
	var in c01In
	err := json.Unmarshal(raw, &in)
	return in, err
}

func (c01) Run(inp interface{}) Sx {
	in := inp.(c01In)
	if in.Kind == "deepnode" {
		c01DeepRoundTrip(in.Depth) // on the worker: a crash here is journalled
		return L(Z(0))
	}
	if c01OracleOnly(in.Kind) {
		return L(Z(0)) // oracle-only case: no model counterpart
	}
	if in.Kind == "wire" {
		// a document that is not the encoding of a value, in the model printer's spelling
		var sb strings.Builder
		c01PrintTree(in.Doc.xt(), &sb)
		if _, ok := c01ReadDoc([]byte(sb.String())); !ok {
			return L(Z(-5))
		}
		fresh := c01Fresh(in.Into)
		if err := xml.Unmarshal([]byte(sb.String()), fresh); err != nil {
			return L(Z(-2))
		}
		return L(c01Describe(fresh))
	}
	// What is compared with the model is the DOCUMENT the bytes denote and the decoded VALUE,
	// not the bytes: attribute order, quote style, <a/> versus <a></a>, repeated namespace
	// declarations and the choice among equivalent escapes are free.
	v, _ := c01Build(in)
	b1, err := xml.Marshal(v)
	if err != nil {
		return L(Z(-4)) // refused (which error, in which words, is not compared)
	}
	doc, ok := c01ReadDoc(b1)
	if !ok {
		return L(Z(-5)) // not one element a decoder reads
	}
	if in.BadNames && in.Kind == "node" && c01FirstDiff(c01CanonTreeSx(doc), c01CanonTreeSx(c01NodeXT(*in.Any)), "") != "" {
		// a decoder is lenient in places (white space after a name, a stray > that ends the tag
		// early): the bytes are an element then, but not the one the value describes. For the
		// model "not a name" means "not written as this element" (its lexer reads the encoder's
		// spelling only), so that is what is compared.
		return L(Z(-5))
	}
	decode := func(b []byte) Sx {
		_, fresh := c01Build(in)
		if err := xml.Unmarshal(b, fresh); err != nil {
			return L(Z(-2))
		}
		return L(c01Describe(fresh))
	}
	// the library's decoder on its own bytes, and on the same document written the way the
	// model's printer writes it (decoding must not depend on the spelling either)
	reprint := b1
	if !c01HasQualified(doc) { // the model's printer has no prefixes
		var sb strings.Builder
		c01PrintTree(doc, &sb)
		reprint = []byte(sb.String())
	}
	return L(c01CanonTreeSx(doc), decode(b1), decode(reprint))
}

func (c01) Input(inp interface{}) Sx {
	in := inp.(c01In)
	if c01OracleOnly(in.Kind) {
		return L(Z(0))
	}
	if in.Kind == "wire" {
		return L(Z(20), Z(int64(c01IntoCode[in.Into])), c01TreeSx(in.Doc.xt()))
	}
	v, _ := c01Build(in)
	return c01Describe(v)
}

// the Go type a wire document is decoded into, numbered as the model's values are
var c01IntoCode = map[string]int{"message": 1, "presence": 2, "iq": 3, "node": 4, "smenable": 5, "smenabled": 6, "smrequest": 7,
	"smanswer": 8, "smresume": 9, "smresumed": 10, "smfailed": 11, "saslauth": 12, "handshake": 13}

func c01Fresh(kind string) interface{} {
	_, fresh := c01Build(c01In{Kind: kind, Any: &c01Node{Local: "x"}})
	return fresh
}

// c01WireOracle: what the library parses from a foreign document is a value of the library's
// types like any other: written and parsed back it must be itself, and written again give the
// same bytes. (Whether the document is accepted, and as what, is C02's business; here only the
// comparison with the model speaks about that.)
func c01WireOracle(in c01In) (msg, sig string) {
	var sb strings.Builder
	c01PrintTree(in.Doc.xt(), &sb)
	v1 := c01Fresh(in.Into)
	if err := xml.Unmarshal([]byte(sb.String()), v1); err != nil {
		return "", ""
	}
	goName := c01GoName[in.Into]
	// attributes of another namespace are not the element's own: without them the document
	// must be read as the same value
	if plain, had := c01StripQualified(*in.Doc); had {
		var pb strings.Builder
		c01PrintTree(plain.xt(), &pb)
		v0 := c01Fresh(in.Into)
		if err := xml.Unmarshal([]byte(pb.String()), v0); err == nil {
			if d := c01FirstDiff(c01Describe(v0), c01Describe(v1), ""); d != "" {
				f := c01PathName(in.Into, d)
				if in.Into != "message" && in.Into != "presence" && in.Into != "iq" {
					f = c01SmallField(in.Into, d)
				}
				return fmt.Sprintf("an attribute of another namespace changes %s: %q is not read like %q", f, c01Short([]byte(sb.String())), c01Short([]byte(pb.String()))), "lookalike:" + goName + ":" + f
			}
		}
	}
	switch x := v1.(type) { // the two stated exclusions of the domain
	case *stanza.IQ:
		if x.Error != nil && (x.Error.Reason == "text" || (x.Error.Code == 0 && x.Error.Type == "" && x.Error.Reason == "" && x.Error.Text == "")) {
			return "", ""
		}
	case *stanza.Message:
		if x.Error.Reason == "text" {
			return "", ""
		}
	case *stanza.Presence:
		if x.Error.Reason == "text" {
			return "", ""
		}
	}
	b1, err := xml.Marshal(v1)
	if err != nil {
		return fmt.Sprintf("the value parsed from %q does not marshal: %v", c01Short([]byte(sb.String())), err), "unstable:" + goName + ":marshal-error"
	}
	v2 := c01Fresh(in.Into)
	if err := xml.Unmarshal(b1, v2); err != nil {
		return fmt.Sprintf("the value parsed from %q is written as %q, which does not parse: %v", c01Short([]byte(sb.String())), c01Short(b1), err), "unstable:" + goName + ":unmarshal-error"
	}
	if d := c01FirstDiff(c01Describe(v1), c01Describe(v2), ""); d != "" {
		f := c01PathName(in.Into, d)
		if in.Into != "message" && in.Into != "presence" && in.Into != "iq" {
			f = c01SmallField(in.Into, d)
		}
		return fmt.Sprintf("the value parsed from %q changes at %s when written (%q) and parsed again", c01Short([]byte(sb.String())), f, c01Short(b1)), "unstable:" + goName + ":" + f
	}
	b2, err := xml.Marshal(v2)
	if err != nil || !bytes.Equal(b1, b2) {
		return fmt.Sprintf("the value parsed from %q is written as %q and then as %q (err %v)", c01Short([]byte(sb.String())), c01Short(b1), c01Short(b2), err), "unstable:" + goName + ":bytes"
	}
	return "", ""
}

// c01StripQualified: the document without its namespace-qualified attributes
func c01StripQualified(t c01Tree) (c01Tree, bool) {
	out, had := t, false
	out.Attrs = nil
	for _, a := range t.Attrs {
		if a.NS != "" {
			had = true
			continue
		}
		out.Attrs = append(out.Attrs, a)
	}
	out.Kids = nil
	for _, k := range t.Kids {
		k2, h := c01StripQualified(k)
		had = had || h
		out.Kids = append(out.Kids, k2)
	}
	return out, had
}

// c01WithLookalikes: every attribute of the root and of its <error/> children once more, with
// another value, in another namespace (after the real one: the decoders' loops let the last match win)
func c01WithLookalikes(t c01Tree) c01Tree {
	out := t
	out.Attrs = append([]c01KV{}, t.Attrs...)
	for _, k := range []string{"type", "code", "id", "from", "to", "lang", "h"} {
		out.Attrs = append(out.Attrs, c01KV{K: k, V: "9" + k, NS: "urn:verif:other"})
	}
	out.Kids = nil
	for _, k := range t.Kids {
		if k.Elem && k.Local == "error" && k.Space == t.Space {
			k = c01WithLookalikes(k) // the stanza's own <error/>; one of another namespace is generic content and keeps its attributes
		}
		out.Kids = append(out.Kids, k)
	}
	return out
}

var c01GoName = map[string]string{"message": "stanza.Message", "presence": "stanza.Presence", "iq": "stanza.IQ", "node": "stanza.Node",
	"smenable": "stanza.SMEnable", "smenabled": "stanza.SMEnabled", "smrequest": "stanza.SMRequest", "smanswer": "stanza.SMAnswer",
	"smresume": "stanza.SMResume", "smresumed": "stanza.SMResumed", "smfailed": "stanza.SMFailed", "saslauth": "stanza.SASLAuth",
	"handshake": "stanza.Handshake"}

// skeleton of marshalled bytes through an independent tokenisation
func c01Skeleton(b []byte) string {
	d := xml.NewDecoder(bytes.NewReader(b))
	var sb strings.Builder
	for {
		tok, err := d.Token()
		if err != nil {
			if err.Error() != "EOF" {
				sb.WriteString("!" + err.Error())
			}
			break
		}
		switch t := tok.(type) {
		case xml.StartElement:
			sb.WriteString("<" + t.Name.Space + " " + t.Name.Local)
			for _, a := range t.Attr {
				if a.Name.Local == "xmlns" && a.Name.Space == "" {
					continue
				}
				sb.WriteString(" @" + a.Name.Space + ":" + a.Name.Local)
			}
			sb.WriteString(">")
		case xml.EndElement:
			sb.WriteString("</>")
		case xml.CharData:
		default:
			sb.WriteString("?")
		}
	}
	return sb.String()
}

// c01Retext: every non-empty free-text field replaced by another non-empty pool string.
func c01Retext(in c01In, r *rand.Rand) c01In {
	re := func(s string) string {
		if s == "" {
			return ""
		}
		return c01TextAny(r)
	}
	out := in
	out.Type, out.Id, out.From, out.To, out.Lang = re(in.Type), re(in.Id), re(in.From), re(in.To), re(in.Lang)
	out.Subject, out.Body, out.Thread, out.Show, out.Status = re(in.Subject), re(in.Body), re(in.Thread), re(in.Show), re(in.Status)
	if in.Err != nil {
		e := *in.Err
		e.Type, e.Text = re(e.Type), re(e.Text)
		out.Err = &e
	}
	var ren func(n c01Node) c01Node
	ren = func(n c01Node) c01Node {
		m := c01Node{Space: n.Space, Local: n.Local, Content: re(n.Content)}
		for _, a := range n.Attrs {
			m.Attrs = append(m.Attrs, c01KV{K: a.K, V: c01TextAny(r), NS: a.NS})
		}
		for _, k := range n.Nodes {
			m.Nodes = append(m.Nodes, ren(k))
		}
		return m
	}
	if in.Any != nil {
		n := ren(*in.Any)
		out.Any = &n
	}
	out.SId, out.Location, out.SResume, out.PrevId = re(in.SId), re(in.Location), re(in.SResume), re(in.PrevId)
	out.Mechanism = c01TextAny(r)
	out.Value = re(in.Value)
	return out
}

func c01Hash(s string) int64 {
	h := fnv.New64a()
	h.Write([]byte(s))
	return int64(h.Sum64() & 0x7fffffffffffffff)
}

func c01FirstDiff(a, b Sx, path string) string {
	if a.K != b.K {
		return path
	}
	switch a.K {
	case "z":
		if a.Z != b.Z {
			return path
		}
	case "s":
		if len(a.S) != len(b.S) {
			return path
		}
		for i := range a.S {
			if a.S[i] != b.S[i] {
				return path
			}
		}
	default:
		if len(a.L) != len(b.L) {
			return path
		}
		for i := range a.L {
			if d := c01FirstDiff(a.L[i], b.L[i], fmt.Sprintf("%s.%d", path, i)); d != "" {
				return d
			}
		}
	}
	return ""
}

var c01FieldNames = map[string][]string{
	"message":  {"kind", "Attrs", "Subject", "Body", "Thread", "Error", "Extensions"},
	"presence": {"kind", "Attrs", "Show", "Status", "Priority", "Error", "Extensions"},
	"iq":       {"kind", "Attrs", "Payload", "Error", "Any"},
}
var c01AttrNames = []string{"Type", "Id", "From", "To", "Lang"}
var c01ErrNames = []string{"Code", "Type", "Reason", "Text"}

// c01PathName: readable name of the first differing field
func c01PathName(kind, path string) string {
	parts := strings.Split(strings.TrimPrefix(path, "."), ".")
	if len(parts) == 0 || parts[0] == "" {
		return "shape"
	}
	idx := func(s string) int { var i int; fmt.Sscan(s, &i); return i }
	names, ok := c01FieldNames[kind]
	if !ok {
		return "field" + parts[0]
	}
	i := idx(parts[0])
	if i >= len(names) {
		return "shape"
	}
	name := names[i]
	if name == "Attrs" && len(parts) > 1 && idx(parts[1]) < 5 {
		return c01AttrNames[idx(parts[1])]
	}
	if name == "Error" {
		p := parts[1:]
		if kind == "iq" && len(p) > 0 {
			p = p[1:]
		}
		if len(p) > 0 && idx(p[0]) < 4 {
			return "Error." + c01ErrNames[idx(p[0])]
		}
	}
	return name
}

func (c01) Oracle(inp interface{}, obs Sx) (string, string) {
	in := inp.(c01In)
	if in.Kind == "reflect" && (in.IntSlot != nil || in.Wide > 0 || in.TimeSlot != nil || in.NodeSlot != nil) {
		return c01ShapedRoundTrip(in)
	}
	if in.Kind == "wide" {
		return c01WideRoundTrip(in)
	}
	if in.Kind == "reflect" {
		return c01ReflectRoundTrip(in.GoType, in.Seed, in.Wrap, in.Mask)
	}
	if in.Kind == "noise" {
		return c01NoiseRoundTrip(in.GoType, in.Seed, in.Wrap)
	}
	if in.Kind == "deepnode" {
		return c01DeepRoundTrip(in.Depth)
	}
	if in.Kind == "qattr" {
		return c01QAttrRoundTrip(in)
	}
	if in.Kind == "cmdnote" { // an ad-hoc command carrying one note with the given text
		cmd := &stanza.Command{Node: "n", CommandElements: []stanza.CommandElement{&stanza.Note{Type: "info", Text: in.Body}}}
		return c01ValueRoundTrip("stanza.Command", reflect.ValueOf(cmd), 0, "iq")
	}
	if in.Kind == "wire" {
		return c01WireOracle(in)
	}
	goName := c01GoName[in.Kind]
	// the property itself, on the implementation alone (nothing here goes through the model)
	v, fresh := c01Build(in)
	b1, err := xml.Marshal(v)
	// An error condition is written as an element NAME. One that is not a name must be refused
	// (nothing written); written as it stands it changes the markup around it.
	if c01BadReason(in) {
		if err != nil {
			return "", ""
		}
		return fmt.Sprintf("Err.Reason %q is not an element name and is copied into the markup: %q", in.Err.Reason, c01Short(b1)), "injection:" + goName + ":Reason"
	}
	if err != nil {
		return "marshal failed: " + err.Error(), "nonroundtrip:" + goName + ":marshal-error"
	}
	if in.BadNames { // names of type xml.Name that are not names: the caller's business
		return "", ""
	}
	if _, ok := c01ReadDoc(b1); !ok {
		return fmt.Sprintf("the marshalled bytes are not a well-formed element: %q", c01Short(b1)), "illformed:" + goName
	}
	if err := xml.Unmarshal(b1, fresh); err != nil {
		return "Unmarshal(Marshal v) fails: " + err.Error() + " on " + c01Short(b1), "nonroundtrip:" + goName + ":unmarshal-error"
	}
	if in.OutOfDomain {
		return "", ""
	}
	desc := c01Describe(fresh)
	// equal to the original, characters that cannot be written (outside the XML range) having
	// become U+FFFD
	sv, _ := c01Build(c01SanIn(in))
	want := c01Describe(sv)
	if d := c01FirstDiff(want, desc, ""); d != "" {
		f := c01PathName(in.Kind, d)
		if in.Kind != "message" && in.Kind != "presence" && in.Kind != "iq" {
			f = c01SmallField(in.Kind, d)
		}
		return fmt.Sprintf("describe(Unmarshal(Marshal v)) differs from describe(v) at %s (%s): bytes %q", f, d, c01Short(b1)), "nonroundtrip:" + goName + ":" + f
	}
	b2, err := xml.Marshal(fresh)
	if err != nil || !bytes.Equal(b1, b2) {
		return fmt.Sprintf("Marshal(Unmarshal(Marshal v)) differs: %q vs %q (err %v)", c01Short(b1), c01Short(b2), err), "nonroundtrip:" + goName + ":bytes"
	}
	// skeleton invariance under text replacement
	raw, _ := json.Marshal(in)
	r := rand.New(rand.NewSource(c01Hash(string(raw))))
	sk := c01Skeleton(b1)
	for k := 0; k < 2; k++ {
		alt := c01Retext(in, r)
		av, _ := c01Build(alt)
		ab, err := xml.Marshal(av)
		if err != nil {
			return "marshal of the re-texted value fails: " + err.Error(), "injection:" + goName + ":marshal-error"
		}
		if s2 := c01Skeleton(ab); s2 != sk {
			araw, _ := json.Marshal(alt)
			return fmt.Sprintf("element skeleton changes when only text fields change: %s vs %s (re-texted input %s)", c01Short([]byte(sk)), c01Short([]byte(s2)), c01Short(araw)), "injection:" + goName
		}
	}
	return "", ""
}

func c01SmallField(kind, path string) string {
	names := map[string][]string{
		"node": {"kind", "Node"}, "smenable": {"kind", "Max", "Resume"}, "smenabled": {"kind", "Id", "Location", "Resume", "Max"},
		"smanswer": {"kind", "H"}, "smresume": {"kind", "PrevId", "H"}, "smresumed": {"kind", "PrevId", "H"},
		"smfailed": {"kind", "H", "StreamErrorGroup"}, "saslauth": {"kind", "Mechanism", "Value"}, "handshake": {"kind", "Value"},
	}[kind]
	parts := strings.Split(strings.TrimPrefix(path, "."), ".")
	var i int
	fmt.Sscan(parts[0], &i)
	if parts[0] == "" || i >= len(names) {
		return "shape"
	}
	return names[i]
}

func c01RunesToString(x Sx) string {
	rs := make([]rune, len(x.S))
	for i, v := range x.S {
		rs[i] = rune(v)
	}
	return string(rs)
}

func c01Class(s string) string {
	switch {
	case s == "":
		return "-"
	case strings.ContainsAny(s, "<>&\"'"):
		return "m"
	case strings.ContainsAny(s, "\t\n\r"):
		return "w"
	case strings.TrimSpace(s) != s:
		return "p"
	case len(s) != len([]rune(s)):
		return "u"
	}
	return "a"
}

func c01NodeShape(n *c01Node, depth int) (string, int, int) {
	if n == nil {
		return "", 0, 0
	}
	var sb strings.Builder
	maxd, cnt := depth, 1
	fmt.Fprintf(&sb, "(%d%s%s", len(n.Attrs), c01Class(n.Content), map[bool]string{true: "n", false: ""}[n.Space != ""])
	for i := range n.Nodes {
		s, d, c := c01NodeShape(&n.Nodes[i], depth+1)
		sb.WriteString(s)
		if d > maxd {
			maxd = d
		}
		cnt += c
	}
	sb.WriteString(")")
	return sb.String(), maxd, cnt
}

func (c01) Key(inp interface{}) (string, bool) {
	in := inp.(c01In)
	hist("kind:" + in.Kind)
	if in.Kind == "wire" {
		hist("wire:" + in.Into)
	}
	if in.BadNames {
		hist("names:node-not-a-name")
	}
	if c01BadReason(in) {
		hist("names:reason-not-a-name")
	}
	if in.RootSpace != "" || in.RootLocal != "" {
		hist("xmlname-set")
	}
	if in.Kind == "deepnode" || in.Kind == "qattr" || in.Kind == "cmdnote" || in.Kind == "wire" {
		raw, _ := json.Marshal(in)
		return string(raw), true
	}
	if in.Kind == "wide" {
		hist(fmt.Sprintf("wide-extensions:n=%d nested=%v", in.N, in.Nested))
		return fmt.Sprintf("wide/%s/%s/%d/%d/%v", in.GoType, in.Wrap, in.Seed, in.N, in.Nested), true
	}
	if in.Kind == "reflect" && in.IntSlot != nil {
		hist("int-edge:" + in.GoType)
		return fmt.Sprintf("edge/%s/%s/%d/%s", in.GoType, in.Wrap, *in.IntSlot, in.IntVal), true
	}
	if in.Kind == "reflect" && in.TimeSlot != nil {
		hist("time-edge:" + in.GoType)
		return fmt.Sprintf("time/%s/%s/%d/%s", in.GoType, in.Wrap, *in.TimeSlot, in.TimeVal), true
	}
	if in.Kind == "reflect" && in.NodeSlot != nil {
		hist("lookalike-node:" + in.GoType)
		return fmt.Sprintf("lookalike/%s/%s/%d/%s", in.GoType, in.Wrap, *in.NodeSlot, in.NodeName), true
	}
	if in.Kind == "reflect" && in.Wide > 0 {
		hist(fmt.Sprintf("wide-slices:n=%d", in.Wide))
		return fmt.Sprintf("wideslice/%s/%s/%d/%d", in.GoType, in.Wrap, in.Seed, in.Wide), true
	}
	if in.Kind == "reflect" || in.Kind == "noise" {
		hist(in.Kind + ":" + in.GoType + map[bool]string{true: "", false: " in " + in.Wrap}[in.Wrap == ""])
		if in.Mask != "" {
			hist("subset-sweep:" + in.GoType)
		}
		return fmt.Sprintf("%s/%s/%s/%d/%s", in.Kind, in.GoType, in.Wrap, in.Seed, in.Mask), true
	}
	var sb strings.Builder
	sb.WriteString(in.Kind + "|")
	for _, s := range []string{in.Type, in.Id, in.From, in.To, in.Lang, in.Subject, in.Body, in.Thread, in.Show, in.Status,
		in.SId, in.Location, in.SResume, in.PrevId, in.Mechanism, in.Value} {
		sb.WriteString(c01Class(s))
	}
	fmt.Fprintf(&sb, "|p%v", in.Priority != 0)
	if in.Err != nil {
		fmt.Fprintf(&sb, "|e%v%s%s%s", in.Err.Code != 0, c01Class(in.Err.Type), c01Class(in.Err.Reason), c01Class(in.Err.Text))
		hist(fmt.Sprintf("err:code%v", in.Err.Code != 0))
	}
	for _, e := range in.Exts {
		sb.WriteString("|x" + e.GoType)
		hist("ext:" + e.GoType)
	}
	hist(fmt.Sprintf("exts:%d", len(in.Exts)))
	if in.Payload != nil {
		sb.WriteString("|y" + in.Payload.GoType)
		hist("payload:" + in.Payload.GoType)
	}
	shape, d, c := c01NodeShape(in.Any, 1)
	if in.Any != nil {
		sb.WriteString("|n" + shape)
		hist(fmt.Sprintf("node-depth:%d", d))
		hist(fmt.Sprintf("node-size:%d", (c+4)/5*5))
	}
	fmt.Fprintf(&sb, "|%v%v%v%d%d%s", in.Max != nil, in.H != nil, in.Resume != nil, in.MaxU, in.HU, in.Cond)
	for _, s := range []string{in.Body, in.Subject, in.Status, in.Id} {
		hist("text:" + c01Class(s))
	}
	raw, _ := json.Marshal(in)
	return sb.String(), len(raw) > len(in.Kind)+12
}

// ---------------------------------------------------------------- generation

func c01GenErr(r *rand.Rand) *c01Err {
	e := &c01Err{}
	switch r.Intn(4) {
	case 0:
		e.Code = 404
	case 1:
		e.Code = []int{-1, 1, 500, 1 << 40, -(1 << 62)}[r.Intn(5)]
	}
	if r.Intn(2) == 0 {
		e.Type = []string{"cancel", "auth", "modify", "wait", "<&>"}[r.Intn(5)]
	}
	if r.Intn(2) == 0 {
		e.Reason = []string{"item-not-found", "bad-request", "a", "x1", "service-unavailable", "gone"}[r.Intn(6)]
	}
	if r.Intn(2) == 0 {
		e.Text = c01TextAny(r)
	}
	return e
}

func c01ErrEmpty(e *c01Err) bool {
	return e == nil || (e.Code == 0 && e.Type == "" && e.Reason == "" && e.Text == "")
}

func c01GenNode(r *rand.Rand, depth int, parentNS string) c01Node {
	n := c01Node{Local: c01Names[r.Intn(len(c01Names))]}
	if parentNS != "" || r.Intn(2) == 0 {
		n.Space = c01Spaces[r.Intn(len(c01Spaces))]
		if r.Intn(3) == 0 && parentNS != "" {
			n.Space = parentNS
		}
	}
	for i := r.Intn(4); i > 0; i-- {
		n.Attrs = append(n.Attrs, c01KV{K: c01Names[r.Intn(len(c01Names))], V: c01OptTextAny(r)})
	}
	if r.Intn(2) == 0 {
		n.Content = c01TextAny(r)
	}
	if depth < 5 {
		w := r.Intn(5)
		if depth >= 3 {
			w = r.Intn(2)
		}
		for i := 0; i < w; i++ {
			n.Nodes = append(n.Nodes, c01GenNode(r, depth+1, n.Space))
		}
	}
	return n
}

func c01SafeExts(r *rand.Rand, kind int, n int) []c01Ext {
	c01Init()
	var cands []c01RegEntry
	for _, e := range c01Registry {
		if e.Kind == kind && e.Local != "*" {
			cands = append(cands, e)
		}
	}
	var out []c01Ext
	for tries := 0; len(out) < n && tries < 6*n+6 && len(cands) > 0; tries++ {
		e := cands[r.Intn(len(cands))]
		x := c01Ext{e.GoType, int64(r.Intn(50))}
		if c01ExtSafe(x) {
			out = append(out, x)
		}
	}
	return out
}

func c01U64(r *rand.Rand) *uint64 {
	u := []uint64{0, 1, 5, 4294967295, 1 << 40, 1<<62 + 7}[r.Intn(6)]
	return &u
}

func (c01) Gen(r *rand.Rand, tier string) []interface{} {
	c01Init()
	var out []interface{}
	add := func(in c01In) { out = append(out, in) }
	// exhaustive: kinds x attribute presence x {no child, each child}
	children := map[string][]func(in *c01In){
		"message": {func(*c01In) {}, func(i *c01In) { i.Subject = "s<" }, func(i *c01In) { i.Body = "b&" }, func(i *c01In) { i.Thread = "t" },
			func(i *c01In) { i.Err = &c01Err{Code: 404, Type: "cancel", Reason: "item-not-found", Text: "gone"} },
			func(i *c01In) { i.Err = &c01Err{Type: "cancel", Reason: "item-not-found"} },
			func(i *c01In) { i.Exts = c01SafeExts(r, 1, 1) }},
		"presence": {func(*c01In) {}, func(i *c01In) { i.Show = "away" }, func(i *c01In) { i.Status = "st'" }, func(i *c01In) { i.Priority = -7 },
			func(i *c01In) { i.Err = &c01Err{Code: 500, Type: "wait"} }, func(i *c01In) { i.Err = &c01Err{Reason: "conflict"} },
			func(i *c01In) { i.Exts = c01SafeExts(r, 0, 1) }},
		"iq": {func(*c01In) {}, func(i *c01In) { i.Err = &c01Err{Code: 501, Type: "cancel", Reason: "feature-not-implemented"} },
			func(i *c01In) { i.Err = &c01Err{Text: "only text"} },
			func(i *c01In) { i.Any = &c01Node{Space: "urn:x:1", Local: "q", Content: "c"} },
			func(i *c01In) {
				if x := c01SafeExts(r, 2, 1); len(x) == 1 {
					i.Payload = &x[0]
				}
			}},
	}
	for _, kind := range []string{"message", "presence", "iq"} {
		for mask := 0; mask < 32; mask++ {
			for _, ch := range children[kind] {
				in := c01In{Kind: kind}
				if mask&1 != 0 {
					in.Type = "get"
				}
				if mask&2 != 0 {
					in.Id = "id-1"
				}
				if mask&4 != 0 {
					in.From = "a@b/c"
				}
				if mask&8 != 0 {
					in.To = "d@e"
				}
				if mask&16 != 0 {
					in.Lang = "en"
				}
				ch(&in)
				if (mask+len(out))%3 == 0 { // as parsed from a client stream
					in.RootSpace, in.RootLocal = "jabber:client", kind
				}
				add(in)
			}
		}
	}
	// every pool text in every text position once
	for _, t := range c01Texts {
		add(c01In{Kind: "message", Type: t, Id: t, From: t, To: t, Lang: t, Subject: t, Body: t, Thread: t, Err: &c01Err{Code: 1, Type: t, Text: t}})
		add(c01In{Kind: "presence", Show: t, Status: t, Err: &c01Err{Type: t, Reason: "a", Text: t}})
		add(c01In{Kind: "iq", Id: t, Lang: t, Any: &c01Node{Space: t, Local: "q", Attrs: []c01KV{{K: "a", V: t}}, Content: t, Nodes: []c01Node{{Space: t, Local: "r", Content: t}}}})
		add(c01In{Kind: "smenabled", SId: t, Location: t, SResume: t})
		add(c01In{Kind: "smresume", PrevId: t})
		add(c01In{Kind: "saslauth", Mechanism: t})
	}
	// domain edge: values outside the round-trip domain, where the model must still
	// predict what the code does (the "malformed" stream of this property)
	for _, in := range []c01In{
		{Kind: "node", Any: &c01Node{Space: "urn:x:1", Local: "q", Nodes: []c01Node{{Local: "c", Content: "x"}}}},
		{Kind: "iq", Any: &c01Node{Space: "urn:x:1", Local: "q", Nodes: []c01Node{{Local: "c", Nodes: []c01Node{{Space: "urn:x:2", Local: "d", Nodes: []c01Node{{Local: "e"}}}}}}}},
		{Kind: "iq", Err: &c01Err{}},
		{Kind: "iq", Id: "1", Any: &c01Node{Local: "error", Content: "not an error"}},
		{Kind: "message", Err: &c01Err{Code: 1, Reason: "text"}},
		{Kind: "presence", Err: &c01Err{Type: "cancel", Reason: "text", Text: "t"}},
	} {
		in.OutOfDomain = true
		add(in)
	}
	// characters outside the XML range, in every text position
	for _, t := range c01Illegal {
		add(c01In{Kind: "message", Type: t, Id: t, From: t, To: t, Lang: t, Subject: t, Body: t, Thread: t, Err: &c01Err{Code: 1, Type: t, Reason: "gone", Text: t}})
		add(c01In{Kind: "presence", Show: t, Status: t, Err: &c01Err{Type: t, Text: t}})
		add(c01In{Kind: "iq", Id: t, Any: &c01Node{Space: "urn:x:1", Local: "q", Content: t, Attrs: []c01KV{{K: "a", V: t}}, Nodes: []c01Node{{Space: "urn:x:1", Local: "r", Content: t}}}})
		add(c01In{Kind: "smenabled", SId: t, Location: t, SResume: t})
		add(c01In{Kind: "smresumed", PrevId: t})
		add(c01In{Kind: "saslauth", Mechanism: t, Value: t})
		add(c01In{Kind: "handshake", Value: t})
	}
	// integer fields of the modelled core at both sides of the edges of their Go type and of
	// every narrower width (the same family over the registered types: c01GenEdgesAndWide)
	for i, val := range c01EdgeValues(64, true) {
		code, _ := strconv.ParseInt(val, 10, 64)
		add(c01In{Kind: []string{"message", "presence", "iq"}[i%3], Type: "error", Err: &c01Err{Code: int(code), Type: "cancel", Reason: "conflict"}})
	}
	for _, val := range c01EdgeValues(8, true) {
		pr, _ := strconv.ParseInt(val, 10, 64)
		add(c01In{Kind: "presence", Priority: int(pr), Status: "s"})
	}
	for _, val := range c01EdgeValues(64, false) {
		u, _ := strconv.ParseUint(val, 10, 64)
		if u >= 1<<63 { // the case format carries int64
			continue
		}
		u1, u2, u3, u4 := u, u, u, u
		add(c01In{Kind: "smenable", Max: &u1})
		add(c01In{Kind: "smenabled", SId: "i", MaxU: u})
		add(c01In{Kind: "smanswer", HU: u})
		add(c01In{Kind: "smresume", PrevId: "p", H: &u2})
		add(c01In{Kind: "smresumed", PrevId: "p", H: &u3})
		add(c01In{Kind: "smfailed", H: &u4})
	}
	c01GenNames(tier, add)
	c01GenWire(r, tier, add)
	// the error condition gone (with and without text), in the three stanza kinds; a generic
	// payload that is called error in its own namespace; every <failed/> condition; SASL auth
	// and handshake values that are not base64 / hex
	for _, kind := range []string{"message", "presence", "iq"} {
		add(c01In{Kind: kind, Type: "error", Err: &c01Err{Type: "modify", Reason: "gone"}})
		add(c01In{Kind: kind, Type: "error", Err: &c01Err{Code: 302, Type: "modify", Reason: "gone", Text: "xmpp:new@example.org"}})
	}
	add(c01In{Kind: "iq", Id: "1", Type: "set", Any: &c01Node{Space: "urn:example:diag", Local: "error", Attrs: []c01KV{{K: "level", V: "3"}, {K: "code", V: "7"}, {K: "type", V: "t"}}, Content: "disk full"}})
	add(c01In{Kind: "iq", Id: "2", Type: "error", Err: &c01Err{Type: "cancel", Reason: "conflict"}, Any: &c01Node{Space: "urn:example:diag", Local: "error", Nodes: []c01Node{{Space: "urn:ietf:params:xml:ns:xmpp-stanzas", Local: "text", Content: "x"}}}})
	conds := make([]string, 0, len(c01Conds))
	for c := range c01Conds {
		conds = append(conds, c)
	}
	sort.Strings(conds)
	seven := uint64(7)
	for _, c := range conds {
		add(c01In{Kind: "smfailed", Cond: c})
		add(c01In{Kind: "smfailed", Cond: c, H: &seven})
	}
	for _, t := range c01Texts {
		add(c01In{Kind: "saslauth", Mechanism: "PLAIN", Value: t})
		add(c01In{Kind: "handshake", Value: t})
		add(c01In{Kind: "cmdnote", Body: t}) // oracle-only: Note.Text inside a registered Command payload
	}
	// oracle-only: a generic payload nested deeper than a recursive encoder survives (the
	// library serialises such a payload by itself when it answers an unhandled iq), and
	// generic nodes with namespace-qualified attributes
	add(c01In{Kind: "deepnode", Depth: 2000}) // 600000 levels: replays/C01/corpus/f1_deep_generic_payload.json, on every run
	add(c01In{Kind: "qattr", Any: &c01Node{Space: "urn:x:1", Local: "q", Attrs: []c01KV{{K: "a", V: "1", NS: "urn:p"}}}})
	add(c01In{Kind: "qattr", Any: &c01Node{Local: "q", Attrs: []c01KV{{K: "lang", V: "en", NS: "http://www.w3.org/XML/1998/namespace"}, {K: "b", V: "<&>", NS: "http://a/b#c"}, {K: "c", V: "plain"}}, Nodes: []c01Node{{Space: "urn:x:2", Local: "r", Attrs: []c01KV{{K: "a", V: "2", NS: "urn:p"}, {K: "a", V: "3", NS: "urn:q"}}, Content: "t"}}}})
	n := 1200
	nrefl := 3
	if tier == "thorough" {
		n = 60000
		nrefl = 60
	}
	for i := 0; i < n; i++ {
		in := c01In{}
		k := r.Intn(20)
		switch {
		case k < 5:
			in.Kind = "message"
		case k < 9:
			in.Kind = "presence"
		case k < 14:
			in.Kind = "iq"
		case k < 16:
			in.Kind = "node"
		default:
			in.Kind = []string{"smenable", "smenabled", "smrequest", "smanswer", "smresume", "smresumed", "smfailed", "saslauth", "handshake"}[r.Intn(9)]
		}
		switch in.Kind {
		case "message", "presence", "iq":
			if r.Intn(2) == 0 {
				in.Type = c01Types[r.Intn(len(c01Types))]
			} else {
				in.Type = c01OptTextAny(r)
			}
			in.Id, in.From, in.To, in.Lang = c01OptTextAny(r), c01OptTextAny(r), c01OptTextAny(r), c01OptTextAny(r)
		}
		switch in.Kind {
		case "message", "presence", "iq":
			if r.Intn(4) == 0 { // the XMLName a decoder (or anybody) left in the value
				in.RootSpace = []string{"jabber:client", "jabber:component:accept", "urn:x:1", ""}[r.Intn(4)]
				in.RootLocal = []string{in.Kind, "", "foo"}[r.Intn(3)]
			}
		}
		switch in.Kind {
		case "message":
			in.Subject, in.Body, in.Thread = c01OptTextAny(r), c01OptTextAny(r), c01OptTextAny(r)
			if r.Intn(2) == 0 {
				in.Err = c01GenErr(r)
			}
			in.Exts = c01SafeExts(r, 1, r.Intn(6))
		case "presence":
			in.Show, in.Status = c01OptTextAny(r), c01OptTextAny(r)
			if r.Intn(2) == 0 {
				in.Priority = r.Intn(256) - 128
			}
			if r.Intn(2) == 0 {
				in.Err = c01GenErr(r)
			}
			in.Exts = c01SafeExts(r, 0, r.Intn(4))
		case "iq":
			if r.Intn(2) == 0 {
				e := c01GenErr(r)
				if !c01ErrEmpty(e) { // an empty *Err is outside the domain (written as nothing)
					in.Err = e
				}
			}
			if r.Intn(2) == 0 {
				nd := c01GenNode(r, 1, "")
				in.Any = &nd
			}
			if r.Intn(3) == 0 {
				if x := c01SafeExts(r, 2, 1); len(x) == 1 {
					in.Payload = &x[0]
				}
			}
		case "node":
			nd := c01GenNode(r, 1, "")
			in.Any = &nd
		case "smenable":
			if r.Intn(2) == 0 {
				in.Max = c01U64(r)
			}
			if r.Intn(2) == 0 {
				b := r.Intn(2) == 0
				in.Resume = &b
			}
		case "smenabled":
			in.SId, in.Location, in.SResume = c01OptTextAny(r), c01OptTextAny(r), []string{"", "true", "false", "1", "x<"}[r.Intn(5)]
			in.MaxU = *c01U64(r)
		case "smanswer":
			in.HU = *c01U64(r)
		case "smresume", "smresumed":
			in.PrevId = c01OptTextAny(r)
			if r.Intn(2) == 0 {
				in.H = c01U64(r)
			}
		case "smfailed":
			if r.Intn(2) == 0 {
				in.H = c01U64(r)
			}
			if r.Intn(2) == 0 {
				in.Cond = conds[r.Intn(len(conds))]
			}
		case "saslauth":
			in.Mechanism = []string{"PLAIN", "X-OAUTH2", "ANONYMOUS", "", "a b<"}[r.Intn(5)]
			in.Value = c01Plain(r, c01B64)
			if r.Intn(4) == 0 {
				in.Value = c01OptTextAny(r)
			}
		case "handshake":
			in.Value = c01Plain(r, c01Hex)
			if r.Intn(4) == 0 {
				in.Value = c01OptTextAny(r)
			}
		}
		add(in)
	}
	for i := 0; i < 40; i++ {
		nd := c01GenNode(r, 3, "")
		var mark func(n *c01Node)
		mark = func(n *c01Node) {
			seen := map[string]bool{}
			var keep []c01KV
			for _, a := range n.Attrs { // distinct qualified names: the prefix the encoder picks is per namespace
				if r.Intn(2) == 0 {
					a.NS = []string{"urn:p", "urn:q", "http://www.w3.org/XML/1998/namespace", "http://a/b#c"}[r.Intn(4)]
				}
				if !seen[a.NS+" "+a.K] {
					seen[a.NS+" "+a.K] = true
					keep = append(keep, a)
				}
			}
			n.Attrs = keep
			for j := range n.Nodes {
				mark(&n.Nodes[j])
			}
		}
		mark(&nd)
		add(c01In{Kind: "qattr", Any: &nd})
	}
	// oracle-only reflection cases: every registered type alone and inside its stanza kind,
	// and the stream elements
	seen := map[string]bool{}
	var regs []c01RegEntry
	regs = append(regs, c01Registry...)
	sort.SliceStable(regs, func(i, j int) bool { return regs[i].GoType < regs[j].GoType })
	for _, e := range regs {
		wrap := []string{"presence", "message", "iq"}[e.Kind]
		for s := 0; s < nrefl; s++ {
			if !seen[e.GoType] {
				add(c01In{Kind: "reflect", GoType: e.GoType, Seed: int64(s)})
			}
			if e.Local != "*" {
				add(c01In{Kind: "reflect", GoType: e.GoType, Seed: int64(s), Wrap: wrap})
			}
		}
		seen[e.GoType] = true
	}
	for _, t := range c01StreamEl {
		for s := 0; s < nrefl; s++ {
			add(c01In{Kind: "reflect", GoType: t, Seed: int64(s)})
		}
	}
	// oracle-only subset sweep: for every registered type (alone and inside its stanza kind) and
	// the stream elements, which optional fields are set is enumerated, not drawn
	nsweep := 1
	if tier == "thorough" {
		nsweep = 4
	}
	swept := map[string]bool{}
	for _, e := range regs {
		for _, m := range c01Masks(e.GoType) {
			for sd := 0; sd < nsweep; sd++ {
				if !swept[e.GoType] {
					add(c01In{Kind: "reflect", GoType: e.GoType, Seed: int64(1000 + sd), Mask: m})
				}
				if e.Local != "*" {
					add(c01In{Kind: "reflect", GoType: e.GoType, Seed: int64(1000 + sd), Mask: m, Wrap: []string{"presence", "message", "iq"}[e.Kind]})
				}
			}
		}
		swept[e.GoType] = true
	}
	for _, t := range c01StreamEl {
		for _, m := range c01Masks(t) {
			for sd := 0; sd < nsweep; sd++ {
				add(c01In{Kind: "reflect", GoType: t, Seed: int64(1000 + sd), Mask: m})
			}
		}
	}
	// oracle-only noise cases: every registered type inside its stanza kind, with unknown
	// children and same-named descendants injected into the extension's bytes
	nnoise := 6
	if tier == "thorough" {
		nnoise = 150
	}
	for _, e := range regs {
		if e.Local == "*" {
			continue
		}
		for s := 0; s < nnoise; s++ {
			add(c01In{Kind: "noise", GoType: e.GoType, Seed: int64(s), Wrap: []string{"presence", "message", "iq"}[e.Kind]})
		}
	}
	c01GenEdgesAndWide(tier, regs, add)
	c01GenTimeAndLookalikes(regs, add)
	return out
}

// ---------------------------------------------------------------- noise: unknown children inside extensions

const c01NoiseNS = "urn:verif:noise"

type c01Pos struct {
	off              int
	parentL, parentN string // name of the enclosing element (namespace as written, escaped)
}

// c01InsertPoints: offsets just after a tag, inside the root element. The bytes come from
// Go's encoder: outside CDATA sections < and > occur in tags only, the namespace declaration
// is the first attribute.
func c01InsertPoints(b []byte) (pts []c01Pos, rootL, rootN string) {
	type el struct{ l, n string }
	var stack []el
	for i := 0; i < len(b); i++ {
		if b[i] != '<' {
			continue
		}
		if bytes.HasPrefix(b[i:], []byte("<![CDATA[")) { // ,cdata fields: raw < and > inside
			k := bytes.Index(b[i:], []byte("]]>"))
			if k < 0 {
				break
			}
			i += k + 2
			continue
		}
		j := bytes.IndexByte(b[i:], '>')
		if j < 0 {
			break
		}
		j += i
		tag := string(b[i+1 : j])
		if strings.HasPrefix(tag, "/") {
			if len(stack) > 0 {
				stack = stack[:len(stack)-1]
			}
			if len(stack) > 0 {
				pts = append(pts, c01Pos{j + 1, stack[len(stack)-1].l, stack[len(stack)-1].n})
			}
		} else {
			name, rest := tag, ""
			if k := strings.IndexByte(tag, ' '); k >= 0 {
				name, rest = tag[:k], tag[k:]
			}
			ns := ""
			if len(stack) > 0 {
				ns = stack[len(stack)-1].n
			}
			if strings.HasPrefix(rest, ` xmlns="`) {
				v := rest[len(` xmlns="`):]
				if k := strings.IndexByte(v, '"'); k >= 0 {
					ns = v[:k]
				}
			}
			if len(stack) == 0 {
				rootL, rootN = name, ns
			}
			stack = append(stack, el{name, ns})
			pts = append(pts, c01Pos{j + 1, name, ns})
		}
		i = j
	}
	return
}

func c01El(l, n, inner string) string {
	return "<" + l + ` xmlns="` + n + `">` + inner + "</" + l + ">"
}

func c01NoiseEl(r *rand.Rand, depth int, rootL, rootN, parL, parN, stanzaName string) string {
	var sb strings.Builder
	for i := r.Intn(4); i > 0; i-- {
		switch r.Intn(8) {
		case 0:
			sb.WriteString("noise &amp; text")
		case 1: // same name as the extension
			sb.WriteString(c01El(rootL, rootN, ""))
		case 2: // same name as the enclosing element
			sb.WriteString(c01El(parL, parN, "x"))
		case 3: // a whole stanza of the carrying kind
			sb.WriteString("<" + stanzaName + ` xmlns="jabber:client" id="evil" type="evil" from="evil"><body>evil</body><status>evil</status><error code="9" type="evil"></error></` + stanzaName + ">")
		case 4: // the core children
			sb.WriteString(`<body xmlns="">evil</body><subject xmlns="jabber:client">evil</subject><status xmlns="">evil</status><priority xmlns="">9</priority><error xmlns="" code="9"></error>`)
		case 5:
			if depth < 3 {
				sb.WriteString(c01NoiseEl(r, depth+1, rootL, rootN, parL, parN, stanzaName))
			}
		case 6: // enclosing element containing the extension again
			sb.WriteString(c01El(parL, parN, c01El(rootL, rootN, c01El(parL, parN, ""))))
		case 7: // typical typed children of the hand-written codecs, in the extension's namespace
			sb.WriteString(c01El("item", rootN, "") + c01El("items", rootN, "") + c01El("history", rootN, "") + c01El("note", rootN, "evil") + c01El("actions", rootN, ""))
		}
	}
	name := fmt.Sprintf("vn%d", r.Intn(4))
	return "<" + name + ` xmlns="` + c01NoiseNS + `" id="evil" type="evil" node="evil">` + sb.String() + "</" + name + ">"
}

// wire documents for the extension types with hand-written decoders, in the encoder's style
// (explicit end tags, namespace declaration first)
var c01WireDocs = map[string][]string{
	"stanza.PubSubEvent": {
		`<event xmlns="http://jabber.org/protocol/pubsub#event"><items node="princely_musings"><item id="ae890ac5" publisher="p@x"><entry xmlns="http://www.w3.org/2005/Atom"><title>Soliloquy</title></entry></item><item id="i2"></item><retract node="r1"></retract></items></event>`,
		`<event xmlns="http://jabber.org/protocol/pubsub#event"><collection node="c"><associate node="n1"></associate></collection></event>`,
		`<event xmlns="http://jabber.org/protocol/pubsub#event"><collection node="c"><disassociate node="n2"></disassociate></collection></event>`,
		`<event xmlns="http://jabber.org/protocol/pubsub#event"><configuration node="n"><x xmlns="jabber:x:data" type="result"><field var="FORM_TYPE" type="hidden"><value>v</value></field></x></configuration></event>`,
		`<event xmlns="http://jabber.org/protocol/pubsub#event"><delete node="n"><redirect uri="xmpp:h?;node=x"></redirect></delete></event>`,
		`<event xmlns="http://jabber.org/protocol/pubsub#event"><purge node="n"></purge></event>`,
		`<event xmlns="http://jabber.org/protocol/pubsub#event"><subscription node="n" jid="j@x" subscription="subscribed" expiry="2006-02-28T23:59:59Z"></subscription></event>`,
	},
	"stanza.PubSubOwner": {
		`<pubsub xmlns="http://jabber.org/protocol/pubsub#owner"><affiliations node="n"><affiliation jid="a@b" affiliation="owner"></affiliation><affiliation jid="c@d" affiliation="outcast"></affiliation></affiliations></pubsub>`,
		`<pubsub xmlns="http://jabber.org/protocol/pubsub#owner"><configure node="n"><x xmlns="jabber:x:data" type="form"><field var="pubsub#title" type="text-single"><value>t</value></field></x></configure></pubsub>`,
		`<pubsub xmlns="http://jabber.org/protocol/pubsub#owner"><default><x xmlns="jabber:x:data" type="form"></x></default></pubsub>`,
		`<pubsub xmlns="http://jabber.org/protocol/pubsub#owner"><delete node="n"><redirect uri="xmpp:h?;node=x"></redirect></delete></pubsub>`,
		`<pubsub xmlns="http://jabber.org/protocol/pubsub#owner"><purge node="n"></purge><set xmlns="http://jabber.org/protocol/rsm"><max>5</max></set></pubsub>`,
		`<pubsub xmlns="http://jabber.org/protocol/pubsub#owner"><subscriptions node="n"><subscription jid="j@x" subscription="subscribed"></subscription></subscriptions></pubsub>`,
	},
	"stanza.Command": {
		`<command xmlns="http://jabber.org/protocol/commands" node="list" sessionid="s1" status="executing"><actions execute="next"><next></next></actions><note type="info">hello</note><x xmlns="jabber:x:data" type="form"><title>T</title><field var="a" type="text-single"><value>v</value></field></x></command>`,
		`<command xmlns="http://jabber.org/protocol/commands" node="n" action="execute" lang="en"><note type="error">bad</note><note type="warn">w</note></command>`,
	},
	"stanza.MucPresence": {
		`<x xmlns="http://jabber.org/protocol/muc"><password>p</password><history maxstanzas="20" seconds="180" since="1970-01-01T00:00:00Z"></history></x>`,
		`<x xmlns="http://jabber.org/protocol/muc"><history maxchars="65000"></history></x>`,
	},
	"stanza.Delegation": {
		`<delegation xmlns="urn:xmpp:delegation:1"><delegated namespace="urn:x"></delegated></delegation>`,
		`<delegation xmlns="urn:xmpp:delegation:1"><forwarded xmlns="urn:xmpp:forward:0"><iq xmlns="jabber:client" id="f1" type="get" from="a@b"><query xmlns="jabber:iq:version"><name>n</name></query></iq></forwarded></delegation>`,
		`<delegation xmlns="urn:xmpp:delegation:1"><forwarded xmlns="urn:xmpp:forward:0"><message xmlns="jabber:client" id="f2" type="chat" to="c@d"><body>inner</body><thread>t</thread></message></forwarded></delegation>`,
		`<delegation xmlns="urn:xmpp:delegation:1"><forwarded xmlns="urn:xmpp:forward:0"><presence xmlns="jabber:client" id="f3"><status>s</status><priority>5</priority></presence></forwarded></delegation>`,
	},
	"stanza.PubSubGeneric": {
		`<pubsub xmlns="http://jabber.org/protocol/pubsub"><publish node="n"><item id="i"><entry xmlns="http://www.w3.org/2005/Atom"><title>t</title></entry></item></publish><publish-options><x xmlns="jabber:x:data" type="submit"></x></publish-options></pubsub>`,
		`<pubsub xmlns="http://jabber.org/protocol/pubsub"><subscription node="n" jid="j@x" subid="s" subscription="subscribed"></subscription></pubsub>`,
		`<pubsub xmlns="http://jabber.org/protocol/pubsub"><items node="n" max_items="2"><item id="a"></item><item id="b"></item></items></pubsub>`,
	},
}

// c01NoiseRoundTrip: the extension (filled by reflection) is carried in a stanza; unknown
// children are injected into the extension's bytes; the stanza must decode, its own fields
// must be untouched and the extension's typed fields must be those of the clean decode.
func c01NoiseRoundTrip(goType string, seed int64, wrap string) (msg, sig string) {
	p, ok := c01NewFilled(goType, seed)
	if !ok {
		return "unknown Go type " + goType, "harness:unknown-type"
	}
	eb, err := xml.Marshal(p.Interface())
	if err != nil || len(eb) == 0 {
		return "", "" // does not marshal on its own: the reflect cases report that
	}
	// the hand-written decoders are also fed realistic wire documents (what Marshal writes
	// for PubSubEvent, for one, is not what its decoder reads)
	if tpls := c01WireDocs[goType]; len(tpls) > 0 && seed%2 == 1 {
		eb = []byte(tpls[int(seed/2)%len(tpls)])
	}
	r := rand.New(rand.NewSource(seed*7919 + c01Hash(goType)%100000))
	pts, rootL, rootN := c01InsertPoints(eb)
	if len(pts) == 0 {
		return "", ""
	}
	k := 1 + r.Intn(3)
	chosen := map[int]c01Pos{}
	for i := 0; i < k; i++ {
		pt := pts[r.Intn(len(pts))]
		chosen[pt.off] = pt
	}
	offs := make([]int, 0, len(chosen))
	for o := range chosen {
		offs = append(offs, o)
	}
	sort.Sort(sort.Reverse(sort.IntSlice(offs)))
	nb := append([]byte{}, eb...)
	for _, o := range offs {
		pt := chosen[o]
		ins := c01NoiseEl(r, 1, rootL, rootN, pt.parentL, pt.parentN, wrap)
		nb = append(nb[:o], append([]byte(ins), nb[o:]...)...)
	}
	if t := c01TypeOf[goType]; t != nil && reflect.PtrTo(t).Implements(c01UnmarshalerT) && len(nb) > len(rootL)+1 {
		// a decoder of the library's own reads the attributes of its element itself: look-alikes
		// of another namespace, placed last, must not count (tag-driven types are read by
		// encoding/xml, which matches an attribute by its local name in any namespace)
		var qa strings.Builder
		qa.WriteString(` xmlns:vq="` + c01NoiseNS + `"`)
		for _, k := range []string{"node", "action", "sessionid", "status", "lang", "type", "id", "code"} {
			qa.WriteString(` vq:` + k + `="evil"`)
		}
		if end := bytes.IndexByte(nb, '>'); end > 0 {
			nb = append(nb[:end], append([]byte(qa.String()), nb[end:]...)...)
		}
	}
	var open, closeTag string
	switch wrap {
	case "message":
		open, closeTag = `<message id="i" type="chat">`, `<body>after</body></message>`
	case "presence":
		open, closeTag = `<presence id="i" type="t">`, `<status>after</status></presence>`
	case "iq":
		open, closeTag = `<iq id="i" type="result">`, `</iq>`
	}
	decode := func(ext []byte) (stz interface{}, got reflect.Value, why string) {
		doc := open + string(ext) + closeTag
		switch wrap {
		case "message":
			m := &stanza.Message{}
			if err := xml.Unmarshal([]byte(doc), m); err != nil {
				return nil, reflect.Value{}, "error:" + err.Error()
			}
			if len(m.Extensions) != 1 {
				return m, reflect.Value{}, fmt.Sprintf("dispatch:%d extensions", len(m.Extensions))
			}
			return m, reflect.ValueOf(m.Extensions[0]), ""
		case "presence":
			m := &stanza.Presence{}
			if err := xml.Unmarshal([]byte(doc), m); err != nil {
				return nil, reflect.Value{}, "error:" + err.Error()
			}
			if len(m.Extensions) != 1 {
				return m, reflect.Value{}, fmt.Sprintf("dispatch:%d extensions", len(m.Extensions))
			}
			return m, reflect.ValueOf(m.Extensions[0]), ""
		default:
			m := &stanza.IQ{}
			if err := xml.Unmarshal([]byte(doc), m); err != nil {
				return nil, reflect.Value{}, "error:" + err.Error()
			}
			if m.Payload == nil {
				return m, reflect.Value{}, "dispatch:no payload"
			}
			return m, reflect.ValueOf(m.Payload), ""
		}
	}
	_, clean, why := decode(eb)
	if why != "" {
		return "", "" // the clean document does not decode: the reflect cases report that
	}
	stz, noisy, why := decode(nb)
	where := fmt.Sprintf("%s in %s seed %d", goType, wrap, seed)
	if strings.HasPrefix(why, "error:") {
		return fmt.Sprintf("%s: with unknown children inside the extension the stanza no longer decodes (%s): %q", where, why[6:], c01Short(nb)), "noise:" + goType + ":unmarshal-error"
	}
	if why != "" {
		return fmt.Sprintf("%s: with unknown children inside the extension: %s: %q", where, why, c01Short(nb)), "noise:" + goType + ":dispatch"
	}
	// the stanza's own fields
	bad := ""
	switch m := stz.(type) {
	case *stanza.Message:
		if m.Id != "i" || m.Type != "chat" || m.From != "" || m.To != "" || m.Lang != "" || m.Body != "after" || m.Subject != "" || m.Thread != "" || m.Error != (stanza.Err{}) {
			bad = fmt.Sprintf("%+v", *m)
		}
	case *stanza.Presence:
		if m.Id != "i" || m.Type != "t" || m.From != "" || m.To != "" || m.Lang != "" || m.Status != "after" || m.Show != "" || m.Priority != 0 || m.Error != (stanza.Err{}) {
			bad = fmt.Sprintf("%+v", *m)
		}
	case *stanza.IQ:
		if m.Id != "i" || m.Type != "result" || m.From != "" || m.To != "" || m.Lang != "" || m.Error != nil || m.Any != nil {
			bad = fmt.Sprintf("%+v", *m)
		}
	}
	if bad != "" {
		return fmt.Sprintf("%s: unknown children inside the extension changed the stanza's own fields: %s from %q", where, c01Short([]byte(bad)), c01Short(nb)), "noise:" + goType + ":stanza-fields"
	}
	if clean.Type() != noisy.Type() {
		return fmt.Sprintf("%s: extension decoded as %s instead of %s", where, noisy.Type(), clean.Type()), "noise:" + goType + ":dispatch"
	}
	a, b := clean, noisy
	if a.Kind() == reflect.Ptr {
		a, b = a.Elem(), b.Elem()
	}
	if a.Kind() == reflect.Struct {
		t := a.Type()
		for i := 0; i < t.NumField(); i++ {
			f := t.Field(i)
			name, flags := c01TagInfo(f)
			if f.PkgPath != "" || (f.Name == "XMLName" && name != "") || flags["innerxml"] || flags["any"] || c01IsGeneric(f.Type) {
				continue
			}
			if !reflect.DeepEqual(c01CanonOpt(a.Field(i), true), c01CanonOpt(b.Field(i), true)) {
				return fmt.Sprintf("%s: typed field %s differs from the clean decode when unknown children are present: clean %q noisy %q", where, f.Name, c01Short(eb), c01Short(nb)), "noise:" + goType + ":" + f.Name
			}
		}
	}
	return "", ""
}

func c01OracleOnly(kind string) bool {
	return kind == "reflect" || kind == "noise" || kind == "deepnode" || kind == "qattr" || kind == "cmdnote" || kind == "wide"
}

// c01DeepRoundTrip: an iq whose generic payload is nested depth levels deep: marshal, unmarshal,
// marshal again; byte identity and depth. Everything here is iterative: what is under test is
// whether the library's encoder is (f1: the recursive Node.MarshalXML overflows the stack, a
// fatal error that ends the process).
func c01DeepRoundTrip(depth int) (msg, sig string) {
	n := stanza.Node{XMLName: xml.Name{Space: "urn:x:1", Local: "a"}, Content: "leaf"}
	for i := 1; i < depth; i++ {
		n = stanza.Node{XMLName: xml.Name{Space: "urn:x:1", Local: "a"}, Nodes: []stanza.Node{n}}
	}
	iq := &stanza.IQ{Attrs: stanza.Attrs{Id: "deep", Type: "get"}, Any: &n}
	b1, err := xml.Marshal(iq)
	if err != nil {
		return "marshal of a deep generic payload fails: " + err.Error(), "nonroundtrip:stanza.Node:deep-marshal-error"
	}
	back := &stanza.IQ{}
	if err := xml.Unmarshal(b1, back); err != nil {
		return "unmarshal of a deep generic payload fails: " + err.Error(), "nonroundtrip:stanza.Node:deep-unmarshal-error"
	}
	d := 0
	for p := back.Any; p != nil; d++ {
		if len(p.Nodes) == 0 {
			if p.Content != "leaf" {
				return "leaf content lost in a deep generic payload", "nonroundtrip:stanza.Node:deep"
			}
			break
		}
		p = &p.Nodes[0]
	}
	if d+1 != depth {
		return fmt.Sprintf("depth %d read back as %d", depth, d+1), "nonroundtrip:stanza.Node:deep"
	}
	b2, err := xml.Marshal(back)
	if err != nil || !bytes.Equal(b1, b2) {
		return fmt.Sprintf("second marshal of a deep generic payload differs (err %v, %d vs %d bytes)", err, len(b1), len(b2)), "nonroundtrip:stanza.Node:deep-bytes"
	}
	return "", ""
}

// c01QAttrRoundTrip: a generic Node with namespace-qualified attributes (outside the model's
// tree language, which has no prefixes): the value and the bytes must survive.
func c01QAttrRoundTrip(in c01In) (msg, sig string) {
	n := c01GoNode(*in.Any)
	iq := &stanza.IQ{Attrs: stanza.Attrs{Id: "q", Type: "set"}, Any: &n}
	b1, err := xml.Marshal(iq)
	if err != nil {
		return "marshal fails: " + err.Error(), "nonroundtrip:stanza.Node:qualified-attr-marshal-error"
	}
	if _, ok := c01ReadDoc(b1); !ok {
		return fmt.Sprintf("the marshalled bytes are not a well-formed element: %q", c01Short(b1)), "illformed:stanza.Node"
	}
	back := &stanza.IQ{}
	if err := xml.Unmarshal(b1, back); err != nil {
		return "unmarshal fails: " + err.Error() + " on " + c01Short(b1), "nonroundtrip:stanza.Node:qualified-attr-unmarshal-error"
	}
	want := c01GoNode(*c01SanIn(in).Any) // characters that cannot be written come back as U+FFFD
	if back.Any == nil || c01FirstDiff(c01NodeSx(want), c01NodeSx(*back.Any), "") != "" {
		got := "nil"
		if back.Any != nil {
			got = fmt.Sprintf("%+v", back.Any.Attrs)
		}
		return fmt.Sprintf("generic node with a qualified attribute changed in the round trip: attributes %+v read back as %s; bytes %q", n.Attrs, got, c01Short(b1)), "nonroundtrip:stanza.Node:qualified-attr"
	}
	b2, err := xml.Marshal(back)
	if err != nil || !bytes.Equal(b1, b2) {
		return fmt.Sprintf("second marshal differs: %q vs %q", c01Short(b1), c01Short(b2)), "nonroundtrip:stanza.Node:qualified-attr-bytes"
	}
	return "", ""
}

// ---------------------------------------------------------------- names at the edges of the grammar

// c01GenNames: the names measured on the decoder (c01NameInit: every ASCII character and both
// sides of every edge of the two character sets, alone, after a letter and between letters).
// Accepted ones are used as element names, attribute names and error conditions and must round
// trip; refused ones, one per case: as a condition the value must be refused by Marshal, as a
// generic node or attribute name (type xml.Name, the caller's business) model and code must
// agree on what the bytes are.
func c01GenNames(tier string, add func(c01In)) {
	c01NameInit()
	kinds := []string{"message", "presence", "iq"}
	step := 12
	for i := 0; i < len(c01ProbeOK); i += step {
		chunk := c01ProbeOK[i:]
		if len(chunk) > step {
			chunk = chunk[:step]
		}
		n := c01Node{Space: "urn:x:1", Local: chunk[0]}
		seen := map[string]bool{}
		for _, nm := range chunk {
			if nm != "xmlns" && !seen[nm] {
				seen[nm] = true
				n.Attrs = append(n.Attrs, c01KV{K: nm, V: "v"})
			}
			n.Nodes = append(n.Nodes, c01Node{Space: "urn:x:1", Local: nm, Content: "c"})
		}
		if i/step%2 == 0 {
			add(c01In{Kind: "node", Any: &n})
		} else {
			add(c01In{Kind: "iq", Id: "n", Type: "set", Any: &n})
		}
	}
	every := 6
	if tier == "thorough" {
		every = 1
	}
	for i, nm := range c01ProbeOK {
		if i%every == 0 && nm != "text" {
			add(c01In{Kind: kinds[i/every%3], Type: "error", Err: &c01Err{Type: "cancel", Reason: nm, Text: "t"}})
		}
	}
	for i, nm := range c01ProbeBad {
		for pos := 0; pos < 3; pos++ {
			if tier != "thorough" && pos != i%3 {
				continue
			}
			switch pos {
			case 0:
				add(c01In{Kind: "node", Any: &c01Node{Space: "urn:x:1", Local: nm, Content: "c"}, BadNames: true})
			case 1:
				add(c01In{Kind: "node", Any: &c01Node{Local: "q", Attrs: []c01KV{{K: "k", V: "1"}, {K: nm, V: "v"}}, Content: "c"}, BadNames: true})
			case 2:
				add(c01In{Kind: kinds[i/3%3], Type: "error", Err: &c01Err{Type: "cancel", Reason: nm, Text: "t"}})
			}
		}
	}
	// longer refused conditions: markup, white space, a prefix
	for i, nm := range []string{"a/><b", "a b", "a\tb", "a\nb", " a", "a ", "a><b>x</b><a", "a x=\"1\"", "a:b", ":a", "a:", ":", "a/", "/a", "!--", "?a", "a&amp;b", "a&b", "]]>", "not found", "item-not-found "} {
		add(c01In{Kind: kinds[i%3], Id: "r", Type: "error", Body: "b", Status: "s", Err: &c01Err{Code: 404, Type: "cancel", Reason: nm, Text: "t"}})
	}
}

// ---------------------------------------------------------------- wire documents

func c01E(ns, l string, attrs []c01KV, kids ...c01Tree) c01Tree {
	return c01Tree{Elem: true, Space: ns, Local: l, Attrs: attrs, Kids: kids}
}
func c01T(s string) c01Tree { return c01Tree{Text: s} }
func c01A(kv ...string) []c01KV {
	var out []c01KV
	for i := 0; i+1 < len(kv); i += 2 {
		out = append(out, c01KV{K: kv[i], V: kv[i+1]})
	}
	return out
}

const (
	c01NSStanzas = "urn:ietf:params:xml:ns:xmpp-stanzas"
	c01NSPubErr  = "http://jabber.org/protocol/pubsub#errors"
	c01NSSM      = "urn:xmpp:sm:3"
	c01NSSASL    = "urn:ietf:params:xml:ns:xmpp-sasl"
	c01NSComp    = "jabber:component:accept"
)

// numbers and booleans as a peer may spell them: encoding/xml trims white space (Unicode's)
// before strconv sees the value of a tag-driven field; the hand-written loops do not
var c01WireNums = []string{"5", " 5", "5 ", " 5 ", "\t-7\n", "+5", "-0", "", " ", "5 5", "x", "127", "128", "-128", "-129", "255", "256",
	"\u00a05\u2003", "\u200b5", "\u30005", "5\u0085", "0x10", "1_0", "05", "4294967296", "9223372036854775807", "18446744073709551616", "-1", "1e3", "\r\n12\r\n"}
var c01WireBools = []string{"true", "false", "1", "0", "t", "F", "TRUE", "True", " true ", "\tfalse\n", "", " ", "yes", "tRue", "\u00a01"}

// c01GenWire: documents that are not the encoding of a value, decoded into each type
func c01GenWire(r *rand.Rand, tier string, add func(c01In)) {
	nw := 0
	w := func(into string, doc c01Tree) {
		d := doc
		add(c01In{Kind: "wire", Into: into, Doc: &d})
		if nw++; (into == "message" || into == "presence" || into == "iq" || into == "smfailed") && (tier == "thorough" || nw%3 == 0) {
			q := c01WithLookalikes(doc)
			add(c01In{Kind: "wire", Into: into, Doc: &q})
		}
	}
	for _, own := range []string{"", "jabber:client", c01NSComp} {
		// every core child in the stanza's own namespace, text around them, an unknown child, a
		// look-alike in another namespace, repeated children
		w("message", c01E(own, "message", c01A("id", "1", "type", "chat", "from", "a@b/c", "to", "d@e", "lang", "en"),
			c01T("\n  "), c01E(own, "subject", nil, c01T("s")), c01E(own, "body", nil, c01T("b1")), c01E("urn:x:1", "body", nil, c01T("foreign")),
			c01E(own, "thread", nil, c01T("t")), c01E(own, "unknown", nil, c01E(own, "body", nil, c01T("nested"))), c01E(own, "body", nil, c01T("b2 "), c01E(own, "i", nil, c01T("skipped")), c01T(" tail")),
			c01E(own, "error", c01A("code", "404", "type", "cancel"), c01E(c01NSStanzas, "item-not-found", nil), c01E(c01NSStanzas, "text", nil, c01T("not here"))), c01T("\n")))
		w("message", c01E(own, "message", c01A("type", "error", "type", "again"),
			c01E(own, "error", c01A("type", "wait"), c01E(c01NSStanzas, "conflict", nil)),
			c01E(own, "error", c01A("code", "7"), c01E(c01NSPubErr, "closed-node", nil), c01E("urn:x:1", "ignored", nil), c01E(c01NSStanzas, "gone", nil, c01T("xmpp:new@host")))))
		w("presence", c01E(own, "presence", c01A("from", "a@b", "id", "p"),
			c01E(own, "show", nil, c01T("away")), c01E(own, "status", nil, c01T("st")), c01E(own, "priority", nil, c01T(" 5 ")),
			c01E("urn:x:1", "priority", nil, c01T("9")), c01E(own, "status", nil, c01T("st2")),
			c01E(own, "error", c01A("type", "modify"), c01E(c01NSStanzas, "text", nil, c01T("only text")))))
		w("iq", c01E(own, "iq", c01A("id", "i", "type", "error", "lang", "de"),
			c01E("urn:x:1", "query", c01A("a", "1"), c01T("t1"), c01E("urn:x:1", "item", nil), c01T("t2"), c01E("", "bare", nil)),
			c01E(own, "error", c01A("type", "cancel", "code", " 5"), c01E(c01NSStanzas, "feature-not-implemented", nil))))
		w("iq", c01E(own, "iq", c01A("id", "i", "type", "result"),
			c01E("urn:x:1", "error", c01A("code", "1"), c01T("a payload called error")), c01E("urn:x:2", "second", nil), c01E(own, "error", nil)))
		// children of another namespace than the stanza's are not its fields
		other := "jabber:client"
		if own == other {
			other = "jabber:server"
		}
		w("message", c01E(own, "message", nil, c01E(other, "body", nil, c01T("b")), c01E(other, "error", c01A("type", "cancel"))))
		w("presence", c01E(own, "presence", nil, c01E(other, "show", nil, c01T("x")), c01E(other, "priority", nil, c01T("x"))))
		for _, n := range c01WireNums {
			w("presence", c01E(own, "presence", nil, c01E(own, "priority", nil, c01T(n))))
			w("message", c01E(own, "message", nil, c01E(own, "error", c01A("code", n, "type", "cancel"))))
		}
	}
	for _, n := range c01WireNums {
		w("smanswer", c01E(c01NSSM, "a", c01A("h", n)))
		w("smenabled", c01E(c01NSSM, "enabled", c01A("id", "x", "max", n, "resume", "true")))
		w("smenable", c01E(c01NSSM, "enable", c01A("max", n)))
		w("smresume", c01E(c01NSSM, "resume", c01A("previd", "p", "h", n)))
		w("smresumed", c01E(c01NSSM, "resumed", c01A("h", n, "previd", "p")))
		w("smfailed", c01E(c01NSSM, "failed", c01A("h", n), c01E(c01NSStanzas, "item-not-found", nil), c01E(c01NSStanzas, "conflict", nil), c01E("urn:x:1", "reset", nil)))
	}
	for _, b := range c01WireBools {
		w("smenable", c01E(c01NSSM, "enable", c01A("resume", b)))
	}
	// the element name is checked by the tag-driven types only
	for _, into := range []string{"smenable", "smenabled", "smrequest", "smanswer", "smresume", "smresumed", "smfailed", "saslauth", "handshake", "message", "presence", "iq", "node"} {
		w(into, c01E(c01NSSM, "enabled", c01A("id", "x", "h", "3", "mechanism", "m"), c01T("text"), c01E(c01NSStanzas, "conflict", nil)))
		w(into, c01E("", "r", nil))
	}
	w("smrequest", c01E(c01NSSM, "r", c01A("x", "y"), c01T("text")))
	w("saslauth", c01E(c01NSSASL, "auth", c01A("mechanism", "PLAIN", "mechanism", "X"), c01T("ab"), c01E(c01NSSASL, "x", nil, c01T("in")), c01T("cd")))
	w("handshake", c01E(c01NSComp, "handshake", c01A("a", "b"), c01T(" 0123 "), c01E("urn:x:1", "x", nil), c01T("ab")))
	w("node", c01E("urn:x:1", "a", c01A("k", "v", "k", "w"), c01T("t1"), c01E("urn:x:1", "b", nil, c01T("in")), c01T("t2"), c01E("", "c", nil), c01E("urn:x:2", "d", nil, c01E("", "e", nil))))
	// random documents
	n := 150
	if tier == "thorough" {
		n = 6000
	}
	intos := []string{"message", "presence", "iq", "node", "smenable", "smenabled", "smanswer", "smresume", "smresumed", "smfailed", "saslauth", "handshake"}
	rootOf := map[string][2]string{"smenable": {c01NSSM, "enable"}, "smenabled": {c01NSSM, "enabled"}, "smanswer": {c01NSSM, "a"}, "smresume": {c01NSSM, "resume"},
		"smresumed": {c01NSSM, "resumed"}, "smfailed": {c01NSSM, "failed"}, "saslauth": {c01NSSASL, "auth"}, "handshake": {c01NSComp, "handshake"}}
	spaces := []string{"", "jabber:client", "urn:x:1", c01NSStanzas, c01NSPubErr, c01NSSM}
	locals := []string{"body", "subject", "thread", "error", "show", "status", "priority", "text", "gone", "conflict", "reset", "item-not-found", "closed-node", "q", "x"}
	keys := []string{"id", "type", "from", "to", "lang", "code", "h", "max", "resume", "previd", "location", "mechanism", "k"}
	val := func() string {
		switch r.Intn(4) {
		case 0:
			return c01WireNums[r.Intn(len(c01WireNums))]
		case 1:
			return c01WireBools[r.Intn(len(c01WireBools))]
		}
		return c01OptText(r)
	}
	var gen func(depth int, own string) c01Tree
	gen = func(depth int, own string) c01Tree {
		ns := own
		if r.Intn(3) == 0 {
			ns = spaces[r.Intn(len(spaces))]
		}
		e := c01Tree{Elem: true, Space: ns, Local: locals[r.Intn(len(locals))]}
		for i := r.Intn(3); i > 0; i-- {
			e.Attrs = append(e.Attrs, c01KV{K: keys[r.Intn(len(keys))], V: val()})
		}
		lastText := false
		for i := r.Intn(4); i > 0; i-- {
			if !lastText && r.Intn(3) == 0 {
				if t := val(); t != "" {
					e.Kids = append(e.Kids, c01T(t))
					lastText = true
				}
				continue
			}
			if depth < 3 {
				e.Kids = append(e.Kids, gen(depth+1, ns))
				lastText = false
			}
		}
		return e
	}
	for i := 0; i < n; i++ {
		into := intos[r.Intn(len(intos))]
		doc := gen(0, spaces[r.Intn(3)])
		if rn, ok := rootOf[into]; ok && r.Intn(8) != 0 {
			doc.Space, doc.Local = rn[0], rn[1]
		} else if r.Intn(2) == 0 {
			doc.Local = into
		}
		w(into, doc)
	}
}

// ---------------------------------------------------------------- integer edges and wide values

// c01AllSet: the value of the type with every optional position set (the all-ones mask)
func c01AllSet(goType string, seed int64) (reflect.Value, bool) {
	return c01NewFilledMask(goType, seed, strings.Repeat("1", len(c01Slots(goType))+1))
}

// c01IntLeaves: every integer position of a value, in order: fields of integer kind, NullableInt,
// through structs, non-nil pointers and interfaces, slice elements. set(x) stores x there (false:
// x does not fit the position's type).
func c01IntLeaves(v reflect.Value, depth int, visit func(bits int, signed bool, set func(x int64, ux uint64) bool)) {
	if depth > 8 {
		return
	}
	switch v.Kind() {
	case reflect.Ptr, reflect.Interface:
		if !v.IsNil() {
			c01IntLeaves(v.Elem(), depth+1, visit)
		}
	case reflect.Slice:
		for i := 0; i < v.Len(); i++ {
			c01IntLeaves(v.Index(i), depth+1, visit)
		}
	case reflect.Struct:
		t := v.Type()
		if t == c01NullIntT {
			if v.CanSet() {
				visit(strconv.IntSize, true, func(x int64, _ uint64) bool {
					v.Set(reflect.ValueOf(stanza.NewNullableInt(int(x))))
					return true
				})
			}
			return
		}
		if t == c01TimeT || t == c01NameT || t == c01ForwardedT {
			return
		}
		for i := 0; i < t.NumField(); i++ {
			f := t.Field(i)
			if name, _ := c01TagInfo(f); f.PkgPath != "" || name == "-" {
				continue
			}
			c01IntLeaves(v.Field(i), depth+1, visit)
		}
	case reflect.Int, reflect.Int8, reflect.Int16, reflect.Int32, reflect.Int64:
		if v.CanSet() {
			visit(v.Type().Bits(), true, func(x int64, _ uint64) bool {
				if v.OverflowInt(x) {
					return false
				}
				v.SetInt(x)
				return true
			})
		}
	case reflect.Uint, reflect.Uint8, reflect.Uint16, reflect.Uint32, reflect.Uint64:
		if v.CanSet() {
			visit(v.Type().Bits(), false, func(_ int64, ux uint64) bool {
				if v.OverflowUint(ux) {
					return false
				}
				v.SetUint(ux)
				return true
			})
		}
	}
}

// c01EdgeValues: both sides of the edges of every integer width up to the position's own
func c01EdgeValues(bits int, signed bool) []string {
	var out []string
	if signed {
		out = append(out, "0", "1", "-1")
		for _, w := range []uint{8, 16, 32, 64} {
			if int(w) > bits {
				break
			}
			hi := int64(1)<<(w-1) - 1
			lo := -hi - 1
			out = append(out, strconv.FormatInt(hi, 10), strconv.FormatInt(lo, 10))
			if int(w) < bits { // just outside the narrower type, and the unsigned edge of that width
				out = append(out, strconv.FormatInt(hi+1, 10), strconv.FormatInt(lo-1, 10), strconv.FormatInt(int64(1)<<w-1, 10), strconv.FormatInt(int64(1)<<w, 10))
			} else {
				out = append(out, strconv.FormatInt(hi-1, 10), strconv.FormatInt(lo+1, 10))
			}
		}
		return out
	}
	out = append(out, "0", "1")
	for _, w := range []uint{8, 16, 32, 64} {
		if int(w) > bits {
			break
		}
		hi := ^uint64(0) >> (64 - w)
		out = append(out, strconv.FormatUint(hi, 10), strconv.FormatUint(hi>>1, 10), strconv.FormatUint(hi>>1+1, 10))
		if int(w) < bits {
			out = append(out, strconv.FormatUint(hi+1, 10))
		} else {
			out = append(out, strconv.FormatUint(hi-1, 10))
		}
	}
	return out
}

// c01CountIntLeaves: integer positions of the all-set value of a type, with width and sign
func c01CountIntLeaves(goType string) (bits []int, signed []bool) {
	p, ok := c01AllSet(goType, 7)
	if !ok {
		return
	}
	c01IntLeaves(p, 0, func(b int, s bool, _ func(int64, uint64) bool) { bits, signed = append(bits, b), append(signed, s) })
	return
}

// c01Widen: every slice of the value gets n elements
func c01Widen(v reflect.Value, n int, r *rand.Rand, depth int) {
	if depth > 6 {
		return
	}
	switch v.Kind() {
	case reflect.Ptr, reflect.Interface:
		if !v.IsNil() {
			c01Widen(v.Elem(), n, r, depth+1)
		}
	case reflect.Struct:
		t := v.Type()
		if c01IsLeafStruct(t) {
			return
		}
		for i := 0; i < t.NumField(); i++ {
			f := t.Field(i)
			name, flags := c01TagInfo(f)
			if f.PkgPath != "" || name == "-" || !v.Field(i).CanSet() {
				continue
			}
			fv := v.Field(i)
			if fv.Kind() == reflect.Slice && fv.Type().Elem().Kind() != reflect.Uint8 {
				if fv.Type().Elem().Kind() == reflect.Interface && c01Impls[fv.Type().Elem()] == nil {
					continue
				}
				sl := reflect.MakeSlice(fv.Type(), 0, n)
				for k := 0; k < n; k++ {
					e := reflect.New(fv.Type().Elem()).Elem()
					c01NonZero(e, r, flags["innerxml"])
					sl = reflect.Append(sl, e)
				}
				fv.Set(sl)
				continue // one level: the elements keep the size they were filled with
			}
			c01Widen(fv, n, r, depth+1)
		}
	}
}

// c01ShapedRoundTrip: the reflection round trip of a fully set value with one integer position
// at an edge, or with every slice widened
func c01ShapedRoundTrip(in c01In) (msg, sig string) {
	p, ok := c01AllSet(in.GoType, in.Seed)
	if !ok {
		return "unknown Go type " + in.GoType, "harness:unknown-type"
	}
	what := ""
	if in.IntSlot != nil {
		k, done := 0, false
		c01IntLeaves(p, 0, func(bits int, signed bool, set func(int64, uint64) bool) {
			if k == *in.IntSlot {
				x, _ := strconv.ParseInt(in.IntVal, 10, 64)
				ux, _ := strconv.ParseUint(in.IntVal, 10, 64)
				done = set(x, ux)
			}
			k++
		})
		if !done {
			return "", "" // the position does not exist in this fill or cannot hold the value
		}
		what = fmt.Sprintf(" [integer position %d = %s]", *in.IntSlot, in.IntVal)
	}
	outOfRange := false
	if in.TimeSlot != nil {
		tv, ok := c01ParseTimeVal(in.TimeVal)
		k, done := 0, false
		c01TimeLeaves(p, 0, func(v reflect.Value) {
			if k == *in.TimeSlot && ok {
				v.Set(reflect.ValueOf(tv))
				done = true
			}
			k++
		})
		if !done {
			return "", ""
		}
		outOfRange = tv.UTC().Year() < 0 || tv.UTC().Year() > 9999
		what = fmt.Sprintf(" [time position %d = %s]", *in.TimeSlot, in.TimeVal)
	}
	if in.NodeSlot != nil {
		k, done := 0, false
		c01NodePositions(p, 0, func(set func(n *stanza.Node)) {
			if k == *in.NodeSlot {
				ns := "urn:verif:lookalike"
				set(&stanza.Node{XMLName: xml.Name{Space: ns, Local: in.NodeName}, Attrs: []xml.Attr{{Name: xml.Name{Local: "author"}, Value: "juliet"}},
					Nodes: []stanza.Node{{XMLName: xml.Name{Space: ns, Local: "line"}, Content: "first"}}})
				done = true
			}
			k++
		})
		if !done {
			return "", ""
		}
		what = fmt.Sprintf(" [generic node position %d = <%s xmlns=urn:verif:lookalike>]", *in.NodeSlot, in.NodeName)
	}
	if outOfRange {
		// XEP-0082 / RFC 3339 have four-digit years: such an instant cannot be written. Marshal
		// must say so (as time.Time.MarshalText does) rather than write something unreadable.
		if _, err := xml.Marshal(p.Interface()); err != nil {
			return "", ""
		}
	}
	if in.Wide > 0 {
		c01Widen(p, in.Wide, rand.New(rand.NewSource(in.Seed+int64(in.Wide))), 0)
		what += fmt.Sprintf(" [every slice with %d elements]", in.Wide)
	}
	msg, sig = c01ValueRoundTrip(in.GoType, p, in.Seed, in.Wrap)
	if msg != "" {
		msg += what
	}
	return
}

// c01WideRoundTrip: a stanza with N extensions of one registered type (the slice the property
// quantifies over: "every subset and order of the registered extensions"), alone or as the
// stanza a delegation forwards
func c01WideRoundTrip(in c01In) (msg, sig string) {
	var exts []interface{}
	for i := 0; i < in.N; i++ {
		p, ok := c01NewFilled(in.GoType, in.Seed+int64(i))
		if !ok {
			return "unknown Go type " + in.GoType, "harness:unknown-type"
		}
		exts = append(exts, p.Interface())
	}
	var v, fresh interface{}
	var inner stanza.Packet
	switch in.Wrap {
	case "message":
		m := stanza.Message{Attrs: stanza.Attrs{Id: "w", Type: "chat"}, Body: "b"}
		for _, e := range exts {
			m.Extensions = append(m.Extensions, e)
		}
		v, fresh, inner = &m, &stanza.Message{}, m
	case "presence":
		m := stanza.Presence{Attrs: stanza.Attrs{Id: "w"}, Status: "s"}
		for _, e := range exts {
			m.Extensions = append(m.Extensions, e)
		}
		v, fresh, inner = &m, &stanza.Presence{}, m
	default:
		return "", ""
	}
	if in.Nested {
		v = &stanza.Message{Attrs: stanza.Attrs{Id: "outer"}, Extensions: []stanza.MsgExtension{&stanza.Delegation{Forwarded: &stanza.Forwarded{Stanza: inner}}}}
		fresh = &stanza.Message{}
	}
	where := fmt.Sprintf("%s with %d x %s (seed %d, forwarded: %v)", in.Wrap, in.N, in.GoType, in.Seed, in.Nested)
	b1, err := xml.Marshal(v)
	if err != nil {
		return where + ": marshal error " + err.Error(), "nonroundtrip:" + in.GoType + ":wide-marshal-error"
	}
	if err := xml.Unmarshal(b1, fresh); err != nil {
		return fmt.Sprintf("%s: unmarshal of %q fails: %v", where, c01Short(b1), err), "nonroundtrip:" + in.GoType + ":wide-unmarshal-error"
	}
	if f := c01DiffField(reflect.ValueOf(v), reflect.ValueOf(fresh)); f != "" {
		return fmt.Sprintf("%s: field %s differs after Unmarshal(Marshal v); bytes %q", where, f, c01Short(b1)), "nonroundtrip:" + in.GoType + ":wide:" + f
	}
	b2, err := xml.Marshal(fresh)
	if err != nil || !bytes.Equal(b1, b2) {
		return fmt.Sprintf("%s: second marshal differs (%d vs %d bytes, err %v)", where, len(b1), len(b2), err), "nonroundtrip:" + in.GoType + ":wide-bytes"
	}
	return "", ""
}

// c01GenEdgesAndWide: (1) every integer position of every registered type and stream element at
// both sides of the edges of its own Go type and of every narrower width; (2) every slice of
// every such type with 32, 33, 64 and 65 elements; (3) stanzas carrying 1, 31, 32, 33, 64, 65
// extensions of every registered message / presence extension type, alone and as the stanza
// forwarded by a delegation.
func c01GenEdgesAndWide(tier string, regs []c01RegEntry, add func(c01In)) {
	wrapOf := func(e c01RegEntry) string {
		if e.Local == "*" {
			return ""
		}
		return []string{"presence", "message", "iq"}[e.Kind]
	}
	type tw struct{ t, wrap string }
	var types []tw
	seen := map[string]bool{}
	for _, e := range regs {
		if !seen[e.GoType+"/"+wrapOf(e)] {
			seen[e.GoType+"/"+wrapOf(e)] = true
			types = append(types, tw{e.GoType, wrapOf(e)})
		}
	}
	for _, t := range c01StreamEl {
		types = append(types, tw{t, ""})
	}
	for _, x := range types {
		bits, signed := c01CountIntLeaves(x.t)
		for k := range bits {
			k := k
			for _, val := range c01EdgeValues(bits[k], signed[k]) {
				add(c01In{Kind: "reflect", GoType: x.t, Seed: 7, Wrap: x.wrap, IntSlot: &k, IntVal: val})
			}
		}
		widths := []int{32, 65}
		if tier == "thorough" {
			widths = []int{31, 32, 33, 64, 65, 300}
		}
		for _, w := range widths {
			add(c01In{Kind: "reflect", GoType: x.t, Seed: 7, Wrap: x.wrap, Wide: w})
		}
	}
	for _, e := range regs {
		if e.Local == "*" || e.Kind == 2 {
			continue
		}
		for _, n := range []int{1, 31, 32, 33, 64, 65} {
			for _, nested := range []bool{false, true} {
				add(c01In{Kind: "wide", GoType: e.GoType, Seed: 11, Wrap: []string{"presence", "message"}[e.Kind], N: n, Nested: nested})
			}
		}
	}
}

// ---------------------------------------------------------------- time edges, look-alike generic nodes

// c01ParseTimeVal: "Y-MM-DDTHH:MM:SS.nnnnnnnnn+ZZ:ZZ" with a year of any size and sign
func c01ParseTimeVal(s string) (time.Time, bool) {
	var y, mo, d, h, mi, sec, ns, zh, zm int
	var sign byte
	if _, err := fmt.Sscanf(s, "%d-%02d-%02dT%02d:%02d:%02d.%09d%c%02d:%02d", &y, &mo, &d, &h, &mi, &sec, &ns, &sign, &zh, &zm); err != nil {
		return time.Time{}, false
	}
	off := zh*3600 + zm*60
	if sign == '-' {
		off = -off
	}
	loc := time.UTC
	if off != 0 {
		loc = time.FixedZone("z", off)
	}
	return time.Date(y, time.Month(mo), d, h, mi, sec, ns, loc), true
}

var c01TimeEdges = []string{
	"2021-03-04T05:06:07.250000000+00:00", "2021-03-04T05:06:07.000000001+00:00", "2021-03-04T05:06:07.999999999+00:00",
	"2021-03-04T05:06:07.123456000+02:00", "2021-12-31T23:59:59.500000000-07:00", "1970-01-01T00:00:00.000000000+00:00",
	"1969-12-31T23:59:59.999000000+00:00", "0001-01-01T00:00:01.000000000+00:00", "0000-06-01T00:00:00.000000000+00:00",
	"9999-12-31T23:59:59.999999999+00:00", "9999-12-31T23:59:59.000000000-01:00", "10000-01-01T00:00:00.000000000+00:00",
	"-0001-12-31T23:59:59.000000000+00:00", "292277026596-12-04T15:30:07.000000000+00:00",
}

// c01TimeLeaves: every settable time.Time position of a value
func c01TimeLeaves(v reflect.Value, depth int, visit func(reflect.Value)) {
	if depth > 8 {
		return
	}
	switch v.Kind() {
	case reflect.Ptr, reflect.Interface:
		if !v.IsNil() {
			c01TimeLeaves(v.Elem(), depth+1, visit)
		}
	case reflect.Slice:
		for i := 0; i < v.Len(); i++ {
			c01TimeLeaves(v.Index(i), depth+1, visit)
		}
	case reflect.Struct:
		if v.Type() == c01TimeT {
			if v.CanSet() {
				visit(v)
			}
			return
		}
		if c01IsLeafStruct(v.Type()) {
			return
		}
		for i := 0; i < v.NumField(); i++ {
			if v.Type().Field(i).PkgPath == "" {
				c01TimeLeaves(v.Field(i), depth+1, visit)
			}
		}
	}
}

// c01NodePositions: the places of a value, directly in a struct whose decoder is the library's
// own (it implements xml.Unmarshaler), that can hold a generic node: *Node, []Node, an interface
// or a slice of an interface that Node implements. set puts exactly one node there.
func c01NodePositions(v reflect.Value, depth int, visit func(set func(n *stanza.Node))) {
	if depth > 6 {
		return
	}
	switch v.Kind() {
	case reflect.Ptr, reflect.Interface:
		if !v.IsNil() {
			c01NodePositions(v.Elem(), depth+1, visit)
		}
	case reflect.Slice:
		for i := 0; i < v.Len(); i++ {
			c01NodePositions(v.Index(i), depth+1, visit)
		}
	case reflect.Struct:
		t := v.Type()
		if c01IsLeafStruct(t) {
			return
		}
		own := reflect.PtrTo(t).Implements(c01UnmarshalerT)
		nodeP := reflect.TypeOf(&stanza.Node{})
		for i := 0; i < t.NumField(); i++ {
			f, fv := t.Field(i), v.Field(i)
			if f.PkgPath != "" || !fv.CanSet() {
				continue
			}
			ft := f.Type
			if f.Anonymous || (ft.Kind() == reflect.Interface && ft.NumMethod() == 0) {
				continue // the embedded marker interfaces (MsgExtension, PresExtension) hold no content
			}
			switch {
			case own && ft == nodeP:
				visit(func(n *stanza.Node) { fv.Set(reflect.ValueOf(n)) })
			case own && ft.Kind() == reflect.Slice && ft.Elem() == c01NodeT:
				visit(func(n *stanza.Node) { fv.Set(reflect.Append(reflect.MakeSlice(ft, 0, 1), reflect.ValueOf(*n))) })
			case own && ft.Kind() == reflect.Interface && nodeP.Implements(ft):
				visit(func(n *stanza.Node) { fv.Set(reflect.ValueOf(n)) })
			case own && ft.Kind() == reflect.Slice && ft.Elem().Kind() == reflect.Interface && nodeP.Implements(ft.Elem()):
				visit(func(n *stanza.Node) { fv.Set(reflect.Append(reflect.MakeSlice(ft, 0, 1), reflect.ValueOf(n))) })
			default:
				c01NodePositions(fv, depth+1, visit)
			}
		}
	}
}

// c01ElementNames: the local names of the child elements a type and the types below it write
// (struct tags, tag-named XMLName of the implementations of its interface-typed fields)
func c01ElementNames(t reflect.Type, depth int, out map[string]bool) {
	for t.Kind() == reflect.Ptr || t.Kind() == reflect.Slice {
		t = t.Elem()
	}
	if depth > 3 {
		return
	}
	if t.Kind() == reflect.Interface {
		for _, it := range c01Impls[t] {
			if f, ok := it.FieldByName("XMLName"); ok {
				if name, _ := c01TagInfo(f); name != "" {
					out[name] = true
				}
			}
			c01ElementNames(it, depth+1, out)
		}
		return
	}
	if t.Kind() != reflect.Struct || c01IsLeafStruct(t) {
		return
	}
	for i := 0; i < t.NumField(); i++ {
		f := t.Field(i)
		name, flags := c01TagInfo(f)
		if f.PkgPath != "" || name == "-" || f.Name == "XMLName" || flags["attr"] || flags["chardata"] || flags["cdata"] || flags["innerxml"] || flags["comment"] || flags["any"] {
			continue
		}
		if name != "" {
			out[name] = true
		}
		c01ElementNames(f.Type, depth+1, out)
	}
}

// c01GenTimeAndLookalikes: every time position of every registered type at the edges of what
// XEP-0082 can carry (fractions of a second down to the nanosecond, zones, years 0 / 1 / 9999 and
// beyond); every generic-node position of the types with a decoder of their own holding a node
// of ANOTHER namespace named like each child element the type itself writes.
func c01GenTimeAndLookalikes(regs []c01RegEntry, add func(c01In)) {
	seen := map[string]bool{}
	for _, e := range regs {
		if seen[e.GoType] {
			continue
		}
		seen[e.GoType] = true
		wrap := ""
		if e.Local != "*" {
			wrap = []string{"presence", "message", "iq"}[e.Kind]
		}
		p, ok := c01AllSet(e.GoType, 7)
		if !ok {
			continue
		}
		nt := 0
		c01TimeLeaves(p, 0, func(reflect.Value) { nt++ })
		for k := 0; k < nt; k++ {
			k := k
			for _, tv := range c01TimeEdges {
				add(c01In{Kind: "reflect", GoType: e.GoType, Seed: 7, Wrap: wrap, TimeSlot: &k, TimeVal: tv})
			}
		}
		nn := 0
		c01NodePositions(p, 0, func(func(*stanza.Node)) { nn++ })
		if nn == 0 {
			continue
		}
		names := map[string]bool{}
		c01ElementNames(c01TypeOf[e.GoType], 0, names)
		var sorted []string
		for n := range names {
			if c01IsName(n) {
				sorted = append(sorted, n)
			}
		}
		sort.Strings(sorted)
		for k := 0; k < nn; k++ {
			k := k
			for _, n := range sorted {
				add(c01In{Kind: "reflect", GoType: e.GoType, Seed: 7, Wrap: wrap, NodeSlot: &k, NodeName: n})
			}
		}
	}
}
