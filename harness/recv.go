package main

// Shared runner for the receive loops (C05, C09, C12): drives the real
// Client.recv / Component.recv on the stub transport.

import (
	"bytes"
	"context"
	"encoding/json"
	"encoding/xml"
	"fmt"
	"io"
	"math/rand"
	"net"
	"net/http"
	"runtime"
	"sort"
	"strconv"
	"strings"
	"sync"
	"time"

	xmpp "gosrc.io/xmpp"
	"gosrc.io/xmpp/stanza"
	"nhooyr.io/websocket"
)

// rItem is one inbound top-level element, abstract + how to render it.
type rItem struct {
	T    string `json:"t"`              // stanza r a nonza serr close bad
	Kind int    `json:"kind,omitempty"` // stanza: 0 message 1 presence 2 iq
	ID   int    `json:"id,omitempty"`   // stanza id (= position, unique)
	H    int    `json:"h,omitempty"`    // <a h=>
	Tag  int    `json:"tag,omitempty"`  // nonza / serr / bad variant
	Var  int    `json:"var,omitempty"`  // rendering variant (content)
	XML  string `json:"xml,omitempty"`  // rendered element (filled by render)
	Deep int    `json:"deep,omitempty"` // stanza: its (unknown) payload is nested this deep; the rendered text is not stored
	Repl bool   `json:"repl,omitempty"` // serr (client): the StreamError event handler replaces the connection before it returns, as a StreamManager does
	// stanza of a given size: the rendered element is EXACTLY Size bytes long on the wire (Size > 0), as one long text
	// (Shape 0) or as many small children (Shape 1). Like a deep payload it is generated from its parameters on both
	// sides and not stored in case files; the model sees (kind, id) only: one routing per element whatever its size.
	Size  int `json:"size,omitempty"`
	Shape int `json:"shape,omitempty"`
}

// MarshalJSON: the rendering of a deeply nested payload (megabytes) is not written to case files and replays;
// Decode renders it again.
func (it rItem) MarshalJSON() ([]byte, error) {
	type plain rItem
	p := plain(it)
	if p.Deep > 0 || p.Size > 0 {
		p.XML = ""
	}
	return json.Marshal(p)
}

type recvIn struct {
	Component    bool    `json:"component,omitempty"`
	SM           bool    `json:"sm,omitempty"` // client: UnAckQueue present
	Inb          int     `json:"inb,omitempty"`
	WFail        int     `json:"wfail,omitempty"`  // 1-based failing write, 0 = none
	WFails       []int   `json:"wfails,omitempty"` // further 1-based writes that fail
	WFrom        int     `json:"wfrom,omitempty"`  // every write from this one on fails (the connection is going away), 0 = none
	Items        []rItem `json:"items"`
	Cut          int     `json:"cut"`             // byte offset at which the inbound stream is cut (-1: after everything)
	Chunk        int     `json:"chunk,omitempty"` // max bytes per Read
	LeakCheck    bool    `json:"leakcheck,omitempty"`
	WS           bool    `json:"ws,omitempty"`            // over the real WebsocketTransport (one frame per element)
	PeerCut      bool    `json:"peercut,omitempty"`       // WS only: the TCP connection under the websocket is reset by the peer; the loss must be detected through the keepalive and reported
	Frag         bool    `json:"frag,omitempty"`          // WS only: every element is sent as ONE websocket message made of two frames (RFC 6455 5.4: any sender or intermediary may fragment)
	PeerCloseNow bool    `json:"peerclosenow,omitempty"`  // WS only: the server closes the websocket IMMEDIATELY after its last element, while the client is still behind with reading: everything sent before the close must still be routed
	PeerClose    bool    `json:"peerclose,omitempty"`     // WS only: the server closes the websocket after the last element (no keepalive runs): the read path itself must report the loss
	LateRecv     string  `json:"laterecv,omitempty"`      // WS only: the server sends everything, then its end of the TCP connection is closed; only THEN does the receiver start: "write" (the answers to <r/> are written on the dead connection: every one of them is attempted and none arrives) or "keepalive" (a keepalive runs meanwhile: its ping fails and it closes the transport before the receiver has read anything). Everything the server sent was received and has to be routed
	LogFailAt    int     `json:"logfailat,omitempty"`     // Logged only: from this write on (1-based) the traffic log refuses every write: what is read from the connection must still be delivered
	NoErrH       bool    `json:"noerrh,omitempty"`        // the client is created without an error callback (nil)
	Logged       bool    `json:"logged,omitempty"`        // real XMPPTransport read path with the traffic logger, over a scripted net.Conn
	ErrWithData  bool    `json:"err_with_data,omitempty"` // the last bytes and the read error arrive in the same Read call
}

// wsify: RFC 7395 framing has no enclosing stream element: every top-level element
// names its namespace itself.
// wsNS: a stanza as a websocket frame names its namespace itself
func wsNS(x string) string {
	for _, n := range []string{"<message", "<presence", "<iq"} {
		if strings.HasPrefix(x, n) && !strings.HasPrefix(x, n+" xmlns='jabber:client'") {
			return n + " xmlns='jabber:client'" + x[len(n):]
		}
	}
	return x
}

func wsify(items []rItem) []rItem {
	out := make([]rItem, 0, len(items))
	for _, it := range items {
		switch it.T {
		case "stanza":
			it.XML = wsNS(it.XML)
		case "nonza":
			if it.Tag%len(nonzaXML) == 0 {
				it.Tag = 1 // stream:features needs the stream prefix: not expressible in a frame
				it.render()
			}
		case "bad":
			it.Tag = 0
			it.render()
		case "serr", "close":
			continue
		}
		out = append(out, it)
	}
	return out
}

// libGoroutines counts live goroutines with a frame in the library under test.
func libGoroutines() int {
	buf := make([]byte, 1<<20)
	n := runtime.Stack(buf, true)
	cnt := 0
	for _, g := range strings.Split(string(buf[:n]), "\n\n") {
		if strings.Contains(g, "gosrc.io/xmpp.") || strings.Contains(g, "gosrc.io/xmpp/stanza.") {
			if !strings.Contains(g, "main.libGoroutines") {
				cnt++
			}
		}
	}
	return cnt
}

var nonzaXML = []string{
	"<stream:features><bind xmlns='urn:ietf:params:xml:ns:xmpp-bind'/></stream:features>",
	"<enabled xmlns='urn:xmpp:sm:3' id='zz' resume='true'/>",
	"<resumed xmlns='urn:xmpp:sm:3' previd='zz' h='3'/>",
	"<failed xmlns='urn:xmpp:sm:3'/>",
	"<success xmlns='urn:ietf:params:xml:ns:xmpp-sasl'/>",
	"<failure xmlns='urn:ietf:params:xml:ns:xmpp-sasl'><not-authorized/></failure>",
}
var serrConds = []string{"host-unknown", "conflict", "system-shutdown", "not-authorized"}
var badXML = []string{
	"<foo xmlns='urn:example:unknown'/>",
	"<bar/>",
	"<message><</message>",
	"<message></presence>",
	"<stream:unknown/>",
}

var textPool = []string{"hi", "a &amp; b &lt; c", "  padded  ", "é漢😀", "line1\nline2", "]]&gt;", strings.Repeat("x", 300), strings.Repeat("y", 6000), strings.Repeat("z ", 6500)}

func renderStanza(kind, id, v int) string {
	txt := textPool[v%len(textPool)]
	switch kind {
	case 0:
		switch v % 5 {
		case 0:
			return fmt.Sprintf("<message id='%d' from='a@b/c' to='u@localhost' type='chat'><body>%s</body></message>", id, txt)
		case 1:
			return fmt.Sprintf("<message id='%d'/>", id)
		case 2:
			return fmt.Sprintf("<message id='%d' type='normal'><subject>%s</subject><body>%s</body><thread>t1</thread><active xmlns='http://jabber.org/protocol/chatstates'/><request xmlns='urn:xmpp:receipts'/></message>", id, txt, txt)
		case 3:
			return fmt.Sprintf("<message id='%d'><x xmlns='urn:example:ext'><y a='1'><z>%s</z></y></x><body>%s</body></message>", id, txt, txt)
		default:
			return fmt.Sprintf("<message id=\"%d\" xml:lang='en'>\n  <body>%s</body>\n</message>", id, txt)
		}
	case 1:
		switch v % 4 {
		case 0:
			return fmt.Sprintf("<presence id='%d'/>", id)
		case 1:
			return fmt.Sprintf("<presence id='%d' from='room@muc/nick'><show>away</show><status>%s</status><priority>5</priority></presence>", id, txt)
		case 2:
			return fmt.Sprintf("<presence id='%d' type='unavailable'><x xmlns='http://jabber.org/protocol/muc'><history maxstanzas='3'/></x></presence>", id)
		default:
			return fmt.Sprintf("<presence id='%d'><c xmlns='http://jabber.org/protocol/caps' hash='sha-1' node='n' ver='v'/><q xmlns='urn:example:q'>%s</q></presence>", id, txt)
		}
	default:
		typ := []string{"get", "set", "result", "error"}[v%4]
		switch (v / 4) % 3 {
		case 0:
			return fmt.Sprintf("<iq id='%d' type='%s' from='srv'><query xmlns='http://jabber.org/protocol/disco#info'/></iq>", id, typ)
		case 1:
			return fmt.Sprintf("<iq id='%d' type='%s'><unknown xmlns='urn:example:iq'><deep><deeper>%s</deeper></deep></unknown></iq>", id, typ, txt)
		default:
			if typ == "error" {
				return fmt.Sprintf("<iq id='%d' type='error'><error type='cancel' code='404'><item-not-found xmlns='urn:ietf:params:xml:ns:xmpp-stanzas'/></error></iq>", id)
			}
			return fmt.Sprintf("<iq id='%d' type='%s'/>", id, typ)
		}
	}
}

// renderSized: a stanza whose serialization is exactly it.Size bytes long (ws: as a websocket message, where the
// element names its namespace itself), filled with one long text (Shape 0) or with many small children (Shape 1).
func (it *rItem) renderSized(ws bool) {
	ns := ""
	if ws {
		ns = " xmlns='jabber:client'"
	}
	var open, clos string
	switch it.Kind {
	case 0:
		open, clos = fmt.Sprintf("<message%s id='%d' type='chat'>", ns, it.ID), "</message>"
		if it.Shape == 0 {
			open, clos = open+"<body>", "</body>"+clos
		}
	case 1:
		open, clos = fmt.Sprintf("<presence%s id='%d'>", ns, it.ID), "</presence>"
		if it.Shape == 0 {
			open, clos = open+"<status>", "</status>"+clos
		}
	default:
		it.Kind = 2
		open, clos = fmt.Sprintf("<iq%s id='%d' type='get'><q xmlns='urn:example:big'>", ns, it.ID), "</q></iq>"
	}
	room := it.Size - len(open) - len(clos)
	if room < 0 {
		room = 0
	}
	var b strings.Builder
	b.Grow(it.Size + 64)
	b.WriteString(open)
	if it.Shape == 0 {
		const line = "the quick brown fox jumps over the lazy dog &amp; back "
		for room >= len(line) {
			b.WriteString(line)
			room -= len(line)
		}
		b.WriteString(strings.Repeat("x", room))
	} else {
		const child = "<x xmlns='urn:example:ext'/>"
		for room >= len(child) {
			b.WriteString(child)
			room -= len(child)
		}
		b.WriteString(strings.Repeat(" ", room))
	}
	b.WriteString(clos)
	it.XML = b.String()
}

// sizedBytes: the bytes of the history's sized elements (time allowances of the runners grow with it).
func (in recvIn) sizedBytes() int {
	n := 0
	for _, it := range in.Items {
		n += it.Size
	}
	return n
}

// sizeAllowance: extra time the runners grant a history for its sized elements (2 s per MiB: generous).
func (in recvIn) sizeAllowance() time.Duration {
	return time.Duration(in.sizedBytes()>>19) * time.Second
}

func (it *rItem) render() {
	switch it.T {
	case "stanza":
		if it.Size > 0 {
			it.renderSized(false)
			return
		}
		if it.Deep > 0 {
			// an unknown payload (iq), or an unknown child of <error/> (message), nested as deep as the peer likes
			nest := strings.Repeat("<a>", it.Deep) + strings.Repeat("</a>", it.Deep)
			if it.Kind == 2 {
				it.XML = fmt.Sprintf("<iq id='%d' type='get'><q xmlns='urn:example:deep'>%s</q></iq>", it.ID, nest)
			} else {
				it.Kind = 0
				it.XML = fmt.Sprintf("<message id='%d' type='error'><error type='cancel'><q xmlns='urn:example:deep'>%s</q></error></message>", it.ID, nest)
			}
			return
		}
		it.XML = renderStanza(it.Kind, it.ID, it.Var)
	case "r":
		it.XML = "<r xmlns='urn:xmpp:sm:3'/>"
	case "a":
		it.XML = fmt.Sprintf("<a xmlns='urn:xmpp:sm:3' h='%d'/>", it.H)
	case "nonza":
		it.XML = nonzaXML[it.Tag%len(nonzaXML)]
	case "serr":
		it.XML = fmt.Sprintf("<stream:error><%s xmlns='urn:ietf:params:xml:ns:xmpp-streams'/><text xmlns='urn:ietf:params:xml:ns:xmpp-streams'>bye</text></stream:error>", serrConds[it.Tag%len(serrConds)])
	case "close":
		it.XML = "</stream:stream>"
	case "bad":
		it.XML = badXML[it.Tag%len(badXML)]
	}
}

func (it rItem) sx() Sx {
	switch it.T {
	case "stanza":
		return L(Z(0), Zi(it.Kind), Zi(it.ID))
	case "r":
		return L(Z(1))
	case "a":
		return L(Z(2), Zi(it.H))
	case "nonza":
		return L(Z(3), Zi(it.Tag%len(nonzaXML)))
	case "serr":
		if it.Repl {
			return L(Z(7), Zi(it.Tag%len(serrConds)))
		}
		return L(Z(4), Zi(it.Tag%len(serrConds)))
	case "close":
		return L(Z(5))
	default:
		return L(Z(6))
	}
}

// genItems draws a history; weights steer the mix.
func genItems(r *rand.Rand, n int, withTerminators bool, component bool) []rItem {
	var items []rItem
	for i := 0; i < n; i++ {
		var it rItem
		c := r.Intn(100)
		switch {
		case c < 55:
			it = rItem{T: "stanza", Kind: r.Intn(3), ID: i + 1, Var: r.Intn(60)}
		case c < 70:
			it = rItem{T: "r"}
		case c < 80:
			it = rItem{T: "a", H: r.Intn(5)}
		case c < 88:
			it = rItem{T: "nonza", Tag: r.Intn(len(nonzaXML))}
		case c < 92 && withTerminators:
			it = rItem{T: "serr", Tag: r.Intn(len(serrConds))}
		case c < 95 && withTerminators:
			it = rItem{T: "close"}
		case c < 98 && withTerminators:
			it = rItem{T: "bad", Tag: r.Intn(len(badXML))}
		default:
			it = rItem{T: "stanza", Kind: r.Intn(3), ID: i + 1, Var: r.Intn(60)}
		}
		it.render()
		items = append(items, it)
	}
	return items
}

// completeItems: the items that lie wholly inside the first cut bytes of the body
// (the model's input: what was completely received before the loss).
func (in recvIn) completeItems() []rItem {
	if in.Cut < 0 {
		return in.Items
	}
	var out []rItem
	off := 0
	for _, it := range in.Items {
		off += len(it.XML) + 1 // + separating newline
		if off-1 <= in.Cut {
			out = append(out, it)
		} else {
			break
		}
	}
	return out
}

func (in recvIn) body() []byte {
	var b bytes.Buffer
	for _, it := range in.Items {
		b.WriteString(it.XML)
		b.WriteByte('\n')
	}
	if in.Cut >= 0 && in.Cut < b.Len() {
		return b.Bytes()[:in.Cut]
	}
	return b.Bytes()
}

func recvInputSx(in recvIn) Sx {
	items := in.completeItems()
	xs := make([]Sx, len(items))
	for i, it := range items {
		xs[i] = it.sx()
	}
	var idx []Sx
	for _, k := range in.failingWrites() {
		idx = append(idx, Zi(k))
	}
	wfrom := in.WFrom
	if in.LateRecv == "write" {
		wfrom = 1 // the peer is gone: no answer arrives
	}
	return L(B(in.Component), Zi(in.Inb), L(LS(idx), Zi(wfrom)), LS(xs), L(B(in.NoErrH)))
}

// failingWrites: the individually failing writes (1-based), WFail first.
func (in recvIn) failingWrites() []int {
	var out []int
	if in.WFail > 0 {
		out = append(out, in.WFail)
	}
	for _, k := range in.WFails {
		if k > 0 {
			out = append(out, k)
		}
	}
	return out
}

// writeFails: does the k-th (1-based) write of the receive loop fail?
func (in recvIn) writeFails(k int) bool {
	if (in.WFrom > 0 && k >= in.WFrom) || in.LateRecv == "write" {
		return true
	}
	for _, f := range in.failingWrites() {
		if f == k {
			return true
		}
	}
	return false
}

// processedItems: the complete items the client's loop processes before it stops: up to the first element it
// rejects or the closing tag, and not beyond a stream error whose handler has replaced the connection.
func (in recvIn) processedItems() (processed []rItem, endedBy string) {
	endedBy = "cut"
	for _, it := range in.completeItems() {
		if it.T == "bad" {
			return processed, "bad"
		}
		if it.T == "close" {
			return processed, "close"
		}
		processed = append(processed, it)
		if it.T == "serr" && it.Repl {
			return processed, "handover"
		}
	}
	return processed, endedBy
}

func goid() string {
	var buf [64]byte
	n := runtime.Stack(buf[:], false)
	f := strings.Fields(string(buf[:n]))
	if len(f) > 1 {
		return f[1]
	}
	return ""
}

type recvLog struct {
	mu         sync.Mutex
	sync_      []Sx
	async      []Sx
	recvG      string
	quitLogged bool // (9) is in the log: the keepalive quit channel has been found closed
}

func (l *recvLog) addSync(x Sx) { l.mu.Lock(); l.sync_ = append(l.sync_, x); l.mu.Unlock() }

func packetSx(p stanza.Packet) Sx {
	atoi := func(s string) Sx {
		n, err := strconv.Atoi(s)
		if err != nil {
			return Z(-1)
		}
		return Zi(n)
	}
	switch v := p.(type) {
	case stanza.Message:
		return L(Z(0), Z(0), atoi(v.Id))
	case stanza.Presence:
		return L(Z(0), Z(1), atoi(v.Id))
	case *stanza.IQ:
		return L(Z(0), Z(2), atoi(v.Id))
	case stanza.SMRequest:
		return L(Z(1))
	case stanza.SMAnswer:
		return L(Z(2), Z(int64(v.H)))
	case stanza.StreamFeatures:
		return L(Z(3), Z(0))
	case stanza.SMEnabled:
		return L(Z(3), Z(1))
	case stanza.SMResumed:
		return L(Z(3), Z(2))
	case stanza.SMFailed:
		return L(Z(3), Z(3))
	case stanza.SASLSuccess:
		return L(Z(3), Z(4))
	case stanza.SASLFailure:
		return L(Z(3), Z(5))
	case stanza.Handshake:
		return L(Z(3), Z(6))
	case stanza.StreamError:
		for i, c := range serrConds {
			if v.Error.Local == c {
				return L(Z(4), Zi(i))
			}
		}
		return L(Z(4), Z(-1))
	default:
		return L(Z(77), SBytes(fmt.Sprintf("%T", p)))
	}
}

// runRecv runs one history; returns (sync log, async routed sorted into history order).
func runRecv(in recvIn) Sx {
	if in.WS {
		o := runRecvWS(in)
		if len(o.L) != 9 {
			return o
		}
		// same shape as the stub observation: answers in order, then the loss reported, then the loop end
		sync := append([]Sx{}, o.L[1].L...)
		// the keepalive quit channel: found closed when the error callback started (shown before it), or when the
		// Disconnected handler started (shown before the event), or only when the loop had returned
		quitAtErr, quitAtDisc := o.L[8].Z == 1, o.L[6].Z == 1
		if quitAtErr {
			sync = append(sync, L(Z(9)))
		}
		for k := int64(0); k < o.L[3].Z; k++ {
			sync = append(sync, L(Z(4)))
		}
		if !quitAtErr && quitAtDisc {
			sync = append(sync, L(Z(9)))
		}
		for k := int64(0); k < o.L[4].Z; k++ {
			sync = append(sync, L(Z(5), o.L[5], o.L[7]))
		}
		if !quitAtErr && !quitAtDisc && o.L[2].Z == 1 {
			sync = append(sync, L(Z(9)))
		}
		return L(LS(sync), o.L[0], Z(0))
	}
	hdr := clientHeader
	if in.Component {
		hdr = componentHeader
	}
	st := newStub([][]byte{[]byte(hdr), in.body()}, nil)
	st.chunk = in.Chunk
	lg := &recvLog{}
	quit := make(chan struct{})
	// sampleQuit: whenever the receive goroutine enters something the harness can see (a handler it calls itself, the
	// error callback, an event handler, a transport call) the keepalive quit channel is looked at: "closed" (9) is
	// logged once, before the first such action that finds it closed. The channel is closed by the receive goroutine
	// itself, so this places the close between two of its own actions.
	sampleQuit := func() {
		if in.Component {
			return
		}
		lg.mu.Lock()
		onRecv := lg.recvG != "" && goid() == lg.recvG
		lg.mu.Unlock()
		if !onRecv {
			return
		}
		select {
		case <-quit:
			lg.mu.Lock()
			if !lg.quitLogged {
				lg.quitLogged = true
				lg.sync_ = append(lg.sync_, L(Z(9)))
			}
			lg.mu.Unlock()
		default:
		}
	}
	router := xmpp.NewRouter()
	router.NewRoute().HandlerFunc(func(s xmpp.Sender, p stanza.Packet) {
		x := packetSx(p)
		sampleQuit()
		lg.mu.Lock()
		// A component hands its packets to the router in arrival order: the ORDER of the handler calls is what is
		// recorded (in the one ordered log), not which goroutine makes them.
		if in.Component || goid() == lg.recvG {
			lg.sync_ = append(lg.sync_, L(Z(0), x))
		} else {
			lg.async = append(lg.async, x)
		}
		lg.mu.Unlock()
	})
	// which of the stream errors of the history have a handler that replaces the connection (in order)
	var serrRepl []bool
	for _, it := range in.Items {
		if it.T == "serr" {
			serrRepl = append(serrRepl, it.Repl)
		}
	}
	nserrSeen := 0
	// the stream-management state the session holds: the Disconnected event has to carry this very state
	wantID := ""
	var wantQ *stanza.UnAckQueue
	var hook *stubHooks
	var comp *xmpp.Component
	errH := func(err error) { sampleQuit(); lg.addSync(L(Z(4))) }
	evH := func(e xmpp.Event) error {
		sampleQuit()
		switch xmpp.VerifEventState(e) {
		case xmpp.StateDisconnected:
			same := e.SMState.Id == wantID && e.SMState.UnAckQueue == wantQ
			lg.addSync(L(Z(5), Z(int64(e.SMState.Inbound)), B(same)))
		case xmpp.StateStreamError:
			lg.addSync(L(Z(6)))
			k := nserrSeen
			nserrSeen++
			if k < len(serrRepl) && serrRepl[k] {
				// what a StreamManager does from inside this handler: by the time it returns the transport holds the
				// connection (and decoder) of a new session
				if in.Component {
					// Disconnect and Resume from inside the handler: the component holds another transport now
					xmpp.VerifComponentSetTransport(comp, &stubHooks{st: st, tr: st, lg: &recvLog{}})
				} else {
					hook.replaceDecoder()
				}
			}
		default:
			lg.addSync(L(Z(60), Zi(int(xmpp.VerifEventState(e)))))
		}
		return nil
	}
	hook = &stubHooks{st: st, tr: st, lg: lg, sample: sampleQuit}
	if in.Logged {
		// the real XMPPTransport read/write path (traffic logger, buffered decoder) over a scripted connection
		var logW io.Writer = &bytes.Buffer{}
		var flog *failingLog
		if in.LogFailAt > 0 {
			flog = &failingLog{failFrom: in.LogFailAt}
			logW = flog
		}
		xt := xmpp.VerifXMPPTransportLoggedOnConn(&fakeConn{st: st, errWithData: in.ErrWithData}, logW, 1)
		if _, err := stanza.InitStream(xt.GetDecoder()); err != nil {
			return L(SBytes("stub-start-failed"))
		}
		if flog != nil {
			flog.arm() // the log fails in the middle of the session, not before it
		}
		hook.tr = xt
	} else if _, err := st.StartStream(); err != nil {
		return L(SBytes("stub-start-failed"))
	}
	st.mu.Lock()
	st.writes, st.nwrites = nil, 0
	for _, k := range in.failingWrites() {
		st.writeFailAt[k] = true
	}
	if in.WFrom > 0 {
		// every write from this one on (the loop writes at most one answer per <r/>)
		for k := in.WFrom; k <= in.WFrom+len(in.Items)+8; k++ {
			st.writeFailAt[k] = true
		}
	}
	st.mu.Unlock()
	done := make(chan struct{})
	if in.Component {
		c, _ := xmpp.NewComponent(xmpp.ComponentOptions{Domain: "comp.localhost", Secret: "s"}, router, errH)
		c.SetHandler(evH)
		comp = c
		xmpp.VerifComponentSetTransport(c, hook)
		go func() {
			lg.mu.Lock()
			lg.recvG = goid()
			lg.mu.Unlock()
			xmpp.VerifComponentRecv(c)
			lg.addSync(L(Z(9)))
			close(done)
		}()
	} else {
		cfg := &xmpp.Config{TransportConfiguration: xmpp.TransportConfiguration{Address: "localhost:1"}, Jid: "u@localhost", Credential: xmpp.Password("p"), StreamManagementEnable: in.SM}
		var cb func(error) = errH
		if in.NoErrH {
			cb = nil
		}
		c, err := xmpp.NewClient(cfg, router, cb)
		if err != nil {
			return L(SBytes("newclient-failed"))
		}
		c.SetHandler(evH)
		xmpp.VerifSetTransport(c, hook)
		sm := xmpp.SMState{Inbound: uint(in.Inb)}
		if in.SM {
			sm.Id = "smid"
			sm.UnAckQueue = stanza.NewUnAckQueue()
		}
		wantID, wantQ = sm.Id, sm.UnAckQueue
		xmpp.VerifSetSession(c, sm)
		go func() {
			lg.mu.Lock()
			lg.recvG = goid()
			lg.mu.Unlock()
			xmpp.VerifRecv(c, quit)
			lg.mu.Lock()
			logged := lg.quitLogged
			lg.mu.Unlock()
			select {
			case <-quit:
				if !logged {
					lg.addSync(L(Z(9)))
				}
			default:
				lg.addSync(L(Z(90))) // returned without closing keepaliveQuit
			}
			close(done)
		}()
	}
	select {
	case <-done:
	case <-time.After(5*time.Second + in.sizeAllowance()):
		lg.mu.Lock()
		defer lg.mu.Unlock()
		return L(SBytes("recv-loop-hung"), LS(lg.sync_))
	}
	// quiescence of the per-packet routing goroutines
	want := 0
	if !in.Component {
		processed, _ := in.processedItems()
		for _, it := range processed {
			if it.T == "serr" {
				continue // a stream error is routed once, on the receive goroutine itself
			}
			want++
		}
	}
	deadline := time.Now().Add(8 * time.Second)
	for {
		lg.mu.Lock()
		n := len(lg.async)
		lg.mu.Unlock()
		if n >= want || time.Now().After(deadline) {
			break
		}
		time.Sleep(200 * time.Microsecond)
	}
	time.Sleep(300 * time.Microsecond)
	leaked := 0
	if in.LeakCheck {
		for k := 0; k < 50; k++ {
			leaked = libGoroutines()
			if leaked == 0 {
				break
			}
			time.Sleep(time.Millisecond)
		}
	}
	lg.mu.Lock()
	defer lg.mu.Unlock()
	async := canonAsync(lg.async, in.completeItems())
	syncLog := lg.sync_
	if in.Component {
		// handler calls first (their order is what the property fixes), then the loop's other actions counted by
		// kind: neither their interleaving with the handler calls nor their order among themselves is fixed
		var routes []Sx
		counts := map[int64]int{}
		for _, e := range syncLog {
			if len(e.L) > 0 && e.L[0].K == "z" && e.L[0].Z == 0 {
				routes = append(routes, e)
			} else if len(e.L) > 0 && e.L[0].K == "z" {
				counts[e.L[0].Z]++
			}
		}
		syncLog = routes
		for t := int64(2); t <= 9; t++ {
			syncLog = append(syncLog, L(Z(t), Zi(counts[t])))
		}
		for t, n := range counts {
			if t < 2 || t > 9 { // anything unexpected (e.g. 90: loop returned without closing quit) stays visible
				syncLog = append(syncLog, L(Z(t), Zi(n)))
			}
		}
	}
	return L(LS(syncLog), LS(async), Zi(leaked))
}

// canonAsync orders the observed asynchronously routed packets by the position of
// their (k-th) occurrence in the history, so that equal multisets give equal lists.
func canonAsync(obs []Sx, items []rItem) []Sx {
	type slot struct {
		key string
		pos int
	}
	used := map[string]int{}
	positions := map[string][]int{}
	for i, it := range items {
		k := it.sx().String()
		positions[k] = append(positions[k], i)
	}
	type kv struct {
		x   Sx
		pos int
	}
	var out []kv
	for _, x := range obs {
		k := x.String()
		ps := positions[k]
		u := used[k]
		used[k] = u + 1
		pos := 1 << 30 // unexpected extras go last
		if u < len(ps) {
			pos = ps[u]
		}
		out = append(out, kv{x, pos})
	}
	sort.SliceStable(out, func(a, b int) bool { return out[a].pos < out[b].pos })
	r := make([]Sx, len(out))
	for i, e := range out {
		r[i] = e.x
	}
	return r
}

// stubHooks wraps the stub so that transport calls made by the receive loop are
// logged in program order.
type stubHooks struct {
	st *stubTransport
	tr xmpp.Transport // what the calls are forwarded to: the stub itself or a real XMPPTransport over a scripted net.Conn
	lg *recvLog
	// sample: called at the start of every transport call (see sampleQuit in runRecv)
	sample func()
	// alt: once set, the transport holds the decoder of ANOTHER connection (a reconnection from inside an event handler)
	altMu sync.Mutex
	alt   *xml.Decoder
}

func (h *stubHooks) replaceDecoder() {
	h.altMu.Lock()
	h.alt = xml.NewDecoder(strings.NewReader(""))
	h.altMu.Unlock()
}
func (h *stubHooks) sampled() {
	if h.sample != nil {
		h.sample()
	}
}

// failingLog: a traffic log that stops accepting writes (disk full, file gone).
type failingLog struct {
	mu       sync.Mutex
	n        int
	failFrom int
	armed    bool
}

func (f *failingLog) arm() { f.mu.Lock(); f.armed, f.n = true, 0; f.mu.Unlock() }

func (f *failingLog) Write(p []byte) (int, error) {
	f.mu.Lock()
	defer f.mu.Unlock()
	f.n++
	if f.armed && f.n >= f.failFrom {
		return 0, fmt.Errorf("traffic log: no space left on device")
	}
	return len(p), nil
}

// sendLog: a traffic log that keeps the answers <a h=/> the transport was asked to write (the "SEND:" entries).
type sendLog struct {
	mu      sync.Mutex
	answers []Sx
}

func (l *sendLog) Write(p []byte) (int, error) {
	if body := strings.TrimSuffix(strings.TrimPrefix(string(p), "SEND:\n"), "\n\n"); body != string(p) {
		if v, ok := smAnswerH([]byte(body)); ok {
			l.mu.Lock()
			l.answers = append(l.answers, L(Z(3), Zi(v))) // attempted; the peer is gone, it does not arrive
			l.mu.Unlock()
		}
	}
	return len(p), nil
}

// fakeConn: a net.Conn fed by the stub's scripted input; with errWithData the last
// bytes and the read error come back from the same Read call (as crypto/tls does when
// a close_notify directly follows the data).
type fakeConn struct {
	st          *stubTransport
	errWithData bool
}

func (f *fakeConn) Read(p []byte) (int, error) {
	n, err := f.st.Read(p)
	if f.errWithData && err == nil && n > 0 && f.st.exhausted() {
		return n, io.EOF
	}
	return n, err
}
func (f *fakeConn) Write(p []byte) (int, error)        { return f.st.Write(p) }
func (f *fakeConn) Close() error                       { return nil }
func (f *fakeConn) LocalAddr() net.Addr                { return &net.TCPAddr{} }
func (f *fakeConn) RemoteAddr() net.Addr               { return &net.TCPAddr{} }
func (f *fakeConn) SetDeadline(t time.Time) error      { return nil }
func (f *fakeConn) SetReadDeadline(t time.Time) error  { return nil }
func (f *fakeConn) SetWriteDeadline(t time.Time) error { return nil }

func (h *stubHooks) Connect() (string, error)     { return h.tr.Connect() }
func (h *stubHooks) DoesStartTLS() bool           { return h.tr.DoesStartTLS() }
func (h *stubHooks) StartTLS() error              { return h.tr.StartTLS() }
func (h *stubHooks) LogTraffic(w io.Writer)       {}
func (h *stubHooks) StartStream() (string, error) { return h.tr.StartStream() }
func (h *stubHooks) GetDecoder() *xml.Decoder {
	h.altMu.Lock()
	alt := h.alt
	h.altMu.Unlock()
	if alt != nil {
		return alt
	}
	return h.tr.GetDecoder()
}
func (h *stubHooks) IsSecure() bool             { return h.tr.IsSecure() }
func (h *stubHooks) Ping() error                { return h.tr.Ping() }
func (h *stubHooks) Read(p []byte) (int, error) { return h.tr.Read(p) }
func (h *stubHooks) Write(p []byte) (int, error) {
	h.sampled()
	n, err := h.tr.Write(p)
	v, isAnswer := smAnswerH(p) // the element <a h=/>, whatever its spelling
	switch {
	case !isAnswer:
		h.lg.addSync(L(Z(99), SBytes(string(p))))
	case err != nil:
		h.lg.addSync(L(Z(3), Zi(v)))
	default:
		h.lg.addSync(L(Z(2), Zi(v)))
	}
	return n, err
}
func (h *stubHooks) Close() error { h.sampled(); h.lg.addSync(L(Z(7))); return h.tr.Close() }
func (h *stubHooks) ReceivedStreamClose() {
	h.sampled()
	h.lg.addSync(L(Z(8)))
	h.tr.ReceivedStreamClose()
}

// ---------------------------------------------------------------- WebSocket variant
// runRecvWS: the same receive loop over the real WebsocketTransport: a loopback
// websocket server sends <open/> and then every item of the history as one text
// frame; when everything has been routed the CLIENT closes the transport (a loss of
// the websocket by the peer is only noticed through the keepalive ping, C18).
func runRecvWS(in recvIn) Sx {
	base, err := listenLoopback()
	if err != nil {
		return L(SBytes("listen-failed"))
	}
	ln := &kaKeepListener{Listener: base} // remembers the accepted TCP connections so that they can be cut
	defer ln.Close()
	ctx, cancel := context.WithCancel(context.Background())
	defer cancel()
	var smu sync.Mutex
	var answers []Sx
	sendDone := make(chan struct{})
	peerClose := make(chan struct{})
	srv := &http.Server{Handler: http.HandlerFunc(func(w http.ResponseWriter, r *http.Request) {
		c, err := websocket.Accept(w, r, &websocket.AcceptOptions{Subprotocols: []string{"xmpp"}})
		if err != nil {
			return
		}
		defer c.Close(websocket.StatusNormalClosure, "")
		c.SetReadLimit(1 << 20)
		if c.Write(ctx, websocket.MessageText, []byte(`<open xmlns="urn:ietf:params:xml:ns:xmpp-framing" id="x" version="1.0"/>`)) != nil {
			return
		}
		// the client's <open/>
		if _, _, err := c.Read(ctx); err != nil {
			return
		}
		go func() {
			for {
				_, data, err := c.Read(ctx)
				if err != nil {
					return
				}
				if v, ok := smAnswerH(data); ok {
					smu.Lock()
					answers = append(answers, L(Z(2), Zi(v)))
					smu.Unlock()
				}
			}
		}()
		for _, it := range in.Items {
			if in.Frag && len(it.XML) >= 2 {
				w, err := c.Writer(ctx, websocket.MessageText)
				if err != nil {
					break
				}
				if it.Size > 0 {
					// a sized element: a short first frame, continuation frames of 60 000 bytes, the rest in the last
					x := []byte(it.XML)
					w.Write(x[:len(x)/3%1000+1])
					x = x[len(x)/3%1000+1:]
					for len(x) > 60000 {
						if _, err := w.Write(x[:60000]); err != nil {
							break
						}
						x = x[60000:]
					}
					w.Write(x)
					if w.Close() != nil {
						break
					}
					continue
				}
				h := len(it.XML) / 2
				w.Write([]byte(it.XML[:h])) // first frame, FIN=0
				w.Write([]byte(it.XML[h:])) // continuation frame
				if w.Close() != nil {
					break
				}
				continue
			}
			if c.Write(ctx, websocket.MessageText, []byte(it.XML)) != nil {
				break
			}
		}
		if in.PeerCloseNow {
			c.Close(websocket.StatusNormalClosure, "bye")
			close(sendDone)
			return
		}
		close(sendDone)
		if in.LateRecv != "" {
			<-ctx.Done() // the harness ends the TCP connection itself
			return
		}
		select {
		case <-peerClose:
			c.Close(websocket.StatusNormalClosure, "bye")
		case <-ctx.Done():
		}
	})}
	go srv.Serve(ln)
	defer srv.Close()

	lg := &recvLog{}
	router := xmpp.NewRouter()
	router.NewRoute().HandlerFunc(func(s xmpp.Sender, p stanza.Packet) {
		lg.mu.Lock()
		lg.async = append(lg.async, packetSx(p))
		lg.mu.Unlock()
	})
	nerr, ndisc := 0, 0
	var discInb int64
	tr := xmpp.NewClientTransport(xmpp.TransportConfiguration{Address: "ws://" + ln.Addr().String() + "/ws", Domain: "localhost", ConnectTimeout: 2})
	if _, err := tr.Connect(); err != nil {
		return L(SBytes("ws-connect-failed: " + err.Error()))
	}
	cfg := &xmpp.Config{TransportConfiguration: xmpp.TransportConfiguration{Address: "localhost:1"}, Jid: "u@localhost", Credential: xmpp.Password("p"), StreamManagementEnable: in.SM}
	quitKA := make(chan struct{})
	quitBefore, quitAtErr, sameState := false, false, true
	wantID := ""
	var wantQ *stanza.UnAckQueue
	c, err := xmpp.NewClient(cfg, router, func(error) {
		lg.mu.Lock()
		if nerr == 0 {
			select {
			case <-quitKA:
				quitAtErr = true
			default:
			}
		}
		nerr++
		lg.mu.Unlock()
	})
	if err != nil {
		return L(SBytes("newclient-failed"))
	}
	c.SetHandler(func(e xmpp.Event) error {
		if xmpp.VerifEventState(e) == xmpp.StateDisconnected {
			lg.mu.Lock()
			ndisc++
			discInb = int64(e.SMState.Inbound)
			if e.SMState.Id != wantID || e.SMState.UnAckQueue != wantQ {
				sameState = false
			}
			select {
			case <-quitKA:
				quitBefore = true
			default:
			}
			lg.mu.Unlock()
		}
		return nil
	})
	xmpp.VerifSetTransport(c, tr)
	sm := xmpp.SMState{Inbound: uint(in.Inb)}
	if in.SM {
		sm.Id, sm.UnAckQueue = "smid", stanza.NewUnAckQueue()
	}
	wantID, wantQ = sm.Id, sm.UnAckQueue
	xmpp.VerifSetSession(c, sm)
	done := make(chan struct{})
	if in.PeerCut {
		// as Client.Connect does: keepalive and receiver share the quit channel
		go xmpp.VerifKeepalive(tr, 4*time.Millisecond, quitKA)
	}
	slog := &sendLog{}
	if in.LateRecv == "" {
		go func() { xmpp.VerifRecv(c, quitKA); close(done) }()
	}
	select {
	case <-sendDone:
	case <-time.After(5*time.Second + in.sizeAllowance()):
		return L(SBytes("ws-server-stuck"))
	}
	if in.LateRecv != "" {
		// the receiver is behind: everything has been sent, and received by the client's machine, before it reads
		// anything. Then the connection ends (the server's side is closed, orderly: every byte is delivered).
		kaDone := make(chan struct{})
		if in.LateRecv == "keepalive" {
			go func() { xmpp.VerifKeepalive(tr, 4*time.Millisecond, quitKA); close(kaDone) }()
		} else {
			tr.LogTraffic(slog)
			close(kaDone)
		}
		time.Sleep(30 * time.Millisecond) // the transport's reader takes in what has arrived
		ln.cut(true)
		select {
		case <-kaDone: // the keepalive's ping has failed and it has closed the transport
		case <-time.After(6 * time.Second):
			return L(SBytes("ws-keepalive-did-not-notice"))
		}
		time.Sleep(20 * time.Millisecond)
		go func() { xmpp.VerifRecv(c, quitKA); close(done) }()
	}
	want := 0
	for _, it := range in.Items {
		if it.T == "bad" {
			break
		}
		want++
	}
	deadline := time.Now().Add(8*time.Second + in.sizeAllowance())
	for time.Now().Before(deadline) {
		lg.mu.Lock()
		n := len(lg.async)
		lg.mu.Unlock()
		select {
		case <-done:
			deadline = time.Now()
		default:
		}
		if n >= want {
			break
		}
		time.Sleep(300 * time.Microsecond)
	}
	// the answers travel back asynchronously: wait until the server has one per <r/>
	wantA := 0
	for _, it := range in.Items {
		if it.T == "bad" {
			break
		}
		if it.T == "r" {
			wantA++
		}
	}
	// (own deadline: the loop may already have ended -- on a rejected element -- while its last answer is still
	// travelling to the server; it only bounds the wait for an answer that was never written)
	adl := time.Now().Add(4 * time.Second)
	if in.LateRecv != "" {
		adl = time.Now() // no server left to receive an answer
	}
	graced := false
	for time.Now().Before(adl) {
		smu.Lock()
		na := len(answers)
		smu.Unlock()
		if na >= wantA {
			break
		}
		if !graced {
			select {
			case <-done:
				// the loop has ended: what it wrote is on its way; an answer it never wrote will not come
				graced = true
				if g := time.Now().Add(300 * time.Millisecond); g.Before(adl) {
					adl = g
				}
			default:
			}
		}
		time.Sleep(300 * time.Microsecond)
	}
	time.Sleep(2 * time.Millisecond)
	closed := make(chan struct{})
	if in.PeerCut {
		ln.cut(false) // TCP reset under the websocket: only a failing keepalive can notice
		close(closed)
	} else if in.LateRecv != "" {
		close(closed) // the connection has ended already
	} else if in.PeerCloseNow {
		close(closed) // already closed by the server, right behind its last element
	} else if in.PeerClose {
		close(peerClose) // the server closes the websocket: the client's read path has to notice and report
		close(closed)
	} else {
		go func() { tr.Close(); close(closed) }()
	}
	loopEnded := true
	select {
	case <-done:
	case <-time.After(3 * time.Second):
		loopEnded = false
	}
	// quiescence of the per-packet routing goroutines the loop has started (it may have ended a moment ago)
	qdl := time.Now().Add(3 * time.Second)
	for time.Now().Before(qdl) {
		lg.mu.Lock()
		n := len(lg.async)
		lg.mu.Unlock()
		if n >= want {
			break
		}
		time.Sleep(300 * time.Microsecond)
	}
	lg.mu.Lock()
	defer lg.mu.Unlock()
	smu.Lock()
	defer smu.Unlock()
	async := canonAsync(lg.async, in.Items)
	if in.LateRecv == "write" {
		slog.mu.Lock()
		answers = append([]Sx{}, slog.answers...)
		slog.mu.Unlock()
	}
	return L(LS(async), LS(answers), B(loopEnded), Zi(nerr), Zi(ndisc), Z(discInb), B(quitBefore), B(sameState), B(quitAtErr))
}
