package main

// C18, HISTORIES of 2-4 sessions on ONE Client object (kind re, variant hist). Whatever the client keeps
// per object and not per connection (the quit channel of the keep-alive, what closes it, the transport) is
// exercised for the 2nd, 3rd, 4th session as it is for the first: every session of the history is ended in
// its own way (server reset / Client.Disconnect answered at once / Client.Disconnect with a server that is
// slow to answer the closing tag, so that the window behind the client's own </stream:stream> is a second
// wide / the server's </stream:stream>), the next one is established by Resume or Connect, promptly or
// after a pause of some intervals. For EVERY session: (a) no keep-alive once that session has ended (Ping
// calls by goroutine, bytes behind the client's own closing tag as recorded on the way to the server),
// (b) one keep-alive loop at most: goroutines pinging while it is up, pings per interval.

import (
	"bytes"
	"fmt"
	"strings"
	"sync"
	"sync/atomic"
	"time"

	xmpp "gosrc.io/xmpp"
)

type c18HistStep struct {
	End     string `json:"end"`                // drop | disc | discslow | srvclose
	Ticks   int    `json:"ticks"`              // the session stays up for this many intervals
	PauseIv int    `json:"pause_iv"`           // intervals between the end of this session and the next attempt (0: at once)
	Via     string `json:"via"`                // how the NEXT session is established: resume | connect
	BlockIv int    `json:"block_iv,omitempty"` // the application's Disconnected handler: 0 returns at once; n > 0 blocks for n intervals; n < 0 blocks until the harness, having watched the connection for -n intervals, releases it
}

type c18HistSess struct {
	End       string `json:"end"`
	UpUs      int64  `json:"up_us"`                // from established to the moment the harness ended it
	UpPings   int    `json:"up_pings"`             // Ping calls (any goroutine) in that window
	Pingers   int    `json:"pingers"`              // goroutines with at least 2 Ping calls in that window
	Late      int    `json:"late"`                 // Ping calls by this session's loop(s) after the session was over
	AfterTag  int    `json:"after_tag"`            // white space the client wrote behind its own </stream:stream> on this connection
	AfterData string `json:"after_data,omitempty"` // anything else it wrote there
	Lost      bool   `json:"lost,omitempty"`       // reported lost before the harness ended it
	NoEnd     bool   `json:"no_end,omitempty"`     // no Disconnected event although the harness ended it
}

func (in *c18In) histKey() string {
	var b strings.Builder
	for _, s := range in.Hist {
		fmt.Fprintf(&b, "/%s.%d.%d.%s", s.End, s.Ticks, s.PauseIv, s.Via)
		if s.BlockIv != 0 {
			fmt.Fprintf(&b, ".h%d", s.BlockIv)
		}
	}
	return b.String()
}

func c18GenHist(add func(*c18In), intn func(int) int, n int) {
	ends := []string{"drop", "disc", "discslow", "srvclose"}
	mk := func(iv int, steps ...c18HistStep) {
		for i := range steps {
			if steps[i].Ticks == 0 {
				steps[i].Ticks = 8 + intn(6)
			}
			if steps[i].Via == "" {
				steps[i].Via = "resume"
			}
		}
		add(&c18In{Kind: "re", Variant: "hist", IvUs: iv, Hist: steps})
	}
	// the two shapes every per-object state must survive: a LATER session ended by the application with a
	// server slow to answer; a later session lost and the client resumed at once (what a StreamManager does)
	mk(1000*(5+intn(4)), c18HistStep{End: "drop"}, c18HistStep{End: "discslow"}, c18HistStep{End: "disc"})
	mk(1000*(5+intn(4)), c18HistStep{End: "disc", Via: "connect"}, c18HistStep{End: "drop"}, c18HistStep{End: "drop", Ticks: 14}, c18HistStep{End: "discslow"})
	// the application's Disconnected handler takes its time (a StreamManager's returns when the reconnection
	// is through): every kind of end, in the first and in a later session
	mk(1000*(5+intn(4)), c18HistStep{End: "srvclose", BlockIv: 4 + intn(5)}, c18HistStep{End: "drop", BlockIv: -6}, c18HistStep{End: "srvclose", BlockIv: -(4 + intn(4))})
	mk(1000*(5+intn(4)), c18HistStep{End: "drop", BlockIv: 4 + intn(5)}, c18HistStep{End: "srvclose", BlockIv: 4 + intn(5), Via: "connect"}, c18HistStep{End: "disc", BlockIv: 4 + intn(5)}, c18HistStep{End: "discslow", BlockIv: 4})
	for i := 0; i < n; i++ {
		k := 2 + intn(3)
		steps := make([]c18HistStep, k)
		slow := 0
		for j := range steps {
			e := ends[intn(len(ends))]
			if e == "discslow" {
				// each costs ConnectTimeout (1 s)
				if slow++; slow > 2 {
					e = "drop"
				}
			}
			steps[j] = c18HistStep{End: e, Ticks: 6 + intn(8), Via: []string{"resume", "resume", "connect"}[intn(3)]}
			if intn(3) == 0 {
				steps[j].PauseIv = 2 + intn(5)
			}
			switch intn(3) {
			case 1:
				steps[j].BlockIv = 3 + intn(6)
			case 2:
				steps[j].BlockIv = -(3 + intn(6))
			}
		}
		mk(1000*(4+intn(5)), steps...)
	}
}

func runKeepaliveHist(in *c18In, attempt int) (Sx, *c18Obs) {
	iv := time.Duration(in.IvUs) * time.Microsecond
	setupErr := func(msg string) (Sx, *c18Obs) {
		return L(L(L(Z(-2), SBytes(msg))), L(), L()), &c18Obs{Attempts: attempt, SetupErr: msg, CloseUs: -1, ReturnUs: -1, Re: &c18ReObs{}}
	}
	if len(in.Hist) < 2 {
		return setupErr("a history needs two sessions")
	}
	groups := [][]sItem{
		{hdrItem(), {T: "features", Mechs: []string{"PLAIN"}}},
		{{T: "success"}},
		{hdrItem(), {T: "features", Bind: true}},
		{{T: "iq", Typ: "result", ID: "b", Pl: "bind", Jid: "user@" + srvDomain + "/r"}},
	}
	scripts := make([]connScript, len(in.Hist)+1)
	for i := range scripts {
		scripts[i] = connScript{Groups: groups}
	}
	srv, err := startScriptedServer(scripts)
	if err != nil {
		return setupErr("listen: " + err.Error())
	}
	defer srv.stop()
	// everything the client writes is recorded on the way; the server's answers can be withheld
	relay, err := newKaRelay(srv.addr())
	if err != nil {
		return setupErr("relay: " + err.Error())
	}
	defer relay.close()
	cfg := &xmpp.Config{
		TransportConfiguration: xmpp.TransportConfiguration{Address: relay.ln.Addr().String(), Domain: srvDomain, ConnectTimeout: 1},
		Jid:                    "user@" + srvDomain, Credential: xmpp.Password("secret"), Insecure: true,
		ConnectTimeout: 1, KeepaliveInterval: iv,
	}
	type stamp struct {
		at   time.Time
		disc bool
	}
	var mu sync.Mutex
	var reports []stamp
	discCh := make(chan struct{}, 16)
	var discAt time.Time      // when the Disconnected handler was last entered
	var block time.Duration   // how long it blocks (current session)
	var release chan struct{} // ... or what it waits for
	client, err := xmpp.NewClient(cfg, xmpp.NewRouter(), func(error) {
		mu.Lock()
		reports = append(reports, stamp{time.Now(), false})
		mu.Unlock()
	})
	if err != nil {
		return setupErr("newclient: " + err.Error())
	}
	client.SetHandler(func(e xmpp.Event) error {
		if xmpp.VerifEventState(e) == xmpp.StateDisconnected {
			mu.Lock()
			discAt = time.Now()
			reports = append(reports, stamp{discAt, true})
			d, rel := block, release
			mu.Unlock()
			select {
			case discCh <- struct{}{}:
			default:
			}
			// the application's handler is in no hurry: the session is over all the same
			if rel != nil {
				select {
				case <-rel:
				case <-time.After(5 * time.Second):
				}
			} else if d > 0 {
				time.Sleep(d)
			}
		}
		return nil
	})
	rec := &kaRec{}
	tr := &kaReal{Transport: xmpp.VerifTransport(client), rec: rec, slow: true, attr: true}
	xmpp.VerifSetTransport(client, tr)
	start := time.Now()

	ro := &c18ReObs{}
	var est, upEnd, over []time.Time
	sess := make([]c18HistSess, 0, len(in.Hist))
	discSince := func(t time.Time) bool {
		mu.Lock()
		defer mu.Unlock()
		for _, r := range reports {
			if r.disc && r.at.After(t) {
				return true
			}
		}
		return false
	}
	for k, st := range in.Hist {
		if k == 0 || in.Hist[k-1].Via == "connect" {
			err = client.Connect()
		} else {
			err = client.Resume()
		}
		if err != nil {
			o := &c18Obs{Attempts: attempt, SetupErr: fmt.Sprintf("session %d: %v", k+1, err), CloseUs: -1, ReturnUs: -1, ConnectErr: true, Re: ro}
			return L(L(L(Z(-2), SBytes("connect"))), L(), L()), o
		}
		ro.Attempts = append(ro.Attempts, 0)
		est = append(est, time.Now())
		hs := c18HistSess{End: st.End}
		mu.Lock()
		block, release = 0, nil
		if st.BlockIv > 0 {
			block = time.Duration(st.BlockIv) * iv
		} else if st.BlockIv < 0 {
			release = make(chan struct{})
		}
		rel := release
		mu.Unlock()
		time.Sleep(time.Duration(st.Ticks) * iv)
		now := time.Now()
		upEnd = append(upEnd, now)
		hs.UpUs = now.Sub(est[k]).Microseconds()
		if discSince(est[k]) {
			// nobody ended this session: something left over from an earlier one did
			hs.Lost = true
			over = append(over, now)
			sess = append(sess, hs)
			break
		}
		for len(discCh) > 0 {
			<-discCh
		}
		waitDisc := func(d time.Duration) time.Time {
			select {
			case <-discCh:
			case <-time.After(d):
				hs.NoEnd = true
				return time.Now()
			}
			mu.Lock()
			at := discAt
			mu.Unlock()
			// the handler is running: the connection is watched meanwhile, then the handler let go
			if rel != nil {
				time.Sleep(time.Duration(-st.BlockIv) * iv)
				close(rel)
			} else if st.BlockIv > 0 {
				time.Sleep(time.Duration(st.BlockIv) * iv)
			}
			time.Sleep(2 * time.Millisecond)
			return at
		}
		discDone := make(chan struct{})
		disconnect := func() {
			go func() { client.Disconnect(); close(discDone) }()
		}
		waitReturned := func() {
			// the transport's Close must be through before the next connection exists
			select {
			case <-discDone:
			case <-time.After(3 * time.Second):
			}
		}
		switch st.End {
		case "drop":
			srv.drop(k)
			at := waitDisc(4 * time.Second)
			// over when the client said so: quit is closed BEFORE the loss is reported (+ room for a ping under way)
			over = append(over, at.Add(iv/2))
			ro.Ends = append(ro.Ends, 1)
		case "srvclose":
			srv.push(k, "</stream:stream>")
			at := waitDisc(4 * time.Second)
			over = append(over, at.Add(iv/2))
			ro.Ends = append(ro.Ends, 2)
			disconnect() // the transport is still open: closed before the next attempt
			waitReturned()
		case "discslow":
			// the server is in no hurry to answer the closing tag: Close waits (ConnectTimeout, 1 s)
			atomic.StoreInt32(&relay.frozenS2C, 1)
			over = append(over, time.Now().Add(iv/2)) // over when the application says so
			disconnect()
			waitDisc(4 * time.Second)
			waitReturned()
			atomic.StoreInt32(&relay.frozenS2C, 0)
			ro.Ends = append(ro.Ends, 1) // Close gives up waiting and closes the connection: the read fails
		default: // disc
			over = append(over, time.Now().Add(iv/2))
			disconnect()
			waitDisc(4 * time.Second)
			waitReturned()
			ro.Ends = append(ro.Ends, 2)
		}
		sess = append(sess, hs)
		if k+1 < len(in.Hist) && st.PauseIv > 0 {
			time.Sleep(time.Duration(st.PauseIv) * iv)
		}
	}
	ro.Sessions = len(est)
	// after the last session: nothing may ping any more
	grace := 8 * iv
	if grace < 40*time.Millisecond {
		grace = 40 * time.Millisecond
	}
	window := 10 * iv
	if window > 300*time.Millisecond {
		window = 300 * time.Millisecond
	}
	time.Sleep(grace + window)

	// ---- loops, by goroutine ----
	evs := rec.snapshot()
	var order []string
	byG := map[string][]kaEv{}
	for _, e := range evs {
		if e.code == kaCloseOther {
			continue
		}
		if _, ok := byG[e.g]; !ok {
			order = append(order, e.g)
		}
		byG[e.g] = append(byG[e.g], e)
	}
	isPing := func(e kaEv) bool { return e.code == kaPingOk || e.code == kaPingFail }
	// a loop belongs to the session that was the current one when it made its first call
	sessLoops := make([][]string, len(est))
	for _, g := range order {
		first := byG[g][0].at
		k := 0
		for k+1 < len(est) && !first.Before(est[k+1]) {
			k++
		}
		sessLoops[k] = append(sessLoops[k], g)
	}
	// the one ping a starved loop may make past its poll of quit can be its only call: give it back
	for k := 1; k < len(sessLoops); k++ {
		if len(sessLoops[k]) > 1 && len(sessLoops[k-1]) == 0 {
			for i, g := range sessLoops[k] {
				if len(byG[g]) == 1 && isPing(byG[g][0]) {
					sessLoops[k-1] = append(sessLoops[k-1], g)
					sessLoops[k] = append(append([]string{}, sessLoops[k][:i]...), sessLoops[k][i+1:]...)
					break
				}
			}
		}
	}
	mu.Lock()
	reps := append([]stamp{}, reports...)
	mu.Unlock()
	var loopsSx []Sx
	for k := range est {
		hs := &sess[k]
		// (b) who pinged while this session was up
		perG := map[string]int{}
		for _, e := range evs {
			if isPing(e) && e.at.After(est[k]) && !e.at.After(upEnd[k]) {
				hs.UpPings++
				perG[e.g]++
			}
		}
		for _, n := range perG {
			if n >= 2 {
				hs.Pingers++
			}
		}
		// (a) what the client wrote behind its own closing tag on this connection
		sent := relay.sent(k)
		if i := bytes.Index(sent, []byte("</stream:stream>")); i >= 0 {
			tail := sent[i+len("</stream:stream>"):]
			for _, b := range tail {
				if kaIsWS(b) {
					hs.AfterTag++
				}
			}
			if !kaAllWS(tail) {
				hs.AfterData = string(tail)
			}
		}
		gs := sessLoops[k]
		if len(gs) == 0 {
			gs = []string{""}
		}
		for li, g := range gs {
			lp := c18ReLoop{Session: k, Seen: g != ""}
			var before, after []kaEv
			for _, e := range byG[g] {
				if e.at.After(over[k]) {
					after = append(after, e)
					if isPing(e) {
						lp.Late++
					}
					if e.code == kaPingOk {
						lp.LateOk++
					}
				} else {
					before = append(before, e)
					if e.code == kaPingOk && !lp.Failed {
						lp.NSucc++
					}
				}
				if e.code == kaPingFail {
					lp.Failed = true
				}
				if e.code == kaClose && lp.Failed {
					lp.Closed = true
				}
			}
			hs.Late += lp.Late
			seq := append(append(before, kaEv{code: kaReturn}), after...)
			npings := 0
			for _, e := range byG[g] {
				if isPing(e) {
					npings++
				}
			}
			wire := kaSessionTail(sent)
			wsx, units := kaWireSx(wire, npings, false)
			if npings == 0 {
				wsx, units = L(Z(0), B(kaAllWS(wire))), 0
			}
			lp.SrvN = units
			if li == 0 {
				hi := time.Now().Add(time.Hour)
				if k+1 < len(est) {
					hi = est[k+1]
				}
				for _, r := range reps {
					if r.at.After(est[k]) && !r.at.After(hi) {
						if r.disc {
							lp.Disc++
						} else {
							lp.Err++
						}
					}
				}
			}
			ro.Loops = append(ro.Loops, lp)
			loopsSx = append(loopsSx, L(kaEvsSx(seq), wsx, L(), L(Zi(lp.Err), Zi(lp.Disc))))
		}
	}
	ro.Hist = sess
	o := c18Summarise(nil, start, start, false, attempt)
	o.Re = ro
	if len(ro.Loops) > 0 {
		o.NSucc = ro.Loops[0].NSucc
	}
	var left, states []Sx
	for range ro.Attempts {
		left = append(left, B(true))
		states = append(states, Z(1))
	}
	return L(LS(loopsSx), LS(left), LS(states)), o
}

func histOracle(in *c18In, obs Sx) (string, string) {
	o := in.Obs
	if o == nil || o.Re == nil {
		return "no observation: " + obs.String(), "shape"
	}
	if o.SetupErr != "" {
		return "test set-up failed (not a statement about the code): " + o.SetupErr, "setup"
	}
	ro := o.Re
	iv := int64(in.IvUs)
	how := func(k int) string {
		via := "Connect"
		if k > 0 && in.Hist[k-1].Via != "connect" {
			via = "Resume"
		}
		return fmt.Sprintf("session %d of %d on the same Client (established by %s, ended by %s; history%s)", k+1, len(in.Hist), via, in.Hist[k].End, in.histKey())
	}
	for k, hs := range ro.Hist {
		if hs.Lost {
			return how(k) + fmt.Sprintf(" was reported lost %d ms after it came up although neither the server nor the application had ended it: something left over from an earlier session closed its connection", hs.UpUs/1000), "close-hits-next-session"
		}
		if hs.NoEnd {
			return how(k) + ": no Disconnected event within 4 s of its end", "loss-not-reported"
		}
	}
	for k, hs := range ro.Hist {
		if hs.AfterData != "" {
			return how(k) + fmt.Sprintf(": behind its own </stream:stream> the client wrote %q", hs.AfterData), "data-after-own-stream-close"
		}
		if hs.AfterTag > 1 {
			return how(k) + fmt.Sprintf(": the application called Disconnect; while Close waited for the server's closing tag the client wrote %d keep-alive bytes BEHIND its own </stream:stream> (one already under way is tolerated): the keep-alive of this session was not stopped", hs.AfterTag), "keepalive-after-own-stream-close"
		}
		tolerated := 1 // the one that was past its poll of quit when the session ended
		if hs.Late > tolerated {
			return how(k) + fmt.Sprintf(": its keep-alive loop pinged %d times after the session was over (on whatever connection the client had by then; the application's Disconnected handler: %s)", hs.Late, map[bool]string{true: "still running for part of that time", false: "returned at once"}[in.Hist[k].BlockIv != 0]), "ping-after-session-end"
		}
	}
	for k, hs := range ro.Hist {
		if hs.Pingers > 1 {
			return how(k) + fmt.Sprintf(": %d goroutines were pinging while it was up: a keep-alive loop of an earlier session follows the transport to this connection", hs.Pingers), "keepalive-loop-count"
		}
		if int64(hs.UpPings) > hs.UpUs/iv*3/2+3 {
			return how(k) + fmt.Sprintf(": %d keep-alives in %d us at an interval of %d us", hs.UpPings, hs.UpUs, iv), "too-many-pings"
		}
	}
	if len(ro.Hist) < len(in.Hist) {
		return "the history could not be played to its end", "setup"
	}
	return "", ""
}
