package main

import "math/rand"

func init() {
	register(recvProp{id: "C09", w: 8, gen: genC09,
		rule: "stream-managed client: histories of up to 200 items over message/presence/iq/<r/>/<a/>/non-stanza elements, starting inbound count 0/1/7/65535 (a resumed session keeps its count), <r/> at random positions and, for one history per run, after every prefix (exhaustive); oracle compares every h with the number of stanzas the script had sent; distinct = item-kind sequence; non-trivial = >= 2 stanzas and >= 1 <r/>"})
}

func genC09(r *rand.Rand, tier string) []interface{} {
	n := 300
	if tier == "thorough" {
		n = 8000
	}
	var out []interface{}
	mk := func(t string, i int) rItem {
		it := rItem{T: t, ID: i + 1, Kind: r.Intn(3), Var: r.Intn(60), H: r.Intn(4), Tag: r.Intn(6)}
		it.render()
		return it
	}
	// D9 witness shape: an <a/> then an <r/>
	out = append(out, recvIn{SM: true, Cut: -1, Items: []rItem{mk("a", 0), mk("r", 1)}})
	out = append(out, recvIn{SM: true, Cut: -1, Items: []rItem{mk("nonza", 0), mk("stanza", 1), mk("r", 2)}})
	// exhaustive: one base history, an <r/> inserted after every prefix
	base := genItems(r, 25, false, false)
	for k := 0; k <= len(base); k++ {
		items := append(append(append([]rItem{}, base[:k]...), mk("r", 1000+k)), base[k:]...)
		out = append(out, recvIn{SM: true, Cut: -1, Items: items})
	}
	for i := 0; i < n; i++ {
		l := r.Intn(201)
		if r.Intn(3) > 0 {
			l = r.Intn(30)
		}
		in := recvIn{SM: true, Cut: -1, Inb: []int{0, 0, 1, 7, 65535}[r.Intn(5)], Chunk: []int{0, 1, 64}[r.Intn(3)]}
		in.Items = genItems(r, l, false, false)
		out = append(out, in)
	}
	return out
}
