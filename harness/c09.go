package main

import (
	"encoding/json"
	"fmt"
	"math/rand"
)

// c09Prop: two kinds of cases behind one property: receive-loop histories (recv.go)
// and connection histories with traffic and resumption (session.go).
type c09Case struct {
	Recv *recvIn `json:"recv,omitempty"`
	Sess *sessIn `json:"sess,omitempty"`
}
type c09Prop struct {
	r recvProp
	s sessProp
}

func (p c09Prop) ID() string    { return "C09" }
func (p c09Prop) RunFn() string { return "run_C09" }
func (p c09Prop) Workers() int  { return 24 }
func (p c09Prop) Journal() bool { return true }
func (p c09Prop) Rule() string {
	return p.r.rule + " PLUS connection histories against the scripted server: stream management enabled with resume granted / refused / absent, 0-8 stanzas of traffic with <r/> after every third, then 0-3 resumptions each with more traffic: every <a h/> and every <resume h/> is compared with the number of stanzas the SERVER sent on the session; fixed family: <enabled/> WITHOUT an id (resume absent / false / true / not a boolean; XEP-0198: the id is only there for resumable sessions), traffic, a later stream enabled again without and then with an id, a resumption; a second reading of the wire alone (c09WireOracle: script + answers + <resume h/>, nothing of what the client holds) judges every answer of every session the script enabled or resumed, with or without id"
}
func (p c09Prop) Gen(r *rand.Rand, tier string) []interface{} {
	var out []interface{}
	for _, x := range p.r.Gen(r, tier) {
		v := x.(recvIn)
		out = append(out, c09Case{Recv: &v})
	}
	for _, x := range genC09sess(r, tier) {
		v := x.(sessIn)
		out = append(out, c09Case{Sess: &v})
	}
	for _, v := range genC09noID(r, tier) {
		v := v
		out = append(out, c09Case{Sess: &v})
	}
	return out
}
func (p c09Prop) Decode(raw json.RawMessage) (interface{}, error) {
	var c c09Case
	if err := json.Unmarshal(raw, &c); err != nil {
		return nil, err
	}
	if c.Recv != nil {
		for i := range c.Recv.Items {
			if c.Recv.Items[i].XML == "" {
				c.Recv.Items[i].render()
			}
		}
	}
	return c, nil
}
func (p c09Prop) Run(in interface{}) Sx {
	c := in.(c09Case)
	if c.Recv != nil {
		return p.r.Run(*c.Recv)
	}
	return p.s.Run(*c.Sess)
}
func (p c09Prop) Input(in interface{}) Sx { return p.InputObs(in, L()) }
func (p c09Prop) InputObs(in interface{}, obs Sx) Sx {
	c := in.(c09Case)
	if c.Recv != nil {
		return L(Z(0), p.r.Input(*c.Recv))
	}
	return L(Z(1), p.s.InputObs(*c.Sess, obs))
}
func (p c09Prop) Oracle(in interface{}, obs Sx) (string, string) {
	c := in.(c09Case)
	if c.Recv != nil {
		return p.r.Oracle(*c.Recv, obs)
	}
	if msg, cls := p.s.Oracle(*c.Sess, obs); msg != "" {
		return msg, cls
	}
	return c09WireOracle(*c.Sess, obs)
}
func (p c09Prop) Key(in interface{}) (string, bool) {
	c := in.(c09Case)
	if c.Recv != nil {
		return p.r.Key(*c.Recv)
	}
	k, nt := p.s.Key(*c.Sess)
	return "S" + k, nt
}

func init() {
	register(c09Prop{s: sessProp{id: "C09"}, r: recvProp{id: "C09", w: 8, gen: genC09,
		rule: "stream-managed client: histories of up to 200 items over message/presence/iq/<r/>/<a/>/non-stanza elements, starting inbound count 0/1/7/65535 (a resumed session keeps its count), <r/> at random positions and, for one history per run, after every prefix (exhaustive); oracle compares every h with the number of stanzas the script had sent; distinct = item-kind sequence; non-trivial = >= 2 stanzas and >= 1 <r/>"}})
}

func genC09(r *rand.Rand, tier string) []interface{} {
	n := 300
	if tier == "thorough" {
		n = 8000
	}
	var out []interface{}
	mk := func(t string, i int) rItem {
		it := rItem{T: t, ID: i + 1, Kind: r.Intn(3), Var: r.Intn(60), H: r.Intn(4), Tag: r.Intn(6)}
		it.render()
		return it
	}
	// D9 witness shape: an <a/> then an <r/>
	out = append(out, recvIn{SM: true, Cut: -1, Items: []rItem{mk("a", 0), mk("r", 1)}})
	out = append(out, recvIn{SM: true, Cut: -1, Items: []rItem{mk("nonza", 0), mk("stanza", 1), mk("r", 2)}})
	// exhaustive: one base history, an <r/> inserted after every prefix
	base := genItems(r, 25, false, false)
	for k := 0; k <= len(base); k++ {
		items := append(append(append([]rItem{}, base[:k]...), mk("r", 1000+k)), base[k:]...)
		out = append(out, recvIn{SM: true, Cut: -1, Items: items})
	}
	for i := 0; i < n; i++ {
		l := r.Intn(201)
		if r.Intn(3) > 0 {
			l = r.Intn(30)
		}
		in := recvIn{SM: true, Cut: -1, Inb: []int{0, 0, 1, 7, 65535}[r.Intn(5)], Chunk: []int{0, 1, 64}[r.Intn(3)]}
		in.Items = genItems(r, l, false, false)
		out = append(out, in)
	}
	return out
}

// genC09noID: stream management enabled by an <enabled/> that carries NO id (XEP-0198: the id is optional, it
// serves resumption only; also with resume='false' / 'true' / not a boolean): acknowledgements are in force on
// such a session all the same, every <r/> must be answered with the number of stanzas received. The client
// holds no id afterwards, so the next stream is bound and enabled anew (counting from zero), first again without
// an id, then with one, then resumed: the count reported must be right on every one of them.
func genC09noID(r *rand.Rand, tier string) []sessIn {
	var out []sessIn
	mk := func(wish bool, res string, sess int, t [5]int, tag string) sessIn {
		in := sessIn{Insecure: true, SMEnable: true, SMResume: wish, Tag: tag}
		id := "ni-" + res
		g0, _ := goodConn(in, shape{smOffer: true, sess: sess}, "", "", "", res)
		g1, _ := goodConn(in, shape{smOffer: true}, "", "", "", res)
		g2, _ := goodConn(in, shape{smOffer: true}, "", "", id, "true")
		g3, _ := goodConn(in, shape{smOffer: true}, id, "resumed", "unused", "true")
		in.Conns = []sessConn{{Groups: g0, Traffic: t[0]}, {Groups: g1, Traffic: t[1]}, {Groups: g2, Traffic: t[2]}, {Groups: g3, Traffic: t[3]}, {Groups: g3, Traffic: t[4]}}
		return in
	}
	for _, res := range []string{"", "false", "true", "maybe"} {
		for _, wish := range []bool{true, false} {
			out = append(out, mk(wish, res, 0, [5]int{5, 4, 3, 2, 0}, "c09-noid"))
		}
	}
	// a session with an id first, then (resumption refused) one enabled without id
	for _, res := range []string{"", "false"} {
		in := sessIn{Insecure: true, SMEnable: true, SMResume: true, Tag: "c09-noid"}
		g0, _ := goodConn(in, shape{smOffer: true}, "", "", "wi-1", "true")
		g1, _ := goodConn(in, shape{smOffer: true}, "wi-1", "failed", "", res)
		g2, _ := goodConn(in, shape{smOffer: true}, "", "", "", res)
		in.Conns = []sessConn{{Groups: g0, Traffic: 4}, {Groups: g1, Traffic: 7}, {Groups: g2, Traffic: 1}}
		out = append(out, in)
	}
	n := 12
	if tier == "thorough" {
		n = 300
	}
	for i := 0; i < n; i++ {
		res := []string{"", "false", "true", "maybe", "0", "1"}[r.Intn(6)]
		out = append(out, mk(r.Intn(3) > 0, res, r.Intn(2), [5]int{r.Intn(9), r.Intn(9), r.Intn(7), r.Intn(7), r.Intn(4)}, "c09-noid-rand"))
	}
	return out
}

// c09WireOracle: the property read on the wire alone, for the scenarios in which every connection's script
// completes (goodConn scripts; anything else is left to the session oracle): a connection whose script ends in
// <enabled/> - with or without id, resumption granted or not - starts a stream-managed session with zero stanzas
// received; one whose script ends in <resumed/> continues the session of the connection before; on both, the
// i-th <a h/> must report the number of stanzas the server had sent on the session before the i-th <r/>, and a
// <resume h/> the number sent on the session so far. Nothing of the client's own state is consulted.
func c09WireOracle(in sessIn, obs Sx) (string, string) {
	if obs.K != "l" || len(obs.L) != len(in.Conns) {
		return "", ""
	}
	managed, sent := false, int64(0)
	for ci, co := range obs.L {
		c := in.Conns[ci]
		if co.K != "l" || len(co.L) < 4 || len(co.L[1].L) == 0 {
			return "", ""
		}
		if c.NoDial || co.L[1].L[0].Z != 0 {
			continue // an attempt that failed: nothing was received on it (what is held across it: session oracle)
		}
		last := sItem{}
		for _, g := range c.Groups {
			for _, it := range g {
				if it.T != "wait" {
					last = it
				}
			}
		}
		for _, rq := range co.L[0].L {
			if len(rq.L) > 0 && len(rq.L[0].L) >= 3 && rq.L[0].L[0].Z == 3 && managed && rq.L[0].L[2].Z != sent {
				return fmt.Sprintf("conn %d: <resume h=%d/>, the server had sent %d stanzas on the stream-managed session", ci, rq.L[0].L[2].Z, sent), "wire-resume-h"
			}
		}
		switch last.T {
		case "enabled":
			managed, sent = true, 0
		case "resumed":
			if !managed {
				return "", ""
			}
		default:
			managed, sent = false, 0
			continue
		}
		got := co.L[3].L
		k := 0
		for i := 0; i < c.Traffic; i++ {
			if i%3 != 0 {
				continue
			}
			if k >= len(got) {
				return fmt.Sprintf("conn %d: acknowledgement request %d (after %d stanzas of the session) was not answered", ci, k, sent+int64(i)+1), "wire-answer-missing"
			}
			if got[k].Z != sent+int64(i)+1 {
				return fmt.Sprintf("conn %d: answer %d reports h=%d, the server had sent %d stanzas on the stream-managed session (its <enabled/> carried an id: %v)", ci, k, got[k].Z, sent+int64(i)+1, enabledIDOf(c) != "" || last.T == "resumed"), "wire-answer-h"
			}
			k++
		}
		sent += int64(c.Traffic)
	}
	return "", ""
}
