package main

import (
	"encoding/json"
	"math/rand"
)

// c09Prop: two kinds of cases behind one property: receive-loop histories (recv.go)
// and connection histories with traffic and resumption (session.go).
type c09Case struct {
	Recv *recvIn `json:"recv,omitempty"`
	Sess *sessIn `json:"sess,omitempty"`
}
type c09Prop struct {
	r recvProp
	s sessProp
}

func (p c09Prop) ID() string    { return "C09" }
func (p c09Prop) RunFn() string { return "run_C09" }
func (p c09Prop) Workers() int  { return 24 }
func (p c09Prop) Journal() bool { return true }
func (p c09Prop) Rule() string {
	return p.r.rule + " PLUS connection histories against the scripted server: stream management enabled with resume granted / refused / absent, 0-8 stanzas of traffic with <r/> after every third, then 0-3 resumptions each with more traffic: every <a h/> and every <resume h/> is compared with the number of stanzas the SERVER sent on the session"
}
func (p c09Prop) Gen(r *rand.Rand, tier string) []interface{} {
	var out []interface{}
	for _, x := range p.r.Gen(r, tier) {
		v := x.(recvIn)
		out = append(out, c09Case{Recv: &v})
	}
	for _, x := range genC09sess(r, tier) {
		v := x.(sessIn)
		out = append(out, c09Case{Sess: &v})
	}
	return out
}
func (p c09Prop) Decode(raw json.RawMessage) (interface{}, error) {
	var c c09Case
	if err := json.Unmarshal(raw, &c); err != nil {
		return nil, err
	}
	if c.Recv != nil {
		for i := range c.Recv.Items {
			if c.Recv.Items[i].XML == "" {
				c.Recv.Items[i].render()
			}
		}
	}
	return c, nil
}
func (p c09Prop) Run(in interface{}) Sx {
	c := in.(c09Case)
	if c.Recv != nil {
		return p.r.Run(*c.Recv)
	}
	return p.s.Run(*c.Sess)
}
func (p c09Prop) Input(in interface{}) Sx { return p.InputObs(in, L()) }
func (p c09Prop) InputObs(in interface{}, obs Sx) Sx {
	c := in.(c09Case)
	if c.Recv != nil {
		return L(Z(0), p.r.Input(*c.Recv))
	}
	return L(Z(1), p.s.InputObs(*c.Sess, obs))
}
func (p c09Prop) Oracle(in interface{}, obs Sx) (string, string) {
	c := in.(c09Case)
	if c.Recv != nil {
		return p.r.Oracle(*c.Recv, obs)
	}
	return p.s.Oracle(*c.Sess, obs)
}
func (p c09Prop) Key(in interface{}) (string, bool) {
	c := in.(c09Case)
	if c.Recv != nil {
		return p.r.Key(*c.Recv)
	}
	k, nt := p.s.Key(*c.Sess)
	return "S" + k, nt
}

func init() {
	register(c09Prop{s: sessProp{id: "C09"}, r: recvProp{id: "C09", w: 8, gen: genC09,
		rule: "stream-managed client: histories of up to 200 items over message/presence/iq/<r/>/<a/>/non-stanza elements, starting inbound count 0/1/7/65535 (a resumed session keeps its count), <r/> at random positions and, for one history per run, after every prefix (exhaustive); oracle compares every h with the number of stanzas the script had sent; distinct = item-kind sequence; non-trivial = >= 2 stanzas and >= 1 <r/>"}})
}

func genC09(r *rand.Rand, tier string) []interface{} {
	n := 300
	if tier == "thorough" {
		n = 8000
	}
	var out []interface{}
	mk := func(t string, i int) rItem {
		it := rItem{T: t, ID: i + 1, Kind: r.Intn(3), Var: r.Intn(60), H: r.Intn(4), Tag: r.Intn(6)}
		it.render()
		return it
	}
	// D9 witness shape: an <a/> then an <r/>
	out = append(out, recvIn{SM: true, Cut: -1, Items: []rItem{mk("a", 0), mk("r", 1)}})
	out = append(out, recvIn{SM: true, Cut: -1, Items: []rItem{mk("nonza", 0), mk("stanza", 1), mk("r", 2)}})
	// exhaustive: one base history, an <r/> inserted after every prefix
	base := genItems(r, 25, false, false)
	for k := 0; k <= len(base); k++ {
		items := append(append(append([]rItem{}, base[:k]...), mk("r", 1000+k)), base[k:]...)
		out = append(out, recvIn{SM: true, Cut: -1, Items: items})
	}
	for i := 0; i < n; i++ {
		l := r.Intn(201)
		if r.Intn(3) > 0 {
			l = r.Intn(30)
		}
		in := recvIn{SM: true, Cut: -1, Inb: []int{0, 0, 1, 7, 65535}[r.Intn(5)], Chunk: []int{0, 1, 64}[r.Intn(3)]}
		in.Items = genItems(r, l, false, false)
		out = append(out, in)
	}
	return out
}
