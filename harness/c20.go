package main

import (
	"encoding/json"
	"errors"
	"fmt"
	"math"
	"math/rand"
	"net"
	"net/netip"
	"reflect"
	"strconv"
	"strings"

	xmpp "gosrc.io/xmpp"
)

// C20: ensurePort / NewClientTransport / NewComponentTransport / NewChecker vs Model/Addr.v
type c20In struct {
	Addr  string `json:"addr"`
	Port  int    `json:"port"`            // second argument given to ensurePort (the constructors always use 5222)
	Form  string `json:"form"`            // name | v4 | v6 (bare) | v6b (bracketed) | raw
	Host  string `json:"host,omitempty"`  // structured forms: the host, without brackets
	HasP  bool   `json:"hasp,omitempty"`  // structured forms: an explicit port is part of Addr
	EPort string `json:"eport,omitempty"` // that port
	// structured forms: Addr ends with a ':' that nothing follows ("host:", "[v6]:"): no port was given
	EmptyP bool `json:"emptyp,omitempty"`
}

type c20 struct{}

func init() { register(c20{}) }

func (c20) ID() string    { return "C20" }
func (c20) RunFn() string { return "run_C20" }
func (c20) Workers() int  { return 8 }
func (c20) Rule() string {
	return "structured addresses: DNS names (digit/hyphen labels, single label, trailing dot, xn--), IPv4, IPv6 (8 groups, :: at every position and run length, embedded and mapped IPv4, %zone, mixed case) bare or bracketed, x port absent/present, x ensurePort port argument in {5222,0,negative,large}; for every input also the SRV path of client.go (ensurePort(addr, port) handed to NewClientTransport, i.e. ensurePort applied twice: the second application must change nothing, and a portless form must be dialled at exactly the first port); every structured host also as host: / [v6]: (an empty port is no port: ensurePort, both transports, the SRV path and the checker must complete it like the address without the colon); every port 0..65535 for one host per form (thorough; a sample in quick); all strings of length <= 4 (thorough: <= 5) plus random strings of length <= 8 over {a : [ ] . 1 w s / W S}; ws/wss URLs with the scheme in every letter case, hosts named ws/wss (any case) with ports; reconnections: the transport each constructor returns for host:port (localhost, 127.0.0.1, IPv4-mapped and non-canonical IPv6 literals, ::1 forms where the sandbox has an IPv6 loopback) is connected 2-4 times to a loopback listener, one attempt possibly cut by the server, and the address it is about to dial is read before EVERY Connect: it must name the given host and port each time (Coq C20_redial_keeps_host); addresses with white space at either end, and the property's own exception - a string that is not an IPv6 literal as a whole but an unbracketed IPv6 literal directly followed by :digits - are run (no panic) but compared as a constant (not an address form of the property); distinct = distinct (address, port argument); non-trivial = structured form, or a raw string containing ':' '[' or ']'"
}

const c20Alphabet = "a:[].1ws/WS"

var c20PortArgs = []int{5222, 0, -1, 80, 443, 65535, 65536, -5222, 7, 10, 1 << 40, math.MaxInt64, math.MinInt64}

func c20Label(r *rand.Rand) string {
	const an = "abcdefghijklmnopqrstuvwxyz0123456789"
	switch r.Intn(8) {
	case 0: // digits only
		return strconv.Itoa(r.Intn(1000))
	case 1:
		return "xn--" + string(an[r.Intn(26)]) + strconv.Itoa(r.Intn(100))
	case 2:
		return []string{"ws", "wss", "w", "wsx", "localhost", "a", "WS", "Wss"}[r.Intn(8)]
	}
	n := 1 + r.Intn(8)
	b := make([]byte, n)
	for i := range b {
		if i > 0 && i < n-1 && r.Intn(5) == 0 {
			b[i] = '-'
		} else {
			b[i] = an[r.Intn(len(an))]
		}
	}
	return string(b)
}

func c20Name(r *rand.Rand) string {
	n := 1 + r.Intn(4)
	ls := make([]string, n)
	for i := range ls {
		ls[i] = c20Label(r)
	}
	s := strings.Join(ls, ".")
	if r.Intn(4) == 0 {
		s += "."
	}
	return s
}

func c20V4(r *rand.Rand) string {
	switch r.Intn(10) {
	case 0:
		return "0.0.0.0"
	case 1:
		return "255.255.255.255"
	case 2:
		return "127.0.0.1"
	}
	return fmt.Sprintf("%d.%d.%d.%d", r.Intn(256), r.Intn(256), r.Intn(256), r.Intn(256))
}

func c20Group(r *rand.Rand) string {
	var s string
	switch r.Intn(6) {
	case 0:
		s = "0"
	case 1:
		s = "ffff"
	case 2:
		s = fmt.Sprintf("%04x", r.Intn(65536))
	default:
		s = fmt.Sprintf("%x", r.Intn(65536))
	}
	if r.Intn(4) == 0 {
		s = strings.ToUpper(s)
	}
	return s
}

// c20V6 returns an IPv6 literal; shape (start, run) selects the "::" position and
// the number of groups it stands for (run 0 = no compression); tail4 = dotted quad
// as the last 32 bits.
func c20V6(r *rand.Rand, start, run int, tail4 bool, zone string) string {
	ng := 8
	if tail4 {
		ng = 6
	}
	gs := make([]string, ng)
	for i := range gs {
		gs[i] = c20Group(r)
	}
	var s string
	if run == 0 || start+run > ng {
		s = strings.Join(gs, ":")
		if tail4 {
			s += ":" + c20V4(r)
		}
	} else {
		s = strings.Join(gs[:start], ":") + "::" + strings.Join(gs[start+run:], ":")
		if tail4 {
			if start+run < ng {
				s += ":"
			}
			s += c20V4(r)
		}
	}
	return s + zone
}

func c20RandV6(r *rand.Rand) string {
	zone := ""
	if r.Intn(5) == 0 {
		zone = []string{"%eth0", "%1", "%en0", "%wlan-1"}[r.Intn(4)]
	}
	switch r.Intn(12) {
	case 0:
		return "::1" + zone
	case 1:
		return "::" + zone
	case 2:
		return "::ffff:" + c20V4(r) + zone
	case 3:
		return "fe80::1" + zone
	}
	tail4 := r.Intn(4) == 0
	ng := 8
	if tail4 {
		ng = 6
	}
	if r.Intn(4) == 0 {
		return c20V6(r, 0, 0, tail4, zone)
	}
	start := r.Intn(ng)
	run := 1 + r.Intn(ng-start)
	return c20V6(r, start, run, tail4, zone)
}

func c20EPort(r *rand.Rand) string {
	switch r.Intn(12) {
	case 0:
		return "xmpp-client"
	case 1:
		return "0" + strconv.Itoa(r.Intn(65536))
	case 2:
		return []string{"0", "1", "5222", "5223", "65535", "443", "80"}[r.Intn(7)]
	}
	return strconv.Itoa(r.Intn(65536))
}

// c20Forms appends every address form of one host: port absent (with ensurePort
// port argument parg) and port present.
func c20Forms(out []interface{}, form, host string, parg int, eport string) []interface{} {
	switch form {
	case "name", "v4":
		// a ':' with nothing after it gives no port: the default is due (Props/C20.v C20_empty_port_is_no_port)
		out = append(out, c20In{Addr: host + ":", Port: parg, Form: form, Host: host, EmptyP: true})
		out = append(out, c20In{Addr: host, Port: parg, Form: form, Host: host})
		out = append(out, c20In{Addr: host + ":" + eport, Port: parg, Form: form, Host: host, HasP: true, EPort: eport})
	case "v6":
		out = append(out, c20In{Addr: "[" + host + "]:", Port: parg, Form: "v6b", Host: host, EmptyP: true})
		out = append(out, c20In{Addr: host, Port: parg, Form: "v6", Host: host})
		out = append(out, c20In{Addr: "[" + host + "]", Port: parg, Form: "v6b", Host: host})
		out = append(out, c20In{Addr: "[" + host + "]:" + eport, Port: parg, Form: "v6b", Host: host, HasP: true, EPort: eport})
	}
	return out
}

func (c20) Gen(r *rand.Rand, tier string) []interface{} {
	thorough := tier == "thorough"
	var out []interface{}
	out = append(out, c20RedialGen(thorough)...) // reconnections of one transport object (c20redial.go)
	raw := func(s string, p int) { out = append(out, c20In{Addr: s, Port: p, Form: "raw"}) }

	// fixed corners: scheme prefixes, the ws/wss host names, degenerate brackets
	for _, s := range []string{"", "ws:", "wss:", "ws://example.com/ws", "wss://example.com:5443/ws", "ws://[::1]:80/x",
		"ws:/x", "wss", "ws", "w", "wsx://a", "WS://a", "Wss://a", " ws://a", "http://a", "tcp://a:1", "ws:a:b", "wss:::",
		"ws://a ", "example.com\n", "\t[::1]:5222", " ", "\u00a0ws://a", "ws://a\u2003",
		"ws://", "wss://", "WSS://", "wS://a", "wSs://[::1]:5443/ws", "WS:5222", "ws:5222", "wss:5347", "ws:/", "ws//a", "ws:a", "://a", "xws://a", "w://a", "s://a",
		"w\u017f://a", "w\u017fs://a", "\u212aws://a", "ws\u2236//a", "ws:\u2215/a", "ws://a://b", "a://ws://b", "wss://ws://b",
		"[", "]", "[]", "[]:", "[]:1", "[::1]:", ":", "::", ":::", ":1", "a:", "[a", "[a]b", "[a]b:1", "[a]:b:1", "[a]::1", "a]:1", "a[:1",
		"[[::1]]", "[[::1]]:1", "[::1]]:1", "[::1][:1", "[::1]:1]", "::1:5222", "[::1]:5222:1", "example.com:5222:1",
		"host:port", "host: 1", "h\x00st", "h\x00st:1", "ünï.example", "ünï.example:5222"} {
		raw(s, 5222)
		raw(s, c20PortArgs[r.Intn(len(c20PortArgs))])
	}
	for _, h := range []string{"ws", "wss", "WS", "Wss", "wS", "wsS"} {
		for _, p := range []string{"5222", "80", "0", "5347", "65535"} {
			out = c20Forms(out, "name", h, 5222, p)
		}
	}
	for _, h := range []string{"localhost", "example.com", "example.com.", "a", "1", "123", "1-2", "1.2.3", "a-1.b-2.", "xn--bcher-kva.example", "ws.example.com", "wss.", "w"} {
		for _, pa := range c20PortArgs {
			out = c20Forms(out, "name", h, pa, "5222")
		}
	}
	// IPv6: "::" at every position with every run length, with and without dotted tail / zone
	for _, tail4 := range []bool{false, true} {
		ng := 8
		if tail4 {
			ng = 6
		}
		for _, zone := range []string{"", "%eth0"} {
			out = c20Forms(out, "v6", c20V6(r, 0, 0, tail4, zone), 5222, c20EPort(r))
			for start := 0; start < ng; start++ {
				for run := 1; start+run <= ng; run++ {
					out = c20Forms(out, "v6", c20V6(r, start, run, tail4, zone), c20PortArgs[r.Intn(len(c20PortArgs))], c20EPort(r))
				}
			}
		}
	}
	for _, h := range []string{"::", "::1", "::ffff:1.2.3.4", "::ffff:1.2.3.4%eth0", "::1.2.3.4", "fe80::1%eth0", "FE80::A%1", "1::", "1::%eth0", "2001:db8::1", "64:ff9b::192.0.2.33"} {
		for _, pa := range c20PortArgs {
			out = c20Forms(out, "v6", h, pa, "5222")
		}
	}

	// ws / wss URLs, scheme in a random letter case, over every host form
	nu := 400
	if thorough {
		nu = 8000
	}
	for i := 0; i < nu; i++ {
		sch := []byte([]string{"ws", "wss", "ws", "wss", "w", "wsss", "sw", "http"}[r.Intn(8)])
		for j := range sch {
			if r.Intn(2) == 0 {
				sch[j] -= 32
			}
		}
		var host string
		switch r.Intn(4) {
		case 0:
			host = c20V4(r)
		case 1:
			host = "[" + c20RandV6(r) + "]"
		default:
			host = c20Name(r)
		}
		if r.Intn(2) == 0 {
			host += ":" + c20EPort(r)
		}
		sep := "://"
		if r.Intn(12) == 0 {
			sep = []string{":", ":/", "//", ":///", "::/"}[r.Intn(5)]
		}
		raw(string(sch)+sep+host+[]string{"", "/", "/xmpp-websocket", "/ws/"}[r.Intn(4)], 5222)
	}

	// random structured hosts
	n := 1200
	if thorough {
		n = 30000
	}
	for i := 0; i < n; i++ {
		pa := 5222
		if r.Intn(3) == 0 {
			pa = c20PortArgs[r.Intn(len(c20PortArgs))]
		}
		switch r.Intn(4) {
		case 0:
			out = c20Forms(out, "v4", c20V4(r), pa, c20EPort(r))
		case 1:
			out = c20Forms(out, "name", c20Name(r), pa, c20EPort(r))
		default:
			out = c20Forms(out, "v6", c20RandV6(r), pa, c20EPort(r))
		}
	}

	// every port for one host per form: explicit in the address, and as ensurePort's argument
	ports := []int{0, 1, 9, 10, 99, 100, 999, 1000, 5222, 9999, 10000, 65534, 65535}
	if thorough {
		ports = ports[:0]
		for p := 0; p < 65536; p++ {
			ports = append(ports, p)
		}
	} else {
		for i := 0; i < 300; i++ {
			ports = append(ports, r.Intn(65536))
		}
	}
	for _, p := range ports {
		ps := strconv.Itoa(p)
		out = append(out,
			c20In{Addr: "example.com:" + ps, Port: 5222, Form: "name", Host: "example.com", HasP: true, EPort: ps},
			c20In{Addr: "192.0.2.7:" + ps, Port: 5222, Form: "v4", Host: "192.0.2.7", HasP: true, EPort: ps},
			c20In{Addr: "[2001:db8::1]:" + ps, Port: 5222, Form: "v6b", Host: "2001:db8::1", HasP: true, EPort: ps},
			c20In{Addr: "example.com", Port: p, Form: "name", Host: "example.com"},
			c20In{Addr: "[2001:db8::1]", Port: p, Form: "v6b", Host: "2001:db8::1"},
			c20In{Addr: "2001:db8::1", Port: p, Form: "v6", Host: "2001:db8::1"},
			c20In{Addr: "example.com", Port: -p, Form: "name", Host: "example.com"})
	}

	// malformed stream: all short strings over the alphabet, then random longer ones
	maxAll := 4
	if thorough {
		maxAll = 5
	}
	var rec func(prefix string, left int)
	rec = func(prefix string, left int) {
		raw(prefix, 5222)
		if left == 0 {
			return
		}
		for i := 0; i < len(c20Alphabet); i++ {
			rec(prefix+string(c20Alphabet[i]), left-1)
		}
	}
	rec("", maxAll)
	m := 4000
	if thorough {
		m = 100000
	}
	for i := 0; i < m; i++ {
		l := r.Intn(9)
		b := make([]byte, l)
		for j := range b {
			b[j] = c20Alphabet[r.Intn(len(c20Alphabet))]
		}
		pa := 5222
		if r.Intn(4) == 0 {
			pa = c20PortArgs[r.Intn(len(c20PortArgs))]
		}
		raw(string(b), pa)
	}
	return out
}

func (c20) Decode(rawm json.RawMessage) (interface{}, error) {
	var rd c20Redial
	if err := json.Unmarshal(rawm, &rd); err == nil && rd.N > 0 {
		return &rd, nil
	}
	var in c20In
	err := json.Unmarshal(rawm, &in)
	return in, err
}

// c20Split: net.SplitHostPort as (0 host port) or (error code), codes as in Corr/RunC20.v
func c20Split(s string) Sx {
	h, p, err := net.SplitHostPort(s)
	if err == nil {
		return L(Z(0), SBytes(h), SBytes(p))
	}
	var ae *net.AddrError
	if errors.As(err, &ae) {
		switch ae.Err {
		case "missing port in address":
			return L(Z(1))
		case "too many colons in address":
			return L(Z(2))
		case "missing ']' in address":
			return L(Z(3))
		case "unexpected '[' in address":
			return L(Z(4))
		case "unexpected ']' in address":
			return L(Z(5))
		}
	}
	return L(Z(99), SBytes(err.Error()))
}

func c20Transport(t xmpp.Transport, err error) Sx {
	if err != nil {
		if t == nil && errors.Is(err, xmpp.ErrTransportProtocolNotSupported) {
			return L(Z(2))
		}
		return L(Z(3), SBytes(err.Error()))
	}
	switch x := t.(type) {
	case *xmpp.XMPPTransport:
		return L(Z(0), SBytes(x.Config.Address), c20Split(x.Config.Address))
	case *xmpp.WebsocketTransport:
		return L(Z(1), SBytes(x.Config.Address))
	}
	return L(Z(9), SBytes(fmt.Sprintf("%T", t)))
}

// c20Checker: NewChecker(addr, "") as (1) for an error or (0 address domain split-of-address);
// the two fields are unexported strings, read through reflection.
func c20Checker(addr string) Sx {
	sc, err := xmpp.NewChecker(addr, "")
	if err != nil {
		return L(Z(1))
	}
	v := reflect.ValueOf(sc).Elem()
	a, d := v.FieldByName("address").String(), v.FieldByName("domain").String()
	return L(Z(0), SBytes(a), SBytes(d), c20Split(a))
}

func (c20) Run(inp interface{}) Sx {
	if rd, ok := inp.(*c20Redial); ok {
		return rd.run()
	}
	in := inp.(c20In)
	ep := xmpp.VerifEnsurePort(in.Addr, in.Port)
	ct := xmpp.NewClientTransport(xmpp.TransportConfiguration{Address: in.Addr})
	pt, err := xmpp.NewComponentTransport(xmpp.TransportConfiguration{Address: in.Addr})
	// the SRV path of client.go: the address completed with the SRV port is handed to the constructor,
	// which applies ensurePort (with 5222) a second time
	ep2 := xmpp.VerifEnsurePort(ep, 5222)
	st := xmpp.NewClientTransport(xmpp.TransportConfiguration{Address: ep})
	full := L(SBytes(ep), c20Split(ep), c20Split(in.Addr), c20Transport(ct, nil), c20Transport(pt, err), c20Checker(in.Addr),
		SBytes(ep2), c20Transport(st, nil))
	if c20Excluded(in.Addr) {
		// exercised (no panic), but nothing is asserted about it: constant on both sides
		return L(Z(-1))
	}
	return full
}

func (c20) Input(inp interface{}) Sx {
	if rd, ok := inp.(*c20Redial); ok {
		return rd.input()
	}
	in := inp.(c20In)
	return L(SBytes(in.Addr), Zi(in.Port), B(c20Excluded(in.Addr)))
}

// c20Excluded: white space (unicode.IsSpace) at either end of the address. Such a string is
// none of the address forms the property quantifies over (host name, IPv4, bracketed or bare
// IPv6, with or without a port; URLs), so whether the library trims it or not is not decided
// by the property.
//
// The second excluded class is the property's own exception: "a bare IPv6 literal directly
// followed by ':port', which is inherently ambiguous" (c20BareV6Port).
func c20Excluded(addr string) bool { return strings.TrimSpace(addr) != addr || c20BareV6Port(addr) }

// c20BareV6Port: no brackets, NOT an IPv6 literal as a whole, but what precedes the last ':' is
// one (zone allowed) and what follows is a decimal number. Whether such a string is read as
// literal + port or wrapped whole into brackets is not decided by the property; a string that
// is an IPv6 literal as it stands ("::1:5222" included) is a bare literal without port and stays
// inside every statement.
func c20BareV6Port(addr string) bool {
	if strings.ContainsAny(addr, "[]") {
		return false
	}
	i := strings.LastIndexByte(addr, ':')
	if i < 0 || i+1 == len(addr) {
		return false
	}
	for _, c := range addr[i+1:] {
		if c < '0' || c > '9' {
			return false
		}
	}
	if a, err := netip.ParseAddr(addr); err == nil && a.Is6() {
		return false
	}
	a, err := netip.ParseAddr(addr[:i])
	return err == nil && a.Is6()
}

// Direct oracle (no model): the property's own predicate on what was observed.
func (c20) Oracle(inp interface{}, obs Sx) (string, string) {
	if rd, ok := inp.(*c20Redial); ok {
		return rd.oracle(obs)
	}
	in := inp.(c20In)
	if c20Excluded(in.Addr) {
		return "", ""
	}
	if len(obs.L) != 8 {
		return "observation shape", "shape"
	}
	// a second ensurePort never changes the result of a first one (any string, any port numbers);
	// reported after the clauses that name an address form
	twiceMsg, twiceSig := "", ""
	if e1, e2 := string(bytesOf(obs.L[0])), string(bytesOf(obs.L[6])); e1 != e2 {
		twiceMsg, twiceSig = fmt.Sprintf("ensurePort(%q, %d) = %q, and ensurePort of that with 5222 = %q: the second application changed it", in.Addr, in.Port, e1, e2), "ensure-twice"
	}
	client, comp := obs.L[3], obs.L[4]
	kind := func(t Sx) int64 {
		if len(t.L) == 0 {
			return -1
		}
		return t.L[0].Z
	}
	scheme := c20WsURL(in.Addr)
	shape := ""
	if in.Form != "raw" {
		shape = "-" + in.Form + "-noport"
		if in.HasP {
			shape = "-" + in.Form + "-port"
		}
		if in.EmptyP {
			shape = "-" + in.Form + "-emptyport"
		}
	}
	if scheme {
		if kind(client) != 1 || string(bytesOf(client.L[1])) != in.Addr {
			return fmt.Sprintf("%q is a URL with the ws/wss scheme: NewClientTransport must give the WebSocket transport with the address untouched (got kind %d)", in.Addr, kind(client)), "scheme-client"
		}
		if kind(comp) != 2 {
			return fmt.Sprintf("%q is a URL with the ws/wss scheme: NewComponentTransport must refuse it with ErrTransportProtocolNotSupported (got kind %d)", in.Addr, kind(comp)), "scheme-component"
		}
	} else {
		if kind(client) != 0 {
			return fmt.Sprintf("%q is not a ws:// or wss:// URL: NewClientTransport must return the XMPP (TCP) transport (got kind %d)", in.Addr, kind(client)), "noscheme-client" + shape
		}
		if kind(comp) != 0 {
			return fmt.Sprintf("%q is not a ws:// or wss:// URL: NewComponentTransport must return the XMPP (TCP) transport (got kind %d)", in.Addr, kind(comp)), "noscheme-component" + shape
		}
	}
	if in.Form == "raw" {
		return twiceMsg, twiceSig
	}
	// generator sanity: IP forms are IP literals, numeric explicit ports are port numbers
	if in.Form != "name" {
		if _, err := netip.ParseAddr(in.Host); err != nil {
			return fmt.Sprintf("generator produced %q as an IP literal: %v", in.Host, err), "gen-invalid-literal"
		}
	}
	shape = shape[1:]
	// "a valid host:port that keeps the given host and explicit port and adds the
	// default port only when none was given"
	valid := func(what string, sp Sx, wantPort string, sig string) (string, string) {
		if len(sp.L) != 3 || sp.L[0].Z != 0 {
			return fmt.Sprintf("%s for %q is not a valid host:port (net.SplitHostPort fails, code %d)", what, in.Addr, kind(sp)), sig + "-undialable-" + shape
		}
		h, p := string(bytesOf(sp.L[1])), string(bytesOf(sp.L[2]))
		if h != in.Host {
			return fmt.Sprintf("%s for %q names host %q, expected %q", what, in.Addr, h, in.Host), sig + "-host-" + shape
		}
		if p != wantPort {
			return fmt.Sprintf("%s for %q names port %q, expected %q", what, in.Addr, p, wantPort), sig + "-port-" + shape
		}
		if in.Form != "name" {
			if _, err := netip.ParseAddr(h); err != nil {
				return fmt.Sprintf("%s for %q: host %q is not an IP literal any more", what, in.Addr, h), sig + "-literal-" + shape
			}
		}
		return "", ""
	}
	want := strconv.Itoa(in.Port)
	if in.HasP {
		want = in.EPort
	}
	if m, s := valid("ensurePort result", obs.L[1], want, "ensure"); m != "" {
		return m, s
	}
	if !scheme {
		want = "5222"
		if in.HasP {
			want = in.EPort
		}
		if m, s := valid("client dial address", client.L[2], want, "client"); m != "" {
			return m, s
		}
		if m, s := valid("component dial address", comp.L[2], want, "component"); m != "" {
			return m, s
		}
	}
	// SRV path: completed with port in.Port first, the constructor must dial exactly that host and port
	if srv := obs.L[7]; !scheme {
		if kind(srv) != 0 {
			return fmt.Sprintf("NewClientTransport(ensurePort(%q, %d)) is not the XMPP (TCP) transport (kind %d)", in.Addr, in.Port, kind(srv)), "srv-kind-" + shape
		}
		want = strconv.Itoa(in.Port)
		if in.HasP {
			want = in.EPort
		}
		if m, s := valid(fmt.Sprintf("dial address after ensurePort(.., %d) (SRV path)", in.Port), srv.L[2], want, "srv"); m != "" {
			return m, s
		}
	}
	// the certificate checker takes the same address forms
	chk := obs.L[5]
	want = "5222"
	if in.HasP {
		want = in.EPort
	}
	if kind(chk) != 0 || len(chk.L) != 4 {
		return fmt.Sprintf("NewChecker(%q) refuses the address", in.Addr), "checker-refuses-" + shape
	}
	if m, s := valid("checker dial address", chk.L[3], want, "checker"); m != "" {
		return m, s
	}
	if d := string(bytesOf(chk.L[2])); d != in.Host {
		return fmt.Sprintf("NewChecker(%q) takes %q for the host, expected %q", in.Addr, d, in.Host), "checker-domain-" + shape
	}
	return twiceMsg, twiceSig
}

// c20WsURL: is a a URL whose scheme (the part before the first "://"), compared without
// regard to ASCII letter case (RFC 3986 3.1), is ws or wss.
func c20WsURL(a string) bool {
	i := strings.Index(a, "://")
	if i < 0 {
		return false
	}
	b := []byte(a[:i])
	for j, c := range b {
		if 'A' <= c && c <= 'Z' {
			b[j] = c + 'a' - 'A'
		}
	}
	return string(b) == "ws" || string(b) == "wss"
}

func (c20) Key(inp interface{}) (string, bool) {
	if rd, ok := inp.(*c20Redial); ok {
		return rd.key()
	}
	in := inp.(c20In)
	if c20Excluded(in.Addr) {
		if c20BareV6Port(in.Addr) {
			hist("excluded:bare-v6-then-port")
		} else {
			hist("excluded:outer-white-space")
		}
		return in.Addr + "|" + strconv.Itoa(in.Port), false
	}
	cls := in.Form
	if in.Form != "raw" {
		if in.HasP {
			cls += "/port"
		} else if in.EmptyP {
			cls += "/emptyport"
		} else {
			cls += "/noport"
		}
		if strings.Contains(in.Host, "%") {
			hist("zone")
		}
		if strings.HasSuffix(in.Host, ".") {
			hist("trailing-dot")
		}
		if strings.Contains(in.Host, "::") {
			hist("v6-compressed")
		}
		if in.Form != "v4" && strings.Contains(in.Host, ".") && strings.Contains(in.Host, ":") {
			hist("v6-dotted-tail")
		}
	}
	hist("form:" + cls)
	if c20WsURL(in.Addr) {
		hist("ws-url")
		if !strings.HasPrefix(in.Addr, "ws") {
			hist("ws-url-upper-case")
		}
	}
	if in.Form == "name" && in.HasP && (strings.EqualFold(in.Host, "ws") || strings.EqualFold(in.Host, "wss")) {
		hist("host-named-ws-with-port")
	}
	switch {
	case in.Port == 5222:
		hist("portarg:5222")
	case in.Port < 0:
		hist("portarg:negative")
	case in.Port <= 65535:
		hist("portarg:0..65535")
	default:
		hist("portarg:large")
	}
	nt := in.Form != "raw" || strings.ContainsAny(in.Addr, ":[]")
	return in.Addr + "|" + strconv.Itoa(in.Port), nt
}
