package main

// C03 over the WebSocket transport (RFC 7395): the same scripted, reactive server as srv.go, speaking websocket
// frames, on a plain (ws://) or a TLS (wss://) HTTP endpoint. The WebSocket transport is secure from the start or
// not at all and never does STARTTLS: the negotiation is stream open, <auth/>, restart, resume | bind ... with no
// restart before authentication. Observation and model input have the shape of session.go (no traffic phase).

import (
	"context"
	"crypto/tls"
	"fmt"
	"math/rand"
	"net"
	"net/http"
	"strings"
	"sync"
	"time"

	xmpp "gosrc.io/xmpp"
	"nhooyr.io/websocket"
)

const nsStreamDecl = " xmlns:stream='http://etherx.jabber.org/streams'"

// wsXML: a script item as a websocket frame (every frame is a complete element carrying its own namespaces)
func (it sItem) wsXML() string {
	switch it.T {
	case "header":
		if it.Open == "other" {
			o := it
			o.Open = ""
			return o.xml() // the <stream:stream> of the TCP binding
		}
		return fmt.Sprintf("<open xmlns='urn:ietf:params:xml:ns:xmpp-framing' from='%s' id='%s' version='1.0'/>", srvDomain, attrEsc(it.ID))
	case "close":
		return "<close xmlns='urn:ietf:params:xml:ns:xmpp-framing'/>"
	case "features":
		return strings.Replace(it.xml(), "<stream:features>", "<stream:features"+nsStreamDecl+">", 1)
	case "serr":
		return strings.Replace(it.xml(), "<stream:error>", "<stream:error"+nsStreamDecl+">", 1)
	case "iq":
		if it.NS == "" {
			return strings.Replace(it.xml(), "<iq ", "<iq xmlns='jabber:client' ", 1)
		}
	case "message":
		return strings.Replace(it.xml(), "<message ", "<message xmlns='jabber:client' ", 1)
	case "presence":
		return strings.Replace(it.xml(), "<presence ", "<presence xmlns='jabber:client' ", 1)
	}
	return it.xml()
}

// wsReq: a client frame as an abstract request (the alphabet of reqSx), or false for the closing <close/>
func wsReq(frame []byte) (Sx, bool) {
	ns, err := parseCanon(frame)
	if err != nil || len(ns) != 1 {
		return L(Z(50), SBytes(string(frame))), true
	}
	n := ns[0]
	attr := func(name string) string {
		for _, a := range n.Attrs {
			if a.Name.Local == name && a.Name.Space == "" {
				return a.Value
			}
		}
		return ""
	}
	switch n.Name.Space + " " + n.Name.Local {
	case "urn:ietf:params:xml:ns:xmpp-framing open":
		return L(Z(0)), true
	case "urn:ietf:params:xml:ns:xmpp-framing close":
		return Sx{}, false
	case "urn:ietf:params:xml:ns:xmpp-tls starttls":
		return L(Z(1)), true
	case "urn:ietf:params:xml:ns:xmpp-sasl auth":
		return L(Z(2), SBytes(attr("mechanism"))), true
	}
	return c11Req(string(frame)), true
}

func runSessionWS(in sessIn) Sx {
	wssInit()
	jid := in.user() + "@" + srvDomain
	if in.Resource != "" {
		jid += "/" + in.Resource
	}
	// one endpoint for the whole history; connection k is served with script k
	ln, err := listenLoopback()
	if err != nil {
		return L(SBytes("listen-failed"))
	}
	defer ln.Close()
	ctx, cancel := context.WithTimeout(context.Background(), 60*time.Second)
	defer cancel()
	var mu sync.Mutex
	accepted := 0
	reqLog := make([][]Sx, len(in.Conns))
	secureLog := make([]bool, len(in.Conns))
	handler := http.HandlerFunc(func(w http.ResponseWriter, r *http.Request) {
		c, err := websocket.Accept(w, r, &websocket.AcceptOptions{Subprotocols: []string{"xmpp"}})
		if err != nil {
			return
		}
		defer c.Close(websocket.StatusNormalClosure, "")
		mu.Lock()
		k := accepted
		accepted++
		mu.Unlock()
		if k >= len(in.Conns) {
			return
		}
		mu.Lock()
		secureLog[k] = r.TLS != nil
		mu.Unlock()
		groups := in.Conns[k].Groups
		sent := 0
		pendingIQ, bindIQ := "", ""
		for {
			rctx, rcancel := context.WithTimeout(ctx, 8*time.Second)
			_, b, err := c.Read(rctx)
			rcancel()
			if err != nil {
				return
			}
			rq, ok := wsReq(b)
			if !ok {
				return // the client's <close/>
			}
			mu.Lock()
			reqLog[k] = append(reqLog[k], rq)
			mu.Unlock()
			pendingIQ = ""
			if len(rq.L) > 0 && (rq.L[0].Z == 4 || rq.L[0].Z == 5) { // bind / session request
				if m := reIQID.FindSubmatch(b); m != nil {
					pendingIQ = string(m[1])
					if rq.L[0].Z == 4 {
						bindIQ = pendingIQ
					}
				}
			}
			if sent >= len(groups) {
				return // nothing left to answer with: the peer goes away
			}
			for _, it := range groups[sent] {
				if it.T == "wait" {
					continue
				}
				if it.T == "eof" {
					return
				}
				if it.T == "iq" {
					switch {
					case !it.KeepID && pendingIQ != "":
						it.ID = pendingIQ
					case it.KeepID && it.ID == "@bind":
						it.ID = bindIQ
						if pendingIQ == bindIQ {
							it.ID = "zz-" + bindIQ // (in answer to the bind request itself the bind id would be the right one)
						}
					}
				}
				if c.Write(ctx, websocket.MessageText, []byte(it.wsXML())) != nil {
					return
				}
			}
			sent++
		}
	})
	srv := &http.Server{Handler: handler, ErrorLog: quietLog}
	addr := "ws://" + ln.Addr().String() + "/xmpp-websocket"
	if in.WS == "wss" {
		host, _, _ := net.SplitHostPort(ln.Addr().String())
		srv.TLSConfig = &tls.Config{Certificates: []tls.Certificate{wssLeaf(net.ParseIP(host))}, NextProtos: []string{"http/1.1"}}
		srv.TLSNextProto = map[string]func(*http.Server, *tls.Conn, http.Handler){}
		addr = "wss://" + ln.Addr().String() + "/xmpp-websocket"
		go srv.ServeTLS(ln, "", "")
	} else {
		go srv.Serve(ln)
	}
	defer srv.Close()

	cfg := &xmpp.Config{
		TransportConfiguration: xmpp.TransportConfiguration{Address: addr, Domain: srvDomain, ConnectTimeout: 5},
		Jid:                    jid, Credential: xmpp.Password(in.secret()), Insecure: in.Insecure,
		StreamManagementEnable: in.SMEnable, ConnectTimeout: 5,
	}
	if in.OAuth {
		cfg.Credential = xmpp.OAuthToken(in.secret())
	}
	cfg.VerifSetSMResume(in.SMResume)
	client, err := xmpp.NewClient(cfg, xmpp.NewRouter(), func(error) {})
	if err != nil {
		return L(SBytes("newclient-failed: " + err.Error()))
	}
	estab := 0
	client.SetHandler(func(e xmpp.Event) error {
		if xmpp.VerifEventState(e) == xmpp.StateSessionEstablished {
			mu.Lock()
			estab++
			mu.Unlock()
		}
		return nil
	})
	var conns []Sx
	for k := range in.Conns {
		mu.Lock()
		estab = 0
		mu.Unlock()
		done := make(chan error, 1)
		go func() { done <- xmpp.VerifClientConnect(client) }()
		var cerr error
		select {
		case cerr = <-done:
		case <-time.After(30 * time.Second):
			return L(SBytes("connect-hung"), Zi(k))
		}
		mu.Lock()
		estabRet := estab
		mu.Unlock()
		if cerr == nil {
			client.Disconnect()
		}
		time.Sleep(2 * time.Millisecond)
		mu.Lock()
		var reqs []Sx
		for _, rq := range reqLog[k] {
			reqs = append(reqs, L(rq, B(secureLog[k]), Zi(-1)))
		}
		estabEnd := estab
		mu.Unlock()
		conns = append(conns, L(LS(reqs), errSx(cerr), snapSx(snapClient(client)), LS([]Sx{}), L(Zi(estabRet), Zi(estabEnd))))
	}
	return LS(conns)
}

// genC03ws: the WebSocket family: both schemes x Insecure x feature shapes, good scripts; the per-step alphabet on a
// sample of steps; a failed attempt followed by a good one on the same Client; resumable state over wss.
func genC03ws(r *rand.Rand, tier string) []interface{} {
	var out []interface{}
	rounds := 1
	if tier == "thorough" {
		rounds = 6
	}
	for round := 0; round < rounds; round++ {
		for _, ws := range []string{"ws", "wss"} {
			for _, insecure := range []bool{false, true} {
				in0 := randClient(r)
				in0.WS, in0.Insecure = ws, insecure
				sh := shape{sess: r.Intn(3), smOffer: r.Intn(2) == 0}
				if round%2 == 1 {
					sh.tlsOffer = 1 + r.Intn(2) // a features element that advertises STARTTLS all the same: not the transport's business
				}
				good, labels := wsGoodConn(in0, sh, "", "", fmt.Sprintf("ws-%d", r.Intn(1000)), "true")
				in := in0
				in.Tag = "ws:good"
				in.Conns = []sessConn{{Groups: good}}
				out = append(out, in)
				// deviations: every step, a few reply kinds each (all of them in the thorough tier)
				alpha := replyAlphabet("")
				for gi := range good {
					for idx := range good[gi] {
						for _, rep := range alpha {
							if tier != "thorough" && r.Intn(8) != 0 {
								continue
							}
							d := in0
							d.Tag = "ws:step:" + labels[gi]
							if r.Intn(2) == 0 {
								d.Conns = []sessConn{{Groups: mutate(good, gi, idx, rep)}}
							} else {
								d.Conns = []sessConn{{Groups: mutateKeep(good, gi, idx, rep)}}
							}
							out = append(out, d)
						}
					}
				}
				// a failed attempt, then a good one on the same Client
				h := in0
				h.Tag = "ws:after-failure"
				gi := r.Intn(len(good))
				h.Conns = []sessConn{{Groups: mutate(good, gi, 0, sItem{T: "eof"})}, {Groups: good}}
				out = append(out, h)
			}
		}
		// stream management over wss: enable, confirmed resumption, refused resumption
		in := sessIn{WS: "wss", SMEnable: true, SMResume: true, Tag: "ws:resume"}
		g1, _ := wsGoodConn(in, shape{smOffer: true}, "", "", "wsid-1", "true")
		g2, _ := wsGoodConn(in, shape{smOffer: true}, "wsid-1", "resumed", "unused", "true")
		g3, _ := wsGoodConn(in, shape{smOffer: true, sess: 1}, "wsid-1", "failed", "wsid-2", "true")
		in.Conns = []sessConn{{Groups: g1}, {Groups: g2}, {Groups: g3}}
		out = append(out, in)
	}
	return out
}

// wsGoodConn: the script that completes every step over a websocket: as goodConn without the STARTTLS exchange
// (the features may still advertise it).
func wsGoodConn(in sessIn, sh shape, heldID, resumeReply, newID, enabledRes string) ([][]sItem, []string) {
	offer := sh.tlsOffer
	sh.tlsOffer = 0
	g, labels := goodConn(in, sh, heldID, resumeReply, newID, enabledRes)
	if offer != 0 {
		g[0] = append([]sItem{}, g[0]...)
		f := g[0][1]
		f.TLS = offer
		g[0][1] = f
	}
	return g, labels
}
