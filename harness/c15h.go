package main

import (
	"encoding/hex"
	"encoding/json"
	"fmt"
	"math/rand"
	"strings"
	"sync"
	"unicode/utf8"

	"gosrc.io/xmpp/stanza"
)

// C15, histories: several NewJid calls in ONE process, with the callers assigning to the
// exported fields of the *Jid values they were handed, and with goroutines parsing
// concurrently.  Model/Jid.v run_hist; Props/C15.v C15_history_independent: every call
// shows what it would show in a fresh process - the result of a parse depends on its
// argument only.  That is the oracle here as well: every parse of a history is judged by
// the clauses of the property on ITS string alone (c15RefParse), and two parses of the
// same string within a history must show the same thing.
//
// What is observed: the result of each NewJid call at the moment it returns (parts, Full(),
// Bare()).  A Jid is never looked at again after its holder assigned to it (that it then
// differs is the caller's doing).
//
// Every history uses strings of its own (a label "h<n>." in front of each domain), so
// that also with process-level state in the library the cases of a run do not influence
// each other and every replay reproduces alone.

// c15S: a Go string in JSON; {"x": hex} where it is not valid UTF-8.
type c15S string

func (s c15S) MarshalJSON() ([]byte, error) {
	if utf8.ValidString(string(s)) {
		return json.Marshal(string(s))
	}
	return json.Marshal(map[string]string{"x": hex.EncodeToString([]byte(s))})
}

func (s *c15S) UnmarshalJSON(b []byte) error {
	var str string
	if json.Unmarshal(b, &str) == nil {
		*s = c15S(str)
		return nil
	}
	var m struct {
		X string `json:"x"`
	}
	if err := json.Unmarshal(b, &m); err != nil {
		return err
	}
	raw, err := hex.DecodeString(m.X)
	if err != nil {
		return err
	}
	*s = c15S(raw)
	return nil
}

type c15Step struct {
	Op string `json:"op"`          // parse | set | par
	S  c15S   `json:"s,omitempty"` // parse: the string handed to NewJid
	K  int    `json:"k,omitempty"` // set: the step whose result the caller assigns to
	F  string `json:"f,omitempty"` // set: node | domain | resource
	V  c15S   `json:"v,omitempty"` // set: the value assigned
	Ss []c15S `json:"ss,omitempty"`
	N  int    `json:"n,omitempty"` // par: goroutine i parses Ss[i] N times
}

var c15Fields = []string{"node", "domain", "resource"}

func c15FieldNo(f string) int {
	for i, g := range c15Fields {
		if f == g {
			return i
		}
	}
	return -1
}

func c15CheckHist(h []c15Step) error {
	for i, st := range h {
		switch st.Op {
		case "parse":
		case "set":
			if st.K < 0 || st.K >= i || c15FieldNo(st.F) < 0 {
				return fmt.Errorf("step %d: set needs an earlier step k and a field node|domain|resource", i)
			}
		case "par":
			if st.N < 0 || st.N > 64 || len(st.Ss) > 64 {
				return fmt.Errorf("step %d: par out of range", i)
			}
		default:
			return fmt.Errorf("step %d: unknown op %q", i, st.Op)
		}
	}
	return nil
}

// ---- running ----
func c15One(s string, j *stanza.Jid, err error) Sx {
	if c15SlashBeforeAt(s) {
		if err == nil && j != nil {
			_, _ = j.Full(), j.Bare()
		}
		return L(Z(2)) // outside the property
	}
	if err != nil {
		return L(Z(0))
	}
	if j == nil {
		return L(Z(97))
	}
	return L(Z(1), c15Units(j.Node), c15Units(j.Domain), c15Units(j.Resource), c15Units(j.Full()), c15Units(j.Bare()))
}

func c15Set(j *stanza.Jid, f, v string) {
	switch f {
	case "node":
		j.Node = v
	case "domain":
		j.Domain = v
	case "resource":
		j.Resource = v
	}
}

func c15RunHist(h []c15Step) Sx {
	held := make([]*stanza.Jid, len(h)) // what the caller of step i holds
	out := []Sx{Z(3)}
	for i, st := range h {
		switch st.Op {
		case "parse":
			j, err := stanza.NewJid(string(st.S))
			out = append(out, c15One(string(st.S), j, err))
			if err == nil {
				held[i] = j
			}
		case "set":
			if st.K >= 0 && st.K < i && held[st.K] != nil {
				c15Set(held[st.K], st.F, string(st.V))
			}
			out = append(out, L(Z(3)))
		case "par":
			res := make([]Sx, len(st.Ss))
			start := make(chan struct{})
			var wg sync.WaitGroup
			for g := range st.Ss {
				wg.Add(1)
				go func(g int) {
					defer wg.Done()
					defer func() {
						if e := recover(); e != nil {
							res[g] = L(Z(98))
						}
					}()
					s := string(st.Ss[g])
					rounds := make([]Sx, 0, st.N)
					<-start
					for n := 0; n < st.N; n++ {
						j, err := stanza.NewJid(s)
						rounds = append(rounds, c15One(s, j, err))
						if err == nil && j != nil { // the goroutine's own value: it may do with it what it likes
							j.Resource = fmt.Sprintf("g%d.%d", g, n)
							if n%2 == 1 {
								j.Node, j.Domain = "", fmt.Sprintf("elsewhere%d.example", g)
							}
						}
					}
					res[g] = LS(rounds)
				}(g)
			}
			close(start)
			wg.Wait()
			out = append(out, L(append([]Sx{Z(4)}, res...)...))
		}
	}
	return LS(out)
}

func c15HistInput(h []c15Step) Sx {
	out := make([]Sx, 0, len(h))
	for _, st := range h {
		switch st.Op {
		case "parse":
			out = append(out, L(Z(0), c15Units(string(st.S))))
		case "set":
			out = append(out, L(Z(1), Zi(st.K), Zi(c15FieldNo(st.F)), c15Units(string(st.V))))
		case "par":
			xs := []Sx{Z(2), Zi(st.N)}
			for _, s := range st.Ss {
				xs = append(xs, c15Units(string(s)))
			}
			out = append(out, L(xs...))
		}
	}
	return LS(out)
}

// ---- direct oracle ----
// c15CallOracle: the clauses of the property on one call, from the string alone.
func c15CallOracle(s string, o Sx) (string, string) {
	if c15SlashBeforeAt(s) {
		return "", ""
	}
	if len(o.L) == 0 || (o.L[0].Z != 0 && o.L[0].Z != 1) || (o.L[0].Z == 1 && len(o.L) != 6) || (o.L[0].Z == 0 && len(o.L) != 1) {
		return fmt.Sprintf("NewJid(%q): unexpected observation %s", s, o.String()), "shape"
	}
	ok := o.L[0].Z == 1
	var n, d, res string
	if ok {
		n, d, res = sxStr(o.L[1]), sxStr(o.L[2]), sxStr(o.L[3])
	}
	ref := c15RefParse(s)
	if ref.asserted {
		switch {
		case ref.accept && !ok:
			return fmt.Sprintf("NewJid(%q) rejects [local@]domain[/resource] = {%q %q %q}", s, ref.l, ref.d, ref.r), "parts-rejected"
		case ref.accept && (n != ref.l || d != ref.d || res != ref.r):
			return fmt.Sprintf("NewJid(%q) = {%q %q %q}, the parts are {%q %q %q}", s, n, d, res, ref.l, ref.d, ref.r), "parts-wrong"
		case !ref.accept && ok:
			return fmt.Sprintf("NewJid(%q) accepts a malformed address (%s): {%q %q %q}", s, ref.why, n, d, res), "accepts-malformed"
		}
	}
	if ok {
		full, bare := sxStr(o.L[4]), sxStr(o.L[5])
		if full != s && !(res == "" && full+"/" == s) {
			return fmt.Sprintf("NewJid(%q) = {%q %q %q} but Full() = %q is not the input", s, n, d, res, full), "full-not-input"
		}
		wantBare := d
		if n != "" {
			wantBare = n + "@" + d
		}
		if bare != wantBare {
			return fmt.Sprintf("NewJid(%q) = {%q %q %q} but Bare() = %q", s, n, d, res, bare), "bare-wrong"
		}
	}
	return "", ""
}

func c15HistOracle(h []c15Step, obs Sx) (string, string) {
	if len(obs.L) != len(h)+1 || obs.L[0].Z != 3 {
		return "unexpected observation shape of a history", "history:shape"
	}
	first := map[string]string{} // string -> what its first parse in this history showed
	firstAt := map[string]int{}
	check := func(i int, s string, o Sx, where string) (string, string) {
		pre := fmt.Sprintf("history step %d%s, after %s: ", i, where, c15HistShow(h[:i]))
		if msg, sig := c15CallOracle(s, o); msg != "" {
			return pre + msg, "history:" + sig
		}
		if c15SlashBeforeAt(s) {
			return "", ""
		}
		if prev, seen := first[s]; !seen {
			first[s], firstAt[s] = o.String(), i
		} else if prev != o.String() {
			return pre + fmt.Sprintf("NewJid(%q) shows %s, at step %d the same string showed %s", s, o.String(), firstAt[s], prev), "history:same-string-different-result"
		}
		return "", ""
	}
	for i, st := range h {
		o := obs.L[i+1]
		switch st.Op {
		case "parse":
			if msg, sig := check(i, string(st.S), o, ""); msg != "" {
				return msg, sig
			}
		case "set":
			if len(o.L) != 1 || o.L[0].Z != 3 {
				return "unexpected observation shape of a history", "history:shape"
			}
		case "par":
			if len(o.L) != len(st.Ss)+1 || o.L[0].Z != 4 {
				return "unexpected observation shape of a history", "history:shape"
			}
			for g, s := range st.Ss {
				rs := o.L[g+1]
				if len(rs.L) != st.N {
					return fmt.Sprintf("history step %d: goroutine %d parsing %q did not finish its %d rounds (%s)", i, g, string(s), st.N, rs.String()), "history:par-incomplete"
				}
				for n, r := range rs.L {
					if msg, sig := check(i, string(s), r, fmt.Sprintf(" (goroutine %d of %d, round %d)", g, len(st.Ss), n)); msg != "" {
						return msg, sig + "-concurrent"
					}
				}
			}
		}
	}
	return "", ""
}

func c15HistShow(h []c15Step) string {
	if len(h) == 0 {
		return "nothing"
	}
	var b strings.Builder
	for i, st := range h {
		if i > 0 {
			b.WriteString("; ")
		}
		if b.Len() > 400 {
			b.WriteString("...")
			break
		}
		switch st.Op {
		case "parse":
			fmt.Fprintf(&b, "j%d := NewJid(%q)", i, string(st.S))
		case "set":
			fmt.Fprintf(&b, "j%d.%s = %q", st.K, st.F, string(st.V))
		case "par":
			fmt.Fprintf(&b, "%d goroutines x %d rounds of NewJid", len(st.Ss), st.N)
		}
	}
	return b.String()
}

// ---- generation ----
func c15P(s string) c15Step { return c15Step{Op: "parse", S: c15S(s)} }
func c15M(k int, f, v string) c15Step {
	return c15Step{Op: "set", K: k, F: f, V: c15S(v)}
}

// c15HistTriple: a well-formed triple whose domain carries the history's label.
func c15HistTriple(r *rand.Rand, label string) (l, d, res string) {
	d = label + c15Str(r, 1, 6, c15DomainOK)
	if r.Intn(4) != 0 {
		l = c15Str(r, 1, 6, c15LocalOK)
	}
	if r.Intn(4) != 0 {
		if l != "" {
			res = c15Str(r, 1, 8, nil)
		} else {
			res = c15Str(r, 1, 8, c15NoAt)
		}
	}
	if r.Intn(6) == 0 {
		if l != "" && r.Intn(2) == 0 {
			l = c15Splice(r, l)
		}
		if res != "" {
			res = c15Splice(r, res)
		}
	}
	return
}

func c15Render(l, d, res string) (full, bare string) {
	bare = d
	if l != "" {
		bare = l + "@" + d
	}
	full = bare
	if res != "" {
		full = bare + "/" + res
	}
	return
}

func c15HistValue(r *rand.Rand, pool []string) string {
	switch r.Intn(5) {
	case 0:
		return ""
	case 1:
		return []string{"nick", "x", "a@b/c", "other.example.org", " "}[r.Intn(5)]
	case 2:
		return pool[r.Intn(len(pool))]
	default:
		return c15Str(r, 1, 6, nil)
	}
}

func c15GenHist(r *rand.Rand, tier string) []interface{} {
	var out []interface{}
	idx := 0
	add := func(fam string, h []c15Step) {
		out = append(out, c15In{Kind: "hist", Form: fam, H: h})
		idx++
	}
	label := func() string { return fmt.Sprintf("h%d.", idx) }
	// exhaustive: every shape of address x every field x a few values: parse, assign, parse again
	for _, shape := range []string{"d", "l@d", "d/r", "l@d/r", "d/", "l@d/r/@x", "d/a/b"} {
		for _, f := range c15Fields {
			for _, v := range []string{"", "nick", "a@b/c"} {
				s := strings.Replace(shape, "d", label()+"d", 1)
				add("reparse", []c15Step{c15P(s), c15M(0, f, v), c15P(s)})
			}
		}
	}
	n := 600
	if tier == "thorough" {
		n = 8000
	}
	for i := 0; i < n; i++ {
		lb := label()
		// the strings of this history: 1-3 addresses, each with its bare form, sometimes a malformed one
		var pool, valid []string
		var resourced [][2]string // full, bare of the addresses that have a resource
		for m := 1 + r.Intn(3); m > 0; m-- {
			l, d, res := c15HistTriple(r, lb)
			full, bare := c15Render(l, d, res)
			pool = append(pool, full)
			valid = append(valid, full)
			if bare != full {
				pool = append(pool, bare)
				valid = append(valid, bare)
				resourced = append(resourced, [2]string{full, bare})
			}
		}
		if r.Intn(3) == 0 {
			l, d, _ := c15HistTriple(r, lb)
			bad := []string{"@" + d, l + "@", c15Insert(r, d, ' '), l + " x@" + d, l + "@" + d + "&/r"}[r.Intn(5)]
			if !c15SlashBeforeAt(bad) {
				pool = append(pool, bad)
			}
		}
		var h []c15Step
		fam := ""
		switch r.Intn(4) {
		case 0: // parse, assign, parse again (and again)
			fam = "reparse"
			s := valid[r.Intn(len(valid))]
			h = append(h, c15P(s))
			for k := 1 + r.Intn(3); k > 0; k-- {
				last := len(h) - 1
				h = append(h, c15M(last, c15Fields[r.Intn(3)], c15HistValue(r, pool)))
				if r.Intn(3) == 0 {
					h = append(h, c15M(last, c15Fields[r.Intn(3)], c15HistValue(r, pool)))
				}
				h = append(h, c15P(s))
			}
		case 1: // the renderings of a parsed address parsed again after the caller reduced / redirected its Jid
			fam = "rendering"
			full, bare := valid[0], valid[0]
			if len(resourced) > 0 {
				p := resourced[r.Intn(len(resourced))]
				full, bare = p[0], p[1]
			}
			h = []c15Step{c15P(full), c15M(0, "resource", ""), c15M(0, "domain", c15HistValue(r, pool)),
				c15P(full), c15P(bare), c15M(4, "resource", c15HistValue(r, pool)), c15P(bare), c15P(full)}
		case 2: // interleaved with other strings
			fam = "interleaved"
			var parses []int
			for k := 6 + r.Intn(7); k > 0; k-- {
				if len(parses) > 0 && r.Intn(3) == 0 {
					h = append(h, c15M(parses[r.Intn(len(parses))], c15Fields[r.Intn(3)], c15HistValue(r, pool)))
				} else {
					parses = append(parses, len(h))
					h = append(h, c15P(pool[r.Intn(len(pool))]))
				}
			}
		default: // goroutines parsing at the same time, the same and different strings, each assigning to its own results
			fam = "concurrent"
			if r.Intn(2) == 0 {
				h = append(h, c15P(pool[r.Intn(len(pool))]))
				h = append(h, c15M(0, c15Fields[r.Intn(3)], c15HistValue(r, pool)))
			}
			par := c15Step{Op: "par", N: 2 + r.Intn(3)}
			for g := 2 + r.Intn(5); g > 0; g-- {
				par.Ss = append(par.Ss, c15S(pool[r.Intn(len(pool))]))
			}
			h = append(h, par)
			for _, s := range pool {
				h = append(h, c15P(s))
			}
			if r.Intn(2) == 0 {
				h = append(h, par)
			}
		}
		add(fam, h)
	}
	return out
}

func c15HistKey(in c15In) (string, bool) {
	hist("kind:hist")
	hist("hist-family:" + in.Form)
	raw, _ := json.Marshal(in.H)
	nparse, nset, npar, reparsed := 0, 0, 0, false
	dirty := map[string]bool{} // strings one of whose results was assigned to
	strAt := map[int]string{}
	for i, st := range in.H {
		switch st.Op {
		case "parse":
			nparse++
			strAt[i] = string(st.S)
			if dirty[string(st.S)] {
				reparsed = true
			}
		case "set":
			nset++
			if s, ok := strAt[st.K]; ok {
				dirty[s] = true
			}
		case "par":
			npar++
		}
	}
	if reparsed {
		hist("hist:parse-after-assignment-to-earlier-result-of-same-string")
	}
	if npar > 0 {
		hist("hist:concurrent")
	}
	switch {
	case len(in.H) <= 3:
		hist("hist-steps:0-3")
	case len(in.H) <= 8:
		hist("hist-steps:4-8")
	default:
		hist("hist-steps:9+")
	}
	return "H:" + string(raw), reparsed || npar > 0
}
