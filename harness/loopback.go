package main

// Every listener of the harness gets its own loopback address (127.a.b.c): a client
// left over from another scenario -- of this process or of another check running at the
// same time -- that keeps dialling a port whose listener is gone can then never reach a
// server of a different scenario that happens to be given the same ephemeral port number.

import (
	"fmt"
	"net"
	"os"
	"sync/atomic"
	"time"
)

var loopbackCtr = uint32(time.Now().UnixNano())

var loopbackWorks = func() bool {
	ln, err := net.Listen("tcp", "127.77.77.77:0")
	if err != nil {
		return false
	}
	ln.Close()
	return true
}()

// listenLoopback: a TCP listener on a fresh 127.a.b.c address and an ephemeral port.
func listenLoopback() (net.Listener, error) {
	if !loopbackWorks {
		return net.Listen("tcp", "127.0.0.1:0")
	}
	for try := 0; try < 8; try++ {
		n := atomic.AddUint32(&loopbackCtr, 1)
		a := 1 + (uint32(os.Getpid())+n>>16)%250
		b := (n >> 8) & 0xff
		c := 1 + n&0xff%254
		ln, err := net.Listen("tcp", fmt.Sprintf("127.%d.%d.%d:0", a, b, c))
		if err == nil {
			return ln, nil
		}
	}
	return net.Listen("tcp", "127.0.0.1:0")
}
