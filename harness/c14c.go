package main

// C14, third family: from the CONFIGURED JID STRING to the wire (Model/ClientConfig.v).  The real xmpp.NewClient and
// Client.Connect run against a minimal plain-TCP server that completes the negotiation and records what it is
// given: the `to` of the first stream header, the character data of <auth/>, the resource asked for in <bind/>.
// The model is handed Go's own reading of the configured string as units (c15Units) and answers with the bytes it
// reads back from them, whether NewClient accepts, and the three values.

import (
	"encoding/base64"
	"encoding/hex"
	"encoding/xml"
	"fmt"
	"io"
	"math/rand"
	"net"
	"strings"
	"time"
	"unicode/utf8"

	"gosrc.io/xmpp"
)

type c14CfgIn struct {
	JidHex    string `json:"jid"`              // bytes of Config.Jid, hex (may be ill-formed UTF-8)
	Domain    string `json:"domain,omitempty"` // TransportConfiguration.Domain as configured ("" = not configured)
	SecretHex string `json:"secret"`
	OAuth     bool   `json:"oauth,omitempty"`
}

func (in c14CfgIn) jid() string    { b, _ := hex.DecodeString(in.JidHex); return string(b) }
func (in c14CfgIn) secret() string { b, _ := hex.DecodeString(in.SecretHex); return string(b) }

// local parts: what must arrive byte for byte (upper case, non-ASCII in several normal forms, punctuation legal in a
// local part, characters that case-fold or normalise to something else, ill-formed UTF-8, NUL, percent and
// backslash escapes that must NOT be undone), and ones NewJid must refuse
var c14cLocals = []string{"user", "Alice", "UPPER.lower", "ünï-cödé", "über", "漢字", "a+b=c", "x%41", "x\\40y", "dot.", "1", "İstanbul", "ǅ",
	"a_b~c!$*()", "ﬀ", "ß", "K", "Å", "ｆｕｌｌ", "\xff\xfe", "a\x80b", "\xc3", "nul\x00in", "a­b", "‍", "é", "%40", "&amp;", "  ", "a b", "a\tb", "a:b", "a'b", "a\"b", "a<b", "a>b", "a&b", "a/b", " ", "　x", ""}
var c14cDomains = []string{"xmpp.test", "Example.COM", "bücher.example", "localhost", "[::1]", "10.0.0.1", "a.b.c.d.e", "x", "dom ain", "d'q", ""}
var c14cResources = []string{"", "r", "Res Ource", "a@b", "a/b", "a@b/c@d", "/", "@", "élan", "漢", "x&y<z>", "tab\there", "  pad  ", "\"q'", "home/", "//"}
var c14cCfgDomains = []string{"", "", "", "cfg.example", "Other.Host", "x"}

func genC14c(r *rand.Rand, tier string) []interface{} {
	n := 60
	if tier == "thorough" {
		n = 600
	}
	var out []interface{}
	mk := func(jid string) {
		sec := c14SecretPool[r.Intn(len(c14SecretPool))]
		if r.Intn(25) == 0 {
			sec = ""
		}
		out = append(out, c14CfgIn{JidHex: hex.EncodeToString([]byte(jid)), Domain: c14cCfgDomains[r.Intn(len(c14cCfgDomains))],
			SecretHex: hex.EncodeToString([]byte(sec)), OAuth: r.Intn(4) == 0})
	}
	// every local part once with a plain domain, with and without a resource
	for _, l := range c14cLocals {
		mk(l + "@xmpp.test")
		mk(l + "@xmpp.test/" + c14cResources[r.Intn(len(c14cResources))])
	}
	// every resource once, after a plain and after a domain-only JID; every domain once
	for _, res := range c14cResources {
		mk("Us.Er@xmpp.test/" + res)
		mk("xmpp.test/" + res)
	}
	for _, d := range c14cDomains {
		mk("user@" + d)
		mk(d)
	}
	for i := 0; i < n; i++ {
		l := c14cLocals[r.Intn(len(c14cLocals))]
		d := c14cDomains[r.Intn(len(c14cDomains))]
		res := c14cResources[r.Intn(len(c14cResources))]
		var jid string
		switch r.Intn(8) {
		case 0:
			jid = d // domain-only JID: empty local part
		case 1:
			jid = d + "/" + res
		case 2:
			jid = l + "@" + d
		case 3:
			// '@' after the resource separator; the resource travels as XML character data, which cannot carry
			// ill-formed UTF-8 or NUL (they are written as U+FFFD): only the local part, which travels inside
			// base64, is drawn from the whole pool
			tail := l
			if !c14cXMLClean(tail) {
				tail = "Alice"
			}
			jid = l + "@" + d + "/" + res + "@" + tail
		default:
			jid = l + "@" + d + "/" + res
		}
		mk(jid)
	}
	return out
}

// c14cXMLClean: well-formed UTF-8 made of XML characters only (and no CR, which XML readers normalise)
func c14cXMLClean(s string) bool {
	if !utf8.ValidString(s) {
		return false
	}
	for _, c := range s {
		ok := c == 0x9 || c == 0xA || (c >= 0x20 && c <= 0xD7FF) || (c >= 0xE000 && c <= 0xFFFD) || c >= 0x10000
		if !ok {
			return false
		}
	}
	return true
}

// c14cServe: one connection of a server that accepts everything.
func c14cServe(conn net.Conn, got *[3]string, seen *[3]bool) {
	defer conn.Close()
	conn.SetDeadline(time.Now().Add(8 * time.Second))
	d := xml.NewDecoder(conn)
	header := func(features string) {
		fmt.Fprintf(conn, "<?xml version='1.0'?><stream:stream xmlns='jabber:client' xmlns:stream='http://etherx.jabber.org/streams' from='localhost' id='c14c' version='1.0'><stream:features>%s</stream:features>", features)
	}
	streams := 0
	for {
		tok, err := d.Token()
		if err != nil {
			return
		}
		se, ok := tok.(xml.StartElement)
		if !ok {
			continue
		}
		switch se.Name.Local {
		case "stream":
			streams++
			if streams == 1 {
				for _, a := range se.Attr {
					if a.Name.Local == "to" && a.Name.Space == "" {
						got[1], seen[1] = a.Value, true
					}
				}
				header("<mechanisms xmlns='urn:ietf:params:xml:ns:xmpp-sasl'><mechanism>X-OAUTH2</mechanism><mechanism>PLAIN</mechanism></mechanisms>")
			} else {
				header("<bind xmlns='urn:ietf:params:xml:ns:xmpp-bind'/>")
			}
		case "auth":
			var a struct {
				Text string `xml:",chardata"`
			}
			if d.DecodeElement(&a, &se) != nil {
				return
			}
			got[0], seen[0] = a.Text, true
			io.WriteString(conn, "<success xmlns='urn:ietf:params:xml:ns:xmpp-sasl'/>")
		case "iq":
			var q struct {
				ID   string `xml:"id,attr"`
				Bind *struct {
					Resource *string `xml:"resource"`
				} `xml:"urn:ietf:params:xml:ns:xmpp-bind bind"`
			}
			if d.DecodeElement(&q, &se) != nil {
				return
			}
			if q.Bind != nil {
				seen[2] = true
				if q.Bind.Resource != nil {
					got[2] = *q.Bind.Resource
				}
				var id strings.Builder
				xml.EscapeText(&id, []byte(q.ID))
				fmt.Fprintf(conn, "<iq type='result' id='%s'><bind xmlns='urn:ietf:params:xml:ns:xmpp-bind'><jid>u@localhost/bound</jid></bind></iq>", id.String())
			}
		default:
			d.Skip()
		}
	}
}

func runC14c(in c14CfgIn) Sx {
	jid := in.jid()
	ln, err := listenLoopback()
	if err != nil {
		return L(SBytes("listen-failed"))
	}
	defer ln.Close()
	var got [3]string
	var seen [3]bool
	done := make(chan struct{})
	go func() {
		defer close(done)
		conn, err := ln.Accept()
		if err != nil {
			return
		}
		c14cServe(conn, &got, &seen)
	}()
	cred := xmpp.Password(in.secret())
	if in.OAuth {
		cred = xmpp.OAuthToken(in.secret())
	}
	cfg := &xmpp.Config{
		TransportConfiguration: xmpp.TransportConfiguration{Address: ln.Addr().String(), Domain: in.Domain, ConnectTimeout: 2},
		Jid:                    jid, Credential: cred, Insecure: true, ConnectTimeout: 2,
	}
	client, err := xmpp.NewClient(cfg, xmpp.NewRouter(), func(error) {})
	if err != nil || client == nil {
		ln.Close()
		<-done
		return L(SBytes(jid), Z(0))
	}
	cerr := client.Connect()
	client.Disconnect()
	ln.Close()
	select {
	case <-done:
	case <-time.After(9 * time.Second):
		return L(SBytes(jid), Z(-1), SBytes("server did not finish"))
	}
	if cerr != nil || !seen[0] || !seen[1] || !seen[2] {
		e := ""
		if cerr != nil {
			e = "connect failed"
		}
		return L(SBytes(jid), Z(-1), SBytes(fmt.Sprintf("%s auth=%v header=%v bind=%v", e, seen[0], seen[1], seen[2])))
	}
	return L(SBytes(jid), Z(1), SBytes(got[0]), SBytes(got[1]), SBytes(got[2]))
}

func inputC14c(in c14CfgIn) Sx {
	return L(Z(3), c15Units(in.jid()), SBytes(in.Domain), SBytes(in.secret()))
}

// the property's own predicate, computed from the configured string alone
func oracleC14c(in c14CfgIn, obs Sx) (string, string) {
	if len(obs.L) < 2 {
		return "scenario did not run: " + obs.String(), "config-infra"
	}
	jid := in.jid()
	switch obs.L[1].Z {
	case 0:
		hist("config:refused")
		return "", ""
	case 1:
	default:
		return fmt.Sprintf("configured JID %q was accepted by NewClient but the negotiation against an accepting server did not complete: %s", jid, obs.String()), "config-incomplete"
	}
	local, rest := "", jid
	if i := strings.IndexByte(jid, '@'); i >= 0 {
		local, rest = jid[:i], jid[i+1:]
	}
	res := ""
	dom := rest
	if i := strings.IndexByte(rest, '/'); i >= 0 {
		dom, res = rest[:i], rest[i+1:]
	}
	if in.Domain != "" {
		dom = in.Domain
	}
	payload := string(bytesOf(obs.L[2]))
	dec, err := base64.StdEncoding.DecodeString(payload)
	want := "\x00" + local + "\x00" + in.secret()
	if err != nil || string(dec) != want {
		return fmt.Sprintf("configured JID %q, secret %q: the <auth/> payload %q decodes to %q (err %v), want %q", jid, in.secret(), payload, dec, err, want), "config-payload"
	}
	if g := string(bytesOf(obs.L[4])); g != res {
		return fmt.Sprintf("configured JID %q: <bind/> asks for resource %q, the JID's resource is %q", jid, g, res), "config-resource"
	}
	if g := string(bytesOf(obs.L[3])); g != dom {
		return fmt.Sprintf("configured JID %q, configured domain %q: the stream header is addressed to %q, want %q", jid, in.Domain, g, dom), "config-domain"
	}
	hist("config:accepted")
	if local == "" {
		hist("config:domain-only")
	}
	if res != "" {
		hist("config:with-resource")
	}
	return "", ""
}
